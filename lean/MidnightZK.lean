import MidnightZK.Model.Common
