import MidnightZK.Model.C19.Parse
open MidnightZK MidnightZK.C19 MidnightZK.C19.Driver

def dbgMain (args : List String) : IO UInt32 := do
  let line ← (← IO.getStdin).getLine
  let fuel := (args.head? >>= String.toNat?).getD 100
  match words line with
  | "equiv" :: ts =>
    match parseTree ts with
    | some (t, "|" :: ts) =>
      match parseDfa ts with
      | some (A, []) =>
        let r := t.toRx
        let (ms, rep, reps, letters) := equivSetup A r
        IO.println s!"markers {ms} classes {reps.length} letters {letters.size} rsize {r.size}"
        let e := explore (dfaMachine A) rxMachine (fun _ => false) (some A.init) (Rx.norm r) letters fuel
        IO.println s!"pairs {e.pairs.size} complete {e.complete} bad {e.bad}"
        let sizes := e.pairs.toList.map (fun p => p.2.size)
        IO.println s!"max size {sizes.foldl max 0}"
        for p in e.pairs.toList.take 12 do
          IO.println s!"{repr p.1} {p.2.size}"
        for p in (e.pairs.toList.drop 5).take 3 do
          IO.println s!"{repr p.2}"
      | _ => IO.println "bad dfa"
    | _ => IO.println "bad tree"
  | _ => IO.println "bad"
  return 0

def main (args : List String) : IO UInt32 := dbgMain args
