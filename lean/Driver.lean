import MidnightZK.Model.Common
import MidnightZK.Driver.C01
import MidnightZK.Driver.C02
import MidnightZK.Driver.C03
import MidnightZK.Driver.C04
import MidnightZK.Driver.C05
import MidnightZK.Driver.C06
import MidnightZK.Driver.C07
import MidnightZK.Driver.C08
import MidnightZK.Driver.C09
import MidnightZK.Driver.C10
import MidnightZK.Driver.C11
import MidnightZK.Driver.C12
import MidnightZK.Driver.C13
import MidnightZK.Driver.C14
import MidnightZK.Driver.C15
import MidnightZK.Driver.C16
import MidnightZK.Driver.C17
import MidnightZK.Driver.C18
import MidnightZK.Driver.C19
import MidnightZK.Driver.C20
open MidnightZK

/-- `mzk <property-id> < ops.txt > model.txt` : one answer line per request line. -/
def main (args : List String) : IO UInt32 := do
  let stdin ← IO.getStdin
  let stdout ← IO.getStdout
  match args with
  | ["echo"] => lineLoop stdin stdout (fun l => l.trimAscii.toString); return 0
  | ["C01"] => lineLoop stdin stdout C01.Driver.answer; return 0
  | ["C02"] => lineLoop stdin stdout C02.Driver.answer; return 0
  | ["C03"] => lineLoop stdin stdout C03.Driver.answer; return 0
  | ["C04"] => lineLoop stdin stdout C04.Driver.answer; return 0
  | ["C05"] => lineLoop stdin stdout C05.Driver.answer; return 0
  | ["C06"] => lineLoop stdin stdout C06.Driver.answer; return 0
  | ["C07"] => lineLoop stdin stdout C07.Driver.answer; return 0
  | ["C08"] => lineLoop stdin stdout C08.Driver.answer; return 0
  | ["C09"] => lineLoop stdin stdout C09.Driver.answer; return 0
  | ["C10"] => lineLoop stdin stdout C10.Driver.answer; return 0
  | ["C11"] => lineLoop stdin stdout C11.Driver.answer; return 0
  | ["C12"] => lineLoop stdin stdout C12.Driver.answer; return 0
  | ["C13"] => lineLoop stdin stdout C13.Driver.answer; return 0
  | ["C14"] => lineLoop stdin stdout C14.Driver.answer; return 0
  | ["C15"] => lineLoop stdin stdout C15.Driver.answer; return 0
  | ["C16"] => lineLoop stdin stdout C16.Driver.answer; return 0
  | ["C17"] => lineLoop stdin stdout C17.Driver.answer; return 0
  | ["C18"] => lineLoop stdin stdout C18.Driver.answer; return 0
  | ["C19"] => lineLoop stdin stdout C19.Driver.answer; return 0
  | ["C20"] => lineLoop stdin stdout C20.Driver.answer; return 0
  | _ => IO.eprintln "usage: mzk <property-id> < ops.txt > model.txt"; return 2
