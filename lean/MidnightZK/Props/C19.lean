import MidnightZK.Model.C19.Rx
import MidnightZK.Model.C19.Tree
import MidnightZK.Model.C19.Dfa
import MidnightZK.Proofs.C19.Lang
import MidnightZK.Proofs.C19.Bisim
import MidnightZK.Proofs.C19.Serial
import MidnightZK.Proofs.C19.Circuit
import MidnightZK.Proofs.C19.Base64
import MidnightZK.Gen.C19Base64
/-!
# C19 — regex compilation, automaton parsing and base64 decoding are exact

Property theorems (helper lemmas live in `MidnightZK/Proofs/C19`).
-/
namespace MidnightZK.C19
open Rx

/-! ## Reference semantics and the derivative matcher -/

/-- Brzozowski derivative, for every expression (with marker-unifying intersection and
complement among unmarked words), every marked letter and every word:
`w ∈ L(∂ₓ r) ↔ x·w ∈ L(r)`. This is what makes the derivative automaton explored by the
equivalence checker a faithful automaton for the reference language of `regex.rs`. -/
theorem deriv_spec (r : Rx) (x : Letter) (w : List Letter) :
    L (Rx.deriv x r) w ↔ L r (x :: w) :=
  deriv_correct r x w

/-- `nullable` decides membership of the empty word. -/
theorem nullable_spec (r : Rx) : r.nullable = true ↔ L r [] := nullable_iff r

/-- The executable derivative matcher decides the denotational language, for every expression
and every marked word. -/
theorem matches_iff_mem (r : Rx) (w : List Letter) : r.matches w = true ↔ L r w :=
  matches_correct r w

/-- Non-vacuity: a marked word of `(a|b marked 1)*·c`. -/
example : (Rx.cat (.star (.alt (.single [(0, 2 ^ 97)]) (.single [(1, 2 ^ 98)]))) (.single [(0, 2 ^ 99)])).matches
    [(97, 0), (98, 1), (99, 0)] = true := by decide

/-- The ACI-normalising smart constructors used by the derivative preserve the language
(so the soundness of the checker does not depend on how much they normalise). -/
theorem smart_constructors_spec (a b : Rx) (w : List Letter) :
    (L (mkCat a b) w ↔ L (.cat a b) w) ∧ (L (mkAlt a b) w ↔ L a w ∨ L b w) ∧
    (L (mkAnd a b) w ↔ L (.and a b) w) ∧ (L (mkStar a) w ↔ L (.star a) w) ∧
    (L (norm a) w ↔ L a w) :=
  ⟨L_mkCat a b w, L_mkAlt a b w, L_mkAnd a b w, L_mkStar a w, L_norm a w⟩

/-- Every marker carried by a word of the language is 0 or is written in the expression:
`mark`/`Single` are the only sources of markers. -/
theorem lang_markers (r : Rx) (w : List Letter) (h : L r w) :
    ∀ a ∈ w, a.2 = 0 ∨ a.2 ∈ markersOf r := mem_L_markers r w h

/-! ## Certificate checking -/

/-- Soundness of the generic certificate check (DESIGN A.7, index form with byte classes):
whatever search produced the certificate, if `verifyCert` accepts it then the two machines agree
on the acceptance of every word over bytes `< 256` and the certificate's markers. -/
theorem isBisim_sound {S T : Type} [DecidableEq S] [DecidableEq T]
    (MS : Machine S) (MT : Machine T) (hS : MS.SameSound) (hT : MT.SameSound)
    (s0 : S) (t0 : T) (c : Cert S T) (h : verifyCert MS MT s0 t0 c = true) :
    ∀ w : List Letter, (∀ a ∈ w, a.1 < 256 ∧ a.2 ∈ c.markers) →
      MS.acc (w.foldl MS.step s0) = MT.acc (w.foldl MT.step t0) :=
  verifyCert_sound MS MT hS hT s0 t0 c h

/-- `Automaton::run` followed by the comparison of the emitted markers is the run of the marked
machine that the checker explores (for every automaton, state table and word). -/
theorem run_marked (A : Dfa) (w : List Letter) :
    A.accepts (w.map (·.1)) (w.map (·.2)) = A.acceptsMarked w :=
  accepts_eq_acceptsMarked A w

/-- **Translation validation of `Regex::to_automaton`.** If the checker accepts a certificate for
automaton `A` and expression `r`, then for EVERY marked word over bytes: `A` accepts the bytes and
emits exactly these markers iff the marked word is in the reference language of `r`. -/
theorem checkEquivWith_sound (A : Dfa) (r : Rx) (c : Cert (Option Nat) Rx)
    (h : checkEquivWith A r c = true) (w : List Letter) (hw : ∀ a ∈ w, a.1 < 256) :
    A.accepts (w.map (·.1)) (w.map (·.2)) = true ↔ L r w := by
  unfold checkEquivWith at h
  simp only [Bool.and_eq_true, List.all_eq_true, List.contains_iff_mem] at h
  obtain ⟨⟨⟨h0, hr⟩, hA⟩, hv⟩ := h
  rw [accepts_eq_acceptsMarked]
  by_cases hm : ∀ a ∈ w, a.2 ∈ c.markers
  · have := verifyCert_sound (dfaMachine A) rxMachine (dfaMachine_sameSound A) rxMachine_sameSound
      (some A.init) (Rx.norm r) c hv w (fun a ha => ⟨hw a ha, hm a ha⟩)
    simp only [dfaMachine, rxMachine] at this
    rw [Dfa.acceptsMarked, this, foldl_deriv_eq_derivs, ← L_norm r w,
      ← matches_iff_mem (Rx.norm r) w, Rx.matches]
  · have hex : ∃ a ∈ w, a.2 ∉ c.markers := by
      simpa using hm
    have hrej := acceptsMarked_foreign A w c.markers hA hex (some A.init)
    simp only [Dfa.acceptsMarked, hrej, Bool.false_eq_true, false_iff]
    intro hL
    obtain ⟨a, ha, hna⟩ := hex
    rcases mem_L_markers r w hL a ha with h | h
    · exact hna (h ▸ h0)
    · exact hna (hr _ h)

/-- The decision procedure run by the driver (`mzk-c19`, request `equiv`): whatever the fuel and
the search do, the answer `true` is correct for all words. -/
theorem checkEquiv_sound (fuel : Nat) (A : Dfa) (r : Rx) (h : checkEquiv fuel A r = true)
    (w : List Letter) (hw : ∀ a ∈ w, a.1 < 256) :
    A.accepts (w.map (·.1)) (w.map (·.2)) = true ↔ L r w :=
  checkEquivWith_sound A r _ h w hw

/-- Consequence: an expression validated against an automaton is output-deterministic — a byte
string has at most one marking in the language ("its unique marker sequence"). -/
theorem checkEquiv_output_deterministic (fuel : Nat) (A : Dfa) (r : Rx)
    (h : checkEquiv fuel A r = true) (w w' : List Letter)
    (hw : ∀ a ∈ w, a.1 < 256) (hb : w.map (·.1) = w'.map (·.1)) (h1 : L r w) (h2 : L r w') :
    w = w' := by
  have hw' : ∀ a ∈ w', a.1 < 256 := by
    intro a ha
    have : a.1 ∈ w'.map (·.1) := List.mem_map_of_mem ha
    rw [← hb] at this
    obtain ⟨b, hb1, hb2⟩ := List.mem_map.mp this
    exact hb2 ▸ hw b hb1
  have a1 := (checkEquiv_sound fuel A r h w hw).mpr h1
  have a2 := (checkEquiv_sound fuel A r h w' hw').mpr h2
  rw [hb] at a1
  simp only [Dfa.accepts] at a1 a2
  cases hr : A.run A.init (w'.map (·.1)) with
  | none => simp [hr] at a1
  | some p =>
    obtain ⟨q, ms⟩ := p
    simp only [hr, Bool.and_eq_true, decide_eq_true_eq] at a1 a2
    have hm : w.map (·.2) = w'.map (·.2) := a1.2.symm.trans a2.2
    apply List.ext_getElem?
    intro i
    have e1 := congrArg (fun l => l[i]?) hb
    have e2 := congrArg (fun l => l[i]?) hm
    simp only [List.getElem?_map] at e1 e2
    cases hx : w[i]? <;> cases hy : w'[i]? <;> simp_all [Prod.ext_iff]

/-- **Automaton against automaton** (shipped serialized automaton vs fresh compilation of its
specification): if the checker accepts a certificate, the two automata accept the same byte
strings and emit the same markers, for EVERY word. -/
theorem dfaBisimWith_sound (A B : Dfa) (c : Cert (Option Nat) (Option Nat))
    (h : dfaBisimWith A B c = true) (w : List Letter) (hw : ∀ a ∈ w, a.1 < 256) :
    A.accepts (w.map (·.1)) (w.map (·.2)) = B.accepts (w.map (·.1)) (w.map (·.2)) := by
  unfold dfaBisimWith at h
  simp only [Bool.and_eq_true, List.all_eq_true, List.contains_iff_mem] at h
  obtain ⟨⟨hA, hB⟩, hv⟩ := h
  rw [accepts_eq_acceptsMarked, accepts_eq_acceptsMarked]
  by_cases hm : ∀ a ∈ w, a.2 ∈ c.markers
  · exact verifyCert_sound (dfaMachine A) (dfaMachine B) (dfaMachine_sameSound A)
      (dfaMachine_sameSound B) (some A.init) (some B.init) c hv w
      (fun a ha => ⟨hw a ha, hm a ha⟩)
  · have hex : ∃ a ∈ w, a.2 ∉ c.markers := by
      simpa using hm
    simp only [Dfa.acceptsMarked, acceptsMarked_foreign A w c.markers hA hex,
      acceptsMarked_foreign B w c.markers hB hex]

theorem dfaBisim_sound (fuel : Nat) (A B : Dfa) (h : dfaBisim fuel A B = true)
    (w : List Letter) (hw : ∀ a ∈ w, a.1 < 256) :
    A.accepts (w.map (·.1)) (w.map (·.2)) = B.accepts (w.map (·.1)) (w.map (·.2)) :=
  dfaBisimWith_sound A B _ h w hw

/-- In byte-string form: equivalent automata have the same run verdict and the same emitted
markers on every byte string. -/
theorem dfaBisim_sound_bytes (fuel : Nat) (A B : Dfa) (h : dfaBisim fuel A B = true)
    (bytes markers : List Nat) (hb : ∀ b ∈ bytes, b < 256) (hl : markers.length = bytes.length) :
    A.accepts bytes markers = B.accepts bytes markers := by
  have := dfaBisim_sound fuel A B h (bytes.zip markers) (by
    intro a ha
    exact hb _ (List.of_mem_zip ha).1)
  rwa [List.map_fst_zip (by omega), List.map_snd_zip (by omega)] at this

/-! ## Serialization -/

/-- `Automaton::deserialize ∘ Automaton::serialize = id`, for every automaton whose numbers fit
their Rust types and every continuation of the buffer: the automaton is recovered and exactly
the serialized bytes are consumed. -/
theorem serialize_roundtrip (A : AutData) (h : A.wf) (rest : List Nat) :
    deserialize (serialize A ++ rest) = some (A, rest) :=
  deserialize_serialize A h rest

/-- Non-vacuity: a two-state automaton with one transition. -/
example : deserialize (serialize ⟨2, 0, [1], [((0, 97), (1, 5))]⟩) =
    some (⟨2, 0, [1], [((0, 97), (1, 5))]⟩, []) := by decide

/-- A buffer shorter than one `usize` is rejected (`ensure_buf_len!`), never mis-read. -/
theorem deserialize_short (buf : List Nat) (h : buf.length < 8) : deserialize buf = none := by
  simp [deserialize, deUsize_short buf h]

/-! ## The in-circuit parser -/

/-- **Rows of `AutomatonChip::parse` ⇔ run of the automaton.** For every automaton, every shift
`off ≥ 1` of its states, every input over bytes and every output column: there is a choice of
the intermediate states (the prover's witness) that puts all rows of the region — one per
byte, plus the final sentinel row with letter 256 — into the lookup table **iff** the automaton
run on the input ends in a final state and emits exactly these outputs. Soundness (⇒) holds for
every prover-chosen state column; completeness (⇐) is the honest witness. -/
theorem parse_rows_iff_run (A : Dfa) (off : Nat) (hoff : 0 < off) (bytes outs : List Nat)
    (hb : ∀ b ∈ bytes, b < 256) :
    rowsOk A off (A.init + off) bytes outs ↔ A.accepts bytes outs = true := by
  rw [rowsOk_iff_run A off hoff bytes outs A.init hb]
  simp only [Dfa.accepts]
  constructor
  · rintro ⟨q, hq, hf⟩; simp [hq, hf]
  · intro h
    cases hr : A.run A.init bytes with
    | none => simp [hr] at h
    | some p =>
      obtain ⟨q, ms⟩ := p
      simp only [hr, Bool.and_eq_true, decide_eq_true_eq] at h
      exact ⟨q, by rw [h.2], h.1⟩

/-- **The loaded table.** The list of rows emitted for `AutomatonChip::load` — compared on every
run with the fixed columns of the real circuit (dummy row, one row per transition, one sentinel
row per final state, padding = dummy row) — contains exactly the rows that `parse_rows_iff_run`
is about. -/
theorem parse_table_rows (A : Dfa) (off : Nat) (row : Nat × Nat × Nat × Nat) :
    row ∈ tableRows A off ↔ inTable A off row :=
  mem_tableRows_iff A off row

/-- **Layout of `AutomatonChip::parse` ⇔ run of the automaton.** `mkRows` is the region the chip
lays out (compared cell by cell, copy constraint by copy constraint, with the real synthesis):
first state cell pinned to the constant `init + off`, one enabled row per byte with the letter
copied from the input and FREE next-state and output cells, the enabled sentinel row with
letter pinned to 256 and output pinned to 0, and a last, disabled row whose state is pinned
to 0. For every automaton, every shift `off ≥ 1`, every input (length 0 included) and every
output column: some assignment of the free state cells satisfies all copy constraints and all
lookups **iff** the automaton accepts the input and emits exactly these outputs. A prover
cannot deviate in the state or marker cells. -/
theorem parse_layout_iff_run (A : Dfa) (off : Nat) (hoff : 0 < off) (bytes outs : List Nat)
    (hb : ∀ b ∈ bytes, b < 256) :
    (∃ s0 sts, layoutSat A off (mkRows (s0, .fixed (A.init + off)) sts bytes outs)) ↔
      A.accepts bytes outs = true := by
  rw [← parse_rows_iff_run A off hoff bytes outs hb]
  constructor
  · rintro ⟨s0, sts, h⟩
    have := (layoutSat_mkRows_iff A off bytes outs (s0, .fixed (A.init + off))).mp ⟨sts, h⟩
    simp only [pinOk] at this
    rw [← this.1]
    exact this.2
  · intro h
    obtain ⟨sts, hs⟩ := (layoutSat_mkRows_iff A off bytes outs
      (A.init + off, .fixed (A.init + off))).mpr ⟨rfl, h⟩
    exact ⟨_, sts, hs⟩

/-- Non-vacuity: the two-state automaton `0 -a/5-> 1` (final) on the input "a". -/
example : ∃ s0 sts, layoutSat
    ⟨2, 0, #[false, true], (Array.replicate 512 none).set! 97 (some (1, 5))⟩ 1
    (mkRows (s0, .fixed (0 + 1)) sts [97] [5]) :=
  (parse_layout_iff_run ⟨2, 0, #[false, true], (Array.replicate 512 none).set! 97 (some (1, 5))⟩
    1 (by decide) [97] [5] (by simp)).mpr (by decide +kernel)

/-- The honest prover's verdict (`parseModel`, what the harness observes under `MockProver`) is
the acceptance of the automaton. -/
theorem parseModel_spec (A : Dfa) (bytes outs : List Nat) :
    parseModel A bytes = some outs ↔ A.accepts bytes outs = true := by
  simp only [parseModel, Dfa.accepts]
  cases A.run A.init bytes with
  | none => simp
  | some p =>
    obtain ⟨q, ms⟩ := p
    by_cases hf : A.isFinal q = true <;> simp [hf]

/-- End to end: a validated automaton put into the circuit makes the circuit satisfiable exactly
on the marked words of the expression's language. -/
theorem circuit_accepts_iff_lang (fuel : Nat) (A : Dfa) (r : Rx) (h : checkEquiv fuel A r = true)
    (off : Nat) (hoff : 0 < off) (w : List Letter) (hw : ∀ a ∈ w, a.1 < 256) :
    rowsOk A off (A.init + off) (w.map (·.1)) (w.map (·.2)) ↔ L r w := by
  rw [parse_rows_iff_run A off hoff _ _ (by
    intro b hb
    obtain ⟨a, ha, rfl⟩ := List.mem_map.mp hb
    exact hw a ha)]
  exact checkEquiv_sound fuel A r h w hw

/-! ## Base64 -/

/-- **`base64_decode_spec`, well-formed inputs.** For every byte string, the in-circuit decoder
(padded mode on the RFC 4648 encoding with `=`, unpadded mode on the encoding without) is
satisfiable and outputs the bytes followed by the zero fill to a multiple of 3. -/
theorem base64_decode_spec (pad : Bool) (bytes : List Nat) (h : ∀ b ∈ bytes, b < 256) :
    B64.decode pad (B64.encode pad bytes) = some (bytes ++ B64.zeroFill bytes.length) :=
  B64.decode_encode pad bytes h

/-- Non-vacuity: "AB" encodes to "QUI=" and decodes back (with one zero). -/
example : B64.decode true (B64.encode true [65, 66]) = some [65, 66, 0] := by decide

/-- **Malformed inputs.** A byte that is neither in the base64 alphabet nor `=` makes the
circuit unsatisfiable at every position, in both modes. -/
theorem base64_reject_char (pad : Bool) (input : List Nat)
    (h : ∃ c ∈ input, B64.val c = none ∧ c ≠ B64.b64Pad) : B64.decode pad input = none :=
  B64.decode_reject_char pad input h

/-- `=` in a chunk that is not the last one, and `=` followed by a non-`=` in the last chunk,
are unsatisfiable. -/
theorem base64_reject_padding :
    (∀ (pad : Bool) (c0 c1 c2 c3 c4 : Nat) (rest : List Nat),
      (c0 = B64.b64Pad ∨ c1 = B64.b64Pad ∨ c2 = B64.b64Pad ∨ c3 = B64.b64Pad) →
      B64.decode pad (c0 :: c1 :: c2 :: c3 :: c4 :: rest) = none) ∧
    (∀ c0 c1 c3 : Nat, c3 ≠ B64.b64Pad → B64.decode true [c0, c1, B64.b64Pad, c3] = none) :=
  ⟨B64.decode_reject_early_pad, fun c0 c1 c3 h => by
    simp [B64.decode, B64.lastPadded_reject c0 c1 c3 h]⟩

/-- The output always has 3 bytes per chunk of 4 characters ("3/4 of the padded length"). -/
theorem base64_output_length (pad : Bool) (input out : List Nat)
    (h : B64.decode pad input = some out) : out.length = (input.length + 3) / 4 * 3 :=
  B64.decode_length pad input out h

/-- The property's clause "unsatisfiable on every malformed input" does NOT hold at full
strength for the code as it is: the circuit is lenient about non-zero trailing bits (documented
in `base64_chip.rs`: "the decoding instructions do not enforce the validity of the base64
input"). Witness: `"QR=="` is satisfiable and leaks the stray bits into the output. -/
theorem base64_noncanonical_accepted :
    B64.decode true [81, 82, 61, 61] = some [65, 16, 0] := by decide

/-- Likewise the url-safe decoder accepts the two characters `+` and `/` of the standard
alphabet (`url_to_standard` only rewrites `-` and `_`). -/
theorem base64url_accepts_std_chars :
    B64.decodeUrl true [43, 47, 43, 47] = some [251, 255, 191] := by decide

/-! ## Constants regenerated from the Rust sources on every run (`translators/c19_base64.py`) -/

/-- **The model's alphabet is the code's table.** `B64.val` (used by every base64 theorem above)
agrees on every byte with `table.rs: BASE64_TABLE` as it is in the sources now; the table has 64
entries, pairwise distinct characters, and its values are `0..63` in order (so the two-character
lookup `two_entry_table` is a bijection between pairs of alphabet characters and 12-bit values). -/
theorem base64_table_generated :
    (∀ c ∈ List.range 256, B64.val c = (Gen.base64Table.find? (·.1 == c)).map (·.2)) ∧
    Gen.base64Table.map (·.2) = List.range 64 ∧
    (Gen.base64Table.map (·.1)).Nodup ∧
    (∀ e ∈ Gen.base64Table, e.1 < 256 ∧ B64.chr e.2 = e.1) := by
  refine ⟨by decide +kernel, by decide +kernel, by decide +kernel, by decide +kernel⟩

/-- `two_entry_table` combines two characters with `<< 8 ^` and two values with `<< 6 ^`; on the
entries of the table this is the arithmetic `c0 * 256 + c1 ↦ v0 * 64 + v1` of `B64.pairVal`;
`two_entry_default` is the pair `(ALT_PAD, ALT_PAD)`, whose value is 0. -/
theorem base64_two_entry_generated :
    Gen.twoEntryCharShift = 8 ∧ Gen.twoEntryValShift = 6 ∧
    (∀ e0 ∈ Gen.base64Table, ∀ e1 ∈ Gen.base64Table,
      (e0.1 <<< Gen.twoEntryCharShift) ^^^ e1.1 = e0.1 * 256 + e1.1 ∧
      (e0.2 <<< Gen.twoEntryValShift) ^^^ e1.2 = e0.2 * 64 + e1.2) ∧
    Gen.twoEntryDefault = B64.altPad * 256 + B64.altPad ∧
    B64.pairVal B64.altPad B64.altPad = some 0 := by
  refine ⟨by decide, by decide, by decide +kernel, by decide, by decide⟩

/-- `ALT_PAD`, `B64_PAD`, `ASCII_ZERO`, the substitutions of `url_to_standard` (on every byte)
and the sentinel letter of the parser are the ones of the sources. -/
theorem base64_constants_generated :
    Gen.altPad = B64.altPad ∧ Gen.b64Pad = B64.b64Pad ∧ Gen.asciiZero = 0 ∧
    B64.val Gen.altPad = some Gen.asciiZero ∧
    (∀ c ∈ List.range 256,
      B64.urlToStd c = Gen.urlSubst.foldl (fun c s => if c = s.1 then s.2 else c) c) ∧
    Gen.alphabetMaxSize = 256 := by
  refine ⟨by decide, by decide, by decide, by decide, by decide +kernel, by decide⟩

end MidnightZK.C19
