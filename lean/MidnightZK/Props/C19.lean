import MidnightZK.Model.C19.Rx
import MidnightZK.Model.C19.Tree
import MidnightZK.Model.C19.Dfa
import MidnightZK.Proofs.C19.Lang
import MidnightZK.Proofs.C19.Bisim
/-!
# C19 — regex compilation, automaton parsing and base64 decoding are exact

Property theorems (helper lemmas live in `MidnightZK/Proofs/C19`).
-/
namespace MidnightZK.C19
open Rx

/-! ## Reference semantics and the derivative matcher -/

/-- Brzozowski derivative, for every expression (with marker-unifying intersection and
complement among unmarked words), every marked letter and every word:
`w ∈ L(∂ₓ r) ↔ x·w ∈ L(r)`. This is what makes the derivative automaton explored by the
equivalence checker a faithful automaton for the reference language of `regex.rs`. -/
theorem deriv_spec (r : Rx) (x : Letter) (w : List Letter) :
    L (Rx.deriv x r) w ↔ L r (x :: w) :=
  deriv_correct r x w

/-- `nullable` decides membership of the empty word. -/
theorem nullable_spec (r : Rx) : r.nullable = true ↔ L r [] := nullable_iff r

/-- The executable derivative matcher decides the denotational language, for every expression
and every marked word. -/
theorem matches_iff_mem (r : Rx) (w : List Letter) : r.matches w = true ↔ L r w :=
  matches_correct r w

/-- Non-vacuity: a marked word of `(a|b marked 1)*·c`. -/
example : (Rx.cat (.star (.alt (.single [(0, 2 ^ 97)]) (.single [(1, 2 ^ 98)]))) (.single [(0, 2 ^ 99)])).matches
    [(97, 0), (98, 1), (99, 0)] = true := by decide

/-- The ACI-normalising smart constructors used by the derivative preserve the language
(so the soundness of the checker does not depend on how much they normalise). -/
theorem smart_constructors_spec (a b : Rx) (w : List Letter) :
    (L (mkCat a b) w ↔ L (.cat a b) w) ∧ (L (mkAlt a b) w ↔ L a w ∨ L b w) ∧
    (L (mkAnd a b) w ↔ L (.and a b) w) ∧ (L (mkStar a) w ↔ L (.star a) w) ∧
    (L (norm a) w ↔ L a w) :=
  ⟨L_mkCat a b w, L_mkAlt a b w, L_mkAnd a b w, L_mkStar a w, L_norm a w⟩

/-- Every marker carried by a word of the language is 0 or is written in the expression:
`mark`/`Single` are the only sources of markers. -/
theorem lang_markers (r : Rx) (w : List Letter) (h : L r w) :
    ∀ a ∈ w, a.2 = 0 ∨ a.2 ∈ markersOf r := mem_L_markers r w h

/-! ## Certificate checking -/

/-- Soundness of the generic certificate check (DESIGN A.7, index form with byte classes):
whatever search produced the certificate, if `verifyCert` accepts it then the two machines agree
on the acceptance of every word over bytes `< 256` and the certificate's markers. -/
theorem isBisim_sound {S T : Type} [DecidableEq S] [DecidableEq T]
    (MS : Machine S) (MT : Machine T) (hS : MS.SameSound) (hT : MT.SameSound)
    (s0 : S) (t0 : T) (c : Cert S T) (h : verifyCert MS MT s0 t0 c = true) :
    ∀ w : List Letter, (∀ a ∈ w, a.1 < 256 ∧ a.2 ∈ c.markers) →
      MS.acc (w.foldl MS.step s0) = MT.acc (w.foldl MT.step t0) :=
  verifyCert_sound MS MT hS hT s0 t0 c h

/-- `Automaton::run` followed by the comparison of the emitted markers is the run of the marked
machine that the checker explores (for every automaton, state table and word). -/
theorem run_marked (A : Dfa) (w : List Letter) :
    A.accepts (w.map (·.1)) (w.map (·.2)) = A.acceptsMarked w :=
  accepts_eq_acceptsMarked A w

/-- **Translation validation of `Regex::to_automaton`.** If the checker accepts a certificate for
automaton `A` and expression `r`, then for EVERY marked word over bytes: `A` accepts the bytes and
emits exactly these markers iff the marked word is in the reference language of `r`. -/
theorem checkEquivWith_sound (A : Dfa) (r : Rx) (c : Cert (Option Nat) Rx)
    (h : checkEquivWith A r c = true) (w : List Letter) (hw : ∀ a ∈ w, a.1 < 256) :
    A.accepts (w.map (·.1)) (w.map (·.2)) = true ↔ L r w := by
  unfold checkEquivWith at h
  simp only [Bool.and_eq_true, List.all_eq_true, List.contains_iff_mem] at h
  obtain ⟨⟨⟨h0, hr⟩, hA⟩, hv⟩ := h
  rw [accepts_eq_acceptsMarked]
  by_cases hm : ∀ a ∈ w, a.2 ∈ c.markers
  · have := verifyCert_sound (dfaMachine A) rxMachine (dfaMachine_sameSound A) rxMachine_sameSound
      (some A.init) (Rx.norm r) c hv w (fun a ha => ⟨hw a ha, hm a ha⟩)
    simp only [dfaMachine, rxMachine] at this
    rw [Dfa.acceptsMarked, this, foldl_deriv_eq_derivs, ← L_norm r w,
      ← matches_iff_mem (Rx.norm r) w, Rx.matches]
  · have hex : ∃ a ∈ w, a.2 ∉ c.markers := by
      simpa using hm
    have hrej := acceptsMarked_foreign A w c.markers hA hex (some A.init)
    simp only [Dfa.acceptsMarked, hrej, Bool.false_eq_true, false_iff]
    intro hL
    obtain ⟨a, ha, hna⟩ := hex
    rcases mem_L_markers r w hL a ha with h | h
    · exact hna (h ▸ h0)
    · exact hna (hr _ h)

/-- The decision procedure run by the driver (`mzk-c19`, request `equiv`): whatever the fuel and
the search do, the answer `true` is correct for all words. -/
theorem checkEquiv_sound (fuel : Nat) (A : Dfa) (r : Rx) (h : checkEquiv fuel A r = true)
    (w : List Letter) (hw : ∀ a ∈ w, a.1 < 256) :
    A.accepts (w.map (·.1)) (w.map (·.2)) = true ↔ L r w :=
  checkEquivWith_sound A r _ h w hw

/-- Consequence: an expression validated against an automaton is output-deterministic — a byte
string has at most one marking in the language ("its unique marker sequence"). -/
theorem checkEquiv_output_deterministic (fuel : Nat) (A : Dfa) (r : Rx)
    (h : checkEquiv fuel A r = true) (w w' : List Letter)
    (hw : ∀ a ∈ w, a.1 < 256) (hb : w.map (·.1) = w'.map (·.1)) (h1 : L r w) (h2 : L r w') :
    w = w' := by
  have hw' : ∀ a ∈ w', a.1 < 256 := by
    intro a ha
    have : a.1 ∈ w'.map (·.1) := List.mem_map_of_mem ha
    rw [← hb] at this
    obtain ⟨b, hb1, hb2⟩ := List.mem_map.mp this
    exact hb2 ▸ hw b hb1
  have a1 := (checkEquiv_sound fuel A r h w hw).mpr h1
  have a2 := (checkEquiv_sound fuel A r h w' hw').mpr h2
  rw [hb] at a1
  simp only [Dfa.accepts] at a1 a2
  cases hr : A.run A.init (w'.map (·.1)) with
  | none => simp [hr] at a1
  | some p =>
    obtain ⟨q, ms⟩ := p
    simp only [hr, Bool.and_eq_true, decide_eq_true_eq] at a1 a2
    have hm : w.map (·.2) = w'.map (·.2) := a1.2.symm.trans a2.2
    apply List.ext_getElem?
    intro i
    have e1 := congrArg (fun l => l[i]?) hb
    have e2 := congrArg (fun l => l[i]?) hm
    simp only [List.getElem?_map] at e1 e2
    cases hx : w[i]? <;> cases hy : w'[i]? <;> simp_all [Prod.ext_iff]

/-- **Automaton against automaton** (shipped serialized automaton vs fresh compilation of its
specification): if the checker accepts a certificate, the two automata accept the same byte
strings and emit the same markers, for EVERY word. -/
theorem dfaBisimWith_sound (A B : Dfa) (c : Cert (Option Nat) (Option Nat))
    (h : dfaBisimWith A B c = true) (w : List Letter) (hw : ∀ a ∈ w, a.1 < 256) :
    A.accepts (w.map (·.1)) (w.map (·.2)) = B.accepts (w.map (·.1)) (w.map (·.2)) := by
  unfold dfaBisimWith at h
  simp only [Bool.and_eq_true, List.all_eq_true, List.contains_iff_mem] at h
  obtain ⟨⟨hA, hB⟩, hv⟩ := h
  rw [accepts_eq_acceptsMarked, accepts_eq_acceptsMarked]
  by_cases hm : ∀ a ∈ w, a.2 ∈ c.markers
  · exact verifyCert_sound (dfaMachine A) (dfaMachine B) (dfaMachine_sameSound A)
      (dfaMachine_sameSound B) (some A.init) (some B.init) c hv w
      (fun a ha => ⟨hw a ha, hm a ha⟩)
  · have hex : ∃ a ∈ w, a.2 ∉ c.markers := by
      simpa using hm
    simp only [Dfa.acceptsMarked, acceptsMarked_foreign A w c.markers hA hex,
      acceptsMarked_foreign B w c.markers hB hex]

theorem dfaBisim_sound (fuel : Nat) (A B : Dfa) (h : dfaBisim fuel A B = true)
    (w : List Letter) (hw : ∀ a ∈ w, a.1 < 256) :
    A.accepts (w.map (·.1)) (w.map (·.2)) = B.accepts (w.map (·.1)) (w.map (·.2)) :=
  dfaBisimWith_sound A B _ h w hw

/-- In byte-string form: equivalent automata have the same run verdict and the same emitted
markers on every byte string. -/
theorem dfaBisim_sound_bytes (fuel : Nat) (A B : Dfa) (h : dfaBisim fuel A B = true)
    (bytes markers : List Nat) (hb : ∀ b ∈ bytes, b < 256) (hl : markers.length = bytes.length) :
    A.accepts bytes markers = B.accepts bytes markers := by
  have := dfaBisim_sound fuel A B h (bytes.zip markers) (by
    intro a ha
    exact hb _ (List.of_mem_zip ha).1)
  rwa [List.map_fst_zip (by omega), List.map_snd_zip (by omega)] at this

end MidnightZK.C19
