import MidnightZK.Model.C19.Rx
import MidnightZK.Model.C19.Tree
import MidnightZK.Model.C19.Dfa
import MidnightZK.Proofs.C19.Lang
import MidnightZK.Proofs.C19.Bisim
import MidnightZK.Proofs.C19.Serial
import MidnightZK.Proofs.C19.SerialCanon
import MidnightZK.Proofs.C19.Circuit
import MidnightZK.Proofs.C19.Coll
import MidnightZK.Proofs.C19.Base64
import MidnightZK.Proofs.C19.B64Circuit
import MidnightZK.Proofs.C19.DataTypes
import MidnightZK.Proofs.C19.FetchBytes
import MidnightZK.Gen.C19Base64
/-!
# C19 — regex compilation, automaton parsing and base64 decoding are exact

Property theorems (helper lemmas live in `MidnightZK/Proofs/C19`).
-/
namespace MidnightZK.C19
open Rx

/-! ## Reference semantics and the derivative matcher -/

/-- Brzozowski derivative, for every expression (with marker-unifying intersection and
complement among unmarked words), every marked letter and every word:
`w ∈ L(∂ₓ r) ↔ x·w ∈ L(r)`. This is what makes the derivative automaton explored by the
equivalence checker a faithful automaton for the reference language of `regex.rs`. -/
theorem deriv_spec (r : Rx) (x : Letter) (w : List Letter) :
    L (Rx.deriv x r) w ↔ L r (x :: w) :=
  deriv_correct r x w

/-- `nullable` decides membership of the empty word. -/
theorem nullable_spec (r : Rx) : r.nullable = true ↔ L r [] := nullable_iff r

/-- The executable derivative matcher decides the denotational language, for every expression
and every marked word. -/
theorem matches_iff_mem (r : Rx) (w : List Letter) : r.matches w = true ↔ L r w :=
  matches_correct r w

/-- Non-vacuity: a marked word of `(a|b marked 1)*·c`. -/
example : (Rx.cat (.star (.alt (.single [(0, 2 ^ 97)]) (.single [(1, 2 ^ 98)]))) (.single [(0, 2 ^ 99)])).matches
    [(97, 0), (98, 1), (99, 0)] = true := by decide

/-- The ACI-normalising smart constructors used by the derivative preserve the language
(so the soundness of the checker does not depend on how much they normalise). -/
theorem smart_constructors_spec (a b : Rx) (w : List Letter) :
    (L (mkCat a b) w ↔ L (.cat a b) w) ∧ (L (mkAlt a b) w ↔ L a w ∨ L b w) ∧
    (L (mkAnd a b) w ↔ L (.and a b) w) ∧ (L (mkStar a) w ↔ L (.star a) w) ∧
    (L (norm a) w ↔ L a w) :=
  ⟨L_mkCat a b w, L_mkAlt a b w, L_mkAnd a b w, L_mkStar a w, L_norm a w⟩

/-- Every marker carried by a word of the language is 0 or is written in the expression:
`mark`/`Single` are the only sources of markers. -/
theorem lang_markers (r : Rx) (w : List Letter) (h : L r w) :
    ∀ a ∈ w, a.2 = 0 ∨ a.2 ∈ markersOf r := mem_L_markers r w h

/-! ## Certificate checking -/

/-- Soundness of the generic certificate check (DESIGN A.7, index form with byte classes):
whatever search produced the certificate, if `verifyCert` accepts it then the two machines agree
on the acceptance of every word over bytes `< 256` and the certificate's markers. -/
theorem isBisim_sound {S T : Type} [DecidableEq S] [DecidableEq T]
    (MS : Machine S) (MT : Machine T) (hS : MS.SameSound) (hT : MT.SameSound)
    (s0 : S) (t0 : T) (c : Cert S T) (h : verifyCert MS MT s0 t0 c = true) :
    ∀ w : List Letter, (∀ a ∈ w, a.1 < 256 ∧ a.2 ∈ c.markers) →
      MS.acc (w.foldl MS.step s0) = MT.acc (w.foldl MT.step t0) :=
  verifyCert_sound MS MT hS hT s0 t0 c h

/-- `Automaton::run` followed by the comparison of the emitted markers is the run of the marked
machine that the checker explores (for every automaton, state table and word). -/
theorem run_marked (A : Dfa) (w : List Letter) :
    A.accepts (w.map (·.1)) (w.map (·.2)) = A.acceptsMarked w :=
  accepts_eq_acceptsMarked A w

/-- **Translation validation of `Regex::to_automaton`.** If the checker accepts a certificate for
automaton `A` and expression `r`, then for EVERY marked word over bytes: `A` accepts the bytes and
emits exactly these markers iff the marked word is in the reference language of `r`. -/
theorem checkEquivWith_sound (A : Dfa) (r : Rx) (c : Cert (Option Nat) Rx)
    (h : checkEquivWith A r c = true) (w : List Letter) (hw : ∀ a ∈ w, a.1 < 256) :
    A.accepts (w.map (·.1)) (w.map (·.2)) = true ↔ L r w := by
  unfold checkEquivWith at h
  simp only [Bool.and_eq_true, List.all_eq_true, List.contains_iff_mem] at h
  obtain ⟨⟨⟨h0, hr⟩, hA⟩, hv⟩ := h
  rw [accepts_eq_acceptsMarked]
  by_cases hm : ∀ a ∈ w, a.2 ∈ c.markers
  · have := verifyCert_sound (dfaMachine A) rxMachine (dfaMachine_sameSound A) rxMachine_sameSound
      (some A.init) (Rx.norm r) c hv w (fun a ha => ⟨hw a ha, hm a ha⟩)
    simp only [dfaMachine, rxMachine] at this
    rw [Dfa.acceptsMarked, this, foldl_deriv_eq_derivs, ← L_norm r w,
      ← matches_iff_mem (Rx.norm r) w, Rx.matches]
  · have hex : ∃ a ∈ w, a.2 ∉ c.markers := by
      simpa using hm
    have hrej := acceptsMarked_foreign A w c.markers hA hex (some A.init)
    simp only [Dfa.acceptsMarked, hrej, Bool.false_eq_true, false_iff]
    intro hL
    obtain ⟨a, ha, hna⟩ := hex
    rcases mem_L_markers r w hL a ha with h | h
    · exact hna (h ▸ h0)
    · exact hna (hr _ h)

/-- The decision procedure run by the driver (`mzk-c19`, request `equiv`): whatever the fuel and
the search do, the answer `true` is correct for all words. -/
theorem checkEquiv_sound (fuel : Nat) (A : Dfa) (r : Rx) (h : checkEquiv fuel A r = true)
    (w : List Letter) (hw : ∀ a ∈ w, a.1 < 256) :
    A.accepts (w.map (·.1)) (w.map (·.2)) = true ↔ L r w :=
  checkEquivWith_sound A r _ h w hw

/-- Consequence: an expression validated against an automaton is output-deterministic — a byte
string has at most one marking in the language ("its unique marker sequence"). -/
theorem checkEquiv_output_deterministic (fuel : Nat) (A : Dfa) (r : Rx)
    (h : checkEquiv fuel A r = true) (w w' : List Letter)
    (hw : ∀ a ∈ w, a.1 < 256) (hb : w.map (·.1) = w'.map (·.1)) (h1 : L r w) (h2 : L r w') :
    w = w' := by
  have hw' : ∀ a ∈ w', a.1 < 256 := by
    intro a ha
    have : a.1 ∈ w'.map (·.1) := List.mem_map_of_mem ha
    rw [← hb] at this
    obtain ⟨b, hb1, hb2⟩ := List.mem_map.mp this
    exact hb2 ▸ hw b hb1
  have a1 := (checkEquiv_sound fuel A r h w hw).mpr h1
  have a2 := (checkEquiv_sound fuel A r h w' hw').mpr h2
  rw [hb] at a1
  simp only [Dfa.accepts] at a1 a2
  cases hr : A.run A.init (w'.map (·.1)) with
  | none => simp [hr] at a1
  | some p =>
    obtain ⟨q, ms⟩ := p
    simp only [hr, Bool.and_eq_true, decide_eq_true_eq] at a1 a2
    have hm : w.map (·.2) = w'.map (·.2) := a1.2.symm.trans a2.2
    apply List.ext_getElem?
    intro i
    have e1 := congrArg (fun l => l[i]?) hb
    have e2 := congrArg (fun l => l[i]?) hm
    simp only [List.getElem?_map] at e1 e2
    cases hx : w[i]? <;> cases hy : w'[i]? <;> simp_all [Prod.ext_iff]

/-- **Automaton against automaton** (shipped serialized automaton vs fresh compilation of its
specification): if the checker accepts a certificate, the two automata accept the same byte
strings and emit the same markers, for EVERY word. -/
theorem dfaBisimWith_sound (A B : Dfa) (c : Cert (Option Nat) (Option Nat))
    (h : dfaBisimWith A B c = true) (w : List Letter) (hw : ∀ a ∈ w, a.1 < 256) :
    A.accepts (w.map (·.1)) (w.map (·.2)) = B.accepts (w.map (·.1)) (w.map (·.2)) := by
  unfold dfaBisimWith at h
  simp only [Bool.and_eq_true, List.all_eq_true, List.contains_iff_mem] at h
  obtain ⟨⟨hA, hB⟩, hv⟩ := h
  rw [accepts_eq_acceptsMarked, accepts_eq_acceptsMarked]
  by_cases hm : ∀ a ∈ w, a.2 ∈ c.markers
  · exact verifyCert_sound (dfaMachine A) (dfaMachine B) (dfaMachine_sameSound A)
      (dfaMachine_sameSound B) (some A.init) (some B.init) c hv w
      (fun a ha => ⟨hw a ha, hm a ha⟩)
  · have hex : ∃ a ∈ w, a.2 ∉ c.markers := by
      simpa using hm
    simp only [Dfa.acceptsMarked, acceptsMarked_foreign A w c.markers hA hex,
      acceptsMarked_foreign B w c.markers hB hex]

theorem dfaBisim_sound (fuel : Nat) (A B : Dfa) (h : dfaBisim fuel A B = true)
    (w : List Letter) (hw : ∀ a ∈ w, a.1 < 256) :
    A.accepts (w.map (·.1)) (w.map (·.2)) = B.accepts (w.map (·.1)) (w.map (·.2)) :=
  dfaBisimWith_sound A B _ h w hw

/-- In byte-string form: equivalent automata have the same run verdict and the same emitted
markers on every byte string. -/
theorem dfaBisim_sound_bytes (fuel : Nat) (A B : Dfa) (h : dfaBisim fuel A B = true)
    (bytes markers : List Nat) (hb : ∀ b ∈ bytes, b < 256) (hl : markers.length = bytes.length) :
    A.accepts bytes markers = B.accepts bytes markers := by
  have := dfaBisim_sound fuel A B h (bytes.zip markers) (by
    intro a ha
    exact hb _ (List.of_mem_zip ha).1)
  rwa [List.map_fst_zip (by omega), List.map_snd_zip (by omega)] at this

/-! ## Serialization -/

/-- `Automaton::deserialize ∘ Automaton::serialize = id`, for every automaton whose numbers fit
their Rust types and every continuation of the buffer: the automaton is recovered and exactly
the serialized bytes are consumed. -/
theorem serialize_roundtrip (A : AutData) (h : A.wf) (rest : List Nat) :
    deserialize (serialize A ++ rest) = some (A, rest) :=
  deserialize_serialize A h rest

/-- Non-vacuity: a two-state automaton with one transition. -/
example : deserialize (serialize ⟨2, 0, [1], [((0, 97), (1, 5))]⟩) =
    some (⟨2, 0, [1], [((0, 97), (1, 5))]⟩, []) := by decide

/-- **Canonical form: `serialize ∘ deserialize = id` on what is read.** Whenever
`Automaton::deserialize` succeeds on a byte buffer, the bytes it consumed are exactly the
serialization of the data it returns (entries in the order read), the rest is the unread suffix,
and every returned number fits its Rust type. With `serialize_roundtrip` the two functions are
mutually inverse bijections between well-formed data and accepted prefixes: there is no second
encoding of any automaton (no alternative length encodings, no padding, no ignored bits). -/
theorem deserialize_canonical (buf : List Nat) (hb : ∀ b ∈ buf, b < 256) (D : AutData)
    (rest : List Nat) (h : deserialize buf = some (D, rest)) :
    buf = serialize D ++ rest ∧ D.wf :=
  deserialize_inv buf hb D rest h

/-- Non-vacuity of `deserialize_canonical`: the 57 bytes of a two-state automaton. -/
example : ∃ D rest, deserialize (serialize ⟨2, 0, [1], [((0, 97), (1, 5))]⟩ ++ [7, 7]) = some (D, rest) ∧
    rest = [7, 7] := ⟨⟨2, 0, [1], [((0, 97), (1, 5))]⟩, [7, 7], by decide, rfl⟩

/-- **Two different automata never serialise to the same bytes**, and no serialization is a
proper prefix of another one (so a concatenation of serialized automata splits uniquely). -/
theorem serialize_prefix_free (A B : AutData) (hA : A.wf) (hB : B.wf) (r1 r2 : List Nat)
    (h : serialize A ++ r1 = serialize B ++ r2) : A = B ∧ r1 = r2 := by
  have h1 := serialize_roundtrip A hA r1
  rw [h, serialize_roundtrip B hB r2] at h1
  simp only [Option.some.injEq, Prod.mk.injEq] at h1
  exact ⟨h1.1.symm, h1.2.symm⟩

theorem serialize_injective (A B : AutData) (hA : A.wf) (hB : B.wf)
    (h : serialize A = serialize B) : A = B :=
  (serialize_prefix_free A B hA hB [] [] (by simp [h])).1

/-- **Length fields are binding.** A successful deserialization consumes exactly
`32 + 8·|final_states| + 25·|transitions|` bytes, where the two counts are the announced
`Vec` lengths: an INCREASED length field (more entries announced than the buffer holds) is an
error, a decreased one leaves the surplus unread (it is returned as `rest`; the only caller,
`deserialize_unwrap`, does not look at it — trailing bytes are NOT rejected by the code as it
is). -/
theorem deserialize_consumed_length (buf : List Nat) (hb : ∀ b ∈ buf, b < 256) (D : AutData)
    (rest : List Nat) (h : deserialize buf = some (D, rest)) :
    buf.length = 32 + 8 * D.finals.length + 25 * D.trans.length + rest.length := by
  have := (deserialize_inv buf hb D rest h).1
  rw [this, List.length_append, serialize_length]

/-- Consequence: a buffer whose announced lengths need more bytes than it has is rejected. In
particular every strict prefix of a serialization is rejected (truncation at ANY position). -/
theorem deserialize_truncated (A : AutData) (hA : A.wf) (hbytes : ∀ b ∈ serialize A, b < 256)
    (k : Nat) (hk : k < (serialize A).length) : deserialize ((serialize A).take k) = none := by
  cases hd : deserialize ((serialize A).take k) with
  | none => rfl
  | some p =>
    obtain ⟨D, rest⟩ := p
    have hb : ∀ b ∈ (serialize A).take k, b < 256 := fun b hx => hbytes b (List.mem_of_mem_take hx)
    obtain ⟨e, hD⟩ := deserialize_inv _ hb D rest hd
    have e2 : serialize A = serialize D ++ (rest ++ (serialize A).drop k) := by
      rw [← List.append_assoc, ← e, List.take_append_drop]
    have := serialize_prefix_free A D hA hD [] _ (by simpa using e2)
    have hl := congrArg List.length this.2
    simp only [List.length_nil, List.length_append, List.length_drop] at hl
    omega

/-- A buffer shorter than one `usize` is rejected (`ensure_buf_len!`), never mis-read. -/
theorem deserialize_short (buf : List Nat) (h : buf.length < 8) : deserialize buf = none := by
  simp [deserialize, deUsize_short buf h]

/-! ## The in-circuit parser -/

/-- **Rows of `AutomatonChip::parse` ⇔ run of the automaton.** For every automaton, every shift
`off ≥ 1` of its states, every input over bytes and every output column: there is a choice of
the intermediate states (the prover's witness) that puts all rows of the region — one per
byte, plus the final sentinel row with letter 256 — into the lookup table **iff** the automaton
run on the input ends in a final state and emits exactly these outputs. Soundness (⇒) holds for
every prover-chosen state column; completeness (⇐) is the honest witness. -/
theorem parse_rows_iff_run (A : Dfa) (off : Nat) (hoff : 0 < off) (bytes outs : List Nat)
    (hb : ∀ b ∈ bytes, b < 256) :
    rowsOk A off (A.init + off) bytes outs ↔ A.accepts bytes outs = true := by
  rw [rowsOk_iff_run A off hoff bytes outs A.init hb]
  simp only [Dfa.accepts]
  constructor
  · rintro ⟨q, hq, hf⟩; simp [hq, hf]
  · intro h
    cases hr : A.run A.init bytes with
    | none => simp [hr] at h
    | some p =>
      obtain ⟨q, ms⟩ := p
      simp only [hr, Bool.and_eq_true, decide_eq_true_eq] at h
      exact ⟨q, by rw [h.2], h.1⟩

/-- **The loaded table.** The list of rows emitted for `AutomatonChip::load` — compared on every
run with the fixed columns of the real circuit (dummy row, one row per transition, one sentinel
row per final state, padding = dummy row) — contains exactly the rows that `parse_rows_iff_run`
is about. -/
theorem parse_table_rows (A : Dfa) (off : Nat) (row : Nat × Nat × Nat × Nat) :
    row ∈ tableRows A off ↔ inTable A off row :=
  mem_tableRows_iff A off row

/-- **Layout of `AutomatonChip::parse` ⇔ run of the automaton.** `mkRows` is the region the chip
lays out (compared cell by cell, copy constraint by copy constraint, with the real synthesis):
first state cell pinned to the constant `init + off`, one enabled row per byte with the letter
copied from the input and FREE next-state and output cells, the enabled sentinel row with
letter pinned to 256 and output pinned to 0, and a last, disabled row whose state is pinned
to 0. For every automaton, every shift `off ≥ 1`, every input (length 0 included) and every
output column: some assignment of the free state cells satisfies all copy constraints and all
lookups **iff** the automaton accepts the input and emits exactly these outputs. A prover
cannot deviate in the state or marker cells. -/
theorem parse_layout_iff_run (A : Dfa) (off : Nat) (hoff : 0 < off) (bytes outs : List Nat)
    (hb : ∀ b ∈ bytes, b < 256) :
    (∃ s0 sts, layoutSat A off (mkRows (s0, .fixed (A.init + off)) sts bytes outs)) ↔
      A.accepts bytes outs = true := by
  rw [← parse_rows_iff_run A off hoff bytes outs hb]
  constructor
  · rintro ⟨s0, sts, h⟩
    have := (layoutSat_mkRows_iff A off bytes outs (s0, .fixed (A.init + off))).mp ⟨sts, h⟩
    simp only [pinOk] at this
    rw [← this.1]
    exact this.2
  · intro h
    obtain ⟨sts, hs⟩ := (layoutSat_mkRows_iff A off bytes outs
      (A.init + off, .fixed (A.init + off))).mpr ⟨rfl, h⟩
    exact ⟨_, sts, hs⟩

/-- Non-vacuity: the two-state automaton `0 -a/5-> 1` (final) on the input "a". -/
example : ∃ s0 sts, layoutSat
    ⟨2, 0, #[false, true], (Array.replicate 512 none).set! 97 (some (1, 5))⟩ 1
    (mkRows (s0, .fixed (0 + 1)) sts [97] [5]) :=
  (parse_layout_iff_run ⟨2, 0, #[false, true], (Array.replicate 512 none).set! 97 (some (1, 5))⟩
    1 (by decide) [97] [5] (by simp)).mpr (by decide +kernel)

/-! ## Several automata in one table (`NativeAutomaton::from_collection`) -/

/-- **Offsets of `from_collection`.** Whatever the automata (closed: numbers below `nb_states`)
and however many: the offsets `1, 1 + n₀, 1 + n₀ + n₁, …` give a well-formed collection — no
member uses state 0 (the dummy state) and the state ranges `[offᵢ, offᵢ + nᵢ)` are pairwise
disjoint — and the members are the given automata in order. -/
theorem from_collection_wf (As : List Dfa) (h : ∀ A ∈ As, A.closed) :
    collWf (collOf As) ∧ (collOf As).map (·.1) = As := by
  refine ⟨⟨?_, collFrom_pairwise As 1⟩, collFrom_fst As 1⟩
  intro p hp
  refine ⟨collFrom_ge As 1 p hp, h _ ?_⟩
  have : p.1 ∈ (collOf As).map (·.1) := List.mem_map_of_mem hp
  rwa [collOf, collFrom_fst] at this

/-- The executable closedness test (run by the driver on every automaton put in a collection)
implies `Dfa.closed`. -/
theorem closedB_sound (A : Dfa) (h : A.closedB = true) : A.closed := closedB_closed A h

/-- **The loaded table of a collection** (as emitted and compared with the fixed columns of the
real circuit configured with 2–4 automata) has exactly the rows of `inCollTable`: the dummy
row and, for every member, its shifted transitions and final-state sentinels. -/
theorem parse_collection_table_rows (C : List (Dfa × Nat)) (row : Nat × Nat × Nat × Nat) :
    row ∈ collTableRows C ↔ inCollTable C row :=
  mem_collTableRows_iff C row

/-- With one automaton the collection table is the single-automaton table of
`parse_table_rows`. -/
theorem parse_collection_table_single (A : Dfa) : collTableRows (collOf [A]) = tableRows A 1 := by
  simp [collTableRows, collOf, collFrom, tableRows]

/-- **A run never leaves its member's range, and the other members' rows are invisible to it.**
In a well-formed collection, any table row `(s, b, s', o)` on a byte whose source state lies in
the range of member `(A, off)` is `A`'s own transition `s - off --b/o--> s' - off`, and `s'` is
again in `A`'s range. (A prover that has been pinned to `A`'s initial state can therefore never
reach a state of another automaton.) -/
theorem collection_step_in_range (C : List (Dfa × Nat)) (hC : collWf C) (A : Dfa) (off : Nat)
    (hA : (A, off) ∈ C) (s b s' o : Nat) (hs : off ≤ s ∧ s < off + A.nStates) (hb : b < 256)
    (h : inCollTable C (s, b, s', o)) :
    (off ≤ s' ∧ s' < off + A.nStates) ∧ A.lookup (s - off) b = some (s' - off, o) :=
  inTable_step A off (hC.1 _ hA).1 (hC.1 _ hA).2 s b s' o hs.1 hb
    ((coll_row_restrict C hC A off hA s b s' o hs).mp h)

/-- **Layout of `AutomatonChip::parse(automaton_index, ·)` with several automata in the table ⇔
run of the chosen automaton.** For every well-formed collection (in particular every
`from_collection` of closed automata, any number of members), every member `(A, off)`, every
input and every output column: some assignment of the free state cells satisfies all copy
constraints (first state pinned to `A.init + off`) and all lookups into the SHARED table **iff**
`A` accepts the input and emits exactly these outputs. The rows of the other automata can
neither make a rejected input satisfiable nor change the markers. -/
theorem parse_collection_iff_run (C : List (Dfa × Nat)) (hC : collWf C) (A : Dfa) (off : Nat)
    (hA : (A, off) ∈ C) (bytes outs : List Nat) (hb : ∀ b ∈ bytes, b < 256) :
    (∃ s0 sts, layoutSatT (inCollTable C) (mkRows (s0, .fixed (A.init + off)) sts bytes outs)) ↔
      A.accepts bytes outs = true := by
  have hA' : 0 < off ∧ A.closed := hC.1 _ hA
  have hr : off ≤ A.init + off ∧ A.init + off < off + A.nStates := by
    have := hA'.2.1; omega
  rw [← parse_rows_iff_run A off hA'.1 bytes outs hb,
    ← rowsOkT_coll_iff C hC A off hA bytes outs (A.init + off) hb hr]
  constructor
  · rintro ⟨s0, sts, h⟩
    have := (layoutSatT_mkRows_iff _ bytes outs (s0, .fixed (A.init + off))).mp ⟨sts, h⟩
    simp only [pinOk] at this
    rw [← this.1]
    exact this.2
  · intro h
    obtain ⟨sts, hs⟩ := (layoutSatT_mkRows_iff _ bytes outs
      (A.init + off, .fixed (A.init + off))).mpr ⟨rfl, h⟩
    exact ⟨_, sts, hs⟩

/-- The same for the collection built by `from_collection` from a list of closed automata: the
`i`-th automaton, parsed in a circuit whose table holds all of them. -/
theorem parse_from_collection_iff_run (As : List Dfa) (h : ∀ A ∈ As, A.closed) (i : Nat)
    (A : Dfa) (off : Nat) (hi : collMember As i = some (A, off)) (bytes outs : List Nat)
    (hb : ∀ b ∈ bytes, b < 256) :
    (∃ s0 sts, layoutSatT (inCollTable (collOf As))
        (mkRows (s0, .fixed (A.init + off)) sts bytes outs)) ↔ A.accepts bytes outs = true :=
  parse_collection_iff_run _ (from_collection_wf As h).1 A off
    (List.mem_of_getElem? hi) bytes outs hb

/-- Non-vacuity: two automata `0 -a/5-> 1` (final) and `0 -b/7-> 1` (final) in one table; the
second one (offset 3) parses "b" and — the rows of the first being in the same table — still
rejects "a". -/
example :
    let A : Dfa := ⟨2, 0, #[false, true], (Array.replicate 512 none).set! 97 (some (1, 5))⟩
    let B : Dfa := ⟨2, 0, #[false, true], (Array.replicate 512 none).set! 98 (some (1, 7))⟩
    collMember [A, B] 1 = some (B, 3) ∧
    (∃ s0 sts, layoutSatT (inCollTable (collOf [A, B])) (mkRows (s0, .fixed (0 + 3)) sts [98] [7])) ∧
    ¬ (∃ s0 sts, layoutSatT (inCollTable (collOf [A, B])) (mkRows (s0, .fixed (0 + 3)) sts [97] [5])) := by
  intro A B
  have hcl : ∀ X ∈ [A, B], X.closed := by
    intro X hX
    simp only [List.mem_cons, List.not_mem_nil, or_false] at hX
    rcases hX with rfl | rfl <;> exact closedB_sound _ (by decide +kernel)
  have hm : collMember [A, B] 1 = some (B, 3) := rfl
  refine ⟨hm, ?_, ?_⟩
  · exact (parse_from_collection_iff_run [A, B] hcl 1 B 3 hm [98] [7] (by simp)).mpr (by decide +kernel)
  · rw [parse_from_collection_iff_run [A, B] hcl 1 B 3 hm [97] [5] (by simp)]
    decide +kernel

/-- The honest prover's verdict (`parseModel`, what the harness observes under `MockProver`) is
the acceptance of the automaton. -/
theorem parseModel_spec (A : Dfa) (bytes outs : List Nat) :
    parseModel A bytes = some outs ↔ A.accepts bytes outs = true := by
  simp only [parseModel, Dfa.accepts]
  cases A.run A.init bytes with
  | none => simp
  | some p =>
    obtain ⟨q, ms⟩ := p
    by_cases hf : A.isFinal q = true <;> simp [hf]

/-- End to end: a validated automaton put into the circuit makes the circuit satisfiable exactly
on the marked words of the expression's language. -/
theorem circuit_accepts_iff_lang (fuel : Nat) (A : Dfa) (r : Rx) (h : checkEquiv fuel A r = true)
    (off : Nat) (hoff : 0 < off) (w : List Letter) (hw : ∀ a ∈ w, a.1 < 256) :
    rowsOk A off (A.init + off) (w.map (·.1)) (w.map (·.2)) ↔ L r w := by
  rw [parse_rows_iff_run A off hoff _ _ (by
    intro b hb
    obtain ⟨a, ha, rfl⟩ := List.mem_map.mp hb
    exact hw a ha)]
  exact checkEquiv_sound fuel A r h w hw

/-- End to end with several automata in the table: a member validated against its expression
makes the circuit (shared table, first state pinned to the member's shifted initial state)
satisfiable exactly on the marked words of that expression's language. -/
theorem collection_circuit_accepts_iff_lang (fuel : Nat) (C : List (Dfa × Nat)) (hC : collWf C)
    (A : Dfa) (off : Nat) (hA : (A, off) ∈ C) (r : Rx) (h : checkEquiv fuel A r = true)
    (w : List Letter) (hw : ∀ a ∈ w, a.1 < 256) :
    (∃ s0 sts, layoutSatT (inCollTable C)
        (mkRows (s0, .fixed (A.init + off)) sts (w.map (·.1)) (w.map (·.2)))) ↔ L r w := by
  rw [parse_collection_iff_run C hC A off hA _ _ (by
    intro b hb
    obtain ⟨a, ha, rfl⟩ := List.mem_map.mp hb
    exact hw a ha)]
  exact checkEquiv_sound fuel A r h w hw

/-! ## Base64 -/

/-- **`base64_decode_spec`, well-formed inputs.** For every byte string, the in-circuit decoder
(padded mode on the RFC 4648 encoding with `=`, unpadded mode on the encoding without) is
satisfiable and outputs the bytes followed by the zero fill to a multiple of 3. -/
theorem base64_decode_spec (pad : Bool) (bytes : List Nat) (h : ∀ b ∈ bytes, b < 256) :
    B64.decode pad (B64.encode pad bytes) = some (bytes ++ B64.zeroFill bytes.length) :=
  B64.decode_encode pad bytes h

/-- Non-vacuity: "AB" encodes to "QUI=" and decodes back (with one zero). -/
example : B64.decode true (B64.encode true [65, 66]) = some [65, 66, 0] := by decide

/-- **Malformed inputs.** A byte that is neither in the base64 alphabet nor `=` makes the
circuit unsatisfiable at every position, in both modes. -/
theorem base64_reject_char (pad : Bool) (input : List Nat)
    (h : ∃ c ∈ input, B64.val c = none ∧ c ≠ B64.b64Pad) : B64.decode pad input = none :=
  B64.decode_reject_char pad input h

/-- `=` in a chunk that is not the last one, and `=` followed by a non-`=` in the last chunk,
are unsatisfiable. -/
theorem base64_reject_padding :
    (∀ (pad : Bool) (c0 c1 c2 c3 c4 : Nat) (rest : List Nat),
      (c0 = B64.b64Pad ∨ c1 = B64.b64Pad ∨ c2 = B64.b64Pad ∨ c3 = B64.b64Pad) →
      B64.decode pad (c0 :: c1 :: c2 :: c3 :: c4 :: rest) = none) ∧
    (∀ c0 c1 c3 : Nat, c3 ≠ B64.b64Pad → B64.decode true [c0, c1, B64.b64Pad, c3] = none) :=
  ⟨B64.decode_reject_early_pad, fun c0 c1 c3 h => by
    simp [B64.decode, B64.lastPadded_reject c0 c1 c3 h]⟩

/-- The output always has 3 bytes per chunk of 4 characters ("3/4 of the padded length"). -/
theorem base64_output_length (pad : Bool) (input out : List Nat)
    (h : B64.decode pad input = some out) : out.length = (input.length + 3) / 4 * 3 :=
  B64.decode_length pad input out h

/-- The property's clause "unsatisfiable on every malformed input" does NOT hold at full
strength for the code as it is: the circuit is lenient about non-zero trailing bits (documented
in `base64_chip.rs`: "the decoding instructions do not enforce the validity of the base64
input"). Witness: `"QR=="` is satisfiable and leaks the stray bits into the output. -/
theorem base64_noncanonical_accepted :
    B64.decode true [81, 82, 61, 61] = some [65, 16, 0] := by decide

/-- Likewise the url-safe decoder accepts the two characters `+` and `/` of the standard
alphabet (`url_to_standard` only rewrites `-` and `_`). -/
theorem base64url_accepts_std_chars :
    B64.decodeUrl true [43, 47, 43, 47] = some [251, 255, 191] := by decide

/-! ## The lookup wiring of `Base64Chip` -/

/-- **The lookup of `Base64Chip`.** With the table that `two_entry_table` builds from the
CURRENT `BASE64_TABLE` (regenerated from `table.rs` on every run; the emitted table and the
lookup expression `q·(a0·256 + a1) + (1 − q)·default` are compared with the real circuit): for
any two bytes and any prover-chosen value, the row `(c0·256 + c1, v)` is in the table iff both
bytes are alphabet characters and `v = val c0 · 64 + val c1`. No pair of bytes aliases another
one, no value is allowed for a non-alphabet character (`=` included). -/
theorem base64_lookup_sound (c0 c1 v : Nat) (h0 : c0 < 256) (h1 : c1 < 256) :
    (c0 * 256 + c1, v) ∈ B64.twoEntryTable Gen.base64Table ↔ B64.pairVal c0 c1 = some v :=
  B64.mem_twoEntry_iff c0 c1 v h0 h1

/-- **`base64_rows_sound`.** For every input over bytes (any length), padded or not, and every
claimed output: all constraints of `decode_base64` — the two lookups of every "Base64 chunk"
region with prover-chosen 12-bit values, the byte decomposition of `v01·2^12 + v23`, and on the
last chunk the assertion `pad_in_3rd → pad_in_4th` with the substitution of `=` by `ALT_PAD`
(padded) or the fill with the constant `ALT_PAD` (unpadded) — are satisfiable **iff** the
arithmetic decoder `B64.decode` (the one of `base64_decode_spec`, `base64_reject_char`,
`base64_reject_padding`) returns exactly this output. Hence: rows ⇒ output = RFC 4648 decoding of
the characters; every malformed-input class of those theorems ⇒ no satisfying rows. -/
theorem base64_rows_sound (padded : Bool) (input out : List Nat) (h : ∀ c ∈ input, c < 256) :
    B64.decodeSat (B64.twoEntryTable Gen.base64Table) padded input out ↔
      B64.decode padded input = some out :=
  B64.decodeSat_iff padded input h out

/-- Non-vacuity: the rows of "QUI=" are satisfiable with output "AB\0", and with no other. -/
example : B64.decodeSat (B64.twoEntryTable Gen.base64Table) true [81, 85, 73, 61] [65, 66, 0] ∧
    ¬ B64.decodeSat (B64.twoEntryTable Gen.base64Table) true [81, 85, 73, 61] [65, 66, 1] := by
  constructor
  · exact (base64_rows_sound true _ _ (by decide)).mpr (by decide)
  · rw [base64_rows_sound true _ _ (by decide)]; decide

/-- **RFC 4648 through the rows.** For every byte string, in both modes: the rows of
`decode_base64` on its standard encoding are satisfiable, and the ONLY output they admit is the
byte string followed by the zero fill — the prover has no freedom in the 12-bit values or the
output bytes. -/
theorem base64_rows_rfc (pad : Bool) (bytes out : List Nat) (h : ∀ b ∈ bytes, b < 256) :
    B64.decodeSat (B64.twoEntryTable Gen.base64Table) pad (B64.encode pad bytes) out ↔
      out = bytes ++ B64.zeroFill bytes.length := by
  rw [base64_rows_sound pad _ out (B64.encode_lt pad bytes), base64_decode_spec pad bytes h]
  simp [eq_comm]

/-- A non-alphabet, non-`=` byte anywhere in the input leaves no satisfying rows, whatever the
prover writes into the value cells. -/
theorem base64_rows_reject_char (pad : Bool) (input out : List Nat) (hb : ∀ c ∈ input, c < 256)
    (h : ∃ c ∈ input, B64.val c = none ∧ c ≠ B64.b64Pad) :
    ¬ B64.decodeSat (B64.twoEntryTable Gen.base64Table) pad input out := by
  rw [base64_rows_sound pad input out hb, base64_reject_char pad input h]
  simp

/-- Variable length (`var_decode_base64` on a `Base64Vec<_, M, 4>`): the chunks decoded are
those of the whole right-aligned buffer (filler `ALT_PAD`) in padded mode; the rows of that
buffer are satisfiable iff `B64.decode true` of the buffer returns the output, of which
`B64.decodeVar` keeps the last `3/4·len` bytes. -/
theorem base64_var_rows_sound (m : Nat) (input out : List Nat) (h : ∀ c ∈ input, c < 256) :
    B64.decodeSat (B64.twoEntryTable Gen.base64Table) true
        (List.replicate (m - input.length) B64.altPad ++ input) out ↔
      B64.decode true (List.replicate (m - input.length) B64.altPad ++ input) = some out :=
  B64.decodeSat_iff true _ (by
    intro c hc
    rcases List.mem_append.mp hc with h1 | h1
    · rw [(List.mem_replicate.mp h1).2]; decide
    · exact h c h1) out

/-! ## `ParserGadget`: windows of a byte sequence and decimal fields -/

/-- **`get_subsequence`.** For every sequence, window length and (prover-supplied) index: the
select loop of `parser_gadget.rs: get_subsequence` returns exactly the window
`sequence[idx .. idx + len]` when `idx ≤ n − len`, and the range assertion makes the circuit
unsatisfiable for every other index (no wrap-around window, no default-filled output). -/
theorem get_subsequence_spec (seq : List Nat) (idx len : Nat) :
    PG.getSubsequence seq idx len =
      if idx < seq.length - len + 1 then some ((seq.drop idx).take len) else none :=
  PG.getSubsequence_eq seq idx len

/-- Non-vacuity (the repository's own test vector): window of length 4 at index 1. -/
example : PG.getSubsequence [1, 2, 3, 4, 5, 6] 1 4 = some [2, 3, 4, 5] := by decide

/-- **`fetch_bytes` returns the window.** For every byte sequence, every window length
`len ≤ n` (the Rust code panics otherwise) and every prover-supplied index: the chunked
algorithm of `parser_gadget.rs: fetch_bytes` — the sequence packed into 31-byte little-endian
chunks plus a dummy chunk, `div_rem(idx, 31)`, coarse `get_subsequence` of
`min(nb_chunks, 1 + ⌈len/31⌉)` chunks, unpacking into bytes, fine `get_subsequence` at
`idx mod 31` — is satisfiable iff `idx ≤ n − len`, and then returns exactly
`sequence[idx .. idx + len]`: the two inner range assertions never reject an in-range index
(completeness) and the window never reads the zero padding of the last chunk or the dummy
chunk (soundness), at every chunk boundary. -/
theorem fetch_bytes_spec (seq : List Nat) (hb : ∀ b ∈ seq, b < 256) (idx len : Nat)
    (hlen : len ≤ seq.length) :
    PG.fetchBytes seq idx len =
      if idx < seq.length - len + 1 then some ((seq.drop idx).take len) else none :=
  PG.fetchBytes_eq seq hb idx len hlen

/-- Non-vacuity: the repository's vectors and a window that straddles the first chunk boundary. -/
example : PG.fetchBytes [1, 2, 4, 8, 16] 3 2 = some [8, 16] ∧ PG.fetchBytes [1, 2, 4, 8, 16] 4 2 = none ∧
    PG.fetchBytes ((List.range 70).map (· + 1)) 30 3 = some [31, 32, 33] := by decide +kernel

/-- **`ascii_to_int`.** For every byte string: satisfiable iff every byte is an ASCII digit
(a byte below `'0'` wraps around in `byte − 48` and fails the `< 10` assertion like a byte
above `'9'`), and then the result is the decimal value, leading zeros allowed. -/
theorem ascii_to_int_spec (input : List Nat) :
    PG.asciiToInt input =
      if (∀ b ∈ input, 48 ≤ b ∧ b < 58) then some (PG.decimal input) else none :=
  PG.asciiToInt_eq input

/-- Non-vacuity: "000123" reads as 123; "12a" is refused. -/
example : PG.asciiToInt [48, 48, 48, 49, 50, 51] = some 123 ∧ PG.asciiToInt [49, 50, 97] = none := by
  decide

/-- **`date_to_int`**, all four `(DateFormat, Separator)` combinations, every input of the
asserted length: satisfiable iff the separator positions (if any) hold the given character and
the other eight characters are digits; the value is `DD + 100·MM + 10000·YYYY` (no calendar
validity, as documented). -/
theorem date_to_int_spec (s s1 s2 d1 d2 m1 m2 y1 y2 y3 y4 : Nat) :
    let digits := PG.isDigit y1 ∧ PG.isDigit y2 ∧ PG.isDigit y3 ∧ PG.isDigit y4 ∧ PG.isDigit m1 ∧
      PG.isDigit m2 ∧ PG.isDigit d1 ∧ PG.isDigit d2
    let v := PG.decimal [d1, d2] + 100 * PG.decimal [m1, m2] + 10000 * PG.decimal [y1, y2, y3, y4]
    PG.dateToInt .ddmmyyyy none [d1, d2, m1, m2, y1, y2, y3, y4] = (if digits then some v else none) ∧
    PG.dateToInt .yyyymmdd none [y1, y2, y3, y4, m1, m2, d1, d2] = (if digits then some v else none) ∧
    PG.dateToInt .ddmmyyyy (some s) [d1, d2, s1, m1, m2, s2, y1, y2, y3, y4] =
      (if s1 = s ∧ s2 = s then (if digits then some v else none) else none) ∧
    PG.dateToInt .yyyymmdd (some s) [y1, y2, y3, y4, s1, m1, m2, s2, d1, d2] =
      (if s1 = s ∧ s2 = s then (if digits then some v else none) else none) :=
  ⟨PG.dateToInt_dmy d1 d2 m1 m2 y1 y2 y3 y4, PG.dateToInt_ymd d1 d2 m1 m2 y1 y2 y3 y4,
    PG.dateToInt_dmy_sep s s1 s2 d1 d2 m1 m2 y1 y2 y3 y4,
    PG.dateToInt_ymd_sep s s1 s2 d1 d2 m1 m2 y1 y2 y3 y4⟩

/-- Non-vacuity: "31-12-1999" reads as 19991231. -/
example : PG.dateToInt .ddmmyyyy (some 45) [51, 49, 45, 49, 50, 45, 49, 57, 57, 57] = some 19991231 := by
  decide

/-! ## Constants regenerated from the Rust sources on every run (`translators/c19_base64.py`) -/

/-- **The model's alphabet is the code's table.** `B64.val` (used by every base64 theorem above)
agrees on every byte with `table.rs: BASE64_TABLE` as it is in the sources now; the table has 64
entries, pairwise distinct characters, and its values are `0..63` in order (so the two-character
lookup `two_entry_table` is a bijection between pairs of alphabet characters and 12-bit values). -/
theorem base64_table_generated :
    (∀ c ∈ List.range 256, B64.val c = (Gen.base64Table.find? (·.1 == c)).map (·.2)) ∧
    Gen.base64Table.map (·.2) = List.range 64 ∧
    (Gen.base64Table.map (·.1)).Nodup ∧
    (∀ e ∈ Gen.base64Table, e.1 < 256 ∧ B64.chr e.2 = e.1) := by
  refine ⟨by decide +kernel, by decide +kernel, by decide +kernel, by decide +kernel⟩

/-- `two_entry_table` combines two characters with `<< 8 ^` and two values with `<< 6 ^`; on the
entries of the table this is the arithmetic `c0 * 256 + c1 ↦ v0 * 64 + v1` of `B64.pairVal`;
`two_entry_default` is the pair `(ALT_PAD, ALT_PAD)`, whose value is 0. -/
theorem base64_two_entry_generated :
    Gen.twoEntryCharShift = 8 ∧ Gen.twoEntryValShift = 6 ∧
    (∀ e0 ∈ Gen.base64Table, ∀ e1 ∈ Gen.base64Table,
      (e0.1 <<< Gen.twoEntryCharShift) ^^^ e1.1 = e0.1 * 256 + e1.1 ∧
      (e0.2 <<< Gen.twoEntryValShift) ^^^ e1.2 = e0.2 * 64 + e1.2) ∧
    Gen.twoEntryDefault = B64.altPad * 256 + B64.altPad ∧
    B64.pairVal B64.altPad B64.altPad = some 0 := by
  refine ⟨by decide, by decide, by decide +kernel, by decide, by decide⟩

/-- `ALT_PAD`, `B64_PAD`, `ASCII_ZERO`, the substitutions of `url_to_standard` (on every byte)
and the sentinel letter of the parser are the ones of the sources. -/
theorem base64_constants_generated :
    Gen.altPad = B64.altPad ∧ Gen.b64Pad = B64.b64Pad ∧ Gen.asciiZero = 0 ∧
    B64.val Gen.altPad = some Gen.asciiZero ∧
    (∀ c ∈ List.range 256,
      B64.urlToStd c = Gen.urlSubst.foldl (fun c s => if c = s.1 then s.2 else c) c) ∧
    Gen.alphabetMaxSize = 256 := by
  refine ⟨by decide, by decide, by decide, by decide, by decide +kernel, by decide⟩

end MidnightZK.C19
