import MidnightZK.Model.C11.Jubjub
/-!
# C11 — curve types implement the group law; encodings are canonical and checked
-/
namespace MidnightZK.C11
open Jubjub Lean.Grind

/-- `CompletedPoint::into_extended` keeps the invariant `T1·T2·Z = U·V`. -/
theorem into_extended_invariant {F : Type} [CommRing F] (u v z t : F) :
    let r := intoExtended u v z t
    r.t1 * r.t2 * r.z = r.u * r.v := by
  simp only [intoExtended]; grind

end MidnightZK.C11
