import MidnightZK.Model.C11.Jubjub
import MidnightZK.Proofs.C11.Edwards
import MidnightZK.Proofs.C11.Jubjub
import MidnightZK.Proofs.C11.Toy
import MidnightZK.Proofs.C11.Weierstrass
import MidnightZK.Proofs.C11.Codec
import MidnightZK.Proofs.C11.JubjubField
import MidnightZK.Proofs.C11.Batch
import MidnightZK.Proofs.C11.Flags
import MidnightZK.Model.C11.Batch
import MidnightZK.Model.C11.Params
import MidnightZK.Model.C11.Codec
import MidnightZK.Gen.C11Constants
/-!
# C11 — curve types implement the group law; encodings are canonical and checked

Property theorems. The models (`Model/C11/*`) are polymorphic in the coordinate field: the
definitions the theorems speak about are the very definitions the driver `mzk-c11` evaluates
over `Fp p`, which the correspondence harness compares with the Rust code on every run.

Part 1 — Jubjub (`curves/src/jubjub/curve.rs`, pure Rust): every extended / Niels / doubling /
negation formula maps to the complete affine twisted-Edwards law, for *all* well-formed inputs
on the curve (no exceptional cases: completeness is proved from "`d` is a non-square, `-1` is a
square, `2 ≠ 0`"); the scalar-multiplication loop follows the affine double-and-add schedule;
`ct_eq` / `is_identity` decide the affine relations they stand for.
-/
namespace MidnightZK.C11
open Jubjub

variable {F : Type} [Lean.Grind.Field F]

/-! ## Jubjub: extended-coordinate formulas = affine law -/

/-- Completeness of the `a = -1` twisted-Edwards law: for points on the curve the two
denominators `1 ± d·u₁u₂v₁v₂` of the affine law never vanish. Hence `add`, `double`, `sub` of
`jubjub/curve.rs` have no exceptional inputs (identity, `P = Q`, `P = -Q`, small order, …). -/
theorem edwards_denominators_ne_zero {d : F} (hc : Complete d) {p q : F × F}
    (hp : EOn d p) (hq : EOn d q) :
    1 + d * p.1 * q.1 * p.2 * q.2 ≠ 0 ∧ 1 - d * p.1 * q.1 * p.2 * q.2 ≠ 0 :=
  denoms_ne_zero hc hp hq

example : (1 : Toy.K) + 2 * 2 * 3 * 4 * 2 ≠ 0 ∧ (1 : Toy.K) - 2 * 2 * 3 * 4 * 2 ≠ 0 :=
  edwards_denominators_ne_zero Toy.complete (p := (2, 4)) (q := (3, 2)) (by unfold EOn; decide)
    (by unfold EOn; decide)

/-- The affine law is closed on the curve. -/
theorem edwards_add_closed {d : F} (hc : Complete d) {p q : F × F} (hp : EOn d p) (hq : EOn d q) :
    EOn d (eAdd (-1) d p q) :=
  eAdd_on_curve d hp hq (denoms_ne_zero hc hp hq).1 (denoms_ne_zero hc hp hq).2

example : EOn (2 : Toy.K) (eAdd (-1) 2 (2, 4) (3, 2)) :=
  edwards_add_closed Toy.complete (by unfold EOn; decide) (by unfold EOn; decide)

/-- `&JubjubExtended + &JubjubExtended` (= `self + other.to_niels()`, `EDWARDS_D2 = 2d`): for
all well-formed points on the curve, in any projective representation, the result is
well-formed and its affine value is the affine sum. -/
theorem ext_add_spec {d : F} (hc : Complete d) (P Q : Ext F) (hP : WF P) (hQ : WF Q)
    (oP : EOn d P.toAffine) (oQ : EOn d Q.toAffine) :
    WF (P.add (d + d) Q) ∧ (P.add (d + d) Q).toAffine = eAdd (-1) d P.toAffine Q.toAffine :=
  addENiels_spec d P Q hP hQ hc.two_ne (denoms_ne_zero hc oP oQ).1 (denoms_ne_zero hc oP oQ).2

example : (Toy.P.add (2 + 2) Toy.Q).toAffine = eAdd (-1) 2 Toy.P.toAffine Toy.Q.toAffine :=
  (ext_add_spec Toy.complete _ _ Toy.P_wf Toy.Q_wf Toy.P_on Toy.Q_on).2

/-- `&JubjubExtended - &JubjubExtended`. -/
theorem ext_sub_spec {d : F} (hc : Complete d) (P Q : Ext F) (hP : WF P) (hQ : WF Q)
    (oP : EOn d P.toAffine) (oQ : EOn d Q.toAffine) :
    WF (P.sub (d + d) Q) ∧
    (P.sub (d + d) Q).toAffine = eAdd (-1) d P.toAffine (eNeg Q.toAffine) :=
  subENiels_spec d P Q hP hQ hc.two_ne (denoms_ne_zero hc oP oQ).1 (denoms_ne_zero hc oP oQ).2

example : (Toy.P.sub (2 + 2) Toy.Q).toAffine = eAdd (-1) 2 Toy.P.toAffine (eNeg Toy.Q.toAffine) :=
  (ext_sub_spec Toy.complete _ _ Toy.P_wf Toy.Q_wf Toy.P_on Toy.Q_on).2

/-- `&JubjubExtended + &JubjubAffineNiels` with `JubjubAffine::to_niels` (mixed addition,
`JubjubExtended + JubjubAffine`, and — with `P = from(other)` — `JubjubAffine + JubjubAffine`). -/
theorem niels_add_spec {d : F} (hc : Complete d) (P : Ext F) (q : F × F) (hP : WF P)
    (oP : EOn d P.toAffine) (oq : EOn d q) :
    WF (addANiels P (affToNiels (d + d) q)) ∧
    (addANiels P (affToNiels (d + d) q)).toAffine = eAdd (-1) d P.toAffine q :=
  addANiels_spec d P q hP hc.two_ne (denoms_ne_zero hc oP oq).1 (denoms_ne_zero hc oP oq).2

example : (addANiels Toy.P (affToNiels (2 + 2) (3, 2))).toAffine = eAdd (-1) 2 Toy.P.toAffine (3, 2) :=
  (niels_add_spec Toy.complete _ _ Toy.P_wf Toy.P_on (by unfold EOn; decide)).2

/-- `&JubjubExtended - &JubjubAffineNiels`. -/
theorem niels_sub_spec {d : F} (hc : Complete d) (P : Ext F) (q : F × F) (hP : WF P)
    (oP : EOn d P.toAffine) (oq : EOn d q) :
    WF (subANiels P (affToNiels (d + d) q)) ∧
    (subANiels P (affToNiels (d + d) q)).toAffine = eAdd (-1) d P.toAffine (eNeg q) :=
  subANiels_spec d P q hP hc.two_ne (denoms_ne_zero hc oP oq).1 (denoms_ne_zero hc oP oq).2

example : (subANiels Toy.P (affToNiels (2 + 2) (3, 2))).toAffine
    = eAdd (-1) 2 Toy.P.toAffine (eNeg (3, 2)) :=
  (niels_sub_spec Toy.complete _ _ Toy.P_wf Toy.P_on (by unfold EOn; decide)).2

/-- `JubjubAffine + JubjubAffine` (`JubjubExtended::from(*other) + self`). -/
theorem affine_add_spec {d : F} (hc : Complete d) (p q : F × F) (op : EOn d p) (oq : EOn d q) :
    (addANiels (ofAffine q) (affToNiels (d + d) p)).toAffine = eAdd (-1) d q p := by
  have h := niels_add_spec hc (ofAffine q) p (ofAffine_spec q).1
    (by rw [(ofAffine_spec q).2]; exact oq) op
  rw [(ofAffine_spec q).2] at h
  exact h.2

example : (addANiels (ofAffine (3, 2)) (affToNiels ((2 : Toy.K) + 2) (2, 4))).toAffine
    = eAdd (-1) 2 (3, 2) (2, 4) :=
  affine_add_spec Toy.complete _ _ (by unfold EOn; decide) (by unfold EOn; decide)

/-- `JubjubExtended::double`: equals the affine law applied to `(P, P)`; no exceptional point. -/
theorem ext_double_spec {d : F} (hc : Complete d) (P : Ext F) (hP : WF P) (oP : EOn d P.toAffine) :
    WF P.double ∧ P.double.toAffine = eAdd (-1) d P.toAffine P.toAffine :=
  double_spec d P hP oP (denoms_ne_zero hc oP oP).1 (denoms_ne_zero hc oP oP).2

example : Toy.Q.double.toAffine = eAdd (-1) 2 Toy.Q.toAffine Toy.Q.toAffine :=
  (ext_double_spec Toy.complete _ Toy.Q_wf Toy.Q_on).2

/-- `JubjubExtended::mul_by_cofactor` = three affine doublings. -/
theorem mul_by_cofactor_spec {d : F} (hc : Complete d) (P : Ext F) (hP : WF P)
    (oP : EOn d P.toAffine) :
    let dbl := fun p : F × F => eAdd (-1) d p p
    WF P.mulByCofactor ∧ P.mulByCofactor.toAffine = dbl (dbl (dbl P.toAffine)) := by
  intro dbl
  obtain ⟨w1, e1⟩ := ext_double_spec hc P hP oP
  have o1 : EOn d P.double.toAffine := by rw [e1]; exact edwards_add_closed hc oP oP
  obtain ⟨w2, e2⟩ := ext_double_spec hc _ w1 o1
  have o2 : EOn d P.double.double.toAffine := by rw [e2]; exact edwards_add_closed hc o1 o1
  obtain ⟨w3, e3⟩ := ext_double_spec hc _ w2 o2
  refine ⟨w3, ?_⟩
  simp only [Ext.mulByCofactor, dbl]
  rw [e3, e2, e1]

example : WF Toy.P.mulByCofactor := (mul_by_cofactor_spec Toy.complete _ Toy.P_wf Toy.P_on).1

/-- `impl Neg for JubjubExtended` (`(-U, V, Z, -T1, T2)`). -/
theorem ext_neg_spec (P : Ext F) (hP : WF P) : WF P.neg ∧ P.neg.toAffine = eNeg P.toAffine :=
  neg_spec P hP

example : Toy.Q.neg.toAffine = eNeg Toy.Q.toAffine := (ext_neg_spec _ Toy.Q_wf).2

/-- `From<JubjubAffine> for JubjubExtended` / `to_extended` / `to_curve`. -/
theorem of_affine_spec (p : F × F) : WF (ofAffine p) ∧ (ofAffine p).toAffine = p := ofAffine_spec p

/-- The loop of `ExtendedNielsPoint::multiply` (hence `JubjubExtended * Fr`, `JubjubSubgroup * Fr`,
`is_torsion_free`, `multiply_bits`) follows, bit by bit, the affine double-and-add schedule over
the 252 scalar bits it consumes, and never leaves the curve. (That this schedule computes the
group-theoretic multiple `k·P` uses associativity of the law, which is not proved here; the
driver additionally compares with an independent least-significant-bit-first evaluation.) -/
theorem multiply_spec {d : F} (hc : Complete d) (P : Ext F) (hP : WF P) (oP : EOn d P.toAffine)
    (k : Nat) :
    WF (P.multiply (d + d) k) ∧ EOn d (P.multiply (d + d) k).toAffine ∧
    (P.multiply (d + d) k).toAffine = eMulBits (-1) d (scalarBits k) P.toAffine (0, 1) := by
  have h := multiplyBits_spec hc P hP oP (scalarBits k) Ext.identity identity_spec.1
    (by rw [identity_spec.2]; exact EOn_zero d)
  rw [identity_spec.2] at h
  exact h

example : WF (Toy.P.multiply (2 + 2) 5) := (multiply_spec Toy.complete _ Toy.P_wf Toy.P_on 5).1

/-- `impl ConstantTimeEq for JubjubExtended` (and `PartialEq`): the cross-multiplied test is
true exactly when the affine values coincide. -/
theorem ext_ct_eq_iff_affine_eq [DecidableEq F] (P Q : Ext F) (hP : P.z ≠ 0) (hQ : Q.z ≠ 0) :
    P.ctEq Q = true ↔ P.toAffine = Q.toAffine := ctEq_iff P Q hP hQ

example : Toy.P.ctEq Toy.P = true :=
  (ext_ct_eq_iff_affine_eq Toy.P Toy.P Toy.P_wf.z_ne Toy.P_wf.z_ne).2 rfl

/-- `JubjubExtended::is_identity` (`u == 0 & v == z`) recognises exactly the representations of
the neutral point `(0, 1)`. -/
theorem ext_is_identity_iff [DecidableEq F] (P : Ext F) (hP : P.z ≠ 0) :
    P.isIdentity = true ↔ P.toAffine = (0, 1) := isIdentity_iff P hP

example : (Ext.identity : Ext Toy.K).isIdentity = true :=
  (ext_is_identity_iff _ identity_spec.1.z_ne).2 identity_spec.2

/-- `JubjubExtended::is_torsion_free` (`self.multiply(FR_MODULUS_BYTES).is_identity()`; also
`JubjubAffine::is_torsion_free`, `CofactorGroup::is_torsion_free`, `into_subgroup`, the subgroup
decoder): true exactly when the affine double-and-add schedule over the bits of `r` sends the
affine value of `P` to the neutral point, i.e. `[r]P = O`. -/
theorem ext_is_torsion_free_iff [DecidableEq F] {d : F} (hc : Complete d) (P : Ext F) (hP : WF P)
    (oP : EOn d P.toAffine) (r : Nat) :
    P.isTorsionFree (d + d) r = true ↔
      eMulBits (-1) d (scalarBits r) P.toAffine (0, 1) = (0, 1) := by
  obtain ⟨w, -, e⟩ := multiply_spec hc P hP oP r
  unfold Ext.isTorsionFree
  rw [ext_is_identity_iff _ w.z_ne, e]

/-- Non-vacuity: the hypotheses are satisfiable (toy curve over `ZMod 13`). -/
example : Toy.P.isTorsionFree ((2 : Toy.K) + 2) 5 = true ↔
    eMulBits (-1) 2 (scalarBits 5) Toy.P.toAffine (0, 1) = (0, 1) :=
  ext_is_torsion_free_iff Toy.complete Toy.P Toy.P_wf Toy.P_on 5

/-- `JubjubExtended::is_small_order` (`self.double().double().u == 0`): true exactly when the
affine value of `[4]P` has `u = 0` (i.e. `[4]P ∈ {(0, 1), (0, -1)}`, i.e. `[8]P = O`). -/
theorem ext_is_small_order_iff [DecidableEq F] {d : F} (hc : Complete d) (P : Ext F) (hP : WF P)
    (oP : EOn d P.toAffine) :
    let dbl := fun p : F × F => eAdd (-1) d p p
    P.isSmallOrder = true ↔ (dbl (dbl P.toAffine)).1 = 0 := by
  intro dbl
  obtain ⟨w1, e1⟩ := ext_double_spec hc P hP oP
  have o1 : EOn d P.double.toAffine := by rw [e1]; exact edwards_add_closed hc oP oP
  obtain ⟨w2, e2⟩ := ext_double_spec hc _ w1 o1
  have hz := w2.z_ne
  have hi := Lean.Grind.Field.mul_inv_cancel hz
  have key : (dbl (dbl P.toAffine)).1 = P.double.double.u * P.double.double.z⁻¹ := by
    show (eAdd (-1) d (eAdd (-1) d P.toAffine P.toAffine) (eAdd (-1) d P.toAffine P.toAffine)).1 = _
    rw [← e1, ← e2]; rfl
  rw [key]
  unfold Ext.isSmallOrder
  simp only [decide_eq_true_eq]
  constructor
  · intro h; rw [h]; grind
  · intro h
    have : P.double.double.u = P.double.double.u * P.double.double.z⁻¹ * P.double.double.z := by
      grind
    rw [this, h]; grind

example : (Ext.identity : Ext Toy.K).isSmallOrder = true := by decide

/-- `impl Sum for JubjubExtended` / `JubjubSubgroup` (`iter.fold(identity, |acc, x| acc + x)`):
for every list (any length, any mix of identity / equal / opposite / small-order points, in any
representation) the result is well-formed, on the curve, and its affine value is the left fold
of the affine law over the affine values. -/
theorem ext_sum_spec {d : F} (hc : Complete d) (ps : List (Ext F))
    (hps : ∀ p ∈ ps, WF p ∧ EOn d p.toAffine) :
    WF (Batch.jjSum (d + d) ps) ∧ EOn d (Batch.jjSum (d + d) ps).toAffine ∧
    (Batch.jjSum (d + d) ps).toAffine = eSum (-1) d (ps.map Ext.toAffine) := by
  have h := Batch.jjSum_fold hc ps hps Ext.identity identity_spec.1
    (by rw [identity_spec.2]; exact EOn_zero d)
  rw [identity_spec.2] at h
  exact h

example : (Batch.jjSum ((2 : Toy.K) + 2) [Toy.P, Toy.Q, Toy.P]).toAffine
    = eSum (-1) 2 ([Toy.P, Toy.Q, Toy.P].map Ext.toAffine) :=
  (ext_sum_spec Toy.complete _ (by
    intro p hp
    simp only [List.mem_cons, List.not_mem_nil, or_false] at hp
    rcases hp with rfl | rfl | rfl
    · exact ⟨Toy.P_wf, Toy.P_on⟩
    · exact ⟨Toy.Q_wf, Toy.Q_on⟩
    · exact ⟨Toy.P_wf, Toy.P_on⟩)).2.2

/-! ## Shared-inversion batch routines -/

/-- `ff::BatchInverter::invert_with_internal_scratch` and `ff::BatchInvert::batch_invert` (the
two-pass "Montgomery trick" behind `JubjubExtended::batch_normalize`, the free function
`batch_normalize` and `JubjubAffine::batch_from_bytes`), modelled pass by pass with its zero
skips: for EVERY list — any length, zeros in any positions — entry `i` of the result is `zᵢ⁻¹`
(`0` stays `0`), although only one inversion is performed. -/
theorem batch_invert_spec [DecidableEq F] (zs : List F) : Batch.batchInvert zs = zs.map (·⁻¹) :=
  Batch.batchInvert_eq_map zs

example : Batch.batchInvert [(2 : Toy.K), 0, 3, 3, 0] = [2, 0, 3, 3, 0].map (·⁻¹) :=
  batch_invert_spec _

/-- `JubjubExtended::batch_normalize` (and `Curve::batch_normalize`, the free function
`batch_normalize`): element-wise equal to `JubjubAffine::from` for every slice, including
`Z = 0` entries (which are mapped to `(0, 0)` instead of panicking). -/
theorem jj_batch_normalize_spec [DecidableEq F] (ps : List (Ext F)) :
    Batch.jjBatchNormalize ps = ps.map Ext.toAffine ∧
    Batch.jjBatchNormalizeInPlace ps = ps.map (fun p => ofAffine p.toAffine) := by
  refine ⟨Batch.jjBatchNormalize_eq ps, ?_⟩
  unfold Batch.jjBatchNormalizeInPlace
  rw [Batch.jjBatchNormalize_eq, List.map_map]
  rfl

example : Batch.jjBatchNormalize [Toy.P, Toy.Q] = [Toy.P.toAffine, Toy.Q.toAffine] :=
  (jj_batch_normalize_spec _).1

/-- `derive/curve.rs: Curve::batch_normalize` (BN254 G1/G2; hand-written two passes with the
`is_identity` skip): element-wise equal to `to_affine` for every slice, identities anywhere. -/
theorem bn_batch_normalize_spec [DecidableEq F] (ps : List (Bn.Proj F)) :
    Batch.bnBatchNormalize ps = ps.map Bn.toAffine := Batch.bnBatchNormalize_eq ps

example : Batch.bnBatchNormalize [(⟨1, 2, 1⟩ : Bn.Proj Toy.K), ⟨0, 1, 0⟩, ⟨2, 4, 2⟩]
    = [Bn.toAffine ⟨1, 2, 1⟩, Bn.toAffine ⟨0, 1, 0⟩, Bn.toAffine ⟨2, 4, 2⟩] :=
  bn_batch_normalize_spec _

/-! ## Short-Weierstrass types: `derive/curve.rs` (BN254, pure Rust) and the G1/G2 wrappers -/
section weierstrass
open Bn

/-- `impl Add<&$name> for &$name` (Renes–Costello–Batina Algorithm 7, `a = 0`), fraction-free:
for ALL points of the curve (any representation, including `Z = 0`, `P = ±Q`), with the chord
data `u = X₂Z₁ - X₁Z₂`, `v = Y₂Z₁ - Y₁Z₂`, the result `(X₃ : Y₃ : Z₃)` satisfies the
cross-multiplied chord equations `x₃ = λ² - x₁ - x₂`, `y₃ = λ(x₁ - x₃) - y₁` (`λ = v/u`), and lies
on the curve. Holds over any commutative ring, hence for `Fq` and `Fq2`. -/
theorem bn_add_projective_spec {R : Type} [Lean.Grind.CommRing R] (b : R) (P Q : Proj R)
    (h1 : POn b P) (h2 : POn b Q) :
    let r := addRaw (b + b + b) P Q
    let u := Q.x * P.z - P.x * Q.z
    let v := Q.y * P.z - P.y * Q.z
    POn b r ∧
    r.x * (u * u * (P.z * Q.z)) = r.z * (v * v * (P.z * Q.z) - (P.x * Q.z + Q.x * P.z) * (u * u)) ∧
    r.y * (u * P.z) = v * (P.x * r.z - r.x * P.z) - P.y * u * r.z :=
  ⟨addRaw_on_curve b P Q h1 h2, addRaw_chord b P Q h1 h2⟩

example : POn (3 : Toy.K) (addRaw (3 + 3 + 3) ⟨1, 2, 1⟩ ⟨3, 2, 1⟩) :=
  (bn_add_projective_spec 3 ⟨1, 2, 1⟩ ⟨3, 2, 1⟩ (by unfold POn; decide) (by unfold POn; decide)).1

/-- Mixed addition (Algorithm 8), fraction-free, for every projective `P` and affine `(x₂, y₂)`
on the curve. -/
theorem bn_mixed_projective_spec {R : Type} [Lean.Grind.CommRing R] (b : R) (P : Proj R) (x2 y2 : R)
    (h1 : POn b P) (h2 : y2 * y2 = x2 * x2 * x2 + b) :
    let r := addMixedRaw (b + b + b) P x2 y2
    let u := x2 * P.z - P.x
    let v := y2 * P.z - P.y
    r.x * (u * u * P.z) = r.z * (v * v * P.z - (P.x + x2 * P.z) * (u * u)) ∧
    r.y * (u * P.z) = v * (P.x * r.z - r.x * P.z) - P.y * u * r.z :=
  addMixedRaw_chord b P x2 y2 h1 h2

example : (addMixedRaw ((3 : Toy.K) + 3 + 3) ⟨1, 2, 1⟩ 3 2).x * ((3 * 1 - 1) * (3 * 1 - 1) * 1)
    = (addMixedRaw ((3 : Toy.K) + 3 + 3) ⟨1, 2, 1⟩ 3 2).z *
      ((2 * 1 - 2) * (2 * 1 - 2) * 1 - (1 + 3 * 1) * ((3 * 1 - 1) * (3 * 1 - 1))) :=
  (bn_mixed_projective_spec 3 ⟨1, 2, 1⟩ 3 2 (by unfold POn; decide) (by decide)).1

/-- `Group::double` (Algorithm 9), fraction-free tangent equations, and closure. -/
theorem bn_double_projective_spec {R : Type} [Lean.Grind.CommRing R] (b : R) (P : Proj R)
    (h1 : POn b P) :
    let r := doubleRaw (b + b + b) P
    let w := P.x * P.x + P.x * P.x + P.x * P.x
    let s := (P.y + P.y) * P.z
    POn b r ∧
    r.x * (s * s * P.z) = r.z * (w * w * P.z - (P.x + P.x) * (s * s)) ∧
    r.y * (s * P.z) = w * (P.x * r.z - r.x * P.z) - P.y * s * r.z :=
  ⟨doubleRaw_on_curve b P h1, doubleRaw_tangent b P h1⟩

example : POn (3 : Toy.K) (doubleRaw (3 + 3 + 3) ⟨1, 2, 1⟩) :=
  (bn_double_projective_spec 3 ⟨1, 2, 1⟩ (by unfold POn; decide)).1

/-- Exceptional operands of Algorithm 7 are handled by the same formula: adding the identity
`(0 : 1 : 0)` returns the other operand scaled by its `Y`, and `P + (-P)` has `X₃ = Z₃ = 0`. -/
theorem bn_add_exceptional {R : Type} [Lean.Grind.CommRing R] (b : R) (P : Proj R) (h : POn b P) :
    addRaw (b + b + b) P ⟨0, 1, 0⟩ = ⟨P.x * P.y, P.y * P.y, P.z * P.y⟩ ∧
    addRaw (b + b + b) ⟨0, 1, 0⟩ P = ⟨P.x * P.y, P.y * P.y, P.z * P.y⟩ ∧
    (addRaw (b + b + b) P P.neg).x = 0 ∧ (addRaw (b + b + b) P P.neg).z = 0 :=
  ⟨addRaw_identity_right _ P, addRaw_identity_left _ P, addRaw_neg b P h⟩

example : (addRaw ((3 : Toy.K) + 3 + 3) ⟨1, 2, 1⟩ (Proj.neg ⟨1, 2, 1⟩)).z = 0 :=
  (bn_add_exceptional 3 ⟨1, 2, 1⟩ (by unfold POn; decide)).2.2.2

variable [DecidableEq F]

/-- Affine reading of Algorithm 7: two finite points with different abscissae are sent to the
chord-law sum. PARTIAL: `Z₃ ≠ 0` is a hypothesis — its proof is the completeness of the
Renes–Costello–Batina formulas on curves without points of order two, which is not formalised
here (the correspondence run exercises it on every operand class). -/
theorem bn_add_spec_partial (b : F) (P Q : Proj F) (h1 : POn b P) (h2 : POn b Q)
    (hz1 : P.z ≠ 0) (hz2 : Q.z ≠ 0) (hu : Q.x * P.z - P.x * Q.z ≠ 0)
    (hz3 : (addRaw (b + b + b) P Q).z ≠ 0) :
    homToAffine (addRaw (b + b + b) P Q).x (addRaw (b + b + b) P Q).y (addRaw (b + b + b) P Q).z
      = wAdd (0 : F) (homToAffine P.x P.y P.z) (homToAffine Q.x Q.y Q.z) :=
  addRaw_affine b P Q h1 h2 hz1 hz2 hu hz3

example : homToAffine (addRaw ((3 : Toy.K) + 3 + 3) ⟨1, 2, 1⟩ ⟨3, 2, 1⟩).x
      (addRaw ((3 : Toy.K) + 3 + 3) ⟨1, 2, 1⟩ ⟨3, 2, 1⟩).y (addRaw ((3 : Toy.K) + 3 + 3) ⟨1, 2, 1⟩ ⟨3, 2, 1⟩).z
    = wAdd (0 : Toy.K) (homToAffine 1 2 1) (homToAffine 3 2 1) :=
  bn_add_spec_partial 3 ⟨1, 2, 1⟩ ⟨3, 2, 1⟩ (by unfold POn; decide) (by unfold POn; decide)
    (by decide) (by decide) (by decide) (by decide)

/-- Affine reading of Algorithm 8 (mixed addition); PARTIAL as above (`Z₃ ≠ 0`). -/
theorem bn_mixed_spec_partial (b : F) (P : Proj F) (x2 y2 : F) (h1 : POn b P)
    (h2 : y2 * y2 = x2 * x2 * x2 + b) (hz1 : P.z ≠ 0) (hu : x2 * P.z - P.x ≠ 0)
    (hz3 : (addMixedRaw (b + b + b) P x2 y2).z ≠ 0) :
    homToAffine (addMixedRaw (b + b + b) P x2 y2).x (addMixedRaw (b + b + b) P x2 y2).y
        (addMixedRaw (b + b + b) P x2 y2).z
      = wAdd (0 : F) (homToAffine P.x P.y P.z) (some (x2, y2)) :=
  addMixedRaw_affine b P x2 y2 h1 h2 hz1 hu hz3

example : homToAffine (addMixedRaw ((3 : Toy.K) + 3 + 3) ⟨1, 2, 1⟩ 3 2).x
      (addMixedRaw ((3 : Toy.K) + 3 + 3) ⟨1, 2, 1⟩ 3 2).y (addMixedRaw ((3 : Toy.K) + 3 + 3) ⟨1, 2, 1⟩ 3 2).z
    = wAdd (0 : Toy.K) (homToAffine 1 2 1) (some (3, 2)) :=
  bn_mixed_spec_partial 3 ⟨1, 2, 1⟩ 3 2 (by unfold POn; decide) (by decide) (by decide) (by decide)
    (by decide)

/-- Affine reading of Algorithm 9 (doubling) for `Y ≠ 0`: the tangent law; PARTIAL (`Z₃ ≠ 0`). -/
theorem bn_double_spec_partial (b : F) (P : Proj F) (h1 : POn b P) (hz1 : P.z ≠ 0)
    (hy : P.y + P.y ≠ 0) (hz3 : (doubleRaw (b + b + b) P).z ≠ 0) :
    homToAffine (doubleRaw (b + b + b) P).x (doubleRaw (b + b + b) P).y (doubleRaw (b + b + b) P).z
      = wAdd (0 : F) (homToAffine P.x P.y P.z) (homToAffine P.x P.y P.z) :=
  doubleRaw_affine b P h1 hz1 hy hz3

example : homToAffine (doubleRaw ((3 : Toy.K) + 3 + 3) ⟨1, 2, 1⟩).x
      (doubleRaw ((3 : Toy.K) + 3 + 3) ⟨1, 2, 1⟩).y (doubleRaw ((3 : Toy.K) + 3 + 3) ⟨1, 2, 1⟩).z
    = wAdd (0 : Toy.K) (homToAffine 1 2 1) (homToAffine 1 2 1) :=
  bn_double_spec_partial 3 ⟨1, 2, 1⟩ (by unfold POn; decide) (by decide) (by decide) (by decide)

/-- `Curve::to_affine` of `derive/curve.rs` is the homogeneous normalisation `(X/Z, Y/Z)`, with
`Z = 0` sent to the affine identity. -/
theorem bn_to_affine_spec (P : Proj F) : toAffine P = homToAffine P.x P.y P.z := toAffine_eq_hom P

/-- `CurveExt::jacobian_coordinates` (homogeneous → `(XZ, YZ², Z)`): the returned triple, read as
Jacobian coordinates `(X/Z², Y/Z³)`, is the same affine point (DESIGN: `jacobian_roundtrip`; for
G1/G2 the accessor returns the raw Jacobian triple of blst — the D4 fix — and the statement is
the identity). -/
theorem jacobian_roundtrip (P : Proj F) :
    let j := jacobianCoordinates P
    jacToAffine j.1 j.2.1 j.2.2 = homToAffine P.x P.y P.z := jacobian_coordinates_spec P

/-- `ct_eq` of `g1.rs` / `g2.rs` after the D4 fix (`x₁z₂² = x₂z₁²`, `y₁z₂³ = y₂z₁³`, identities
apart) is true exactly when the two Jacobian triples denote the same affine point. -/
theorem ct_eq_iff_affine_eq (x1 y1 z1 x2 y2 z2 : F) :
    jacCtEq x1 y1 z1 x2 y2 z2 = true ↔ jacToAffine x1 y1 z1 = jacToAffine x2 y2 z2 := by
  by_cases h1 : z1 = 0 <;> by_cases h2 : z2 = 0
  · simp [jacCtEq, jacToAffine, h1, h2]
  · simp [jacCtEq, jacToAffine, h1, h2]
  · simp [jacCtEq, jacToAffine, h1, h2]
  · have := jac_eq_iff x1 y1 z1 x2 y2 z2 h1 h2
    simp only [jacCtEq, h1, h2, decide_false, Bool.false_and, Bool.not_false, Bool.true_and,
      Bool.false_or, Bool.and_eq_true, decide_eq_true_eq]
    exact this

example : jacToAffine (4 : Toy.K) 8 2 = jacToAffine 1 1 1 :=
  (ct_eq_iff_affine_eq (4 : Toy.K) 8 2 1 1 1).1 (by decide)


/-- `ct_eq` / `PartialEq` of `derive/curve.rs` (`x₁z₂ = x₂z₁`, `y₁z₂ = y₂z₁`, identities apart)
decides equality of the affine values. -/
theorem bn_ct_eq_iff_affine_eq (x1 y1 z1 x2 y2 z2 : F) :
    homCtEq x1 y1 z1 x2 y2 z2 = true ↔ homToAffine x1 y1 z1 = homToAffine x2 y2 z2 := by
  by_cases h1 : z1 = 0 <;> by_cases h2 : z2 = 0
  · simp [homCtEq, homToAffine, h1, h2]
  · simp [homCtEq, homToAffine, h1, h2]
  · simp [homCtEq, homToAffine, h1, h2]
  · have := hom_eq_iff x1 y1 z1 x2 y2 z2 h1 h2
    simp only [homCtEq, h1, h2, decide_false, Bool.false_and, Bool.not_false, Bool.true_and,
      Bool.false_or, Bool.and_eq_true, decide_eq_true_eq]
    exact this

example : homToAffine (2 : Toy.K) 4 2 = homToAffine 1 2 1 :=
  (bn_ct_eq_iff_affine_eq (2 : Toy.K) 4 2 1 2 1).1 (by decide)

end weierstrass

/-! ## Codecs -/
section codecs
open Codec

/-- `JubjubAffine::from_bytes` (ZIP 216 enabled; also `JubjubExtended::from_bytes`,
`batch_from_bytes`, the subgroup decoder): every accepted 32-byte string is the encoding
`to_bytes` of the point it decodes to — the decoder is canonical (injective on what it accepts). -/
theorem jj_decode_canonical (b : Nat) (hb : b < 2 ^ 256) (p : Fp Params.blsR × Fp Params.blsR)
    (h : fromBytesInner ⟨Params.jjD⟩ true b = some p) : toBytesNat p = b :=
  fromBytesInner_canonical (q := Params.blsR) (by decide) (by decide) _ b hb p h

/-- Non-vacuity: the canonical encoding `01 00 … 00` of the identity is accepted. -/
example : fromBytesInner (⟨Params.jjD⟩ : Fp Params.blsR) true 1 = some (⟨0⟩, ⟨1⟩) := by
  decide +kernel

/-- A non-canonical `v` (≥ the modulus after masking the sign bit) is rejected by both
decoders (`Base::from_bytes_le` check). -/
theorem jj_decode_rejects_noncanonical_v {q : Nat} (d : Fp q) (z : Bool) (b : Nat)
    (h : b % 2 ^ 255 ≥ q) : fromBytesInner d z b = none := by
  unfold fromBytesInner
  simp only
  rw [if_pos h]

example : fromBytesInner (⟨Params.jjD⟩ : Fp Params.blsR) true Params.blsR = none :=
  jj_decode_rejects_noncanonical_v _ _ _ (by decide)

/-- The two encodings ZIP 216 removed — `(0, ±1)` with the sign bit set — are rejected by
`from_bytes` and still accepted by the documented legacy entry point
`from_bytes_pre_zip216_compatibility` (which is therefore not canonical, by design). -/
theorem jj_zip216_encodings :
    fromBytesInner (⟨Params.jjD⟩ : Fp Params.blsR) true (2 ^ 255 + 1) = none ∧
    fromBytesInner (⟨Params.jjD⟩ : Fp Params.blsR) true (2 ^ 255 + (Params.blsR - 1)) = none ∧
    fromBytesInner (⟨Params.jjD⟩ : Fp Params.blsR) false (2 ^ 255 + 1) = some (⟨0⟩, ⟨1⟩) ∧
    toBytesNat ((⟨0⟩, ⟨1⟩) : Fp Params.blsR × Fp Params.blsR) ≠ 2 ^ 255 + 1 := by
  decide +kernel

/-- Flag discipline of `blst_p1_uncompress` / `blst_p2_uncompress` as wrapped by
`from_compressed_unchecked` (hence of `from_compressed`, `from_bytes`): an accepted string has
the compression bit; with the infinity bit every other bit is zero and the result is the
identity; otherwise `x` is the canonical element read from the low 381 bits and is non-zero
(DESIGN: `g1_decode_checks`, flag part). -/
theorem bls_decode_flag_checks {K : Type} [CoordField K] [DecidableEq K] [OfNat K 0]
    (c : FieldCodec K) (b : K) (bs : List Nat) (P : WPoint K) (h : blsUncompress c b bs = some P) :
    bs.headD 0 &&& 0x80 ≠ 0 ∧
    (bs.headD 0 &&& 0x40 ≠ 0 → P = none ∧ bs.headD 0 &&& 0x3f = 0 ∧ allZero (bs.drop 1) = true) ∧
    (bs.headD 0 &&& 0x40 = 0 → ∃ x y, P = some (x, y) ∧ c.ofBe 3 bs = some x ∧ x ≠ 0) := by
  unfold blsUncompress at h
  simp only at h
  split at h
  · cases h
  · next h80 =>
    refine ⟨h80, ?_, ?_⟩
    · intro h40
      split at h
      · split at h
        · next hz => cases h; exact ⟨rfl, hz.1, hz.2⟩
        · cases h
      · next hc => exact absurd h40 hc
    · intro h40
      split at h
      · next hc => exact absurd h40 hc
      · split at h
        · cases h
        · next x hx =>
          split at h
          · cases h
          · next y0 hy =>
            split at h
            · cases h
            · next hx0 => cases h; exact ⟨x, _, rfl, hx, hx0⟩

/-- Non-vacuity on the real parameters: the encoding `c0 00 … 00` of the identity is accepted. -/
example : blsUncompress (fpCodec Params.blsP 48) (4 : Fp Params.blsP) (0xc0 :: List.replicate 47 0)
    = some none := by decide

/-- `from_uncompressed[_unchecked]` of `g1.rs` / `g2.rs` (after fix c6a63c4): a string whose
compression bit is set is never accepted by the uncompressed decoder, whatever follows. -/
theorem uncompressed_rejects_compressed_form {K : Type} [CoordField K] [DecidableEq K] [OfNat K 0]
    (c : FieldCodec K) (b : K) (bs : List Nat) (h : bs.headD 0 &&& 0x80 ≠ 0) :
    blsDeserialize c b bs = none := by
  unfold blsDeserialize
  simp only
  rw [if_pos h]

example : blsDeserialize (fpCodec Params.blsP 48) (4 : Fp Params.blsP) (0xc0 :: List.replicate 95 0)
    = none := uncompressed_rejects_compressed_form _ _ _ (by decide)

/-- `K256::from_bytes` / `K256Affine::from_bytes` (after fix 82051ee): only the all-zero string
(identity) and the SEC1 tags `02` / `03` are accepted. -/
theorem secp_decode_tags (bs : List Nat) (P : WPoint (Fp Params.secpP)) (h : secpDecode bs = some P) :
    (allZero bs = true ∧ P = none) ∨ bs.headD 0 = 2 ∨ bs.headD 0 = 3 := by
  unfold secpDecode at h
  split at h
  · next hz => cases h; exact Or.inl ⟨hz, rfl⟩
  · simp only at h
    split at h
    · cases h
    · next ht => right; omega

example : secpDecode (List.replicate 33 0) = some none := by decide

private theorem ed_witness_decode :
    edDecode (1 :: (List.replicate 30 0 ++ [0x80])) = some (⟨0⟩, ⟨1⟩) := by decide +kernel
private theorem ed_witness_encode :
    edEncode ((⟨0⟩, ⟨1⟩) : Fp Params.edP × Fp Params.edP) ≠ (1 :: (List.replicate 30 0 ++ [0x80])) := by
  decide +kernel

/-- `Curve25519::from_bytes` / `Curve25519Affine::from_bytes` (curve25519-dalek's `decompress`) is
NOT canonical — KNOWN FINDING `C11:ed:decoder-accepts-noncanonical`: the encoding of `(0, 1)` with
the sign bit set, and `y = p + 1`, both decode to the identity, whose encoding is `01 00 … 00`.
The full-strength statement `∀ bs p, edDecode bs = some p → edEncode p = bs` is refuted here. -/
theorem ed_decode_not_canonical :
    ¬ (∀ bs p, bs.length = 32 → edDecode bs = some p → edEncode p = bs) := by
  intro h
  exact ed_witness_encode (h _ _ (by decide) ed_witness_decode)

/-- What does hold for the Curve25519 decoder: an accepted string whose `y` is below the modulus
and whose decoded `x` is non-zero or has a clear sign bit re-encodes to itself
(PARTIAL: canonicity of `y` and of the sign of zero are the two missing checks). -/
theorem ed_decode_canonical_partial (bs : List Nat) (p : Fp Params.edP × Fp Params.edP)
    (hn : leBytesToNat bs < 2 ^ 256) (hy : leBytesToNat bs % 2 ^ 255 < Params.edP)
    (h : edDecode bs = some p) (hx : p.1.v ≠ 0 ∨ leBytesToNat bs / 2 ^ 255 % 2 = 0) :
    p.2.v + (p.1.v % 2) * 2 ^ 255 = leBytesToNat bs :=
  edDecodeGen_canonical_partial (by decide) (by decide) _ bs p hn hy h hx

example : edDecode (1 :: List.replicate 31 0) = some (⟨0⟩, ⟨1⟩) := by decide +kernel

/-! ### Sign, infinity and canonicity flags -/

/-- The `Fp2` sign convention of the BLS12-381 G2 encodings (`c1` first, `c0` only when
`c1 = 0`) is a genuine sign: it flips under negation of every non-zero canonical element. -/
theorem fp2_lex_sign_neg {p : Nat} (hodd : p % 2 = 1) (y : Fp2 p) (hy : y.Canon)
    (h0 : y.c0.v ≠ 0 ∨ y.c1.v ≠ 0) : (-y).lexLargest = !y.lexLargest :=
  Fp2.lexLargest_neg hodd hy h0

example : (-(⟨⟨0⟩, ⟨1⟩⟩ : Fp2 7)).lexLargest = !(⟨⟨0⟩, ⟨1⟩⟩ : Fp2 7).lexLargest :=
  fp2_lex_sign_neg (by decide) _ ⟨by decide, by decide⟩ (Or.inr (by decide))

/-- `G1Affine::from_compressed[_unchecked]` / `G2Affine::…` (`blst_p{1,2}_uncompress`): the sign
flag `0x20` of an accepted finite point is the lexicographic sign of the decoded `y` — over `Fp`
for G1, over `Fp2` (`c1` first) for G2. PARTIAL only in the side condition `y ≠ 0` (a point with
`y = 0` has order two; BLS12-381 has none, which is not proved here). -/
theorem bls_sign_flag_is_lex_sign_partial :
    (∀ (b : Fp Params.blsP) bs x y, blsUncompress (fpCodec Params.blsP 48) b bs = some (some (x, y)) →
      y ≠ 0 → (y.lexLargest = true ↔ bs.headD 0 &&& 0x20 ≠ 0)) ∧
    (∀ (b : Fp2 Params.blsP) bs x y, blsUncompress (fp2Codec Params.blsP 48) b bs = some (some (x, y)) →
      y ≠ 0 → (y.lexLargest = true ↔ bs.headD 0 &&& 0x20 ≠ 0)) :=
  ⟨fun b bs x y h hy =>
      blsUncompress_sign (fpCodec_signLaw Params.blsP 48 (by decide) (by decide)) b bs x y h hy,
   fun b bs x y h hy =>
      blsUncompress_sign (fp2Codec_signLaw Params.blsP 48 (by decide) (by decide)) b bs x y h hy⟩

/-- Flipping the sign flag of a compressed G1/G2 string never yields a second encoding of the same
point: if both strings are accepted, the decoded `y` differ. -/
theorem bls_sign_flip_decodes_differently {K : Type} [CoordField K] [DecidableEq K] [OfNat K 0]
    {c : FieldCodec K} {canon : K → Prop} (law : SignLaw c canon) (b : K) (bs bs' : List Nat)
    (x y x' y' : K) (h : blsUncompress c b bs = some (some (x, y)))
    (h' : blsUncompress c b bs' = some (some (x', y'))) (hy : y ≠ 0) (hy' : y' ≠ 0)
    (hflip : ¬ (bs.headD 0 &&& 0x20 ≠ 0 ↔ bs'.headD 0 &&& 0x20 ≠ 0)) : y ≠ y' :=
  blsUncompress_sign_flip law b bs bs' x y x' y' h h' hy hy' hflip

/-- Non-vacuity on the real parameters: the compressed generator of G1 decodes, its `y` is the
"small" root, and the sign flag is clear. -/
example : blsUncompress (fpCodec Params.blsP 48) (4 : Fp Params.blsP)
      (natToBe 48 (Params.g1GenX + 2 ^ 383))
    = some (some (⟨Params.g1GenX⟩, ⟨Params.g1GenY⟩)) := by decide +kernel

/-- `x ≥ p` (after masking the flag bits) is rejected by the compressed decoders of G1 and G2
(for G2: either coefficient; `c1` comes first and carries the flags). -/
theorem bls_decode_rejects_noncanonical_x (p size : Nat) (bs : List Nat)
    (h40 : bs.headD 0 &&& 0x40 = 0) :
    (∀ b : Fp p, beToNat bs % 2 ^ (8 * size - 3) ≥ p → blsUncompress (fpCodec p size) b bs = none) ∧
    (∀ b : Fp2 p, (beToNat (bs.take size) % 2 ^ (8 * size - 3) ≥ p ∨ beToNat (bs.drop size) ≥ p) →
      blsUncompress (fp2Codec p size) b bs = none) :=
  ⟨fun b hx => blsUncompress_rejects_x_ge_p p size b bs h40 hx,
   fun b hx => blsUncompress_rejects_x_ge_p_fp2 p size b bs h40 hx⟩

example : blsUncompress (fpCodec Params.blsP 48) (4 : Fp Params.blsP) (natToBe 48 (Params.blsP + 2 ^ 383))
    = none :=
  (bls_decode_rejects_noncanonical_x Params.blsP 48 _ (by decide +kernel)).1 _ (by decide +kernel)

/-- Uncompressed decoders of G1/G2 (`blst_p{1,2}_deserialize` behind `from_uncompressed[_unchecked]`):
the identity is accepted only as `40 00 … 00` (infinity flag alone, every other bit of the string
zero), and an accepted finite point carries no flag bit at all, has canonical coordinates, is on
the curve and has `x ≠ 0`. -/
theorem bls_uncompressed_flag_canonicity {K : Type} [CoordField K] [DecidableEq K] [OfNat K 0]
    (c : FieldCodec K) (b : K) (bs : List Nat) :
    (blsDeserialize c b bs = some none →
      bs.headD 0 &&& 0x80 = 0 ∧ bs.headD 0 &&& 0x40 ≠ 0 ∧ bs.headD 0 &&& 0x3f = 0 ∧
      allZero (bs.drop 1) = true) ∧
    (∀ x y, blsDeserialize c b bs = some (some (x, y)) →
      bs.headD 0 &&& 0xe0 = 0 ∧ c.ofBe 3 (bs.take c.size) = some x ∧
      c.ofBe 0 (bs.drop c.size) = some y ∧ y * y = rhs b x ∧ x ≠ 0) :=
  ⟨blsDeserialize_infinity c b bs, fun x y => blsDeserialize_finite c b bs x y⟩

example : blsDeserialize (fpCodec Params.blsP 48) (4 : Fp Params.blsP) (0x40 :: List.replicate 95 0)
    = some none := by decide

/-- `serde.rs: Compressed::decode` for BN254 G1/G2 (`TwoSpare`, flags in the last byte): the
identity flag is accepted only together with `x = 0` and a clear sign flag (then the result is
the identity); without it `x = 0` is never accepted. -/
theorem bn_decode_flag_checks {K : Type} [CoordField K] [DecidableEq K] [OfNat K 0]
    (c : FieldCodec K) (b : K) (bs : List Nat) (P : WPoint K) (h : bnDecode c b bs = some P) :
    (bs.getLastD 0 &&& 0x40 ≠ 0 →
      P = none ∧ bs.getLastD 0 &&& 0x80 = 0 ∧ c.ofLe 0 (setLast bs (· &&& 0x3f)) = some 0) ∧
    (bs.getLastD 0 &&& 0x40 = 0 → ∃ x y, P = some (x, y) ∧ x ≠ 0 ∧
      c.ofLe 0 (setLast bs (· &&& 0x3f)) = some x) :=
  bnDecode_flags c b bs P h

example : bnDecode (fpCodec Params.bnP 32) (3 : Fp Params.bnP) (List.replicate 31 0 ++ [0x40])
    = some none := by decide

/-- `K256::from_bytes` / `K256Affine::from_bytes`: an accepted finite point has `x < p` read from
bytes 1…32, and its tag is `02 + (y mod 2)`: the wrong tag decodes to the other root, never to
the same point. PARTIAL only in the side condition `y ≠ 0` (secp256k1 has no such point; not
proved here). -/
theorem secp_decode_tag_is_parity_partial (bs : List Nat) (x y : Fp Params.secpP)
    (h : secpDecode bs = some (some (x, y))) (hy : y.v ≠ 0) :
    beToNat (bs.drop 1) < Params.secpP ∧ x.v = beToNat (bs.drop 1) ∧ bs.headD 0 = 2 + y.v % 2 :=
  secpDecode_tag_parity bs x y h hy

example : secpDecode (2 :: natToBe 32 Params.secpGenX)
    = some (some (⟨Params.secpGenX⟩, ⟨Params.secpGenY⟩)) := by decide +kernel

end codecs

/-! ## Constants of the Rust sources (regenerated into `Gen/C11Constants.lean` on every run) -/
section constants
open Gen.C11

/-- `g1.rs: B`, `g2.rs: G2_B` are the Montgomery forms (`·2³⁸⁴ mod p`) of `4` and `4 + 4u`;
`fp.rs: MODULUS` is the BLS12-381 base modulus of the model. -/
theorem bls_curve_constants :
    blsModulus = Params.blsP ∧ g1BMont = 4 * 2 ^ 384 % Params.blsP ∧
    g2BMont0 = 4 * 2 ^ 384 % Params.blsP ∧ g2BMont1 = 4 * 2 ^ 384 % Params.blsP := by
  decide +kernel

/-- `fp.rs: ZETA_BASE` (used by `endo`) is the Montgomery form of the model's `ζ`, a primitive
cube root of unity of the base field. -/
theorem bls_zeta_spec :
    blsZetaMont = Params.blsZeta * 2 ^ 384 % Params.blsP ∧
    powMod Params.blsZeta 3 Params.blsP = 1 ∧ Params.blsZeta ≠ 1 := by
  decide +kernel

/-- Encoded sizes of `g1.rs` / `g2.rs`, and room for the three flag bits: `p < 2³⁸¹`. The scalar
width handed to `blst_p1_mult` (255) covers the scalar field. -/
theorem bls_encoding_layout :
    g1CompressedSize = 48 ∧ g1UncompressedSize = 96 ∧ g2CompressedSize = 96 ∧
    g2UncompressedSize = 192 ∧ Params.blsP < 2 ^ (8 * 48 - 3) ∧ Params.blsR < 2 ^ g1MulBits := by
  decide +kernel

/-- `jubjub/curve.rs`: `EDWARDS_D = -(10240/10241)`, `EDWARDS_D2 = 2·d`, `FR_MODULUS_BYTES` is the
subgroup order of the model, the generator is the model's; `multiply` skips 4 of 256 bits and
the order fits the remaining 252. -/
theorem jubjub_constants :
    jjD = Params.jjD ∧ (jjD * 10241 + 10240) % Params.blsR = 0 ∧ jjD2 = 2 * jjD % Params.blsR ∧
    jjD2 = Params.jjD2 ∧ jjFrModulus = Params.jjR ∧ jjGenU = Params.jjGenU ∧
    jjGenV = Params.jjGenV ∧ jjMulSkippedBits = 4 ∧ Params.jjR < 2 ^ (256 - jjMulSkippedBits) := by
  decide +kernel

/-- The Jubjub generator of the source satisfies `-u² + v² = 1 + d·u²·v²` modulo the base field. -/
theorem jubjub_generator_on_curve :
    (Params.blsR - jjGenU * jjGenU % Params.blsR + jjGenV * jjGenV) % Params.blsR
      = (1 + jjD * (jjGenU * jjGenU % Params.blsR) % Params.blsR * (jjGenV * jjGenV)) % Params.blsR := by
  decide +kernel

/-- Numerical side conditions of completeness for the actual Jubjub constants: Euler's criterion
gives `d^((q-1)/2) = -1` (so `d` is a non-residue once `q` is known prime — property C10), and
`-1` has the explicit square root below. -/
theorem jubjub_completeness_witnesses :
    powMod jjD ((Params.blsR - 1) / 2) Params.blsR = Params.blsR - 1 ∧
    (0x8d51ccce760304d0ec030002760300000001000000000000 *
      0x8d51ccce760304d0ec030002760300000001000000000000) % Params.blsR = Params.blsR - 1 ∧
    2 % Params.blsR ≠ 0 := by
  decide +kernel

/-- The completeness hypotheses `Complete d` of the Jubjub theorems hold for the actual constants
of `jubjub/curve.rs` over `ZMod q` (`q` = BLS12-381 scalar modulus), once `q` is prime — which is
theorem `bls_scalar_prime` of property C10. Hence `ext_add_spec`, `ext_double_spec`,
`multiply_spec`, … apply to every Jubjub point without side conditions. -/
theorem jubjub_complete_of_prime (hp : Nat.Prime Params.blsR) :
    haveI := Fact.mk hp
    Complete ((Gen.C11.jjD : ℕ) : ZMod Params.blsR) :=
  haveI := Fact.mk hp
  complete_of_euler (by decide) jubjub_completeness_witnesses.1 jubjub_completeness_witnesses.2.1

/-- `curve25519/curve.rs`: `CURVE_A = -1`, `CURVE_D = -(121665/121666)`. -/
theorem curve25519_constants :
    edA = Params.edP - 1 ∧ edD = Params.edD ∧ (edD * 121666 + 121665) % Params.edP = 0 := by
  decide +kernel

/-- `bn256/curve.rs`: `G1: y² = x³ + 3` with generator `(1, 2)`; `G2_B·(9 + u) = 3`; the G2
generator is on the twist; the order hard-coded in `is_torsion_free` is the scalar modulus. -/
theorem bn_constants :
    bnG1A = 0 ∧ bnG1B = 3 ∧ bnG1GenY * bnG1GenY = bnG1GenX * bnG1GenX * bnG1GenX + bnG1B ∧
    bnG2A0 = 0 ∧ bnG2A1 = 0 ∧ bnTorsionOrder = Params.bnR ∧
    ((⟨⟨bnG2B0⟩, ⟨bnG2B1⟩⟩ : Fp2 Params.bnP) * ⟨⟨9⟩, ⟨1⟩⟩ = ⟨⟨3⟩, ⟨0⟩⟩) ∧
    bnG2B0 = Params.bnB2c0 ∧ bnG2B1 = Params.bnB2c1 ∧
    (let x : Fp2 Params.bnP := ⟨⟨bnG2GenX0⟩, ⟨bnG2GenX1⟩⟩
     let y : Fp2 Params.bnP := ⟨⟨bnG2GenY0⟩, ⟨bnG2GenY1⟩⟩
     y * y = x * x * x + ⟨⟨bnG2B0⟩, ⟨bnG2B1⟩⟩) := by
  decide +kernel

/-- `k256/curve.rs`: `base_zeta`, `scalar_zeta` are primitive cube roots of unity modulo the base
and the scalar modulus. -/
theorem k256_zeta_constants :
    powMod k256BaseZeta 3 Params.secpP = 1 ∧ k256BaseZeta ≠ 1 ∧ k256BaseZeta < Params.secpP ∧
    powMod k256ScalarZeta 3 Params.secpN = 1 ∧ k256ScalarZeta ≠ 1 ∧ k256ScalarZeta < Params.secpN := by
  decide +kernel

/-- The generators used by the model lie on their curves (model-side sanity of `Params`). -/
theorem model_generators_on_curve :
    wOnCurve (0 : Fp Params.blsP) 4 (some (⟨Params.g1GenX⟩, ⟨Params.g1GenY⟩)) = true ∧
    wOnCurve (0 : Fp2 Params.blsP) ⟨4, 4⟩
      (some (⟨⟨Params.g2GenX0⟩, ⟨Params.g2GenX1⟩⟩, ⟨⟨Params.g2GenY0⟩, ⟨Params.g2GenY1⟩⟩)) = true ∧
    wOnCurve (0 : Fp Params.secpP) 7 (some (⟨Params.secpGenX⟩, ⟨Params.secpGenY⟩)) = true ∧
    eOnCurve (-(1 : Fp Params.edP)) ⟨Params.edD⟩ (⟨Params.edGenX⟩, ⟨Params.edGenY⟩) = true := by
  decide +kernel

end constants

end MidnightZK.C11
