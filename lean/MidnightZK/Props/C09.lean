import MidnightZK.Model.C09.Planner
import MidnightZK.Proofs.C09.Planner
import MidnightZK.Model.C09.Tables
import MidnightZK.Model.C09.Emitter
import MidnightZK.Proofs.C09.Emitter
import MidnightZK.Gen.C09ValueChannels
/-!
# C09 — circuit structure never depends on witness or instance values

Theorems about the executable model of the single-pass floor planner, the keygen view and the
prover view (`MidnightZK.Model.C09.Planner`). The model is tied to the code on every run: the
driver recomputes from the region-relative call log of the real synthesis the start row of every
region, the complete absolute call sequence, the cost model and the keygen view, and the harness
checks on the real code that the call log is the same for the unknown witness and for every
witness class.

A circuit synthesis is a list of `Item`s (calls on the `Layouter`), a region being the list of
calls its closure makes; advice calls carry the witness value (`none` = unknown). `Item.erase`
forgets the witness values. The theorems say that everything keygen keeps is a function of the
erased list, for every list — no bound on the number of regions, rows or columns.
-/
namespace MidnightZK.C09

/-- **Placement is a function of the region shapes.** The start rows computed by the layouter
(`single_pass.rs: assign_region`, interleaved with emission) are those computed from the list of
region shapes (columns, row count, number of pinned constants) alone. -/
theorem placement_depends_on_shapes_only (cfg : Cfg) (items : List Item) :
    (starts cfg items).toList = placeAll cfg (items.map Item.shape) := by
  have h := layoutAux_starts cfg St.init items
  simpa [starts, layout, placeAll, St.init] using h

/-- Two syntheses whose regions have the same shapes place every region at the same row. -/
theorem placement_congr (cfg : Cfg) (items items' : List Item)
    (h : items.map Item.shape = items'.map Item.shape) :
    starts cfg items = starts cfg items' := by
  apply Array.ext'
  rw [placement_depends_on_shapes_only, placement_depends_on_shapes_only, h]

example : starts ⟨[]⟩ [.region [.adv 0 0 (some 5), .sel 1 2], .region [.adv 0 0 none]]
    = starts ⟨[]⟩ [.region [.adv 0 2 none, .sel 1 0], .region [.adv 0 0 (some 9)]] :=
  placement_congr _ _ _ (by decide)

/-- **The shape of a region does not see witness values** (`layouter.rs: RegionShape` never
evaluates the value closures). -/
theorem shape_ignores_values (it : Item) : it.erase.shape = it.shape := by
  cases it with
  | region evs => simp only [Item.erase, Item.shape, shapeOf_erase, filterMap_constOf_erase]
  | table cells => rfl
  | inst cell ic ir => rfl

/-- **The call sequence on the backend, up to advice values, is a function of the erased
synthesis**: rows of selectors, fixed cells (with values), advice cells, copies, fills and
instance queries. -/
theorem layout_structure_ignores_advice_values (cfg : Cfg) (items items' : List Item)
    (h : items.map Item.erase = items'.map Item.erase) :
    (calls cfg items).map Abs.erase = (calls cfg items').map Abs.erase := by
  rw [← calls_erase, ← calls_erase cfg items', h]

/-- **What keygen keeps (`keygen.rs: Assembly`: selectors, fixed cells, fills, copies) does not
depend on advice values**: syntheses equal up to advice values have equal keygen views, hence
equal fixed columns, selector columns and permutation, hence equal verifying keys. -/
theorem keygenView_ignores_advice_values (cfg : Cfg) (items items' : List Item)
    (h : items.map Item.erase = items'.map Item.erase) :
    keygenView (calls cfg items) = keygenView (calls cfg items') := by
  rw [← keygenView_erase (calls cfg items), ← keygenView_erase (calls cfg items'),
    layout_structure_ignores_advice_values cfg items items' h]

example : keygenView (calls ⟨[3]⟩ [.region [.adv 0 0 (some 7), .fix 1 0 2, .const ⟨0, 0, ⟨0, 0⟩⟩ 9]])
    = keygenView (calls ⟨[3]⟩ [.region [.adv 0 0 none, .fix 1 0 2, .const ⟨0, 0, ⟨0, 0⟩⟩ 9]]) :=
  keygenView_ignores_advice_values _ _ _ (by decide)

/-- The keygen view of the example is not empty (the statement above is not about nothing). -/
example : keygenView (calls ⟨[3]⟩ [.region [.adv 0 0 (some 7), .fix 1 0 2, .const ⟨0, 0, ⟨0, 0⟩⟩ 9]])
    = [.fix 1 0 2, .fix 3 0 9, .copy ⟨1, 3⟩ 0 ⟨0, 0⟩ 0] := by decide

/-- **The prover writes the same advice cells as keygen skipped** (`prover.rs:
WitnessCollection`): the positions of the advice cells are a function of the erased synthesis. -/
theorem advice_positions_ignore_values (cfg : Cfg) (items items' : List Item)
    (h : items.map Item.erase = items'.map Item.erase) :
    advicePositions (calls cfg items) = advicePositions (calls cfg items') := by
  rw [← advicePositions_erase (calls cfg items), ← advicePositions_erase (calls cfg items'),
    layout_structure_ignores_advice_values cfg items items' h]

/-- Region starts are a function of the erased synthesis. -/
theorem starts_ignore_values (cfg : Cfg) (items items' : List Item)
    (h : items.map Item.erase = items'.map Item.erase) :
    starts cfg items = starts cfg items' := by
  rw [← starts_erase, ← starts_erase cfg items', h]

/-- **The verifying key generated without a witness is the key of every proving run**: for a
fixed circuit structure and EVERY assignment `w` of values to its advice calls, the keygen view of
the synthesis with these values equals the keygen view of the synthesis with unknown values, and
the prover fills exactly the advice cells laid out at keygen time. -/
theorem keygen_without_witness_eq_with_witness (cfg : Cfg) (items : List Item)
    (w : Nat → Nat → Option Nat) :
    keygenView (calls cfg (withValuesItems w 0 items))
      = keygenView (calls cfg (withValuesItems (fun _ _ => none) 0 items)) ∧
    advicePositions (calls cfg (withValuesItems w 0 items))
      = advicePositions (calls cfg (withValuesItems (fun _ _ => none) 0 items)) := by
  have h : (withValuesItems w 0 items).map Item.erase
      = (withValuesItems (fun _ _ => none) 0 items).map Item.erase := by
    rw [withValuesItems_erase, withValuesItems_erase]
  exact ⟨keygenView_ignores_advice_values cfg _ _ h, advice_positions_ignore_values cfg _ _ h⟩

/-- **Row usage and the cost model do not depend on advice values**: the number of rows keygen
needs (`not_enough_rows_available` iff it exceeds the usable rows) and the triple (rows, table
rows, instance rows) of `cost_model.rs`, hence `k`. -/
theorem row_usage_ignores_advice_values (cfg : Cfg) (items items' : List Item)
    (h : items.map Item.erase = items'.map Item.erase) :
    rowsNeeded (calls cfg items) = rowsNeeded (calls cfg items') ∧
    costOf (calls cfg items) = costOf (calls cfg items') := by
  have e := layout_structure_ignores_advice_values cfg items items' h
  constructor
  · have h1 := foldl_rowBound_erase (calls cfg items) 0
    have h2 := foldl_rowBound_erase (calls cfg items') 0
    simp only [rowsNeeded]
    rw [← h1, ← h2, e]
  · have h1 := foldl_costStep_erase (calls cfg items) ⟨none, 0, 0, 0⟩
    have h2 := foldl_costStep_erase (calls cfg items') ⟨none, 0, 0, 0⟩
    simp only [costOf]
    rw [← h1, ← h2, e]

/-- **The planner never places two regions on the same row of a shared column**: for regions
`p` before `q` in synthesis order and every column `c` of both, `q` starts at or after the end
of `p`. (For every list of shapes; includes the rows taken by pinned constants in the constants
column.) -/
theorem place_no_overlap (cfg : Cfg) (shapes : List ItemShape) :
    (placed cfg shapes).Pairwise
      (fun p q => ∀ c ∈ p.1.cols, c ∈ q.1.cols → p.2 + p.1.rows ≤ q.2) := by
  unfold placed
  generalize ([] : Alloc) = a
  induction shapes generalizing a with
  | nil => exact List.Pairwise.nil
  | cons sh rest ih =>
    cases sh with
    | other => simpa [placedAux] using ih a
    | region s n =>
      simp only [placedAux]
      refine List.Pairwise.cons ?_ (ih _)
      intro q hq c hc hcq
      exact Nat.le_trans (placeStep_region_ge cfg a s n c hc) (placedAux_ge cfg _ rest q hq c hcq)

/-- **The shape covers every cell the region's calls touch**: each call that assigns a cell or
enables a selector at `(column, offset)` has its column in the shape and its offset below the
shape's row count. (This is what makes the placement sound; it holds when the assignment pass
makes the calls the shape pass saw - the harness checks that on the real code.) -/
theorem shape_covers_calls (evs : List Ev) (e : Ev) (he : e ∈ evs) (c : Col) (off : Nat)
    (ht : e.touch = some (c, off)) :
    c ∈ (shapeOf evs).cols ∧ off < (shapeOf evs).rows := by
  have hm : (c, off) ∈ evs.filterMap Ev.touch := List.mem_filterMap.mpr ⟨e, he, ht⟩
  exact foldl_add_covers _ _ (c, off) hm

example : (⟨0, 2⟩ : Col) ∈ (shapeOf [.sel 1 0, .adv 2 3 none]).cols ∧ 3 < (shapeOf [.sel 1 0, .adv 2 3 none]).rows :=
  shape_covers_calls _ (.adv 2 3 none) (by decide) _ _ rfl

/-- **Placed regions occupy disjoint cells**: no row of a column lies in the rectangles of two
different regions. -/
theorem placed_rectangles_disjoint (cfg : Cfg) (shapes : List ItemShape) :
    (placed cfg shapes).Pairwise (fun p q => ∀ (c : Col) (r : Nat),
      ¬ (c ∈ p.1.cols ∧ p.2 ≤ r ∧ r < p.2 + p.1.rows ∧ c ∈ q.1.cols ∧ q.2 ≤ r ∧ r < q.2 + q.1.rows)) := by
  refine List.Pairwise.imp ?_ (place_no_overlap cfg shapes)
  intro p q h c r ⟨hp, _, h2, hq, h3, _⟩
  have := h c hp hq
  omega

/-- `placed` lists exactly the starts of `placeAll`. -/
theorem placed_starts (cfg : Cfg) (shapes : List ItemShape) :
    (placed cfg shapes).map (·.2) = placeAll cfg shapes :=
  placedAux_starts cfg [] shapes

example : placed ⟨[]⟩ [.region ⟨[⟨0, 0⟩, ⟨0, 1⟩], 3⟩ 0, .region ⟨[⟨0, 2⟩], 5⟩ 0, .region ⟨[⟨0, 1⟩, ⟨0, 2⟩], 1⟩ 0]
    = [(⟨[⟨0, 0⟩, ⟨0, 1⟩], 3⟩, 0), (⟨[⟨0, 2⟩], 5⟩, 0), (⟨[⟨0, 1⟩, ⟨0, 2⟩], 1⟩, 5)] := by decide

/-- **A region starts at the earliest admissible row**: row 0 or the first free row of one of its
columns (`single_pass.rs`: "the earliest row for which none of the columns are in use"). -/
theorem place_start_tight (a : Alloc) (s : Shape) :
    (place a s).1 = 0 ∨ ∃ c ∈ s.cols, (place a s).1 = a.get c := by
  simp only [place, startOf]
  exact foldl_max_attained a s.cols 0

/-- and no column of the region is in use at or after it. -/
theorem place_start_free (a : Alloc) (s : Shape) : ∀ c ∈ s.cols, a.get c ≤ (place a s).1 :=
  fun c hc => place_start_ge a s c hc

/-- **`min_k` is the least `k` with `n ≤ 2^k`** (`cost_model.rs`:
`next_power_of_two().ilog2()`). -/
theorem minK_spec (n : Nat) : n ≤ 2 ^ minK n ∧ ∀ k, n ≤ 2 ^ k → minK n ≤ k := by
  have h := minKAux_spec n n 0 (by simpa using Nat.le_of_lt Nat.lt_two_pow_self) (by intro j hj; cases hj)
  refine ⟨h.1, fun k hk => ?_⟩
  apply Nat.le_of_not_lt
  intro hlt
  exact absurd hk (Nat.not_le_of_lt (h.2 k hlt))

example : minK 1 = 0 ∧ minK 2 = 1 ∧ minK 16 = 4 ∧ minK 17 = 5 := by decide

/-- **Constant cache (`native_chip.rs: cached_fixed`), determinism**: starting from a
duplicate-free cache, the cache stays duplicate-free and the cell returned for the `i`-th request
holds exactly the requested value. -/
theorem constant_cache_lookup (cache cs : List Nat) (hn : cache.Nodup) :
    (cacheRun cache cs).1.Nodup ∧
    ∀ i (h : i < cs.length), (cacheRun cache cs).1[((cacheRun cache cs).2)[i]?.getD 0]? = some cs[i] := by
  induction cs generalizing cache with
  | nil => exact ⟨hn, fun i h => absurd h (Nat.not_lt_zero _)⟩
  | cons c rest ih =>
    have hstep : (cacheStep cache c).1.Nodup ∧ (cacheStep cache c).1[(cacheStep cache c).2]? = some c := by
      unfold cacheStep
      cases hidx : cache.idxOf? c with
      | some i =>
        refine ⟨hn, ?_⟩
        have := List.idxOf?_eq_some_iff.mp hidx
        simp only
        rw [List.getElem?_eq_getElem this.1]
        exact congrArg some (by simpa using this.2.1)
      | none =>
        have hc : c ∉ cache := by
          intro hmem
          have := List.idxOf?_eq_none_iff.mp hidx
          exact this hmem
        refine ⟨?_, by simp⟩
        rw [List.nodup_append]
        exact ⟨hn, by simp, by intro a ha b hb; simp at hb; subst hb; exact fun h => hc (h ▸ ha)⟩
    obtain ⟨ihn, ihl⟩ := ih (cacheStep cache c).1 hstep.1
    refine ⟨by simpa [cacheRun] using ihn, fun i h => ?_⟩
    cases i with
    | zero =>
      simp only [cacheRun, List.getElem?_cons_zero, Option.getD_some, List.getElem_cons_zero]
      have hp := cacheRun_prefix (cacheStep cache c).1 rest
      obtain ⟨t, ht⟩ := hp
      rw [← ht]
      have hlt : (cacheStep cache c).2 < (cacheStep cache c).1.length := by
        have := hstep.2
        rcases Nat.lt_or_ge (cacheStep cache c).2 (cacheStep cache c).1.length with h1 | h1
        · exact h1
        · rw [List.getElem?_eq_none h1] at this; cases this
      rw [List.getElem?_append_left hlt]
      exact hstep.2
    | succ j =>
      have := ihl j (by simpa using h)
      simpa [cacheRun] using this

/-- **`constant_cache_key_is_value`**: two requests get the same fixed cell iff they ask for the
same value; in particular which cell a constant lives in depends on nothing but the sequence of
requested values. -/
theorem constant_cache_key_is_value (cs : List Nat) (i j : Nat) (hi : i < cs.length) (hj : j < cs.length) :
    ((cacheRun [] cs).2)[i]?.getD 0 = ((cacheRun [] cs).2)[j]?.getD 0 ↔ cs[i] = cs[j] := by
  obtain ⟨hn, hl⟩ := constant_cache_lookup [] cs List.nodup_nil
  have h1 := hl i hi
  have h2 := hl j hj
  constructor
  · intro h
    rw [h] at h1
    rw [h1] at h2
    exact Option.some.inj h2
  · intro h
    rw [h] at h1
    have hlt1 : ((cacheRun [] cs).2)[i]?.getD 0 < (cacheRun [] cs).1.length := by
      rcases Nat.lt_or_ge (((cacheRun [] cs).2)[i]?.getD 0) (cacheRun [] cs).1.length with h' | h'
      · exact h'
      · rw [List.getElem?_eq_none h'] at h1; cases h1
    have hlt2 : ((cacheRun [] cs).2)[j]?.getD 0 < (cacheRun [] cs).1.length := by
      rcases Nat.lt_or_ge (((cacheRun [] cs).2)[j]?.getD 0) (cacheRun [] cs).1.length with h' | h'
      · exact h'
      · rw [List.getElem?_eq_none h'] at h2; cases h2
    rw [List.getElem?_eq_getElem hlt1] at h1
    rw [List.getElem?_eq_getElem hlt2] at h2
    exact (List.getElem_inj hn).mp (Option.some.inj (h1.trans h2.symm))

example : cacheRun [] [1, 2, 1, 3, 2, 1] = ([1, 2, 3], [0, 1, 0, 2, 1, 0]) := by decide

/-- A cache hit opens no new region and a miss opens exactly one. -/
theorem constant_cache_growth (cache : List Nat) (c : Nat) :
    (c ∈ cache → (cacheStep cache c).1 = cache) ∧ (c ∉ cache → (cacheStep cache c).1 = cache ++ [c]) := by
  unfold cacheStep
  constructor
  · intro h
    cases hidx : cache.idxOf? c with
    | some i => rfl
    | none => exact absurd h (List.idxOf?_eq_none_iff.mp hidx)
  · intro h
    cases hidx : cache.idxOf? c with
    | some i => exact absurd (List.idxOf?_eq_some_iff.mp hidx).2.1 (by
        intro he; exact h (he ▸ List.getElem_mem _))
    | none => rfl

/-- **The range table is exactly what the enabled lookups need**: it contains `(t, v)` iff `t`
is 0 or a queried tag within the configured maximum and `v < 2^t`. In particular it is a function
of the set of queried tags (parameters of the range checks), not of any checked value. -/
theorem pow2range_table_complete (m : Nat) (q : List Nat) (t v : Nat) :
    (t, v) ∈ pow2rangeRows m q ↔ t ≤ m ∧ (t = 0 ∨ t ∈ q) ∧ v < 2 ^ t := by
  simp only [pow2rangeRows, List.mem_flatMap, List.mem_range]
  constructor
  · rintro ⟨t', ht', h⟩
    split at h
    · next hq =>
      simp only [List.mem_map, List.mem_range, Prod.mk.injEq] at h
      obtain ⟨v', hv', rfl, rfl⟩ := h
      exact ⟨Nat.le_of_lt_succ ht', hq, hv'⟩
    · cases h
  · rintro ⟨htm, hq, hv⟩
    refine ⟨t, Nat.lt_succ_of_le htm, ?_⟩
    rw [if_pos hq]
    simp only [List.mem_map, List.mem_range]
    exact ⟨v, hv, rfl⟩

example : pow2rangeRows 3 [2] = [(0, 0), (2, 0), (2, 1), (2, 2), (2, 3)] := by decide

private theorem mem_ite_singleton (c : Prop) [Decidable c] (x n : String) :
    n ∈ (if c then [x] else []) ↔ (n = x ∧ c) := by
  by_cases h : c <;> simp [h]

/-- **A table is loaded iff its chip is configured and was used** — the range table always and
the Base64 table whenever configured (its deactivated lookup needs the default entry); nothing
else enters: in particular no witness or instance value. -/
theorem stdlib_tables_spec (arch used : Chips) (n : String) :
    n ∈ stdlibTables arch used ↔
      n = "p2r" ∨ (n = "sha256" ∧ arch.sha256 ∧ used.sha256) ∨ (n = "sha512" ∧ arch.sha512 ∧ used.sha512)
      ∨ (n = "base64" ∧ arch.base64) ∨ (n = "automaton" ∧ arch.automaton ∧ used.automaton)
      ∨ (n = "keccak_sha3" ∧ arch.keccakSha3 ∧ used.keccakSha3) ∨ (n = "blake2b" ∧ arch.blake2b ∧ used.blake2b) := by
  simp only [stdlibTables, List.mem_append, List.mem_singleton, mem_ite_singleton, Bool.and_eq_true]
  grind

/-! ## Synthesisers whose only witness-dependent part are the advice VALUES

`proofs/src/circuit/value.rs` lets gadget code turn a `Value` only into other `Value`s, which can
only end up in the value closure of `assign_advice`; every other way out (a closure with a side
effect, `error_if_known_and`, `map_with_result`, …) is listed on every run by
`translators/c09_value_channels.py` and must be in the reviewed allow-list
(`value_channels_all_reviewed` below). The theorems of this section say what that buys. -/

/-- **An emitter without witness argument has a witness-independent circuit**: for an emitter
given as a witness-free skeleton plus separately supplied advice values (the shape of the emitters
of the models of C04–C08: `C04.runOps fi ofNat r prog`, `C07.ShaChip.emit ks iv n`,
`C07.Sha512Chip.emit`, the gate/row emitters of C05/C06 and the exposure emitters of C08 take
parameters only, values are computed by separate evaluators such as `C04.evalOps`), the keygen view
(fixed cells, selectors, fills, copies), the advice cells written, the region starts, the rows
needed and the cost model under EVERY witness `w` are those of the keygen run. -/
theorem emitter_keygen_view_witness_independent {W : Type} (cfg : Cfg) (e : Emitter W) (w : W) :
    keygenView (calls cfg (e.run w)) = keygenView (calls cfg e.keygenRun) ∧
    advicePositions (calls cfg (e.run w)) = advicePositions (calls cfg e.keygenRun) ∧
    starts cfg (e.run w) = starts cfg e.keygenRun ∧
    rowsNeeded (calls cfg (e.run w)) = rowsNeeded (calls cfg e.keygenRun) ∧
    costOf (calls cfg (e.run w)) = costOf (calls cfg e.keygenRun) := by
  have h : (e.run w).map Item.erase = e.keygenRun.map Item.erase := by
    simp only [Emitter.run, Emitter.keygenRun, withValuesItems_erase]
  have hk := keygen_without_witness_eq_with_witness cfg e.skeleton (e.values w)
  have hr := row_usage_ignores_advice_values cfg _ _ h
  exact ⟨hk.1, hk.2, starts_ignore_values cfg _ _ h, hr.1, hr.2⟩

/-- **"Structure + values" is exactly "the erased call log is the same for all witnesses"**: a
synthesiser (any function from witnesses to `Layouter` call lists) can be written as a
witness-free skeleton with separately supplied advice values IF AND ONLY IF its call log with the
advice values erased does not depend on the witness. The right-hand side is what the harness
checks on the real code for the unknown witness and every witness class (`run.rs: first_diff` on
erased events), so a passing comparison is the hypothesis of
`emitter_keygen_view_witness_independent` for the witnesses compared. -/
theorem value_only_iff_erased_log_constant {W : Type} (g : Synth W) :
    ValueOnly g ↔ ∀ w w', (g w).map Item.erase = (g w').map Item.erase := by
  constructor
  · rintro ⟨e, he⟩ w w'
    rw [he w, he w']
    simp only [Emitter.run, withValuesItems_erase]
  · intro h
    by_cases hne : Nonempty W
    · obtain ⟨w0⟩ := hne
      refine ⟨⟨(g w0).map Item.erase, fun w => valuesOfItems (g w)⟩, fun w => ?_⟩
      simp only [Emitter.run]
      rw [h w0 w, withValuesItems_self]
    · exact ⟨⟨[], fun _ _ _ => none⟩, fun w => absurd ⟨w⟩ hne⟩

/-- **A value-only synthesiser has one verifying key**: keygen views, advice cells, starts and
cost model coincide for any two witnesses. -/
theorem value_only_keygen_view_constant {W : Type} (cfg : Cfg) (g : Synth W) (hg : ValueOnly g) (w w' : W) :
    keygenView (calls cfg (g w)) = keygenView (calls cfg (g w')) ∧
    advicePositions (calls cfg (g w)) = advicePositions (calls cfg (g w')) ∧
    costOf (calls cfg (g w)) = costOf (calls cfg (g w')) := by
  have h := (value_only_iff_erased_log_constant g).mp hg w w'
  exact ⟨keygenView_ignores_advice_values cfg _ _ h, advice_positions_ignore_values cfg _ _ h,
    (row_usage_ignores_advice_values cfg _ _ h).2⟩

/-- The seeded defect C09-1 in the model: a synthesiser that copies from the table entry picked by
the witness (entry `w % 2`). -/
def leakySelect : Synth Nat := fun w =>
  [.region [.adv 0 0 (some 11)], .region [.adv 0 0 (some 22)],
   .region [.adv 1 0 (some w), .equal ⟨2, 0, ⟨0, 1⟩⟩ ⟨w % 2, 0, ⟨0, 0⟩⟩]]

/-- Non-vacuity of the hypothesis `ValueOnly`: it FAILS for a synthesiser with a value → structure
channel, and its keygen views (here: the copy constraint) differ between two witnesses. -/
theorem leaky_select_not_value_only :
    ¬ ValueOnly leakySelect ∧
    keygenView (calls ⟨[]⟩ (leakySelect 0)) ≠ keygenView (calls ⟨[]⟩ (leakySelect 1)) := by
  refine ⟨fun h => ?_, by decide⟩
  have := (value_only_iff_erased_log_constant leakySelect).mp h 0 1
  revert this
  decide

/-- … while the same gadget copying from a fixed entry and using the witness as a value only is
value-only (with an explicit emitter). -/
example : ValueOnly (fun (w : Nat) =>
    [Item.region [.adv 0 0 (some 11)], .region [.adv 1 0 (some w), .equal ⟨1, 0, ⟨0, 1⟩⟩ ⟨0, 0, ⟨0, 0⟩⟩]]) :=
  ⟨⟨[.region [.adv 0 0 none], .region [.adv 1 0 none, .equal ⟨1, 0, ⟨0, 1⟩⟩ ⟨0, 0, ⟨0, 0⟩⟩]],
    fun w i j => if i = 0 ∧ j = 0 then some 11 else if i = 1 ∧ j = 0 then some w else none⟩,
   fun w => by simp [Emitter.run, withValuesItems, Item.withValues, withValuesEvs, Ev.withValue]⟩

/-! ## Copy constraints as a set -/

/-- **What the permutation argument enforces depends only on the SET of canonical copy pairs**:
an assignment satisfies all `copy` calls of a call sequence iff it equates the two cells of every
pair of `copyPairs` (order, orientation and repetition of the calls are irrelevant). This is why
the harness compares the copy constraints of the keygen run and of every witness run as a
canonical set of (cell, cell) pairs. -/
theorem copies_hold_iff_pairs (asg : ACell → Nat) (cs : List Abs) :
    CopiesHold asg cs ↔ ∀ p ∈ copyPairs cs, asg p.1 = asg p.2 := by
  constructor
  · intro h p hp
    obtain ⟨a, ha, hap⟩ := List.mem_filterMap.mp hp
    have := h a ha
    cases a with
    | copy c1 r1 c2 r2 =>
      obtain ⟨q, hq, hiff⟩ := copyPair_copy asg c1 r1 c2 r2
      rw [hq] at hap
      cases hap
      exact hiff.mpr this
    | _ => simp [Abs.copyPair] at hap
  · intro h a ha
    cases a with
    | copy c1 r1 c2 r2 =>
      obtain ⟨q, hq, hiff⟩ := copyPair_copy asg c1 r1 c2 r2
      exact hiff.mp (h q (List.mem_filterMap.mpr ⟨_, ha, hq⟩))
    | _ => trivial

/-- Two call sequences with the same set of copy pairs are satisfied by the same assignments. -/
theorem copy_set_determines_permutation_constraint (asg : ACell → Nat) (cs cs' : List Abs)
    (h : ∀ p, p ∈ copyPairs cs ↔ p ∈ copyPairs cs') :
    CopiesHold asg cs ↔ CopiesHold asg cs' := by
  rw [copies_hold_iff_pairs, copies_hold_iff_pairs]
  exact ⟨fun H p hp => H p ((h p).mpr hp), fun H p hp => H p ((h p).mp hp)⟩

example : CopiesHold (fun _ => 7) [.copy ⟨0, 1⟩ 2 ⟨1, 0⟩ 3, .adv 0 0 none] ↔
    CopiesHold (fun _ => 7) [.copy ⟨1, 0⟩ 3 ⟨0, 1⟩ 2, .copy ⟨0, 1⟩ 2 ⟨1, 0⟩ 3] :=
  copy_set_determines_permutation_constraint _ _ _ (by
    intro p
    have e1 : copyPairs [Abs.copy ⟨0, 1⟩ 2 ⟨1, 0⟩ 3, .adv 0 0 none] = [((⟨0, 1⟩, 2), (⟨1, 0⟩, 3))] := by decide
    have e2 : copyPairs [Abs.copy ⟨1, 0⟩ 3 ⟨0, 1⟩ 2, .copy ⟨0, 1⟩ 2 ⟨1, 0⟩ 3]
        = [((⟨0, 1⟩, 2), (⟨1, 0⟩, 3)), ((⟨0, 1⟩, 2), (⟨1, 0⟩, 3))] := by decide
    rw [e1, e2]
    simp)

/-- **The copy pairs are part of the keygen view and ignore advice values**: syntheses equal up
to advice values have the same copy pairs, and keygen sees all of them. -/
theorem copy_pairs_ignore_advice_values (cfg : Cfg) (items items' : List Item)
    (h : items.map Item.erase = items'.map Item.erase) :
    copyPairs (calls cfg items) = copyPairs (calls cfg items') ∧
    copyPairs (keygenView (calls cfg items)) = copyPairs (calls cfg items) := by
  refine ⟨?_, copyPairs_keygenView _⟩
  rw [← copyPairs_erase (calls cfg items), ← copyPairs_erase (calls cfg items'),
    layout_structure_ignores_advice_values cfg items items' h]

/-! ## The reviewed list of value → structure channels (generated on every run) -/

/-- **Every place of the current sources where a `Value` escapes into Rust control flow or data
is in the reviewed allow-list** (`translators/c09_value_channels.py` scans circuits/, zk_stdlib/,
zkir/, aggregator/ and proofs/ on every run; `found` are the sites found now, `allowed` the
reviewed ones). A new `.map(|v| side effect)`, `error_if_known_and`, `map_with_result`,
`assert_if_known`, discarded `.map(..);`, effectful `assign_advice` closure or use of the
crate-private `Value::into_option`/`assign` - or ANY edit of a reviewed one - breaks this. -/
theorem value_channels_all_reviewed :
    Gen.found.all (fun s => Gen.allowed.contains s.2.2.2) = true := by decide

/-- **The channels that pick a Rust index / cell from a witness value are exactly the two the
harness steers** (`k_out_of_n_points` by the operation circuits `K1KofN(n,k)`, `multi_select`
by `K1MsmBits(bits,n)` / `K1Msm(n)`, with witnesses selecting the first, the last and other
entries): a newly allow-listed index channel must come with its operation circuit. -/
theorem index_channels_are_exercised :
    Gen.indexChannelFns = ["k_out_of_n_points", "multi_select"] := by decide

end MidnightZK.C09
