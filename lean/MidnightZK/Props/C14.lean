import MidnightZK.Proofs.C14.Lagrange
import MidnightZK.Proofs.C14.Sets
import MidnightZK.Proofs.C14.EndToEnd
import MidnightZK.Proofs.C14.EndToEndChopped
import MidnightZK.Proofs.C14.Sound
import MidnightZK.Proofs.C14.Dup
import MidnightZK.Proofs.C14.Match
import MidnightZK.Proofs.C14.Compose
import MidnightZK.Proofs.C14.Threads
import MidnightZK.Model.C14.Fr
/-!
# C14 — KZG multi-opening: correct openings verify, any wrong claim is rejected

Property theorems over the executable model `Model/C14/{Sets,Open}.lean` of
`proofs/src/poly/kzg/{utils,mod}.rs` (helper lemmas live in `MidnightZK/Proofs/C14`).
Polynomials are coefficient lists over an arbitrary field `F`; `toPoly` is the `Polynomial F`
of a list, `vanishing S = ∏ (X − pᵢ)`. Commitments are the linear map `p ↦ p(s)` (discrete
logarithms for the setup secret `s`), so the pairing check is an identity at `s`.
Not concluded anywhere: binding of the commitment scheme (q-SDH) and the random-oracle argument
for the challenges.
-/
namespace MidnightZK.C14

open Polynomial

section grouping
variable {C C' P E E' : Type} [DecidableEq C] [DecidableEq C'] [DecidableEq P]

/-- `construct_intermediate_sets` returns `Err(DuplicatedQuery)` exactly when some
`(commitment, point)` pair occurs twice in the query list — for every query list, whatever the
evaluations. (Prover side: `multi_open` fails; verifier side: `multi_prepare` fails.) -/
theorem duplicate_query_errors (dflt : E) (qs : List (Query C P E)) :
    constructIntermediateSets dflt qs = none ↔ ¬ (qs.map (fun q => (q.com, q.point))).Nodup :=
  construct_none_iff dflt qs

example : constructIntermediateSets (0 : Nat) [⟨1, 5, 7⟩, ⟨2, 5, 8⟩, ⟨1, 5, 9⟩] = none := by decide

/-- Nothing is deduplicated: a query list in which a later query has the (commitment, point) pair
of an earlier one is refused whatever the two evaluations are — identical (a harmless-looking
repetition) or different (two claims about the same value). -/
theorem repeated_pair_refused (dflt : E) (pre mid post : List (Query C P E)) (q q' : Query C P E)
    (hc : q.com = q'.com) (hp : q.point = q'.point) :
    constructIntermediateSets dflt (pre ++ q :: (mid ++ q' :: post)) = none :=
  repeated_pair_none dflt pre mid post q q' hc hp

/-- identical evaluations / different evaluations / the pattern attacked by seed C14-1 (`d@x, d@y,
c@y, c@x, c@y`: the point indices of `c` are `[1, 0]`, not sorted) -/
example : constructIntermediateSets (0 : Nat) [⟨1, 5, 7⟩, ⟨1, 5, 7⟩] = none := by decide
example : constructIntermediateSets (0 : Nat) [⟨1, 5, 7⟩, ⟨2, 6, 1⟩, ⟨1, 5, 8⟩] = none := by decide
example : constructIntermediateSets (0 : Nat)
    [⟨"d", 10, 1⟩, ⟨"d", 20, 2⟩, ⟨"c", 20, 99⟩, ⟨"c", 10, 4⟩, ⟨"c", 20, 3⟩] = none := by decide

/-- Commitments are compared as REFERENCES (`CommitmentReference::eq` is `ptr::eq`, piecewise for
chopped commitments together with `n`): two different entries of the commitment table at the same
point are two commitments, not a repetition — even if the group elements behind them are equal —
and a chopped reference differs from a one-piece reference and from a chopped reference with
another `n` or other pieces. -/
theorem distinct_references_not_duplicate (i j : Nat) (hij : i ≠ j) (parts : List Nat) (n n' : Nat)
    (hn : n ≠ n') (p e1 e2 : Nat) :
    constructIntermediateSets (0 : Nat) [⟨ComRef.one i, p, e1⟩, ⟨ComRef.one j, p, e2⟩] ≠ none ∧
    constructIntermediateSets (0 : Nat) [⟨ComRef.one i, p, e1⟩, ⟨ComRef.chopped [i] n, p, e2⟩] ≠ none ∧
    constructIntermediateSets (0 : Nat) [⟨ComRef.chopped parts n, p, e1⟩, ⟨ComRef.chopped parts n', p, e2⟩] ≠ none := by
  refine ⟨?_, ?_, ?_⟩ <;>
  · rw [Ne, construct_none_iff, not_not]
    simp [hij, hn]

example : (2 : Nat) ≠ 3 ∧ (8 : Nat) ≠ 9 := by decide

/-- Specification of the grouping, for every duplicate-free query list:
* the commitment map lists the distinct commitments in order of first appearance;
* every query `(c, p, e)` finds its commitment's data `d`; the point set `S` stored at
  `d.set_index` consists of exactly the points at which `c` is queried, without repetition;
  `d.evals` has the length of `S`, and `e` is stored at the position `j` where `p` sits in `S`
  (evaluations in point-set order, not in query order). -/
theorem sets_spec (dflt : E) (qs : List (Query C P E))
    (cm : List (CommitmentData C E)) (psets : List (List P))
    (h : constructIntermediateSets dflt qs = some (cm, psets)) :
    cm.map (·.com) = firstOcc (qs.map (·.com)) ∧
    ∀ q ∈ qs, ∃ d ∈ cm, d.com = q.com ∧ ∃ S, psets[d.setIndex]? = some S ∧
      d.evals.length = S.length ∧ S.Nodup ∧
      (∀ p, p ∈ S ↔ ∃ q' ∈ qs, q'.com = q.com ∧ q'.point = p) ∧
      ∃ j : Nat, S[j]? = some q.point ∧ d.evals[j]? = some q.eval :=
  ⟨construct_coms dflt qs cm psets h, fun q hq => construct_query dflt qs cm psets h q hq⟩

/-- Non-vacuity and a concrete instance: `a` at `x, y`; `b` at `y, x` (same set, other query
order: evaluations are stored in set order `x, y`); `c` at `y`. -/
example : constructIntermediateSets (0 : Nat)
    [⟨"a", 10, 1⟩, ⟨"a", 20, 2⟩, ⟨"b", 20, 3⟩, ⟨"b", 10, 4⟩, ⟨"c", 20, 5⟩] =
    some ([⟨"a", 0, [0, 1], [1, 2]⟩, ⟨"b", 0, [1, 0], [4, 3]⟩, ⟨"c", 1, [1], [5]⟩], [[10, 20], [20]]) := by
  decide

/-- Prover and verifier group alike: the grouping commutes with any injective renaming `f` of the
commitments (polynomial references ↦ commitment references) and any map `g` on evaluations. Hence
set indices, point indices and point sets coincide on both sides, and an error on one side is an
error on the other. -/
theorem prover_verifier_same_shape (f : C → C') (hf : Function.Injective f) (g : E → E') (dflt : E)
    (qs : List (Query C P E)) :
    constructIntermediateSets (g dflt) (qs.map (relabelQuery f g)) =
      (constructIntermediateSets dflt qs).map (fun r => (r.1.map (relabelData f g), r.2)) :=
  construct_relabel f hf g dflt qs

example : Function.Injective (fun (i : Nat) => ComRef.one i) := fun _ _ h => by cases h; rfl

/-- The point sets of the result are pairwise different lists of point indices and the set index
of a commitment is the rank of first appearance of its point set (insertion-ordered map). -/
theorem set_indices_first_appearance (cm : List (C × List Nat)) :
    (phase2 cm).Nodup ∧ ∀ y, y ∈ phase2 cm ↔ ∃ e ∈ cm, btreeSet e.2 = y :=
  ⟨phase2_nodup cm, mem_phase2 cm⟩

/-- `BTreeSet` as modelled: strictly increasing, same members. -/
theorem btree_set_spec (l : List Nat) :
    (btreeSet l).Pairwise (· < ·) ∧ ∀ y, y ∈ btreeSet l ↔ y ∈ l :=
  ⟨btreeSet_sorted l, mem_btreeSet l⟩

end grouping

section duplicates
variable {F : Type} [Zero F] [One F] [Add F] [Sub F] [Neg F] [Mul F] [DecidableEq F]

/-- `multi_prepare` (model, over any scalar type) returns `Err(DuplicatedQuery)` exactly when a
(commitment reference, point) pair occurs twice in the verifier's query list — whatever the claimed
evaluations (identical or not), the proof and the challenges; no other step of `multi_prepare`
produces that error. -/
theorem multi_prepare_dup_iff (inv : F → F) (dbg : Bool) (qs : List (Query ComRef F F))
    (proof : ProofView F) (x1 x2 x3 x4 : F) :
    multiPrepare inv dbg qs proof x1 x2 x3 x4 = .error .dup ↔
      ¬ (qs.map (fun q => (q.com, q.point))).Nodup :=
  multiPrepare_dup_iff inv dbg qs proof x1 x2 x3 x4

/-- `multi_open` (model) returns `Err(DuplicatedQuery)` exactly when a (polynomial reference,
point) pair occurs twice in the prover's query list. -/
theorem multi_open_dup_iff (nMax : Nat) (polys : List (List F)) (qs : List (Query Nat F F))
    (x1 x2 x3 x4 : F) :
    multiOpen nMax polys qs x1 x2 x3 x4 = .error .dup ↔
      ¬ (qs.map (fun q => (q.com, q.point))).Nodup :=
  multiOpen_dup_iff nMax polys qs x1 x2 x3 x4

/-- The trace printed for the intermediate-value correspondence (`vtrace` lines: `powers_x1`,
`q_eval_sets`, every `r_eval`, `f_eval`, `v`, compared with the add-only trace hook inside the real
`multi_prepare`) is the computation of `prepareGroups`, the function the theorems speak about:
whenever the trace function returns a trace and `π` is present, `prepareGroups` returns the dual MSM
whose right-hand side ends with `x₃·π, v·(−G)` for the traced `v`. -/
theorem prepare_trace_consistent (inv : F → F) (groups : List (List F × List (List (F × Base) × List F)))
    (proof : ProofView F) (x1 x2 x3 x4 : F) (tr : PrepTrace F)
    (h : prepareTrace inv groups proof x1 x2 x3 x4 = some tr) (hpi : proof.hasPi = true) :
    ∃ dual, prepareGroups inv groups proof x1 x2 x3 x4 = .ok dual ∧
      ∃ pre, dual.right = pre ++ [(x3, Base.pi), (tr.v, Base.negG)] :=
  prepareTrace_consistent inv groups proof x1 x2 x3 x4 tr h hpi

example : (prepareTrace (F := Fr) Fr.inv [([⟨5⟩], [([(1, Base.com 0)], [⟨7⟩])])] ⟨true, [⟨9⟩], true⟩
    ⟨2⟩ ⟨3⟩ ⟨4⟩ ⟨6⟩).isSome = true := by decide +kernel

end duplicates

section algebra
variable {F : Type} [Field F] [DecidableEq F]
set_option linter.unusedSectionVars false

/-- `kate_division(a, b)` is division by `X − b` with the remainder `a(b)` dropped: for every
coefficient vector and every `b`, `a = (X − b)·q + a(b)`, and `q` has one coefficient less. -/
theorem kate_division_spec (a : List F) (b : F) :
    toPoly a = (X - C b) * toPoly (kateDivision a b) + C (evalPoly a b) ∧
      (kateDivision a b).length = a.length - 1 := by
  refine ⟨?_, kateAux_length b a⟩
  have h := kateAux_spec b a
  rwa [kateAux_rem] at h

/-- Folding `kate_division` over the points of a set (what `multi_open` does for every set)
computes the quotient by the vanishing polynomial of the set; the dropped remainders form a
polynomial of degree `< |S|`. In particular if `q − r` vanishes on the set for some `r` of degree
`< |S|`, that quotient is exactly `(q − r)/Z_S` (see `f_eval_correct`). -/
theorem kate_fold_spec (q S : List F) :
    ∃ R : F[X], R.degree < S.length ∧ toPoly q = vanishing S * toPoly (kateFold q S) + R :=
  kateFold_spec S q

/-- The verifier's per-set term equals the prover's quotient at `x₃`: for every polynomial `q`,
every list `S` of distinct points, every `x₃ ∉ S` and every `r` with at most `|S|` coefficients
that agrees with `q` on `S` (the interpolant of the claimed evaluations),
`(q(x₃) − r(x₃)) / ∏(x₃ − pᵢ)` is the value at `x₃` of the polynomial the prover commits to. -/
theorem f_eval_correct (q r S : List F) (x3 : F) (hS : S.Nodup) (hx : x3 ∉ S)
    (hr : r.length ≤ S.length) (hagree : ∀ z ∈ S, evalPoly r z = evalPoly q z) :
    (evalPoly q x3 - evalPoly r x3) * (S.foldl (fun a p => a * (x3 - p)) 1)⁻¹ =
      evalPoly (kateFold q S) x3 :=
  fEval_term q r S x3 hS hx hr hagree

example : ∃ (q r S : List ℚ) (x3 : ℚ), S.Nodup ∧ x3 ∉ S ∧ r.length ≤ S.length ∧
    ∀ z ∈ S, evalPoly r z = evalPoly q z :=
  ⟨[0, 0, 1], [0, 1], [1, 0], 5, by decide, by decide, by decide, by
    intro z hz; simp at hz; rcases hz with rfl | rfl <;> norm_num [evalPoly]⟩

/-- The model of `lagrange_interpolate` returns, for distinct points, a polynomial with `|S|`
coefficients through the given values (for every number of points). -/
theorem lagrange_interpolate_spec (S E : List F) (hS : S.Nodup) (hlen : S.length = E.length)
    (hne : S ≠ []) :
    ∃ r, lagrangeInterpolate (fun (a : F) => a⁻¹) S E = some r ∧ r.length = S.length ∧
      ∀ (i : Nat) (h1 : i < S.length) (h2 : i < E.length), evalPoly r S[i] = E[i] :=
  lagrangeSpec_inv S E hS hlen hne

example : ∃ (S E : List ℚ), S.Nodup ∧ S.length = E.length ∧ S ≠ [] := ⟨[1, 2], [3, 4], by decide, rfl, by simp⟩

/-- Completeness of the multi-opening (grouped form; the grouping itself is `sets_spec`).
For every non-empty list of point sets, each with distinct points and a non-empty list of
polynomials of `nMax > 0` coefficients whose verifier-side MSM is a commitment to the polynomial
(`log(msm) = p(s)`; one-piece and chopped commitments alike, see `chopped_terms_spec`), for every
secret `s` and all challenges `x₁, x₂, x₃, x₄` with `x₃` outside the point sets: the prover model
produces a proof, the verifier model fed with the true evaluations (in point-set order) and that
proof returns a dual MSM, and the pairing check `e(π,[s]₂) = e(C − vG + x₃π,[1]₂)` holds (on
discrete logarithms). No bound on the number of sets, polynomials or points. -/
theorem multiopen_complete (nMax : Nat) (hn : 0 < nMax) (s x1 x2 x3 x4 : F) (dlog : Base → F)
    (groups : List (Group F)) (hne : groups ≠ [])
    (hok : ∀ g ∈ groups, GroupOk nMax s x3 dlog g) :
    ∃ out dual, openGroups nMax (proverGroups groups) x1 x2 x3 x4 = some out ∧
      (dlog .f = commitLog s out.fPoly → dlog .pi = commitLog s out.piPoly → dlog .negG = -1 →
        prepareGroups (fun a => a⁻¹) (verifierGroups groups) ⟨true, out.qEvals, true⟩ x1 x2 x3 x4 = .ok dual ∧
        checkLog s dlog dual = true) :=
  prepareGroups_complete nMax hn s x1 x2 x3 x4 dlog (fun a => a⁻¹) (fun _ => rfl) lagrangeSpec_inv groups hne hok

/-- End-to-end completeness of the model for one-piece commitments: for every table of
polynomials with `nMax > 0` coefficients, every non-empty duplicate-free list of
`(polynomial, point)` queries — any number of polynomials and points, any assignment pattern, any
order —, every secret `s` and all challenges with `x₃` different from the query points:
`multi_open` (model) produces a proof, `multi_prepare` (model) on the verifier's queries with the
true evaluations and that proof returns a dual MSM, and the final pairing check holds. This
composes the grouping theorems (`sets_spec`, `prover_verifier_same_shape`) with
`multiopen_complete`. (Chopped commitments: `multiopen_complete` + `chopped_terms_spec`.) -/
theorem multiopen_complete_queries (nMax : Nat) (hn : 0 < nMax) (s x1 x2 x3 x4 : F) (dbg : Bool)
    (polys : List (List F)) (hlen : ∀ p ∈ polys, p.length = nMax)
    (pq : List (Nat × F)) (hidx : ∀ q ∈ pq, q.1 < polys.length) (hnd : pq.Nodup) (hne : pq ≠ [])
    (hx3 : ∀ q ∈ pq, x3 ≠ q.2) :
    ∃ out dual, multiOpen nMax polys (proverQueries polys pq) x1 x2 x3 x4 = .ok out ∧
      multiPrepare (fun a => a⁻¹) dbg (verifierQueries polys pq) ⟨true, out.qEvals, true⟩ x1 x2 x3 x4 = .ok dual ∧
      checkLog s (honestLog polys s out) dual = true :=
  multiopen_complete_queries_aux nMax hn s x1 x2 x3 x4 dbg polys hlen pq hidx hnd hne hx3

example : ∃ (polys : List (List ℚ)) (pq : List (Nat × ℚ)) (x3 : ℚ), (∀ p ∈ polys, p.length = 2) ∧
    (∀ q ∈ pq, q.1 < polys.length) ∧ pq.Nodup ∧ pq ≠ [] ∧ ∀ q ∈ pq, x3 ≠ q.2 :=
  ⟨[[1, 2], [3, 4]], [(0, 5), (1, 5), (0, 6)], 7, by simp, by simp, by decide, by simp, by simp⟩

/-- **End-to-end completeness for every query-set shape, chopped commitments included.** The
verifier names the commitment of the prover's polynomial `i` by an arbitrary reference `ref i`
(distinct polynomials ↦ distinct references), one-piece or chopped, over a commitment table with
logarithms `dl`. `RefOk`: a one-piece reference names a commitment to the polynomial; a chopped
reference `(parts, n)`, `n ≠ 0`, is used for a polynomial opened at a single point `x` and
`Σⱼ (x^(n−1))ʲ·partsⱼ` is a commitment to it (the combined polynomial that
`vanishing/prover.rs` opens). Then for every table of polynomials with `nMax > 0` coefficients,
every non-empty duplicate-free list of `(polynomial, point)` queries in any order, every secret
and all challenges with `x₃` different from the query points: `multi_open` produces a proof,
`multi_prepare` (with or without debug assertions) returns a dual MSM — in particular the chopped
commitment is evaluated at the single point of ITS point set, wherever that point first appears in
the query list (finding C14/89521f2) — and the final pairing check holds. -/
theorem multiopen_complete_refs (nMax : Nat) (hn : 0 < nMax) (s x1 x2 x3 x4 : F) (dbg : Bool)
    (ref : Nat → ComRef) (hinj : Function.Injective ref) (dl : Nat → F)
    (polys : List (List F)) (hlen : ∀ p ∈ polys, p.length = nMax)
    (pq : List (Nat × F)) (hidx : ∀ q ∈ pq, q.1 < polys.length) (hnd : pq.Nodup) (hne : pq ≠ [])
    (hx3 : ∀ q ∈ pq, x3 ≠ q.2) (hok : RefOk ref dl s polys pq) :
    ∃ out dual, multiOpen nMax polys (proverQueries polys pq) x1 x2 x3 x4 = .ok out ∧
      multiPrepare (fun a => a⁻¹) dbg (verifierQueriesRef ref polys pq) ⟨true, out.qEvals, true⟩ x1 x2 x3 x4 = .ok dual ∧
      checkLog s (refLog dl s out) dual = true :=
  multiopen_complete_refs_aux nMax hn s x1 x2 x3 x4 dbg ref hinj dl polys hlen pq hidx hnd hne hx3 hok

/-- Non-vacuity with a chopped reference: `p₀ = 1 + X` (one piece, opened at `5` and `6`) and
`p₁ = X` at the later point `6`, referred to as the two pieces `k₁, k₂` with `n = 2`
(`p₁(s) = 2 = dl 1 + 6·dl 2` at `s = 2`). -/
example : ∃ (ref : Nat → ComRef) (dl : Nat → ℚ) (polys : List (List ℚ)) (pq : List (Nat × ℚ)),
    Function.Injective ref ∧ (∀ p ∈ polys, p.length = 2) ∧ (∀ q ∈ pq, q.1 < polys.length) ∧ pq.Nodup ∧
    pq ≠ [] ∧ (∀ q ∈ pq, (7 : ℚ) ≠ q.2) ∧ RefOk ref dl 2 polys pq ∧ ∃ parts n, ref 1 = .chopped parts n := by
  refine ⟨fun i => if i = 1 then .chopped [1, 2] 2 else .one i, fun i => [3, 2, 0].getD i 0,
    [[1, 1], [0, 1]], [(0, 5), (0, 6), (1, 6)], ?_, by simp, by simp, by decide, by simp, by norm_num, ?_, [1, 2], 2, by simp⟩
  · intro a b h
    simp only at h
    split at h <;> split at h <;> simp_all
  · intro q hq
    simp only [List.mem_cons, List.not_mem_nil, or_false] at hq
    rcases hq with rfl | rfl | rfl <;> norm_num [evalPoly, powNat]

/-- Non-vacuity: a group over `ℚ` (points `1, 2`; the polynomial `3 + X`; commitment `k₀` with
logarithm `p(s)` for `s = 7`) is well formed. -/
example : GroupOk (F := ℚ) 2 7 5 (fun b => match b with | .com _ => 10 | _ => 0)
    ([1, 2], [([3, 1], [(1, Base.com 0)])]) :=
  { polys_ne := by simp
    len := by simp
    com := by simp [msmLog, evalPoly]; norm_num
    nodup := by decide
    pts_ne := by simp
    fresh := by decide }

/-- A wrong claimed evaluation cannot be opened: if the polynomial `r'` the verifier interpolates
from the claimed evaluations differs from `q` at some point of the set, then `q − r'` is not
divisible by the vanishing polynomial of the set — there is no quotient polynomial for the prover
to commit to (the algebraic core of evaluation binding; binding itself needs SDH). -/
theorem wrong_eval_not_divisible (q r' S : List F) (z : F) (hz : z ∈ S)
    (hwrong : evalPoly r' z ≠ evalPoly q z) :
    ¬ (vanishing S ∣ toPoly q - toPoly r') := by
  rintro ⟨h, hh⟩
  have := congrArg (Polynomial.eval z) hh
  simp only [eval_sub, eval_mul, toPoly_eval, vanishing_eval_eq_zero_of_mem hz, zero_mul] at this
  exact hwrong (sub_eq_zero.1 this).symm

example : ∃ (q r' S : List ℚ) (z : ℚ), z ∈ S ∧ evalPoly r' z ≠ evalPoly q z :=
  ⟨[1, 1], [5], [1, 2], 1, by simp, by norm_num [evalPoly]⟩

/-- Conversely the true evaluations are always openable: `q − r` is divisible by the vanishing
polynomial when `r` agrees with `q` on the distinct points of the set, and the quotient is the
one `multi_open` computes. -/
theorem right_eval_divisible (q r S : List F) (hS : S.Nodup) (hr : r.length ≤ S.length)
    (hagree : ∀ z ∈ S, evalPoly r z = evalPoly q z) :
    toPoly q - toPoly r = vanishing S * toPoly (kateFold q S) := by
  obtain ⟨R, hdeg, hq⟩ := kateFold_spec S q
  have hRr : R = toPoly r := by
    apply eq_of_degree_sub_lt_of_eval_finset_eq S.toFinset
    · rw [List.toFinset_card_of_nodup hS]
      refine lt_of_le_of_lt (degree_sub_le _ _) ?_
      rw [max_lt_iff]
      exact ⟨hdeg, lt_of_lt_of_le (toPoly_degree_lt r) (by exact_mod_cast hr)⟩
    · intro z hz
      have hz' : z ∈ S := List.mem_toFinset.1 hz
      have h1 := congrArg (Polynomial.eval z) hq
      simp only [eval_add, eval_mul, vanishing_eval_eq_zero_of_mem hz', zero_mul, zero_add, toPoly_eval] at h1
      rw [toPoly_eval, ← h1, hagree z hz']
  rw [hq, hRr]; ring

example : ∃ (q r S : List ℚ), S.Nodup ∧ r.length ≤ S.length ∧ ∀ z ∈ S, evalPoly r z = evalPoly q z :=
  ⟨[0, 0, 1], [0, 1], [1, 0], by decide, by decide, by
    intro z hz; simp at hz; rcases hz with rfl | rfl <;> norm_num [evalPoly]⟩

/-- The final opening: a witness polynomial `w` with `(X − x₃)·w = P − v` exists only for the true
value `v = P(x₃)`, and it is unique — it is the polynomial `multi_open` commits to as `π`. -/
theorem pi_unique (c0 : F) (rest : List F) (v x3 : F) (w : F[X])
    (hw : (X - C x3) * w = toPoly (c0 :: rest) - C v) :
    v = evalPoly (c0 :: rest) x3 ∧ w = toPoly (kateDivision ((c0 - v) :: rest) x3) := by
  have hv : v = evalPoly (c0 :: rest) x3 := by
    have := congrArg (Polynomial.eval x3) hw
    simp only [eval_mul, eval_sub, eval_X, eval_C, sub_self, zero_mul, toPoly_eval] at this
    exact (sub_eq_zero.1 this.symm).symm
  refine ⟨hv, ?_⟩
  have hk := kateAux_spec x3 ((c0 - v) :: rest)
  have hrem : (kateAux x3 ((c0 - v) :: rest)).2 = 0 := by
    rw [kateAux_rem, hv]; simp
  rw [hrem, C_0, add_zero] at hk
  have hX : (X - C x3 : F[X]) ≠ 0 := X_sub_C_ne_zero x3
  apply mul_left_cancel₀ hX
  unfold kateDivision
  rw [hw, ← hk]
  simp [C_sub]; ring

example : ∃ (c0 : ℚ) (rest : List ℚ) (v x3 : ℚ) (w : ℚ[X]), (X - C x3) * w = toPoly (c0 :: rest) - C v :=
  ⟨0, [1], 2, 2, 1, by simp [toPoly]⟩

/-- A chopped commitment `({Cⱼ}, n)` opened at `x` enters the verifier's MSM as
`Σ (x^(n−1))ʲ·Cⱼ`: its logarithm is the Horner value of the pieces' logarithms in the splitting
factor `x^(n−1)`, i.e. it is a commitment to `Σ (x^(n−1))ʲ·pieceⱼ`, the polynomial the prover
opens (`vanishing/prover.rs: evaluate`). `n = 0` is refused (`n − 1` underflows). -/
theorem chopped_terms_spec (dlog : Base → F) (parts : List Nat) (n : Nat) (hn : n ≠ 0) (x : F) :
    ∃ terms, asTerms (.chopped parts n) (some x) = some terms ∧
      msmLog dlog terms = evalPoly (parts.map (fun p => dlog (.com p))) (powNat x (n - 1)) := by
  refine ⟨(parts.foldl (fun (st : List (F × Base) × F) p =>
        (st.1 ++ [(st.2, Base.com p)], st.2 * powNat x (n - 1))) ([], 1)).1, by simp [asTerms, hn], ?_⟩
  have gen : ∀ (parts : List Nat) (acc : List (F × Base)) (cur : F),
      msmLog dlog (parts.foldl (fun (st : List (F × Base) × F) p =>
        (st.1 ++ [(st.2, Base.com p)], st.2 * powNat x (n - 1))) (acc, cur)).1 =
      msmLog dlog acc + cur * evalPoly (parts.map (fun p => dlog (.com p))) (powNat x (n - 1)) := by
    intro parts
    induction parts with
    | nil => intro acc cur; simp
    | cons p ps ih =>
      intro acc cur
      rw [List.foldl_cons, ih, msmLog_append]
      simp [msmLog]; ring
  have := gen parts [] 1
  simpa [msmLog] using this

example : ∃ (parts : List Nat) (n : Nat), n ≠ 0 ∧ parts ≠ [] := ⟨[0, 1], 8, by decide, by simp⟩

/-- `evals_inner_product(evals_set, powers(x₁).take(n))` for ANY claimed evaluation vectors of a
common length `L` (what the grouping produces for a set of `L` points): position `t` holds
`Σⱼ evalsⱼ[t]·x₁ʲ`. -/
theorem evals_inner_product_spec (x : F) (L : Nat) (Es : List (List F)) (hE : Es ≠ [])
    (hlen : ∀ e ∈ Es, e.length = L) (n : Nat) (hn : Es.length ≤ n) :
    evalsInnerProduct Es (powersN x n 1) =
      some ((List.range L).map (fun t => evalPoly (Es.map (fun e => e.getD t 0)) x)) :=
  evalsInnerProduct_general x L Es hE hlen n hn

example : ∃ (Es : List (List ℚ)), Es ≠ [] ∧ (∀ e ∈ Es, e.length = 2) ∧ Es.length ≤ 3 :=
  ⟨[[1, 2], [3, 4]], by simp, by simp, by simp⟩

/-- The verifier's `f_eval` is a Horner fold in `x₂`: for ANY claimed data, whenever
`lagrange_interpolate` returns `r pe` for every set and `x₃` is outside the point sets,
`f_eval = Σᵢ x₂ⁱ·(proof_evalᵢ − rᵢ(x₃))/∏_{p ∈ Sᵢ}(x₃ − p)` (set 0 has weight 1: the fold runs
from the last set to the first). -/
theorem f_eval_is_horner_fold (x2 x3 : F)
    (L : List (((List F × List (List (F × Base) × List F)) × List F) × F))
    (r : (((List F × List (List (F × Base) × List F)) × List F) × F) → List F)
    (hr : ∀ pe ∈ L, lagrangeInterpolate (fun (a : F) => a⁻¹) pe.1.1.1 pe.1.2 = some (r pe))
    (hx : ∀ pe ∈ L, x3 ∉ pe.1.1.1) :
    L.foldr (fEvalStep (fun (a : F) => a⁻¹) x2 x3) (some 0) =
      some (evalPoly (L.map (fun pe => (pe.2 - evalPoly (r pe) x3) *
        (pe.1.1.1.foldl (fun a p => a * (x3 - p)) 1)⁻¹)) x2) :=
  fEvalStep_fold _ x2 x3 L r hr hx

/-- **Soundness, step `x₁`, with the exact count.** One point set `S` with polynomials `pⱼ` (all
of `nMax` coefficients) and claimed evaluation vectors `eⱼ` (`|eⱼ| = |S|`). If one claimed
evaluation is wrong (`eⱼ[t] ≠ pⱼ(S[t])`), then for all `x₁` outside a set of at most
`#polynomials − 1` values: `inner_product` returns the folded polynomial `q`,
`evals_inner_product` returns the folded claims `es`, and `es[t] ≠ q(S[t])` — the wrong claim
survives the fold (so the interpolant `r` of `es` differs from `q` at `S[t]`). -/
theorem x1_fold_sound_count (S : List F) (pe : List (List F × List F)) (nMax : Nat)
    (hpl : ∀ p ∈ pe, p.1.length = nMax) (hel : ∀ p ∈ pe, p.2.length = S.length)
    (t : Nat) (ht : t < S.length)
    (hwrong : ∃ p ∈ pe, p.2.getD t 0 ≠ evalPoly p.1 (S.getD t 0)) :
    ∃ bad : Finset F, bad.card ≤ pe.length - 1 ∧
      ∀ x1, x1 ∉ bad → ∀ nb, pe.length ≤ nb →
        ∃ q es, innerProduct (pe.map (·.1)) x1 = some q ∧
          evalsInnerProduct (pe.map (·.2)) (powersN x1 nb 1) = some es ∧
          es.length = S.length ∧ es.getD t 0 ≠ evalPoly q (S.getD t 0) :=
  x1_fold_sound_count_aux S pe nMax hpl hel t ht hwrong

/-- non-vacuity and tightness: `p₀ = 1`, `p₁ = X` at the point `2`, claims `2` (wrong) and `2`
(right): the folded claim `2 + 2x₁` equals the folded value `1 + 2x₁` for no `x₁`; with the claims
`2` and `1` (both wrong) they agree exactly at `x₁ = 1`. -/
example : ∃ (S : List ℚ) (pe : List (List ℚ × List ℚ)), (∀ p ∈ pe, p.1.length = 2) ∧
    (∀ p ∈ pe, p.2.length = S.length) ∧ ∃ p ∈ pe, p.2.getD 0 0 ≠ evalPoly p.1 (S.getD 0 0) :=
  ⟨[2], [([1, 0], [2]), ([0, 1], [2])], by simp, by simp, ([1, 0], [2]), by simp, by norm_num [evalPoly]⟩

/-- `Z_U = Z_S·(Z_U/Z_S)` for `S ⊆ U` without repetitions: the identity of
`x2_fold_not_polynomial_count` is `f = Σᵢ x₂ⁱ·(qᵢ − rᵢ)/Z_{Sᵢ}` with denominators cleared. -/
theorem vanishing_split_spec (U S : List F) (hU : U.Nodup) (hS : S.Nodup) (hsub : ∀ p ∈ S, p ∈ U) :
    vanishing U = vanishing S * coVanishing U S :=
  vanishing_split U S hU hS hsub

/-- **Soundness, step `x₂`, with the exact count.** Sets `(Sᵢ, qᵢ, rᵢ)` (points, `x₁`-folded
polynomial, interpolant of the `x₁`-folded claims); `U` contains all the points. If for one set
`rᵢ` differs from `qᵢ` at a point of `Sᵢ`, then for all `x₂` outside a set of at most `#sets − 1`
values NO polynomial `f` satisfies `f·Z_U = Σᵢ x₂ⁱ·(qᵢ − rᵢ)·Z_U/Z_{Sᵢ}`: the function
`Σᵢ x₂ⁱ·(qᵢ − rᵢ)/Z_{Sᵢ}` the prover must commit to as `f_com` is not a polynomial.
(`wrong_eval_not_divisible` is the case of one set.) -/
theorem x2_fold_not_polynomial_count (U : List F) (gs : List (List F × List F × List F))
    (hsub : ∀ g ∈ gs, ∀ p ∈ g.1, p ∈ U)
    (hwrong : ∃ g ∈ gs, ∃ z ∈ g.1, evalPoly g.2.2 z ≠ evalPoly g.2.1 z) :
    ∃ bad : Finset F, bad.card ≤ gs.length - 1 ∧
      ∀ x2, x2 ∉ bad → ¬ ∃ f : F[X], f * vanishing U = fNumerator U x2 gs :=
  x2_fold_not_polynomial_count_aux U gs hsub hwrong

example : ∃ (U : List ℚ) (gs : List (List ℚ × List ℚ × List ℚ)), (∀ g ∈ gs, ∀ p ∈ g.1, p ∈ U) ∧
    ∃ g ∈ gs, ∃ z ∈ g.1, evalPoly g.2.2 z ≠ evalPoly g.2.1 z :=
  ⟨[1, 2], [([1], [0, 1], [1]), ([1, 2], [1, 1], [5])], by simp, ([1, 2], [1, 1], [5]), by simp, 1, by simp,
    by norm_num [evalPoly]⟩

/-- The same identity holds for the honest prover at EVERY `x₂` (the formulation is not vacuous):
when each `rᵢ` (at most `|Sᵢ|` coefficients) agrees with `qᵢ` on `Sᵢ`, the polynomial
`Σᵢ x₂ⁱ·kateFold(qᵢ, Sᵢ)` that `multi_open` commits to satisfies it. -/
theorem x2_fold_complete (U : List F) (hU : U.Nodup) (x2 : F)
    (gs : List (List F × List F × List F))
    (hsub : ∀ g ∈ gs, ∀ p ∈ g.1, p ∈ U) (hnd : ∀ g ∈ gs, g.1.Nodup)
    (hr : ∀ g ∈ gs, g.2.2.length ≤ g.1.length)
    (hagree : ∀ g ∈ gs, ∀ z ∈ g.1, evalPoly g.2.2 z = evalPoly g.2.1 z) :
    combo x2 (gs.map (fun g => kateFold g.2.1 g.1)) * vanishing U = fNumerator U x2 gs :=
  x2_fold_polynomial_of_right U hU x2 gs hsub hnd hr hagree

/-- **Soundness, step `x₃`, with the exact count.** Whatever polynomial `f` (of at most `nMax`
coefficients) is behind `f_com`: if it does not satisfy the identity of the `x₂` step, then for
all `x₃ ∉ U` outside a set of at most `nMax − 1 + |U|` values, `f(x₃)` differs from the `f_eval`
the verifier computes (`f_eval_is_horner_fold`) from the true values `qᵢ(x₃)`. -/
theorem x3_identity_sound_count (U : List F) (hU : U.Nodup) (x2 : F) (nMax : Nat)
    (gs : List (List F × List F × List F))
    (hsub : ∀ g ∈ gs, ∀ p ∈ g.1, p ∈ U) (hnd : ∀ g ∈ gs, g.1.Nodup)
    (hq : ∀ g ∈ gs, g.2.1.length ≤ nMax) (hr : ∀ g ∈ gs, g.2.2.length ≤ nMax)
    (f : F[X]) (hf : f.natDegree ≤ nMax - 1) (hne : f * vanishing U ≠ fNumerator U x2 gs) :
    ∃ bad : Finset F, bad.card ≤ nMax - 1 + U.length ∧
      ∀ x3, x3 ∉ bad → x3 ∉ U →
        f.eval x3 ≠ evalPoly (gs.map (fun g => (evalPoly g.2.1 x3 - evalPoly g.2.2 x3) *
          (g.1.foldl (fun a p => a * (x3 - p)) 1)⁻¹)) x2 := by
  obtain ⟨bad, hcard, h⟩ := x3_identity_sound_count_aux U hU x2 gs hsub hnd f hne
  exact ⟨bad, le_trans hcard (x3_degree_bound U x2 nMax gs hq hr f hf), h⟩

example : ∃ (U : List ℚ) (gs : List (List ℚ × List ℚ × List ℚ)) (f : ℚ[X]), U.Nodup ∧
    f * vanishing U ≠ fNumerator U 1 gs :=
  ⟨[], [], 1, by simp, by simp [vanishing, fNumerator]⟩

/-- **Soundness, step `x₄`, with the exact count.** If the `#sets + 1` values the verifier folds
into `v` (the `q_evals_on_x3` read from the proof, then `f_eval`) are not the values at `x₃` of the
polynomials folded into the final polynomial (`q₀ … q_{m−1}`, `f`), then for all `x₄` outside a set
of at most `#sets` values the verifier's `v` is not the value of the final polynomial at `x₃` —
and then, by `pi_unique`, no witness polynomial `π` exists for `v`. -/
theorem x4_fold_sound_count (claimed truth : List F) (hlen : claimed.length = truth.length)
    (hne : claimed ≠ truth) :
    ∃ bad : Finset F, bad.card ≤ claimed.length - 1 ∧
      ∀ x4, x4 ∉ bad → evalPoly claimed x4 ≠ evalPoly truth x4 :=
  x4_fold_sound_count_aux claimed truth hlen hne

example : ([1, 2] : List ℚ).length = [1, 3].length ∧ ([1, 2] : List ℚ) ≠ [1, 3] := by decide

/-- **What `multi_open` opens is what `multi_prepare` recomputes (grouped form).** Under the
hypotheses of `multiopen_complete`, the prover model and the verifier's trace (`prepareTrace`, the
function compared line by line with the trace hook inside the real `multi_prepare`; the prover's
side is compared with the trace hook inside the real `multi_open`, `otrace` lines) satisfy, equality
by equality (`OpenMatches`): one `q` polynomial per point set; the `x₁`-folded claims the verifier
interpolates are the values of the prover's `q_polys` on the point sets; the `q` evaluations in the
proof are `q_polys(x₃)`; the verifier's `f_eval` is `f_poly(x₃)`; the verifier's `v` is the
prover's `v = final_poly(x₃)`; and `π` commits to `(final_poly − v)/(X − x₃)`. -/
theorem multi_open_matches_verifier_groups (nMax : Nat) (hn : 0 < nMax) (s x1 x2 x3 x4 : F) (dlog : Base → F)
    (groups : List (Group F)) (hne : groups ≠ [])
    (hok : ∀ g ∈ groups, GroupOk nMax s x3 dlog g) :
    ∃ out t, openGroups nMax (proverGroups groups) x1 x2 x3 x4 = some out ∧
      prepareTrace (fun a => a⁻¹) (verifierGroups groups) ⟨true, out.qEvals, true⟩ x1 x2 x3 x4 = some t ∧
      OpenMatches x3 out t (groups.map (·.1)) :=
  prepareTrace_matches nMax hn s x1 x2 x3 x4 dlog (fun a => a⁻¹) (fun _ => rfl) lagrangeSpec_inv groups hne hok

/-- **What `multi_open` opens is what `multi_prepare` recomputes — for every query-set shape.**
Under the hypotheses of `multiopen_complete_refs` (any table of polynomials, any non-empty
duplicate-free query list in any order, honest one-piece or chopped references, `x₃` different
from the query points): `multi_open` returns `out`, `multi_prepare` reaches `v` with trace `t`,
and for the point sets `points` of the grouping the intermediate equalities `OpenMatches` hold:
`t.qEvalSets` = values of `out.qPolys` on the point sets, `out.qEvals = out.qPolys(x₃)`,
`t.fEval = out.fPoly(x₃)`, `t.v = out.v = out.finalPoly(x₃)`, `final_poly − v = (X − x₃)·pi_poly`.
(Completeness follows from these; here they are stated one by one.) -/
theorem multi_open_matches_verifier (nMax : Nat) (hn : 0 < nMax) (s x1 x2 x3 x4 : F) (dbg : Bool)
    (ref : Nat → ComRef) (hinj : Function.Injective ref) (dl : Nat → F)
    (polys : List (List F)) (hlen : ∀ p ∈ polys, p.length = nMax)
    (pq : List (Nat × F)) (hidx : ∀ q ∈ pq, q.1 < polys.length) (hnd : pq.Nodup) (hne : pq ≠ [])
    (hx3 : ∀ q ∈ pq, x3 ≠ q.2) (hok : RefOk ref dl s polys pq) :
    ∃ out t points, multiOpen nMax polys (proverQueries polys pq) x1 x2 x3 x4 = .ok out ∧
      multiPrepareTrace (fun a => a⁻¹) dbg (verifierQueriesRef ref polys pq) ⟨true, out.qEvals, true⟩ x1 x2 x3 x4 = some t ∧
      (∃ cm, constructIntermediateSets (0 : F) (proverQueries polys pq) = some (cm, points)) ∧
      OpenMatches x3 out t points :=
  multi_open_matches_verifier_aux nMax hn s x1 x2 x3 x4 dbg ref hinj dl polys hlen pq hidx hnd hne hx3 hok

/-- Non-vacuity: two polynomials, three queries, one-piece references with honest logarithms. -/
example : ∃ (dl : Nat → ℚ) (polys : List (List ℚ)) (pq : List (Nat × ℚ)),
    Function.Injective ComRef.one ∧ (∀ p ∈ polys, p.length = 2) ∧ (∀ q ∈ pq, q.1 < polys.length) ∧ pq.Nodup ∧
    pq ≠ [] ∧ (∀ q ∈ pq, (7 : ℚ) ≠ q.2) ∧ RefOk ComRef.one dl 2 polys pq := by
  refine ⟨fun i => [3, 2].getD i 0, [[1, 1], [0, 1]], [(0, 5), (0, 6), (1, 6)],
    fun a b h => by injection h, by simp, by simp, by decide, by simp, by norm_num, ?_⟩
  intro q hq
  simp only [List.mem_cons, List.not_mem_nil, or_false] at hq
  rcases hq with rfl | rfl | rfl <;> norm_num [evalPoly]

/-- The `f_eval` of the composed soundness statement (`fEvalOf`, closed form) is the value the
model's `f_eval` fold computes from the `q` evaluations found in the proof: for ANY claimed data,
whenever `lagrange_interpolate` returns `r pe` for every set and `x₃` is outside the point sets
(the polynomial component `qpoly` plays no role for the verifier). -/
theorem fEvalOf_is_verifier_f_eval (x2 x3 : F)
    (L : List (((List F × List (List (F × Base) × List F)) × List F) × F))
    (r qpoly : (((List F × List (List (F × Base) × List F)) × List F) × F) → List F)
    (hr : ∀ pe ∈ L, lagrangeInterpolate (fun (a : F) => a⁻¹) pe.1.1.1 pe.1.2 = some (r pe))
    (hx : ∀ pe ∈ L, x3 ∉ pe.1.1.1) :
    L.foldr (fEvalStep (fun (a : F) => a⁻¹) x2 x3) (some 0) =
      some (fEvalOf x2 x3 (L.map (fun pe => (pe.1.1.1, qpoly pe, r pe))) (L.map (·.2))) := by
  rw [fEvalStep_fold _ x2 x3 L r hr hx, fEvalOf, List.zip_map', List.map_map]
  rfl

/-- **Soundness, steps `x₂`, `x₃`, `x₄` composed (explicit nested bad-challenge sets).** Sets
`(Sᵢ, qᵢ, rᵢ)` after the `x₁`-fold (points, polynomial behind the folded commitment, interpolant of
the folded claims, all of at most `nMax` coefficients), `U` the distinct points. If some `rᵢ`
differs from `qᵢ` on `Sᵢ`, then: for all `x₂` outside a set of `≤ #sets − 1` values, WHATEVER
polynomial `f` (degree `< nMax`) the prover commits to as `f_com`, for all `x₃ ∉ U` outside a set
of `≤ nMax − 1 + |U|` values, WHATEVER `q` evaluations `qe` the prover writes into the proof, for
all `x₄` outside a set of `≤ #sets` values, there is NO polynomial `w` behind `π` with
`(X − x₃)·w = P − v`, where `P = Σ x₄ⁱ·qᵢ + x₄^m·f` is the polynomial behind the verifier's
`final_com` and `v` the verifier's value (`vOf`, `fEvalOf_is_verifier_f_eval`). The quantifier
order is the order of the protocol (the prover chooses `f` after `x₂`, `qe` after `x₃`, `π` after
`x₄`). Assumed and not proved: binding (q-SDH / AGM), which lifts the pairing check at the secret
`s` to this polynomial identity. -/
theorem multiopen_sound_after_x1 (U : List F) (hU : U.Nodup) (nMax : Nat)
    (gs : List (List F × List F × List F))
    (hsub : ∀ g ∈ gs, ∀ p ∈ g.1, p ∈ U) (hnd : ∀ g ∈ gs, g.1.Nodup)
    (hq : ∀ g ∈ gs, g.2.1.length ≤ nMax) (hr : ∀ g ∈ gs, g.2.2.length ≤ nMax)
    (hwrong : ∃ g ∈ gs, ∃ z ∈ g.1, evalPoly g.2.2 z ≠ evalPoly g.2.1 z) :
    ∃ bad2 : Finset F, bad2.card ≤ gs.length - 1 ∧ ∀ x2, x2 ∉ bad2 →
      ∀ f : F[X], f.natDegree ≤ nMax - 1 →
      ∃ bad3 : Finset F, bad3.card ≤ nMax - 1 + U.length ∧ ∀ x3, x3 ∉ bad3 → x3 ∉ U →
        ∀ qe : List F, qe.length = gs.length →
        ∃ bad4 : Finset F, bad4.card ≤ gs.length ∧ ∀ x4, x4 ∉ bad4 →
          ¬ ∃ w : F[X], (X - C x3) * w =
            finalPolyOf x4 f (gs.map (fun g => g.2.1)) - C (vOf x2 x3 x4 gs qe) :=
  sound_x2_x3_x4 U hU nMax gs hsub hnd hq hr hwrong

example : ∃ (U : List ℚ) (gs : List (List ℚ × List ℚ × List ℚ)), U.Nodup ∧ (∀ g ∈ gs, ∀ p ∈ g.1, p ∈ U) ∧
    (∀ g ∈ gs, g.1.Nodup) ∧ (∀ g ∈ gs, g.2.1.length ≤ 2) ∧ (∀ g ∈ gs, g.2.2.length ≤ 2) ∧
    ∃ g ∈ gs, ∃ z ∈ g.1, evalPoly g.2.2 z ≠ evalPoly g.2.1 z :=
  ⟨[1, 2], [([1], [0, 1], [1]), ([1, 2], [1, 1], [5])], by decide, by simp, by simp, by simp, by simp,
    ([1, 2], [1, 1], [5]), by simp, 1, by simp, by norm_num [evalPoly]⟩

/-- **Soundness of the multi-opening, algebraic form: all four steps composed over the model's own
folds.** `sets`: the verifier's point sets, each with the polynomials behind its commitments
(`nMax` coefficients, AGM-style: commitments are polynomials) and the claimed evaluation vectors
(`ClaimSetOk`: distinct points, `1 ≤ |S| ≤ nMax`, at least one commitment, at most `nb`); `U` the
distinct points of all sets. If ONE claimed evaluation is wrong, then with
`foldedSet x₁ = (S, inner_product(polys, x₁), lagrange_interpolate(S, evals_inner_product(claims, x₁)))`
— the model's functions —: for all `x₁` outside a set of `≤ #polys(of that set) − 1` values, all
`x₂` outside a set of `≤ #sets − 1` values, whatever `f` (degree `< nMax`) is behind `f_com`, all
`x₃ ∉ U` outside a set of `≤ nMax − 1 + |U|` values, whatever `q` evaluations are in the proof,
all `x₄` outside a set of `≤ #sets` values: NO polynomial `w` behind `π` satisfies the final
identity `(X − x₃)·w = P − v` of the verifier. Each bad set is explicit in the proof (roots of an
explicit non-zero polynomial) and may depend on the earlier challenges and prover messages, as in
the protocol; summing the four bounds over `|F|` bounds the acceptance probability of a false
claim in the AGM + random-oracle idealisation (that probabilistic wrapping and binding itself are
NOT formalised). -/
theorem multiopen_sound_algebraic (U : List F) (hU : U.Nodup) (nMax nb : Nat)
    (sets : List (ClaimSet F)) (hok : ∀ s ∈ sets, ClaimSetOk nMax nb U s)
    (hwrong : ∃ s ∈ sets, ∃ t, t < s.1.length ∧ ∃ p ∈ s.2, p.2.getD t 0 ≠ evalPoly p.1 (s.1.getD t 0)) :
    ∃ npolys, npolys ≤ nb ∧ ∃ bad1 : Finset F, bad1.card ≤ npolys - 1 ∧ ∀ x1, x1 ∉ bad1 →
      ∃ bad2 : Finset F, bad2.card ≤ sets.length - 1 ∧ ∀ x2, x2 ∉ bad2 →
        ∀ f : F[X], f.natDegree ≤ nMax - 1 →
        ∃ bad3 : Finset F, bad3.card ≤ nMax - 1 + U.length ∧ ∀ x3, x3 ∉ bad3 → x3 ∉ U →
          ∀ qe : List F, qe.length = sets.length →
          ∃ bad4 : Finset F, bad4.card ≤ sets.length ∧ ∀ x4, x4 ∉ bad4 →
            ¬ ∃ w : F[X], (X - C x3) * w =
              finalPolyOf x4 f ((sets.map (foldedSet x1 nb)).map (fun g => g.2.1)) -
                C (vOf x2 x3 x4 (sets.map (foldedSet x1 nb)) qe) :=
  multiopen_sound_algebraic_model U hU nMax nb sets hok hwrong

/-- Non-vacuity: one set `{2}` with `p₀ = 1`, `p₁ = X` and the claims `2` (wrong) and `2` (right). -/
example : ∃ (U : List ℚ) (sets : List (ClaimSet ℚ)), U.Nodup ∧ (∀ s ∈ sets, ClaimSetOk 2 2 U s) ∧
    ∃ s ∈ sets, ∃ t, t < s.1.length ∧ ∃ p ∈ s.2, p.2.getD t 0 ≠ evalPoly p.1 (s.1.getD t 0) := by
  refine ⟨[2], [([2], [([1, 0], [2]), ([0, 1], [2])])], by decide, ?_, _, List.mem_singleton.2 rfl, 0,
    by simp, ([1, 0], [2]), by simp, by norm_num [evalPoly]⟩
  intro s hs
  rw [List.mem_singleton.1 hs]
  exact { nodup := by decide, pts_ne := by simp, pts_le := by simp, sub := by simp, ne := by simp,
          nb_le := by simp, plen := by simp, elen := by simp }

/-- **The pairing check is the final identity at the secret.** With `qᵢ`, `f`, `w` the polynomials
behind the folded commitments, `f_com` and `π` (algebraic group model), the dual MSM that
`prepareGroups` returns — `left = [π]`, `right = msm_inner_product(q_coms ++ [f_com], powers(x₄)) ++
[x₃·π, v·(−G)]` — passes `DualMSM::check` (on discrete logarithms) exactly when
`(X − x₃)·w = P − v` holds at `X = s`, `P = finalPolyOf` being the polynomial of
`multiopen_sound_algebraic`. Binding (q-SDH: the prover does not know `s`) is the assumption under
which an identity at `s` between polynomials the prover knows is an identity of polynomials; it is
not proved here. -/
theorem pairing_check_is_final_identity_at_s (dlog : Base → F) (s x3 x4 v : F) (f w : F[X])
    (qComs : List (List (F × Base))) (qs : List (List F))
    (hq : qComs.map (msmLog dlog) = qs.map (fun q => evalPoly q s))
    (hf : dlog .f = f.eval s) (hpi : dlog .pi = w.eval s) (hneg : dlog .negG = -1) :
    checkLog s dlog { left := [((1 : F), Base.pi)],
                      right := msmInnerProduct (qComs ++ [[((1 : F), Base.f)]]) (powersN x4 (qComs.length + 1) 1) ++
                        [(x3, Base.pi), (v, Base.negG)] } = true ↔
      ((X - C x3) * w).eval s = (finalPolyOf x4 f qs - C v).eval s :=
  check_is_identity_at_s dlog s x3 x4 v f w qComs qs hq hf hpi hneg

/-- non-vacuity: one folded commitment `k₀` to `q = 1 + X`, `f = X`, `w = 0`, `s = 2`. -/
example : ∃ (dlog : Base → ℚ) (f w : ℚ[X]) (qComs : List (List (ℚ × Base))) (qs : List (List ℚ)),
    qComs.map (msmLog dlog) = qs.map (fun q => evalPoly q 2) ∧ dlog .f = f.eval 2 ∧ dlog .pi = w.eval 2 ∧
    dlog .negG = -1 :=
  ⟨fun b => match b with | .com _ => 3 | .f => 2 | .pi => 0 | .negG => -1, X, 0, [[(1, Base.com 0)]], [[1, 1]],
    by norm_num [msmLog, evalPoly], by simp, by simp, rfl⟩

/-- **The `v` (and `f_eval`) of `multiopen_sound_algebraic` are the model verifier's.** For
well-formed claim sets, `nb` the largest number of commitments in a set (what `multi_prepare`
computes as `nb_x1_powers`), whatever `q` evaluations `qe` the proof contains and `x₃` outside the
points: `prepareTrace` — the computation of `prepareGroups`/`multi_prepare`
(`prepare_trace_consistent`), compared line by line with the trace hook of the real `multi_prepare` —
reaches `v`, and its `f_eval`, `v` are `fEvalOf`, `vOf` over the folds `foldedSet`. Together with
`pairing_check_is_final_identity_at_s` this ties the identity refuted in
`multiopen_sound_algebraic` to the check the model verifier defers. -/
theorem composed_v_is_verifier_v (nMax nb : Nat) (U : List F) (sets : List (ClaimSet F))
    (hok : ∀ s ∈ sets, ClaimSetOk nMax nb U s)
    (hnb : nb = (sets.map (fun s => s.2.length)).foldl max 0)
    (terms : List F × List F → List (F × Base)) (x1 x2 x3 x4 : F) (hx3 : x3 ∉ U)
    (qe : List F) (hqe : qe.length = sets.length) :
    ∃ t, prepareTrace (fun (a : F) => a⁻¹) (claimGroups terms sets) ⟨true, qe, true⟩ x1 x2 x3 x4 = some t ∧
      t.fEval = fEvalOf x2 x3 (sets.map (foldedSet x1 nb)) qe ∧
      t.v = vOf x2 x3 x4 (sets.map (foldedSet x1 nb)) qe :=
  verifier_v_is_vOf nMax nb U sets hok hnb terms x1 x2 x3 x4 hx3 qe hqe

example : ∃ (U : List ℚ) (sets : List (ClaimSet ℚ)) (qe : List ℚ), (∀ s ∈ sets, ClaimSetOk 2 2 U s) ∧
    2 = (sets.map (fun s => s.2.length)).foldl max 0 ∧ (5 : ℚ) ∉ U ∧ qe.length = sets.length := by
  refine ⟨[2], [([2], [([1, 0], [2]), ([0, 1], [2])])], [7], ?_, by decide, by norm_num, rfl⟩
  intro s hs
  rw [List.mem_singleton.1 hs]
  exact { nodup := by decide, pts_ne := by simp, pts_le := by simp, sub := by simp, ne := by simp,
          nb_le := by simp, plen := by simp, elen := by simp }

/-- The verifier's folded commitments `q_comᵢ = msm_inner_product(MSMs of set i, powers_x1)` are
commitments to the folded polynomials `inner_product(polys of set i, powers(x₁))` of `foldedSet`,
whenever the terms of every commitment have the logarithm of its polynomial at `s` (one-piece or
chopped, `chopped_terms_spec`). -/
theorem folded_commitments_commit_to_folded_polys (nMax nb : Nat) (U : List F) (sets : List (ClaimSet F))
    (hok : ∀ s ∈ sets, ClaimSetOk nMax nb U s)
    (terms : List F × List F → List (F × Base)) (dlog : Base → F) (s x1 : F)
    (hterms : ∀ cs ∈ sets, ∀ pe ∈ cs.2, msmLog dlog (terms pe) = evalPoly pe.1 s) :
    ((claimGroups terms sets).map (fun g => msmInnerProduct (g.2.map (·.1)) (powersN x1 nb 1))).map (msmLog dlog) =
      ((sets.map (foldedSet x1 nb)).map (fun g => g.2.1)).map (fun q => evalPoly q s) :=
  qComs_log nMax nb U sets hok terms dlog s x1 hterms

/-- **The model verifier's deferred check IS the final identity of `multiopen_sound_algebraic` at the
secret.** For well-formed claim sets whose commitments are commitments to the polynomials (AGM
reading: `log(terms) = p(s)`), `f_com`, `π` with polynomials `f`, `w` behind them, any `q`
evaluations in the proof, `x₃` outside the points: `prepareGroups` (the body of `multi_prepare`)
returns a dual MSM, and `DualMSM::check` accepts it (on discrete logarithms) exactly when
`(X − x₃)·w = P − v` holds at `X = s`, with `P`, `v` the polynomial and value of
`multiopen_sound_algebraic` for the same challenges. So: one wrong claimed evaluation ⇒ outside the
explicit bad challenge sets the identity fails as a polynomial identity, and the verifier accepts
only if it nevertheless holds at the secret point `s` — which is what binding (q-SDH) excludes;
that last step is the named assumption. -/
theorem model_check_is_final_identity_at_s (nMax nb : Nat) (U : List F) (sets : List (ClaimSet F))
    (hok : ∀ s ∈ sets, ClaimSetOk nMax nb U s)
    (hnb : nb = (sets.map (fun s => s.2.length)).foldl max 0)
    (terms : List F × List F → List (F × Base)) (dlog : Base → F) (s x1 x2 x3 x4 : F) (hx3 : x3 ∉ U)
    (qe : List F) (hqe : qe.length = sets.length) (f w : F[X])
    (hterms : ∀ cs ∈ sets, ∀ pe ∈ cs.2, msmLog dlog (terms pe) = evalPoly pe.1 s)
    (hf : dlog .f = f.eval s) (hpi : dlog .pi = w.eval s) (hneg : dlog .negG = -1) :
    ∃ dual, prepareGroups (fun (a : F) => a⁻¹) (claimGroups terms sets) ⟨true, qe, true⟩ x1 x2 x3 x4 = .ok dual ∧
      (checkLog s dlog dual = true ↔
        ((X - C x3) * w).eval s =
          (finalPolyOf x4 f ((sets.map (foldedSet x1 nb)).map (fun g => g.2.1)) -
            C (vOf x2 x3 x4 (sets.map (foldedSet x1 nb)) qe)).eval s) :=
  model_check_iff_identity_at_s nMax nb U sets hok hnb terms dlog s x1 x2 x3 x4 hx3 qe hqe f w hterms hf hpi hneg

/-- non-vacuity: the set `{2}` with `p₀ = 1`, `p₁ = X` behind the commitments `k₀`, `k₁`
(logarithms `1` and `s = 3`), `f = X`, `w = 0`. -/
example : ∃ (U : List ℚ) (sets : List (ClaimSet ℚ)) (terms : List ℚ × List ℚ → List (ℚ × Base))
    (dlog : Base → ℚ) (f w : ℚ[X]), (∀ s ∈ sets, ClaimSetOk 2 2 U s) ∧
    (∀ cs ∈ sets, ∀ pe ∈ cs.2, msmLog dlog (terms pe) = evalPoly pe.1 3) ∧
    dlog .f = f.eval 3 ∧ dlog .pi = w.eval 3 ∧ dlog .negG = -1 := by
  refine ⟨[2], [([2], [([1, 0], [2]), ([0, 1], [2])])],
    fun pe => [(1, Base.com (if pe.1 = [1, 0] then 0 else 1))],
    fun b => match b with | .com i => if i = 0 then 1 else 3 | .f => 3 | .pi => 0 | .negG => -1,
    X, 0, ?_, ?_, by simp, by simp, rfl⟩
  · intro s hs
    rw [List.mem_singleton.1 hs]
    exact { nodup := by decide, pts_ne := by simp, pts_le := by simp, sub := by simp, ne := by simp,
            nb_le := by simp, plen := by simp, elen := by simp }
  · intro cs hcs pe hpe
    rw [List.mem_singleton.1 hcs] at hpe
    simp only [List.mem_cons, List.not_mem_nil, or_false] at hpe
    rcases hpe with rfl | rfl <;> norm_num [msmLog, evalPoly]

/-- The honest prover passes the same final identity (the composed statement is not vacuous on the
other side): whenever the `q` evaluations are `qᵢ(x₃)` and `v` is the value of the final polynomial
at `x₃`, the quotient `w` exists (`pi_unique` gives its uniqueness). -/
theorem final_identity_complete (x3 x4 : F) (f : F[X]) (qs : List (List F)) :
    ∃ w : F[X], (X - C x3) * w = finalPolyOf x4 f qs - C ((finalPolyOf x4 f qs).eval x3) := by
  have h : (X - C x3) ∣ finalPolyOf x4 f qs - C ((finalPolyOf x4 f qs).eval x3) :=
    Polynomial.dvd_iff_isRoot.2 (by simp)
  obtain ⟨w, hw⟩ := h
  exact ⟨w, hw.symm⟩

/-- **`eval_polynomial` does not depend on the size of the rayon pool.** `evalPolyThreads t` mirrors
`arithmetic.rs: eval_polynomial` as written (serial when `n·2 < t`, otherwise chunks of `⌈n/t⌉`
zipped with `t` result slots, slot `i` shifted by `x^(i·chunk)`, summed; compared with the real
function inside explicit rayon pools, `evalt` lines): for every `t ≥ 1`, every coefficient vector and
every point it is Horner's value — no chunk is dropped by the `zip` because `⌈n/⌈n/t⌉⌉ ≤ t`
(with the chunk size rounded DOWN this fails, seed C14-3). Hence the `q` evaluations and `v` of
`multi_open` and the `r_eval` of `multi_prepare`, all computed through `evalPoly` in the model, are
the values the code computes under any thread count. -/
theorem eval_polynomial_thread_independent (t : Nat) (ht : 0 < t) (p : List F) (x : F) :
    evalPolyThreads t p x = evalPoly p x :=
  evalPolyThreads_eq t ht p x

/-- non-vacuity: 3 threads, 4 coefficients (chunks of 2: `[1,2]`, `[3,4]`, third slot unused) -/
example : evalPolyThreads 3 ([1, 2, 3, 4] : List ℚ) 2 = 49 := by
  norm_num [evalPolyThreads, chunksOf, evalPoly, powNat, List.zipIdx]

end algebra

end MidnightZK.C14
