import MidnightZK.Proofs.C13.Tower
import MidnightZK.Proofs.C13.Engine
import MidnightZK.Proofs.C13.Consts
import MidnightZK.Proofs.C13.Steps
import MidnightZK.Proofs.C13.Frob
import MidnightZK.Proofs.C13.Cyclotomic
import MidnightZK.Proofs.C13.Group
/-!
# C13 — the pairing is bilinear, non-degenerate and consistent across entry points

Partial by nature: that blst's (and the BN254 code's) Miller loop followed by the final
exponentiation *is* a bilinear non-degenerate map is a hypothesis (`structure Pairing`,
`structure MillerEngine`: fields, never axioms). Proved here, for all inputs:

* what the property statement derives from bilinearity (`e(aP, bQ) = e(P,Q)^(ab)`, identities);
* the list-level code around the pairing: `multi_miller_loop` of both engines is the product of the
  individual pairings for every list (identity entries, empty list), however it is split or
  ordered; `DualMSM::check` accepts exactly when `e(L,[s]₂) = e(R,[1]₂)`;
* the `Gt` wrapper: the double-and-add of `Gt * scalar` is exponentiation, conjugation is inversion
  on unitary elements;
* the tower arithmetic written in Rust (Karatsuba / Chung–Hasan / sparse products / inverses of
  `Fp2, Fp6, Fp12`, BN254 and the hand-written BLS12-381 `Fp6`) is multiplication in the quotient
  rings, which are commutative rings level by level;
* every pairing constant parsed from the sources satisfies its defining equation.

The executable models these theorems talk about are compared with the real code on every run
(`harness/c13`), including the complete BN254 Miller loop / final exponentiation and an independent
textbook ate pairing for blst's BLS12-381 results. The bilinearity samples run there are tests.
-/
namespace MidnightZK.C13
open MidnightZK

/-! ## What bilinearity gives (abstract pairing) -/
section
variable {G1 G2 GT : Type} [AddCommGroup G1] [AddCommGroup G2] [CommGroup GT]

/-- The form of bilinearity used in the property statement: `e(aP, bQ) = e(P, Q)^(ab)` for all
integers `a, b` (hence for all scalars of the prime field, through any representative). -/
theorem pairing_bilinear (E : Pairing G1 G2 GT) (a b : ℤ) (P : G1) (Q : G2) :
    E.e (a • P) (b • Q) = E.e P Q ^ (a * b) := by
  rw [E.zsmul_left, E.zsmul_right, ← zpow_mul, mul_comm]

/-- `e(P, Q)` is the identity as soon as one argument is; `e(−P, Q) = e(P, −Q) = e(P, Q)⁻¹`
(`test_unitary` of the repository, for all points). -/
theorem pairing_identity_and_neg (E : Pairing G1 G2 GT) (P : G1) (Q : G2) :
    E.e 0 Q = 1 ∧ E.e P 0 = 1 ∧ E.e (-P) Q = (E.e P Q)⁻¹ ∧ E.e P (-Q) = (E.e P Q)⁻¹ :=
  ⟨E.zero_left Q, E.zero_right P, E.neg_left P Q, E.neg_right P Q⟩

end

/-- Non-vacuity of `Pairing`: multiplication `ZMod 7 × ZMod 7 → ZMod 7` (target written
multiplicatively) is bilinear and non-degenerate — the discrete-logarithm picture the
correspondence harness uses (`e(xG₁, yG₂) = g_T^(xy)`). -/
def examplePairing : Pairing (ZMod 7) (ZMod 7) (Multiplicative (ZMod 7)) where
  e a b := Multiplicative.ofAdd (a * b)
  map_add_left P P' Q := by rw [← ofAdd_add, add_mul]
  map_add_right P Q Q' := by rw [← ofAdd_add, mul_add]
  nondegenerate P Q := by
    show Multiplicative.ofAdd (P * Q) = Multiplicative.ofAdd 0 ↔ _
    rw [Multiplicative.ofAdd.injective.eq_iff]
    revert P Q
    decide

example : examplePairing.e (3 • (2 : ZMod 7)) (5 • (4 : ZMod 7)) = examplePairing.e 2 4 ^ (3 * 5 : ℤ) := by
  have := pairing_bilinear examplePairing 3 5 (2 : ZMod 7) (4 : ZMod 7)
  simpa using this

/-! ## `multi_miller_loop` followed by the final exponentiation -/
section
variable {G1 G2 M GT : Type} [AddCommGroup G1] [AddCommGroup G2] [CommMonoid M] [CommGroup GT]
  [DecidableEq G1] [DecidableEq G2]

/-- The product of the individual pairings of a list. -/
def pairingProduct (E : Pairing G1 G2 GT) (terms : List (G1 × G2)) : GT :=
  (terms.map (fun t => E.e t.1 t.2)).prod

/-- **`multi_pairing_product`** (BLS12-381, `bls12_381/mod.rs: multi_miller_loop`): for every list
of pairs — any length including 0, identity points anywhere — the loop's result, finally
exponentiated, is the product of the individual pairings. Pairs with an identity are skipped by the
code and contribute `1`, which is `e(P, Q)` for them by non-degeneracy. -/
theorem multi_pairing_product (E : MillerEngine G1 G2 M GT) (terms : List (G1 × G2)) :
    E.finalExp (multiMillerLoopBls (fun P => decide (P = 0)) (fun Q => decide (Q = 0)) E.miller terms)
      = pairingProduct E.toPairing terms := by
  rw [multiMillerLoopBls_eq_prod, map_list_prod, List.map_map]
  unfold pairingProduct
  congr 1
  apply List.map_congr_left
  intro t _
  simp only [Function.comp, mmlTerm]
  by_cases hP : t.1 = 0
  · simp [hP, E.toPairing.zero_left]
  · by_cases hQ : t.2 = 0
    · simp [hQ, E.toPairing.zero_right]
    · simp [hP, hQ, E.finalExp_miller t.1 t.2 hP hQ]

/-- Non-vacuity: the empty list gives the identity (the initial `blst_fp12::default()` is one). -/
example (E : MillerEngine G1 G2 M GT) :
    E.finalExp (multiMillerLoopBls (fun P => decide (P = 0)) (fun Q => decide (Q = 0)) E.miller []) = 1 := by
  rw [multi_pairing_product]; simp [pairingProduct]

omit [CommMonoid M] in
/-- **`multi_pairing_product_bn`** (BN254, `bn256/engine.rs: multi_miller_loop`): the code drops
the pairs containing an identity and runs one joint Miller loop on the rest. If the joint loop is
correct on lists *without* identities (hypothesis `hjoint`: the part of the BN code that is checked
by correspondence only), the result is the product of all pairings of the original list. -/
theorem multi_pairing_product_bn (E : Pairing G1 G2 GT) (finalExp : M → GT)
    (joint : List (G1 × G2) → M)
    (hjoint : ∀ l : List (G1 × G2), (∀ t ∈ l, t.1 ≠ 0 ∧ t.2 ≠ 0) → finalExp (joint l) = pairingProduct E l)
    (terms : List (G1 × G2)) :
    finalExp (joint (filterIdentityTerms (fun P => decide (P = 0)) (fun Q => decide (Q = 0)) terms))
      = pairingProduct E terms := by
  rw [hjoint]
  · unfold pairingProduct filterIdentityTerms
    induction terms with
    | nil => simp
    | cons t ts ih =>
      by_cases hP : t.1 = 0
      · simpa [List.filter_cons, hP, E.zero_left] using ih
      · by_cases hQ : t.2 = 0
        · simpa [List.filter_cons, hQ, E.zero_right] using ih
        · simpa [List.filter_cons, hP, hQ] using ih
  · intro t ht
    simp only [filterIdentityTerms, List.mem_filter] at ht
    have := ht.2
    simp only [Bool.not_eq_true', Bool.or_eq_false_iff, decide_eq_false_iff_not] at this
    exact this

/-- The order of the pairs does not matter (entry point `mml-rev` of the harness, every
permutation). -/
theorem multi_miller_loop_perm (E : MillerEngine G1 G2 M GT) (l₁ l₂ : List (G1 × G2)) (h : l₁.Perm l₂) :
    E.finalExp (multiMillerLoopBls (fun P => decide (P = 0)) (fun Q => decide (Q = 0)) E.miller l₁)
      = E.finalExp (multiMillerLoopBls (fun P => decide (P = 0)) (fun Q => decide (Q = 0)) E.miller l₂) := by
  rw [multi_pairing_product, multi_pairing_product]
  exact (h.map _).prod_eq

/-- Splitting a list over two Miller loops and combining the results (`MillerLoopResult: Add`,
which multiplies in `Fp12`) before one final exponentiation gives the same value. -/
theorem multi_miller_loop_append (E : MillerEngine G1 G2 M GT) (l₁ l₂ : List (G1 × G2)) :
    E.finalExp (multiMillerLoopBls (fun P => decide (P = 0)) (fun Q => decide (Q = 0)) E.miller l₁
        * multiMillerLoopBls (fun P => decide (P = 0)) (fun Q => decide (Q = 0)) E.miller l₂)
      = E.finalExp (multiMillerLoopBls (fun P => decide (P = 0)) (fun Q => decide (Q = 0)) E.miller (l₁ ++ l₂)) := by
  rw [map_mul, multi_pairing_product, multi_pairing_product, multi_pairing_product]
  simp [pairingProduct]

/-! ## Identity entries, prepared points, unprepared entry points -/

omit [AddCommGroup G1] [AddCommGroup G2] [CommGroup GT] [DecidableEq G1] [DecidableEq G2] in
/-- **Identity entries are skipped, at every position, already at the level of Miller values** (no
hypothesis on the pairing): a pair with an identity anywhere in the list does not change the result of
`bls12_381/mod.rs: multi_miller_loop`, and the loop equals the product of the Miller values of the
list filtered as `bn256/engine.rs: multi_miller_loop` filters it — both engines follow the same
control flow. (An index slip such as "skip the pair after an identity pair" contradicts the first
statement.) -/
theorem multi_miller_loop_identity_skip (isIdP : G1 → Bool) (isIdQ : G2 → Bool) (miller : G1 → G2 → M)
    (l₁ l₂ : List (G1 × G2)) (p : G1) (q : G2) (h : (isIdP p || isIdQ q) = true) :
    multiMillerLoopBls isIdP isIdQ miller (l₁ ++ (p, q) :: l₂) = multiMillerLoopBls isIdP isIdQ miller (l₁ ++ l₂)
    ∧ ∀ terms : List (G1 × G2), multiMillerLoopBls isIdP isIdQ miller terms
        = ((filterIdentityTerms isIdP isIdQ terms).map (fun t => miller t.1 t.2)).prod := by
  constructor
  · simp only [multiMillerLoopBls_eq_prod, List.map_append, List.map_cons, List.prod_append, List.prod_cons]
    simp [mmlTerm, h]
  · intro terms
    rw [multiMillerLoopBls_eq_prod]
    unfold filterIdentityTerms
    induction terms with
    | nil => simp
    | cons t ts ih =>
      rw [List.map_cons, List.prod_cons, ih, List.filter_cons]
      cases ht : (isIdP t.1 || isIdQ t.2)
      · simp only [mmlTerm, ht, Bool.not_false, if_true, List.map_cons, List.prod_cons]
        simp
      · simp only [mmlTerm, ht, Bool.not_true, if_true, one_mul]
        simp

/-- **Prepared points** (`g2.rs: From<G2Affine> for G2Prepared`, `G2Prepared::is_identity`,
`mod.rs: multi_miller_loop` on `(&G1Affine, &G2Prepared)`): preparing the identity sets the flag and
stores no lines; the loop tests the flag; so for every list — identities at any position — the
prepared loop, finally exponentiated, is the product of the pairings, provided
`blst_miller_loop_lines` on the lines of a non-identity point is the Miller function (hypothesis
`hlines`: blst, specified, compared on every run). -/
theorem multi_pairing_product_prepared {L : Type} (E : MillerEngine G1 G2 M GT)
    (precompute : G2 → List L) (millerLines : G1 → List L → M)
    (hlines : ∀ P Q, P ≠ 0 → Q ≠ 0 → millerLines P (precompute Q) = E.miller P Q)
    (terms : List (G1 × G2)) :
    E.finalExp (multiMillerLoopPrepared (fun P => decide (P = 0)) millerLines
        (terms.map (fun t => (t.1, g2Prepare (fun Q => decide (Q = 0)) precompute t.2))))
      = pairingProduct E.toPairing terms
    ∧ (g2Prepare (fun Q : G2 => decide (Q = 0)) precompute 0).isIdentity = true
    ∧ (g2Prepare (fun Q : G2 => decide (Q = 0)) precompute 0).lines = [] := by
  refine ⟨?_, by simp [g2Prepare_isIdentity], by simp [g2Prepare_lines]⟩
  rw [multiMillerLoopPrepared_eq (fun P => decide (P = 0)) (fun Q => decide (Q = 0)) precompute millerLines E.miller
    (fun p q hp hq => hlines p q (by simpa using hp) (by simpa using hq))]
  exact multi_pairing_product E terms

/-- **Unprepared entry points.** `bls_pairing.rs: pairing(p, q)` calls `blst_miller_loop` without testing
for identities; if blst's loop agrees with the line-based one on non-identity points and reduces to
one when a point is the identity (hypotheses about blst, compared on every run incl. identities),
`pairing(p, q)` equals the prepared one-element loop and `e(p, q)`. For BN254 `Engine::pairing` *is*
the one-element `multi_miller_loop` followed by `final_exponentiation` (`rfl`). -/
theorem pairing_entry_consistent (E : MillerEngine G1 G2 M GT) (millerRaw : G1 → G2 → M)
    (hraw : ∀ P Q, P ≠ 0 → Q ≠ 0 → millerRaw P Q = E.miller P Q)
    (hid : ∀ P Q, P = 0 ∨ Q = 0 → E.finalExp (millerRaw P Q) = 1) (P : G1) (Q : G2) :
    pairingEntry millerRaw E.finalExp P Q
        = E.finalExp (multiMillerLoopBls (fun P => decide (P = 0)) (fun Q => decide (Q = 0)) E.miller [(P, Q)])
    ∧ pairingEntry millerRaw E.finalExp P Q = E.e P Q
    ∧ ∀ (mml : List (G1 × G2) → M), pairingEntryBn mml E.finalExp P Q = E.finalExp (mml [(P, Q)]) := by
  have h : pairingEntry millerRaw E.finalExp P Q = E.e P Q := by
    unfold pairingEntry
    by_cases hP : P = 0
    · rw [hid P Q (Or.inl hP), hP, E.toPairing.zero_left]
    · by_cases hQ : Q = 0
      · rw [hid P Q (Or.inr hQ), hQ, E.toPairing.zero_right]
      · rw [hraw P Q hP hQ, E.finalExp_miller P Q hP hQ]
  refine ⟨?_, h, fun _ => rfl⟩
  rw [h, multi_pairing_product]; simp [pairingProduct]

/-! ## The final pairing check of the dual MSM -/

variable {S : Type} [CommRing S] [DecidableEq S] [Module S G1] [DecidableEq GT]

/-- **`dual_msm_check_iff`** (`proofs/src/poly/kzg/msm.rs: DualMSM::check`): with verifier
parameters `[s]₂ = S₂` and `−[1]₂ = −T₂` (as `ParamsKZG::verifier_params` prepares them), and left /
right MSMs having as many bases as scalars, `check` returns `true` exactly when
`e(L, [s]₂) = e(R, [1]₂)` for `L = Σ lᵢ·Aᵢ`, `R = Σ rᵢ·Bᵢ` — including the `scalars == [1]`
short-cuts, zero scalars, empty MSMs and identity points (`[s]₂ = 0`, `L = 0`, `R = 0`). -/
theorem dual_msm_check_iff (E : MillerEngine G1 G2 M GT)
    (ls : List S) (lb : List G1) (rs : List S) (rb : List G1) (S₂ T₂ : G2)
    (hl : ls.length = lb.length) (hr : rs.length = rb.length) :
    dualMsmCheck (fun s b => s • b)
        (multiMillerLoopBls (fun P => decide (P = 0)) (fun Q => decide (Q = 0)) E.miller)
        E.finalExp (fun t => decide (t = 1)) ls lb rs rb S₂ (-T₂)
      = some (decide (E.e (msmSum ls lb) S₂ = E.e (msmSum rs rb) T₂)) := by
  unfold dualMsmCheck
  rw [dualLeft_eq ls lb hl, msmEval_eq rs rb hr]
  simp only [Option.bind_eq_bind, Option.bind_some, Option.pure_def, Option.some.injEq]
  rw [multi_pairing_product]
  simp only [pairingProduct, List.map_cons, List.map_nil, List.prod_cons, List.prod_nil, mul_one,
    E.toPairing.neg_right]
  exact decide_eq_decide.mpr mul_inv_eq_one

end

/-! ## The `Gt` wrapper -/

/-- **`gt_ops_spec`** (`gt.rs: Mul<&Fq> for &Gt`, `pairing.rs: impl_gt! Mul`): for every element
`x` of a monoid and every big-endian byte string whose top bit is clear (always the case for the
32-byte encodings of the 255-bit / 254-bit scalar fields — "we skip the leading bit because it's
always unset"), the double-and-add loop computes `x ^ value(bytes)`; `Gt` addition being `Fp12`
multiplication and `double` being squaring, `g * s` is `g^s` in the target group. -/
theorem gt_ops_spec {γ : Type} [Monoid γ] (x : γ) (bytes : List Nat)
    (hbytes : ∀ b ∈ bytes, b < 256) (htop : ∀ b rest, bytes = b :: rest → b < 128) :
    gtMulBits (· * ·) (fun a => a * a) 1 x bytes = x ^ beValue bytes := by
  rw [gtMulBits_eq_pow, bitsVal_drop_one bytes htop, bitsVal_bitsOfBytesBE bytes hbytes]

/-- Non-vacuity: `3^0x0102 mod 1000003` via the loop, in the monoid `ℕ`. -/
example : gtMulBits (· * ·) (fun a => a * a) 1 (3 : ℕ) [0x00, 0x0d] = 3 ^ 13 := by decide

/-- Without the top-bit condition the loop drops the leading bit: it computes
`x ^ (value mod 2^(8·len − 1))` (stated on the bit string). -/
theorem gt_mul_drops_leading_bit {γ : Type} [Monoid γ] (x : γ) (bytes : List Nat) :
    gtMulBits (· * ·) (fun a => a * a) 1 x bytes = x ^ bitsVal ((bitsOfBytesBE bytes).drop 1) :=
  gtMulBits_eq_pow x bytes

/-- The square-and-multiply used by the model for every plain exponentiation (`f^r` of the order
checks, `ξ^((pⁱ−1)/k)` of the constant theorems, `f^((p¹²−1)/r)` of the naive final exponentiation)
is the power `x ^ e`, in every monoid and for every exponent. -/
theorem pow_bits_spec {γ : Type} [Monoid γ] (x : γ) (e : Nat) : powBits (· * ·) 1 x e = x ^ e :=
  powBits_eq_pow x e

/-- **The order-`r` subgroup is closed under the `Gt` operators** (`gt.rs`: `+` is the `Fp12` product,
`* scalar` a power, `identity` is one, `Sum` folds `+` from the identity): in any commutative monoid,
`{x | x^r = 1}` contains one and is closed under products, powers and finite sums-as-products, and on
it the scalar only matters modulo `r` (so `Gt * Fq` is well defined on field elements). -/
theorem gt_subgroup_closed {γ : Type} [CommMonoid γ] (r : ℕ) (x y : γ) (hx : x ^ r = 1) (hy : y ^ r = 1)
    (k : ℕ) (l : List γ) (hl : ∀ z ∈ l, z ^ r = 1) :
    (1 : γ) ^ r = 1 ∧ (x * y) ^ r = 1 ∧ (x ^ k) ^ r = 1 ∧ x ^ k = x ^ (k % r)
    ∧ gtSum l = l.prod ∧ (gtSum l) ^ r = 1 := by
  obtain ⟨h1, h2, h3⟩ := pow_order_closed r x y hx hy k
  refine ⟨h1, h2, h3, pow_mod_order r x hx k, gtSum_eq_prod l, ?_⟩
  rw [gtSum_eq_prod]
  induction l with
  | nil => simp
  | cons z zs ih =>
    rw [List.prod_cons, mul_pow, hl z (by simp), one_mul]
    exact ih (fun w hw => hl w (by simp [hw]))

/-- Non-vacuity: in `Multiplicative (ZMod 3)` every element has order dividing 3. -/
example : (Multiplicative.ofAdd (2 : ZMod 3)) ^ 3 = 1 := by decide

/-- **The final exponentiation lands in the order-`r` subgroup**: `f ↦ f^(N/r)` with `r ∣ N` maps every
`f` with `f^N = 1` (every non-zero element of `Fp12`, `N = p¹² − 1`; `r ∣ N` is `bn_parameters` /
`bls_parameters`) to an element of order dividing `r`. (blst's BLS12-381 exponent is `3·N/r`; `3 ∤ r`.) -/
theorem final_exp_in_subgroup {γ : Type} [CommMonoid γ] (N r : ℕ) (hr : r ∣ N) (f : γ) (hf : f ^ N = 1) :
    (f ^ (N / r)) ^ r = 1 ∧ (f ^ (3 * (N / r))) ^ r = 1 := by
  have h := final_exp_in_subgroup' N r hr f hf
  refine ⟨h, ?_⟩
  rw [mul_comm, pow_mul, ← pow_mul, mul_comm, pow_mul, h, one_pow]

/-! ## The two steps of the BN254 Miller loop (`derive/pairing.rs: double, add`) -/
section
variable {β : Type} [CommRing β]

/-- **Doubling step**, over any commutative ring (the code's `square()` being `x·x`, see
`quad_square_spec`): the accumulator becomes the Jacobian double (`a = 0`), and the coefficients given
to `ell` are the tangent at `T = (X/Z², Y/Z³)` evaluated at `P`, times `4·y_T·Z⁶` — a factor from the
twist's coefficient field, which the final exponentiation removes. -/
theorem miller_double_step_spec (xT yT Z xP yP : β) :
    (Bn.doubleCoeffs (fun x => x * x) (xT * Z ^ 2) (yT * Z ^ 3) Z).1
      = (let X := xT * Z ^ 2; let Y := yT * Z ^ 3
         (9 * X ^ 4 - 8 * X * Y ^ 2, 3 * X ^ 2 * (4 * X * Y ^ 2 - (9 * X ^ 4 - 8 * X * Y ^ 2)) - 8 * Y ^ 4, 2 * Y * Z))
    ∧ (let c := (Bn.doubleCoeffs (fun x => x * x) (xT * Z ^ 2) (yT * Z ^ 3) Z).2
       c.1 * yP + c.2.1 * xP + c.2.2 = 2 * Z ^ 6 * (2 * yT * (yP - yT) - 3 * xT ^ 2 * (xP - xT))) :=
  ⟨Bn.doubleCoeffs_point _ _ _, Bn.doubleCoeffs_line xT yT Z xP yP⟩

/-- **Addition step**: the accumulator becomes the mixed Jacobian sum `T + Q` (`madd-2007-bl`) and
the coefficients are the chord through `Q` and `T` evaluated at `P`, times `2Z'`. -/
theorem miller_add_step_spec (X Y Z qx qy xP yP : β) :
    (Bn.addCoeffs (fun x => x * x) X Y Z qx qy).1
      = (let H := qx * Z ^ 2 - X
         let rr := 2 * (qy * Z ^ 3 - Y)
         let V := 4 * X * H ^ 2
         let J := 4 * H ^ 3
         (rr ^ 2 - J - 2 * V, rr * (V - (rr ^ 2 - J - 2 * V)) - 2 * Y * J, 2 * Z * H))
    ∧ (let c := (Bn.addCoeffs (fun x => x * x) X Y Z qx qy).2
       c.1 * yP + c.2.1 * xP + c.2.2
         = 2 * ((2 * Z * (qx * Z ^ 2 - X)) * (yP - qy) - (2 * (qy * Z ^ 3 - Y)) * (xP - qx))) :=
  ⟨Bn.addCoeffs_point X Y Z qx qy, Bn.addCoeffs_line X Y Z qx qy xP yP⟩

end

/-! ## Tower arithmetic: the Rust formulas are the quotient-ring operations -/
section
variable {α : Type} [CommRing α] [NonRes α] [LawfulNonRes α]

/-- **`fp2_mul_spec` / `fp12_mul_spec`** (`quadratic.rs: QuadExtFieldArith::mul_assign`): the
Karatsuba product of `c0 + c1·X` elements equals the schoolbook product modulo `X² − ξ`, over any
commutative coefficient ring whose `mul_by_nonresidue` is multiplication by `ξ`. (Used at the
`Fq2` level with `ξ = −1` and at the `Fq12` level with `ξ = v`.) -/
theorem quad_mul_spec (a b : Quad α) :
    a * b = ⟨a.c0 * b.c0 + xi * (a.c1 * b.c1), a.c0 * b.c1 + a.c1 * b.c0⟩ :=
  Quad.ext' (Quad.mul_c0 a b) (Quad.mul_c1 a b)

/-- `square_assign` (both the generic one and the `Fq2` override for `ξ = −1`) is `a·a`. -/
theorem quad_square_spec (a : Quad α) :
    Quad.sqrK a = a * a ∧ ((xi : α) = -1 → Quad.sqrComplex a = a * a) :=
  ⟨Quad.sqrK_eq a, fun h => Quad.sqrComplex_eq h a⟩

/-- `invert` of the quadratic extension: if `t` inverts the norm `c0² − ξc1²`, the returned element
`(c0·t, c1·(−t))` is the inverse. -/
theorem quad_inv_spec (a : Quad α) (t : α) (ht : Quad.norm a * t = 1) :
    a * (⟨a.c0 * t, a.c1 * -t⟩ : Quad α) = 1 :=
  Quad.mul_inv_of_norm a t ht

/-- `Gt::neg` conjugates "because the element is unitary": `a · conj(a) = norm(a)` (embedded), so on
elements of norm one — everything that went through the easy part of the final exponentiation —
conjugation is inversion; and conjugation is multiplicative. -/
theorem gt_neg_is_inverse_on_unitary (a b : Quad α) :
    (Quad.norm a = 1 → a * Quad.conj a = 1) ∧ Quad.conj (a * b) = Quad.conj a * Quad.conj b := by
  refine ⟨fun h => ?_, Quad.conj_mul a b⟩
  rw [Quad.mul_conj, h]; rfl

/-- First step of both final exponentiations (`f^(p⁶−1) = conj(f)·f⁻¹`): whatever `f` (with inverse
`t`), the result is unitary — `norm = 1` — so from there on `conjugate` is the inverse, which is what
`Gt::neg` and the `conjugate()` calls of the hard part rely on. -/
theorem easy_part_unitary (f t : Quad α) (h : f * t = 1) :
    Quad.norm (Quad.conj f * t) = 1 ∧ (Quad.conj f * t) * Quad.conj (Quad.conj f * t) = 1 := by
  have hn : Quad.norm (Quad.conj f * t) = 1 := by
    rw [Quad.norm_mul, Quad.norm_conj, ← Quad.norm_mul, h, Quad.norm_one]
  refine ⟨hn, ?_⟩
  rw [Quad.mul_conj, hn]; rfl

/-- The `mul_by_nonresidue` short-cuts of the two `Fp2` types are multiplications by `9 + u`
(BN254) and `1 + u` (BLS12-381) when `u² = −1`. -/
theorem fp2_mul_by_nonresidue_spec (h : (xi : α) = -1) (a : Quad α) :
    Quad.mulNR9 a = (⟨9, 1⟩ : Quad α) * a ∧ Quad.mulNR1 a = (⟨1, 1⟩ : Quad α) * a :=
  ⟨Quad.mulNR9_eq h a, Quad.mulNR1_eq h a⟩

/-- **`fp6_mul_spec`** (`cubic.rs: CubicExtFieldArith::mul_assign` and the hand-written
`bls12_381/fp6.rs: MulAssign`): both equal the schoolbook product modulo `X³ − ξ`. -/
theorem cubic_mul_spec (a b : Cubic α) :
    a * b = ⟨a.c0 * b.c0 + xi * (a.c1 * b.c2 + a.c2 * b.c1),
             a.c0 * b.c1 + a.c1 * b.c0 + xi * (a.c2 * b.c2),
             a.c0 * b.c2 + a.c1 * b.c1 + a.c2 * b.c0⟩
    ∧ Cubic.mulBls a b = a * b :=
  ⟨Cubic.ext' (Cubic.mul_c0 a b) (Cubic.mul_c1 a b) (Cubic.mul_c2 a b), Cubic.mulBls_eq a b⟩

/-- `square` of the cubic extension (Chung–Hasan) is `a·a`. -/
theorem cubic_square_spec (a : Cubic α) : Cubic.sqrK a = a * a := Cubic.sqrK_eq a

/-- `invert` of the cubic extension: the cofactors `(c0', c1', c2')` satisfy `a·(c0'+c1'v+c2'v²) = t`
with `t` in the coefficient ring; hence multiplying them by an inverse of `t` inverts `a`. -/
theorem cubic_inv_spec (a : Cubic α) (ti : α) (ht : (Cubic.invParts a).2.2.2 * ti = 1) :
    a * (⟨ti * (Cubic.invParts a).1, ti * (Cubic.invParts a).2.1, ti * (Cubic.invParts a).2.2.1⟩ : Cubic α) = 1 := by
  have h := Cubic.mul_invParts a
  have hs : (⟨ti * (Cubic.invParts a).1, ti * (Cubic.invParts a).2.1, ti * (Cubic.invParts a).2.2.1⟩ : Cubic α)
      = (⟨ti, 0, 0⟩ : Cubic α) * ⟨(Cubic.invParts a).1, (Cubic.invParts a).2.1, (Cubic.invParts a).2.2.1⟩ := by
    apply Cubic.ext' <;> simp
  rw [hs, ← mul_assoc, mul_comm a, mul_assoc, h]
  apply Cubic.ext' <;> simp
  rw [mul_comm]; exact ht

/-- The sparse products of the Miller loop: `mul_by_1`, `mul_by_01` (cubic level) and `mul_by_014`,
`mul_by_034` (degree 12) equal full products with the corresponding sparse elements. -/
theorem sparse_mul_spec (a : Cubic α) (f : Tower12 α) (c0 c1 c3 c4 : α) :
    Cubic.mulBy1 a c1 = a * ⟨0, c1, 0⟩ ∧ Cubic.mulBy01 a c0 c1 = a * ⟨c0, c1, 0⟩
    ∧ mulBy014 f c0 c1 c4 = f * (⟨⟨c0, c1, 0⟩, ⟨0, c4, 0⟩⟩ : Tower12 α)
    ∧ mulBy034 f c0 c3 c4 = f * (⟨⟨c0, 0, 0⟩, ⟨c3, c4, 0⟩⟩ : Tower12 α) :=
  ⟨Cubic.mulBy1_eq a c1, Cubic.mulBy01_eq a c0 c1, mulBy014_eq f c0 c1 c4, mulBy034_eq f c0 c3 c4⟩

/-- **The tower is a tower of commutative rings**: with the operations of the Rust code,
`α[X]/(X²−ξ)`, `α[X]/(X³−ξ)` and the degree-12 extension over any lawful `Fp2` are commutative rings
(associativity, distributivity, … of the Karatsuba formulas), and `mul_by_nonresidue` of the cubic
level is multiplication by `v` — so each level is a lawful coefficient ring for the next one. -/
theorem tower_comm_ring :
    Nonempty (CommRing (Quad α)) ∧ Nonempty (CommRing (Cubic α)) ∧ Nonempty (CommRing (Tower12 α))
    ∧ (∀ a : Cubic α, NonRes.mulNR a = (⟨0, 1, 0⟩ : Cubic α) * a) :=
  ⟨⟨inferInstance⟩, ⟨inferInstance⟩, ⟨inferInstance⟩, fun a => LawfulNonRes.mulNR_eq a⟩

end

/-- Non-vacuity of the tower hypotheses: `ℤ` with `mul_by_nonresidue = negation` is a lawful base
(`ξ = −1`, the Gaussian integers at the next level), and `(1 + 2u)(3 + 4u) = −5 + 10u` there. -/
instance : NonRes ℤ := ⟨fun a => -a⟩
instance : LawfulNonRes ℤ := ⟨-1, fun x => by simp [NonRes.mulNR]⟩
example : (⟨1, 2⟩ : Quad ℤ) * ⟨3, 4⟩ = ⟨-5, 10⟩ := by
  rw [quad_mul_spec]; simp [xi, LawfulNonRes.xi]
example : Quad.sqrComplex (⟨1, 2⟩ : Quad ℤ) = ⟨-3, 4⟩ := by decide

/-! ## Frobenius maps, cyclotomic squaring, totality of `invert` -/
section
variable {α : Type} [CommRing α] [NonRes α] [LawfulNonRes α]

/-- **`frobenius_map` is a ring endomorphism, level by level** (`fp2.rs / fp6.rs / fp12.rs / fq2.rs /
fq6.rs / fq12.rs: frobenius_map`): the twisted coefficientwise maps `(c0, c1) ↦ (φc0, φc1·γ)` and
`(c0, c1, c2) ↦ (φc0, φc1·γ₁, φc2·γ₂)` preserve `0, 1, +, ·` when `φ` does and `γ²ξ = φ(ξ)` resp.
`γ₁³ξ = φ(ξ)`, `γ₂ = γ₁²`; conjugation (the BN254 `Fq2` map for odd powers) always does; the
BLS12-381 `Fp2` map `(c0, c1·γ)` is the first shape with `φ = id`, `γ² = 1`; hence the model's `frobenius_map(k)` of the cubic and of the degree-12 level
are ring endomorphisms when the `Fp2` map is one and the three tables satisfy
`C1[k%6]³ξ = frob_k(ξ)`, `C2[k%6] = C1[k%6]²`, `C12[k%12]² = C1[k%6]`
(kernel-checked on the parsed tables for every `k < 12`: `frobenius_table_relations`). -/
theorem frobenius_ring_hom :
    (∀ (φ : α → α) (γ : α), RingEndo φ → γ * γ * xi = φ xi → RingEndo (Quad.frobWith φ γ))
    ∧ RingEndo (Quad.conj : Quad α → Quad α)
    ∧ (∀ (φ : α → α) (γ₁ γ₂ : α), RingEndo φ → γ₁ * γ₁ * γ₁ * xi = φ xi → γ₂ = γ₁ * γ₁
        → RingEndo (Cubic.frobWith φ γ₁ γ₂))
    ∧ (∀ [Frob α] [FrobCoeffs α] (k : Nat), RingEndo (Frob.frob k : α → α)
        → FrobCoeffs.c6c1 (k % 6) * FrobCoeffs.c6c1 (k % 6) * FrobCoeffs.c6c1 (k % 6) * (xi : α) = Frob.frob k (xi : α)
        → (FrobCoeffs.c6c2 (k % 6) : α) = FrobCoeffs.c6c1 (k % 6) * FrobCoeffs.c6c1 (k % 6)
        → (FrobCoeffs.c12c1 (k % 12) : α) * FrobCoeffs.c12c1 (k % 12) = FrobCoeffs.c6c1 (k % 6)
        → RingEndo (Frob.frob k : Cubic α → Cubic α) ∧ RingEndo (Frob.frob k : Tower12 α → Tower12 α)) :=
  ⟨fun _ γ hφ hγ => Quad.frobWith_ringEndo hφ γ hγ, Quad.conj_ringEndo,
   fun _ γ₁ γ₂ hφ h1 h2 => Cubic.frobWith_ringEndo hφ γ₁ γ₂ h1 h2,
   fun k hφ h1 h2 h3 => ⟨Cubic.frob_ringEndo k hφ h1 h2, Tower12.frob_ringEndo k hφ h1 h2 h3⟩⟩

/-- **`cyclotomic_square` = `square` on the cyclotomic subgroup** (`tower.rs: impl_cyclotomic_square!`,
used by `exp_by_x` of the BN254 final exponentiation after the easy part): for `ω` with
`ω² − ω + 1 = 0` (a primitive sixth root of unity; `ω = ξ^((p²−1)/6) = C12[2]`) and every `f` with
`f · σ²(f) = σ(f)` where `σ = twistScale ω` multiplies the coefficient of `wʲ` by `ωʲ` — the `p²`-power
Frobenius, so the hypothesis reads `f^(p⁴)·f = f^(p²)`, i.e. `f ∈ G_{Φ₁₂(p)}` — the Granger–Scott
formula returns `f·f`. The model's `frobenius_map(k)` is `twistScale ω` when the `Fp2` map is the
identity and the tables hold `ω, ω², ω⁴` at `k` (kernel-checked for `k = 2, 4`:
`cyclotomic_table_constants`). -/
theorem cyclotomic_square_spec (ω : α) (hω : ω * ω - ω + 1 = 0) (f : Tower12 α)
    (hf : f * twistScale (ω * ω) f = twistScale ω f) :
    cyclotomicSquare f = f * f
    ∧ (∀ [Frob α] [FrobCoeffs α] (k : Nat), (∀ x : α, Frob.frob k x = x) → FrobCoeffs.c12c1 (k % 12) = ω
        → FrobCoeffs.c6c1 (k % 6) = ω ^ 2 → FrobCoeffs.c6c2 (k % 6) = ω ^ 4
        → ∀ g : Tower12 α, Frob.frob k g = twistScale ω g) :=
  ⟨cyclotomicSquare_eq ω hω f hf, fun k hid h12 h1 h2 g => Tower12.frob_eq_twistScale k ω hid h12 h1 h2 g⟩

end

/-- Non-vacuity of `cyclotomic_square_spec`: in `ZMod 7` (with `ξ = 3`), `ω = 3` is a primitive sixth root
of unity (`9 − 3 + 1 = 7`), and `f = 1` satisfies the membership hypothesis. -/
instance : NonRes (ZMod 7) := ⟨fun a => 3 * a⟩
instance : LawfulNonRes (ZMod 7) := ⟨3, fun _ => rfl⟩
example : cyclotomicSquare (1 : Tower12 (ZMod 7)) = 1 * 1 :=
  (cyclotomic_square_spec (3 : ZMod 7) (by decide) 1 (by decide)).1

/-- **`invert` is `None` only at zero** (`quadratic.rs: Field::invert`, `CtOption` on the norm's
inverse): over a field in which the non-residue is not a square (kernel-checked for both curves:
`nonresidue_constants`), the norm `c0² − ξc1²` vanishes only at zero, so every non-zero element has the
inverse given by `quad_inv_spec`. -/
theorem quad_inv_total {α : Type} [Field α] [NonRes α] [LawfulNonRes α] (hns : ∀ x : α, x * x ≠ xi)
    (a : Quad α) (ha : a ≠ 0) :
    Quad.norm a ≠ 0 ∧ a * (⟨a.c0 * (Quad.norm a)⁻¹, a.c1 * -(Quad.norm a)⁻¹⟩ : Quad α) = 1 := by
  have hn : Quad.norm a ≠ 0 := fun h => ha ((Quad.norm_eq_zero_iff hns a).1 h)
  exact ⟨hn, Quad.mul_inv_of_norm a _ (mul_inv_cancel₀ hn)⟩


/-! ## Constants parsed from the sources (re-generated on every run) -/
open Consts Gen in
/-- BN254: every Frobenius coefficient table entry equals `ξ^((pⁱ−1)/3)`, `ξ^((2pⁱ−2)/3)`,
`ξ^((pⁱ−1)/6)` with `ξ = 9 + u`; `XI_TO_Q_MINUS_1_OVER_2 = ξ^((p−1)/2)`; Montgomery forms convert;
table lengths are 6, 6, 12, 65. -/
theorem bn_frobenius_constants :
    (List.range 6).all (fun i => (FrobCoeffs.c6c1 i : BnFq2) = fq2Pow bnXi ((bnP ^ i - 1) / 3)) = true
    ∧ (List.range 6).all (fun i => (FrobCoeffs.c6c2 i : BnFq2) = fq2Pow bnXi ((2 * bnP ^ i - 2) / 3)) = true
    ∧ (List.range 12).all (fun i => (FrobCoeffs.c12c1 i : BnFq2) = fq2Pow bnXi ((bnP ^ i - 1) / 6)) = true
    ∧ Bn.xiToQm1Over2 = fq2Pow bnXi ((bnP - 1) / 2)
    ∧ (bnFrob6C1.length = 6 ∧ bnFrob6C2.length = 6 ∧ bnFrob12C1.length = 12 ∧ bnNaf.length = 65) := by
  refine ⟨bn_frob6c1, bn_frob6c2, ?_, bn_xi_to_q_minus_1_over_2, bn_lengths⟩
  have ha := bn_frob12c1_a
  have hb := bn_frob12c1_b
  have hc := bn_frob12c1_c
  have hr : List.range 12 = List.range 5 ++ [5, 6, 7, 8] ++ [9, 10, 11] := by decide
  rw [hr, List.all_append, List.all_append, ha, hb, hc]; rfl

open Consts Gen in
/-- BN254 parameters: `p`, `r` are the BN polynomials at `x = BN_X`; `SIX_U_PLUS_2_NAF` is a
signed-binary expansion of `6x + 2` with leading digit 1; `r ∣ p⁴ − p² + 1`; the exponents of the
hard-part addition chain of `final_exponentiation` sum to `(p⁴ − p² + 1)/r`, and
`(p¹²−1)/r = (p⁶−1)(p²+1)·(p⁴−p²+1)/r` (easy part × hard part). -/
theorem bn_parameters :
    (bnP = 36 * bnX ^ 4 + 36 * bnX ^ 3 + 24 * bnX ^ 2 + 6 * bnX + 1
      ∧ bnR = 36 * bnX ^ 4 + 36 * bnX ^ 3 + 18 * bnX ^ 2 + 6 * bnX + 1)
    ∧ nafValue bnNaf = 6 * (bnX : Int) + 2
    ∧ (bnNaf.all (fun d => d == 0 || d == 1 || d == -1) = true ∧ bnNaf.getLast? = some 1)
    ∧ ((bnP ^ 4 - bnP ^ 2 + 1) % bnR = 0 ∧ (bnP ^ 12 - 1) % bnR = 0
        ∧ (bnP ^ 12 - 1) / bnR = (bnP ^ 6 - 1) * (bnP ^ 2 + 1) * ((bnP ^ 4 - bnP ^ 2 + 1) / bnR))
    ∧ (((bnP : Int) + bnP ^ 2 + bnP ^ 3) + 2 * (-1) + 6 * (bnX ^ 2 * bnP ^ 2) + 12 * (-(bnX * bnP))
        + 18 * (-(bnX : Int) - bnX ^ 2 * bnP) + 30 * (-(bnX : Int) ^ 2) + 36 * (-(bnX : Int) ^ 3 - bnX ^ 3 * bnP)
        = (((bnP ^ 4 - bnP ^ 2 + 1) / bnR : Nat) : Int)) :=
  ⟨bn_family, bn_naf_value, bn_naf_digits, bn_embedding, bn_hard_part_exponent⟩

open Consts Gen in
/-- BLS12-381: the Frobenius coefficient tables of `fp.rs` / `fp12.rs` equal `(−1)^((pⁱ−1)/2)`,
`ξ^((pⁱ−1)/3)`, `ξ^((2pⁱ−2)/3)`, `ξ^((pⁱ−1)/6)` with `ξ = 1 + u`; Montgomery forms convert. -/
theorem bls_frobenius_constants :
    blsFrob2C1 = [1, powMod (blsP - 1) ((blsP - 1) / 2) blsP]
    ∧ (List.range 6).all (fun i => (FrobCoeffs.c6c1 i : BlsFp2) = fq2Pow blsXi ((blsP ^ i - 1) / 3)) = true
    ∧ (List.range 6).all (fun i => (FrobCoeffs.c6c2 i : BlsFp2) = fq2Pow blsXi ((2 * blsP ^ i - 2) / 3)) = true
    ∧ (List.range 12).all (fun i => (FrobCoeffs.c12c1 i : BlsFp2) = fq2Pow blsXi ((blsP ^ i - 1) / 6)) = true := by
  refine ⟨bls_frob2c1, ?_, ?_, ?_⟩
  · have hr : List.range 6 = List.range 3 ++ [3, 4, 5] := by decide
    rw [hr, List.all_append, bls_frob6c1_a, bls_frob6c1_b]; rfl
  · have hr : List.range 6 = List.range 3 ++ [3, 4, 5] := by decide
    rw [hr, List.all_append, bls_frob6c2_a, bls_frob6c2_b]; rfl
  · have hr : List.range 12 = List.range 5 ++ [5, 6, 7] ++ [8, 9] ++ [10, 11] := by decide
    rw [hr, List.all_append, List.all_append, List.all_append, bls_frob12c1_a, bls_frob12c1_b,
      bls_frob12c1_c, bls_frob12c1_d]; rfl

open Consts Gen in
/-- BLS12-381 parameters and target group: `r = x⁴ − x² + 1`, `3(p − x) = (x−1)²r` for
`x = −0xd201000000010000`; `r ∣ p⁴ − p² + 1`; `3 ∤ r` (so blst's `3·(p¹²−1)/r` exponent still gives a
non-degenerate pairing); `Gt::generator()` as written in `gt.rs` has order dividing `r` in `Fp12*` and
is not one (hence order exactly `r`, `r` prime), in canonical Montgomery encoding. -/
theorem bls_parameters :
    (blsR = Bls.absX ^ 4 - Bls.absX ^ 2 + 1 ∧ 3 * (blsP + Bls.absX) = (Bls.absX + 1) ^ 2 * blsR)
    ∧ ((blsP ^ 4 - blsP ^ 2 + 1) % blsR = 0 ∧ (blsP ^ 12 - 1) % blsR = 0 ∧ blsR % 3 ≠ 0)
    ∧ (powBits (· * ·) 1 Bls.gtGenerator blsR = (1 : BlsFp12) ∧ Bls.gtGenerator ≠ 1) :=
  ⟨bls_family, bls_embedding, bls_gt_generator_order⟩

open Consts Gen in
/-- Every Montgomery-form limb array of the pairing constants is the stated value times `2^256`
(`2^384`) modulo `p`, with the value canonical (`< p`). -/
theorem montgomery_forms_ok :
    (montOk bnP 256 bnFrob6C1 bnFrob6C1Mont && montOk bnP 256 bnFrob6C2 bnFrob6C2Mont
      && montOk bnP 256 bnFrob12C1 bnFrob12C1Mont && montOk bnP 256 bnXiToQm1Over2 bnXiToQm1Over2Mont = true)
    ∧ (montOk blsP 384 blsFrob6C1 blsFrob6C1Mont && montOk blsP 384 blsFrob6C2 blsFrob6C2Mont
      && montOk blsP 384 blsFrob12C1 blsFrob12C1Mont
      && (blsFrob2C1.zip blsFrob2C1Mont).all (fun vm => vm.1 * 2 ^ 384 % blsP == vm.2 && vm.1 < blsP)
      && (blsGtGen.zip blsGtGenMont).all (fun vm => vm.1 * 2 ^ 384 % blsP == vm.2 && vm.1 < blsP) = true) :=
  ⟨bn_mont_ok, bls_mont_ok⟩

open Consts Gen in
/-- **Relations that make the Frobenius maps ring endomorphisms, on the parsed tables** (hypotheses of
`frobenius_ring_hom`), both curves, every power `k < 12`: `C1[k%6]³·ξ = frob_k(ξ)`,
`C2[k%6] = C1[k%6]²`, `C12[k%12]² = C1[k%6]`; `FROBENIUS_COEFF_FP2_C1[i]² = 1`; the index moduli of the
`TABLE[power % N]` sites (parsed from the sources and used by the model's tables) are the table
lengths. A wrong table entry, a wrong index modulus or a swapped table breaks this theorem. -/
theorem frobenius_table_relations :
    (List.range 12).all (fun k =>
      let g1 : BnFq2 := FrobCoeffs.c6c1 (k % 6)
      let g2 : BnFq2 := FrobCoeffs.c6c2 (k % 6)
      let g12 : BnFq2 := FrobCoeffs.c12c1 (k % 12)
      decide (g1 * g1 * g1 * bnXi = Frob.frob k bnXi) && decide (g2 = g1 * g1) && decide (g12 * g12 = g1)) = true
    ∧ (List.range 12).all (fun k =>
      let g1 : BlsFp2 := FrobCoeffs.c6c1 (k % 6)
      let g2 : BlsFp2 := FrobCoeffs.c6c2 (k % 6)
      let g12 : BlsFp2 := FrobCoeffs.c12c1 (k % 12)
      decide (g1 * g1 * g1 * blsXi = Frob.frob k blsXi) && decide (g2 = g1 * g1) && decide (g12 * g12 = g1)) = true
    ∧ blsFrob2C1.all (fun c => c * c % blsP == 1) = true
    ∧ (bnFrobIdx = (6, 6, 12) ∧ blsFrobIdx = (2, 6, 6, 12)) :=
  ⟨bn_frob_relations, bls_frob_relations, bls_frob2_relation, frob_index_moduli⟩

open Consts Gen in
/-- The `p²`/`p⁴` Frobenius tables are powers of one primitive sixth root of unity `ω = C12[2]`
(`ω² − ω + 1 = 0`; `C1[2] = ω²`, `C2[2] = ω⁴`, `C12[4] = ω²`, `C1[4] = ω⁴`, `C2[4] = ω⁸`), both curves:
the hypotheses of `cyclotomic_square_spec`. -/
theorem cyclotomic_table_constants :
    (let w : BnFq2 := FrobCoeffs.c12c1 2
     decide (w * w - w + 1 = 0) && decide (FrobCoeffs.c6c1 2 = w * w) && decide (FrobCoeffs.c6c2 2 = w * w * (w * w))
      && decide (FrobCoeffs.c12c1 4 = w * w) && decide (FrobCoeffs.c6c1 4 = w * w * (w * w))
      && decide (FrobCoeffs.c6c2 4 = w * w * (w * w) * (w * w * (w * w)))) = true
    ∧ (let w : BlsFp2 := FrobCoeffs.c12c1 2
     decide (w * w - w + 1 = 0) && decide (FrobCoeffs.c6c1 2 = w * w) && decide (FrobCoeffs.c6c2 2 = w * w * (w * w))
      && decide (FrobCoeffs.c12c1 4 = w * w) && decide (FrobCoeffs.c6c1 4 = w * w * (w * w))
      && decide (FrobCoeffs.c6c2 4 = w * w * (w * w) * (w * w * (w * w)))) = true :=
  cyclotomic_constants

open Consts Gen in
/-- The non-residues are non-residues (Euler's criterion evaluated on the parsed moduli): `p ≡ 3 (mod 4)`
(`−1` is not a square in `Fp`), `ξ^((p²−1)/2) ≠ 1` and `ξ^((p²−1)/3) ≠ 1` in `Fp2` (`ξ` is neither a
square nor a cube), both curves. -/
theorem nonresidue_constants :
    (bnP % 4 = 3 ∧ fq2Pow bnXi ((bnP ^ 2 - 1) / 2) ≠ 1 ∧ fq2Pow bnXi ((bnP ^ 2 - 1) / 3) ≠ 1
      ∧ (bnP ^ 2 - 1) % 6 = 0)
    ∧ (blsP % 4 = 3 ∧ fq2Pow blsXi ((blsP ^ 2 - 1) / 2) ≠ 1 ∧ fq2Pow blsXi ((blsP ^ 2 - 1) / 3) ≠ 1
      ∧ (blsP ^ 2 - 1) % 6 = 0) :=
  nonresidue_checks

end MidnightZK.C13
