import MidnightZK.Proofs.C15.Batch
import MidnightZK.Proofs.C15.Accumulator
import MidnightZK.Proofs.C15.Tree
import MidnightZK.Proofs.C15.Maps
import Mathlib.Data.ZMod.Basic
/-!
# C15 — batching and accumulation accept exactly the all-valid batches

Property theorems over the models `Model/C15/Batch.lean` (`MSMKZG`, `DualMSM`,
`Guard::batch_verify`, `zk_stdlib::verify` / `batch_verify`) and `Model/C15/Accumulator.lean`
(`Msm`, `Accumulator`). `F` is any field (the scalar field), `G` any `F`-vector space (the group of
commitments, of prime order `|F|`); `τ` is the trapdoor of the verifier parameters, and the final
pairing check of a guard `(L, R)` is the statement `τ • L = R` (`pairingCheck`). Helper lemmas live
in `MidnightZK/Proofs/C15`.
-/
namespace MidnightZK.C15
set_option linter.unusedSectionVars false

/-! Concrete instances used by the non-vacuity examples: `F = G = ℤ/5`, `τ = 2`. -/
private abbrev K := ZMod 5
private instance : Fact (Nat.Prime 5) := ⟨Nat.prime_five⟩
/-- A guard that fails its pairing check under `τ = 2` (`2·1 ≠ 3`). -/
private def gX : DualMsm K K := ⟨[⟨1, 1, .custom "π"⟩], [⟨1, 3, .noLabel⟩]⟩
/-- A guard that passes it (`2·1 = 2`), and a second one (`2·2 = 4`). -/
private def gV : DualMsm K K := ⟨[⟨1, 1, .custom "π"⟩], [⟨1, 2, .noLabel⟩]⟩
private def gW : DualMsm K K := ⟨[⟨1, 2, .custom "π"⟩], [⟨3, 3, .advice 0⟩, ⟨0, 4, .fixed 1⟩]⟩

section
variable {F G : Type} [Field F] [DecidableEq F] [AddCommGroup G] [Module F G] [DecidableEq G]

/-! ## Constants read from the current sources -/

end

/-- The negated generator has ONE name across the three places that must agree — the label
`multi_prepare` attaches to `v·(−G)`, the custom label `from_dual_msm` files aside as a fixed base
(and the key it uses), and the entry `verifier::fixed_bases` provides — and the two families of
names of fixed and permutation commitments cannot collide with it or with each other;
`process_msm` adds the scalar at each of its three fixed-base sites and overwrites at none; the
error values are the ones the model returns. Re-checked against the sources on every run
(`translators/c15_consts.py`). -/
theorem generated_constants_consistent :
    Gen.negGLabelPrepare = Gen.negGLabelFromDual ∧ Gen.negGKeyFromDual = Gen.negGLabelFromDual ∧
    Gen.negGInFixedBases = Gen.negGKeyFromDual ∧
    Gen.fixedComInfix ≠ Gen.permComInfix ∧ Gen.fixedComInfix ≠ "" ∧ Gen.permComInfix ≠ "" ∧
    Gen.fromDualInsertSites = 0 ∧ Gen.fromDualEntryAddSites = 3 ∧ Gen.fromDualAssertSites = 3 ∧
    Gen.guardBatchLenErr = "OpeningError" ∧ Gen.batchLenErr = "InvalidInstances" ∧
    Gen.batchPiLenErr = "InvalidInstances" ∧ Gen.batchTrailingErr = "Opening" ∧
    Gen.batchFinalErr = "Opening" := by decide

section
variable {F G : Type} [Field F] [DecidableEq F] [AddCommGroup G] [Module F G] [DecidableEq G]

/-! ## `MSMKZG` and `DualMSM` -/

/-- `MSMKZG::eval`, with its `scalars == [ONE]` shortcut and the zero-coefficient filter of
`msm_specific`, returns `Σ sᵢ • bᵢ` for every list of terms. -/
theorem msmkzg_eval_spec (m : MsmKzg F G) :
    m.eval = (m.map (fun t => t.scalar • t.base)).sum :=
  MsmKzg.eval_eq m

/-- `MSMKZG::from_many` stands for the sum of the values of its parts, `MSMKZG::from_base` for the
base itself. -/
theorem msmkzg_constructors (msms : List (MsmKzg F G)) (b : G) :
    (MsmKzg.fromMany msms).eval = (msms.map (·.eval)).sum ∧ (MsmKzg.fromBase b : MsmKzg F G).eval = b := by
  constructor
  · rw [MsmKzg.eval_eq]
    induction msms with
    | nil => simp [MsmKzg.fromMany]
    | cons m t ih =>
      have : MsmKzg.fromMany (m :: t) = m ++ MsmKzg.fromMany t := by simp [MsmKzg.fromMany]
      rw [this, MsmKzg.value_append, ih, List.map_cons, List.sum_cons, MsmKzg.eval_eq]
  · simp [MsmKzg.fromBase, MsmKzg.eval]

/-- `DualMSM::check` (the second copy of the `[ONE]` shortcut included) decides `τ • L = R` for the
values `L`, `R` of the two channels. -/
theorem dual_check_iff (τ : F) (d : DualMsm F G) :
    d.check τ = true ↔ τ • d.left.value = d.right.value := by
  rw [DualMsm.check_iff, defect, sub_eq_zero]

/-- `acc.scale(e); acc.add_msm(other)` acts linearly on the defect `τ • L − R`: the new defect is
`e • δ(acc) + δ(other)`. -/
theorem dual_scale_add_linear (τ e : F) (d o : DualMsm F G) :
    defect τ ((d.scale e).addMsm o) = e • defect τ d + defect τ o := by
  rw [defect_addMsm, defect_scale]

/-- Scaling a guard by a NON-ZERO factor does not change its verdict (scaling by zero makes every
guard pass: `r = 0` is one of the exceptional challenges counted by `batch_sound_count`). -/
theorem dual_scale_check (τ e : F) (he : e ≠ 0) (d : DualMsm F G) :
    (d.scale e).check τ = d.check τ := by
  rw [Bool.eq_iff_iff, DualMsm.check_iff, DualMsm.check_iff, defect_scale, smul_eq_zero]
  simp [he]

example : (gX.scale (0 : K)).check 2 = true ∧ gX.check (2 : K) = false := by decide

/-- Adding a guard that passes does not change the verdict of the other one: a valid member
never masks an invalid one and never spoils a valid one. -/
theorem dual_add_check (τ : F) (d o : DualMsm F G) (hd : d.check τ = true) :
    (d.addMsm o).check τ = o.check τ ∧ (o.addMsm d).check τ = o.check τ := by
  have h0 := (DualMsm.check_iff τ d).mp hd
  constructor <;>
  · rw [Bool.eq_iff_iff, DualMsm.check_iff, DualMsm.check_iff, defect_addMsm, h0]
    simp

example : gV.check (2 : K) = true ∧ (gV.addMsm gX).check 2 = false ∧ (gV.addMsm gW).check 2 = true := by
  decide

/-- The guard built by the loop of `batch_verify` has the defect `Σ r^(n-1-i) • δᵢ` (Horner form). -/
theorem horner_defect (τ r : F) (gs : List (DualMsm F G)) (acc : DualMsm F G)
    (h : hornerFold r gs = some acc) :
    defect τ acc = combo r (gs.map (defect τ)) := by
  cases gs with
  | nil => simp [hornerFold] at h
  | cons g t =>
    simp only [hornerFold, Option.some.injEq] at h
    rw [← h, hornerFold_defect]

example : hornerFold (3 : K) [gV, gX] = some ⟨[⟨3, 1, .custom "π"⟩, ⟨1, 1, .custom "π"⟩],
    [⟨3, 2, .noLabel⟩, ⟨1, 3, .noLabel⟩]⟩ := by decide

/-! ## Batches of guards -/

/-- **Completeness of the combination**: if every guard passes its own check, the combined
guard passes for every challenge `r`, every batch size and every order. -/
theorem batch_complete (τ : F) (gs : List (DualMsm F G)) (h : ∀ g ∈ gs, g.check τ = true)
    (r : F) (acc : DualMsm F G) (hacc : hornerFold r gs = some acc) : acc.check τ = true := by
  rw [DualMsm.check_iff, horner_defect τ r gs acc hacc]
  apply combo_all_zero
  intro d hd
  obtain ⟨g, hg, rfl⟩ := List.mem_map.mp hd
  exact (DualMsm.check_iff τ g).mp (h g hg)

example : (hornerFold (3 : K) [gV, gW, gV]).map (·.check 2) = some true := by decide

/-- **Soundness of the combination, by counting**: if some guard of the batch fails its own
check, then the challenges `r` for which the combined guard passes all lie in one set of at most
`n − 1` elements (`n` the batch size), whatever the position of the failing guards. -/
theorem batch_sound_count (τ : F) (gs : List (DualMsm F G)) (h : ∃ g ∈ gs, g.check τ = false) :
    ∃ bad : Finset F, bad.card ≤ gs.length - 1 ∧
      ∀ r acc, hornerFold r gs = some acc → acc.check τ = true → r ∈ bad := by
  obtain ⟨g, hg, hbad⟩ := h
  have hne : ∃ d ∈ gs.map (defect τ), d ≠ 0 :=
    ⟨defect τ g, List.mem_map.mpr ⟨g, hg, rfl⟩, fun h0 => by
      rw [(DualMsm.check_iff τ g).mpr h0] at hbad; exact absurd hbad (by simp)⟩
  obtain ⟨bad, hcard, hmem⟩ := combo_bad_set (F := F) (gs.map (defect τ)) hne
  refine ⟨bad, by simpa using hcard, ?_⟩
  intro r acc hacc hchk
  apply hmem
  rw [← horner_defect τ r gs acc hacc]
  exact (DualMsm.check_iff τ acc).mp hchk

/-- Non-vacuity, and tightness of the count: the batch `[X, X]` of one failing guard taken twice
IS accepted at the single challenge `r = −1`, and at no other one. -/
example : ∀ r : K, ((hornerFold r [gX, gX]).map (·.check 2) = some true) ↔ r = 4 := by decide

/-- The same bound for an explicit finite set of challenges. -/
theorem batch_sound_count_finset (τ : F) (gs : List (DualMsm F G))
    (h : ∃ g ∈ gs, g.check τ = false) (S : Finset F)
    (hS : ∀ r ∈ S, ∃ acc, hornerFold r gs = some acc ∧ acc.check τ = true) :
    S.card ≤ gs.length - 1 := by
  obtain ⟨bad, hcard, hmem⟩ := batch_sound_count τ gs h
  refine le_trans (Finset.card_le_card ?_) hcard
  intro r hr
  obtain ⟨acc, h1, h2⟩ := hS r hr
  exact hmem r acc h1 h2

example : ∃ g ∈ [gV, gX, gV], g.check (2 : K) = false := by decide

/-- **Order and multiplicity**: take any rearrangement of a batch, with members repeated or
dropped at will as long as every original member still occurs (`gs'` and `gs` have the same set of
members). If `gs'` is accepted for at least `|gs'|` distinct challenges, then every member of the
original batch is valid, so the original batch is accepted at every challenge: permuting or
repeating members never creates acceptance beyond the `n − 1` exceptional challenges. -/
theorem batch_order_multiplicity (τ : F) (gs gs' : List (DualMsm F G))
    (hset : ∀ g, g ∈ gs' ↔ g ∈ gs) (S : Finset F) (hcard : gs'.length ≤ S.card)
    (hne : gs' ≠ [])
    (hS : ∀ r ∈ S, ∃ acc, hornerFold r gs' = some acc ∧ acc.check τ = true) :
    ∀ r acc, hornerFold r gs = some acc → acc.check τ = true := by
  have hall : ∀ g ∈ gs', g.check τ = true := by
    by_contra hcon
    push Not at hcon
    obtain ⟨g, hg, hbad⟩ := hcon
    have hb : g.check τ = false := by simpa using hbad
    have := batch_sound_count_finset τ gs' ⟨g, hg, hb⟩ S hS
    have hpos : 0 < gs'.length := List.length_pos_iff.mpr hne
    omega
  intro r acc hacc
  exact batch_complete τ gs (fun g hg => hall g ((hset g).mpr hg)) r acc hacc

/-- Non-vacuity: `[V, W]` and its rearrangement with repetition `[W, V, W]`. -/
example : ∀ g, g ∈ [gW, gV, gW] ↔ g ∈ [gV, gW] := by
  intro g; simp only [List.mem_cons, List.mem_nil_iff, or_false]; tauto
example : ∀ r : K, (hornerFold r [gW, gV, gW]).map (·.check 2) = some true := by decide

/-! ## `Guard::batch_verify` -/

/-- `Guard::batch_verify(guards, params)` returns `Ok` exactly when the two sequences have the same
length and every guard passes under its own parameters; a length mismatch is the error value
`OpeningError` (regression of defect D5: it used to be an assertion failure). -/
theorem guard_batch_iff (guards : List (DualMsm F G)) (params : List F) :
    guardBatchVerify guards params = .ok () ↔
      guards.length = params.length ∧ ∀ gp ∈ guards.zip params, gp.1.check gp.2 = true := by
  unfold guardBatchVerify
  by_cases hlen : guards.length = params.length
  · simp only [hlen, ne_eq, not_true_eq_false, if_false, true_and]
    generalize guards.zip params = l
    induction l with
    | nil => simp [verifyEach]
    | cons gp t ih =>
      obtain ⟨g, τ⟩ := gp
      unfold verifyEach DualMsm.verify
      by_cases hc : g.check τ = true
      · simp [hc, ih]
      · simp [hc]
  · simp [hlen]

example : guardBatchVerify [gV, gW] [(2 : K), 2] = .ok () ∧
    guardBatchVerify [gV, gX] [(2 : K), 2] = .error .openingError ∧
    guardBatchVerify [gV] [(2 : K), 2] = .error .openingError ∧
    guardBatchVerify ([] : List (DualMsm K K)) [] = .ok () := by decide

/-! ## `zk_stdlib::batch_verify` against `zk_stdlib::verify` -/

private theorem collectGuards_spec (τ : F) (ms : List (Member F G)) :
    match collectGuards ms with
    | .ok ds => ds.length = ms.length ∧
        (ds.all (·.check τ) = true ↔ ∀ m ∈ ms, verifyOne τ m = .ok ()) ∧
        (∀ d ∈ ds, ∃ m ∈ ms, m.guard = .ok d)
    | .error e => ∃ m ∈ ms, verifyOne τ m = .error e := by
  induction ms with
  | nil => simp [collectGuards]
  | cons m t ih =>
    unfold collectGuards
    cases hg : m.guard with
    | error e => exact ⟨m, by simp, by simp [verifyOne, hg]⟩
    | ok d =>
      simp only []
      cases hc : collectGuards t with
      | error e =>
        rw [hc] at ih
        obtain ⟨m', hm', hv⟩ := ih
        exact ⟨m', by simp [hm'], hv⟩
      | ok ds =>
        rw [hc] at ih
        obtain ⟨hlen, hall, hmem⟩ := ih
        refine ⟨by simp [hlen], ?_, ?_⟩
        · simp only [List.all_cons, Bool.and_eq_true, List.mem_cons, forall_eq_or_imp]
          rw [hall]
          have : verifyOne τ m = .ok () ↔ d.check τ = true := by
            unfold verifyOne
            rw [hg]
            by_cases hd : d.check τ = true <;> simp [hd]
          rw [this]
        · intro d' hd'
          rcases List.mem_cons.mp hd' with h1 | h1
          · exact ⟨m, by simp, by rw [h1]; exact hg⟩
          · obtain ⟨m', hm', hg'⟩ := hmem d' h1
            exact ⟨m', by simp [hm'], hg'⟩

/-- The reference verdict is the conjunction the property asks for: `Ok` exactly when the three
slices have the same length and `zk_stdlib::verify` accepts every member on its own. -/
theorem batchVerdict_ok_iff (τ : F) (nPis nProofs : Nat) (ms : List (Member F G)) :
    batchVerdict τ nPis nProofs ms = .ok () ↔
      nPis = ms.length ∧ nProofs = ms.length ∧ ∀ m ∈ ms, verifyOne τ m = .ok () := by
  unfold batchVerdict
  by_cases hl : nPis ≠ ms.length ∨ nProofs ≠ ms.length
  · simp only [hl, if_true]
    constructor
    · intro h; cases h
    · rintro ⟨h1, h2, _⟩; rcases hl with h | h <;> contradiction
  · push Not at hl
    simp only [hl.1, hl.2, ne_eq, not_true_eq_false, or_self, if_false, true_and]
    have := collectGuards_spec τ ms
    cases hc : collectGuards ms with
    | error e =>
      rw [hc] at this
      obtain ⟨m, hm, hv⟩ := this
      simp only []
      constructor
      · intro h; cases h
      · intro h; rw [h m hm] at hv; cases hv
    | ok ds =>
      rw [hc] at this
      simp only []
      rw [← this.2.1]
      by_cases hall : ds.all (·.check τ) = true <;> simp [hall]

/-- **Batch verification accepts exactly the all-valid batches** (and returns the same error
value as the reference verdict otherwise), for every challenge outside one set of at most
`n − 1` exceptional challenges: `batch_verify` at `r` and the conjunction of the individual
`verify` results agree. Sizes, positions of invalid members, kinds of invalidity (wrong instance
length, failing `prepare`, trailing bytes, failing pairing check) are arbitrary. -/
theorem batchVerify_eq_verdict (τ : F) (nPis nProofs : Nat) (ms : List (Member F G)) :
    ∃ bad : Finset F, bad.card ≤ ms.length - 1 ∧
      ∀ r, r ∉ bad → batchVerify τ nPis nProofs ms r = batchVerdict τ nPis nProofs ms := by
  unfold batchVerify batchVerdict
  by_cases hl : nPis ≠ ms.length ∨ nProofs ≠ ms.length
  · exact ⟨∅, by simp, fun r _ => by simp only [hl, if_true]⟩
  · simp only [hl, if_false]
    have hspec := collectGuards_spec τ ms
    cases hc : collectGuards ms with
    | error e => exact ⟨∅, by simp, fun r _ => rfl⟩
    | ok ds =>
      rw [hc] at hspec
      simp only []
      by_cases hall : ds.all (·.check τ) = true
      · refine ⟨∅, by simp, fun r _ => ?_⟩
        simp only [hall, if_true]
        cases hh : hornerFold r ds with
        | none => rfl
        | some acc =>
          simp only []
          rw [batch_complete τ ds (fun g hg => List.all_eq_true.mp hall g hg) r acc hh]
          simp
      · have hex : ∃ g ∈ ds, g.check τ = false := by
          rw [List.all_eq_true] at hall
          push Not at hall
          obtain ⟨g, hg, hb⟩ := hall
          exact ⟨g, hg, by simpa using hb⟩
        obtain ⟨bad, hcard, hmem⟩ := batch_sound_count τ ds hex
        refine ⟨bad, by rw [← hspec.1]; exact hcard, fun r hr => ?_⟩
        simp only [hall]
        cases hh : hornerFold r ds with
        | none =>
          cases ds with
          | nil => simp at hex
          | cons _ _ => simp [hornerFold] at hh
        | some acc =>
          simp only []
          by_cases hchk : acc.check τ = true
          · exact absurd (hmem r acc hh hchk) hr
          · simp [hchk]

/-- Non-vacuity: `[good, bad]` — rejected with `Opening` at every challenge except the root
`r = 0` of `δ₀·r + δ₁`… here `δ₀ = 0`, so there is no exceptional challenge at all; and
`[bad, good]`, accepted exactly at `r = 0`. -/
example : (∀ r : K, batchVerify 2 2 2 [⟨true, .ok gV, false⟩, ⟨true, .ok gX, false⟩] r = .error .opening) ∧
    (∀ r : K, batchVerify 2 2 2 [⟨true, .ok gX, false⟩, ⟨true, .ok gV, false⟩] r = .ok () ↔ r = 0) := by
  decide

/-- **Completeness at every challenge**: a batch of members each accepted by `verify` is accepted
by `batch_verify`, whatever `r`. -/
theorem batch_complete_members (τ : F) (ms : List (Member F G))
    (h : ∀ m ∈ ms, verifyOne τ m = .ok ()) (r : F) :
    batchVerify τ ms.length ms.length ms r = .ok () := by
  unfold batchVerify
  simp only [ne_eq, not_true_eq_false, or_self, if_false]
  have hspec := collectGuards_spec τ ms
  cases hc : collectGuards ms with
  | error e =>
    rw [hc] at hspec
    obtain ⟨m, hm, hv⟩ := hspec
    rw [h m hm] at hv; cases hv
  | ok ds =>
    rw [hc] at hspec
    simp only []
    cases hh : hornerFold r ds with
    | none => rfl
    | some acc =>
      simp only []
      have hall := hspec.2.1.mpr h
      rw [batch_complete τ ds (fun g hg => List.all_eq_true.mp hall g hg) r acc hh]
      simp

example : ∀ r : K, batchVerify 2 3 3
    [⟨true, .ok gV, false⟩, ⟨true, .ok gW, false⟩, ⟨true, .ok gV, false⟩] r = .ok () := by decide

/-- **Totality with the right values** (defect D5): an empty batch is `Ok(())`, slices of
different lengths are `Err(InvalidInstances)`; no input makes the model take a panicking branch
(the model has none: `guards.first()` replaces `guards[0]`). -/
theorem batch_total (τ r : F) (ms : List (Member F G)) (nPis nProofs : Nat) :
    batchVerify τ 0 0 ([] : List (Member F G)) r = .ok () ∧
    ((nPis ≠ ms.length ∨ nProofs ≠ ms.length) →
      batchVerify τ nPis nProofs ms r = .error .invalidInstances) := by
  constructor
  · simp [batchVerify, collectGuards, hornerFold]
  · intro h; simp [batchVerify, h]

example : batchVerify (2 : K) 1 0 ([] : List (Member K K)) 3 = .error .invalidInstances := by decide

/-- The first member-level error in member order is the error of the batch (`collect` into
`Result` stops at the first `Err`): a member with a wrong instance length gives
`InvalidInstances`, trailing bytes give `Opening`, a `prepare` error is passed through. -/
theorem batch_first_error (τ r : F) (pre : List (Member F G)) (m : Member F G)
    (post : List (Member F G)) (e : Err)
    (hpre : ∀ p ∈ pre, ∃ d, p.guard = .ok d) (hm : m.guard = .error e) :
    batchVerify τ (pre ++ m :: post).length (pre ++ m :: post).length (pre ++ m :: post) r
      = .error e := by
  unfold batchVerify
  simp only [ne_eq, not_true_eq_false, or_self, if_false]
  have : collectGuards (pre ++ m :: post) = .error e := by
    induction pre with
    | nil => simp [collectGuards, hm]
    | cons p t ih =>
      obtain ⟨d, hd⟩ := hpre p (by simp)
      simp only [List.cons_append, collectGuards, hd]
      rw [ih (fun q hq => hpre q (by simp [hq]))]
  rw [this]

example : batchVerify (2 : K) 3 3
    [⟨true, .ok gX, false⟩, ⟨true, .ok gV, true⟩, ⟨false, .ok gV, false⟩] 3 = .error .opening ∧
  batchVerify (2 : K) 2 2 [⟨false, .ok gV, false⟩, ⟨true, .error .transcript, false⟩] 3
    = .error .invalidInstances := by decide

/-! ## The batching challenge depends on every member -/

private theorem go_of_collect (summary : Member F G → F) (ms : List (Member F G)) :
    ∀ ds, collectGuards ms = .ok ds →
      rScheduleFull.go summary ms = ms.map (fun m => TEvent.absorb (summary m)) ++ [.squeeze] := by
  induction ms with
  | nil => intro _ _; simp [rScheduleFull.go]
  | cons m t ih =>
    intro ds hc
    unfold collectGuards at hc
    cases hg : m.guard with
    | error e => simp [hg] at hc
    | ok d =>
      simp only [hg] at hc
      cases hct : collectGuards t with
      | error e => simp [hct] at hc
      | ok ds' =>
        have hm : m.piLenOk = true ∧ m.prepared = .ok d ∧ m.trailing = false := by
          unfold Member.guard at hg
          by_cases h1 : m.piLenOk = true
          · simp only [h1, Bool.not_true, Bool.false_eq_true, if_false] at hg
            cases hp : m.prepared with
            | error e => simp [hp] at hg
            | ok d' =>
              simp only [hp] at hg
              by_cases h2 : m.trailing = true
              · simp [h2] at hg
              · simp only [h2, Bool.false_eq_true, if_false] at hg
                exact ⟨h1, by rw [← Except.ok.inj hg], by simpa using h2⟩
          · simp [h1] at hg
        unfold rScheduleFull.go
        simp only [hm.1, hm.2.1, hm.2.2, Bool.not_true, Bool.false_eq_true, if_false, List.map_cons,
          List.cons_append, List.cons.injEq, true_and]
        exact ih ds' hct

/-- Whenever `batch_verify` reaches the combination step, the batching transcript has absorbed
the summary challenge of EVERY member, in member order, before `r` is squeezed: its schedule is
`init, absorb s₀, …, absorb sₙ₋₁, squeeze`. -/
theorem r_depends_on_all (nPis nProofs : Nat) (ms : List (Member F G)) (summary : Member F G → F)
    (ds : List (DualMsm F G)) (hl : nPis = ms.length ∧ nProofs = ms.length)
    (hc : collectGuards ms = .ok ds) :
    rScheduleFull nPis nProofs ms summary = rSchedule (ms.map summary) := by
  unfold rScheduleFull rSchedule
  simp only [hl.1, hl.2, ne_eq, not_true_eq_false, or_self, if_false, List.cons.injEq, true_and]
  rw [go_of_collect summary ms ds hc]
  simp

/-- Conversely, `r` is squeezed only if every member went through `prepare` and `assert_empty`. -/
theorem squeeze_only_after_all (nPis nProofs : Nat) (ms : List (Member F G))
    (summary : Member F G → F) (h : TEvent.squeeze ∈ rScheduleFull nPis nProofs ms summary) :
    ∃ ds, collectGuards ms = .ok ds := by
  unfold rScheduleFull at h
  split at h
  · simp at h
  · simp only [List.mem_cons, reduceCtorEq, false_or] at h
    clear * - h
    induction ms with
    | nil => exact ⟨[], rfl⟩
    | cons m t ih =>
      unfold rScheduleFull.go at h
      by_cases h1 : m.piLenOk = true
      · simp only [h1, Bool.not_true, Bool.false_eq_true, if_false] at h
        cases hp : m.prepared with
        | error e => simp [hp] at h
        | ok d =>
          simp only [hp] at h
          by_cases h2 : m.trailing = true
          · simp [h2] at h
          · simp only [h2, Bool.false_eq_true, if_false, List.mem_cons, reduceCtorEq, false_or] at h
            obtain ⟨ds, hds⟩ := ih h
            refine ⟨d :: ds, ?_⟩
            simp [collectGuards, Member.guard, h1, hp, h2, hds]
      · simp [h1] at h

example : rScheduleFull 2 2 [⟨true, .ok gV, false⟩, ⟨true, .ok gX, false⟩]
    (fun m => if m.prepared = .ok gV then (1 : K) else 3)
    = [.init, .absorb 1, .absorb 3, .squeeze] := by decide

/-! ## Off-circuit accumulator -/

/-- **`from_dual_msm` preserves both evaluations**, for EVERY guard on which the conversion does
not panic (a fixed-base label whose base is not the one of the map is the only panic): each side
of the accumulator evaluates — with the same map of fixed bases — to the value of the corresponding
channel of the guard. Fixed-base names may repeat (sum of several guards under one key): their
scalars add up (commit 348977f; with the pinned `BTreeMap::insert` the statement needed the
hypothesis that no name repeats, and failed without it). -/
theorem from_dual_msm_preserves_eval (d : DualMsm F G) (pfx : String) (fb : List (String × G))
    (a : Accumulator F G) (h : fromDualMsm d pfx fb = some a) :
    a.lhs.eval fb = some d.left.value ∧ a.rhs.eval fb = some d.right.value := by
  unfold fromDualMsm at h
  cases h1 : processMsm pfx fb d.left ⟨[], []⟩ with
  | none => simp [h1] at h
  | some l =>
    cases h2 : processMsm pfx fb d.right ⟨[], []⟩ with
    | none => simp [h1, h2] at h
    | some r =>
      simp only [h1, h2, Option.some.injEq] at h
      subst h
      have e0 : Defined fb ([] : List (String × F)) := fun _ hk => by simp at hk
      obtain ⟨dl, vl⟩ := processMsm_spec pfx fb d.left ⟨[], []⟩ l h1 e0
      obtain ⟨dr, vr⟩ := processMsm_spec pfx fb d.right ⟨[], []⟩ r h2 e0
      have z : msmSum ([] : List (F × G)) + fixedSum fb ([] : List (String × F)) = 0 := by
        simp [msmSum, fixedSum]
      constructor
      · rw [Msm.eval_of_defined fb _ dl]
        show some (msmSum l.terms + fixedSum fb l.fixed) = _
        rw [vl, z, zero_add]
      · rw [Msm.eval_of_defined fb _ dr]
        show some (msmSum r.terms + fixedSum fb r.fixed) = _
        rw [vr, z, zero_add]

/-- …hence `Accumulator::check` of the converted guard is the guard's own `check`. -/
theorem from_dual_msm_preserves_check (τ : F) (d : DualMsm F G) (pfx : String)
    (fb : List (String × G)) (a : Accumulator F G) (h : fromDualMsm d pfx fb = some a) :
    a.check τ fb = some (d.check τ) := by
  obtain ⟨h1, h2⟩ := from_dual_msm_preserves_eval d pfx fb a h
  unfold Accumulator.check DualMsm.check pairingCheck
  rw [h1, h2, DualMsm.leftPoint_eq, MsmKzg.eval_eq]

private def gP : DualMsm K K :=
  ⟨[⟨1, 1, .custom "π"⟩], [⟨2, 3, .fixed 0⟩, ⟨1, 2, .perm 0⟩, ⟨3, 4, .custom "-G"⟩, ⟨2, 1, .advice 0⟩]⟩
private def fbP : List (String × K) := [("-G", 4), ("vk_fixed_com_0", 3), ("vk_perm_com_0", 2)]

/-- Non-vacuity: a guard shaped like the output of `multi_prepare` (valid under `τ = 2`), and the
sum `3·gP + gP` of two such guards (every fixed label occurs twice): both convert, and `check`
agrees with the guard. -/
example : gP.check 2 = true ∧
    (fromDualMsm gP "vk" fbP).map (fun a => a.check 2 fbP) = some (some true) ∧
    ((gP.scale 3).addMsm gP).check 2 = true ∧
    (fromDualMsm ((gP.scale 3).addMsm gP) "vk" fbP).map (fun a => (a.rhs.fixed, a.check 2 fbP))
      = some ([("-G", 2), ("vk_fixed_com_0", 3), ("vk_perm_com_0", 4)], some true) := by decide

/-- Regression of the defect fixed by 348977f: a valid guard in which a fixed commitment occurs
twice (with `insert` it was converted into an accumulator that FAILS `check`). -/
example : (fromDualMsm (⟨[⟨1, 1, .custom "π"⟩], [⟨1, 3, .fixed 0⟩, ⟨1, 3, .fixed 0⟩, ⟨1, 1, .noLabel⟩]⟩ :
    DualMsm K K) "vk" [("vk_fixed_com_0", 3)]).map (fun a => (a.rhs.fixed, a.check 2 [("vk_fixed_com_0", 3)]))
    = some ([("vk_fixed_com_0", 2)], some true) := by decide

/-- The conversion panics exactly on a fixed-base label whose base differs from the map's. -/
example : fromDualMsm (⟨[], [⟨1, 4, .fixed 0⟩]⟩ : DualMsm K K) "vk" [("vk_fixed_com_0", 3)] = none ∧
    fromDualMsm (⟨[], [⟨1, 3, .fixed 1⟩]⟩ : DualMsm K K) "vk" [("vk_fixed_com_0", 3)] = none := by decide

/-- `Msm::accumulate_with_r`: whenever both operands can be evaluated with the fixed bases `fb`,
so can the result, and it evaluates to `self + r • other` (the doc comment of the function), the
merging of equal names in the `BTreeMap` of fixed-base scalars included. -/
theorem accumulate_with_r_eval (fb : List (String × G)) (a b : Msm F G) (r : F) (va vb : G)
    (ha : a.eval fb = some va) (hb : b.eval fb = some vb) :
    (a.accumulateWithR b r).eval fb = some (va + r • vb) := by
  obtain ⟨da, rfl⟩ := Msm.eval_eq_some fb a va ha
  obtain ⟨db, rfl⟩ := Msm.eval_eq_some fb b vb hb
  rw [Msm.eval_of_defined fb _ (Msm.defined_accumulateWithR fb a b r da db),
    Msm.value_accumulateWithR]

example : (⟨[((2 : K), (1 : K))], [("a", 1), ("b", 2)]⟩ : Msm K K).accumulateWithR
    ⟨[(1, 3)], [("b", 1), ("c", 4)]⟩ 3 = ⟨[(2, 1), (3, 3)], [("a", 1), ("b", 0), ("c", 2)]⟩ := by
  decide

/-- **`collapse` preserves `check`**, unconditionally: for every accumulator, trapdoor and map of
fixed bases (also when `check` panics on a missing base: then both do). -/
theorem collapse_preserves_check (τ : F) (fb : List (String × G)) (a : Accumulator F G) :
    a.collapse.check τ fb = a.check τ fb := by
  unfold Accumulator.check Accumulator.collapse
  simp only [Msm.collapse_eval]

/-- After `collapse` each side has exactly one variable term, with scalar `1`, and the
fixed-base scalars are untouched. -/
theorem collapse_shape (a : Accumulator F G) :
    (a.collapse.lhs.terms.map (·.1) = [1]) ∧ (a.collapse.rhs.terms.map (·.1) = [1]) ∧
    a.collapse.lhs.fixed = a.lhs.fixed ∧ a.collapse.rhs.fixed = a.rhs.fixed := by
  simp [Accumulator.collapse, Msm.collapse]

/-- The defect `τ • lhs − rhs` of `accumulate([a₀, …, aₙ₋₁])` at the challenge `r` is
`Σ rⁱ • δ(aᵢ)`, and the result can be evaluated whenever all members can. -/
theorem accumulate_defect (τ r : F) (fb : List (String × G)) (a : Accumulator F G)
    (rest : List (Accumulator F G)) (hd : ∀ x ∈ a :: rest, x.Defined fb) :
    (accumulateLoop r 1 a rest).Defined fb ∧
    accDefect τ fb (accumulateLoop r 1 a rest)
      = combo r ((a :: rest).map (accDefect τ fb)).reverse := by
  obtain ⟨h1, h2⟩ := accumulateLoop_spec τ r fb rest 1 a (hd a (by simp))
    (fun x hx => hd x (by simp [hx]))
  refine ⟨h1, ?_⟩
  rw [h2, combo_reverse, List.map_cons, powSum, pow_zero, one_smul]

/-- **Completeness of `accumulate`**: if `check` returns `true` for every member, it returns
`true` for the accumulated one — for every sponge, i.e. every value of the challenge — and also
after `collapse`. The empty slice is included (the neutral accumulator passes `check`: the
conjunction over the empty set). -/
theorem accumulate_complete (τ : F) (fb : List (String × G)) (hash : List F → F) (enc : G → List F)
    (accs : List (Accumulator F G))
    (h : ∀ x ∈ accs, x.check τ fb = some true) :
    ∃ out, Accumulator.accumulate hash enc accs = some out ∧ out.check τ fb = some true ∧
      out.collapse.check τ fb = some true := by
  cases accs with
  | nil =>
    refine ⟨_, rfl, ?_⟩
    rw [collapse_preserves_check]
    simp [Accumulator.neutral, Accumulator.check, Msm.eval, fixedTerms, msmSum]
  | cons a rest =>
    refine ⟨_, rfl, ?_⟩
    have hd : ∀ x ∈ a :: rest, x.Defined fb := fun x hx =>
      (Accumulator.check_eq_some τ fb x true (h x hx)).1
    obtain ⟨h1, h2⟩ := accumulate_defect τ (hash (accumulateHashInput enc (a :: rest))) fb a rest hd
    have hz : accDefect τ fb (accumulateLoop (hash (accumulateHashInput enc (a :: rest))) 1 a rest) = 0 := by
      rw [h2]
      apply combo_all_zero
      intro d hdm
      obtain ⟨x, hx, rfl⟩ := List.mem_map.mp (List.mem_reverse.mp hdm)
      exact (Accumulator.check_eq_some τ fb x true (h x hx)).2.mp rfl
    have hc := Accumulator.check_of_defined τ fb _ h1
    rw [hz] at hc
    rw [collapse_preserves_check]
    simpa using hc

/-- **Soundness of `accumulate`, by counting**: if every member can be evaluated and some member
fails `check`, the accumulated accumulator passes `check` only if the sponge output on the
members' public inputs falls in a set of at most `n − 1` values that is determined by the members
alone. -/
theorem accumulate_sound_count (τ : F) (fb : List (String × G)) (enc : G → List F)
    (accs : List (Accumulator F G)) (hd : ∀ x ∈ accs, x.Defined fb)
    (hbad : ∃ x ∈ accs, x.check τ fb = some false) :
    ∃ bad : Finset F, bad.card ≤ accs.length - 1 ∧
      ∀ (hash : List F → F) out, Accumulator.accumulate hash enc accs = some out →
        out.check τ fb = some true → hash (accumulateHashInput enc accs) ∈ bad := by
  cases accs with
  | nil => simp at hbad
  | cons a rest =>
    obtain ⟨x, hx, hxb⟩ := hbad
    have hne : ∃ d ∈ ((a :: rest).map (accDefect τ fb)).reverse, d ≠ 0 := by
      refine ⟨accDefect τ fb x, List.mem_reverse.mpr (List.mem_map.mpr ⟨x, hx, rfl⟩), ?_⟩
      intro h0
      have := (Accumulator.check_eq_some τ fb x false hxb).2
      simp [h0] at this
    obtain ⟨bad, hcard, hmem⟩ := combo_bad_set (F := F) _ hne
    refine ⟨bad, by simpa using hcard, ?_⟩
    intro hash out hout hchk
    simp only [Accumulator.accumulate, Option.some.injEq] at hout
    obtain ⟨h1, h2⟩ := accumulate_defect τ (hash (accumulateHashInput enc (a :: rest))) fb a rest hd
    apply hmem
    rw [← h2, hout]
    exact (Accumulator.check_eq_some τ fb out true hchk).2.mp rfl

private def aV : Accumulator K K := ⟨⟨[(1, 1)], []⟩, ⟨[(1, 1)], [("-G", 1)]⟩⟩   -- 2·1 = 1 + 1·1
private def aX : Accumulator K K := ⟨⟨[(1, 1)], []⟩, ⟨[(1, 3)], [("-G", 1)]⟩⟩   -- 2·1 ≠ 3 + 1

/-- Non-vacuity (with `-G ↦ 1`): `[V, X, V]` is rejected unless the sponge returns `0`
(`δ₁·r = 0`), and `[X, X]` is accepted exactly when it returns `−1`. -/
example : aV.check 2 [("-G", 1)] = some true ∧ aX.check 2 [("-G", 1)] = some false ∧
    (∀ r : K, ((Accumulator.accumulate (fun _ => r) (fun _ => []) [aV, aX, aV]).map
      (·.check 2 [("-G", 1)]) = some (some true)) ↔ r = 0) ∧
    (∀ r : K, ((Accumulator.accumulate (fun _ => r) (fun _ => []) [aX, aX]).map
      (·.check 2 [("-G", 1)]) = some (some true)) ↔ r = 4) := by decide

/-- The combination challenge of `accumulate` is the sponge of an input that contains the
public-input form of EVERY member (bases, scalars and fixed-base scalars of both sides) as a
contiguous block. -/
theorem accumulate_r_input_covers_all (enc : G → List F) (accs : List (Accumulator F G))
    (a : Accumulator F G) (ha : a ∈ accs) :
    a.asPublicInput enc <:+: accumulateHashInput enc accs := by
  unfold accumulateHashInput
  induction accs with
  | nil => simp at ha
  | cons x t ih =>
    rw [List.flatMap_cons]
    rcases List.mem_cons.mp ha with h | h
    · subst h; exact ⟨[], List.flatMap (Accumulator.asPublicInput enc) t, by simp⟩
    · obtain ⟨u, v, huv⟩ := ih h
      exact ⟨Accumulator.asPublicInput enc x ++ u, v, by simp [← huv]⟩

/-- **`accumulate` is total**: every slice has a value; the empty slice gives the neutral
accumulator (regression of the defect repaired by f706bff: the pinned code evaluated `accs[0]` and
panicked with an index out of bounds), a single accumulator is returned unchanged. -/
theorem accumulate_total (hash : List F → F) (enc : G → List F) (accs : List (Accumulator F G)) :
    (∃ out, Accumulator.accumulate hash enc accs = some out) ∧
    Accumulator.accumulate hash enc ([] : List (Accumulator F G)) = some Accumulator.neutral ∧
    ∀ a, Accumulator.accumulate hash enc [a] = some a := by
  refine ⟨?_, rfl, ?_⟩
  · cases accs <;> simp [Accumulator.accumulate]
  · intro a; simp [Accumulator.accumulate, accumulateLoop]

/-! ## Trees of `DualMSM::scale` / `DualMSM::add_msm` of any shape -/

/-- **`guard_tree_eval`**: whatever the shape of a sequence of `scale` / `add_msm` calls (a guard
may be added to a guard that is itself the result of such calls), the defect `τ • L − R` of the
guard produced is `Σ cᵢ • δ(leafᵢ)`, where `cᵢ` is the product of the factors of the `scale` calls
applied after leaf `i` entered — the polynomial in the challenges the model predicts
(`GuardTree.leaves`). By induction over the operation tree. -/
theorem guard_tree_eval (τ : F) (t : GuardTree F G) :
    defect τ t.run = (t.leaves.map (fun cd => cd.1 • defect τ cd.2)).sum :=
  guardTree_defect τ t

/-- The same at the level of the data structure: each channel of the guard produced consists of
the leaves' channels in leaf order, every scalar multiplied by its leaf's coefficient. -/
theorem guard_tree_struct (t : GuardTree F G) :
    t.run.left = t.leaves.flatMap (fun cd => cd.2.left.scale cd.1) ∧
    t.run.right = t.leaves.flatMap (fun cd => cd.2.right.scale cd.1) :=
  guardTree_struct t

/-- `check` of the guard a tree produces decides `Σ cᵢ • δᵢ = 0`. -/
theorem guard_tree_check_iff (τ : F) (t : GuardTree F G) :
    t.run.check τ = true ↔ (t.leaves.map (fun cd => cd.1 • defect τ cd.2)).sum = 0 := by
  rw [DualMsm.check_iff, guard_tree_eval]

/-- **Completeness for every shape and every factor**: if every leaf passes its own check, so does
the guard produced. -/
theorem guard_tree_complete (τ : F) (t : GuardTree F G)
    (h : ∀ cd ∈ t.leaves, cd.2.check τ = true) : t.run.check τ = true := by
  rw [guard_tree_check_iff]
  apply List.sum_eq_zero
  intro x hx
  obtain ⟨cd, hcd, rfl⟩ := List.mem_map.mp hx
  rw [(DualMsm.check_iff τ cd.2).mp (h cd hcd), smul_zero]

/-- **Soundness for every shape, with the count**: take any shape of calls in which every `scale`
uses the same challenge `r` (`t.withScale r`). If the numbers of `scale` calls above the leaves are
pairwise distinct and at most `D`, and some leaf fails its own check, then the challenges at which
the guard produced passes all lie in one set of at most `D` elements. -/
theorem guard_tree_sound_count (τ : F) (t : GuardTree F G)
    (hnd : (t.expLeaves.map (·.1)).Nodup) (D : Nat) (hD : ∀ kd ∈ t.expLeaves, kd.1 ≤ D)
    (hbad : ∃ kd ∈ t.expLeaves, kd.2.check τ = false) :
    ∃ bad : Finset F, bad.card ≤ D ∧ ∀ r, (t.withScale r).run.check τ = true → r ∈ bad := by
  obtain ⟨kd, hkd, hb⟩ := hbad
  have hne : ∃ x ∈ expDefects τ t, x.2 ≠ 0 := by
    refine ⟨(kd.1, defect τ kd.2), List.mem_map.mpr ⟨kd, hkd, rfl⟩, fun h0 => ?_⟩
    rw [(DualMsm.check_iff τ kd.2).mpr h0] at hb
    exact absurd hb (by simp)
  have hnd' : ((expDefects τ t).map (·.1)).Nodup := by
    simpa [expDefects, List.map_map, Function.comp_def] using hnd
  have hD' : ∀ x ∈ expDefects τ t, x.1 ≤ D := by
    intro x hx
    obtain ⟨y, hy, rfl⟩ := List.mem_map.mp hx
    exact hD y hy
  obtain ⟨bad, hcard, hmem⟩ := powCombo_bad_set (F := F) (expDefects τ t) hnd' D hD' hne
  refine ⟨bad, hcard, fun r hr => hmem r ?_⟩
  have := guardTree_defect_uniform τ r (t.withScale r) (withScale_allScales r t)
  rw [expDefects, withScale_expLeaves] at this
  unfold expDefects
  rw [← this]
  exact (DualMsm.check_iff τ _).mp hr

/-- **Distinct powers are necessary** (the attack of seed C15-1, where every incoming guard was
scaled by `r` instead of the running one: coefficients `1, r, r, …, r`): if two leaves sit under
the same number of `scale` calls, opposite defects at those two leaves — everything else valid —
cancel at EVERY challenge. -/
theorem repeated_exponent_cancels (r : F) (k : Nat) (d : G) (l1 l2 l3 : List (Nat × G))
    (h1 : ∀ kd ∈ l1, kd.2 = 0) (h2 : ∀ kd ∈ l2, kd.2 = 0) (h3 : ∀ kd ∈ l3, kd.2 = 0) :
    powCombo r (l1 ++ (k, d) :: l2 ++ (k, -d) :: l3) = 0 :=
  powCombo_repeated_cancels r k d l1 l2 l3 h1 h2 h3

/-- The loop of `batch_verify` IS such a tree: all factors are `r`, and member `i` of `n` sits
under `n − 1 − i` calls of `scale` — pairwise distinct exponents, the largest is `n − 1`. -/
theorem horner_is_tree (r : F) (g : DualMsm F G) (gs : List (DualMsm F G)) :
    hornerFold r (g :: gs) = some (hornerTree r g gs).run ∧
    (hornerTree r g gs).AllScales r ∧
    (hornerTree r g gs).expLeaves = (List.range (gs.length + 1)).reverse.zip (g :: gs) := by
  refine ⟨?_, ?_, ?_⟩
  · simp only [hornerFold, hornerTree, foldl_tree_run]
    rfl
  · exact foldl_tree_allScales r gs (.leaf g) trivial
  · simp only [hornerTree, foldl_tree_expLeaves, GuardTree.expLeaves, List.map_cons, List.map_nil,
      zero_add]
    rw [List.range_succ, List.reverse_append]
    simp

end

/-- Non-vacuity: a tree that is not a chain (`(V·3 + X)·2 + (W + X·4)`), its predicted leaves, and
the shape of seed C15-1 (`V + r·X + r·X'` with opposite defects) accepted at every challenge. -/
example : (GuardTree.add (.scale (.add (.scale (.leaf gV) 3) (.leaf gX)) 2)
      (.add (.leaf gW) (.scale (.leaf gX) (4 : K)))).leaves.map (·.1) = [1, 2, 1, 4] := by decide
example : ∀ r : K, (GuardTree.add (.add (.leaf gV) (.scale (.leaf gX) r))
    (.scale (.leaf (⟨[⟨1, 1, .custom "π"⟩], [⟨1, 1, .noLabel⟩]⟩ : DualMsm K K)) r)).run.check 2 = true := by
  decide
example : (GuardTree.add (.scale (.add (.scale (.leaf gV) (0 : K)) (.leaf gX)) 0) (.leaf gW)).expLeaves.map (·.1)
    = [2, 1, 0] := by decide

/-- Non-vacuity and tightness of `guard_tree_sound_count`: the shape `X·r + X` (exponents `1, 0`,
`D = 1`, both leaves failing) is accepted at exactly one challenge, `r = −1`. -/
example : ((GuardTree.add (.scale (.leaf gX) (0 : K)) (.leaf gX)).expLeaves.map (·.1)).Nodup ∧
    (∃ kd ∈ (GuardTree.add (.scale (.leaf gX) (0 : K)) (.leaf gX)).expLeaves, kd.2.check 2 = false) ∧
    (∀ r : K, ((GuardTree.add (.scale (.leaf gX) (0 : K)) (.leaf gX)).withScale r).run.check 2 = true
      ↔ r = 4) := by decide

section
variable {F G : Type} [Field F] [DecidableEq F] [AddCommGroup G] [Module F G] [DecidableEq G]

/-! ## Fixed-base maps of several keys -/

/-- **`accumulate_with_r_spec`**: for ARBITRARY key sets of the two maps of fixed-base scalars
(overlapping, disjoint, nested, empty), `Msm::accumulate_with_r(self, other, r)` leaves under every
name `k` exactly `self[k] + r·other[k]` / `self[k]` / `r·other[k]` / nothing, according to which of
the two maps has the name, and the result is again a key-sorted map. (Seed C15-2 inserted
`other[k]` unscaled when `self` had no entry.) -/
theorem accumulate_with_r_spec (a b : Msm F G) (r : F) (ha : KeySorted a.fixed)
    (hb : KeySorted b.fixed) :
    KeySorted (a.accumulateWithR b r).fixed ∧
    (∀ k, bmGet (a.accumulateWithR b r).fixed k = mergeVal r (bmGet a.fixed k) (bmGet b.fixed k)) ∧
    (a.accumulateWithR b r).terms = a.terms ++ b.terms.map (fun t => (t.1 * r, t.2)) := by
  obtain ⟨h1, h2⟩ := foldl_upsert_spec r b.fixed hb a.fixed ha
  exact ⟨h1, h2, rfl⟩

/-- Non-vacuity: two key-sorted maps with overlapping key sets. -/
example : KeySorted [("-G", (1 : K)), ("vkA_fixed_com_1", 2)] ∧
    KeySorted [("vkA_fixed_com_1", (1 : K)), ("vkA_fixed_com_10", 4), ("vkB_perm_com_0", 3)] := by
  unfold KeySorted; decide

example : mergeVal (3 : K) (some 1) (some 2) = some 2 ∧ mergeVal (3 : K) none (some 2) = some 1 ∧
    mergeVal (3 : K) (some 1) none = some 1 ∧ mergeVal (3 : K) none none = none := by decide

/-- **`from_dual_msm`, name by name, duplicates included**: whenever the conversion does not
panic, each side of the accumulator keeps exactly the terms whose label is not a fixed-base label
(in order), and under every name it holds the SUM of the scalars of all the terms filed under
that name — `nothing` if there is none — in a key-sorted map. A label that occurs several times
(sum of guards under one key) therefore contributes all its scalars (commit 348977f; the pinned
code kept the last one). -/
theorem from_dual_msm_spec (d : DualMsm F G) (pfx : String) (fb : List (String × G))
    (a : Accumulator F G) (h : fromDualMsm d pfx fb = some a) :
    (KeySorted a.lhs.fixed ∧ a.lhs.terms = varTerms pfx d.left ∧
      ∀ name, bmGet a.lhs.fixed name =
        if nameScalars pfx d.left name = [] then none else some (nameScalars pfx d.left name).sum) ∧
    (KeySorted a.rhs.fixed ∧ a.rhs.terms = varTerms pfx d.right ∧
      ∀ name, bmGet a.rhs.fixed name =
        if nameScalars pfx d.right name = [] then none else some (nameScalars pfx d.right name).sum) := by
  unfold fromDualMsm at h
  cases h1 : processMsm pfx fb d.left ⟨[], []⟩ with
  | none => simp [h1] at h
  | some l =>
    cases h2 : processMsm pfx fb d.right ⟨[], []⟩ with
    | none => simp [h1, h2] at h
    | some r =>
      simp only [h1, h2, Option.some.injEq] at h
      subst h
      have s0 : KeySorted ([] : List (String × F)) := List.Pairwise.nil
      obtain ⟨l1, l2, l3⟩ := processMsm_names pfx fb d.left ⟨[], []⟩ l h1 s0
      obtain ⟨r1, r2, r3⟩ := processMsm_names pfx fb d.right ⟨[], []⟩ r h2 s0
      refine ⟨⟨l1, by simpa using l2, fun name => ?_⟩, ⟨r1, by simpa using r2, fun name => ?_⟩⟩
      · rw [l3 name]; simp only [bmGet]; exact addScalars_none _
      · rw [r3 name]; simp only [bmGet]; exact addScalars_none _

/-- The in-circuit `AssignedMsm::accumulate_with_r` (`other.scale(r)` — every scalar and fixed-base
scalar times `r` — followed by `add_msm`, which adds into occupied entries and inserts into vacant
ones) computes, value for value and in the same order, what the off-circuit
`Msm::accumulate_with_r` computes. -/
theorem assigned_accumulate_with_r_eq (a b : Msm F G) (r : F) :
    a.aAccumulateWithR b r = a.accumulateWithR b r :=
  Msm.aAccumulateWithR_eq a b r

/-- `verifier/utils.rs: powers(x, n)` returns `[x⁰, x¹, …, x^{n−1}]` (and `[1]` for `n = 0`). -/
theorem powers_spec (x : F) (n : Nat) :
    aPowers x n = 1 :: (List.range (n - 1)).map (fun j => x ^ (1 + j)) := by
  have := aPowers_go_eq x (n - 1) 1
  rw [pow_one] at this
  rw [aPowers, this]

/-- **In-circuit and off-circuit accumulation agree**: `AssignedAccumulator::accumulate` on the
values of its cells (powers from `powers`, `zip(rs).skip(1)`, member order) returns the accumulator
`Accumulator::accumulate` returns — so every theorem about the latter (`accumulate_complete`,
`accumulate_sound_count`) holds for the values the circuit computes. -/
theorem assigned_accumulate_eq (hash : List F → F) (enc : G → List F)
    (accs : List (Accumulator F G)) :
    Accumulator.aAccumulate hash enc accs = Accumulator.accumulate hash enc accs :=
  Accumulator.aAccumulate_eq hash enc accs

/-- The soundness count of `accumulate` survives `collapse`. -/
theorem accumulate_collapse_sound_count (τ : F) (fb : List (String × G)) (enc : G → List F)
    (accs : List (Accumulator F G)) (hd : ∀ x ∈ accs, x.Defined fb)
    (hbad : ∃ x ∈ accs, x.check τ fb = some false) :
    ∃ bad : Finset F, bad.card ≤ accs.length - 1 ∧
      ∀ (hash : List F → F) out, Accumulator.accumulate hash enc accs = some out →
        out.collapse.check τ fb = some true → hash (accumulateHashInput enc accs) ∈ bad := by
  obtain ⟨bad, hc, hm⟩ := accumulate_sound_count τ fb enc accs hd hbad
  refine ⟨bad, hc, fun hash out ho hchk => hm hash out ho ?_⟩
  rwa [collapse_preserves_check] at hchk

/-- The committed-instance form of an accumulator carries the same field elements as the plain
public-input form, re-partitioned: normal part = everything of `lhs` and the bases of `rhs`,
committed part = the scalars of `rhs` (variable, then fixed in key order). -/
theorem as_public_input_committed_partition (enc : G → List F) (a : Accumulator F G) :
    (a.asPublicInputCommitted enc).1 ++ (a.asPublicInputCommitted enc).2 = a.asPublicInput enc := by
  simp [Accumulator.asPublicInputCommitted, Msm.asPublicInputCommitted, Accumulator.asPublicInput,
    Msm.asPublicInput, List.append_assoc]

/-! ## Totality of every entry point -/

/-- **Empty and mismatched inputs of every entry point**: the answer is a value, and it is the
conjunction over the empty set (accept) or the documented error:
* `batch_verify` of no proofs is `Ok`, and so is the reference verdict;
* `Guard::batch_verify` of no guards is `Ok`; different lengths give `OpeningError`;
* `check` of an accumulator with no terms at all is `true` (`τ • 0 = 0`), for every trapdoor and
  every map of fixed bases;
* `accumulate` of an empty slice — off-circuit and in-circuit — is the neutral accumulator, which
  `check` accepts (commit f706bff; in the pinned code both functions indexed `accs[0]` and
  panicked: finding `accumulate:empty-slice-panics`, fixed). -/
theorem entry_points_total (τ r : F) (fb : List (String × G)) (hash : List F → F)
    (enc : G → List F) :
    batchVerify τ 0 0 ([] : List (Member F G)) r = .ok () ∧
    batchVerdict τ 0 0 ([] : List (Member F G)) = .ok () ∧
    guardBatchVerify ([] : List (DualMsm F G)) ([] : List F) = .ok () ∧
    (∀ (gs : List (DualMsm F G)) (ps : List F), gs.length ≠ ps.length →
      guardBatchVerify gs ps = .error .openingError) ∧
    (Accumulator.neutral : Accumulator F G).check τ fb = some true ∧
    (Accumulator.neutral : Accumulator F G).collapse.check τ fb = some true ∧
    Accumulator.accumulate hash enc ([] : List (Accumulator F G)) = some Accumulator.neutral ∧
    Accumulator.aAccumulate hash enc ([] : List (Accumulator F G)) = some Accumulator.neutral := by
  have hn : (Accumulator.neutral : Accumulator F G).check τ fb = some true := by
    simp [Accumulator.neutral, Accumulator.check, Msm.eval, fixedTerms, msmSum]
  refine ⟨?_, ?_, ?_, ?_, hn, ?_, rfl, rfl⟩
  · simp [batchVerify, collectGuards, hornerFold]
  · simp [batchVerdict, collectGuards]
  · simp [guardBatchVerify, verifyEach]
  · intro gs ps h; simp [guardBatchVerify, h]
  · rw [collapse_preserves_check]; exact hn

end

/-- Non-vacuity of `from_dual_msm_spec`: the guard `3·gP + gP` (every fixed label twice). -/
example : nameScalars "vk" ((gP.scale 3).addMsm gP).right "vk_fixed_com_0" = [1, 2] ∧
    nameScalars "vk" ((gP.scale 3).addMsm gP).right "-G" = [4, 3] ∧
    nameScalars "vk" ((gP.scale 3).addMsm gP).right "vk_fixed_com_1" = [] ∧
    (varTerms "vk" ((gP.scale 3).addMsm gP).right).length = 2 := by decide

/-! ## Global order of the transcript operations of `batch_verify` -/

private theorem go_squeeze_mem (ms : List MemberTrace) :
    ∀ i, 1 ≤ i → (⟨0, 2, 0⟩ : GEvent) ∈ globalSchedule.go i ms → ∀ m ∈ ms, 3 ≤ m.stage := by
  induction ms with
  | nil => intro i _ _ m hm; simp at hm
  | cons m rest ih =>
    intro i hi hmem x hx
    have hne : ¬ (0 = i) := by omega
    have hown : (⟨0, 2, 0⟩ : GEvent) ∉
        (⟨i, 0, 0⟩ :: m.trace.map (fun kl => (⟨i, kl.1, kl.2⟩ : GEvent))) := by
      intro hc
      rcases List.mem_cons.mp hc with h1 | h1
      · simp [GEvent.mk.injEq, hne] at h1
      · obtain ⟨kl, _, hk⟩ := List.mem_map.mp h1
        simp [GEvent.mk.injEq] at hk
        omega
    unfold globalSchedule.go at hmem
    simp only [] at hmem
    split at hmem
    · simp at hmem
    · split at hmem
      · exact absurd hmem hown
      · split at hmem
        · rcases List.mem_append.mp hmem with h | h
          · exact absurd h hown
          · simp [GEvent.mk.injEq, hne] at h
        · next hs0 hs1 hs2 =>
          rcases List.mem_append.mp hmem with h | h
          · rcases List.mem_append.mp h with h' | h'
            · exact absurd h' hown
            · simp [GEvent.mk.injEq, hne] at h'
          · rcases List.mem_cons.mp hx with hx1 | hx1
            · rw [hx1]; omega
            · exact ih (i + 1) (by omega) h x hx1

/-- **`r` is squeezed after EVERY member's contribution, for every batch size**: when all members
go through, the hasher operations of `batch_verify` are `init` of the batching transcript, a
middle part, and the squeeze of `r` as the very LAST operation; the middle part contains, for every
member `j`, the complete contiguous block *init of its transcript — the operations of `prepare`
(key representation, instances, proof elements) — squeeze of its summary — absorption of the
summary (32 bytes) into the batching transcript*; and the batching transcript sees exactly
`init, n absorptions, squeeze`. -/
theorem global_schedule_r_after_all (ms : List MemberTrace) (h : ∀ m ∈ ms, 3 ≤ m.stage) :
    ∃ mid, globalSchedule ms = ⟨0, 0, 0⟩ :: mid ++ [⟨0, 2, 0⟩] ∧
      (∀ j (hj : j < ms.length), memberBlock (j + 1) ms[j] <:+: mid) ∧
      mid.filter (fun e => e.who = 0) = List.replicate ms.length ⟨0, 1, summaryBytes⟩ := by
  obtain ⟨l, h1, h2, h3⟩ := globalSchedule_go_through ms h 1
  refine ⟨l, by rw [globalSchedule, h1]; rfl, ?_, h3 (by omega)⟩
  intro j hj
  have := h2 j hj
  rwa [Nat.add_comm] at this

/-- Conversely, the squeeze of `r` happens only if every member went through (`prepare`
succeeded, summary absorbed, no trailing bytes): an early exit never squeezes. -/
theorem global_schedule_squeeze_only_after_all (ms : List MemberTrace)
    (h : (⟨0, 2, 0⟩ : GEvent) ∈ globalSchedule ms) : ∀ m ∈ ms, 3 ≤ m.stage := by
  unfold globalSchedule at h
  rcases List.mem_cons.mp h with h1 | h1
  · simp [GEvent.mk.injEq] at h1
  · exact go_squeeze_mem ms 1 (by omega) h1

example : globalSchedule [⟨3, [(1, 32), (2, 0)]⟩, ⟨3, [(1, 48)]⟩]
    = [⟨0, 0, 0⟩, ⟨1, 0, 0⟩, ⟨1, 1, 32⟩, ⟨1, 2, 0⟩, ⟨1, 2, 0⟩, ⟨0, 1, 32⟩,
       ⟨2, 0, 0⟩, ⟨2, 1, 48⟩, ⟨2, 2, 0⟩, ⟨0, 1, 32⟩, ⟨0, 2, 0⟩] := by decide
example : globalSchedule [⟨3, []⟩, ⟨1, [(1, 48)]⟩, ⟨3, []⟩]
    = [⟨0, 0, 0⟩, ⟨1, 0, 0⟩, ⟨1, 2, 0⟩, ⟨0, 1, 32⟩, ⟨2, 0, 0⟩, ⟨2, 1, 48⟩] := by decide

end MidnightZK.C15
