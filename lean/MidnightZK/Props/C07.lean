import MidnightZK.Model.C07.Poseidon
import MidnightZK.Gen.C07Poseidon
import MidnightZK.Proofs.C07.Eval
/-!
# C07 — hash gadgets equal their reference functions on every message
Property theorems (helper lemmas live in `MidnightZK/Proofs/C07`).
-/
namespace MidnightZK.C07

/-- The shipped parameter shape is the one the code assumes: `WIDTH = RATE + 1`, an even number of
full rounds, `ROUND_CONSTANTS` has `NB_FULL_ROUNDS + NB_PARTIAL_ROUNDS` rows of `WIDTH` entries, `MDS`
is `WIDTH × WIDTH`, and both skip counts divide the partial rounds into whole batches
(`NB_PARTIAL_ROUNDS % (1 + NB_SKIPS) = 0`, asserted by `round_constants_circuit` for the circuit). -/
theorem params_shape :
    Gen.width = Gen.rate + 1 ∧ Gen.nbFull % 2 = 0 ∧
    Gen.roundConstants.length = Gen.nbFull + Gen.nbPartial ∧
    (Gen.roundConstants.all (fun r => r.length == Gen.width)) = true ∧
    Gen.mds.length = Gen.width ∧ (Gen.mds.all (fun r => r.length == Gen.width)) = true ∧
    Gen.nbPartial % (1 + Gen.nbSkipsCircuit) = 0 ∧ Gen.nbPartial % (1 + Gen.nbSkipsCpu) = 0 := by
  decide +kernel

/-- Every integer written in `Fq::from_raw([..])` in `constants/blstrs.rs` is already reduced
modulo the field modulus (so the value used is the value written). -/
theorem constants_canonical :
    (Gen.roundConstants.all (fun r => r.all (fun c => decide (c < Gen.p)))) = true ∧
    (Gen.mds.all (fun r => r.all (fun c => decide (c < Gen.p)))) = true := by
  decide +kernel

/-! ## Poseidon: round skips and the off-circuit permutation -/

section
variable {F : Type} [CommRing F]

/-- **skip_rounds_eq_raw.** For every width `≥ 1`, every MDS matrix, every table of round constants,
every skip count `s ≤ NB_SKIPS_MAX`, every batch position `round` and every state: evaluating the
linear identities produced by `RoundId::generate(s)` (`RoundId::eval`, the code of
`partial_round_cpu` and of the circuit's witness generation `partial_round_cpu_for_circuits`) on the
constants pre-computed by `eval_constants(round)` gives exactly the state after `1 + s` calls of
`partial_round_cpu_raw` starting at `round`. Array sizes are those of the Rust types
(`WIDTH + NB_SKIPS_MAX` variables, `WIDTH * (1 + NB_SKIPS_MAX)` constants). -/
theorem skip_rounds_eq_raw (P : PParams F) (smax s round : Nat) (st : List F)
    (hW : 1 ≤ P.width) (hs : s ≤ smax) :
    let d : Dims := ⟨P.width + smax, P.width * (1 + smax)⟩
    ((RoundId.generate P smax d s).eval P.width
        ((RoundId.generate P smax d s).evalConstants P round) st).1
      = iter (partialRoundRaw P) (1 + s) round st := by
  intro d
  exact eval_eq_raw P smax d s hW hs (by simp [d]; omega)
    (by simp [d]; exact Nat.mul_le_mul_left _ (by omega)) round st

/-- **cpu_perm_eq_raw.** `permutation_cpu` with the pre-computation `PreComputedRound*::init` for any
skip count (batches of `1 + s` partial rounds, then the `NB_PARTIAL_ROUNDS % (1 + s)` trailing raw
rounds) equals the skip-free shifted permutation (`tests::permutation_cpu_raw`), for every state. -/
theorem cpu_perm_eq_raw (P : PParams F) (smax s : Nat) (st : List F)
    (hW : 1 ≤ P.width) (hs : s ≤ smax) :
    permutationCpu P (PreComputed.init P smax s) st = permutationRaw P st :=
  permutationCpu_eq_raw P smax s hW hs st

/-- **cpu_perm_eq_textbook.** For every state, `permutation_cpu` (shifted rounds: the constants of
round `r + 1` are added at the end of round `r`, the first constants before round 0, zeros after the
last round; partial rounds batched through the skip identities) equals the published permutation
(add-round-constants, S-box layer, MDS; `R_F/2` full, `R_P` partial, `R_F/2` full rounds, the partial
S-box on cell `WIDTH - 1`), for every MDS matrix and round-constant table, provided the number of
full rounds is even and non-zero (the shipped values are checked in `params_shape`). -/
theorem cpu_perm_eq_textbook (P : PParams F) (smax s : Nat) (st : List F)
    (hW : 1 ≤ P.width) (hs : s ≤ smax) (hE : P.nbFull % 2 = 0) (hF : 0 < P.nbFull) :
    permutationCpu P (PreComputed.init P smax s) st = textbook P st := by
  rw [permutationCpu_eq_raw P smax s hW hs st, permutationRaw_eq_textbook P st hE hF]

/-- The shipped shape (`WIDTH`, round numbers, both skip counts generated from the sources) with
arbitrary tables over an arbitrary commutative ring: the off-circuit permutation (`NB_SKIPS_CPU`) and
the witness generation of the chip (`NB_SKIPS_CIRCUIT`) both compute the textbook permutation. -/
theorem shipped_perms_eq_textbook (mds rc : List (List F)) (st : List F) :
    let P : PParams F := { width := Gen.width, rate := Gen.rate, nbFull := Gen.nbFull,
                           nbPartial := Gen.nbPartial, mds := mds, rc := rc }
    let smax := max Gen.nbSkipsCpu Gen.nbSkipsCircuit
    permutationCpu P (PreComputed.init P smax Gen.nbSkipsCpu) st = textbook P st ∧
    permutationCpu P (PreComputed.init P smax Gen.nbSkipsCircuit) st = textbook P st := by
  intro P smax
  have h1 : 1 ≤ Gen.width := by decide
  have h2 : Gen.nbFull % 2 = 0 := by decide
  have h3 : 0 < Gen.nbFull := by decide
  constructor
  · exact cpu_perm_eq_textbook P smax Gen.nbSkipsCpu st h1 (by decide) h2 h3
  · exact cpu_perm_eq_textbook P smax Gen.nbSkipsCircuit st h1 (by decide) h2 h3

end

/-- The shipped parameters over the canonical integers modulo `p` (the driver's instance). -/
def shippedFp : PParams (Fp Gen.p) :=
  { width := Gen.width, rate := Gen.rate, nbFull := Gen.nbFull, nbPartial := Gen.nbPartial,
    mds := Gen.mds.map (fun r => r.map (Fp.ofNat Gen.p)),
    rc := Gen.roundConstants.map (fun r => r.map (Fp.ofNat Gen.p)) }

/-- Non-vacuity / sanity on the real field and tables: the three model permutations agree on a
concrete state (and are not the identity). -/
example :
    permutationCpu shippedFp (PreComputed.init shippedFp 5 2) [⟨0⟩, ⟨1⟩, ⟨2⟩]
      = textbook shippedFp [⟨0⟩, ⟨1⟩, ⟨2⟩] ∧
    permutationCpu shippedFp (PreComputed.init shippedFp 5 5) [⟨0⟩, ⟨1⟩, ⟨2⟩]
      = textbook shippedFp [⟨0⟩, ⟨1⟩, ⟨2⟩] ∧
    textbook shippedFp [⟨0⟩, ⟨1⟩, ⟨2⟩] ≠ [⟨0⟩, ⟨1⟩, ⟨2⟩] := by
  decide +kernel

end MidnightZK.C07
