import MidnightZK.Model.C07.Poseidon
import MidnightZK.Gen.C07Poseidon
import MidnightZK.Proofs.C07.Eval
import MidnightZK.Proofs.C07.ShaSpec
import MidnightZK.Proofs.C07.Varlen
import MidnightZK.Proofs.C07.GrainAll
import MidnightZK.Proofs.C07.Sponge
import MidnightZK.Proofs.C07.VarlenShaA
import MidnightZK.Proofs.C07.VarlenShaB
import MidnightZK.Proofs.C07.VarlenShaC
import MidnightZK.Proofs.C07.VarlenShaD
/-!
# C07 — hash gadgets equal their reference functions on every message
Property theorems (helper lemmas live in `MidnightZK/Proofs/C07`).
-/
namespace MidnightZK.C07

/-- The shipped parameter shape is the one the code assumes: `WIDTH = RATE + 1`, an even number of
full rounds, `ROUND_CONSTANTS` has `NB_FULL_ROUNDS + NB_PARTIAL_ROUNDS` rows of `WIDTH` entries, `MDS`
is `WIDTH × WIDTH`, and the circuit's skip count divides the partial rounds into whole batches
(`NB_PARTIAL_ROUNDS % (1 + NB_SKIPS_CIRCUIT) = 0`, asserted by `round_constants_circuit`; the CPU
version runs the remainder as raw rounds and needs no such condition). -/
theorem params_shape :
    Gen.width = Gen.rate + 1 ∧ Gen.nbFull % 2 = 0 ∧
    Gen.roundConstants.length = Gen.nbFull + Gen.nbPartial ∧
    (Gen.roundConstants.all (fun r => r.length == Gen.width)) = true ∧
    Gen.mds.length = Gen.width ∧ (Gen.mds.all (fun r => r.length == Gen.width)) = true ∧
    Gen.nbPartial % (1 + Gen.nbSkipsCircuit) = 0 := by
  decide +kernel

/-- Every integer written in `Fq::from_raw([..])` in `constants/blstrs.rs` is already reduced
modulo the field modulus (so the value used is the value written). -/
theorem constants_canonical :
    (Gen.roundConstants.all (fun r => r.all (fun c => decide (c < Gen.p)))) = true ∧
    (Gen.mds.all (fun r => r.all (fun c => decide (c < Gen.p)))) = true := by
  decide +kernel

/-- **Published constants.** The 204 round constants and the MDS matrix of `constants/blstrs.rs` are
the output of the generation documented in that file (`generate_parameters_grain.sage 1 0 255 3 8 60
p`): the round constants are, in order, the first `(R_F + R_P)·t` field elements of the Grain LFSR
stream (80-bit LFSR seeded with the parameter encoding, 160 discarded bits, self-shrinking output,
rejection sampling below `p`), and `MDS[i][j] = 1/(xᵢ + yⱼ)` for the next `2t` (distinct) elements.
Kernel evaluation of `Model/C07/Grain.lean` on the generated tables. -/
theorem poseidon_constants_published :
    Grain.check Gen.p 255 Gen.width Gen.nbFull Gen.nbPartial Gen.roundConstants Gen.mds = true :=
  Grain.check_ok

/-! ## Poseidon: round skips and the off-circuit permutation -/

section
variable {F : Type} [CommRing F]

/-- **skip_rounds_eq_raw.** For every width `≥ 1`, every MDS matrix, every table of round constants,
every skip count `s ≤ NB_SKIPS_MAX`, every batch position `round` and every state: evaluating the
linear identities produced by `RoundId::generate(s)` (`RoundId::eval`, the code of
`partial_round_cpu` and of the circuit's witness generation `partial_round_cpu_for_circuits`) on the
constants pre-computed by `eval_constants(round)` gives exactly the state after `1 + s` calls of
`partial_round_cpu_raw` starting at `round`. Array sizes are those of the Rust types
(`WIDTH + NB_SKIPS_MAX` variables, `WIDTH * (1 + NB_SKIPS_MAX)` constants). -/
theorem skip_rounds_eq_raw (P : PParams F) (smax s round : Nat) (st : List F)
    (hW : 1 ≤ P.width) (hs : s ≤ smax) :
    let d : Dims := ⟨P.width + smax, P.width * (1 + smax)⟩
    ((RoundId.generate P smax d s).eval P.width
        ((RoundId.generate P smax d s).evalConstants P round) st).1
      = iter (partialRoundRaw P) (1 + s) round st := by
  intro d
  exact eval_eq_raw P smax d s hW hs (by simp [d]; omega)
    (by simp [d]; exact Nat.mul_le_mul_left _ (by omega)) round st

/-- **cpu_perm_eq_raw.** `permutation_cpu` with the pre-computation `PreComputedRound*::init` for any
skip count (batches of `1 + s` partial rounds, then the `NB_PARTIAL_ROUNDS % (1 + s)` trailing raw
rounds) equals the skip-free shifted permutation (`tests::permutation_cpu_raw`), for every state. -/
theorem cpu_perm_eq_raw (P : PParams F) (smax s : Nat) (st : List F)
    (hW : 1 ≤ P.width) (hs : s ≤ smax) :
    permutationCpu P (PreComputed.init P smax s) st = permutationRaw P st :=
  permutationCpu_eq_raw P smax s hW hs st

/-- **cpu_perm_eq_textbook.** For every state, `permutation_cpu` (shifted rounds: the constants of
round `r + 1` are added at the end of round `r`, the first constants before round 0, zeros after the
last round; partial rounds batched through the skip identities) equals the published permutation
(add-round-constants, S-box layer, MDS; `R_F/2` full, `R_P` partial, `R_F/2` full rounds, the partial
S-box on cell `WIDTH - 1`), for every MDS matrix and round-constant table, provided the number of
full rounds is even and non-zero (the shipped values are checked in `params_shape`). -/
theorem cpu_perm_eq_textbook (P : PParams F) (smax s : Nat) (st : List F)
    (hW : 1 ≤ P.width) (hs : s ≤ smax) (hE : P.nbFull % 2 = 0) (hF : 0 < P.nbFull) :
    permutationCpu P (PreComputed.init P smax s) st = textbook P st := by
  rw [permutationCpu_eq_raw P smax s hW hs st, permutationRaw_eq_textbook P st hE hF]

/-- The shipped shape (`WIDTH`, round numbers, both skip counts generated from the sources) with
arbitrary tables over an arbitrary commutative ring: the off-circuit permutation (`NB_SKIPS_CPU`) and
the witness generation of the chip (`NB_SKIPS_CIRCUIT`) both compute the textbook permutation. -/
theorem shipped_perms_eq_textbook (mds rc : List (List F)) (st : List F) :
    let P : PParams F := { width := Gen.width, rate := Gen.rate, nbFull := Gen.nbFull,
                           nbPartial := Gen.nbPartial, mds := mds, rc := rc }
    let smax := max Gen.nbSkipsCpu Gen.nbSkipsCircuit
    permutationCpu P (PreComputed.init P smax Gen.nbSkipsCpu) st = textbook P st ∧
    permutationCpu P (PreComputed.init P smax Gen.nbSkipsCircuit) st = textbook P st := by
  intro P smax
  have h1 : 1 ≤ Gen.width := by decide
  have h2 : Gen.nbFull % 2 = 0 := by decide
  have h3 : 0 < Gen.nbFull := by decide
  constructor
  · exact cpu_perm_eq_textbook P smax Gen.nbSkipsCpu st h1 (by decide) h2 h3
  · exact cpu_perm_eq_textbook P smax Gen.nbSkipsCircuit st h1 (by decide) h2 h3

end

/-- The shipped parameters over the canonical integers modulo `p` (the driver's instance). -/
def shippedFp : PParams (Fp Gen.p) :=
  { width := Gen.width, rate := Gen.rate, nbFull := Gen.nbFull, nbPartial := Gen.nbPartial,
    mds := Gen.mds.map (fun r => r.map (Fp.ofNat Gen.p)),
    rc := Gen.roundConstants.map (fun r => r.map (Fp.ofNat Gen.p)) }

/-- Non-vacuity / sanity on the real field and tables: the three model permutations agree on a
concrete state (and are not the identity). -/
example :
    permutationCpu shippedFp (PreComputed.init shippedFp 5 2) [⟨0⟩, ⟨1⟩, ⟨2⟩]
      = textbook shippedFp [⟨0⟩, ⟨1⟩, ⟨2⟩] ∧
    permutationCpu shippedFp (PreComputed.init shippedFp 5 5) [⟨0⟩, ⟨1⟩, ⟨2⟩]
      = textbook shippedFp [⟨0⟩, ⟨1⟩, ⟨2⟩] ∧
    textbook shippedFp [⟨0⟩, ⟨1⟩, ⟨2⟩] ≠ [⟨0⟩, ⟨1⟩, ⟨2⟩] := by
  decide +kernel

/-! ## Poseidon: variable-length hashing -/

section
variable {F : Type} [CommRing F]

/-- **varlen_select_spec.** `poseidon_varlen` (shipped shape `RATE = 2`, `WIDTH = 3`, any even
`MAX_LEN`, any permutation function): for every payload of length `len ≤ MAX_LEN` placed in the
buffer as `assign_with_filler` does, and every value of the filler cells, the digest is the
fixed-length hash `PoseidonChip::hash(payload)` (capacity cell = `len`). Holds for the code after fix
7fb7af7; before it the statement was false for odd `len` and non-zero filler. -/
theorem varlen_select_spec (P : PParams F) (ofNat : Nat → F) (perm : List F → List F) (maxLen : Nat)
    (data : List F) (filler : F)
    (hr : P.rate = 2) (hw : P.width = 3) (hM : maxLen % 2 = 0) (hl : data.length ≤ maxLen) :
    some (varlen P ofNat perm maxLen (vecBuffer maxLen P.rate data filler) data.length)
      = hash P ofNat perm data := by
  unfold varlen hash Sponge.squeeze Sponge.absorb Sponge.init
  have hn : (maxLen + 2 - 1) / 2 = maxLen / 2 := by omega
  simp only [hr, hw, List.nil_append, gt_iff_lt, Nat.lt_irrefl, if_false, ne_eq, not_true_eq_false,
    Option.map_some, hn, Option.getD_some]
  rw [varlen_loop P perm maxLen data filler hr hw hM hl]

/-- **varlen_filler_independent.** The var-len digest does not depend on the content of the unused
cells of the buffer. -/
theorem varlen_filler_independent (P : PParams F) (ofNat : Nat → F) (perm : List F → List F)
    (maxLen : Nat) (data : List F) (f1 f2 : F)
    (hr : P.rate = 2) (hw : P.width = 3) (hM : maxLen % 2 = 0) (hl : data.length ≤ maxLen) :
    varlen P ofNat perm maxLen (vecBuffer maxLen P.rate data f1) data.length
      = varlen P ofNat perm maxLen (vecBuffer maxLen P.rate data f2) data.length := by
  have h1 := varlen_select_spec P ofNat perm maxLen data f1 hr hw hM hl
  have h2 := varlen_select_spec P ofNat perm maxLen data f2 hr hw hM hl
  exact Option.some.inj (h1.trans h2.symm)

end

/-- Non-vacuity on the real field: payload of odd length 1 in a buffer of 4 with a non-zero
filler (the regression of the fixed defect), digest = hash of the payload and ≠ 0. -/
example :
    let perm := textbook shippedFp
    let ofNat := Fp.ofNat Gen.p
    some (varlen shippedFp ofNat perm 4 (vecBuffer 4 2 [⟨7⟩] ⟨99⟩) 1) = hash shippedFp ofNat perm [⟨7⟩] ∧
    hash shippedFp ofNat perm [⟨7⟩] ≠ some ⟨0⟩ := by
  decide +kernel

/-! ## Poseidon: sponge padding -/

section
variable {F : Type} [CommRing F]

/-- What the sponge adds to its rate cells is the queue padded with zeros to a multiple of `RATE`:
a shorter last chunk (`zip` over fewer cells in `squeeze`) has the effect of absorbing zeros.
(`WIDTH = 3`, `RATE = 2`; `fuel` is the loop bound of the model, `queue.len() + 1` in `squeeze`.) -/
theorem absorb_eq_zero_padded (perm : List F → List F) (fuel : Nat) (reg q : List F)
    (h : q.length < 2 * fuel) :
    absorbChunks 3 2 perm fuel reg q = absorbChunks 3 2 perm fuel reg (zeroPad 2 q) :=
  absorbChunks_zeroPad perm fuel reg q h

/-- **sponge_padding_injective** (fixed-length mode, `init(Some(len))`): the initial capacity cell
holds `len` and the absorbed sequence is the zero-padded input, and the pair (length, absorbed
sequence) determines the input: two inputs absorbed identically with the same capacity are equal.
In particular `[a]` and `[a, 0]` are separated by the capacity cell. Any rate. -/
theorem sponge_padding_injective_fixed (rate : Nat) (l1 l2 : List F)
    (hlen : l1.length = l2.length) (h : zeroPad rate l1 = zeroPad rate l2) : l1 = l2 :=
  fixed_absorbed_injective rate l1 l2 hlen h

/-- **sponge_padding_injective** (unbounded / transcript mode, `init(None)`): `squeeze` appends the
queue length to the queue before absorbing; the absorbed (zero-padded) sequence then determines the
queue, for all queue lengths `< bound` on which the embedding of lengths does not vanish (every
length below the characteristic: `F::from(len as u64)` with `len < 2^64 < p`). -/
theorem sponge_padding_injective_transcript (rate : Nat) (ofNat : Nat → F) (bound : Nat)
    (hnz : ∀ a, 0 < a → a < bound → ofNat a ≠ 0)
    (l1 l2 : List F) (h1 : l1.length < bound) (h2 : l2.length < bound)
    (h : zeroPad rate (l1 ++ [ofNat l1.length]) = zeroPad rate (l2 ++ [ofNat l2.length])) : l1 = l2 :=
  transcript_absorbed_injective rate ofNat bound hnz l1 l2 h1 h2 h

end

/-- Non-vacuity: in transcript mode `[a]` and `[a, 1]` (which would collide without the appended
length: `[a, 1]` vs `[a, 1, 2, 0]`) are absorbed differently; the 2^64 lengths of a `usize` queue are
below the modulus. -/
example : zeroPad 2 ([(7 : Int)] ++ [1]) ≠ zeroPad 2 ([7, 1] ++ [2]) ∧ 2 ^ 64 < Gen.p := by
  decide +kernel

/-! ## SHA-2 / RIPEMD-160: constants, padding, spread arithmetic of the chips -/

/-- The SHA-256 tables in `sha256_chip.rs` are the published ones: `ROUND_CONSTANTS[i]` = first 32
bits of the fractional part of the cube root of the `i`-th prime, `IV[i]` = first 32 bits of the
fractional part of the square root of the `i`-th prime (FIPS 180-4 §4.2.2, §5.3.3). -/
theorem sha256_constants_published :
    Gen.sha256K.length = 64 ∧ Gen.sha256IV.length = 8 ∧
    ((firstPrimes 64).zip Gen.sha256K).all (fun pc => isFracRoot 3 32 pc.1 pc.2) = true ∧
    ((firstPrimes 8).zip Gen.sha256IV).all (fun pc => isFracRoot 2 32 pc.1 pc.2) = true := by
  decide +kernel

/-- Same for the SHA-512 tables of `sha512_chip.rs` (64 fractional bits, 80 primes; §4.2.3, §5.3.5). -/
theorem sha512_constants_published :
    Gen.sha512K.length = 80 ∧ Gen.sha512IV.length = 8 ∧
    ((firstPrimes 80).zip Gen.sha512K).all (fun pc => isFracRoot 3 64 pc.1 pc.2) = true ∧
    ((firstPrimes 8).zip Gen.sha512IV).all (fun pc => isFracRoot 2 64 pc.1 pc.2) = true := by
  decide +kernel

/-- The RIPEMD-160 tables of `ripemd160_chip.rs`: `K = 0, ⌊2^30·√2⌋, ⌊2^30·√3⌋, ⌊2^30·√5⌋, ⌊2^30·√7⌋`,
`K' = ⌊2^30·∛2⌋, ⌊2^30·∛3⌋, ⌊2^30·∛5⌋, ⌊2^30·∛7⌋, 0`; the IV is the little-endian nibble pattern;
every row of `R`, `R'` is a permutation of `0..15`, rotation amounts are in `5..15`. -/
theorem ripemd160_constants_published :
    Gen.rmdK.head? = some 0 ∧ Gen.rmdKPrime.getLast? = some 0 ∧
    ([2, 3, 5, 7].zip Gen.rmdK.tail).all (fun pc => isScaledRoot 2 30 pc.1 pc.2) = true ∧
    ([2, 3, 5, 7].zip Gen.rmdKPrime).all (fun pc => isScaledRoot 3 30 pc.1 pc.2) = true ∧
    Gen.rmdIV = [0x67452301, 0xEFCDAB89, 0x98BADCFE, 0x10325476, 0xC3D2E1F0] ∧
    (Gen.rmdR ++ Gen.rmdRPrime).all (fun r => (List.range 16).all (fun i => r.count i == 1) && r.length == 16) = true ∧
    (Gen.rmdS ++ Gen.rmdSPrime).all (fun r => r.all (fun s => decide (5 ≤ s ∧ s ≤ 15)) && r.length == 16) = true ∧
    Gen.rmdR.length = 5 ∧ Gen.rmdRPrime.length = 5 ∧ Gen.rmdS.length = 5 ∧ Gen.rmdSPrime.length = 5 := by
  decide +kernel

/-- **sha_padding_spec** (SHA-256): `pad` in `sha256_chip.rs` (`k = 512 − (l + 65) % 512` zero bits
after the `1` bit, i.e. `0x80` and `k / 8` zero bytes, then the 64-bit length) is the FIPS padding: the
least number of zero bytes making the total a multiple of 64; the padded length is a multiple of
64, exceeds the message by at most 72 bytes, and the padding is injective on messages shorter
than `2^61` bytes. -/
theorem sha256_padding_spec (k iv : List Nat) (m : List Nat) :
    (sha256P k iv).padRust m = (sha256P k iv).pad m ∧
    ((sha256P k iv).pad m).length % 64 = 0 ∧
    ((sha256P k iv).pad m).length ≤ m.length + 72 ∧
    (∀ m', 8 * m.length < 2 ^ 64 → 8 * m'.length < 2 ^ 64 →
      (sha256P k iv).pad m = (sha256P k iv).pad m' → m = m') := by
  refine ⟨?_, ?_, ?_, ?_⟩
  · simp only [Sha2.padRust, Sha2.pad, Sha2.blockBytes, Sha2.wordBytes, Sha2.lenBytes, sha256P]
    have : (8 * (16 * (32 / 8)) - (8 * m.length + 1 + 8 * (2 * (32 / 8))) % (8 * (16 * (32 / 8)))) / 8
        = (16 * (32 / 8) - (m.length + 1 + 2 * (32 / 8)) % (16 * (32 / 8))) % (16 * (32 / 8)) := by omega
    rw [this]
  · rw [sha256_pad_eq, padG_length]; omega
  · rw [sha256_pad_eq, padG_length]; omega
  · intro m' h1 h2 h
    rw [sha256_pad_eq, sha256_pad_eq] at h
    exact padG_injective 64 8 m m' (by norm_num at h1 ⊢; omega) (by norm_num at h2 ⊢; omega) h

/-- **sha_padding_spec** (SHA-512): block 128 bytes, 128-bit length field. -/
theorem sha512_padding_spec (k iv : List Nat) (m : List Nat) :
    (sha512P k iv).padRust m = (sha512P k iv).pad m ∧
    ((sha512P k iv).pad m).length % 128 = 0 ∧
    ((sha512P k iv).pad m).length ≤ m.length + 144 ∧
    (∀ m', 8 * m.length < 2 ^ 128 → 8 * m'.length < 2 ^ 128 →
      (sha512P k iv).pad m = (sha512P k iv).pad m' → m = m') := by
  refine ⟨?_, ?_, ?_, ?_⟩
  · simp only [Sha2.padRust, Sha2.pad, Sha2.blockBytes, Sha2.wordBytes, Sha2.lenBytes, sha512P]
    have : (8 * (16 * (64 / 8)) - (8 * m.length + 1 + 8 * (2 * (64 / 8))) % (8 * (16 * (64 / 8)))) / 8
        = (16 * (64 / 8) - (m.length + 1 + 2 * (64 / 8)) % (16 * (64 / 8))) % (16 * (64 / 8)) := by omega
    rw [this]
  · rw [sha512_pad_eq, padG_length]; omega
  · rw [sha512_pad_eq, padG_length]; omega
  · intro m' h1 h2 h
    rw [sha512_pad_eq, sha512_pad_eq] at h
    exact padG_injective 128 16 m m' (by norm_num at h1 ⊢; omega) (by norm_num at h2 ⊢; omega) h

/-- Non-vacuity: one-byte message, and the 55/56 boundary (one vs two blocks). -/
example : ((sha256P [] []).pad [0x61]).length = 64 ∧ ((sha256P [] []).pad (List.replicate 55 0)).length = 64 ∧
    ((sha256P [] []).pad (List.replicate 56 0)).length = 128 ∧
    ((sha512P [] []).pad (List.replicate 111 0)).length = 128 ∧
    ((sha512P [] []).pad (List.replicate 112 0)).length = 256 := by decide +kernel

/-- **varlen_select_spec (SHA-256), partial.** `sha256_varlen` (`final_block_len`, `merge_chunks`,
`insert_in_array`, `compute_padding`, the conditional-update loop), run on cells that carry their
origin (payload position / filler / constant `0x00` / constant `0x80` / length byte): for the buffer
sizes `MAX_LEN = 64` and `128` and EVERY actual length `0 ≤ len ≤ MAX_LEN`, and for `MAX_LEN = 192`
at every padding-boundary length, the blocks handed to the compression function are exactly the
64-byte blocks of the FIPS padding `payload ‖ 0x80 ‖ 0…0 ‖ len₆₄` — no filler cell is ever compressed,
each payload cell exactly once and in order. The selection code only moves cells (it never computes
on their values), so the tagged run determines its behaviour on all byte contents. *Partial*:
exhaustive for these sizes (kernel evaluation), not an induction over `MAX_LEN`; the compression
rounds are not part of this statement (digest correspondence covers them). -/
theorem sha256_varlen_select_spec_partial :
    (List.range 65).all (fun len => varlenStructOk 64 len) = true ∧
    (List.range 129).all (fun len => varlenStructOk 128 len) = true ∧
    [0, 1, 55, 56, 63, 64, 65, 119, 120, 127, 128, 129, 183, 184, 191, 192].all
      (fun len => varlenStructOk 192 len) = true := by
  refine ⟨varlenShaA, ?_, varlenShaD⟩
  have hB := varlenShaB
  have hC := varlenShaC
  rw [List.all_eq_true] at hB hC ⊢
  intro len hlen
  have hl : len < 129 := List.mem_range.mp hlen
  by_cases h : len < 65
  · exact hB len (List.mem_range.mpr h)
  · have := hC (len - 65) (List.mem_range.mpr (by omega))
    have e : 65 + (len - 65) = len := by omega
    rwa [e] at this

/-- The check is not vacuous: it fails when the extra-block threshold is off by one (a `len` of 56
bytes needs the extra block). -/
example : (finalBlockLen 55).2 = false ∧ (finalBlockLen 56).2 = true ∧ (finalBlockLen 64).1 = 64 ∧
    (finalBlockLen 0) = (0, false) := by decide

/-- **spread_sum_even_odd.** The Maj / Σ₀ / Σ₁ / σ₀ / σ₁ gates of the SHA chips all have the form
`~X + ~Y + ~Z = ~evn + 2·~odd` with `evn`, `odd` range-checked through the plain-spreaded table (so
`~evn`, `~odd` are genuine spreads of `n`-bit words). Whatever the prover assigns, the identity forces
`evn = X ⊕ Y ⊕ Z` and `odd = Maj(X, Y, Z)`: no freedom is left in the decomposition. Any bit length
(`n = 32` for SHA-256 / RIPEMD-160, `n = 64` for SHA-512). -/
theorem spread_sum_even_odd_3 (n x y z evn odd : Nat) (hx : x < 2 ^ n) (hy : y < 2 ^ n) (hz : z < 2 ^ n)
    (he : evn < 2 ^ n) (ho : odd < 2 ^ n)
    (h : spreadFuel n x + spreadFuel n y + spreadFuel n z = spreadFuel n evn + 2 * spreadFuel n odd) :
    evn = x ^^^ y ^^^ z ∧ odd = maj x y z :=
  spread_sum_even_odd n x y z evn odd hx hy hz he ho h

example : spreadFuel 4 0b1100 + spreadFuel 4 0b1010 + spreadFuel 4 0b0110
    = spreadFuel 4 0b0000 + 2 * spreadFuel 4 0b1110 := by decide

/-- Two-term form (the two halves of `Ch`): `~X + ~Y = ~evn + 2·~odd` forces `odd = X ∧ Y`. -/
theorem spread_sum_even_odd_2 (n x y evn odd : Nat) (hx : x < 2 ^ n) (hy : y < 2 ^ n)
    (he : evn < 2 ^ n) (ho : odd < 2 ^ n)
    (h : spreadFuel n x + spreadFuel n y = spreadFuel n evn + 2 * spreadFuel n odd) :
    evn = x ^^^ y ∧ odd = x &&& y :=
  spread_sum_even_odd2 n x y evn odd hx hy he ho h

/-- The even and the odd bits of `~A + 2·~B` are `A` and `B`: what `get_even_and_odd_bits` (witness
generation) extracts is the only decomposition the gate accepts. -/
theorem even_odd_bits_of_spread_sum (n a b : Nat) (ha : a < 2 ^ n) (hb : b < 2 ^ n) :
    evenBits n (spreadFuel n a + 2 * spreadFuel n b) = a ∧
    oddBits n (spreadFuel n a + 2 * spreadFuel n b) = b := by
  have := even_odd_of_spread_sum n a b
  rwa [Nat.mod_eq_of_lt ha, Nat.mod_eq_of_lt hb] at this

/-- **ch_via_spread.** `Ch(E, F, G) = (E ∧ F) + (¬E ∧ G)` as integers (the chip adds the odd halves of
`~E + ~F` and `~(¬E) + ~G` with a plain field addition in the `half Ch` gate), and the spread of the
complement is `MASK_EVN − ~E` as computed by `negate_spreaded`. -/
theorem ch_via_spread_sum (w e f g : Nat) (he : e < 2 ^ w) :
    ch w e f g = (e &&& f) + (notW w e &&& g) ∧
    spreadFuel w (notW w e) + spreadFuel w e = spreadFuel w (2 ^ w - 1) :=
  ⟨ch_via_spread w e f g he, spread_not w e he⟩

/-- **mod_add_carry_unique.** In the `add mod 2^32` / `add mod 2^64` gates (`Σ sᵢ = r + carry·2^w`) a
range-checked result leaves one choice for result and carry, namely the remainder and quotient. -/
theorem mod_add_carry_unique_w (w s r c : Nat) (hr : r < 2 ^ w) (h : s = r + c * 2 ^ w) :
    r = s % 2 ^ w ∧ c = s / 2 ^ w :=
  mod_add_carry_unique w s r c hr h

example : (0xffffffff + 0xffffffff + 5) % 2 ^ 32 = 3 ∧ (0xffffffff + 0xffffffff + 5) / 2 ^ 32 = 2 := by decide

/-- The limb tables of the `Σ₀(A)` gate of `sha256_chip.rs` (generated from the source): with `A`
decomposed in the 10-9-11-2 limbs of the `10-9-11-2 decomposition` gate, the three inner products
`Σ 2^eᵢ·limbᵢ` of the gate are the rotations of `A` by 2, 13 and 22 bits (FIPS 180-4 (4.4)); `l b` is
the limb of `b` bits. The gate uses the same exponents on the spreaded limbs (`spread_concat_limbs`). -/
theorem sha256_Sigma0_gate_rotations (l : Nat → Nat)
    (h10 : l 10 < 2 ^ 10) (h9 : l 9 < 2 ^ 9) (h11 : l 11 < 2 ^ 11) (h2 : l 2 < 2 ^ 2) :
    let A := pow2Ip Gen.sha256DecA.1 (Gen.sha256DecA.2.map l)
    A < 2 ^ 32 ∧
    Gen.sha256Sigma0Gate.map (fun g => pow2Ip g.1 (g.2.map l))
      = [rotr 32 A 2, rotr 32 A 13, rotr 32 A 22] := by
  simp only [Gen.sha256DecA, Gen.sha256Sigma0Gate, pow2Ip, rotr, List.map, List.zipWith, List.foldl]
  generalize l 10 = a at *
  generalize l 9 = b at *
  generalize l 11 = c at *
  generalize l 2 = d at *
  norm_num
  refine ⟨by omega, by omega, by omega, by omega⟩

/-- Same for the `Σ₁(E)` gate: limbs 7-12-2-5-6, rotations by 6, 11 and 25 bits (FIPS 180-4 (4.5)). -/
theorem sha256_Sigma1_gate_rotations (l : Nat → Nat)
    (h7 : l 7 < 2 ^ 7) (h12 : l 12 < 2 ^ 12) (h2 : l 2 < 2 ^ 2) (h5 : l 5 < 2 ^ 5) (h6 : l 6 < 2 ^ 6) :
    let E := pow2Ip Gen.sha256DecE.1 (Gen.sha256DecE.2.map l)
    E < 2 ^ 32 ∧
    Gen.sha256Sigma1Gate.map (fun g => pow2Ip g.1 (g.2.map l))
      = [rotr 32 E 6, rotr 32 E 11, rotr 32 E 25] := by
  simp only [Gen.sha256DecE, Gen.sha256Sigma1Gate, pow2Ip, rotr, List.map, List.zipWith, List.foldl]
  generalize l 7 = a at *
  generalize l 12 = b at *
  generalize l 2 = c at *
  generalize l 5 = d at *
  generalize l 6 = e at *
  norm_num
  refine ⟨by omega, by omega, by omega, by omega⟩

/-- **Σ₀ gate soundness** (`sha256_chip.rs`, gate `Σ₀(A)`, tables generated from the source). Let the
limbs of `A` (10-9-11-2, range-checked by the lookups, `l b` = limb of `b` bits) and two 32-bit words
`evn`, `odd` (recomposed from looked-up 11-11-10 limbs) satisfy the gate identity
`Σ_rot Σᵢ 4^eᵢ·~limbᵢ = ~evn + 2·~odd`. Then `evn = Σ₀(A) = (A ⋙ 2) ⊕ (A ⋙ 13) ⊕ (A ⋙ 22)`: the
gate leaves the prover no choice for the output word. -/
theorem sha256_Sigma0_gate_sound (k iv : List Nat) (l : Nat → Nat)
    (h10 : l 10 < 2 ^ 10) (h9 : l 9 < 2 ^ 9) (h11 : l 11 < 2 ^ 11) (h2 : l 2 < 2 ^ 2)
    (evn odd : Nat) (he : evn < 2 ^ 32) (ho : odd < 2 ^ 32)
    (hgate : (Gen.sha256Sigma0Gate.map (fun g => pow4Ip g.1 (g.2.map (fun b => spreadFuel b (l b))))).foldl
        (· + ·) 0 = spreadFuel 32 evn + 2 * spreadFuel 32 odd) :
    evn = (sha256P k iv).bigSigma0 (pow2Ip Gen.sha256DecA.1 (Gen.sha256DecA.2.map l)) := by
  obtain ⟨hA, hrot⟩ := sha256_Sigma0_gate_rotations l h10 h9 h11 h2
  set A := pow2Ip Gen.sha256DecA.1 (Gen.sha256DecA.2.map l) with hAdef
  -- each inner product of spreaded limbs is the spread of the corresponding rotation
  have hb : ∀ ka ∈ [(11, l 11), (9, l 9), (10, l 10), (2, l 2)], ka.2 < 2 ^ ka.1 := by
    intro ka hka; simp at hka; rcases hka with rfl | rfl | rfl | rfl <;> assumption
  have hb2 : ∀ ka ∈ [(9, l 9), (10, l 10), (2, l 2), (11, l 11)], ka.2 < 2 ^ ka.1 := by
    intro ka hka; simp at hka; rcases hka with rfl | rfl | rfl | rfl <;> assumption
  have hb3 : ∀ ka ∈ [(10, l 10), (2, l 2), (11, l 11), (9, l 9)], ka.2 < 2 ^ ka.1 := by
    intro ka hka; simp at hka; rcases hka with rfl | rfl | rfl | rfl <;> assumption
  have s1 := spread_concatLE _ hb
  have s2 := spread_concatLE _ hb2
  have s3 := spread_concatLE _ hb3
  simp only [Gen.sha256Sigma0Gate, List.map, pow2Ip, List.zipWith, List.foldl, List.cons.injEq, and_true] at hrot
  obtain ⟨r1, r2, r3⟩ := hrot
  simp only [Gen.sha256Sigma0Gate, List.map, pow4Ip, List.zipWith, List.foldl] at hgate
  simp only [bitsTotal, concatLE, spreadConcat] at s1 s2 s3
  have e1 : spreadFuel 32 (rotr 32 A 2) = 4 ^ 30 * spreadFuel 2 (l 2) + 4 ^ 20 * spreadFuel 10 (l 10)
      + 4 ^ 11 * spreadFuel 9 (l 9) + 4 ^ 0 * spreadFuel 11 (l 11) := by
    rw [← r1]
    have : 0 + 2 ^ 30 * l 2 + 2 ^ 20 * l 10 + 2 ^ 11 * l 9 + 2 ^ 0 * l 11
        = l 11 + 2 ^ 11 * (l 9 + 2 ^ 9 * (l 10 + 2 ^ 10 * (l 2 + 2 ^ 2 * 0))) := by ring
    rw [this]
    have hs : (11 + (9 + (10 + (2 + 0)))) = 32 := rfl
    rw [hs] at s1
    rw [s1]; ring
  have e2 : spreadFuel 32 (rotr 32 A 13) = 4 ^ 21 * spreadFuel 11 (l 11) + 4 ^ 19 * spreadFuel 2 (l 2)
      + 4 ^ 9 * spreadFuel 10 (l 10) + 4 ^ 0 * spreadFuel 9 (l 9) := by
    rw [← r2]
    have : 0 + 2 ^ 21 * l 11 + 2 ^ 19 * l 2 + 2 ^ 9 * l 10 + 2 ^ 0 * l 9
        = l 9 + 2 ^ 9 * (l 10 + 2 ^ 10 * (l 2 + 2 ^ 2 * (l 11 + 2 ^ 11 * 0))) := by ring
    rw [this]
    have hs : (9 + (10 + (2 + (11 + 0)))) = 32 := rfl
    rw [hs] at s2
    rw [s2]; ring
  have e3 : spreadFuel 32 (rotr 32 A 22) = 4 ^ 23 * spreadFuel 9 (l 9) + 4 ^ 12 * spreadFuel 11 (l 11)
      + 4 ^ 10 * spreadFuel 2 (l 2) + 4 ^ 0 * spreadFuel 10 (l 10) := by
    rw [← r3]
    have : 0 + 2 ^ 23 * l 9 + 2 ^ 12 * l 11 + 2 ^ 10 * l 2 + 2 ^ 0 * l 10
        = l 10 + 2 ^ 10 * (l 2 + 2 ^ 2 * (l 11 + 2 ^ 11 * (l 9 + 2 ^ 9 * 0))) := by ring
    rw [this]
    have hs : (10 + (2 + (11 + (9 + 0)))) = 32 := rfl
    rw [hs] at s3
    rw [s3]; ring
  have hlt : ∀ r, 0 < r → r < 32 → rotr 32 A r < 2 ^ 32 := fun r _ hr => rotr_lt 32 A r hA (by omega)
  have hsum : spreadFuel 32 (rotr 32 A 2) + spreadFuel 32 (rotr 32 A 13) + spreadFuel 32 (rotr 32 A 22)
      = spreadFuel 32 evn + 2 * spreadFuel 32 odd := by
    rw [e1, e2, e3, ← hgate]; ring
  have := spread_sum_even_odd 32 _ _ _ evn odd (hlt 2 (by omega) (by omega)) (hlt 13 (by omega) (by omega))
    (hlt 22 (by omega) (by omega)) he ho hsum
  rw [this.1]
  rfl

/-- Spread of a limb concatenation: `~(a + 2^k·b) = ~a + 4^k·~b` — why `expr_pow4_ip` on spreaded limbs
with the exponents of `expr_pow2_ip` is the spread of the recomposed word. -/
theorem spread_concat_limbs (k n a b : Nat) (ha : a < 2 ^ k) :
    spreadFuel (k + n) (a + 2 ^ k * b) = spreadFuel k a + 4 ^ k * spreadFuel n b :=
  spread_concat k n a b ha

/-- The plain-spreaded lookup tables only offer limb sizes that keep three-term sums of spreads
inside the native field (`3·4^13 < p`), and contain the sizes the gates use. -/
theorem lookup_lengths_ok :
    Gen.sha256LookupLengths.all (fun n => decide (0 < n ∧ n ≤ 12)) = true ∧
    Gen.sha512LookupLengths.all (fun n => decide (0 < n ∧ n ≤ 13)) = true ∧
    [10, 9, 11, 2, 7, 12, 5, 6, 3, 4].all (fun n => Gen.sha256LookupLengths.contains n) = true ∧
    7 * 2 ^ 64 < Gen.p ∧ 3 * 4 ^ 64 < Gen.p := by
  decide +kernel

end MidnightZK.C07

