import MidnightZK.Model.C07.Poseidon
import MidnightZK.Gen.C07Poseidon
/-!
# C07 — hash gadgets equal their reference functions on every message
Property theorems (helper lemmas live in `MidnightZK/Proofs/C07`).
-/
namespace MidnightZK.C07

/-- The shipped parameter shape is the one the code assumes: `WIDTH = RATE + 1`, an even number of
full rounds, `ROUND_CONSTANTS` has `NB_FULL_ROUNDS + NB_PARTIAL_ROUNDS` rows of `WIDTH` entries, `MDS`
is `WIDTH × WIDTH`, and both skip counts divide the partial rounds into whole batches
(`NB_PARTIAL_ROUNDS % (1 + NB_SKIPS) = 0`, asserted by `round_constants_circuit` for the circuit). -/
theorem params_shape :
    Gen.width = Gen.rate + 1 ∧ Gen.nbFull % 2 = 0 ∧
    Gen.roundConstants.length = Gen.nbFull + Gen.nbPartial ∧
    (Gen.roundConstants.all (fun r => r.length == Gen.width)) = true ∧
    Gen.mds.length = Gen.width ∧ (Gen.mds.all (fun r => r.length == Gen.width)) = true ∧
    Gen.nbPartial % (1 + Gen.nbSkipsCircuit) = 0 ∧ Gen.nbPartial % (1 + Gen.nbSkipsCpu) = 0 := by
  decide +kernel

/-- Every integer written in `Fq::from_raw([..])` in `constants/blstrs.rs` is already reduced
modulo the field modulus (so the value used is the value written). -/
theorem constants_canonical :
    (Gen.roundConstants.all (fun r => r.all (fun c => decide (c < Gen.p)))) = true ∧
    (Gen.mds.all (fun r => r.all (fun c => decide (c < Gen.p)))) = true := by
  decide +kernel

end MidnightZK.C07
