import MidnightZK.Model.C07.Poseidon
import MidnightZK.Gen.C07Poseidon
import MidnightZK.Proofs.C07.Eval
import MidnightZK.Proofs.C07.ShaSpec
import MidnightZK.Proofs.C07.Varlen
import MidnightZK.Proofs.C07.VarlenTail
import MidnightZK.Proofs.C07.GrainAll
import MidnightZK.Proofs.C07.Sponge
import MidnightZK.Proofs.C07.VarlenShaA
import MidnightZK.Proofs.C07.VarlenShaB
import MidnightZK.Proofs.C07.VarlenShaC
import MidnightZK.Proofs.C07.VarlenShaD
import MidnightZK.Proofs.C07.VarlenShaGen
import MidnightZK.Proofs.C07.ChipDigest
import MidnightZK.Proofs.C07.Chip512Digest
import MidnightZK.Proofs.C07.RmdF
import MidnightZK.Proofs.C10.Prime
/-!
# C07 — hash gadgets equal their reference functions on every message
Property theorems (helper lemmas live in `MidnightZK/Proofs/C07`).
-/
namespace MidnightZK.C07

/-- The shipped parameter shape is the one the code assumes: `WIDTH = RATE + 1`, an even number of
full rounds, `ROUND_CONSTANTS` has `NB_FULL_ROUNDS + NB_PARTIAL_ROUNDS` rows of `WIDTH` entries, `MDS`
is `WIDTH × WIDTH`, and the circuit's skip count divides the partial rounds into whole batches
(`NB_PARTIAL_ROUNDS % (1 + NB_SKIPS_CIRCUIT) = 0`, asserted by `round_constants_circuit`; the CPU
version runs the remainder as raw rounds and needs no such condition). -/
theorem params_shape :
    Gen.width = Gen.rate + 1 ∧ Gen.nbFull % 2 = 0 ∧
    Gen.roundConstants.length = Gen.nbFull + Gen.nbPartial ∧
    (Gen.roundConstants.all (fun r => r.length == Gen.width)) = true ∧
    Gen.mds.length = Gen.width ∧ (Gen.mds.all (fun r => r.length == Gen.width)) = true ∧
    Gen.nbPartial % (1 + Gen.nbSkipsCircuit) = 0 := by
  decide +kernel

/-- Every integer written in `Fq::from_raw([..])` in `constants/blstrs.rs` is already reduced
modulo the field modulus (so the value used is the value written). -/
theorem constants_canonical :
    (Gen.roundConstants.all (fun r => r.all (fun c => decide (c < Gen.p)))) = true ∧
    (Gen.mds.all (fun r => r.all (fun c => decide (c < Gen.p)))) = true := by
  decide +kernel

/-- **Published constants.** The 204 round constants and the MDS matrix of `constants/blstrs.rs` are
the output of the generation documented in that file (`generate_parameters_grain.sage 1 0 255 3 8 60
p`): the round constants are, in order, the first `(R_F + R_P)·t` field elements of the Grain LFSR
stream (80-bit LFSR seeded with the parameter encoding, 160 discarded bits, self-shrinking output,
rejection sampling below `p`), and `MDS[i][j] = 1/(xᵢ + yⱼ)` for the next `2t` (distinct) elements.
Kernel evaluation of `Model/C07/Grain.lean` on the generated tables. -/
theorem poseidon_constants_published :
    Grain.check Gen.p 255 Gen.width Gen.nbFull Gen.nbPartial Gen.roundConstants Gen.mds = true :=
  Grain.check_ok

/-! ## Poseidon: round skips and the off-circuit permutation -/

section
variable {F : Type} [CommRing F]

/-- **skip_rounds_eq_raw.** For every width `≥ 1`, every MDS matrix, every table of round constants,
every skip count `s ≤ NB_SKIPS_MAX`, every batch position `round` and every state: evaluating the
linear identities produced by `RoundId::generate(s)` (`RoundId::eval`, the code of
`partial_round_cpu` and of the circuit's witness generation `partial_round_cpu_for_circuits`) on the
constants pre-computed by `eval_constants(round)` gives exactly the state after `1 + s` calls of
`partial_round_cpu_raw` starting at `round`. Array sizes are those of the Rust types
(`WIDTH + NB_SKIPS_MAX` variables, `WIDTH * (1 + NB_SKIPS_MAX)` constants). -/
theorem skip_rounds_eq_raw (P : PParams F) (smax s round : Nat) (st : List F)
    (hW : 1 ≤ P.width) (hs : s ≤ smax) :
    let d : Dims := ⟨P.width + smax, P.width * (1 + smax)⟩
    ((RoundId.generate P smax d s).eval P.width
        ((RoundId.generate P smax d s).evalConstants P round) st).1
      = iter (partialRoundRaw P) (1 + s) round st := by
  intro d
  exact eval_eq_raw P smax d s hW hs (by simp [d]; omega)
    (by simp [d]; exact Nat.mul_le_mul_left _ (by omega)) round st

/-- **cpu_perm_eq_raw.** `permutation_cpu` with the pre-computation `PreComputedRound*::init` for any
skip count (batches of `1 + s` partial rounds, then the `NB_PARTIAL_ROUNDS % (1 + s)` trailing raw
rounds) equals the skip-free shifted permutation (`tests::permutation_cpu_raw`), for every state. -/
theorem cpu_perm_eq_raw (P : PParams F) (smax s : Nat) (st : List F)
    (hW : 1 ≤ P.width) (hs : s ≤ smax) :
    permutationCpu P (PreComputed.init P smax s) st = permutationRaw P st :=
  permutationCpu_eq_raw P smax s hW hs st

/-- **cpu_perm_eq_textbook.** For every state, `permutation_cpu` (shifted rounds: the constants of
round `r + 1` are added at the end of round `r`, the first constants before round 0, zeros after the
last round; partial rounds batched through the skip identities) equals the published permutation
(add-round-constants, S-box layer, MDS; `R_F/2` full, `R_P` partial, `R_F/2` full rounds, the partial
S-box on cell `WIDTH - 1`), for every MDS matrix and round-constant table, provided the number of
full rounds is even and non-zero (the shipped values are checked in `params_shape`). -/
theorem cpu_perm_eq_textbook (P : PParams F) (smax s : Nat) (st : List F)
    (hW : 1 ≤ P.width) (hs : s ≤ smax) (hE : P.nbFull % 2 = 0) (hF : 0 < P.nbFull) :
    permutationCpu P (PreComputed.init P smax s) st = textbook P st := by
  rw [permutationCpu_eq_raw P smax s hW hs st, permutationRaw_eq_textbook P st hE hF]

/-- The shipped shape (`WIDTH`, round numbers, both skip counts generated from the sources) with
arbitrary tables over an arbitrary commutative ring: the off-circuit permutation (`NB_SKIPS_CPU`) and
the witness generation of the chip (`NB_SKIPS_CIRCUIT`) both compute the textbook permutation. -/
theorem shipped_perms_eq_textbook (mds rc : List (List F)) (st : List F) :
    let P : PParams F := { width := Gen.width, rate := Gen.rate, nbFull := Gen.nbFull,
                           nbPartial := Gen.nbPartial, mds := mds, rc := rc }
    let smax := max Gen.nbSkipsCpu Gen.nbSkipsCircuit
    permutationCpu P (PreComputed.init P smax Gen.nbSkipsCpu) st = textbook P st ∧
    permutationCpu P (PreComputed.init P smax Gen.nbSkipsCircuit) st = textbook P st := by
  intro P smax
  have h1 : 1 ≤ Gen.width := by decide
  have h2 : Gen.nbFull % 2 = 0 := by decide
  have h3 : 0 < Gen.nbFull := by decide
  constructor
  · exact cpu_perm_eq_textbook P smax Gen.nbSkipsCpu st h1 (by decide) h2 h3
  · exact cpu_perm_eq_textbook P smax Gen.nbSkipsCircuit st h1 (by decide) h2 h3

end

/-- The shipped parameters over the canonical integers modulo `p` (the driver's instance). -/
def shippedFp : PParams (Fp Gen.p) :=
  { width := Gen.width, rate := Gen.rate, nbFull := Gen.nbFull, nbPartial := Gen.nbPartial,
    mds := Gen.mds.map (fun r => r.map (Fp.ofNat Gen.p)),
    rc := Gen.roundConstants.map (fun r => r.map (Fp.ofNat Gen.p)) }

/-- Non-vacuity / sanity on the real field and tables: the three model permutations agree on a
concrete state (and are not the identity). -/
example :
    permutationCpu shippedFp (PreComputed.init shippedFp 5 2) [⟨0⟩, ⟨1⟩, ⟨2⟩]
      = textbook shippedFp [⟨0⟩, ⟨1⟩, ⟨2⟩] ∧
    permutationCpu shippedFp (PreComputed.init shippedFp 5 5) [⟨0⟩, ⟨1⟩, ⟨2⟩]
      = textbook shippedFp [⟨0⟩, ⟨1⟩, ⟨2⟩] ∧
    textbook shippedFp [⟨0⟩, ⟨1⟩, ⟨2⟩] ≠ [⟨0⟩, ⟨1⟩, ⟨2⟩] := by
  decide +kernel

/-! ## Poseidon: variable-length hashing -/

section
variable {F : Type} [CommRing F]

/-- **varlen_select_spec.** `poseidon_varlen` (shipped shape `RATE = 2`, `WIDTH = 3`, any even
`MAX_LEN`, any permutation function): for every payload of length `len ≤ MAX_LEN` placed in the
buffer as `assign_with_filler` does, and every value of the filler cells, the digest is the
fixed-length hash `PoseidonChip::hash(payload)` (capacity cell = `len`). Holds for the code after fix
7fb7af7; before it the statement was false for odd `len` and non-zero filler. -/
theorem varlen_select_spec (P : PParams F) (ofNat : Nat → F) (perm : List F → List F) (maxLen : Nat)
    (data : List F) (filler : F)
    (hr : P.rate = 2) (hw : P.width = 3) (hM : maxLen % 2 = 0) (hl : data.length ≤ maxLen) :
    some (varlen P ofNat perm maxLen (vecBuffer maxLen P.rate data filler) data.length)
      = hash P ofNat perm data := by
  unfold varlen hash Sponge.squeeze Sponge.absorb Sponge.init
  have hn : (maxLen + 2 - 1) / 2 = maxLen / 2 := by omega
  simp only [hr, hw, List.nil_append, gt_iff_lt, Nat.lt_irrefl, if_false, ne_eq, not_true_eq_false,
    Option.map_some, hn, Option.getD_some]
  rw [varlen_loop P perm maxLen data filler hr hw hM hl]

/-- **varlen_filler_independent.** The var-len digest does not depend on the content of the unused
cells of the buffer. -/
theorem varlen_filler_independent (P : PParams F) (ofNat : Nat → F) (perm : List F → List F)
    (maxLen : Nat) (data : List F) (f1 f2 : F)
    (hr : P.rate = 2) (hw : P.width = 3) (hM : maxLen % 2 = 0) (hl : data.length ≤ maxLen) :
    varlen P ofNat perm maxLen (vecBuffer maxLen P.rate data f1) data.length
      = varlen P ofNat perm maxLen (vecBuffer maxLen P.rate data f2) data.length := by
  have h1 := varlen_select_spec P ofNat perm maxLen data f1 hr hw hM hl
  have h2 := varlen_select_spec P ofNat perm maxLen data f2 hr hw hM hl
  exact Option.some.inj (h1.trans h2.symm)

end

section
variable {F : Type} [CommRing F]

/-- **poseidon_varlen_tail_independent.** `poseidon_varlen` for EVERY `RATE ≥ 1`, every `WIDTH`, every
`MAX_LEN` multiple of `RATE`, every `len ≤ MAX_LEN` and any permutation function: the digest only depends
on the buffer cells `get_lims(len)` that hold the payload. Two buffers that agree on these cells — whatever
they hold in the filler cells in front of the payload AND in the unused tail of the last chunk (the cells
`constrain_last_chunk` zeroes; seed C07-3 removed exactly that) — give the same digest. This is the general
form of `varlen_filler_independent` (which is for the shipped `RATE = 2` and buffers built by
`assign_with_filler`). -/
theorem poseidon_varlen_tail_independent (P : PParams F) (ofNat : Nat → F) (perm : List F → List F)
    (maxLen len : Nat) (b1 b2 : List F)
    (hr : 0 < P.rate) (hm : maxLen % P.rate = 0) (hlen : len ≤ maxLen)
    (hagree : ∀ i, (getLims maxLen P.rate len).1 ≤ i → i < (getLims maxLen P.rate len).2 →
      b1.getD i 0 = b2.getD i 0) :
    varlen P ofNat perm maxLen b1 len = varlen P ofNat perm maxLen b2 len := by
  unfold varlen
  simp only [nChunks_eq maxLen P.rate hr hm, List.range_eq_range']
  rw [varlen_fold_congr P perm maxLen len b1 b2 hr hm hlen hagree (maxLen / P.rate) 0 _ false (by omega)
    (fun h => by cases h)]

/-- **The loop of `constrain_last_chunk`.** The literal mirror of the Rust loop (`after_data ^= (offset == i)`;
`elem = select(after_data, 0, elem)` for `i = 1 … RATE-1`) equals, for every chunk length and every offset,
the closed form used in `varlenStep`: cells `j ≥ offset` are zero when `offset ≠ 0`, the chunk is returned
intact when `offset = 0`. -/
theorem constrain_last_chunk_spec (chunk : List F) (offset j : Nat) :
    (constrainLastChunk chunk offset).getD j 0
      = if offset ≠ 0 ∧ offset ≤ j then 0 else chunk.getD j 0 :=
  constrainLastChunk_getD chunk offset j

/-- The function the driver runs for the `varlen` requests (`varlenLoop`: `poseidon_varlen` with the literal
`constrain_last_chunk` loop, compared with the real circuit on every run) is the function the theorems
`varlen_select_spec`, `varlen_filler_independent` and `poseidon_varlen_tail_independent` are about. -/
theorem varlen_loop_eq_closed_form (P : PParams F) (ofNat : Nat → F) (perm : List F → List F) (maxLen : Nat)
    (buffer : List F) (len : Nat) :
    varlenLoop P ofNat perm maxLen buffer len = varlen P ofNat perm maxLen buffer len :=
  varlenLoop_eq P ofNat perm maxLen buffer len

end

/-- Non-vacuity of `poseidon_varlen_tail_independent` on the real field with a rate the shipped code does
not use (`RATE = 3`, `MAX_LEN = 6`, `len = 4`): the payload sits in cells `0 … 3` of the buffer (`get_lims`),
cells 4 and 5 are the unused tail of the last chunk; two different tails, same digest — and the digest
does depend on a payload cell. -/
example :
    let P3 : PParams (Fp Gen.p) := { shippedFp with rate := 3, width := 4 }
    let perm : List (Fp Gen.p) → List (Fp Gen.p) := fun st => st.map (fun x => x * x + ⟨1⟩)
    getLims 6 3 4 = (0, 4) ∧
    varlen P3 (Fp.ofNat Gen.p) perm 6 [⟨1⟩, ⟨2⟩, ⟨3⟩, ⟨4⟩, ⟨55⟩, ⟨66⟩] 4
      = varlen P3 (Fp.ofNat Gen.p) perm 6 [⟨1⟩, ⟨2⟩, ⟨3⟩, ⟨4⟩, ⟨0⟩, ⟨77⟩] 4 ∧
    varlen P3 (Fp.ofNat Gen.p) perm 6 [⟨1⟩, ⟨2⟩, ⟨3⟩, ⟨4⟩, ⟨55⟩, ⟨66⟩] 4
      ≠ varlen P3 (Fp.ofNat Gen.p) perm 6 [⟨1⟩, ⟨2⟩, ⟨3⟩, ⟨5⟩, ⟨55⟩, ⟨66⟩] 4 ∧
    constrainLastChunk [(⟨9⟩ : Fp Gen.p), ⟨8⟩, ⟨7⟩] 1 = [⟨9⟩, ⟨0⟩, ⟨0⟩] ∧
    constrainLastChunk [(⟨9⟩ : Fp Gen.p), ⟨8⟩, ⟨7⟩] 0 = [⟨9⟩, ⟨8⟩, ⟨7⟩] := by
  decide +kernel

/-- Non-vacuity on the real field: payload of odd length 1 in a buffer of 4 with a non-zero
filler (the regression of the fixed defect), digest = hash of the payload and ≠ 0. -/
example :
    let perm := textbook shippedFp
    let ofNat := Fp.ofNat Gen.p
    some (varlen shippedFp ofNat perm 4 (vecBuffer 4 2 [⟨7⟩] ⟨99⟩) 1) = hash shippedFp ofNat perm [⟨7⟩] ∧
    hash shippedFp ofNat perm [⟨7⟩] ≠ some ⟨0⟩ := by
  decide +kernel

/-! ## Poseidon: sponge padding -/

section
variable {F : Type} [CommRing F]

/-- What the sponge adds to its rate cells is the queue padded with zeros to a multiple of `RATE`:
a shorter last chunk (`zip` over fewer cells in `squeeze`) has the effect of absorbing zeros.
(`WIDTH = 3`, `RATE = 2`; `fuel` is the loop bound of the model, `queue.len() + 1` in `squeeze`.) -/
theorem absorb_eq_zero_padded (perm : List F → List F) (fuel : Nat) (reg q : List F)
    (h : q.length < 2 * fuel) :
    absorbChunks 3 2 perm fuel reg q = absorbChunks 3 2 perm fuel reg (zeroPad 2 q) :=
  absorbChunks_zeroPad perm fuel reg q h

/-- **sponge_padding_injective** (fixed-length mode, `init(Some(len))`): the initial capacity cell
holds `len` and the absorbed sequence is the zero-padded input, and the pair (length, absorbed
sequence) determines the input: two inputs absorbed identically with the same capacity are equal.
In particular `[a]` and `[a, 0]` are separated by the capacity cell. Any rate. -/
theorem sponge_padding_injective_fixed (rate : Nat) (l1 l2 : List F)
    (hlen : l1.length = l2.length) (h : zeroPad rate l1 = zeroPad rate l2) : l1 = l2 :=
  fixed_absorbed_injective rate l1 l2 hlen h

/-- **sponge_padding_injective** (unbounded / transcript mode, `init(None)`): `squeeze` appends the
queue length to the queue before absorbing; the absorbed (zero-padded) sequence then determines the
queue, for all queue lengths `< bound` on which the embedding of lengths does not vanish (every
length below the characteristic: `F::from(len as u64)` with `len < 2^64 < p`). -/
theorem sponge_padding_injective_transcript (rate : Nat) (ofNat : Nat → F) (bound : Nat)
    (hnz : ∀ a, 0 < a → a < bound → ofNat a ≠ 0)
    (l1 l2 : List F) (h1 : l1.length < bound) (h2 : l2.length < bound)
    (h : zeroPad rate (l1 ++ [ofNat l1.length]) = zeroPad rate (l2 ++ [ofNat l2.length])) : l1 = l2 :=
  transcript_absorbed_injective rate ofNat bound hnz l1 l2 h1 h2 h

end

/-- Non-vacuity: in transcript mode `[a]` and `[a, 1]` (which would collide without the appended
length: `[a, 1]` vs `[a, 1, 2, 0]`) are absorbed differently; the 2^64 lengths of a `usize` queue are
below the modulus. -/
example : zeroPad 2 ([(7 : Int)] ++ [1]) ≠ zeroPad 2 ([7, 1] ++ [2]) ∧ 2 ^ 64 < Gen.p := by
  decide +kernel

/-! ## SHA-2 / RIPEMD-160: constants, padding, spread arithmetic of the chips -/

/-- The SHA-256 tables in `sha256_chip.rs` are the published ones: `ROUND_CONSTANTS[i]` = first 32
bits of the fractional part of the cube root of the `i`-th prime, `IV[i]` = first 32 bits of the
fractional part of the square root of the `i`-th prime (FIPS 180-4 §4.2.2, §5.3.3). -/
theorem sha256_constants_published :
    Gen.sha256K.length = 64 ∧ Gen.sha256IV.length = 8 ∧
    ((firstPrimes 64).zip Gen.sha256K).all (fun pc => isFracRoot 3 32 pc.1 pc.2) = true ∧
    ((firstPrimes 8).zip Gen.sha256IV).all (fun pc => isFracRoot 2 32 pc.1 pc.2) = true := by
  decide +kernel

/-- Same for the SHA-512 tables of `sha512_chip.rs` (64 fractional bits, 80 primes; §4.2.3, §5.3.5). -/
theorem sha512_constants_published :
    Gen.sha512K.length = 80 ∧ Gen.sha512IV.length = 8 ∧
    ((firstPrimes 80).zip Gen.sha512K).all (fun pc => isFracRoot 3 64 pc.1 pc.2) = true ∧
    ((firstPrimes 8).zip Gen.sha512IV).all (fun pc => isFracRoot 2 64 pc.1 pc.2) = true := by
  decide +kernel

/-- The RIPEMD-160 tables of `ripemd160_chip.rs`: `K = 0, ⌊2^30·√2⌋, ⌊2^30·√3⌋, ⌊2^30·√5⌋, ⌊2^30·√7⌋`,
`K' = ⌊2^30·∛2⌋, ⌊2^30·∛3⌋, ⌊2^30·∛5⌋, ⌊2^30·∛7⌋, 0`; the IV is the little-endian nibble pattern;
every row of `R`, `R'` is a permutation of `0..15`, rotation amounts are in `5..15`. -/
theorem ripemd160_constants_published :
    Gen.rmdK.head? = some 0 ∧ Gen.rmdKPrime.getLast? = some 0 ∧
    ([2, 3, 5, 7].zip Gen.rmdK.tail).all (fun pc => isScaledRoot 2 30 pc.1 pc.2) = true ∧
    ([2, 3, 5, 7].zip Gen.rmdKPrime).all (fun pc => isScaledRoot 3 30 pc.1 pc.2) = true ∧
    Gen.rmdIV = [0x67452301, 0xEFCDAB89, 0x98BADCFE, 0x10325476, 0xC3D2E1F0] ∧
    (Gen.rmdR ++ Gen.rmdRPrime).all (fun r => (List.range 16).all (fun i => r.count i == 1) && r.length == 16) = true ∧
    (Gen.rmdS ++ Gen.rmdSPrime).all (fun r => r.all (fun s => decide (5 ≤ s ∧ s ≤ 15)) && r.length == 16) = true ∧
    Gen.rmdR.length = 5 ∧ Gen.rmdRPrime.length = 5 ∧ Gen.rmdS.length = 5 ∧ Gen.rmdSPrime.length = 5 := by
  decide +kernel

/-- **sha_padding_spec** (SHA-256): `pad` in `sha256_chip.rs` (`k = 512 − (l + 65) % 512` zero bits
after the `1` bit, i.e. `0x80` and `k / 8` zero bytes, then the 64-bit length) is the FIPS padding: the
least number of zero bytes making the total a multiple of 64; the padded length is a multiple of
64, exceeds the message by at most 72 bytes, and the padding is injective on messages shorter
than `2^61` bytes. -/
theorem sha256_padding_spec (k iv : List Nat) (m : List Nat) :
    (sha256P k iv).padRust m = (sha256P k iv).pad m ∧
    ((sha256P k iv).pad m).length % 64 = 0 ∧
    ((sha256P k iv).pad m).length ≤ m.length + 72 ∧
    (∀ m', 8 * m.length < 2 ^ 64 → 8 * m'.length < 2 ^ 64 →
      (sha256P k iv).pad m = (sha256P k iv).pad m' → m = m') := by
  refine ⟨?_, ?_, ?_, ?_⟩
  · simp only [Sha2.padRust, Sha2.pad, Sha2.blockBytes, Sha2.wordBytes, Sha2.lenBytes, sha256P]
    have : (8 * (16 * (32 / 8)) - (8 * m.length + 1 + 8 * (2 * (32 / 8))) % (8 * (16 * (32 / 8)))) / 8
        = (16 * (32 / 8) - (m.length + 1 + 2 * (32 / 8)) % (16 * (32 / 8))) % (16 * (32 / 8)) := by omega
    rw [this]
  · rw [sha256_pad_eq, padG_length]; omega
  · rw [sha256_pad_eq, padG_length]; omega
  · intro m' h1 h2 h
    rw [sha256_pad_eq, sha256_pad_eq] at h
    exact padG_injective 64 8 m m' (by norm_num at h1 ⊢; omega) (by norm_num at h2 ⊢; omega) h

/-- **sha_padding_spec** (SHA-512): block 128 bytes, 128-bit length field. -/
theorem sha512_padding_spec (k iv : List Nat) (m : List Nat) :
    (sha512P k iv).padRust m = (sha512P k iv).pad m ∧
    ((sha512P k iv).pad m).length % 128 = 0 ∧
    ((sha512P k iv).pad m).length ≤ m.length + 144 ∧
    (∀ m', 8 * m.length < 2 ^ 128 → 8 * m'.length < 2 ^ 128 →
      (sha512P k iv).pad m = (sha512P k iv).pad m' → m = m') := by
  refine ⟨?_, ?_, ?_, ?_⟩
  · simp only [Sha2.padRust, Sha2.pad, Sha2.blockBytes, Sha2.wordBytes, Sha2.lenBytes, sha512P]
    have : (8 * (16 * (64 / 8)) - (8 * m.length + 1 + 8 * (2 * (64 / 8))) % (8 * (16 * (64 / 8)))) / 8
        = (16 * (64 / 8) - (m.length + 1 + 2 * (64 / 8)) % (16 * (64 / 8))) % (16 * (64 / 8)) := by omega
    rw [this]
  · rw [sha512_pad_eq, padG_length]; omega
  · rw [sha512_pad_eq, padG_length]; omega
  · intro m' h1 h2 h
    rw [sha512_pad_eq, sha512_pad_eq] at h
    exact padG_injective 128 16 m m' (by norm_num at h1 ⊢; omega) (by norm_num at h2 ⊢; omega) h

/-- Non-vacuity: one-byte message, and the 55/56 boundary (one vs two blocks). -/
example : ((sha256P [] []).pad [0x61]).length = 64 ∧ ((sha256P [] []).pad (List.replicate 55 0)).length = 64 ∧
    ((sha256P [] []).pad (List.replicate 56 0)).length = 128 ∧
    ((sha512P [] []).pad (List.replicate 111 0)).length = 128 ∧
    ((sha512P [] []).pad (List.replicate 112 0)).length = 256 := by decide +kernel

/-- **varlen_select_spec (SHA-256), partial.** `sha256_varlen` (`final_block_len`, `merge_chunks`,
`insert_in_array`, `compute_padding`, the conditional-update loop), run on cells that carry their
origin (payload position / filler / constant `0x00` / constant `0x80` / length byte): for the buffer
sizes `MAX_LEN = 64` and `128` and EVERY actual length `0 ≤ len ≤ MAX_LEN`, and for `MAX_LEN = 192`
at every padding-boundary length, the blocks handed to the compression function are exactly the
64-byte blocks of the FIPS padding `payload ‖ 0x80 ‖ 0…0 ‖ len₆₄` — no filler cell is ever compressed,
each payload cell exactly once and in order. The selection code only moves cells (it never computes
on their values), so the tagged run determines its behaviour on all byte contents. *Partial*:
exhaustive for these sizes (kernel evaluation), not an induction over `MAX_LEN`; the compression
rounds are not part of this statement (digest correspondence covers them). -/
theorem sha256_varlen_select_spec_partial :
    (List.range 65).all (fun len => varlenStructOk 64 len) = true ∧
    (List.range 129).all (fun len => varlenStructOk 128 len) = true ∧
    [0, 1, 55, 56, 63, 64, 65, 119, 120, 127, 128, 129, 183, 184, 191, 192].all
      (fun len => varlenStructOk 192 len) = true := by
  refine ⟨varlenShaA, ?_, varlenShaD⟩
  have hB := varlenShaB
  have hC := varlenShaC
  rw [List.all_eq_true] at hB hC ⊢
  intro len hlen
  have hl : len < 129 := List.mem_range.mp hlen
  by_cases h : len < 65
  · exact hB len (List.mem_range.mpr h)
  · have := hC (len - 65) (List.mem_range.mpr (by omega))
    have e : 65 + (len - 65) = len := by omega
    rwa [e] at this

/-- **varlen_select_spec (SHA-256), every `MAX_LEN`.** `sha256_varlen` (`final_block_len`, `merge_chunks`,
`insert_in_array`, `compute_padding`, the conditional-update loop) for EVERY buffer size `MAX_LEN` that is
a positive multiple of 64, EVERY payload of `len ≤ MAX_LEN` cells placed in the buffer as
`assign_with_filler` does (right-aligned on 64-byte chunks), every filler and cells of any type `α` (bytes, or
position tags): the blocks handed to the compression function are, concatenated, exactly the FIPS padding
`payload ‖ 0x80 ‖ 0…0 ‖ len₆₄` and every block has 64 cells — no filler cell is ever compressed. Symbolic
proof: induction over the chunks for the conditional-update loop, naturality of `compute_padding` (it only
moves cells) + kernel evaluation of the 65 possible final-chunk lengths for the two padding blocks. This
removes the restriction of `sha256_varlen_select_spec_partial` to `MAX_LEN ∈ {64, 128, 192}`. -/
theorem sha256_varlen_select_spec {α : Type} (zero one filler : α) (lenBytes : Nat → List α) (M : Nat)
    (hM : M % 64 = 0) (hM0 : 64 ≤ M) (data : List α) (hl : data.length ≤ M)
    (hlb : (lenBytes data.length).length = 8) :
    (varlenBlocks zero one lenBytes M (byteBuffer M data filler) data.length).flatten
      = data ++ [one] ++ List.replicate ((64 - (data.length + 1 + 8) % 64) % 64) zero ++ lenBytes data.length ∧
    ∀ b ∈ varlenBlocks zero one lenBytes M (byteBuffer M data filler) data.length, b.length = 64 :=
  varlenBlocks_spec' zero one filler lenBytes M hM hM0 data hl hlb

/-- **varlen_select_spec (SHA-256), digest level.** For every `MAX_LEN` (positive multiple of 64), every
payload of `len ≤ MAX_LEN` bytes and every filler byte, the digest computed by the model of `sha256_varlen`
(the function the driver runs on the `sha256varlen` requests, compared with the real circuit) is the
SHA-256 digest of the payload: `digest (varlen data len) = H (data.take len)`, independently of the
filler. Any tables `k`, `iv`. -/
theorem sha256_varlen_digest_spec (k iv : List Nat) (M : Nat) (hM : M % 64 = 0) (hM0 : 64 ≤ M)
    (data : List Nat) (filler : Nat) (hl : data.length ≤ M) :
    sha256Varlen (sha256P k iv) M (byteBuffer M data filler) data.length = (sha256P k iv).digest data :=
  sha256Varlen_eq_digest k iv M hM hM0 data filler hl

/-- **`compute_padding`.** For every final chunk of 64 cells, every final-chunk length `fbl ≤ 64` (the extra
block flag being `fbl ≥ 56` as `final_block_len` computes it) and the 8 length cells: the second returned
block (always compressed) ends the FIPS padding, and when `fbl ≥ 56` the two blocks together are
`chunk[..fbl] ‖ 0x80 ‖ 0…0 ‖ len₆₄`. -/
theorem sha256_compute_padding_spec {α : Type} (zero one : α) (lb fc : List α) (hlb : lb.length = 8)
    (hfc : fc.length = 64) (fbl : Nat) (hf : fbl ≤ 64) :
    computePadding zero one lb fbl (!(decide (fbl < 56))) fc =
      if fbl < 56 then
        fc.take fbl ++ List.replicate (64 - fbl) zero ++
          (fc.take fbl ++ [one] ++ List.replicate (55 - fbl) zero ++ lb)
      else fc.take fbl ++ [one] ++ List.replicate (119 - fbl) zero ++ lb :=
  computePadding_spec zero one lb fc hlb hfc fbl hf

/-- Non-vacuity of the general statements: a buffer size outside of the exhaustively evaluated ones
(`MAX_LEN = 320`), a payload of 70 position tags (two compressed blocks + no extra block … here `70 % 64 = 6`),
filler tag 999: the compressed cells are the payload, `0x80`, zeros and the length cells. -/
example :
    (varlenBlocks 0 1 (fun _ => (List.range 8).map tagLen) 320 (byteBuffer 320 ((List.range 70).map tagData) tagFiller)
        70).flatten
      = (List.range 70).map tagData ++ [1] ++ List.replicate 49 0 ++ (List.range 8).map tagLen ∧
    (byteBuffer 320 ((List.range 70).map tagData) tagFiller).count tagFiller = 250 := by
  decide +kernel

/-- The check is not vacuous: it fails when the extra-block threshold is off by one (a `len` of 56
bytes needs the extra block). -/
example : (finalBlockLen 55).2 = false ∧ (finalBlockLen 56).2 = true ∧ (finalBlockLen 64).1 = 64 ∧
    (finalBlockLen 0) = (0, false) := by decide

/-- **spread_sum_even_odd.** The Maj / Σ₀ / Σ₁ / σ₀ / σ₁ gates of the SHA chips all have the form
`~X + ~Y + ~Z = ~evn + 2·~odd` with `evn`, `odd` range-checked through the plain-spreaded table (so
`~evn`, `~odd` are genuine spreads of `n`-bit words). Whatever the prover assigns, the identity forces
`evn = X ⊕ Y ⊕ Z` and `odd = Maj(X, Y, Z)`: no freedom is left in the decomposition. Any bit length
(`n = 32` for SHA-256 / RIPEMD-160, `n = 64` for SHA-512). -/
theorem spread_sum_even_odd_3 (n x y z evn odd : Nat) (hx : x < 2 ^ n) (hy : y < 2 ^ n) (hz : z < 2 ^ n)
    (he : evn < 2 ^ n) (ho : odd < 2 ^ n)
    (h : spreadFuel n x + spreadFuel n y + spreadFuel n z = spreadFuel n evn + 2 * spreadFuel n odd) :
    evn = x ^^^ y ^^^ z ∧ odd = maj x y z :=
  spread_sum_even_odd n x y z evn odd hx hy hz he ho h

example : spreadFuel 4 0b1100 + spreadFuel 4 0b1010 + spreadFuel 4 0b0110
    = spreadFuel 4 0b0000 + 2 * spreadFuel 4 0b1110 := by decide

/-- Two-term form (the two halves of `Ch`): `~X + ~Y = ~evn + 2·~odd` forces `odd = X ∧ Y`. -/
theorem spread_sum_even_odd_2 (n x y evn odd : Nat) (hx : x < 2 ^ n) (hy : y < 2 ^ n)
    (he : evn < 2 ^ n) (ho : odd < 2 ^ n)
    (h : spreadFuel n x + spreadFuel n y = spreadFuel n evn + 2 * spreadFuel n odd) :
    evn = x ^^^ y ∧ odd = x &&& y :=
  spread_sum_even_odd2 n x y evn odd hx hy he ho h

/-- The even and the odd bits of `~A + 2·~B` are `A` and `B`: what `get_even_and_odd_bits` (witness
generation) extracts is the only decomposition the gate accepts. -/
theorem even_odd_bits_of_spread_sum (n a b : Nat) (ha : a < 2 ^ n) (hb : b < 2 ^ n) :
    evenBits n (spreadFuel n a + 2 * spreadFuel n b) = a ∧
    oddBits n (spreadFuel n a + 2 * spreadFuel n b) = b := by
  have := even_odd_of_spread_sum n a b
  rwa [Nat.mod_eq_of_lt ha, Nat.mod_eq_of_lt hb] at this

/-- **ch_via_spread.** `Ch(E, F, G) = (E ∧ F) + (¬E ∧ G)` as integers (the chip adds the odd halves of
`~E + ~F` and `~(¬E) + ~G` with a plain field addition in the `half Ch` gate), and the spread of the
complement is `MASK_EVN − ~E` as computed by `negate_spreaded`. -/
theorem ch_via_spread_sum (w e f g : Nat) (he : e < 2 ^ w) :
    ch w e f g = (e &&& f) + (notW w e &&& g) ∧
    spreadFuel w (notW w e) + spreadFuel w e = spreadFuel w (2 ^ w - 1) :=
  ⟨ch_via_spread w e f g he, spread_not w e he⟩

/-- **mod_add_carry_unique.** In the `add mod 2^32` / `add mod 2^64` gates (`Σ sᵢ = r + carry·2^w`) a
range-checked result leaves one choice for result and carry, namely the remainder and quotient. -/
theorem mod_add_carry_unique_w (w s r c : Nat) (hr : r < 2 ^ w) (h : s = r + c * 2 ^ w) :
    r = s % 2 ^ w ∧ c = s / 2 ^ w :=
  mod_add_carry_unique w s r c hr h

example : (0xffffffff + 0xffffffff + 5) % 2 ^ 32 = 3 ∧ (0xffffffff + 0xffffffff + 5) / 2 ^ 32 = 2 := by decide

/-- The limb tables of the `Σ₀(A)` gate of `sha256_chip.rs` (generated from the source): with `A`
decomposed in the 10-9-11-2 limbs of the `10-9-11-2 decomposition` gate, the three inner products
`Σ 2^eᵢ·limbᵢ` of the gate are the rotations of `A` by 2, 13 and 22 bits (FIPS 180-4 (4.4)); `l b` is
the limb of `b` bits. The gate uses the same exponents on the spreaded limbs (`spread_concat_limbs`). -/
theorem sha256_Sigma0_gate_rotations (l : Nat → Nat)
    (h10 : l 10 < 2 ^ 10) (h9 : l 9 < 2 ^ 9) (h11 : l 11 < 2 ^ 11) (h2 : l 2 < 2 ^ 2) :
    let A := pow2Ip Gen.sha256DecA.1 (Gen.sha256DecA.2.map l)
    A < 2 ^ 32 ∧
    Gen.sha256Sigma0Gate.map (fun g => pow2Ip g.1 (g.2.map l))
      = [rotr 32 A 2, rotr 32 A 13, rotr 32 A 22] := by
  simp only [Gen.sha256DecA, Gen.sha256Sigma0Gate, pow2Ip, rotr, List.map, List.zipWith, List.foldl]
  generalize l 10 = a at *
  generalize l 9 = b at *
  generalize l 11 = c at *
  generalize l 2 = d at *
  norm_num
  refine ⟨by omega, by omega, by omega, by omega⟩

/-- Same for the `Σ₁(E)` gate: limbs 7-12-2-5-6, rotations by 6, 11 and 25 bits (FIPS 180-4 (4.5)). -/
theorem sha256_Sigma1_gate_rotations (l : Nat → Nat)
    (h7 : l 7 < 2 ^ 7) (h12 : l 12 < 2 ^ 12) (h2 : l 2 < 2 ^ 2) (h5 : l 5 < 2 ^ 5) (h6 : l 6 < 2 ^ 6) :
    let E := pow2Ip Gen.sha256DecE.1 (Gen.sha256DecE.2.map l)
    E < 2 ^ 32 ∧
    Gen.sha256Sigma1Gate.map (fun g => pow2Ip g.1 (g.2.map l))
      = [rotr 32 E 6, rotr 32 E 11, rotr 32 E 25] := by
  simp only [Gen.sha256DecE, Gen.sha256Sigma1Gate, pow2Ip, rotr, List.map, List.zipWith, List.foldl]
  generalize l 7 = a at *
  generalize l 12 = b at *
  generalize l 2 = c at *
  generalize l 5 = d at *
  generalize l 6 = e at *
  norm_num
  refine ⟨by omega, by omega, by omega, by omega⟩

/-- **Σ₀ gate soundness** (`sha256_chip.rs`, gate `Σ₀(A)`, tables generated from the source). Let the
limbs of `A` (10-9-11-2, range-checked by the lookups, `l b` = limb of `b` bits) and two 32-bit words
`evn`, `odd` (recomposed from looked-up 11-11-10 limbs) satisfy the gate identity
`Σ_rot Σᵢ 4^eᵢ·~limbᵢ = ~evn + 2·~odd`. Then `evn = Σ₀(A) = (A ⋙ 2) ⊕ (A ⋙ 13) ⊕ (A ⋙ 22)`: the
gate leaves the prover no choice for the output word. -/
theorem sha256_Sigma0_gate_sound (k iv : List Nat) (l : Nat → Nat)
    (h10 : l 10 < 2 ^ 10) (h9 : l 9 < 2 ^ 9) (h11 : l 11 < 2 ^ 11) (h2 : l 2 < 2 ^ 2)
    (evn odd : Nat) (he : evn < 2 ^ 32) (ho : odd < 2 ^ 32)
    (hgate : (Gen.sha256Sigma0Gate.map (fun g => pow4Ip g.1 (g.2.map (fun b => spreadFuel b (l b))))).foldl
        (· + ·) 0 = spreadFuel 32 evn + 2 * spreadFuel 32 odd) :
    evn = (sha256P k iv).bigSigma0 (pow2Ip Gen.sha256DecA.1 (Gen.sha256DecA.2.map l)) := by
  obtain ⟨hA, hrot⟩ := sha256_Sigma0_gate_rotations l h10 h9 h11 h2
  set A := pow2Ip Gen.sha256DecA.1 (Gen.sha256DecA.2.map l) with hAdef
  -- each inner product of spreaded limbs is the spread of the corresponding rotation
  have hb : ∀ ka ∈ [(11, l 11), (9, l 9), (10, l 10), (2, l 2)], ka.2 < 2 ^ ka.1 := by
    intro ka hka; simp at hka; rcases hka with rfl | rfl | rfl | rfl <;> assumption
  have hb2 : ∀ ka ∈ [(9, l 9), (10, l 10), (2, l 2), (11, l 11)], ka.2 < 2 ^ ka.1 := by
    intro ka hka; simp at hka; rcases hka with rfl | rfl | rfl | rfl <;> assumption
  have hb3 : ∀ ka ∈ [(10, l 10), (2, l 2), (11, l 11), (9, l 9)], ka.2 < 2 ^ ka.1 := by
    intro ka hka; simp at hka; rcases hka with rfl | rfl | rfl | rfl <;> assumption
  have s1 := spread_concatLE _ hb
  have s2 := spread_concatLE _ hb2
  have s3 := spread_concatLE _ hb3
  simp only [Gen.sha256Sigma0Gate, List.map, pow2Ip, List.zipWith, List.foldl, List.cons.injEq, and_true] at hrot
  obtain ⟨r1, r2, r3⟩ := hrot
  simp only [Gen.sha256Sigma0Gate, List.map, pow4Ip, List.zipWith, List.foldl] at hgate
  simp only [bitsTotal, concatLE, spreadConcat] at s1 s2 s3
  have e1 : spreadFuel 32 (rotr 32 A 2) = 4 ^ 30 * spreadFuel 2 (l 2) + 4 ^ 20 * spreadFuel 10 (l 10)
      + 4 ^ 11 * spreadFuel 9 (l 9) + 4 ^ 0 * spreadFuel 11 (l 11) := by
    rw [← r1]
    have : 0 + 2 ^ 30 * l 2 + 2 ^ 20 * l 10 + 2 ^ 11 * l 9 + 2 ^ 0 * l 11
        = l 11 + 2 ^ 11 * (l 9 + 2 ^ 9 * (l 10 + 2 ^ 10 * (l 2 + 2 ^ 2 * 0))) := by ring
    rw [this]
    have hs : (11 + (9 + (10 + (2 + 0)))) = 32 := rfl
    rw [hs] at s1
    rw [s1]; ring
  have e2 : spreadFuel 32 (rotr 32 A 13) = 4 ^ 21 * spreadFuel 11 (l 11) + 4 ^ 19 * spreadFuel 2 (l 2)
      + 4 ^ 9 * spreadFuel 10 (l 10) + 4 ^ 0 * spreadFuel 9 (l 9) := by
    rw [← r2]
    have : 0 + 2 ^ 21 * l 11 + 2 ^ 19 * l 2 + 2 ^ 9 * l 10 + 2 ^ 0 * l 9
        = l 9 + 2 ^ 9 * (l 10 + 2 ^ 10 * (l 2 + 2 ^ 2 * (l 11 + 2 ^ 11 * 0))) := by ring
    rw [this]
    have hs : (9 + (10 + (2 + (11 + 0)))) = 32 := rfl
    rw [hs] at s2
    rw [s2]; ring
  have e3 : spreadFuel 32 (rotr 32 A 22) = 4 ^ 23 * spreadFuel 9 (l 9) + 4 ^ 12 * spreadFuel 11 (l 11)
      + 4 ^ 10 * spreadFuel 2 (l 2) + 4 ^ 0 * spreadFuel 10 (l 10) := by
    rw [← r3]
    have : 0 + 2 ^ 23 * l 9 + 2 ^ 12 * l 11 + 2 ^ 10 * l 2 + 2 ^ 0 * l 10
        = l 10 + 2 ^ 10 * (l 2 + 2 ^ 2 * (l 11 + 2 ^ 11 * (l 9 + 2 ^ 9 * 0))) := by ring
    rw [this]
    have hs : (10 + (2 + (11 + (9 + 0)))) = 32 := rfl
    rw [hs] at s3
    rw [s3]; ring
  have hlt : ∀ r, 0 < r → r < 32 → rotr 32 A r < 2 ^ 32 := fun r _ hr => rotr_lt 32 A r hA (by omega)
  have hsum : spreadFuel 32 (rotr 32 A 2) + spreadFuel 32 (rotr 32 A 13) + spreadFuel 32 (rotr 32 A 22)
      = spreadFuel 32 evn + 2 * spreadFuel 32 odd := by
    rw [e1, e2, e3, ← hgate]; ring
  have := spread_sum_even_odd 32 _ _ _ evn odd (hlt 2 (by omega) (by omega)) (hlt 13 (by omega) (by omega))
    (hlt 22 (by omega) (by omega)) he ho hsum
  rw [this.1]
  rfl

/-- Spread of a limb concatenation: `~(a + 2^k·b) = ~a + 4^k·~b` — why `expr_pow4_ip` on spreaded limbs
with the exponents of `expr_pow2_ip` is the spread of the recomposed word. -/
theorem spread_concat_limbs (k n a b : Nat) (ha : a < 2 ^ k) :
    spreadFuel (k + n) (a + 2 ^ k * b) = spreadFuel k a + 4 ^ k * spreadFuel n b :=
  spread_concat k n a b ha

/-- The plain-spreaded lookup tables only offer limb sizes that keep three-term sums of spreads
inside the native field (`3·4^13 < p`), and contain the sizes the gates use. -/
theorem lookup_lengths_ok :
    Gen.sha256LookupLengths.all (fun n => decide (0 < n ∧ n ≤ 12)) = true ∧
    Gen.sha512LookupLengths.all (fun n => decide (0 < n ∧ n ≤ 13)) = true ∧
    [10, 9, 11, 2, 7, 12, 5, 6, 3, 4].all (fun n => Gen.sha256LookupLengths.contains n) = true ∧
    7 * 2 ^ 64 < Gen.p ∧ 3 * 4 ^ 64 < Gen.p := by
  decide +kernel

/-! ## SHA-256 chip wiring: emitter, generated gates, soundness for every assignment

`Model/C07/ShaChip.lean` mirrors `sha256_chip.rs` as an emitter of regions (selectors, tag cells,
advice cells, copy constraints); its output is compared line by line with the recorded real synthesis
on every run. `Gen/C07ShaGates.lean` holds the gate polynomials dumped from the real
`Sha256Chip::configure`. The theorems below are about ANY assignment `a` of all cells (values are
canonical representatives `< p`): if it satisfies the gates (modulo `p`), the lookups and the copy
constraints of the emitted regions (`TraceSat`), the output cells hold the FIPS 180-4 values. `p` is
any prime `≥ 2^66` (the native modulus is one: `sha256_chip_gates_shape`; its primality is C10's
`blsR_prime`). -/

section ShaChip
open Chip

/-- Shape of the generated constraint system of the chip: the two lookups read `(T_i, A_{2i}, A_{2i+1})`
(the columns the emitter and `Sat` use), the logical advice columns are a permutation of the eight
shared columns, the native modulus is the one of the Poseidon constants and exceeds `2^66` (no
wrap-around in any gate of the chip), and the plain-spreaded table only has tags `≤ 12`. -/
theorem sha256_chip_gates_shape :
    Gen.shaLookups = [(0, 0, 1), (1, 2, 3)] ∧ Gen.shaFixedCols = [0, 1] ∧
    (List.range 8).all (fun c => Gen.shaAdvCols.count c == 1) = true ∧ Gen.shaAdvCols.length = 8 ∧
    Gen.shaModulus = Gen.p ∧ 2 ^ 66 ≤ Gen.shaModulus ∧
    (Gen.shaGates .lookup).length = 0 ∧ (Gen.shaGates .dW).length = 4 ∧ (Gen.shaGates .halfch).length = 2 := by
  decide +kernel

/-- **The loaded table.** Every row `(tag, plain, spreaded)` of the model of `gen_spread_table` (compared
row by row with the table the real chip loads) satisfies the predicate `InTable` the soundness theorems
assume of a lookup: `plain < 2^tag` and `spreaded = spread(plain)`. -/
theorem sha256_spread_table_spec :
    ∀ g ∈ spreadTable Gen.sha256LookupLengths, ∀ r ∈ g.2, InTable g.1 r.1 r.2 := by
  intro g hg r hr
  simp only [spreadTable, List.mem_cons, List.mem_map] at hg
  rcases hg with rfl | ⟨len, hlen, rfl⟩
  · simp only [List.mem_cons, List.mem_nil_iff, or_false] at hr
    subst hr
    exact ⟨by norm_num, rfl⟩
  · simp only [List.mem_map, List.mem_range] at hr
    obtain ⟨i, hi, rfl⟩ := hr
    have hl : len ≤ 32 := by
      have h := lookup_lengths_ok.1
      have := List.all_eq_true.mp h len hlen
      simp at this
      omega
    exact ⟨hi, spread32_of_lt hl hi⟩

/-- **Per-operation soundness** (one region each): `Maj`, `Ch`, `Σ₀`, `Σ₁`, `σ₀`, `σ₁` return the FIPS 180-4
function of the words held by their (copied) inputs; `prepare_A`, `prepare_E`, `prepare_message_word`
return the sum of their summands modulo `2^32` together with consistent spreaded form and limbs. In
`Ch` the prover-chosen cell `~(¬E)` is forced by `~E + ~(¬E) = MASK_EVN_64`; in `prepare_*` the carry is
forced by the tag-3 lookup and the result by the limb lookups; the 1-bit limbs of a message word by the
bit checks (prime field). -/
theorem sha256_ops_sound {p : Nat} {a : Asg} (hpr : Nat.Prime p) (hp : 2 ^ 66 ≤ p) (ha : ∀ c, a c < p)
    (kk ivv : List Nat) (k : Nat) :
    (∀ sA sB sC x y z, Sat p Gen.shaGates a k (Chip.maj k sA sB sC).1 → IsSpr a sA x → IsSpr a sB y →
      IsSpr a sC z → IsPlain a (Chip.maj k sA sB sC).2 (C07.maj x y z)) ∧
    (∀ sE sF sG x y z, Sat p Gen.shaGates a k (Chip.ch k sE sF sG).1 → IsSpr a sE x → IsSpr a sF y →
      IsSpr a sG z → IsPlain a (Chip.ch k sE sF sG).2 (C07.ch 32 x y z)) ∧
    (∀ ar x, Sat p Gen.shaGates a k (Sigma0 k ar).1 → AInv a ar x →
      IsPlain a (Sigma0 k ar).2 ((sha256P kk ivv).bigSigma0 x)) ∧
    (∀ er x, Sat p Gen.shaGates a k (Sigma1 k er).1 → EInv a er x →
      IsPlain a (Sigma1 k er).2 ((sha256P kk ivv).bigSigma1 x)) ∧
    (∀ wr x, Sat p Gen.shaGates a k (sigma0 k wr).1 → WInv a wr x →
      IsPlain a (sigma0 k wr).2 ((sha256P kk ivv).smallSigma0 x)) ∧
    (∀ wr x, Sat p Gen.shaGates a k (sigma1 k wr).1 → WInv a wr x →
      IsPlain a (sigma1 k wr).2 ((sha256P kk ivv).smallSigma1 x)) ∧
    (∀ ss, Sat p Gen.shaGates a k (prepareA k ss).1 → (∀ i, i < 7 → get a (summand ss i) < 2 ^ 32) →
      AInv a (prepareA k ss).2 (sum7 a ss % 2 ^ 32)) ∧
    (∀ ss, Sat p Gen.shaGates a k (prepareE k ss).1 → (∀ i, i < 7 → get a (summand ss i) < 2 ^ 32) →
      EInv a (prepareE k ss).2 (sum7 a ss % 2 ^ 32)) ∧
    (∀ ss, Sat p Gen.shaGates a k (prepareW k ss).1 → (∀ i, i < 7 → get a (summand ss i) < 2 ^ 32) →
      WInv a (prepareW k ss).2 (sum7 a ss % 2 ^ 32)) :=
  ⟨fun _ _ _ _ _ _ h1 h2 h3 h4 => maj_sound hp ha h1 h2 h3 h4,
   fun _ _ _ _ _ _ h1 h2 h3 h4 => ch_sound hp ha h1 h2 h3 h4,
   fun _ _ h1 h2 => Sigma0_sound hp ha kk ivv h1 h2,
   fun _ _ h1 h2 => Sigma1_sound hp ha kk ivv h1 h2,
   fun _ _ h1 h2 => sigma0_sound hp ha kk ivv h1 h2,
   fun _ _ h1 h2 => sigma1_sound hp ha kk ivv h1 h2,
   fun _ h1 h2 => prepareA_sound hp ha h1 h2,
   fun _ h1 h2 => prepareE_sound hp ha h1 h2,
   fun _ h1 h2 => prepareW_sound hpr hp ha h1 h2⟩

/-- An honest witness of a `Maj` region (inputs in three external cells), as `spreaded_maj` /
`assign_sprdd_11_11_10` compute it. -/
def majWitness (x y z : Nat) : Asg := fun s =>
  match s with
  | .ext 0 => spread32 x
  | .ext 1 => spread32 y
  | .ext 2 => spread32 z
  | .reg 0 off col =>
    let lo := u32InBeLimbs (C07.maj x y z) [11, 11, 10]
    let le := u32InBeLimbs (x ^^^ y ^^^ z) [11, 11, 10]
    match col with
    | 0 => lo.getD off 0
    | 1 => spread32 (lo.getD off 0)
    | 2 => le.getD off 0
    | 3 => spread32 (le.getD off 0)
    | 4 => if off = 0 then C07.maj x y z else 0
    | 5 => if off = 0 then spread32 x else if off = 1 then spread32 z else 0
    | 6 => if off = 0 then spread32 y else 0
    | _ => 0
  | _ => 0

/-- Non-vacuity: the hypotheses of the per-operation theorems are satisfiable with the real modulus
and the generated gates (honest witness of a `Maj` region on non-trivial words; kernel evaluation of the
executable form of `Sat`), and the output cell holds `Maj`. For whole blocks the same executable check
is run on every region of the REAL prover's witness in the correspondence step (`sha256sat`). -/
example :
    Sat Gen.shaModulus Gen.shaGates (majWitness 0xdeadbeef 0x12345678 0x0f0f0ff1) 0
      (Chip.maj 0 (.ext 0) (.ext 1) (.ext 2)).1 ∧
    majWitness 0xdeadbeef 0x12345678 0x0f0f0ff1 (.reg 0 0 4) = C07.maj 0xdeadbeef 0x12345678 0x0f0f0ff1 ∧
    C07.maj 0xdeadbeef 0x12345678 0x0f0f0ff1 ≠ 0 := by
  refine ⟨satB_sound ?_, ?_, ?_⟩ <;> decide +kernel

/-- **sha256_round_sound.** `compression_round` emits six regions (`Σ₀(a)`, `Maj(a,b,c)`, `Σ₁(e)`,
`Ch(e,f,g)`, `prepare_A`, `prepare_E`) wired by copy constraints. For EVERY assignment satisfying them:
if the cells of the incoming `CompressionState` hold the working variables `v` (plain, spreaded and
limb cells consistent: `StInv`), the message-word cell holds `wv < 2^32` and the round constant is a
32-bit word, then the cells of the returned state hold the FIPS 180-4 round function
`round v K_t W_t` (again with consistent spreaded forms and limbs, so that rounds compose). -/
theorem sha256_round_sound {p : Nat} {a : Asg} (hp : 2 ^ 66 ≤ p) (ha : ∀ c, a c < p) (kk ivv : List Nat)
    (k : Nat) (st : StRefs) (v : List Nat) (rk : Nat) (w : Src) (wv : Nat)
    (hS : TraceSat p Gen.shaGates a k (compressionRound k st rk w).1)
    (hst : StInv a st v) (hw : IsPlain a w wv) (hk : rk < 2 ^ 32) :
    StInv a (compressionRound k st rk w).2 ((sha256P kk ivv).round v rk wv) :=
  round_sound hp ha kk ivv hS hst hw hk

/-- **sha256_schedule_sound.** `message_schedule` (16 × `prepare_message_word` on the block words, then
for each of the 48 remaining words `σ₀`, `σ₁`, `prepare_message_word`): for every satisfying assignment
whose 16 block-word cells hold the 32-bit words `bv`, the 64 returned message words (with their limbs)
hold the FIPS 180-4 message schedule of `bv`. -/
theorem sha256_schedule_sound {p : Nat} {a : Asg} (hpr : Nat.Prime p) (hp : 2 ^ 66 ≤ p) (ha : ∀ c, a c < p)
    (kk ivv : List Nat) (k : Nat) (block : List Src) (bv : List Nat)
    (hb : List.Forall₂ (IsPlain a) block bv) (hlen : block.length = 16)
    (hS : TraceSat p Gen.shaGates a k (messageSchedule k block).1) :
    List.Forall₂ (WInv a) (messageSchedule k block).2 ((sha256P kk ivv).scheduleW bv) :=
  messageSchedule_sound hpr hp ha kk ivv hb hlen hS

/-- **sha256_block_sound.** One iteration of the block loop of `fn sha256` — 552 regions: message
schedule, 64 compression rounds (induction over the rounds), `CompressionState::add`. For every
satisfying assignment: chaining-state cells hold `v`, block-word cells hold `bv` ⇒ the cells of the new
chaining state hold `compress v bv` (FIPS 180-4 §6.2.2, on the block words). -/
theorem sha256_block_sound {p : Nat} {a : Asg} (hpr : Nat.Prime p) (hp : 2 ^ 66 ≤ p) (ha : ∀ c, a c < p)
    (kk ivv : List Nat) (hkk : ∀ t, kk.getD t 0 < 2 ^ 32) (k : Nat) (st : StRefs) (v : List Nat)
    (block : List Src) (bv : List Nat) (hv : v.length = 8) (hst : StInv a st v)
    (hb : List.Forall₂ (IsPlain a) block bv) (hlen : block.length = 16)
    (hS : TraceSat p Gen.shaGates a k (blockEmit kk k st block).1) :
    StInv a (blockEmit kk k st block).2 ((sha256P kk ivv).compressW v bv) :=
  block_sound hpr hp ha kk ivv hkk hv hst hb hlen hS

/-- **sha256_digest_sound.** The whole of `fn sha256` after padding, for any number `n` of blocks
(induction over the blocks), with the tables generated from the source: for every assignment that
satisfies all `552·n` emitted regions and whose external block-word cells are 32-bit words (they are
produced from range-checked bytes by the native gadget, C04), the eight cells returned by
`CompressionState::plain` hold the SHA-256 chaining value of the blocks `foldl compress IV blocks`,
where block `b` consists of the values of the external cells `16b … 16b+15`. What is not part of this
theorem: the conversion bytes ↔ words (`assigned_from_be_bytes`, `assigned_to_be_bytes` of the native
gadget) and the padding bytes (`sha256_padding_spec`); both are covered by the digest correspondence. -/
theorem sha256_digest_sound {p : Nat} {a : Asg} (hpr : Nat.Prime p) (hp : 2 ^ 66 ≤ p) (ha : ∀ c, a c < p)
    (hext : ∀ i, a (.ext i) < 2 ^ 32) (n : Nat)
    (hS : TraceSat p Gen.shaGates a 0 (emit Gen.sha256K Gen.sha256IV n).1) :
    (emit Gen.sha256K Gen.sha256IV n).2.plain.map (get a)
      = ((List.range' 0 n).map (extWords a)).foldl (sha256P Gen.sha256K Gen.sha256IV).compressW Gen.sha256IV := by
  have hkk : ∀ t, Gen.sha256K.getD t 0 < 2 ^ 32 := by
    intro t
    by_cases ht : t < 64
    · have : ∀ i, i < 64 → Gen.sha256K.getD i 0 < 2 ^ 32 := by decide +kernel
      exact this t ht
    · rw [List.getD_eq_default _ _ (by simp [Gen.sha256K]; omega)]; norm_num
  have hiv : ∀ i, Gen.sha256IV.getD i 0 < 2 ^ 32 := by
    intro i
    by_cases hi : i < 8
    · have : ∀ j, j < 8 → Gen.sha256IV.getD j 0 < 2 ^ 32 := by decide +kernel
      exact this i hi
    · rw [List.getD_eq_default _ _ (by simp [Gen.sha256IV]; omega)]; norm_num
  have h := blocks_sound hpr hp ha Gen.sha256K Gen.sha256IV hkk hext n 0 0 (StRefs.fixed Gen.sha256IV) Gen.sha256IV
    rfl (StInv_fixed hiv) hS
  rw [← chain_eq_foldl]
  refine StInv.plain_cells h ?_
  clear h hS
  have : ∀ (n b : Nat) (v : List Nat), v.length = 8 →
      (chain (sha256P Gen.sha256K Gen.sha256IV) a n b v).length = 8 := by
    intro n
    induction n with
    | zero => intro _ _ h; exact h
    | succ m ih => intro b v h; exact ih (b + 1) _ (compressW_length _ _ _ h)
  exact this n 0 _ rfl

/-- The emitted trace has `552·n` regions and the compression on words is the compression on bytes of
`Sha2.digest` (the reference function compared with RustCrypto and the chips on every run). -/
theorem sha256_emit_shape (h block : List Nat) :
    regionsPerBlock = 552 ∧
    (sha256P Gen.sha256K Gen.sha256IV).compress h block
      = (sha256P Gen.sha256K Gen.sha256IV).compressW h ((sha256P Gen.sha256K Gen.sha256IV).blockWords block) ∧
    (emit Gen.sha256K Gen.sha256IV 1).1.length = 552 ∧ (emit Gen.sha256K Gen.sha256IV 2).1.length = 1104 := by
  refine ⟨rfl, rfl, ?_, ?_⟩ <;> decide +kernel

/-- **sha256_digest_sound for the shipped field.** The native modulus of the running code
(`F::MODULUS`, dumped by the translator) is the BLS12-381 scalar modulus, which is prime (Lucas
certificate of C10) and larger than `2^66`: `sha256_digest_sound` holds for it without hypotheses on
the modulus. -/
theorem sha256_digest_sound_native {a : Asg} (ha : ∀ c, a c < Gen.shaModulus)
    (hext : ∀ i, a (.ext i) < 2 ^ 32) (n : Nat)
    (hS : TraceSat Gen.shaModulus Gen.shaGates a 0 (emit Gen.sha256K Gen.sha256IV n).1) :
    (emit Gen.sha256K Gen.sha256IV n).2.plain.map (get a)
      = ((List.range' 0 n).map (extWords a)).foldl (sha256P Gen.sha256K Gen.sha256IV).compressW Gen.sha256IV := by
  have hm : Gen.shaModulus = C10.blsR := by decide +kernel
  have hpr : Nat.Prime Gen.shaModulus := hm ▸ C10.blsR_prime
  exact sha256_digest_sound hpr (by decide +kernel) ha hext n hS

end ShaChip

/-! ## SHA-512 chip wiring: emitter, generated gates, soundness for every assignment

Same development for `sha512_chip.rs`: `Model/C07/Sha512Chip.lean` is the emitter (696 regions per block,
compared line by line with the recorded real synthesis), `Gen/C07Sha512Gates.lean` holds the gate
polynomials dumped from the real `Sha512Chip::configure`. 64-bit words, 13-13-13-13-12 limbs for the
even/odd halves, 13-12-5-6-13-13-2 (`A`), 13-10-13-10-4-13-1 (`E`) and 3-13-13-13-3-11-1-1-5-1 (message
word) operand limbs, 80 rounds. `p` is any prime `≥ 2^130` (three spreads of 64-bit words do not wrap). -/

section Sha512Chip
open Chip

/-- Shape of the generated constraint system of the SHA-512 chip: same lookup columns as the SHA-256 chip
(`(T_i, A_{2i}, A_{2i+1})`), the logical advice columns are a permutation of the eight shared columns, the
native modulus is the one of the Poseidon constants and exceeds `2^130`, and the numbers of polynomials per
gate are those the soundness proofs use. -/
theorem sha512_chip_gates_shape :
    Gen.sha512Lookups = [(0, 0, 1), (1, 2, 3)] ∧
    (List.range 8).all (fun c => Gen.sha512AdvCols.count c == 1) = true ∧ Gen.sha512AdvCols.length = 8 ∧
    Gen.sha512Modulus = Gen.p ∧ 2 ^ 130 ≤ Gen.sha512Modulus ∧
    (Gen.sha512Gates .lookup).length = 0 ∧ (Gen.sha512Gates .dW).length = 4 ∧
    (Gen.sha512Gates .halfch).length = 2 ∧ (Gen.sha512Gates .dA).length = 2 ∧ (Gen.sha512Gates .dE).length = 2 := by
  decide +kernel

/-- **The loaded table (SHA-512).** Every row `(tag, plain, spreaded)` of the model of
`sha512/utils.rs: gen_spread_table` (compared row by row with the table the real chip loads) satisfies
the predicate `InTable` assumed of a lookup: `plain < 2^tag` and `spreaded = spread(plain)`. -/
theorem sha512_spread_table_spec :
    ∀ g ∈ Chip512.spreadTable Gen.sha512LookupLengths, ∀ r ∈ g.2, InTable g.1 r.1 r.2 := by
  intro g hg r hr
  simp only [Chip512.spreadTable, List.mem_cons, List.mem_map] at hg
  rcases hg with rfl | ⟨len, hlen, rfl⟩
  · simp only [List.mem_cons, List.mem_nil_iff, or_false] at hr
    subst hr
    exact ⟨by norm_num, rfl⟩
  · simp only [List.mem_map, List.mem_range] at hr
    obtain ⟨i, hi, rfl⟩ := hr
    have hl : len ≤ 64 := by
      have h := lookup_lengths_ok.2.1
      have := List.all_eq_true.mp h len hlen
      simp at this
      omega
    exact ⟨hi, Chip512.spread64_of_lt hl hi⟩

/-- **Per-operation soundness, SHA-512** (one region each): `Maj`, `Ch`, `Σ₀`, `Σ₁`, `σ₀`, `σ₁` return the
FIPS 180-4 (§4.1.3) function of the 64-bit words held by their (copied) inputs; `prepare_A`, `prepare_E`,
`prepare_message_word` return the sum of their summands modulo `2^64` together with consistent spreaded
form and limbs — for EVERY assignment satisfying the generated gates, the lookups and the copy constraints
of the emitted region. -/
theorem sha512_ops_sound {p : Nat} {a : Asg} (hpr : Nat.Prime p) (hp : 2 ^ 130 ≤ p) (ha : ∀ c, a c < p)
    (kk ivv : List Nat) (k : Nat) :
    (∀ sA sB sC x y z, Sat p Gen.sha512Gates a k (Chip512.maj k sA sB sC).1 → Chip512.IsSpr a sA x →
      Chip512.IsSpr a sB y → Chip512.IsSpr a sC z → Chip512.IsPlain a (Chip512.maj k sA sB sC).2 (C07.maj x y z)) ∧
    (∀ sE sF sG x y z, Sat p Gen.sha512Gates a k (Chip512.ch k sE sF sG).1 → Chip512.IsSpr a sE x →
      Chip512.IsSpr a sF y → Chip512.IsSpr a sG z → Chip512.IsPlain a (Chip512.ch k sE sF sG).2 (C07.ch 64 x y z)) ∧
    (∀ ar x, Sat p Gen.sha512Gates a k (Chip512.Sigma0 k ar).1 → Chip512.AInv a ar x →
      Chip512.IsPlain a (Chip512.Sigma0 k ar).2 ((sha512P kk ivv).bigSigma0 x)) ∧
    (∀ er x, Sat p Gen.sha512Gates a k (Chip512.Sigma1 k er).1 → Chip512.EInv a er x →
      Chip512.IsPlain a (Chip512.Sigma1 k er).2 ((sha512P kk ivv).bigSigma1 x)) ∧
    (∀ wr x, Sat p Gen.sha512Gates a k (Chip512.sigma0 k wr).1 → Chip512.WInv a wr x →
      Chip512.IsPlain a (Chip512.sigma0 k wr).2 ((sha512P kk ivv).smallSigma0 x)) ∧
    (∀ wr x, Sat p Gen.sha512Gates a k (Chip512.sigma1 k wr).1 → Chip512.WInv a wr x →
      Chip512.IsPlain a (Chip512.sigma1 k wr).2 ((sha512P kk ivv).smallSigma1 x)) ∧
    (∀ ss, Sat p Gen.sha512Gates a k (Chip512.prepareA k ss).1 → (∀ i, i < 7 → get a (summand ss i) < 2 ^ 64) →
      Chip512.AInv a (Chip512.prepareA k ss).2 (sum7 a ss % 2 ^ 64)) ∧
    (∀ ss, Sat p Gen.sha512Gates a k (Chip512.prepareE k ss).1 → (∀ i, i < 7 → get a (summand ss i) < 2 ^ 64) →
      Chip512.EInv a (Chip512.prepareE k ss).2 (sum7 a ss % 2 ^ 64)) ∧
    (∀ ss, Sat p Gen.sha512Gates a k (Chip512.prepareW k ss).1 → (∀ i, i < 7 → get a (summand ss i) < 2 ^ 64) →
      Chip512.WInv a (Chip512.prepareW k ss).2 (sum7 a ss % 2 ^ 64)) :=
  ⟨fun _ _ _ _ _ _ h1 h2 h3 h4 => Chip512.maj_sound hp ha h1 h2 h3 h4,
   fun _ _ _ _ _ _ h1 h2 h3 h4 => Chip512.ch_sound hp ha h1 h2 h3 h4,
   fun _ _ h1 h2 => Chip512.Sigma0_sound hp ha kk ivv h1 h2,
   fun _ _ h1 h2 => Chip512.Sigma1_sound hp ha kk ivv h1 h2,
   fun _ _ h1 h2 => Chip512.sigma0_sound hp ha kk ivv h1 h2,
   fun _ _ h1 h2 => Chip512.sigma1_sound hp ha kk ivv h1 h2,
   fun _ h1 h2 => Chip512.prepareA_sound hp ha h1 h2,
   fun _ h1 h2 => Chip512.prepareE_sound hp ha h1 h2,
   fun _ h1 h2 => Chip512.prepareW_sound hpr hp ha h1 h2⟩

/-- An honest witness of a SHA-512 `Maj` region (inputs in three external cells), as `spreaded_maj` /
`assign_sprdd_13x4_12` compute it. -/
def maj512Witness (x y z : Nat) : Asg := fun s =>
  match s with
  | .ext 0 => Chip512.spread64 x
  | .ext 1 => Chip512.spread64 y
  | .ext 2 => Chip512.spread64 z
  | .reg 0 off col =>
    let lo := Chip512.u64InBeLimbs (C07.maj x y z) [13, 13, 13, 13, 12]
    let le := Chip512.u64InBeLimbs (x ^^^ y ^^^ z) [13, 13, 13, 13, 12]
    match col with
    | 0 => lo.getD off 0
    | 1 => Chip512.spread64 (lo.getD off 0)
    | 2 => le.getD off 0
    | 3 => Chip512.spread64 (le.getD off 0)
    | 4 => if off = 0 then C07.maj x y z else 0
    | 5 => if off = 0 then Chip512.spread64 x else if off = 1 then Chip512.spread64 z else 0
    | 6 => if off = 0 then Chip512.spread64 y else 0
    | _ => 0
  | _ => 0

/-- Non-vacuity: the hypotheses of the SHA-512 per-operation theorems are satisfiable with the real modulus
and the generated gates (honest witness of a `Maj` region on non-trivial 64-bit words), and the output cell
holds `Maj`. For whole blocks the same executable check is run on every region of the REAL prover's witness
in the correspondence step (`sha512sat`). -/
example :
    Sat Gen.sha512Modulus Gen.sha512Gates (maj512Witness 0xdeadbeef01234567 0x123456789abcdef0 0x0f0f0ff1f0f0f00e) 0
      (Chip512.maj 0 (.ext 0) (.ext 1) (.ext 2)).1 ∧
    maj512Witness 0xdeadbeef01234567 0x123456789abcdef0 0x0f0f0ff1f0f0f00e (.reg 0 0 4)
      = C07.maj 0xdeadbeef01234567 0x123456789abcdef0 0x0f0f0ff1f0f0f00e ∧
    C07.maj 0xdeadbeef01234567 0x123456789abcdef0 0x0f0f0ff1f0f0f00e ≠ 0 := by
  refine ⟨satB_sound ?_, ?_, ?_⟩ <;> decide +kernel

/-- **sha512_round_sound.** `compression_round` of `sha512_chip.rs` emits six regions (`Σ₀(a)`, `Maj(a,b,c)`,
`Σ₁(e)`, `Ch(e,f,g)`, `prepare_A`, `prepare_E`) wired by copy constraints. For EVERY assignment satisfying
them: if the cells of the incoming `CompressionState` hold the working variables `v` (`StInv`: plain,
spreaded and limb cells consistent), the message-word cell holds `wv < 2^64` and the round constant is a
64-bit word, then the cells of the returned state hold the FIPS 180-4 round function `round v K_t W_t`. -/
theorem sha512_round_sound {p : Nat} {a : Asg} (hp : 2 ^ 130 ≤ p) (ha : ∀ c, a c < p) (kk ivv : List Nat)
    (k : Nat) (st : Chip512.StRefs) (v : List Nat) (rk : Nat) (w : Src) (wv : Nat)
    (hS : TraceSat p Gen.sha512Gates a k (Chip512.compressionRound k st rk w).1)
    (hst : Chip512.StInv a st v) (hw : Chip512.IsPlain a w wv) (hk : rk < 2 ^ 64) :
    Chip512.StInv a (Chip512.compressionRound k st rk w).2 ((sha512P kk ivv).round v rk wv) :=
  Chip512.round_sound hp ha kk ivv hS hst hw hk

/-- **sha512_schedule_sound.** `message_schedule` (16 × `prepare_message_word` on the block words, then for
each of the 64 remaining words `σ₀`, `σ₁`, `prepare_message_word`): for every satisfying assignment whose 16
block-word cells hold the 64-bit words `bv`, the 80 returned message words (with their limbs) hold the
FIPS 180-4 message schedule of `bv`. -/
theorem sha512_schedule_sound {p : Nat} {a : Asg} (hpr : Nat.Prime p) (hp : 2 ^ 130 ≤ p) (ha : ∀ c, a c < p)
    (kk ivv : List Nat) (k : Nat) (block : List Src) (bv : List Nat)
    (hb : List.Forall₂ (Chip512.IsPlain a) block bv) (hlen : block.length = 16)
    (hS : TraceSat p Gen.sha512Gates a k (Chip512.messageSchedule k block).1) :
    List.Forall₂ (Chip512.WInv a) (Chip512.messageSchedule k block).2 ((sha512P kk ivv).scheduleW bv) :=
  Chip512.messageSchedule_sound hpr hp ha kk ivv hb hlen hS

/-- **sha512_block_sound.** One iteration of the block loop of `fn sha512` — 696 regions: message schedule,
80 compression rounds (induction over the rounds), `CompressionState::add`. For every satisfying
assignment: chaining-state cells hold `v`, block-word cells hold `bv` ⇒ the cells of the new chaining state
hold `compress v bv` (FIPS 180-4 §6.4.2, on the block words). -/
theorem sha512_block_sound {p : Nat} {a : Asg} (hpr : Nat.Prime p) (hp : 2 ^ 130 ≤ p) (ha : ∀ c, a c < p)
    (kk ivv : List Nat) (hkk : ∀ t, kk.getD t 0 < 2 ^ 64) (k : Nat) (st : Chip512.StRefs) (v : List Nat)
    (block : List Src) (bv : List Nat) (hv : v.length = 8) (hst : Chip512.StInv a st v)
    (hb : List.Forall₂ (Chip512.IsPlain a) block bv) (hlen : block.length = 16)
    (hS : TraceSat p Gen.sha512Gates a k (Chip512.blockEmit kk k st block).1) :
    Chip512.StInv a (Chip512.blockEmit kk k st block).2 ((sha512P kk ivv).compressW v bv) :=
  Chip512.block_sound hpr hp ha kk ivv hkk hv hst hb hlen hS

/-- **sha512_digest_sound.** The whole of `fn sha512` after padding, for any number `n` of blocks
(induction over the blocks), with the tables generated from the source: for every assignment that
satisfies all `696·n` emitted regions and whose external block-word cells are 64-bit words (they are
produced from range-checked bytes by the native gadget, C04), the eight cells returned by
`CompressionState::plain` hold the SHA-512 chaining value of the blocks `foldl compress IV blocks`, where
block `b` consists of the values of the external cells `16b … 16b+15`. Not part of this theorem: the
conversion bytes ↔ words of the native gadget and the padding bytes (`sha512_padding_spec`); both are
covered by the digest correspondence. -/
theorem sha512_digest_sound {p : Nat} {a : Asg} (hpr : Nat.Prime p) (hp : 2 ^ 130 ≤ p) (ha : ∀ c, a c < p)
    (hext : ∀ i, a (.ext i) < 2 ^ 64) (n : Nat)
    (hS : TraceSat p Gen.sha512Gates a 0 (Chip512.emit Gen.sha512K Gen.sha512IV n).1) :
    (Chip512.emit Gen.sha512K Gen.sha512IV n).2.plain.map (get a)
      = ((List.range' 0 n).map (extWords a)).foldl (sha512P Gen.sha512K Gen.sha512IV).compressW Gen.sha512IV := by
  have hkk : ∀ t, Gen.sha512K.getD t 0 < 2 ^ 64 := by
    intro t
    by_cases ht : t < 80
    · have : ∀ i, i < 80 → Gen.sha512K.getD i 0 < 2 ^ 64 := by decide +kernel
      exact this t ht
    · rw [List.getD_eq_default _ _ (by simp [Gen.sha512K]; omega)]; norm_num
  have hiv : ∀ i, Gen.sha512IV.getD i 0 < 2 ^ 64 := by
    intro i
    by_cases hi : i < 8
    · have : ∀ j, j < 8 → Gen.sha512IV.getD j 0 < 2 ^ 64 := by decide +kernel
      exact this i hi
    · rw [List.getD_eq_default _ _ (by simp [Gen.sha512IV]; omega)]; norm_num
  have h := Chip512.blocks_sound hpr hp ha Gen.sha512K Gen.sha512IV hkk hext n 0 0
    (Chip512.StRefs.fixed Gen.sha512IV) Gen.sha512IV rfl (Chip512.StInv_fixed hiv) hS
  rw [← chain_eq_foldl]
  refine Chip512.StInv.plain_cells h ?_
  clear h hS
  have : ∀ (n b : Nat) (v : List Nat), v.length = 8 →
      (chain (sha512P Gen.sha512K Gen.sha512IV) a n b v).length = 8 := by
    intro n
    induction n with
    | zero => intro _ _ h; exact h
    | succ m ih => intro b v h; exact ih (b + 1) _ (compressW_length _ _ _ h)
  exact this n 0 _ rfl

/-- The emitted SHA-512 trace has `696·n` regions and the compression on words is the compression on bytes
of `Sha2.digest` (the reference function compared with RustCrypto and the chips on every run). -/
theorem sha512_emit_shape (h block : List Nat) :
    Chip512.regionsPerBlock = 696 ∧
    (sha512P Gen.sha512K Gen.sha512IV).compress h block
      = (sha512P Gen.sha512K Gen.sha512IV).compressW h ((sha512P Gen.sha512K Gen.sha512IV).blockWords block) ∧
    (Chip512.emit Gen.sha512K Gen.sha512IV 1).1.length = 696 ∧
    (Chip512.emit Gen.sha512K Gen.sha512IV 2).1.length = 1392 := by
  refine ⟨rfl, rfl, ?_, ?_⟩ <;> decide +kernel

/-- **sha512_digest_sound for the shipped field.** The native modulus of the running code (`F::MODULUS`,
dumped by the translator from the SHA-512 configuration) is the BLS12-381 scalar modulus, which is prime
(Lucas certificate of C10) and larger than `2^130`: `sha512_digest_sound` holds for it without hypotheses
on the modulus. -/
theorem sha512_digest_sound_native {a : Asg} (ha : ∀ c, a c < Gen.sha512Modulus)
    (hext : ∀ i, a (.ext i) < 2 ^ 64) (n : Nat)
    (hS : TraceSat Gen.sha512Modulus Gen.sha512Gates a 0 (Chip512.emit Gen.sha512K Gen.sha512IV n).1) :
    (Chip512.emit Gen.sha512K Gen.sha512IV n).2.plain.map (get a)
      = ((List.range' 0 n).map (extWords a)).foldl (sha512P Gen.sha512K Gen.sha512IV).compressW Gen.sha512IV := by
  have hm : Gen.sha512Modulus = C10.blsR := by decide +kernel
  have hpr : Nat.Prime Gen.sha512Modulus := hm ▸ C10.blsR_prime
  exact sha512_digest_sound hpr (by decide +kernel) ha hext n hS

end Sha512Chip

/-! ## RIPEMD-160 chip wiring: emitter, generated gates, soundness of every operation for every assignment

`Model/C07/RipemdChip.lean` mirrors `ripemd160_chip.rs` (+ `utils.rs: limb_lengths, limb_coeffs`) function by
function as an emitter of regions (1541 regions for one block; selectors, ALL fixed cells — lookup tags and
the coefficient cells `T2 … T5` of the left-rotation gate —, advice cells, copy constraints incl. the
`assert_equal` of `prepare_spreaded`); its output is compared line by line with the recorded real synthesis
on every run. `Gen/C07RmdGates.lean` holds the gate polynomials dumped from the real
`RipeMD160Chip::configure` (the rotation gate queries fixed columns). The theorems are about ANY assignment
`a` of all advice cells (canonical representatives `< p`, `p ≥ 2^66`). -/

section RmdChip
open Chip ChipR

/-- Shape of the generated constraint system of the RIPEMD-160 chip: the two lookups read
`(T_i, A_{2i}, A_{2i+1})`, the logical advice columns are a permutation of the eight shared columns, six
fixed columns, the native modulus is the one of the Poseidon constants and exceeds `2^66`, and the numbers
of polynomials per gate are those the soundness proofs use. -/
theorem ripemd_chip_gates_shape :
    Gen.rmdLookups = [(0, 0, 1), (1, 2, 3)] ∧
    (List.range 8).all (fun c => Gen.rmdAdvCols.count c == 1) = true ∧ Gen.rmdAdvCols.length = 8 ∧
    Gen.rmdFixedCols = [0, 1, 2, 3, 4, 5] ∧
    Gen.rmdModulus = Gen.p ∧ 2 ^ 66 ≤ Gen.rmdModulus ∧
    (Gen.rmdGates .lookup).length = 0 ∧ (Gen.rmdGates .rot).length = 2 ∧ (Gen.rmdGates .d11).length = 1 ∧
    (Gen.rmdGates .sumEvn).length = 1 ∧ (Gen.rmdGates .sumOdd).length = 1 ∧ (Gen.rmdGates .add).length = 1 ∧
    (Gen.rmdGates .modadd).length = 1 := by
  decide +kernel

/-- **The loaded table.** Every row `(tag, plain, spreaded)` of the model of `ripemd160/utils.rs:
gen_spread_table` (tags `0 … 11`; compared row by row with the table the real chip loads) satisfies the
predicate `InTable` the soundness theorems assume of a lookup. -/
theorem ripemd_spread_table_spec :
    ∀ g ∈ ChipR.spreadTable, ∀ r ∈ g.2, InTable g.1 r.1 r.2 := by
  intro g hg r hr
  simp only [ChipR.spreadTable, List.mem_map, List.mem_range] at hg
  obtain ⟨len, hlen, rfl⟩ := hg
  simp only [List.mem_map, List.mem_range] at hr
  obtain ⟨i, hi, rfl⟩ := hr
  exact ⟨hi, spread32_of_lt (by omega) hi⟩

/-- **`prepare_spreaded`** (with its `assert_equal`): WHATEVER the word cell holds, it is a 32-bit word and the
returned cell holds its spreaded form (the odd limbs are copy-constrained to the fixed zero, the lookups
then force `~0 = 0`, the `spr_sum_evn` and `11-11-10` gates do the rest). This is where every operand of
`f` gets its range check. -/
theorem ripemd_prepare_spreaded_sound {p : Nat} {a : Asg} {k : Nat} (hp : 2 ^ 66 ≤ p) (ha : ∀ c, a c < p)
    {w : Src} {x : Nat} (hS : ChipR.Sat p Gen.rmdGates a k (prepareSpreaded k w).1) (hW : get a w = x) :
    IsSpr a (prepareSpreaded k w).2 x :=
  prepareSpreaded_sound hp ha hS hW

/-- **The boolean building blocks**: `f_type_one` returns `X ⊕ Y ⊕ Z`, `and` returns `X ∧ Y`, `f_type_two`
returns `(X ∧ Y) ∨ (¬X ∧ Z)` (the prover-chosen `~(¬X)` is forced by `~X + ~(¬X) = MASK_EVN_64`),
`f_type_three` (five regions; `~(¬Y)` comes from the native gadget's `linear_combination`, stated interface
`hLC`) returns `(X ∨ ¬Y) ⊕ Z`. -/
theorem ripemd_f_types_sound {p : Nat} {a : Asg} {k : Nat} (hp : 2 ^ 66 ≤ p) (ha : ∀ c, a c < p)
    {sX sY sZ : Src} {x y z : Nat} (hX : IsSpr a sX x) (hY : IsSpr a sY y) (hZ : IsSpr a sZ z) :
    (ChipR.Sat p Gen.rmdGates a k (fTypeOne k sX sY sZ).1 → IsPlain a (fTypeOne k sX sY sZ).2 (x ^^^ y ^^^ z)) ∧
    (ChipR.Sat p Gen.rmdGates a k (ChipR.and k sX sY).1 → IsPlain a (ChipR.and k sX sY).2 (x &&& y)) ∧
    (ChipR.Sat p Gen.rmdGates a k (fTypeTwo k sX sY sZ).1 → IsPlain a (fTypeTwo k sX sY sZ).2 (Rmd.f 1 x y z)) ∧
    (∀ xi, ChipR.TraceSat p Gen.rmdGates a k (fTypeThree k xi sX sY sZ).1 →
      a (.ext xi) + get a sY = maskEvn64 → IsPlain a (fTypeThree k xi sX sY sZ).2 (Rmd.f 2 x y z)) :=
  ⟨fun h => fTypeOne_sound hp ha h hX hY hZ, fun h => and_sound hp ha h hX hY,
   fun h => fTypeTwo_sound hp ha h hX hY hZ, fun xi h l => fTypeThree_sound hp ha h hX hY hZ l⟩

/-- Non-vacuity: the hypotheses are satisfiable with the real modulus and the generated gates (honest witness
of an `and` region on non-trivial words; kernel evaluation of the executable form of `Sat`), and the output
cell holds `x ∧ y`. For whole blocks the executable check `satFailures` is run on every region of the REAL
prover's witness in the correspondence step (`rmdsat`, 1541 regions per block). -/
example :
    ChipR.Sat Gen.rmdModulus Gen.rmdGates (andWitness 0xdeadbeef 0x12345678) 0 (ChipR.and 0 (.ext 0) (.ext 1)).1 ∧
    andWitness 0xdeadbeef 0x12345678 (.reg 0 0 4) = 0xdeadbeef &&& 0x12345678 ∧
    (0xdeadbeef &&& 0x12345678) ≠ 0 := by
  refine ⟨ChipR.satB_sound ?_, ?_, ?_⟩ <;> decide +kernel

/-- **`fn f(idx, X, Y, Z)` for every round index `idx < 80`** (left line `idx = j`, right line `idx = 79 − j`):
for every assignment satisfying the 4 (types one/two) or 8 (type three) emitted regions, WHATEVER the three
input cells hold, they hold 32-bit words and the returned cell holds the RIPEMD-160 function
`f_{idx/16}(X, Y, Z)` of the reference (`Rmd.f`). `hLC` is the interface of the one native
`linear_combination` call a type-three `f` makes (its output cell plus `~Y` is `MASK_EVN_64`). -/
theorem ripemd_f_sound {p : Nat} {a : Asg} (hp : 2 ^ 66 ≤ p) (ha : ∀ c, a c < p) (em : Em) {idx : Nat}
    (hidx : idx < 80) {X Y Z : Src} {x y z : Nat}
    (hS : ChipR.TraceSat p Gen.rmdGates a em.k (fEmit em idx X Y Z).1)
    (hX : get a X = x) (hY : get a Y = y) (hZ : get a Z = z)
    (hLC : ∀ sY, (em.x, sY) ∈ (fEmit em idx X Y Z).2.2.lcs → a (.ext em.x) + get a sY = maskEvn64) :
    IsPlain a (fEmit em idx X Y Z).2.1 (Rmd.f (idx / 16) x y z) ∧ x < 2 ^ 32 ∧ y < 2 ^ 32 ∧ z < 2 ^ 32 :=
  fEmit_sound hp ha em hidx hS hX hY hZ hLC

/-- **`left_rotate`** for every rotation amount the chip uses (`5 ≤ rot ≤ 15`: all entries of `S`, `S_PRIME`
and the constant 10): the four limb lookups with the tags of `limb_lengths(rot)` and the two identities of the
`left rotation` gate with the FIXED coefficient cells of `limb_coeffs(rot)` (evaluated from the model of
`utils.rs`, whose values are compared cell by cell with the real synthesis) force the returned cell to hold
the word rotated left by `rot` bits. -/
theorem ripemd_left_rotate_sound {p : Nat} {a : Asg} {k : Nat} (hp : 2 ^ 66 ≤ p) (ha : ∀ c, a c < p)
    {w : Src} {x rot : Nat} (h5 : 5 ≤ rot) (h15 : rot ≤ 15)
    (hS : ChipR.Sat p Gen.rmdGates a k (leftRotate k w rot).1) (hW : IsPlain a w x) :
    IsPlain a (leftRotate k w rot).2 (rotl 32 x rot) :=
  leftRotate_sound hp ha h5 h15 hS hW

/-- Every rotation amount of the generated tables `S`, `S_PRIME` is in the range `5 … 15` covered by
`ripemd_left_rotate_sound` (and so is the constant `10`). -/
theorem ripemd_rotation_amounts_covered :
    (Gen.rmdS ++ Gen.rmdSPrime).all (fun row => row.all (fun s => decide (5 ≤ s ∧ s ≤ 15))) = true := by
  decide +kernel

/-- **`add_mod_2_32`** (up to four summands, padded with the fixed zero): the carry is range-checked by the
tag-2 lookup, the result by its 11-11-10 limb lookups, so the returned cell holds the sum modulo `2^32`. -/
theorem ripemd_add_mod_sound {p : Nat} {a : Asg} {k : Nat} (hp : 2 ^ 66 ≤ p) (ha : ∀ c, a c < p)
    {s0 s1 s2 s3 : Src} {x0 x1 x2 x3 : Nat}
    (hS : ChipR.Sat p Gen.rmdGates a k (ChipR.addMod k [s0, s1, s2, s3]).1)
    (h0 : IsPlain a s0 x0) (h1 : IsPlain a s1 x1) (h2 : IsPlain a s2 x2) (h3 : IsPlain a s3 x3) :
    IsPlain a (ChipR.addMod k [s0, s1, s2, s3]).2 ((x0 + x1 + x2 + x3) % 2 ^ 32) :=
  addMod_sound hp ha hS h0 h1 h2 h3

/-- Fewer than four summands: the emitter pads with the fixed zero exactly as `summands.resize(4, &zero)`. -/
theorem ripemd_add_mod_padding (k : Nat) (s0 s1 s2 : Src) :
    ChipR.addMod k [s0, s1] = ChipR.addMod k [s0, s1, zero, zero] ∧ ChipR.addMod k [s0, s1, s2] = ChipR.addMod k [s0, s1, s2, zero] :=
  ⟨rfl, rfl⟩

/-- **ripemd160_digest_sound_partial.** What is proved of the chain "gates → digest" for the RIPEMD-160 chip:
every ingredient of one step `T = rol_s(A ⊞ f(B,C,D) ⊞ X ⊞ K) ⊞ E; C' = rol_10(C)` of either line — the
function `f` of any round (incl. the range of its operands), the two modular additions and the two rotations
— is sound for every satisfying assignment. MISSING for `ripemd160_digest_sound`: threading these through
`halfRound` / `roundEmit` (regions of one step split by `TraceSat`), the induction over the 80 rounds against
`Rmd.line`, the final state addition of `process_block` and the induction over the blocks. -/
theorem ripemd160_digest_sound_partial {p : Nat} {a : Asg} (hp : 2 ^ 66 ≤ p) (ha : ∀ c, a c < p) :
    (∀ (em : Em) (idx : Nat) (X Y Z : Src), idx < 80 →
      ChipR.TraceSat p Gen.rmdGates a em.k (fEmit em idx X Y Z).1 →
      (∀ sY, (em.x, sY) ∈ (fEmit em idx X Y Z).2.2.lcs → a (.ext em.x) + get a sY = maskEvn64) →
      IsPlain a (fEmit em idx X Y Z).2.1 (Rmd.f (idx / 16) (get a X) (get a Y) (get a Z))) ∧
    (∀ (k : Nat) (w : Src) (x rot : Nat), 5 ≤ rot → rot ≤ 15 →
      ChipR.Sat p Gen.rmdGates a k (leftRotate k w rot).1 → IsPlain a w x →
      IsPlain a (leftRotate k w rot).2 (rotl 32 x rot)) ∧
    (∀ (k : Nat) (s0 s1 s2 s3 : Src) (x0 x1 x2 x3 : Nat),
      ChipR.Sat p Gen.rmdGates a k (ChipR.addMod k [s0, s1, s2, s3]).1 →
      IsPlain a s0 x0 → IsPlain a s1 x1 → IsPlain a s2 x2 → IsPlain a s3 x3 →
      IsPlain a (ChipR.addMod k [s0, s1, s2, s3]).2 ((x0 + x1 + x2 + x3) % 2 ^ 32)) :=
  ⟨fun em _ _ _ _ hidx hS hLC => (fEmit_sound hp ha em hidx hS rfl rfl rfl hLC).1,
   fun _ _ _ _ h5 h15 hS hW => leftRotate_sound hp ha h5 h15 hS hW,
   fun _ _ _ _ _ _ _ _ _ hS h0 h1 h2 h3 => addMod_sound hp ha hS h0 h1 h2 h3⟩

end RmdChip

end MidnightZK.C07

