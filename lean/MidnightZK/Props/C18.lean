import MidnightZK.Proofs.C18.Fail
import MidnightZK.Proofs.C18.Bound
import MidnightZK.Gen.C18Tables
import MidnightZK.Gen.C18Serde
import MidnightZK.Proofs.C18.JsonRoundTrip
import MidnightZK.Proofs.C18.Compare
/-!
# C18 — ZKIR: off-circuit evaluation and the compiled circuit agree on every program

Property theorems about the executable model of `MidnightZK/Model/C18` (helper lemmas in
`MidnightZK/Proofs/C18`). The model is compared with the real `midnight-zkir` code on every run
of the check (harness `h-c18`, driver `mzk-c18`).
-/
namespace MidnightZK.C18

/-! ## Tables regenerated from the Rust sources -/

/-- Rust name of an operation (its `Debug` head). -/
def Op.name : Op → String
  | .load _ => "Load" | .publish => "Publish" | .assertEq => "AssertEqual"
  | .assertNe => "AssertNotEqual" | .isEq => "IsEqual" | .add => "Add" | .sub => "Sub"
  | .mul => "Mul" | .neg => "Neg" | .modExp _ => "ModExp" | .innerProduct => "InnerProduct"
  | .affine => "AffineCoordinates" | .intoBytes _ => "IntoBytes" | .fromBytes _ => "FromBytes"
  | .poseidon => "Poseidon" | .sha256 => "Sha256" | .sha512 => "Sha512"

def Arity.str : Arity → String
  | .fixed n => s!"fixed {n}" | .some => "some" | .someEven => "someEven"

/-- Position of a name in a generated table. -/
def indexOf (n : String) (l : List (String × String)) : Option Nat :=
  (l.map (·.1)).idxOf? n

/-- The model's arity table is the one written in `zkir/src/instructions/arity.rs` today (the
right-hand sides are parsed from the source by the translator on every run): every one of the 17
operations, whatever its parameter, has the input and output arity the source declares. -/
theorem arity_table_matches_source (op : Op) :
    (op.name, op.inputArity.str) ∈ Gen.inputArity ∧ (op.name, op.outputArity.str) ∈ Gen.outputArity := by
  cases op <;> simp only [Op.name, Op.inputArity, Op.outputArity] <;> decide

/-- The variant index the model's binary encoder writes for an operation / a type is the
position of that variant in the Rust `enum` (bincode's derived encoding), and the source still
has exactly 17 operations and 6 types. -/
theorem bincode_variant_indices_match_source (op : Op) :
    (encOp op).head? = indexOf op.name Gen.operations ∧ Gen.operations.length = 17
      ∧ Gen.irTypes.length = 6 := by
  cases op <;> simp only [Op.name, encOp, List.head?_cons] <;> decide

/-- Same for the type tags. -/
theorem bincode_type_indices_match_source :
    (encType .bool).head? = indexOf "Bool" Gen.irTypes ∧
    (∀ n, (encType (.bytes n)).head? = indexOf "Bytes" Gen.irTypes) ∧
    (encType .native).head? = indexOf "Native" Gen.irTypes ∧
    (∀ n, (encType (.big n)).head? = indexOf "BigUint" Gen.irTypes) ∧
    (encType .point).head? = indexOf "JubjubPoint" Gen.irTypes ∧
    (encType .scalar).head? = indexOf "JubjubScalar" Gen.irTypes := by
  refine ⟨by decide, fun n => ?_, by decide, fun n => ?_, by decide, by decide⟩ <;>
    simp only [encType, List.head?_cons] <;> decide

/-- The numeric constants of the model are those of the sources: limb size of the BigUint
gadget, the Jubjub curve constant `d`, the order of the Jubjub subgroup. -/
theorem constants_match_source :
    Gen.log2Base = LOG2_BASE ∧ Gen.edwardsD = EdD ∧ Gen.jubjubOrder = RJ := by
  decide

/-! ## Every operation has both semantics in the model -/

/-- Table of mirrors: each function declared in `zkir/src/instructions/operations/*.rs` (outside
the test modules) with the Lean definition(s) of the model that mirror it — off-circuit semantics
(`…Off`, evaluated by `opOff`) and in-circuit gadget-level semantics (`…In`, evaluated by `opIn`).
The double-backtick names are resolved by Lean: a renamed or deleted definition breaks the build.
`add` / `sub` / `mul` / `neg` are the `std::ops` impls on `IrValue` (panicking wrappers of the
`*_offcircuit` functions, not used by the interpreters); `check_loadable` / `convert_values` are
helpers of `load.rs` (the `BigUint(0)` test and `TryFrom` of each value). -/
def mirrors : List (String × List Lean.Name) := [
  ("add_offcircuit", [``addOff]), ("add_incircuit", [``addIn, ``addShape]), ("add", [``addOff]),
  ("affine_coordinates_offcircuit", [``affineOff]), ("affine_coordinates_incircuit", [``affineIn]),
  ("assert_equal_incircuit", [``comparableIn]), ("assert_not_equal_incircuit", [``comparableIn]),
  ("from_bytes", [``fromBytesOff]), ("from_bytes_incircuit", [``fromBytesIn, ``fromBytesShape]),
  ("inner_product_offcircuit", [``innerProductOff, ``ipFoldOff]),
  ("inner_product_incircuit", [``innerProductIn, ``ipFoldIn, ``msmFold]),
  ("into_bytes", [``intoBytesOff]), ("into_bytes_incircuit", [``intoBytesIn]),
  ("is_equal_incircuit", [``comparableIn]),
  ("check_loadable", [``loadOff]), ("load_offcircuit", [``loadOff]),
  ("load_incircuit", [``loadCVal, ``assignBoundedShape]), ("convert_values", [``loadCVal]),
  ("mod_exp_offcircuit", [``modExpOff]), ("mod_exp_incircuit", [``modExpIn, ``modExpShape]),
  ("mul_offcircuit", [``mulOff]), ("mul_incircuit", [``mulIn, ``mulShape]), ("mul", [``mulOff]),
  ("neg_offcircuit", [``negOff]), ("neg_incircuit", [``negIn]), ("neg", [``negOff]),
  ("poseidon_offcircuit", [``opOff, ``asNative]), ("poseidon_incircuit", [``opIn, ``asNativeIn]),
  ("as_public_input", [``encodeOne]), ("publish_incircuit", [``publishIn, ``publishAll]),
  ("sha256_offcircuit", [``opOff, ``asBytes]), ("sha256_incircuit", [``opIn, ``asBytesIn]),
  ("sha512_offcircuit", [``opOff, ``asBytes]), ("sha512_incircuit", [``opIn, ``asBytesIn]),
  ("sub_offcircuit", [``subOff]), ("sub_incircuit", [``subIn, ``subShape]), ("sub", [``subOff])]

/-- **No operation file and no function of `instructions/operations/` is outside the model**: the
directory holds exactly one file per operation (17, regenerated from the directory listing on
every run), and every function they declare has an entry in `mirrors`. A new operation file or a
new function makes this theorem fail until a mirror is added. -/
theorem operation_sources_all_mirrored :
    Gen.opSources.map (·.1) = ["add", "affine_coordinates", "assert_equal", "assert_not_equal",
      "from_bytes", "inner_product", "into_bytes", "is_equal", "load", "mod_exp", "mul", "neg",
      "poseidon", "publish", "sha256", "sha512", "sub"] ∧
    (Gen.opSources.flatMap (·.2)).all (fun f => (mirrors.map (·.1)).contains f) = true ∧
    (mirrors.map (·.1)).all (fun f => (Gen.opSources.flatMap (·.2)).contains f) = true := by
  decide

/-- What the off-circuit dispatch of the model (`opOff`) does for an operation: the per-operation
functions it evaluates (`cmp==` / `cmp!=`: derived equality of `IrValue`) and the inputs it passes,
in order — in the format of `Gen.offDispatch`. -/
def Op.offCall : Op → List String × List String
  | .load _ => (["get_t", "load_offcircuit"], ["payload:yes"])
  | .publish => ([], ["*"])
  | .assertEq => (["cmp!="], ["0", "1", "0", "1"])
  | .assertNe => (["cmp=="], ["0", "1", "0", "1"])
  | .isEq => (["cmp=="], ["0", "1"])
  | .add => (["add_offcircuit"], ["0", "1"])
  | .sub => (["sub_offcircuit"], ["0", "1"])
  | .mul => (["mul_offcircuit"], ["0", "1"])
  | .neg => (["neg_offcircuit"], ["0"])
  | .modExp _ => (["mod_exp_offcircuit"], ["0", "1", "payload:yes"])
  | .innerProduct => (["inner_product_offcircuit"], ["..inps.len()/2", "inps.len()/2.."])
  | .affine => (["affine_coordinates_offcircuit"], ["0"])
  | .intoBytes _ => (["into_bytes"], ["0", "payload:yes"])
  | .fromBytes _ => (["from_bytes", "get_type"], ["0", "0", "payload:yes"])
  | .poseidon => (["poseidon_offcircuit"], ["*"])
  | .sha256 => (["sha256_offcircuit"], ["0"])
  | .sha512 => (["sha512_offcircuit"], ["0"])

/-- Same for the in-circuit dispatch (`opIn`). -/
def Op.inCall : Op → List String × List String
  | .load _ => (["get_t", "load_incircuit"], ["payload:yes"])
  | .publish => (["get_type", "publish_incircuit"], ["*"])
  | .assertEq => (["assert_equal_incircuit"], ["0", "1"])
  | .assertNe => (["assert_not_equal_incircuit"], ["0", "1"])
  | .isEq => (["is_equal_incircuit"], ["0", "1"])
  | .add => (["add_incircuit"], ["0", "1"])
  | .sub => (["sub_incircuit"], ["0", "1"])
  | .mul => (["mul_incircuit"], ["0", "1"])
  | .neg => (["neg_incircuit"], ["0"])
  | .modExp _ => (["mod_exp_incircuit"], ["0", "1", "payload:yes"])
  | .innerProduct => (["inner_product_incircuit"], ["..inps.len()/2", "inps.len()/2.."])
  | .affine => (["affine_coordinates_incircuit"], ["0"])
  | .intoBytes _ => (["into_bytes_incircuit"], ["0", "payload:yes"])
  | .fromBytes _ => (["from_bytes_incircuit"], ["0", "payload:yes"])
  | .poseidon => (["poseidon_incircuit"], ["*"])
  | .sha256 => (["sha256_incircuit"], ["0"])
  | .sha512 => (["sha512_incircuit"], ["0"])

/-- **The two `process_instruction` dispatches are the ones the model implements**: for each of
the 17 operations, the arm of `parser/offcircuit.rs` and of `parser/incircuit.rs` (parsed from the
sources on every run) calls the per-operation function the model mirrors, on the same inputs in
the same order (`inps[0]`, `inps[1]`, the two halves, the whole vector) and uses the payload. A
swapped argument order, a dropped argument, an arm calling another operation's function or an
ignored payload changes the generated table and breaks this theorem (the behavioural change is in
addition seen by the correspondence). -/
theorem dispatch_matches_source (op : Op) :
    (op.name, op.offCall.1, op.offCall.2) ∈ Gen.offDispatch ∧
    (op.name, op.inCall.1, op.inCall.2) ∈ Gen.inDispatch ∧
    Gen.offDispatch.length = 17 ∧ Gen.inDispatch.length = 17 := by
  cases op <;> simp only [Op.name, Op.offCall, Op.inCall] <;> decide

/-! ## Loader and arity -/

/-- `ZkirRelation::from_instructions` accepts a program iff every instruction has the arity of
its operation. -/
theorem load_accepts_iff_arity (p : Program) :
    loadProgram p = .ok () ↔ ∀ i ∈ p, i.arityOk = true :=
  loadProgram_ok_iff p

/-- Arity is validated at load, so execution never indexes out of range: on a loaded program the
off-circuit interpreter never reaches any of the Rust panics `inps[0]`, `inps[1]`,
`assert_eq!(names.len(), values.len())` — for every witness and all hash functions. Together
with `load_accepts_iff_arity`, wrong-arity programs are rejected with `InvalidArity` and
right-arity ones cannot panic on an index. -/
theorem arity_checked_no_index_error (H : Hashes) (p : Program) (w : Witness)
    (hload : loadProgram p = .ok ()) (s : String) :
    evalOff H p w ≠ .error (.panic s) := by
  unfold evalOff
  exact Except.map_ne_panic _ _ s
    (runOff_no_panic H w s p {} ((load_accepts_iff_arity p).1 hload))

/-- Non-vacuity: a loaded program exists, and an unloaded one does index out of range in the
model of the interpreter (so the hypothesis is needed). -/
example : loadProgram [⟨.load .bool, [], ["x"]⟩, ⟨.publish, ["x"], []⟩] = .ok () := by rfl
example (H : Hashes) : evalOff H [⟨.add, [], ["x"]⟩] [] = .error (.panic "index out of bounds") := by
  rfl

/-! ## Byte conversion of big integers (defect D7 and N14) -/

/-- `IntoBytes(n)` on a BigUint is total and the two sides agree, for every value, every limb
shape the gadget can hold it in, and every `n` (in particular `n` larger than the bytes the
limbs hold, which used to panic): off-circuit success means the circuit's range constraints hold
and both produce the same `n` bytes; off-circuit failure (value ≥ 2^(8n)) means the constraints
are violated. -/
theorem into_bytes_total (known : Bool) (s : Shape) (a n : Nat) (hs : isNormalized s = true) :
    (intoBytesOff (.big a) n = .ok (.bytes (natToLeBytes n a)) ∧
      intoBytesIn known (.big s a) n = .ok { outs := [.bytes (natToLeBytes n a)], sat := true } ∧
      (natToLeBytes n a).length = n ∧ a < 2 ^ (8 * n))
    ∨ (intoBytesOff (.big a) n = .error .cannotConvert ∧
      intoBytesIn known (.big s a) n = .ok { outs := [.bytes (natToLeBytes n a)], sat := false } ∧
      2 ^ (8 * n) ≤ a) := by
  by_cases h : a < 2 ^ (8 * n)
  · left
    have : ¬ byteLen a > n := by have := (byteLen_le_iff a n).2 h; omega
    simp [intoBytesOff, intoBytesIn, requireNormalized, hs, this, h, natToLeBytes_length]
  · right
    have : byteLen a > n := by
      have := (byteLen_le_iff a n); omega
    simp [intoBytesOff, intoBytesIn, requireNormalized, hs, this, h]
    omega

set_option exponentiation.threshold 400 in
/-- The D7 regression program: `Load(BigUint(16)) x; IntoBytes(40); Publish` with `x = 300`. -/
example : intoBytesOff (.big 300) 40 = .ok (.bytes (natToLeBytes 40 300)) ∧
    intoBytesIn true (.big (boundedShape 16) 300) 40 =
      .ok { outs := [.bytes (natToLeBytes 40 300)], sat := true } := by
  have := into_bytes_total true (boundedShape 16) 300 40 (by decide)
  rcases this with ⟨h1, h2, _, _⟩ | ⟨_, _, h⟩
  · exact ⟨h1, h2⟩
  · exact absurd h (by decide)

/-! ## Agreement of the two interpreters -/

/-- **Off-circuit success ⇒ the compiled circuit is satisfied with exactly `encode(P)`**
(`off_in_agree` of the design, partial — see below what is excluded).

For every program, every witness with canonical Jubjub scalars and all hash functions: if the
off-circuit interpreter succeeds with published values `P`, then the in-circuit interpreter on
the same witness either

* stops with a *static rejection* — `Unsupported` raised by one of the three comparison
  operations (the off-circuit versions are deliberately more general, see the comments in
  `assert_equal.rs`) or a limb-bookkeeping panic of the BigUint gadget — never with any other
  error; or
* runs to the end with **every constraint satisfied** by the honest assignment, and the raw
  public inputs it binds are exactly what `format_instance` computes from `P` and the recorded
  public-input types (whenever `format_instance` returns a value).

Partial with respect to the design statement in four explicit ways: (1) the hypothesis
`RunRegular` excludes Jubjub scalars built by `FromBytes` from 0 or ≥ 32 bytes — recorded finding
N7, for which the full statement is *false* (`off_in_agree_fails_for_long_scalars`); (2) the
static-rejection alternative; (3) `format_instance` succeeding is a hypothesis of the last
conjunct (that the recorded BigUint width bounds the value is not proved for products);
(4) the public-input types are those recorded by this run, not by the witness-free pass. -/
theorem off_in_agree_partial (H : Hashes) (p : Program) (w : Witness) (P : List IrValue)
    (hw : WitnessCanonical w) (hreg : RunRegular H w {} p) (h : evalOff H p w = .ok P) :
    (∃ e, evalIn H p w = .error e ∧ e.isStaticReject = true) ∨
    (∃ st, runIn H (some w) {} p = .ok st ∧ evalIn H p w = .ok (some st.pis) ∧
      st.piTypes.length = P.length ∧ ∀ pi, encodePI P st.piTypes = .ok pi → pi = st.pis) := by
  unfold evalOff at h
  obtain ⟨so, hso, rfl⟩ := (Except.map_ok_iff _ _ _).1 h
  have hinv0 : Inv ({} : OffState) ({} : InState) :=
    ⟨.nil, rfl, rfl, fun pi h => by simp [encodePI] at h; exact h⟩
  rcases runSim H w hw p {} {} so hinv0 hreg hso with ⟨e, he, hs⟩ | ⟨si, hsi, hinv⟩
  · exact .inl ⟨e, by simp [evalIn, he, Except.map], hs⟩
  · exact .inr ⟨si, hsi, by simp [evalIn, hsi, Except.map, hinv.sat], hinv.len, hinv.pis⟩

/-- Non-vacuity: a program using BigUint arithmetic, a byte conversion and two publications
satisfies the hypotheses, and the conclusion's second alternative is the one that holds. -/
example (H : Hashes) :
    let p : Program := [⟨.load (.big 16), [], ["x"]⟩, ⟨.add, ["x", "BigUint:01"], ["y"]⟩,
      ⟨.intoBytes 3, ["y"], ["b"]⟩, ⟨.publish, ["y", "b"], []⟩]
    let w : Witness := [("x", .big 300)]
    evalOff H p w = .ok [.big 301, .bytes [45, 1, 0]] ∧
    evalIn H p w = .ok (some [301, 45, 1, 0]) := by
  constructor <;> rfl

/-- The full-strength agreement statement is false on the pinned code (finding N7): the program
`Load(Bytes(32)) b; FromBytes(JubjubScalar) b -> s; Publish s` with `b = ff…ff` evaluates
off-circuit to one public input (the value reduced modulo the group order) while the compiled
circuit is satisfied and binds two public inputs (the 256 raw bits in chunks of 254). -/
theorem off_in_agree_fails_for_long_scalars (H : Hashes) :
    ∃ (p : Program) (w : Witness) (P : List IrValue) (ts : List IrType) (pi pis : List Nat),
      evalOff H p w = .ok P ∧ compile H p = .ok ts ∧ encodePI P ts = .ok pi ∧
      evalIn H p w = .ok (some pis) ∧ pi ≠ pis :=
  ⟨[⟨.load (.bytes 32), [], ["b"]⟩, ⟨.fromBytes .scalar, ["b"], ["s"]⟩, ⟨.publish, ["s"], []⟩],
   [("b", .bytes (List.replicate 32 255))],
   [.scalar (leBytesToNat (List.replicate 32 255) % RJ)], [.scalar],
   [leBytesToNat (List.replicate 32 255) % RJ],
   [leBytesToNat (List.replicate 32 255) % 2 ^ 254, leBytesToNat (List.replicate 32 255) / 2 ^ 254],
   by rfl, by rfl, by rfl, by rfl, by decide⟩

/-- **Off-circuit rejection ⇒ the compiled circuit is not satisfied** (`off_fail_unsat` of the
design, for *every* error class, hence also the `typing_errors_agree` direction "rejected
off-circuit ⇒ rejected in-circuit").

If the off-circuit interpreter fails on a program and witness — an assertion, a BigUint
underflow, a value that does not fit its byte length, an invalid point encoding, a zero modulus,
but also an unsupported type combination, a missing or ill-typed witness, an unknown or
duplicated name — then the in-circuit interpreter on the same witness never ends satisfied: it
returns an error value or at least one emitted constraint is violated by the honest assignment,
so no public-input vector is bound. Partial only in the hypothesis `RunRegular` (finding N7:
long Jubjub scalars are excluded because the simulation relation does not hold for them). -/
theorem off_fail_unsat_partial (H : Hashes) (p : Program) (w : Witness) (e : Err)
    (hw : WitnessCanonical w) (hreg : RunRegular H w {} p) (h : evalOff H p w = .error e) :
    ∀ pis, evalIn H p w ≠ .ok (some pis) := by
  intro pis
  unfold evalOff at h
  have h' := (Except.map_err_iff _ _ _).1 h
  have hinv0 : Inv ({} : OffState) ({} : InState) :=
    ⟨.nil, rfl, rfl, fun pi h => by simp [encodePI] at h; exact h⟩
  rcases runFail H w hw p {} {} e hinv0 hreg h' with ⟨e', he'⟩ | ⟨_, si, hsi, hs⟩
  · simp [evalIn, he', Except.map]
  · simp [evalIn, hsi, Except.map, hs]

/-- Non-vacuity, on the design's example of a divergence to be caught (`Sub` on BigUint): the
program `Load(BigUint(8)) x y; Sub x y -> z; Publish z` with `x = 5`, `y = 6` underflows
off-circuit and its circuit is unsatisfiable (`ok none`), while with `x = 6` both agree on 0. -/
example (H : Hashes) :
    let p : Program := [⟨.load (.big 8), [], ["x", "y"]⟩, ⟨.sub, ["x", "y"], ["z"]⟩, ⟨.publish, ["z"], []⟩]
    evalOff H p [("x", .big 5), ("y", .big 6)] = .error .underflow ∧
    evalIn H p [("x", .big 5), ("y", .big 6)] = .ok none ∧
    evalOff H p [("x", .big 6), ("y", .big 6)] = .ok [.big 0] ∧
    evalIn H p [("x", .big 6), ("y", .big 6)] = .ok (some [0]) := by
  refine ⟨?_, ?_, ?_, ?_⟩ <;> rfl

/-- **Typing errors agree** (`typing_errors_agree` of the design), at full strength for every
operation except the recorded comparison gap. For every program, every witness with canonical
scalars and all hash functions (hypothesis `RunRegular` = finding N7 only):

1. if the off-circuit interpreter rejects with an error that is *not* a condition on the witness
   — an unsupported type combination, an ill-typed or missing witness entry, an unknown or
   duplicated name, a non-byte input of `FromBytes`, a non-native input of `Poseidon`, vectors of
   different length, a malformed constant — then the in-circuit pass returns an **error value** as
   well (not merely an unsatisfied circuit): ill-typed programs are rejected by both sides;
2. conversely, if the in-circuit pass returns an error value that is not one of the two recorded
   static rejections (`Unsupported` raised by `AssertEqual` / `AssertNotEqual` / `IsEqual`, whose
   off-circuit versions are deliberately more general; a limb-bookkeeping panic of the BigUint
   gadget), then the off-circuit interpreter rejects too;
3. a witness condition (assertion, underflow, range, zero modulus) is the only way for the
   in-circuit pass to run to the end with a violated constraint after an off-circuit rejection.

The negation of (2) without the exception is `typing_errors_agree_fails_for_comparisons`. -/
theorem typing_errors_agree (H : Hashes) (p : Program) (w : Witness)
    (hw : WitnessCanonical w) (hreg : RunRegular H w {} p) :
    (∀ e, evalOff H p w = .error e → e.isWitnessCondition = false →
      ∃ e', evalIn H p w = .error e') ∧
    (∀ e', evalIn H p w = .error e' → e'.isStaticReject = false →
      ∃ e, evalOff H p w = .error e) ∧
    (∀ e, evalOff H p w = .error e → evalIn H p w = .ok none → e.isWitnessCondition = true) := by
  have hinv0 : Inv ({} : OffState) ({} : InState) :=
    ⟨.nil, rfl, rfl, fun pi h => by simp [encodePI] at h; exact h⟩
  have key : ∀ e, evalOff H p w = .error e →
      (∃ e', evalIn H p w = .error e') ∨
      (e.isWitnessCondition = true ∧ evalIn H p w = .ok none) := by
    intro e h
    unfold evalOff at h
    have h' := (Except.map_err_iff _ _ _).1 h
    rcases runFail H w hw p {} {} e hinv0 hreg h' with ⟨e', he'⟩ | ⟨hwc, si, hsi, hs⟩
    · exact .inl ⟨e', by simp [evalIn, he', Except.map]⟩
    · exact .inr ⟨hwc, by simp [evalIn, hsi, Except.map, hs]⟩
  refine ⟨fun e h hn => ?_, fun e' h hn => ?_, fun e h hnone => ?_⟩
  · rcases key e h with h1 | ⟨hwc, _⟩
    · exact h1
    · rw [hwc] at hn; cases hn
  · cases hoff : evalOff H p w with
    | error e => exact ⟨e, rfl⟩
    | ok P =>
      rcases off_in_agree_partial H p w P hw hreg hoff with ⟨e, he, hs⟩ | ⟨st, _, hst, _⟩
      · rw [h] at he; cases he; rw [hs] at hn; cases hn
      · rw [h] at hst; cases hst
  · rcases key e h with ⟨e', he'⟩ | ⟨hwc, _⟩
    · rw [hnone] at he'; cases he'
    · exact hwc

/-- Non-vacuity of the three parts: `Add` on a Bool and a Native is an error value on both sides;
`Poseidon` on bytes likewise; the `Sub` underflow is a witness condition and gives `ok none`. -/
example (H : Hashes) :
    let p : Program := [⟨.load .bool, [], ["a"]⟩, ⟨.load .native, [], ["b"]⟩, ⟨.add, ["a", "b"], ["c"]⟩]
    let w : Witness := [("a", .bool true), ("b", .native 1)]
    evalOff H p w = .error (.unsupported .add [.bool, .native]) ∧
    evalIn H p w = .error (.unsupported .add [.bool, .native]) ∧
    evalOff H [⟨.load (.bytes 1), [], ["a"]⟩, ⟨.poseidon, ["a"], ["c"]⟩] [("a", .bytes [7])]
      = .error .typeConvert ∧
    evalIn H [⟨.load (.bytes 1), [], ["a"]⟩, ⟨.poseidon, ["a"], ["c"]⟩] [("a", .bytes [7])]
      = .error .typeConvert := by
  refine ⟨?_, ?_, ?_, ?_⟩ <;> rfl

/-- Typing gap in the other direction, kept visible: the in-circuit pass rejects comparisons
that the off-circuit interpreter evaluates (here `IsEqual` on a Bool and a Native). This is the
only kind of typing disagreement `off_in_agree_partial` leaves open. -/
theorem typing_errors_agree_fails_for_comparisons (H : Hashes) :
    ∃ (p : Program) (w : Witness) (P : List IrValue) (e : Err),
      evalOff H p w = .ok P ∧ evalIn H p w = .error e ∧ e.isStaticReject = true :=
  ⟨[⟨.load .bool, [], ["a"]⟩, ⟨.load .native, [], ["b"]⟩, ⟨.isEq, ["a", "b"], ["c"]⟩, ⟨.publish, ["c"], []⟩],
   [("a", .bool true), ("b", .native 1)], [.bool false], .unsupported .isEq [.bool, .native],
   by rfl, by rfl, by rfl⟩

/-! ## What `RunRegular` covers -/

/-- `RunRegular` restricts exactly one operation at one type: it holds — for every witness, all
hash functions and from every interpreter state — as soon as the program contains no
`FromBytes(JubjubScalar)`. All 17 operations on all 6 value types are therefore covered by
`off_in_agree_partial` / `off_fail_unsat_partial`; for `FromBytes(JubjubScalar)` the covered
inputs are byte strings of 1 to 31 bytes (`RegularScalarBytes`). -/
theorem runRegular_of_no_scalar_conversion (H : Hashes) (w : Witness) :
    ∀ (p : Program) (so : OffState), (∀ i ∈ p, i.op ≠ .fromBytes .scalar) → RunRegular H w so p
  | [], _, _ => trivial
  | i :: rest, so, h =>
    ⟨fun _ _ hop => absurd hop (h i (List.mem_cons_self ..)),
     fun so' _ => runRegular_of_no_scalar_conversion H w rest so'
       (fun j hj => h j (List.mem_cons_of_mem _ hj))⟩

/-- **Off-circuit rejection ⇒ the compiled circuit is not satisfied, at full strength for every
program without `FromBytes(JubjubScalar)`** (a syntactic class: 16 operations unrestricted, and
`FromBytes` at the five other types): no side condition on the run is left. -/
theorem off_fail_unsat_no_scalar_conversion (H : Hashes) (p : Program) (w : Witness) (e : Err)
    (hw : WitnessCanonical w) (hp : ∀ i ∈ p, i.op ≠ .fromBytes .scalar)
    (h : evalOff H p w = .error e) : ∀ pis, evalIn H p w ≠ .ok (some pis) :=
  off_fail_unsat_partial H p w e hw (runRegular_of_no_scalar_conversion H w p {} hp) h

/-- Same for the success direction (the other three caveats of `off_in_agree_partial` remain:
static rejection by a comparison or a limb-bookkeeping panic, `format_instance` succeeding,
public-input types of this run). -/
theorem off_in_agree_no_scalar_conversion_partial (H : Hashes) (p : Program) (w : Witness)
    (P : List IrValue) (hw : WitnessCanonical w) (hp : ∀ i ∈ p, i.op ≠ .fromBytes .scalar)
    (h : evalOff H p w = .ok P) :
    (∃ e, evalIn H p w = .error e ∧ e.isStaticReject = true) ∨
    (∃ st, runIn H (some w) {} p = .ok st ∧ evalIn H p w = .ok (some st.pis) ∧
      st.piTypes.length = P.length ∧ ∀ pi, encodePI P st.piTypes = .ok pi → pi = st.pis) :=
  off_in_agree_partial H p w P hw (runRegular_of_no_scalar_conversion H w p {} hp) h

/-- Non-vacuity: the `Sub` example is in the class; the N7 counterexample is not. -/
example : ∀ i ∈ ([⟨.load (.big 8), [], ["x", "y"]⟩, ⟨.sub, ["x", "y"], ["z"]⟩, ⟨.publish, ["z"], []⟩] : Program),
    i.op ≠ .fromBytes .scalar := by
  intro i hi
  simp only [List.mem_cons, List.not_mem_nil, or_false] at hi
  rcases hi with rfl | rfl | rfl <;> simp

/-! ## `format_instance` succeeds on what the circuit publishes -/

/-- **The public-input equality without the `format_instance` hypothesis.** In
`off_in_agree_partial` the equality `format_instance(P, types) = bound public inputs` is stated
for the case that `format_instance` returns a value. Here that is proved: along every run on which
both interpreters succeed, every BigUint in the in-circuit memory is bounded by its limb bounds
(`CValOK`: sums, products, differences, remainders, byte conversions, loads, constants — the
shape bookkeeping of `biguint_gadget.rs` over-approximates the arithmetic), so `check_type` of the
off-circuit value against the recorded width `BigUint(nb_bits)` succeeds at every `Publish`, and
`format_instance` returns exactly the vector the circuit binds.

The two extra hypotheses hold automatically for Rust values: byte arrays of the witness and the
digests hold bytes (`BytesOK`: `Vec<u8>`), and operation payloads fit their integer types
(`Op.InRange`: `ModExp(u64)` — the square-and-multiply loop of the gadget runs 64 iterations).
Still `_partial` for the two reasons of `off_in_agree_partial` that are genuine: `RunRegular`
(finding N7) and the static-rejection alternative. -/
theorem off_in_agree_public_inputs_partial (H : Hashes) (p : Program) (w : Witness) (P : List IrValue)
    (hw : WitnessCanonical w) (hb : BytesOK H w) (hr : ∀ i ∈ p, i.op.InRange)
    (hreg : RunRegular H w {} p) (h : evalOff H p w = .ok P) :
    (∃ e, evalIn H p w = .error e ∧ e.isStaticReject = true) ∨
    (∃ st, runIn H (some w) {} p = .ok st ∧ evalIn H p w = .ok (some st.pis) ∧
      encodePI P st.piTypes = .ok st.pis) := by
  rcases off_in_agree_partial H p w P hw hreg h with hs | ⟨st, hst, hev, _, hpi⟩
  · exact .inl hs
  · refine .inr ⟨st, hst, hev, ?_⟩
    unfold evalOff at h
    obtain ⟨so, hso, rfl⟩ := (Except.map_ok_iff _ _ _).1 h
    have hinv0 : Inv ({} : OffState) ({} : InState) :=
      ⟨.nil, rfl, rfl, fun pi h => by simp [encodePI] at h; exact h⟩
    have hm0 : MemOK ({} : InState).mem := by intro n cv k hl; simp [lookup] at hl
    have he0 : EncOK ({} : OffState) ({} : InState) := ⟨[], rfl⟩
    obtain ⟨⟨pi, hpi'⟩, _⟩ := runEnc H w hw hb p {} {} so st hinv0 hm0 he0 hr hreg hso hst
    rw [hpi', hpi pi hpi']

/-- `format_instance` is total on the published values of every program without
`FromBytes(JubjubScalar)`: whenever both interpreters run, it returns the bound public inputs. -/
theorem format_instance_total_no_scalar_conversion (H : Hashes) (p : Program) (w : Witness)
    (P : List IrValue) (st : InState) (hw : WitnessCanonical w) (hb : BytesOK H w)
    (hr : ∀ i ∈ p, i.op.InRange) (hp : ∀ i ∈ p, i.op ≠ .fromBytes .scalar)
    (h : evalOff H p w = .ok P) (hst : runIn H (some w) {} p = .ok st) :
    encodePI P st.piTypes = .ok st.pis := by
  rcases off_in_agree_public_inputs_partial H p w P hw hb hr
      (runRegular_of_no_scalar_conversion H w p {} hp) h with ⟨e, he, _⟩ | ⟨st', hst', _, henc⟩
  · simp [evalIn, hst, Except.map] at he
  · rw [hst] at hst'; cases hst'; exact henc

set_option maxRecDepth 20000 in
/-- Non-vacuity: hash functions and a witness satisfying `BytesOK`, a program with a BigUint
product, a sum with a constant, a modular exponentiation and a byte conversion: the hypotheses
hold and `format_instance` returns the public inputs the circuit binds (the product of two
64-bit values is published with the width `BigUint(192)` — two full limbs — that the normalised
limb bounds give). -/
example :
    let H : Hashes := ⟨fun _ => [], fun _ => [], fun _ => 0⟩
    let p : Program := [⟨.load (.big 64), [], ["x", "y"]⟩, ⟨.mul, ["x", "y"], ["z"]⟩,
      ⟨.add, ["z", "BigUint:01"], ["t"]⟩, ⟨.modExp 3, ["t", "y"], ["m"]⟩,
      ⟨.intoBytes 3, ["m"], ["b"]⟩, ⟨.publish, ["z", "m", "b"], []⟩]
    let w : Witness := [("x", .big 300), ("y", .big 1000)]
    BytesOK H w ∧ (∀ i ∈ p, i.op.InRange) ∧ (∀ i ∈ p, i.op ≠ .fromBytes .scalar) ∧
    evalOff H p w = .ok [.big 300000, .big 1, .bytes [1, 0, 0]] ∧
    (runIn H (some w) {} p).map (fun st => (st.piTypes, st.pis)) =
      .ok ([.big 192, .big 64, .bytes 3], [300000, 0, 1, 1, 0, 0]) := by
  refine ⟨⟨fun _ b hb => by simp at hb, fun _ b hb => by simp at hb, fun n bs h => ?_⟩, ?_, ?_, by rfl, by rfl⟩
  · simp [lookup] at h
    split at h
    · simp at h
    · split at h <;> simp at h
  · intro i hi
    simp only [List.mem_cons, List.not_mem_nil, or_false] at hi
    rcases hi with rfl | rfl | rfl | rfl | rfl | rfl <;> simp [Op.InRange, IrType.InRange]
  · intro i hi
    simp only [List.mem_cons, List.not_mem_nil, or_false] at hi
    rcases hi with rfl | rfl | rfl | rfl | rfl | rfl <;> simp

/-! ## Binary round trip (`write_relation` / `read_relation`) -/

/-- The parameters of the real decoder on the 64-bit build the check runs
(`size_of::<Instruction>() = 72`, `size_of::<String>() = 24`, reported by the harness on every
request) with the limit written in `zkir.rs` today. -/
def realParams : BParams := ⟨72, 24, Gen.programDecodingLimit⟩

/-- **Binary round trip.** For every program whose integers fit their Rust types
(`ProgInRange`: automatically true of a Rust value) and whose decoding stays within the
allocation limit of `read_relation` (`claimBound`: 8 + 72 bytes per instruction + 24 per name +
the bytes of the names + the integers, against `PROGRAM_DECODING_LIMIT`), decoding the bytes
`write_relation` produced — followed by anything — returns the same program and leaves exactly
what follows in the reader (the relation is embedded in a serialized proving key). Holds for
every compiled size and every limit, not only `realParams`. -/
theorem decode_encode_bin (P : BParams) (p : Program) (rest : List Nat)
    (hr : ProgInRange p) (hl : claimBound P p ≤ P.limit) :
    decodeBinPrefix false P (encodeBin p ++ rest) = .ok (p, rest) ∧
    decodeBin P (encodeBin p) = .ok p := by
  have h1 := decodeBinPrefix_enc false P p rest hr hl
  have h2 := decodeBinPrefix_enc false P p [] hr hl
  rw [List.append_nil] at h2
  exact ⟨h1, by simp [decodeBin, h2]⟩

/-- `read_relation` after `write_relation` on a program accepted by `from_instructions`. -/
theorem read_write_relation (P : BParams) (p : Program) (rest : List Nat)
    (hr : ProgInRange p) (hl : claimBound P p ≤ P.limit) (hload : loadProgram p = .ok ()) :
    readRelation P (encodeBin p ++ rest) = .ok (p, rest) := by
  simp [readRelation, (decode_encode_bin P p rest hr hl).1, hload]

/-- Non-vacuity with the real parameters: a three-instruction program with a non-ASCII name. -/
example :
    let p : Program := [⟨.load (.big 300), [], ["x", "é"]⟩, ⟨.modExp 65537, ["x", "é"], ["y"]⟩,
      ⟨.publish, ["y"], []⟩]
    ProgInRange p ∧ claimBound realParams p ≤ realParams.limit ∧ loadProgram p = .ok () ∧
    encodeBin p = [3, 0, 3, 251, 44, 1, 0, 2, 1, 120, 2, 195, 169, 9, 252, 1, 0, 1, 0, 2, 1, 120,
      2, 195, 169, 1, 1, 121, 1, 1, 1, 121, 0] := by
  refine ⟨⟨by decide, ?_⟩, by decide, by rfl, by decide⟩
  intro i hi
  simp only [List.mem_cons, List.not_mem_nil, or_false] at hi
  rcases hi with rfl | rfl | rfl <;>
    exact ⟨by simp [Op.InRange, IrType.InRange], ⟨by decide, by decide⟩, ⟨by decide, by decide⟩⟩

/-- The limit hypothesis is needed, and this is how the real code behaves: a program whose
instruction count alone exceeds the limit (`8 + 72·n > 2^24`, i.e. more than 233 016
instructions with the real parameters) is written by `write_relation` but **rejected** by
`read_relation` with `LimitExceeded` — it does not survive its binary round trip. -/
theorem decode_rejects_beyond_limit (P : BParams) (p : Program) (rest : List Nat)
    (hlen : p.length < 2 ^ 64) (h8 : 8 ≤ P.limit) (hbig : P.limit < 8 + p.length * P.sizeInstr) :
    decodeBinPrefix false P (encodeBin p ++ rest) = .error .limit :=
  decodeBinPrefix_limit false P p rest hlen h8 hbig

/-- Non-vacuity: with the real sizes, 233 017 instructions are enough. -/
example : realParams.limit < 8 + 233017 * realParams.sizeInstr ∧
    8 + 233016 * realParams.sizeInstr ≤ realParams.limit := by decide

/-- **The binary encoding is injective** on programs that are images of Rust values: two
programs with the same bytes are equal. -/
theorem encodeBin_injective (p q : Program) (hp : ProgInRange p) (hq : ProgInRange q)
    (h : encodeBin p = encodeBin q) : p = q := by
  have hb : ∀ (L : Nat) (r : Program), claimBound ⟨1, 1, L⟩ r = claimBound ⟨1, 1, 0⟩ r := by
    intro L r
    have : sumBound ⟨1, 1, L⟩ r = sumBound ⟨1, 1, 0⟩ r := by
      induction r with
      | nil => rfl
      | cons i t ih => simp only [sumBound, boundInstr, ih]
    simp only [claimBound, this]
  let L := claimBound ⟨1, 1, 0⟩ p + claimBound ⟨1, 1, 0⟩ q
  have e1 := decodeBinPrefix_enc false ⟨1, 1, L⟩ p [] hp (by rw [hb]; exact Nat.le_add_right _ _)
  have e2 := decodeBinPrefix_enc false ⟨1, 1, L⟩ q [] hq (by rw [hb]; exact Nat.le_add_left _ _)
  rw [h, e2] at e1
  simp only [Except.ok.injEq, Prod.mk.injEq, and_true] at e1
  exact e1.symm

/-- **Canonical form, exactly.** `strict` rejects a variable-length integer written wider than
necessary and is otherwise the real decoder. (1) What the strict decoder accepts is exactly an
encoder output followed by the unread rest: so two byte strings accepted strictly with the same
program and the same rest are equal. (2) The real decoder accepts everything the strict one
does, with the same result. Hence the *only* non-canonical inputs `read_relation` tolerates are
over-wide integers (lengths, variant indices, payloads) — and bytes after the program, which
it leaves unread. Partial with respect to "two byte strings decoding to the same program are
equal", which is false for the real decoder (`decode_not_canonical`). -/
theorem decode_canonical_partial (P : BParams) (bs rest : List Nat) (p : Program)
    (hwf : BytesWF bs) (h : decodeBinPrefix true P bs = .ok (p, rest)) :
    bs = encodeBin p ++ rest ∧ decodeBinPrefix false P bs = .ok (p, rest) :=
  ⟨decodeBinPrefix_canon h hwf, decodeBinPrefix_lax h⟩

/-- **Canonical form as an equivalence** (the precise statement behind
`decode_canonical_partial`). For a byte string `bs`, a program `p` that is the image of a Rust
value and within the allocation limit, and any continuation `rest`:

* the *strict* decoder returns `(p, rest)` on `bs` **iff** `bs` is literally
  `write_relation(p) ++ rest` — its accepted language is exactly the encoder's image;
* the *real* decoder (`read_relation`, bincode's lenient varints) returns `(p, rest)` on
  `write_relation(p) ++ rest` as well, and on every input the strict one accepts.

So a byte string that `read_relation` accepts but the strict decoder rejects is never a round-trip
violation (by `decode_canonical_partial` + this theorem it differs from a canonical encoding only in
the width of some integer — witnesses in `decode_not_canonical`); it is a *canonicity* observation:
the serialized relation is malleable (several byte strings, one program). Recorded as such in
`checks/c18.py`, not as a defect: nothing in the repository compares or hashes the bytes of a
relation that was read rather than written. -/
theorem decode_strict_iff_encoder_output (P : BParams) (bs rest : List Nat) (p : Program)
    (hwf : BytesWF bs) (hr : ProgInRange p) (hl : claimBound P p ≤ P.limit) :
    (decodeBinPrefix true P bs = .ok (p, rest) ↔ bs = encodeBin p ++ rest) ∧
    decodeBinPrefix false P (encodeBin p ++ rest) = .ok (p, rest) := by
  refine ⟨⟨fun h => decodeBinPrefix_canon h hwf, fun h => ?_⟩, decodeBinPrefix_enc false P p rest hr hl⟩
  rw [h]; exact decodeBinPrefix_enc true P p rest hr hl

/-- Witness that the real decoder is not canonical: the one-instruction program `Publish x` is
also accepted when its instruction count `1` is written `fb 01 00`, when the variant index of
`Publish` is written `fc 01 00 00 00`, or when a name length is written with 8 bytes; the strict
decoder rejects all three. -/
theorem decode_not_canonical :
    let p : Program := [⟨.publish, ["x"], []⟩]
    encodeBin p = [1, 1, 1, 1, 120, 0] ∧
    decodeBin realParams [251, 1, 0, 1, 1, 1, 120, 0] = .ok p ∧
    decodeBin realParams [1, 252, 1, 0, 0, 0, 1, 1, 120, 0] = .ok p ∧
    decodeBin realParams [1, 1, 1, 253, 1, 0, 0, 0, 0, 0, 0, 0, 120, 0] = .ok p ∧
    decodeBinPrefix true realParams [251, 1, 0, 1, 1, 1, 120, 0] = .error .nonMinimal ∧
    decodeBinPrefix true realParams [1, 252, 1, 0, 0, 0, 1, 1, 120, 0] = .error .nonMinimal ∧
    decodeBinPrefix true realParams [1, 1, 1, 253, 1, 0, 0, 0, 0, 0, 0, 0, 120, 0] = .error .nonMinimal := by
  refine ⟨by decide, by rfl, by rfl, by rfl, by rfl, by rfl, by rfl⟩

/-- The integer widths the decoder model uses are those of the payload types written in the
sources today (`Bytes(usize)`, `BigUint(u32)`, `ModExp(u64)`, `IntoBytes(usize)`, the two
`IrType` payloads), and the limit is a positive number of bytes. -/
theorem payload_types_match_source :
    lookup "Bytes" Gen.irTypes = some "usize" ∧ lookup "BigUint" Gen.irTypes = some "u32" ∧
    lookup "ModExp" Gen.operations = some "u64" ∧ lookup "IntoBytes" Gen.operations = some "usize" ∧
    lookup "Load" Gen.operations = some "IrType" ∧ lookup "FromBytes" Gen.operations = some "IrType" ∧
    (Gen.operations.filter (fun x => x.2 ≠ "")).length = 4 ∧
    (Gen.irTypes.filter (fun x => x.2 ≠ "")).length = 2 ∧
    8 ≤ Gen.programDecodingLimit ∧ Gen.programDecodingLimit < 2 ^ 64 := by
  decide

/-! ## JSON round trip (`ZkirRelation::read`, serde) -/

/-- **JSON round trip at the level of the serde data model.** Reading the tree the derived
`Serialize` produces gives the program back, for every program whose operation payloads fit
their Rust types. -/
theorem fromJson_toJson (p : Program) (hr : ∀ i ∈ p, i.op.InRange) : fromJson (toJson p) = .ok p := by
  simp [fromJson, toJson, progFields, instrsFromJson, instrsFromJson_toJson p hr]

example : fromJson (toJson [⟨.load (.bytes 5), [], ["x"]⟩, ⟨.publish, ["x"], []⟩])
    = .ok [⟨.load (.bytes 5), [], ["x"]⟩, ⟨.publish, ["x"], []⟩] :=
  fromJson_toJson _ (by
    intro i hi
    simp only [List.mem_cons, List.not_mem_nil, or_false] at hi
    rcases hi with rfl | rfl <;> simp [Op.InRange, IrType.InRange])

/-- **JSON round trip with defaults, for every instruction of every variant.** The fields
`inputs` / `outputs` carry `#[serde(default)]`: the object that leaves out each of them when it is
empty (`instrToJsonMin`, the form hand-written programs use: `{"op": "publish", "inputs": [..]}`)
and the positional array without the trailing empty fields (`instrToJsonSeq`) are read back as
the same program — for all 17 operations, every payload in range and all name lists. -/
theorem fromJson_defaults (p : Program) (hr : ∀ i ∈ p, i.op.InRange) :
    fromJson (.obj [("instructions", .arr (p.map instrToJsonMin))]) = .ok p ∧
    fromJson (.obj [("instructions", .arr (p.map instrToJsonSeq))]) = .ok p ∧
    fromJson (.arr [.arr (p.map instrToJsonMin)]) = .ok p := by
  refine ⟨?_, ?_, ?_⟩
  · simp [fromJson, progFields, instrsFromJson, instrsFromJson_min p hr]
  · simp [fromJson, progFields, instrsFromJson, instrsFromJson_seq p hr]
  · simp [fromJson, instrsFromJson, instrsFromJson_min p hr]

/-- Non-vacuity: one instruction of each shape of default (`Load` has no inputs, `Publish` no
outputs, `Add` has both), and the trees are the compact ones. -/
example :
    let p : Program := [⟨.load (.big 8), [], ["x"]⟩, ⟨.add, ["x", "x"], ["y"]⟩, ⟨.publish, ["y"], []⟩]
    (∀ i ∈ p, i.op.InRange) ∧
    p.map instrToJsonMin = [
      .obj [("op", .obj [("load", .obj [("BigUint", .num 8)])]), ("outputs", .arr [.str "x"])],
      .obj [("op", .str "add"), ("inputs", .arr [.str "x", .str "x"]), ("outputs", .arr [.str "y"])],
      .obj [("op", .str "publish"), ("inputs", .arr [.str "y"])]] := by
  refine ⟨?_, by rfl⟩
  intro i hi
  simp only [List.mem_cons, List.not_mem_nil, or_false] at hi
  rcases hi with rfl | rfl | rfl <;> simp [Op.InRange, IrType.InRange]

/-- The reader is more liberal than the writer (kept visible): `inputs` / `outputs` may be
omitted, unknown keys are ignored, a unit variant may be written `{"publish": null}`, an
instruction may be a positional array — four different trees, one program. -/
theorem fromJson_not_injective :
    let p : Program := [⟨.publish, ["x"], []⟩]
    fromJson (.obj [("instructions", .arr [.obj [("op", .str "publish"), ("inputs", .arr [.str "x"])]])]) = .ok p ∧
    fromJson (.obj [("v", .num 1), ("instructions", .arr [.obj [("inputs", .arr [.str "x"]),
      ("op", .obj [("publish", .null)]), ("outputs", .arr [])]])]) = .ok p ∧
    fromJson (.obj [("instructions", .arr [.arr [.str "publish", .arr [.str "x"]]])]) = .ok p ∧
    fromJson (toJson p) = .ok p := by
  refine ⟨by rfl, by rfl, by rfl, by rfl⟩

/-- The serde names the model writes and reads are those derived from the sources today
(`rename_all = "snake_case"` on `Operation`, none on `IrType`; computed by the translator with
serde's rule on every run), and the field names, order and defaults of `Instruction` and
`Program` are the ones declared. -/
theorem serde_names_match_source (op : Op) :
    (op.name, op.serdeName) ∈ Gen.serdeOperations ∧ Gen.serdeOperations.length = 17 ∧
    Gen.serdeIrTypes.map (·.2) = [IrType.serdeName .bool, IrType.serdeName (.bytes 0),
      IrType.serdeName .native, IrType.serdeName (.big 0), IrType.serdeName .point,
      IrType.serdeName .scalar] ∧
    Gen.serdeIrTypes.map (·.1) = Gen.irTypes.map (·.1) ∧
    Gen.serdeInstrFields = [("operation", "op", false, "operations::Operation"),
      ("inputs", "inputs", true, "Vec<String>"), ("outputs", "outputs", true, "Vec<String>")] ∧
    Gen.serdeProgramFields = [("instructions", "instructions", false, "Vec<Instruction>")] := by
  cases op <;> simp only [Op.name, Op.serdeName] <;> decide

/-- The keys `toJson` writes are the declared serde field names, in declaration order. -/
theorem toJson_keys_match_source (i : Instr) (p : Program) :
    (match instrToJson i with | .obj kvs => kvs.map (·.1) | _ => []) = Gen.serdeInstrFields.map (fun x => x.2.1) ∧
    (match toJson p with | .obj kvs => kvs.map (·.1) | _ => []) = Gen.serdeProgramFields.map (fun x => x.2.1) := by
  constructor <;> rfl

/-! ## How the in-circuit comparisons are carried out (seeded change C18-4) -/

/-- `is_equal.rs: is_equal_incircuit` on two byte arrays of the same length — one native
`is_equal` per byte and the conjunction of the bits — returns `true` exactly when the arrays
are equal, for every length (in particular from 32 bytes on, where one field element no longer
holds the array). `assert_not_equal_incircuit` on bytes asserts that this bit is `false`. -/
theorem bytes_is_equal_sound (v w : List Nat) (h : v.length = w.length) :
    (bytesIsEqualIn v w = true ↔ v = w) ∧ bytesIsEqualCalls v w = v.length := by
  refine ⟨bytesIsEqualIn_iff v w h, ?_⟩
  rw [bytesIsEqualCalls_eq_min, h]; omega

example : bytesIsEqualIn [1, 2, 3] [1, 2, 4] = false ∧ bytesIsEqualIn [1, 2, 3] [1, 2, 3] = true ∧
    bytesIsEqualCalls [1, 2, 3] [1, 2, 4] = 3 := by decide

/-- The in-circuit `IsEqual` of the model on byte arrays IS that per-byte conjunction, and the
number of native `is_equal` gadget calls the model predicts for it (compared on every run with
the regions the real synthesis lays out, section `ieq:`) is the number of bytes: a comparison
through fewer calls (one packed element instead of n bytes) changes an `impl.txt` line. -/
theorem is_equal_in_bytes_is_bytewise (H : Hashes) (wt : Option Witness) (known : Bool)
    (ins outs : List String) (v w : List Nat) (g : GOut) (fs : List Nat) (ts : List IrType)
    (h : opIn H wt known ⟨.isEq, ins, outs⟩ [.bytes v, .bytes w] = .ok (g, fs, ts)) :
    v.length = w.length ∧ g.outs = [.bool (bytesIsEqualIn v w)] ∧ g.sat = true ∧
      cmpCalls .isEq (.bytes v) (.bytes w) = (v.length, v.length) ∧
      cmpCalls .assertNe (.bytes v) (.bytes w) = (v.length, v.length + 1) := by
  simp only [opIn, comparableIn] at h
  by_cases hl : v.length = w.length
  · simp only [hl, if_true, Except.map] at h
    injection h with h
    injection h with h1 h2
    subst h1
    have hc : bytesIsEqualCalls v w = v.length := (bytes_is_equal_sound v w hl).2
    refine ⟨hl, ?_, rfl, ?_, ?_⟩
    · simp [bytesIsEqualIn_eq_beq v w hl]
    · simp [cmpCalls, hc]
    · simp [cmpCalls, hc]
  · simp [hl, Except.map] at h

example : opIn ⟨fun _ => [], fun _ => [], fun _ => 0⟩ none true ⟨.isEq, ["a", "b"], ["c"]⟩
    [.bytes [1, 2], .bytes [1, 3]] = .ok ({ outs := [.bool false] }, [], []) := by rfl

/-- Comparing two byte arrays through ONE native element each (`assigned_from_le_bytes`, a
linear combination modulo the native modulus) is unsound from 32 bytes on: for every length
n ≥ 32 there are two different arrays of n bytes — the little-endian bytes of the modulus
(padded with zeros) and n zero bytes — that the packed comparison identifies, while the
per-byte conjunction tells them apart. The harness feeds exactly these pairs (and x, x + k·p)
to the compiled circuit on every run. -/
theorem packed_compare_unsound_from_32 (n : Nat) (hn : 32 ≤ n) :
    ∃ v w : List Nat, v.length = n ∧ w.length = n ∧ BytesWF v ∧ BytesWF w ∧ v ≠ w ∧
      packedCompare v w = true ∧ bytesIsEqualIn v w = false := by
  refine ⟨qBytes ++ List.replicate (n - 32) 0, List.replicate n 0, ?_, by simp, ?_, ?_, ?_, ?_, ?_⟩
  · have : qBytes.length = 32 := by decide
    simp [this]; omega
  · intro b hb
    rcases List.mem_append.mp hb with hb | hb
    · exact qBytes_wf b hb
    · rw [(List.mem_replicate.mp hb).2]; omega
  · intro b hb
    rw [(List.mem_replicate.mp hb).2]; omega
  · intro h
    have h0 : (qBytes ++ List.replicate (n - 32) 0).head? = (List.replicate n 0).head? := by rw [h]
    have hq : qBytes = 1 :: qBytes.tail := by decide
    obtain ⟨m, rfl⟩ : ∃ m, n = m + 1 := ⟨n - 1, by omega⟩
    rw [hq] at h0
    simp [List.replicate_succ] at h0
  · simp only [packedCompare, packNative, leBytesToNat_append_zeros, leBytesToNat_zeros,
      qBytes_value, Nat.mod_self, Nat.zero_mod, beq_self_eq_true]
  · have hl : (qBytes ++ List.replicate (n - 32) 0).length = (List.replicate n 0).length := by
      have : qBytes.length = 32 := by decide
      simp [this]; omega
    rw [bytesIsEqualIn_eq_beq _ _ hl]
    have hq : qBytes = 1 :: qBytes.tail := by decide
    obtain ⟨m, rfl⟩ : ∃ m, n = m + 1 := ⟨n - 1, by omega⟩
    rw [hq]
    simp [List.replicate_succ]

example : ∃ v w : List Nat, v.length = 32 ∧ w.length = 32 ∧ BytesWF v ∧ BytesWF w ∧ v ≠ w ∧
    packedCompare v w = true ∧ bytesIsEqualIn v w = false :=
  packed_compare_unsound_from_32 32 (by omega)

/-- Up to 31 bytes the packing is injective (256^31 is below the native modulus): there the
packed comparison and the per-byte one agree — the seeded change is invisible on short arrays,
which is why the wrap-around pairs start at 32 bytes. -/
theorem packed_compare_sound_up_to_31 (v w : List Nat) (hl : v.length = w.length)
    (h31 : v.length ≤ 31) (hv : BytesWF v) (hw : BytesWF w) :
    packedCompare v w = bytesIsEqualIn v w := by
  rw [bytesIsEqualIn_eq_beq v w hl]
  unfold packedCompare
  rw [packNative_small v hv h31, packNative_small w hw (hl ▸ h31)]
  by_cases h : v = w
  · subst h; simp
  · have hne : leBytesToNat v ≠ leBytesToNat w := fun he => h (leBytesToNat_injective v w hl hv hw he)
    have h1 : (leBytesToNat v == leBytesToNat w) = false := beq_false_of_ne hne
    have h2 : (v == w) = false := beq_false_of_ne h
    rw [h1, h2]

example : packedCompare [255, 255] [255, 254] = false := by decide

/-! ## The chips the compiled circuit configures -/

/-- `zkir.rs: used_chips` switches on every chip some instruction of the program can reach:
Poseidon / SHA-256 / SHA-512 when the operation occurs, Jubjub when a Jubjub type is loaded or
built from bytes, and also when a Jubjub point or scalar enters as a CONSTANT (any name that
`constants.rs` parses as such a constant starts with "Jubjub", so the textual test of
`used_chips` misses none). The four switches are compared with the real `used_chips` on every
program of every run (`arch:` section). -/
theorem used_chips_cover_program (p : Program) (i : Instr) (hi : i ∈ p) :
    (i.op = .poseidon → (usedChips p).2.1 = true) ∧
    (i.op = .sha256 → (usedChips p).2.2.1 = true) ∧
    (i.op = .sha512 → (usedChips p).2.2.2 = true) ∧
    (∀ t, (i.op = .load t ∨ i.op = .fromBytes t) → (t = .point ∨ t = .scalar) →
      (usedChips p).1 = true) ∧
    (∀ name v, name ∈ i.ins → parseConst name = some v → (v.type = .point ∨ v.type = .scalar) →
      (usedChips p).1 = true) := by
  refine ⟨?_, ?_, ?_, ?_, ?_⟩
  · intro h
    simp only [usedChips, List.any_eq_true]
    exact ⟨i, hi, by simp [h]⟩
  · intro h
    simp only [usedChips, List.any_eq_true]
    exact ⟨i, hi, by simp [h]⟩
  · intro h
    simp only [usedChips, List.any_eq_true]
    exact ⟨i, hi, by simp [h]⟩
  · intro t ht hty
    simp only [usedChips, Bool.or_eq_true, List.any_eq_true]
    left
    refine ⟨i, hi, ?_⟩
    rcases ht with ht | ht <;> rcases hty with rfl | rfl <;> simp [ht]
  · intro name v hn hc hv
    simp only [usedChips, Bool.or_eq_true, List.any_eq_true]
    right
    exact ⟨i, hi, name, hn, parseConst_jubjub_prefix name v hc hv⟩

example : usedChips [⟨.publish, ["Jubjub:GENERATOR"], []⟩] = (true, false, false, false) ∧
    usedChips [⟨.load .native, [], ["x"]⟩, ⟨.poseidon, ["x"], ["h"]⟩] = (false, true, false, false) := by
  decide

/-- The `ieq:` line of the programs `Load Bytes(n) v w; <comparison> v w`, for EVERY n: the
in-circuit `IsEqual` lays out n native `is_equal` calls, `AssertNotEqual` the same n plus one
assertion on the resulting bit, `AssertEqual` n copy assertions and no `is_equal`. The harness
measures these numbers on the real synthesis for n ∈ {0, 1, 2, 31, 32, 33, 64} (and whatever the
random programs contain) on every run. -/
theorem compare_bytes_lays_out_one_call_per_byte (H : Hashes) (n : Nat) :
    cmpTrace H 0 {} [⟨.load (.bytes n), [], ["v", "w"]⟩, ⟨.isEq, ["v", "w"], ["b"]⟩] = [(1, n, n)] ∧
    cmpTrace H 0 {} [⟨.load (.bytes n), [], ["v", "w"]⟩, ⟨.assertNe, ["v", "w"], []⟩] = [(1, n, n + 1)] ∧
    cmpTrace H 0 {} [⟨.load (.bytes n), [], ["v", "w"]⟩, ⟨.assertEq, ["v", "w"], []⟩] = [(1, 0, n)] := by
  refine ⟨?_, ?_, ?_⟩ <;>
  simp [cmpTrace, stepIn, opIn, mapE, resolveIn, lookup, loadValue, defaultValue, loadCVal,
    insertMany, comparableIn, Op.isCompareOp, cmpCalls, bytesIsEqualCalls_replicate, Except.map]

/-- The same for `Load BigUint(nb) v w; IsEqual v w` for EVERY width nb ≥ 1: the witness-free
pass succeeds (both operands are normalized) and `biguint_gadget.rs: is_equal` lays out one
native `is_equal` per 96-bit limb, ⌈nb / 96⌉ of them. (`nb = 0` is rejected by `Load`.) -/
theorem compare_biguint_lays_out_one_call_per_limb (H : Hashes) (nb : Nat) (h : nb ≠ 0) :
    cmpTrace H 0 {} [⟨.load (.big nb), [], ["v", "w"]⟩, ⟨.isEq, ["v", "w"], ["b"]⟩]
      = [(1, divCeil nb LOG2_BASE, divCeil nb LOG2_BASE)] := by
  have hn := (wellShaped_length _ (boundedShape_wellShaped nb)).2.1
  simp [cmpTrace, stepIn, opIn, mapE, resolveIn, lookup, loadValue, defaultValue, loadCVal,
    insertMany, comparableIn, Op.isCompareOp, cmpCalls, Except.map, assignBoundedShape, h,
    requireNormalized, hn, bigCompareLimbs, boundedShape_length nb h]

example (H : Hashes) : cmpTrace H 0 {} [⟨.load (.big 300), [], ["v", "w"]⟩, ⟨.isEq, ["v", "w"], ["b"]⟩]
    = [(1, 4, 4)] := compare_biguint_lays_out_one_call_per_limb H 300 (by decide)

/-- The `ieq:` lines of the three comparisons on the remaining types (every hash function):
Native - one native `is_equal` for `IsEqual`, a dedicated region for `AssertNotEqual`, one copy
assertion for `AssertEqual`; Bool - no `is_equal` at all; JubjubPoint - one per coordinate;
JubjubScalar - rejected in-circuit (the recorded typing gap), so the trace stops. -/
theorem compare_fixed_size_types_layout (H : Hashes) :
    cmpTrace H 0 {} [⟨.load .native, [], ["v", "w"]⟩, ⟨.isEq, ["v", "w"], ["b"]⟩, ⟨.assertNe, ["v", "w"], []⟩, ⟨.assertEq, ["v", "w"], []⟩]
      = [(1, 1, 1), (2, 0, 0), (3, 0, 1)] ∧
    cmpTrace H 0 {} [⟨.load .bool, [], ["v", "w"]⟩, ⟨.isEq, ["v", "w"], ["b"]⟩, ⟨.assertNe, ["v", "w"], []⟩, ⟨.assertEq, ["v", "w"], []⟩]
      = [(1, 0, 0), (2, 0, 1), (3, 0, 1)] ∧
    cmpTrace H 0 {} [⟨.load .point, [], ["v", "w"]⟩, ⟨.isEq, ["v", "w"], ["b"]⟩, ⟨.assertNe, ["v", "w"], []⟩, ⟨.assertEq, ["v", "w"], []⟩]
      = [(1, 2, 2), (2, 2, 3), (3, 0, 2)] ∧
    cmpTrace H 0 {} [⟨.load .scalar, [], ["v", "w"]⟩, ⟨.isEq, ["v", "w"], ["b"]⟩] = [] := by
  refine ⟨?_, ?_, ?_, ?_⟩ <;>
  simp [cmpTrace, stepIn, opIn, mapE, resolveIn, lookup, loadValue, defaultValue, loadCVal,
    insertMany, comparableIn, Op.isCompareOp, cmpCalls, Except.map, CVal.type]

/-- The arms of the three in-circuit comparisons as they are written in the sources TODAY
(parsed by the translator on every run): which operand pairs each `match (x, y)` accepts and
which gadget methods each arm calls, in order. `cmpCalls` / `comparableIn` / `bytesIsEqualIn`
mirror exactly this table: byte arrays are compared component-wise over `zip` (one
`assert_equal`, resp. one `is_equal` per byte followed by `and`), `AssertNotEqual` on bytes
delegates to `is_equal_incircuit` and asserts the bit to be `false`. Deliberately tight: any
other way of writing an arm (e.g. packing both arrays with `assigned_from_le_bytes` and one
`is_equal`) breaks this theorem even before the region counts and the wrap-around pairs do. -/
theorem comparison_arms_match_source :
    Gen.cmpArms =
      [("assert_equal", [("Bool,Bool", ["assert_equal"]), ("Bytes,Bytes if", ["iter.zip", "assert_equal"]),
         ("Native,Native", ["assert_equal"]), ("BigUint,BigUint", ["biguint.assert_equal"]),
         ("JubjubPoint,JubjubPoint", ["jubjub.assert_equal"])]),
       ("assert_not_equal", [("Bool,Bool", ["assert_not_equal"]),
         ("Bytes,Bytes if", ["is_equal_incircuit", "assert_equal_to_fixed"]),
         ("Native,Native", ["assert_not_equal"]), ("BigUint,BigUint", ["biguint.assert_not_equal"]),
         ("JubjubPoint,JubjubPoint", ["jubjub.assert_not_equal"])]),
       ("is_equal", [("Bool,Bool", ["is_equal"]), ("Bytes,Bytes if", ["assign_fixed"]),
         ("Bytes,Bytes if", ["iter.zip", "is_equal", "and"]), ("Native,Native", ["is_equal"]),
         ("BigUint,BigUint", ["biguint.is_equal"]), ("JubjubPoint,JubjubPoint", ["jubjub.is_equal"])])] := by
  decide

end MidnightZK.C18
