import MidnightZK.Proofs.C18.Fail
import MidnightZK.Gen.C18Tables
/-!
# C18 — ZKIR: off-circuit evaluation and the compiled circuit agree on every program

Property theorems about the executable model of `MidnightZK/Model/C18` (helper lemmas in
`MidnightZK/Proofs/C18`). The model is compared with the real `midnight-zkir` code on every run
of the check (harness `h-c18`, driver `mzk-c18`).
-/
namespace MidnightZK.C18

/-! ## Tables regenerated from the Rust sources -/

/-- Rust name of an operation (its `Debug` head). -/
def Op.name : Op → String
  | .load _ => "Load" | .publish => "Publish" | .assertEq => "AssertEqual"
  | .assertNe => "AssertNotEqual" | .isEq => "IsEqual" | .add => "Add" | .sub => "Sub"
  | .mul => "Mul" | .neg => "Neg" | .modExp _ => "ModExp" | .innerProduct => "InnerProduct"
  | .affine => "AffineCoordinates" | .intoBytes _ => "IntoBytes" | .fromBytes _ => "FromBytes"
  | .poseidon => "Poseidon" | .sha256 => "Sha256" | .sha512 => "Sha512"

def Arity.str : Arity → String
  | .fixed n => s!"fixed {n}" | .some => "some" | .someEven => "someEven"

/-- Position of a name in a generated table. -/
def indexOf (n : String) (l : List (String × String)) : Option Nat :=
  (l.map (·.1)).idxOf? n

/-- The model's arity table is the one written in `zkir/src/instructions/arity.rs` today (the
right-hand sides are parsed from the source by the translator on every run): every one of the 17
operations, whatever its parameter, has the input and output arity the source declares. -/
theorem arity_table_matches_source (op : Op) :
    (op.name, op.inputArity.str) ∈ Gen.inputArity ∧ (op.name, op.outputArity.str) ∈ Gen.outputArity := by
  cases op <;> simp only [Op.name, Op.inputArity, Op.outputArity] <;> decide

/-- The variant index the model's binary encoder writes for an operation / a type is the
position of that variant in the Rust `enum` (bincode's derived encoding), and the source still
has exactly 17 operations and 6 types. -/
theorem bincode_variant_indices_match_source (op : Op) :
    (encOp op).head? = indexOf op.name Gen.operations ∧ Gen.operations.length = 17
      ∧ Gen.irTypes.length = 6 := by
  cases op <;> simp only [Op.name, encOp, List.head?_cons] <;> decide

/-- Same for the type tags. -/
theorem bincode_type_indices_match_source :
    (encType .bool).head? = indexOf "Bool" Gen.irTypes ∧
    (∀ n, (encType (.bytes n)).head? = indexOf "Bytes" Gen.irTypes) ∧
    (encType .native).head? = indexOf "Native" Gen.irTypes ∧
    (∀ n, (encType (.big n)).head? = indexOf "BigUint" Gen.irTypes) ∧
    (encType .point).head? = indexOf "JubjubPoint" Gen.irTypes ∧
    (encType .scalar).head? = indexOf "JubjubScalar" Gen.irTypes := by
  refine ⟨by decide, fun n => ?_, by decide, fun n => ?_, by decide, by decide⟩ <;>
    simp only [encType, List.head?_cons] <;> decide

/-- The numeric constants of the model are those of the sources: limb size of the BigUint
gadget, the Jubjub curve constant `d`, the order of the Jubjub subgroup. -/
theorem constants_match_source :
    Gen.log2Base = LOG2_BASE ∧ Gen.edwardsD = EdD ∧ Gen.jubjubOrder = RJ := by
  decide

/-! ## Loader and arity -/

/-- `ZkirRelation::from_instructions` accepts a program iff every instruction has the arity of
its operation. -/
theorem load_accepts_iff_arity (p : Program) :
    loadProgram p = .ok () ↔ ∀ i ∈ p, i.arityOk = true :=
  loadProgram_ok_iff p

/-- Arity is validated at load, so execution never indexes out of range: on a loaded program the
off-circuit interpreter never reaches any of the Rust panics `inps[0]`, `inps[1]`,
`assert_eq!(names.len(), values.len())` — for every witness and all hash functions. Together
with `load_accepts_iff_arity`, wrong-arity programs are rejected with `InvalidArity` and
right-arity ones cannot panic on an index. -/
theorem arity_checked_no_index_error (H : Hashes) (p : Program) (w : Witness)
    (hload : loadProgram p = .ok ()) (s : String) :
    evalOff H p w ≠ .error (.panic s) := by
  unfold evalOff
  exact Except.map_ne_panic _ _ s
    (runOff_no_panic H w s p {} ((load_accepts_iff_arity p).1 hload))

/-- Non-vacuity: a loaded program exists, and an unloaded one does index out of range in the
model of the interpreter (so the hypothesis is needed). -/
example : loadProgram [⟨.load .bool, [], ["x"]⟩, ⟨.publish, ["x"], []⟩] = .ok () := by rfl
example (H : Hashes) : evalOff H [⟨.add, [], ["x"]⟩] [] = .error (.panic "index out of bounds") := by
  rfl

/-! ## Byte conversion of big integers (defect D7 and N14) -/

/-- `IntoBytes(n)` on a BigUint is total and the two sides agree, for every value, every limb
shape the gadget can hold it in, and every `n` (in particular `n` larger than the bytes the
limbs hold, which used to panic): off-circuit success means the circuit's range constraints hold
and both produce the same `n` bytes; off-circuit failure (value ≥ 2^(8n)) means the constraints
are violated. -/
theorem into_bytes_total (known : Bool) (s : Shape) (a n : Nat) (hs : isNormalized s = true) :
    (intoBytesOff (.big a) n = .ok (.bytes (natToLeBytes n a)) ∧
      intoBytesIn known (.big s a) n = .ok { outs := [.bytes (natToLeBytes n a)], sat := true } ∧
      (natToLeBytes n a).length = n ∧ a < 2 ^ (8 * n))
    ∨ (intoBytesOff (.big a) n = .error .cannotConvert ∧
      intoBytesIn known (.big s a) n = .ok { outs := [.bytes (natToLeBytes n a)], sat := false } ∧
      2 ^ (8 * n) ≤ a) := by
  by_cases h : a < 2 ^ (8 * n)
  · left
    have : ¬ byteLen a > n := by have := (byteLen_le_iff a n).2 h; omega
    simp [intoBytesOff, intoBytesIn, requireNormalized, hs, this, h, natToLeBytes_length]
  · right
    have : byteLen a > n := by
      have := (byteLen_le_iff a n); omega
    simp [intoBytesOff, intoBytesIn, requireNormalized, hs, this, h]
    omega

set_option exponentiation.threshold 400 in
/-- The D7 regression program: `Load(BigUint(16)) x; IntoBytes(40); Publish` with `x = 300`. -/
example : intoBytesOff (.big 300) 40 = .ok (.bytes (natToLeBytes 40 300)) ∧
    intoBytesIn true (.big (boundedShape 16) 300) 40 =
      .ok { outs := [.bytes (natToLeBytes 40 300)], sat := true } := by
  have := into_bytes_total true (boundedShape 16) 300 40 (by decide)
  rcases this with ⟨h1, h2, _, _⟩ | ⟨_, _, h⟩
  · exact ⟨h1, h2⟩
  · exact absurd h (by decide)

/-! ## Agreement of the two interpreters -/

/-- **Off-circuit success ⇒ the compiled circuit is satisfied with exactly `encode(P)`**
(`off_in_agree` of the design, partial — see below what is excluded).

For every program, every witness with canonical Jubjub scalars and all hash functions: if the
off-circuit interpreter succeeds with published values `P`, then the in-circuit interpreter on
the same witness either

* stops with a *static rejection* — `Unsupported` raised by one of the three comparison
  operations (the off-circuit versions are deliberately more general, see the comments in
  `assert_equal.rs`) or a limb-bookkeeping panic of the BigUint gadget — never with any other
  error; or
* runs to the end with **every constraint satisfied** by the honest assignment, and the raw
  public inputs it binds are exactly what `format_instance` computes from `P` and the recorded
  public-input types (whenever `format_instance` returns a value).

Partial with respect to the design statement in four explicit ways: (1) the hypothesis
`RunRegular` excludes Jubjub scalars built by `FromBytes` from 0 or ≥ 32 bytes — recorded finding
N7, for which the full statement is *false* (`off_in_agree_fails_for_long_scalars`); (2) the
static-rejection alternative; (3) `format_instance` succeeding is a hypothesis of the last
conjunct (that the recorded BigUint width bounds the value is not proved for products);
(4) the public-input types are those recorded by this run, not by the witness-free pass. -/
theorem off_in_agree_partial (H : Hashes) (p : Program) (w : Witness) (P : List IrValue)
    (hw : WitnessCanonical w) (hreg : RunRegular H w {} p) (h : evalOff H p w = .ok P) :
    (∃ e, evalIn H p w = .error e ∧ e.isStaticReject = true) ∨
    (∃ st, runIn H (some w) {} p = .ok st ∧ evalIn H p w = .ok (some st.pis) ∧
      st.piTypes.length = P.length ∧ ∀ pi, encodePI P st.piTypes = .ok pi → pi = st.pis) := by
  unfold evalOff at h
  obtain ⟨so, hso, rfl⟩ := (Except.map_ok_iff _ _ _).1 h
  have hinv0 : Inv ({} : OffState) ({} : InState) :=
    ⟨.nil, rfl, rfl, fun pi h => by simp [encodePI] at h; exact h⟩
  rcases runSim H w hw p {} {} so hinv0 hreg hso with ⟨e, he, hs⟩ | ⟨si, hsi, hinv⟩
  · exact .inl ⟨e, by simp [evalIn, he, Except.map], hs⟩
  · exact .inr ⟨si, hsi, by simp [evalIn, hsi, Except.map, hinv.sat], hinv.len, hinv.pis⟩

/-- Non-vacuity: a program using BigUint arithmetic, a byte conversion and two publications
satisfies the hypotheses, and the conclusion's second alternative is the one that holds. -/
example (H : Hashes) :
    let p : Program := [⟨.load (.big 16), [], ["x"]⟩, ⟨.add, ["x", "BigUint:01"], ["y"]⟩,
      ⟨.intoBytes 3, ["y"], ["b"]⟩, ⟨.publish, ["y", "b"], []⟩]
    let w : Witness := [("x", .big 300)]
    evalOff H p w = .ok [.big 301, .bytes [45, 1, 0]] ∧
    evalIn H p w = .ok (some [301, 45, 1, 0]) := by
  constructor <;> rfl

/-- The full-strength agreement statement is false on the pinned code (finding N7): the program
`Load(Bytes(32)) b; FromBytes(JubjubScalar) b -> s; Publish s` with `b = ff…ff` evaluates
off-circuit to one public input (the value reduced modulo the group order) while the compiled
circuit is satisfied and binds two public inputs (the 256 raw bits in chunks of 254). -/
theorem off_in_agree_fails_for_long_scalars (H : Hashes) :
    ∃ (p : Program) (w : Witness) (P : List IrValue) (ts : List IrType) (pi pis : List Nat),
      evalOff H p w = .ok P ∧ compile H p = .ok ts ∧ encodePI P ts = .ok pi ∧
      evalIn H p w = .ok (some pis) ∧ pi ≠ pis :=
  ⟨[⟨.load (.bytes 32), [], ["b"]⟩, ⟨.fromBytes .scalar, ["b"], ["s"]⟩, ⟨.publish, ["s"], []⟩],
   [("b", .bytes (List.replicate 32 255))],
   [.scalar (leBytesToNat (List.replicate 32 255) % RJ)], [.scalar],
   [leBytesToNat (List.replicate 32 255) % RJ],
   [leBytesToNat (List.replicate 32 255) % 2 ^ 254, leBytesToNat (List.replicate 32 255) / 2 ^ 254],
   by rfl, by rfl, by rfl, by rfl, by decide⟩

/-- **Off-circuit rejection ⇒ the compiled circuit is not satisfied** (`off_fail_unsat` of the
design, for *every* error class, hence also the `typing_errors_agree` direction "rejected
off-circuit ⇒ rejected in-circuit").

If the off-circuit interpreter fails on a program and witness — an assertion, a BigUint
underflow, a value that does not fit its byte length, an invalid point encoding, a zero modulus,
but also an unsupported type combination, a missing or ill-typed witness, an unknown or
duplicated name — then the in-circuit interpreter on the same witness never ends satisfied: it
returns an error value or at least one emitted constraint is violated by the honest assignment,
so no public-input vector is bound. Partial only in the hypothesis `RunRegular` (finding N7:
long Jubjub scalars are excluded because the simulation relation does not hold for them). -/
theorem off_fail_unsat_partial (H : Hashes) (p : Program) (w : Witness) (e : Err)
    (hw : WitnessCanonical w) (hreg : RunRegular H w {} p) (h : evalOff H p w = .error e) :
    ∀ pis, evalIn H p w ≠ .ok (some pis) := by
  intro pis
  unfold evalOff at h
  have h' := (Except.map_err_iff _ _ _).1 h
  have hinv0 : Inv ({} : OffState) ({} : InState) :=
    ⟨.nil, rfl, rfl, fun pi h => by simp [encodePI] at h; exact h⟩
  rcases runFail H w hw p {} {} e hinv0 hreg h' with ⟨e', he'⟩ | ⟨si, hsi, hs⟩
  · simp [evalIn, he', Except.map]
  · simp [evalIn, hsi, Except.map, hs]

/-- Non-vacuity, on the design's example of a divergence to be caught (`Sub` on BigUint): the
program `Load(BigUint(8)) x y; Sub x y -> z; Publish z` with `x = 5`, `y = 6` underflows
off-circuit and its circuit is unsatisfiable (`ok none`), while with `x = 6` both agree on 0. -/
example (H : Hashes) :
    let p : Program := [⟨.load (.big 8), [], ["x", "y"]⟩, ⟨.sub, ["x", "y"], ["z"]⟩, ⟨.publish, ["z"], []⟩]
    evalOff H p [("x", .big 5), ("y", .big 6)] = .error .underflow ∧
    evalIn H p [("x", .big 5), ("y", .big 6)] = .ok none ∧
    evalOff H p [("x", .big 6), ("y", .big 6)] = .ok [.big 0] ∧
    evalIn H p [("x", .big 6), ("y", .big 6)] = .ok (some [0]) := by
  refine ⟨?_, ?_, ?_, ?_⟩ <;> rfl

/-- Typing gap in the other direction, kept visible: the in-circuit pass rejects comparisons
that the off-circuit interpreter evaluates (here `IsEqual` on a Bool and a Native). This is the
only kind of typing disagreement `off_in_agree_partial` leaves open. -/
theorem typing_errors_agree_fails_for_comparisons (H : Hashes) :
    ∃ (p : Program) (w : Witness) (P : List IrValue) (e : Err),
      evalOff H p w = .ok P ∧ evalIn H p w = .error e ∧ e.isStaticReject = true :=
  ⟨[⟨.load .bool, [], ["a"]⟩, ⟨.load .native, [], ["b"]⟩, ⟨.isEq, ["a", "b"], ["c"]⟩, ⟨.publish, ["c"], []⟩],
   [("a", .bool true), ("b", .native 1)], [.bool false], .unsupported .isEq [.bool, .native],
   by rfl, by rfl, by rfl⟩

end MidnightZK.C18
