import MidnightZK.Proofs.C06.Edwards
import MidnightZK.Proofs.C06.EdwardsChip
import MidnightZK.Proofs.C06.Weierstrass
import MidnightZK.Proofs.C06.Group
import MidnightZK.Proofs.C06.EdAssoc
import MidnightZK.Proofs.C06.ForeignWiring
import MidnightZK.Proofs.C06.Incomplete
import MidnightZK.Proofs.C06.Svdw
import MidnightZK.Proofs.C06.MapToCurve
import MidnightZK.Model.C06.Edwards
import MidnightZK.Model.C06.Weierstrass
import MidnightZK.Model.C06.Htc
import MidnightZK.Gen.C06Gates
import MidnightZK.Gen.C06Htc
/-!
# C06 — elliptic-curve gadgets compute the group law and accept nothing else

Property theorems (helper lemmas live in `MidnightZK/Proofs/C06`). The gate theorems are stated
over the gate polynomials dumped from the real `EccChip::configure` (`Gen/C06Gates.lean`), for an
arbitrary field `F`; the curve parameter is the constant found in those polynomials (`jubDF`).
Hypothesis that is not proved here, always explicit: `EdComplete d` (`2 ≠ 0`, `-1` is a square,
`d` is not — the conditions of the completeness theorem of Bernstein–Lange; the Euler criterion
for the concrete `d` is `jubjub_d_nonsquare_euler` below). Associativity of the affine
twisted-Edwards law is a theorem (`edwards_add_assoc`). For the foreign Weierstrass chip the
instruction-level theorems are over the coordinates; the loop-level theorems are over an abstract
commutative group (that the curve points with the chord–tangent law form one is not proved).
-/
namespace MidnightZK.C06

variable {F : Type} [Lean.Grind.Field F]

/-! ## Generated constants -/

/-- `EccChip::configure` asserts `C::A == -1`: the dumped `A` is `p - 1`. -/
theorem jubjub_a_is_minus_one : Gen.jubA + 1 = Gen.nativeModulus := by decide +kernel

/-- Euler criterion for the curve parameter found in the gates: `d^((p-1)/2) = -1 (mod p)`, i.e.
`d` is a quadratic non-residue of the native field (the side condition `d_nonsquare` of
`EdComplete`), and `-1` is a residue (`p ≡ 1 mod 4`). -/
theorem jubjub_d_nonsquare_euler :
    powMod Gen.jubD ((Gen.nativeModulus - 1) / 2) Gen.nativeModulus = Gen.nativeModulus - 1 ∧
    Gen.nativeModulus % 4 = 1 := by decide +kernel

/-- The generator dumped from the running code satisfies the curve equation of the dumped `d`
(executable model), and the cofactor is 8 with `8·r` fitting the Hasse interval is not needed:
only `h = 8` and the scalar width `252` are used by the chip. -/
theorem jubjub_generator_on_curve :
    (EdCurve.onCurve ⟨Gen.nativeModulus, Gen.jubD, Gen.jubR, Gen.jubCofactor, Gen.jubScalarBits⟩
      (Gen.jubGenX, Gen.jubGenY)) = true ∧ Gen.jubCofactor = 8 ∧ Gen.jubScalarBits = 252 := by
  decide +kernel

/-! ## The three gates of the native chip -/

/-- **Membership gate** (`witness point`): on a row where `q_mem` is on, the dumped polynomial
vanishes iff `(x, y)` (columns 0, 1) satisfies `-x² + y² = 1 + d x² y²`. An off-curve pair can
never be assigned through `assign` / `point_from_coordinates_unsafe`. -/
theorem on_curve_gate_iff (env : Env F) (hsel : env.sel 2 = 1) :
    (Gen.memGate0 : Expr F).eval env = 0 ↔ EdOn jubDF (env.adv 0 0) (env.adv 1 0) := by
  rw [mem_gate_eval, hsel]; unfold EdOn
  constructor <;> intro h <;> grind

/-- Non-vacuity: the neutral element `(0, 1)` passes the membership gate. -/
example (env : Env F) (hsel : env.sel 2 = 1) (hx : env.adv 0 0 = 0) (hy : env.adv 1 0 = 1) :
    (Gen.memGate0 : Expr F).eval env = 0 :=
  (on_curve_gate_iff env hsel).2 (by rw [hx, hy]; exact edOn_id _)

/-- The three dumped polynomials of the `conditional add` gate vanish on a row with
`q_cond_add = 1` iff the row satisfies the three identities of the source comment. -/
theorem cond_add_gate_iff (env : Env F) (hsel : env.sel 1 = 1) :
    ((Gen.condAddGate0 : Expr F).eval env = 0 ∧ (Gen.condAddGate1 : Expr F).eval env = 0 ∧
      (Gen.condAddGate2 : Expr F).eval env = 0) ↔ CondAddHolds jubDF (rowOf env) := by
  rw [cond_add_gate0_eval, cond_add_gate1_eval, cond_add_gate2_eval, hsel]
  unfold CondAddHolds rowOf
  constructor
  · rintro ⟨a, b, c⟩; refine ⟨?_, ?_, ?_⟩ <;> grind
  · rintro ⟨a, b, c⟩; refine ⟨?_, ?_, ?_⟩ <;> grind

/-- The three dumped polynomials of the `double` gate vanish on a row with `q_double = 1` iff the
row and the first two cells of the next row satisfy the three identities of the source comment. -/
theorem double_gate_iff (env : Env F) (hsel : env.sel 0 = 1) :
    ((Gen.doubleGate0 : Expr F).eval env = 0 ∧ (Gen.doubleGate1 : Expr F).eval env = 0 ∧
      (Gen.doubleGate2 : Expr F).eval env = 0) ↔
      DoubleHolds jubDF (rowOf env) (env.adv 0 1) (env.adv 1 1) := by
  rw [double_gate0_eval, double_gate1_eval, double_gate2_eval, hsel]
  unfold DoubleHolds rowOf
  constructor
  · rintro ⟨a, b, c⟩; refine ⟨?_, ?_, ?_⟩ <;> grind
  · rintro ⟨a, b, c⟩; refine ⟨?_, ?_, ?_⟩ <;> grind

/-- **Conditional-add gate soundness** (every assignment of the row, including the prover-chosen
`xr`, `yr`, `xq·yq·xs·ys`): if the gate holds on a row whose `Q = (xq,yq)` and `S = (xs,ys)` are
curve points and whose `b` is a bit, then `(xr,yr) = Q` when `b = 0` and `(xr,yr) = Q + S` when
`b = 1` — the complete law, valid for the identity, `Q = S`, `Q = −S` and low-order points alike
(no exceptional case exists: `ed_denominators_ne_zero`). -/
theorem cond_add_gate_sound {d : F} (hc : EdComplete d) (env : Env F) (hd : d = jubDF)
    (hsel : env.sel 1 = 1)
    (h0 : (Gen.condAddGate0 : Expr F).eval env = 0) (h1 : (Gen.condAddGate1 : Expr F).eval env = 0)
    (h2 : (Gen.condAddGate2 : Expr F).eval env = 0)
    (hQ : EdOn d (env.adv 0 0) (env.adv 1 0)) (hS : EdOn d (env.adv 2 0) (env.adv 3 0))
    (hb : env.adv 4 0 = 0 ∨ env.adv 4 0 = 1) :
    (env.adv 4 0 = 0 → (env.adv 5 0, env.adv 6 0) = (env.adv 0 0, env.adv 1 0)) ∧
    (env.adv 4 0 = 1 →
      (env.adv 5 0, env.adv 6 0) = edAdd d (env.adv 0 0, env.adv 1 0) (env.adv 2 0, env.adv 3 0)) ∧
    EdOn d (env.adv 5 0) (env.adv 6 0) := by
  subst hd
  have hr := (cond_add_gate_iff env hsel).1 ⟨h0, h1, h2⟩
  obtain ⟨s0, s1⟩ := condAdd_sound hr
  have e1 : env.adv 4 0 = 1 →
      (env.adv 5 0, env.adv 6 0) = edAdd jubDF (env.adv 0 0, env.adv 1 0) (env.adv 2 0, env.adv 3 0) :=
    fun hb1 => edSum_eq_edAdd hc (P := (env.adv 0 0, env.adv 1 0)) (Q := (env.adv 2 0, env.adv 3 0))
      hQ hS (s1 hb1)
  refine ⟨fun hb0 => ?_, e1, ?_⟩
  · obtain ⟨a, b⟩ := s0 hb0
    exact Prod.ext a b
  · rcases hb with hb0 | hb1
    · obtain ⟨a, b⟩ := s0 hb0
      show EdOn jubDF (rowOf env).xr (rowOf env).yr
      rw [a, b]; exact hQ
    · exact edSum_closed hc hQ hS (s1 hb1)

/-- Non-vacuity of `cond_add_gate_sound`: the row `Q = S = (0,1)`, `b = 1`, `R = (0,1)`,
product `0` satisfies the three polynomials. -/
example (env : Env F) (hsel : env.sel 1 = 1)
    (h : rowOf env = ⟨0, 1, 0, 1, 1, 0, 1, 0, 0⟩) :
    (Gen.condAddGate0 : Expr F).eval env = 0 ∧ (Gen.condAddGate1 : Expr F).eval env = 0 ∧
      (Gen.condAddGate2 : Expr F).eval env = 0 := by
  rw [cond_add_gate_iff env hsel, h]; unfold CondAddHolds; simp only; grind

/-- **Double gate soundness**: if the gate holds on a row whose `(xp,yp)` (columns 5, 6) is a curve
point, the first two cells of the next row are `2·(xp,yp)` and lie on the curve; `xp_xp`
(column 7) is forced to `xp²`. -/
theorem double_gate_sound {d : F} (hc : EdComplete d) (env : Env F) (hd : d = jubDF)
    (hsel : env.sel 0 = 1)
    (h0 : (Gen.doubleGate0 : Expr F).eval env = 0) (h1 : (Gen.doubleGate1 : Expr F).eval env = 0)
    (h2 : (Gen.doubleGate2 : Expr F).eval env = 0)
    (hP : EdOn d (env.adv 5 0) (env.adv 6 0)) :
    (env.adv 0 1, env.adv 1 1) = edAdd d (env.adv 5 0, env.adv 6 0) (env.adv 5 0, env.adv 6 0) ∧
    EdOn d (env.adv 0 1) (env.adv 1 1) := by
  subst hd
  have hr := (double_gate_iff env hsel).1 ⟨h0, h1, h2⟩
  have s := double_sound hr
  exact ⟨edSum_eq_edAdd hc (P := (env.adv 5 0, env.adv 6 0)) (Q := (env.adv 5 0, env.adv 6 0)) hP hP s,
    edSum_closed hc hP hP s⟩

/-- Non-vacuity of `double_gate_sound`: doubling the neutral element. -/
example (env : Env F) (hsel : env.sel 0 = 1)
    (h : rowOf env = ⟨0, 1, 0, 1, 0, 0, 1, 0, 0⟩) (hx : env.adv 0 1 = 0) (hy : env.adv 1 1 = 1) :
    (Gen.doubleGate0 : Expr F).eval env = 0 ∧ (Gen.doubleGate1 : Expr F).eval env = 0 ∧
      (Gen.doubleGate2 : Expr F).eval env = 0 := by
  rw [double_gate_iff env hsel, h, hx, hy]; unfold DoubleHolds; simp only; grind

/-- **Completeness of the gates**: the honest values (`R = Q + b·S` by the affine formulas, the
product cell) satisfy the conditional-add identities for every pair of curve points and every bit:
an honest prover is never rejected, whatever the operand classes. -/
theorem cond_add_gate_complete {d : F} (hc : EdComplete d) (Q S : F × F) (hQ : EdOnP d Q)
    (hS : EdOnP d S) (bit : Bool) :
    CondAddHolds d
      ⟨Q.1, Q.2, S.1, S.2, if bit then 1 else 0,
        (if bit then edAdd d Q S else Q).1, (if bit then edAdd d Q S else Q).2, 0,
        Q.1 * Q.2 * S.1 * S.2⟩ := by
  cases bit
  · unfold CondAddHolds; simp only [Bool.false_eq_true, if_false]; grind
  · obtain ⟨a, b⟩ := edAdd_sum hc hQ hS
    unfold CondAddHolds; simp only [if_true]
    refine ⟨?_, ?_, ?_⟩ <;> grind

/-! ## The addition law used by the gates -/

/-- **No exceptional cases**: for curve points the two denominators of the law never vanish
(`d` a non-square, `-1` a square). This is what makes the single gate valid for `P = ±Q`, the
identity and points of order 2, 4, 8. -/
theorem edwards_denominators_ne_zero {d : F} (hc : EdComplete d) {x1 y1 x2 y2 : F}
    (h1 : EdOn d x1 y1) (h2 : EdOn d x2 y2) :
    1 + d * x1 * x2 * y1 * y2 ≠ 0 ∧ 1 - d * x1 * x2 * y1 * y2 ≠ 0 :=
  ed_denominators_ne_zero hc h1 h2

/-- Closure: results of `add`, `double`, every accumulator of `mul` stay on the curve. -/
theorem edwards_add_closed {d : F} (hc : EdComplete d) {P Q : F × F} (hP : EdOnP d P)
    (hQ : EdOnP d Q) : EdOnP d (edAdd d P Q) := edAdd_closed hc hP hQ

/-- `negate` (`(x,y) ↦ (−x,y)`): stays on the curve and is the inverse: `P + (−P) = (0,1)`. -/
theorem negate_sound {d : F} (hc : EdComplete d) {P : F × F} (hP : EdOnP d P) :
    EdOnP d (-P.1, P.2) ∧ edAdd d P (-P.1, P.2) = (0, 1) := by
  have hn : EdOnP d (-P.1, P.2) := edOn_neg hP
  exact ⟨hn, (edSum_eq_edAdd hc hP hn (edSum_neg hP)).symm⟩

/-- The neutral element `(0,1)` (what `assign_fixed(identity)` writes and `mul` starts from). -/
theorem identity_sound {d : F} (hc : EdComplete d) {P : F × F} (hP : EdOnP d P) :
    EdOnP d ((0, 1) : F × F) ∧ edAdd d P (0, 1) = P ∧ edAdd d (0, 1) P = P :=
  ⟨edOn_id d, edAdd_id_right hc hP, edAdd_id_left hc hP⟩

/-! ## Scalar multiplication -/

/-- **Associativity of the twisted-Edwards addition law** on curve points (`a = −1`, `d` a
non-square, `−1` a square): `(P + Q) + R = P + (Q + R)` for the affine formulas with inverses.
Two polynomial identities of degree 15 (`assoc_x_key`, `assoc_y_key`: the cross-multiplied
difference lies in the ideal of the three curve equations) plus `edwards_denominators_ne_zero`.
With closure, the neutral element, `negate_sound` and commutativity (`edAdd_comm`) the curve points
form a commutative group: nothing about the group law of the native chip is assumed any more. -/
theorem edwards_add_assoc {d : F} (hc : EdComplete d) {P Q R : F × F} (hP : EdOnP d P)
    (hQ : EdOnP d Q) (hR : EdOnP d R) :
    edAdd d (edAdd d P Q) R = edAdd d P (edAdd d Q R) := edwards_assoc hc P Q R hP hQ hR

/-- **`EccChip::mul`**: if every row of the `assign mul` region satisfies the conditional-add gate
(with the base copied in columns 2, 3 and a bit in column 4), every row but the last satisfies the
double gate, and the first accumulator is the neutral element, then the point returned (columns
5, 6 of the last row) is `[n]·base` with `n = Σ bᵢ 2^(len-1-i)` the integer whose big-endian bits
are the `b` cells — as an integer, for bit vectors of ANY length, so scalars at or above the group
order (bit strings from `scalar_from_le_bytes` / `convert`) are covered. (Strengthened: the
associativity hypothesis `EdAssoc d` of earlier rounds is now proved, `edwards_add_assoc`.) -/
theorem scalar_mul_loop [DecidableEq F] {d : F} (hc : EdComplete d)
    {base : F × F} (hB : EdOnP d base) (r0 : EccRow F) (rows : List (EccRow F))
    (h : MulChain d base (r0 :: rows)) (hacc : (r0.xq, r0.yq) = (0, 1)) :
    chainResult (r0 :: rows) = some (edSmul d (chainScalar 0 (r0 :: rows)) base) :=
  mulChain_sound hc (edwards_assoc hc) hB rows 0 r0 h (by rw [hacc]; rfl)

/-- **Scalars at or above the group order**: if `[r]·base` is the neutral element (`base` in the
subgroup of order `r`), `[n]·base = [n mod r]·base` for every integer `n` — so the point
`scalar_mul_loop` returns for a bit string whose value is `r`, `r + 1`, `2^bits − 1`, … is the
multiple by the reduced scalar, and `0`, `r` give the neutral element. -/
theorem scalar_mul_mod_order {d : F} (hc : EdComplete d) {base : F × F} (hB : EdOnP d base)
    (r : Nat) (hr : edSmul d r base = (0, 1)) (n : Nat) :
    edSmul d n base = edSmul d (n % r) base := by
  have ha := edwards_assoc hc
  have hmul : ∀ q : Nat, edSmul d (r * q) base = (0, 1) := by
    intro q
    induction q with
    | zero => rfl
    | succ q ih =>
      rw [Nat.mul_succ, edSmul_add hc ha hB, ih, hr]
      exact edAdd_id_left hc (edOn_id d)
  have hn : n = r * (n / r) + n % r := (Nat.div_add_mod n r).symm
  conv => lhs; rw [hn]
  rw [edSmul_add hc ha hB, hmul]
  exact edAdd_id_left hc (edSmul_on hc hB _)

/-- Non-vacuity: the neutral element has order 1, every multiple of it is `[0]` of it. -/
example {d : F} (hc : EdComplete d) (n : Nat) :
    edSmul d n ((0, 1) : F × F) = edSmul d (n % 1) (0, 1) :=
  scalar_mul_mod_order hc (base := (0, 1)) (edOn_id d) 1 (by
    show edAdd d (0, 1) (0, 1) = (0, 1)
    exact edAdd_id_left hc (P := (0, 1)) (edOn_id d)) n

/-- The scalar of a chain is the big-endian value of its bit column: with the accumulator of
the first row equal to `[k]·base`, `chainScalar k (r :: t) = foldl (2·acc + b) (k + b_r) t`;
for `k = 0` this is `Σ bᵢ 2^(len-1-i)`. -/
theorem chainScalar_bits [DecidableEq F] :
    ∀ (t : List (EccRow F)) (k : Nat) (r : EccRow F),
      chainScalar k (r :: t) =
        t.foldl (fun acc r => 2 * acc + (if r.b = 1 then 1 else 0)) (k + (if r.b = 1 then 1 else 0))
  | [], k, r => by simp [chainScalar]
  | r' :: t, k, r => by
    rw [chainScalar, chainScalar_bits t _ r']
    simp [List.foldl_cons]

/-- Non-vacuity: a three-row chain with bits `1,0,1` multiplies by `5`. -/
example [DecidableEq F] (h10 : (1 : F) ≠ 0) (r1 r2 r3 : EccRow F) (h1 : r1.b = 1) (h2 : r2.b = 0) (h3 : r3.b = 1) :
    chainScalar 0 [r1, r2, r3] = 5 := by
  have : ¬ ((0 : F) = 1) := fun h => h10 h.symm
  simp [chainScalar, h1, h2, h3, this]

/-! ## Foreign Weierstrass chip (secp256k1, BLS12-381 G1): field identities of the EC gates -/

/-- The `on_curve` gate with `z = x²` asserts the curve equation: `assign` and
`point_from_coordinates` accept exactly the pairs on `y² = x³ + b`. -/
theorem weierstrass_on_curve_gate_iff (b x y : F) : OnCurveId b x y (x * x) ↔ WOn b x y :=
  onCurveId_iff b x y

/-- **`assert_add` is sound**: for curve points with `px ≠ qx`, any `(rx, ry, λ)` satisfying the
`slope(p,q)`, `lambda_squared(p,q,r)` and `slope(p,−r)` identities is the chord sum — `λ`, `rx`,
`ry` are uniquely determined — and lies on the curve. The careful case `rx = px` of the source
comment needs no separate treatment: the second slope identity is multiplicative and always
yields `ry = λ(px − rx) − py`. -/
theorem weierstrass_add_sound {b px py qx qy rx ry lam : F} (hP : WOn b px py) (hQ : WOn b qx qy)
    (hne : px ≠ qx) (h : AddIds px py qx qy rx ry lam) :
    lam = (qy - py) * (qx - px)⁻¹ ∧ rx = lam * lam - px - qx ∧ ry = lam * (px - rx) - py ∧
      WOn b rx ry := by
  obtain ⟨a, b1, c⟩ := addIds_formulas h
  have hd : qx - px ≠ 0 := by grind
  have hw := Lean.Grind.Field.mul_inv_cancel hd
  refine ⟨?_, b1, c, addIds_on_curve hP hQ hne h⟩
  generalize (qx - px)⁻¹ = w at hw ⊢
  have : lam * ((qx - px) * w) = (qy - py) * w := by grind
  rw [hw] at this; grind

/-- Non-vacuity: on `y² = x³ + 1` the points `(0,1)`, `(2,3)` add to `(−1, 0)` with slope `1`. -/
example : AddIds (0:F) 1 2 3 (-1) 0 1 := by
  unfold AddIds SlopeId LamSqId; refine ⟨?_, ?_, ?_⟩ <;> grind

/-- The same identities with `px = qx` and `p = q` leave `λ` free (this is why `add` only enables
`assert_add` under `px ≠ qx` and `incomplete_add` asserts different `x`): any `λ` passes the first
slope identity. -/
theorem assert_add_needs_distinct_x (px py lam : F) : SlopeId 1 px py px py lam := by
  unfold SlopeId; grind

/-- **`assert_double` is sound**: for a curve point with `2·py ≠ 0`, any `(rx, ry, λ)` satisfying
the `tangent`, `lambda_squared(p,p,r)` and `slope(p,−r)` identities is `2p` — uniquely — and lies
on the curve. -/
theorem weierstrass_double_sound {b px py rx ry lam : F} (hP : WOn b px py) (hy : 2 * py ≠ 0)
    (h : DoubleIds px py rx ry lam) :
    lam = 3 * (px * px) * (2 * py)⁻¹ ∧ rx = lam * lam - px - px ∧ ry = lam * (px - rx) - py ∧
      WOn b rx ry := by
  obtain ⟨a, b1, c⟩ := doubleIds_formulas h
  have hw := Lean.Grind.Field.mul_inv_cancel hy
  refine ⟨?_, b1, c, doubleIds_on_curve hP hy h⟩
  generalize (2 * py)⁻¹ = w at hw ⊢
  have : lam * ((2 * py) * w) = 3 * (px * px) * w := by grind
  rw [hw] at this; grind

/-- Non-vacuity: on `y² = x³ + 1`, doubling `(2,3)`: `λ = 2`, `r = (0, 1)`. -/
example : DoubleIds (2:F) 3 0 1 2 := by
  unfold DoubleIds TangentId SlopeId LamSqId; refine ⟨?_, ?_, ?_⟩ <;> grind

/-- **`ForeignEccChip::add` computes the complete group law and accepts nothing else**: for
well-formed operands (curve points or flagged identities, with arbitrary coordinates under the
flag), whatever the prover puts in `r`, `λ_double`, `λ_add`, the constraints of `add` force
`r = p + q` as a group element: identity operands, `p = q` (doubling), `p = −q` (flag forced to
1) and the generic chord. Needs only: odd characteristic and no curve point with `y = 0`. -/
theorem foreign_add_complete_sound [DecidableEq F] {b : F} (h2 : (2 : F) ≠ 0)
    (hno2 : NoTwoTorsion b) {p q r : WP F} {lamD lamA : F} (hp : p.wf b) (hq : q.wf b)
    (h : AddHolds p q r lamD lamA) : r.same (wAdd p q) ∧ r.wf b :=
  foreign_add_sound h2 hno2 hp hq h

/-- Non-vacuity: `p = −q` (the case the incomplete formulas cannot handle) is satisfiable with
`r` flagged as the identity. -/
example [DecidableEq F] :
    AddHolds (⟨false, 2, 3⟩ : WP F) ⟨false, 2, -3⟩ ⟨true, 0, 0⟩ 0 0 := by
  refine ⟨by simp, by simp, ?_, ?_, ?_⟩
  · have : (3 : F) + -3 = 0 := by grind
    simp [this]
  · simp
  · simp

/-- **`ForeignEccChip::double`**: equal identity flags and, for a non-identity `p`, the tangent
identities: `r = 2p` as a group element. -/
theorem foreign_double_complete_sound [DecidableEq F] {b : F} (h2 : (2 : F) ≠ 0)
    (hno2 : NoTwoTorsion b) {p r : WP F} {lam : F} (hp : p.wf b) (h : DoubleHoldsW p r lam) :
    r.same (wDouble p) ∧ r.wf b :=
  foreign_double_sound h2 hno2 hp h

/-- `negate` (`(x, y) ↦ (x, −y)`, same flag) maps curve points to curve points and `p + (−p)` is
the identity in the complete law. -/
theorem foreign_negate_sound [DecidableEq F] {b : F} (p : WP F) (hp : p.wf b) :
    (⟨p.isId, p.x, -p.y⟩ : WP F).wf b ∧ (wAdd p ⟨p.isId, p.x, -p.y⟩).isId = true := by
  constructor
  · intro hi; have := hp hi; unfold WOn at *; simp only at *; grind
  · cases hpi : p.isId
    · have : p.y + -p.y = 0 := by grind
      simp [wAdd, hpi, this]
    · simp [wAdd, hpi]

/-! ## Foreign chip: the instructions built on the incomplete addition -/

/-- **`incomplete_add` is sound under exactly its preconditions**: `p`, `q` non-identity curve
points with `p.x ≠ q.x`; whatever `r`, `λ` the prover witnesses, `r = p + q` in the complete law
and `r` is a non-identity curve point. -/
theorem foreign_incomplete_add_sound [DecidableEq F] {b : F} {p q r : WP F} {lam : F}
    (hp : p.wf b) (hq : q.wf b) (hpi : p.isId = false) (hqi : q.isId = false) (hx : p.x ≠ q.x)
    (h : IncAddHolds p q r lam) : r.same (wAdd p q) ∧ r.wf b ∧ r.isId = false :=
  incomplete_add_sound hp hq hpi hqi hx h

/-- Non-vacuity: `(0,1) + (2,3) = (−1, 0·…)` on `y² = x³ + 1` passes `incomplete_add`. -/
example : IncAddHolds (⟨false, 0, 1⟩ : WP F) ⟨false, 2, 3⟩ ⟨false, -1, 0⟩ 1 := by
  refine ⟨rfl, ?_, ?_, ?_⟩
  · unfold SlopeId; simp only; grind
  · unfold LamSqId; simp only; grind
  · unfold SlopeId; simp only; grind

/-- **Exceptional case `p = −q`: excluded by the emitted constraints** (the first slope identity
becomes `2·p.y = 0`): `incomplete_add` is unsatisfiable, as its documentation says. -/
theorem foreign_incomplete_add_opposite_unsat {p q r : WP F} {lam : F} (h2 : (2 : F) ≠ 0)
    (hy : p.y ≠ 0) (hx : p.x = q.x) (hyn : q.y = -p.y) : ¬ IncAddHolds p q r lam :=
  incomplete_add_opposite_unsat h2 hy hx hyn

/-- **Exceptional case `p = q`: NOT excluded by `incomplete_add` itself** — every `λ` passes and
the result is the one-parameter family `(λ² − 2p.x, λ(p.x − r.x) − p.y)`. Soundness of every use
of `incomplete_add` therefore needs a separate exclusion of `p = q`; the model makes a missing
exclusion visible: with this lemma the soundness statement of the caller is refutable. -/
theorem foreign_incomplete_add_equal_unconstrained (p : WP F) (qid : Bool) (lam : F) :
    IncAddHolds p ⟨qid, p.x, p.y⟩
      ⟨p.isId, lam * lam - p.x - p.x, lam * (p.x - (lam * lam - p.x - p.x)) - p.y⟩ lam :=
  incomplete_add_equal_free p qid lam

/-- **Table loop of `windowed_msm`** (`acc₀ = −α`, `acc_k = incomplete_add(acc_{k−1}, p)`): from
`p.is_id = 0` (asserted), `−α` a non-identity curve point and the single emitted assertion
`α.x ≠ p.x` (`incomplete_assert_different_x(α, p)`; needed only when the loop is non-empty), every
addition of the loop is non-exceptional and every table entry is the complete sum of the previous
entry and `p`, a non-identity curve point — for a loop of any length, with no assumption on the
order of the points: an entry with `x = p.x` is `−p` and makes the next `incomplete_add`
unsatisfiable. -/
theorem windowed_msm_table_sound [DecidableEq F] {b : F} (h2 : (2 : F) ≠ 0)
    (hno2 : NoTwoTorsion b) {p : WP F} (hp : p.wf b) (hpi : p.isId = false)
    (rows : List (WP F × F)) (acc : WP F) (hacc : acc.wf b) (hai : acc.isId = false)
    (hx : rows ≠ [] → acc.x ≠ p.x) (h : TableChain p acc rows) : TableSpec b p acc rows :=
  table_chain_sound h2 hno2 hp hpi rows acc hacc hai hx h

/-- Non-vacuity: a one-step table on `y² = x³ + 1`. -/
example : TableChain (⟨false, 2, 3⟩ : WP F) ⟨false, 0, 1⟩ [(⟨false, -1, 0⟩, 1)] := by
  refine ⟨⟨rfl, ?_, ?_, ?_⟩, trivial⟩
  · unfold SlopeId; simp only; grind
  · unfold LamSqId; simp only; grind
  · unfold SlopeId; simp only; grind

/-- **`mul_by_constant`, small constants: the identity never reaches the incomplete
multiplication**: `p' = select(base.is_id, g, base)` is not flagged, the result is the identity
for the identity and `mul base` otherwise, for whatever function `mul_by_u128` computes on
non-identity points. -/
theorem mul_by_constant_identity_swap {g idp base p' r' res : WP F} (mul : WP F → WP F)
    (hg : g.isId = false) (hid : idp.isId = true)
    (h1 : SelectHolds base.isId g base p') (hm : r' = mul p')
    (h3 : SelectHolds base.isId idp r' res) :
    p'.isId = false ∧ (base.isId = true → res.isId = true) ∧
      (base.isId = false → res = mul base) :=
  mul_const_swap_sound mul hg hid h1 hm h3

/-! ## Multiplication algorithms of the foreign chip (any commutative group) -/

section Group
variable {G : Type} [AddCommGroup G]

/-- **`mul_by_constant`, small constants**: the `u128` the code rebuilds from the (at most two)
64-bit digits of a constant below `2^128` is the constant itself. (The pinned tree summed the
digits; every constant in `[2^64, 2^128)` multiplied by the wrong integer — fixed by 8cb4393.) -/
theorem u128_of_digits_eq (s : Nat) (h : s < 2 ^ 128) : WCurve.u128OfDigits s = s := by
  unfold WCurve.u128OfDigits
  have : s / 2 ^ 64 < 2 ^ 64 := by omega
  rw [Nat.mod_eq_of_lt this]; omega

/-- Non-vacuity / regression: `2^64`, whose digit sum is `1`. -/
example : WCurve.u128OfDigits (2 ^ 64) = 2 ^ 64 ∧ (2 ^ 64) % 2 ^ 64 + (2 ^ 64 / 2 ^ 64) % 2 ^ 64 = 1 := by
  decide

/-- **`mul_by_u128`** (double-and-add from the least significant bit, accumulator absent until
the first set bit): with `add`/`double` computing the group operations, the loop returns `n·p`
for every `n` that fits the fuel, and the accumulator is present whenever `n > 0`. -/
theorem mul_by_u128_sound (fuel n : Nat) (p : G) (h : n < 2 ^ fuel) :
    optVal (WCurve.mulLsbG (· + ·) (fun x => x + x) fuel n p none) = n • p ∧
    (0 < n → (WCurve.mulLsbG (· + ·) (fun x => x + x) fuel n p none).isSome = true) := by
  refine ⟨?_, mulLsbG_isSome fuel n p none h⟩
  rw [mulLsbG_val fuel n p none h]; simp [optVal]

/-- Non-vacuity: `13·p` in ℤ. -/
example : optVal (WCurve.mulLsbG (· + ·) (fun x => x + x) 4 13 (5 : ℤ) none) = 65 := by decide

/-- **`windowed_msm`**: start from `l·R` (`R` the prover-chosen blinding point, `l` the number of
bases); every iteration doubles `ws` times and adds, for each base `j`, the table entry
`k_j·P_j − α` with `α = (2^ws − 1)·R`; finally `l·R` is subtracted. The result is
`Σ_j s_j·P_j` with `s_j` the integer whose base-`2^ws` digits (most significant first) are the
windows — **for every `R`**: the blinding cancels identically, so the prover's choice of `R`
cannot change the result. -/
theorem windowed_msm_sound (ws l : Nat) (R : G) (P : Nat → G) (rows : List (Nat → Nat)) :
    rows.foldl (windowStep ws l ((2 ^ ws - 1) • R) P) (l • R) - l • R
      = dotN l (combine ws (fun _ => 0) rows) P := by
  have hz : dotN l (fun _ => 0) P = 0 := by simp [dotN]
  have h0 : l • R = l • R + dotN l (fun _ => 0) P := by rw [hz, add_zero]
  conv => lhs; rw [h0]
  rw [windowed_fold, ← h0, add_sub_cancel_left]

/-- Non-vacuity: one base, windows `[1, 2]` of 4 bits: the scalar is `18`. -/
example : combine 4 (fun _ => 0) [fun _ => 1, fun _ => 2] 0 = 18 := by decide

/-- **`mul_by_u128` as wired (incomplete additions)**: every addition of the loop is an
`incomplete_add`, i.e. the relation `IncAddG` (unsatisfiable for `a = −b`, the sum for `a ≠ ±b`,
nothing for `a = b`). If no multiple `m • p` with `0 < m < 2^fuel` is the identity — the chip's
own argument: the order of every non-identity point exceeds `2^129` — every accepted run returns
`n • p`, for every `n < 2^fuel` and whatever the prover witnesses. -/
theorem mul_by_u128_wiring_sound (p : G) (fuel n : ℕ) (hn : n < 2 ^ fuel)
    (hord : ∀ m : ℕ, 0 < m → m < 2 ^ fuel → m • p ≠ 0) (out : Option G)
    (h : MulLsbRel fuel n p none out) : optVal out = n • p :=
  mul_by_u128_incomplete_sound p fuel n hn hord out h

/-- **… and the order hypothesis cannot be dropped**: with a base of order 3 the constraints of
`mul_by_u128(5, p)` accept every result (the addition `p + 4p` has equal operands). Such bases
exist on the curve of BLS12-381 G1 (cofactor `3·11²·…`; `(0, ±2)` has order 3) and the chip
constrains assigned points to the curve only: finding `foreign:bls:mul_by_u128:small-order-base`
(the harness shows the real circuit rejecting the honest witness of `mul_by_constant(5, (0,2))`
and, with a forged slope, accepting a result that is not on the curve). -/
theorem mul_by_u128_needs_large_order (x : ZMod 3) :
    MulLsbRel 3 5 (1 : ZMod 3) none (some x) := mul_by_u128_small_order_unconstrained x

/-- **`windowed_msm` as wired**: the double-and-add loop whose additions are `incomplete_add`s,
each preceded by `incomplete_assert_different_x(acc, addend)` (both exceptional cases excluded by
an emitted constraint), started at `l•R`, with table entries `k•P_j − α`, `α = (2^ws − 1)•R`,
followed by the COMPLETE `add(acc, −l•R)`: the result is `Σ_j s_j•P_j`, `s_j` the integer with
the given base-`2^ws` digits — for every prover-chosen `R`. -/
theorem windowed_msm_wiring_sound (ws l : ℕ) (R : G) (P : ℕ → G) (rows : List (ℕ → ℕ)) (acc : G)
    (h : WindowLoopRel ws l ((2 ^ ws - 1) • R) P rows (l • R) acc) :
    acc - l • R = dotN l (combine ws (fun _ => 0) rows) P :=
  windowed_msm_incomplete_sound ws l R P rows acc h

/-- Non-vacuity: one base `P = 1 ∈ ℤ`, `R = 100`, one window `k = 3`: `acc = 16·100 + (3 − 1500)`. -/
example : WindowLoopRel 4 1 ((2 ^ 4 - 1) • (100 : ℤ)) (fun _ => 1) [fun _ => 3] (1 • (100 : ℤ)) 103 := by
  refine ⟨103, ⟨1600, rfl, ⟨by decide, by decide⟩, by decide, fun _ => by decide⟩, rfl⟩

/-- **GLV re-check** (`glv_split`): the circuit asserts `x = ±x₁ + ζ·(±x₂)` in the scalar field
and uses `P₁ = ±P`, `P₂ = ±φ(P)` with `φ(P) = (ζ_base·x, y) = ζ·P`; then
`x·P = x₁·P₁ + x₂·P₂` whatever half-size scalars and signs the prover supplies: the off-circuit
decomposition `glv_scalar_decomposition` is a hint that is fully re-checked. -/
theorem glv_recheck_sound (P φP : G) (x x1 x2 ζ : ℤ) (s1 s2 : Bool) (hφ : φP = ζ • P)
    (hx : x • P = ((if s1 then x1 else -x1) + ζ * (if s2 then x2 else -x2)) • P) :
    x • P = x1 • (if s1 then P else -P) + x2 • (if s2 then φP else -φP) :=
  glv_recombine P φP x x1 x2 ζ s1 s2 hφ hx

/-- Non-vacuity in ℤ: `P = 1`, `ζ = 7`, `x = 3 − 7·2`. -/
example : ((-11 : ℤ)) • (1 : ℤ) = 3 • (if true then (1:ℤ) else -1) + 2 • (if false then (7:ℤ) else -7) := by
  decide

end Group

/-- The endomorphism constants of the running code are cube roots of unity different from 1 in
the base and scalar fields of both emulated curves (`ζ³ = 1`, `ζ ≠ 1`), as `glv_split` needs. -/
theorem glv_constants_cube_roots :
    powMod Gen.secpBaseZeta 3 Gen.secpP = 1 ∧ Gen.secpBaseZeta ≠ 1 ∧
    powMod Gen.secpScalarZeta 3 Gen.secpR = 1 ∧ Gen.secpScalarZeta ≠ 1 ∧
    powMod Gen.blsBaseZeta 3 Gen.blsP = 1 ∧ Gen.blsBaseZeta ≠ 1 ∧
    powMod Gen.blsScalarZeta 3 Gen.blsR = 1 ∧ Gen.blsScalarZeta ≠ 1 := by decide +kernel

/-- Curve coefficients of the emulated curves as the running code has them (`a = 0`, `b = 7`
and `b = 4`), and the four EC gates carry one polynomial per auxiliary modulus plus the native
one. -/
theorem foreign_curve_constants :
    Gen.secpA = 0 ∧ Gen.secpB = 7 ∧ Gen.blsA = 0 ∧ Gen.blsB = 4 ∧
    Gen.secpEcGatePolys = List.replicate 4 (Gen.secpModuli.length + 1) ∧
    Gen.blsEcGatePolys = List.replicate 4 (Gen.blsModuli.length + 1) := by decide +kernel

/-! ## `mul_by_constant`: digit recomposition and branch selection -/

/-- Two digits: `(d1 << 64) | d0 = d1·2^64 + d0` (no bit is shifted out, the `|` is an addition). -/
theorem foldDigits_two (d0 d1 : Nat) (h0 : d0 < 2 ^ 64) (h1 : d1 < 2 ^ 64) :
    WCurve.foldDigitsU128 [d0, d1] = d1 * 2 ^ 64 + d0 := by
  unfold WCurve.foldDigitsU128
  simp only [List.reverse_cons, List.reverse_nil, List.nil_append, List.cons_append,
    List.foldl_cons, List.foldl_nil, Nat.zero_shiftLeft, Nat.zero_mod, Nat.zero_or]
  have e1 : (d1 <<< 64) % 2 ^ 128 = d1 <<< 64 := by
    rw [Nat.shiftLeft_eq]; apply Nat.mod_eq_of_lt; omega
  rw [e1, ← Nat.shiftLeft_add_eq_or_of_lt h0, Nat.shiftLeft_eq]

/-- **`mul_by_constant`, digit recomposition** (`to_u64_digits().iter().rev().fold(0u128,
|acc, limb| (acc << 64) | limb)`, mirrored with the `u128` truncation of `<<` and the bitwise
`|`): for every constant below `2^128` the rebuilt `u128` is the constant — whatever the number
of digits (0, 1 or 2). Seed C06-3 (digits folded in the wrong order) breaks exactly this. -/
theorem mul_by_constant_digits (s : Nat) (h : s < 2 ^ 128) :
    WCurve.foldDigitsU128 (WCurve.u64Digits 3 s) = s := by
  by_cases h0 : s = 0
  · subst h0; decide
  · by_cases hs : s < 2 ^ 64
    · have hd : s / 2 ^ 64 = 0 := Nat.div_eq_of_lt hs
      have : WCurve.u64Digits 3 s = [s] := by
        unfold WCurve.u64Digits
        rw [if_neg h0, hd, Nat.mod_eq_of_lt hs]
        unfold WCurve.u64Digits
        rw [if_pos rfl]
      rw [this]
      simp [WCurve.foldDigitsU128]
    · have hq : s / 2 ^ 64 < 2 ^ 64 := by omega
      have hq0 : s / 2 ^ 64 ≠ 0 := by omega
      have hqq : s / 2 ^ 64 / 2 ^ 64 = 0 := Nat.div_eq_of_lt hq
      have : WCurve.u64Digits 3 s = [s % 2 ^ 64, s / 2 ^ 64] := by
        unfold WCurve.u64Digits
        rw [if_neg h0]
        unfold WCurve.u64Digits
        rw [if_neg hq0, hqq, Nat.mod_eq_of_lt hq]
        unfold WCurve.u64Digits
        rw [if_pos rfl]
      rw [this, foldDigits_two _ _ (Nat.mod_lt _ (by decide)) hq]
      omega

/-- **Branch selection covers every constant**: `bits() ≤ 128` iff the constant is below `2^128`,
so every constant takes exactly one branch, the `u128` branch multiplies by the constant itself
and the windowed branch receives the constant unchanged. -/
theorem mul_by_constant_branch_cover (s : Nat) :
    (s < 2 ^ 128 ∧ WCurve.mulConstBranch s = .u128 s) ∨
    (2 ^ 128 ≤ s ∧ WCurve.mulConstBranch s = .windowed s) := by
  unfold WCurve.mulConstBranch WCurve.bitLen
  by_cases h0 : s = 0
  · subst h0; left; decide
  · have hl : s.log2 < 128 ↔ s < 2 ^ 128 := Nat.log2_lt h0
    rw [if_neg h0]
    by_cases hs : s < 2 ^ 128
    · left
      have : s.log2 + 1 ≤ 128 := by have := hl.mpr hs; omega
      rw [if_pos this, mul_by_constant_digits s hs]
      exact ⟨hs, rfl⟩
    · right
      have : ¬ (s.log2 + 1 ≤ 128) := by
        intro h; apply hs; apply hl.mp; omega
      rw [if_neg this]
      exact ⟨by omega, rfl⟩

/-- The boundary constants of the two branches (and the digit boundary), evaluated. -/
example :
    [2 ^ 64 - 1, 2 ^ 64, 2 ^ 64 + 1, 2 ^ 127, 2 ^ 128 - 1].all
      (fun s => WCurve.mulConstBranch s == .u128 s) = true ∧
    [2 ^ 128, 2 ^ 128 + 1].all (fun s => WCurve.mulConstBranch s == .windowed s) = true := by
  decide +kernel

/-! ## Map-to-curve and hash-to-curve on Jubjub

`mtc_params.rs`, `mtc_cpu.rs` (the CPU reference that defines `hash_to_curve`), `mtc.rs` (the
in-circuit gadget: the same 36 steps on `base_field` instructions). -/

/-- The parameters as regenerated from `mtc_params.rs`. -/
def jubHtc : HtcParams :=
  { p := Gen.nativeModulus, z := Gen.svdwZ, a := Gen.svdwA, b := Gen.svdwB, j := Gen.montJ,
    k := Gen.montK }

/-- The native curve as dumped from the gates. -/
def jubE : EdCurve :=
  ⟨Gen.nativeModulus, Gen.jubD, Gen.jubR, Gen.jubCofactor, Gen.jubScalarBits⟩

/-- **The SvdW constants satisfy their defining equations** (`Z`, `A`, `B` parsed from the
source; `c1 … c4` recomputed by the translator and compared with `C::c1()` … of the running code
by the harness): `c1 = g(Z)`, `2 c2 = −Z`, `c3² = −g(Z)(3Z² + 4A)` with `c3` the even root
(`sgn0(c3) = 0`), `c4 (3Z² + 4A) = −4 g(Z)`, and the non-degeneracy `g(Z) ≠ 0`, `3Z² + 4A ≠ 0`
asserted by the repository's `test_params`. -/
theorem svdw_constants_spec :
    Gen.svdwC1 = jubHtc.g Gen.svdwZ ∧
    (2 * Gen.svdwC2 + Gen.svdwZ) % Gen.nativeModulus = 0 ∧
    (Gen.svdwC3 * Gen.svdwC3 + Gen.svdwC1 * jubHtc.den) % Gen.nativeModulus = 0 ∧
    Gen.svdwC3 % 2 = 0 ∧ Gen.svdwC3 < Gen.nativeModulus ∧
    (Gen.svdwC4 * jubHtc.den + 4 * Gen.svdwC1) % Gen.nativeModulus = 0 ∧
    Gen.svdwC4 < Gen.nativeModulus ∧ Gen.svdwC2 < Gen.nativeModulus ∧
    Gen.svdwC1 ≠ 0 ∧ jubHtc.den ≠ 0 ∧ Gen.svdwC4 ≠ 0 := by decide +kernel

/-- The executable model derives the same constants from `Z`, `A`, `B` alone (its own inverse
and Tonelli–Shanks square root), i.e. the model's `c1() … c4()` are the kernel-checked ones. -/
theorem svdw_model_constants :
    jubHtc.c1 = Gen.svdwC1 ∧ jubHtc.c2 = Gen.svdwC2 ∧ jubHtc.c3 = some Gen.svdwC3 ∧
    jubHtc.c4 = Gen.svdwC4 := by decide +kernel

/-- **The exceptional inputs exist for Jubjub**: `c1 = g(Z)` and `−1` are squares of the native
field, so `c1 u² = 1` and `c1 u² = −1` have two solutions each; the model computes the four of
them, each makes `tv1 · tv2 = 0`, and on each the model's `map_to_curve` returns a point of the
curve (what the harness feeds to the CPU reference and to the circuit). -/
theorem svdw_exceptional_inputs_exist :
    (Gen.svdwSqrtC1 * Gen.svdwSqrtC1) % Gen.nativeModulus = Gen.svdwC1 ∧
    (Gen.sqrtMinusOne * Gen.sqrtMinusOne + 1) % Gen.nativeModulus = 0 ∧
    jubHtc.exceptionalInputs.length = 4 ∧
    (jubHtc.exceptionalInputs.all fun u =>
      let w := jubHtc.fmul (jubHtc.fmul u u) jubHtc.c1
      (w == 1 || w == Gen.nativeModulus - 1) &&
      (match jubHtc.mapToCurve jubE u with
       | some P => jubE.onCurve P
       | none => false)) = true := by decide +kernel

/-- Constants of the two rational maps: `3·(J/3) = J`, `K² A = 1 − J²/3`,
`K³ B = (2J³ − 9J)/27`, `K = −(J + 2)` (`a = −1`), `K d = J − 2` with `d` the parameter found
in the gates of the native chip, and `K ≠ 0`. -/
theorem montgomery_constants_spec :
    let p := Gen.nativeModulus
    let t := Gen.montJThird
    (3 * t) % p = Gen.montJ ∧
    (Gen.montK * Gen.montK * Gen.svdwA + 3 * t * t) % p = 1 ∧
    (Gen.montK * Gen.montK * Gen.montK * Gen.svdwB + t) % p = (2 * t * t * t) % p ∧
    (Gen.montK + Gen.montJ + 2) % p = 0 ∧
    (Gen.montK * Gen.jubD + 2) % p = Gen.montJ % p ∧ Gen.montK % p ≠ 0 := by decide +kernel

/-- `g` has the root `ρ = J/(3K)` (image of the point of order two) and no other: the cofactor
`x² + ρx + ρ² + A` has a non-residue discriminant; `g(x1(u)) = 0` or `g(x2(u)) = 0` would need
`c3² − 4c1(c2 − ρ)²` to be a square, and it is a non-residue; `g(c2) ≠ 0` (Euler criterion,
kernel-evaluated). So the in-circuit `is_square` never sees `0` inside `map_to_curve`. -/
theorem jubjub_svdw_gx_nonzero_euler :
    let p := Gen.nativeModulus
    let ρ := Gen.svdwRho
    jubHtc.g ρ = 0 ∧
    powMod (ρ * ρ + 4 * (p - (ρ * ρ + Gen.svdwA) % p)) ((p - 1) / 2) p = p - 1 ∧
    powMod (Gen.svdwC3 * Gen.svdwC3 +
        4 * (p - (Gen.svdwC1 * (jubHtc.fsub Gen.svdwC2 ρ) % p * (jubHtc.fsub Gen.svdwC2 ρ)) % p))
      ((p - 1) / 2) p = p - 1 ∧
    jubHtc.g Gen.svdwC2 ≠ 0 ∧ jubHtc.isSquare (jubHtc.g Gen.svdwC2) = true := by decide +kernel

/-- **The CPU reference and the circuit are the same listing**: the kinds of the 35 numbered
steps of `mtc_cpu.rs: svdw_map_to_curve` and of `mtc.rs: svdw_map_to_weierstrass`, extracted from
the sources, coincide, and step 6 is `inv0` on both sides (seed C06-4 turns the CPU side into a
panicking `invert().unwrap()`). -/
theorem svdw_step_kinds_agree :
    Gen.svdwCpuStepKinds = Gen.svdwCircStepKinds ∧ Gen.svdwCpuStepKinds.length = 35 ∧
    Gen.svdwCpuStepKinds[5]? = some "inv0" ∧ Gen.svdwCircStepKinds[5]? = some "inv0" := by
  decide +kernel

/-- **Product identity of the SvdW candidates**: for `tv1 · tv2 ≠ 0`,
`D⁴ tv1⁶ g(x3) = (8 c3 tv2³)² g(x1) g(x2)` with `D = 3Z² + 4A` — `g(x1) g(x2) g(x3)` is a square
up to squares. -/
theorem svdw_candidates_product {A B Z c1 c2 c3 c4 : F} (h : SvdwConsts A B Z c1 c2 c3 c4)
    (u i : F) (hi : i * ((1 - u * u * c1) * (1 + u * u * c1)) = 1) :
    let tv1 := 1 - u * u * c1
    let tv2 := 1 + u * u * c1
    let tv4 := u * tv1 * i * c3
    (3 * Z * Z + 4 * A) ^ 4 * tv1 ^ 6 * wg A B ((tv2 * tv2 * i) * (tv2 * tv2 * i) * c4 + Z)
      = (8 * c3 * tv2 ^ 3) ^ 2 * (wg A B (c2 - tv4) * wg A B (c2 + tv4)) :=
  svdw_product_identity h u i hi

/-- **At least one of the three candidates has a square `g`**, for EVERY `u` including the
exceptional ones (`i = inv0(tv1 · tv2)`): the classical argument (`hmul`: in a finite field the
product of two non-squares is a square) on ordinary inputs, and `x1 = x2 = −Z/2`, `x3 = Z` with
`g(Z)` or `g(−Z/2)` a square on the exceptional ones. -/
theorem svdw_candidates_one_is_square {A B Z c1 c2 c3 c4 : F} (h : SvdwConsts A B Z c1 c2 c3 c4)
    (hmul : ∀ a b : F, ¬ IsSq a → ¬ IsSq b → IsSq (a * b))
    (hexc : IsSq (wg A B Z) ∨ IsSq (wg A B c2))
    (u i : F)
    (hinv : (1 - u * u * c1) * (1 + u * u * c1) ≠ 0 → i * ((1 - u * u * c1) * (1 + u * u * c1)) = 1)
    (hzero : (1 - u * u * c1) * (1 + u * u * c1) = 0 → i = 0) :
    let tv1 := 1 - u * u * c1
    let tv2 := 1 + u * u * c1
    let tv4 := u * tv1 * i * c3
    IsSq (wg A B (c2 - tv4)) ∨ IsSq (wg A B (c2 + tv4)) ∨
      IsSq (wg A B ((tv2 * tv2 * i) * (tv2 * tv2 * i) * c4 + Z)) :=
  svdw_one_candidate_square h hmul hexc u i hinv hzero

/-- Non-vacuity over ℚ: `y² = x³ − 3x + 3`, `Z = 1` (`g(Z) = 1`, `3Z² + 4A = −9`, `c3 = 3`). -/
example : SvdwConsts (F := Rat) (-3) 3 1 1 (-1/2) 3 (4/9) :=
  ⟨by unfold wg; grind, by grind, by grind, by grind, by grind, by grind, by grind⟩

/-- **`svdw_map_to_curve` lands on the curve for every input** (exceptional ones included, with
the `inv0` convention): with `e1`, `e2` as steps 15 and 21 compute them, the `x` selected by steps
27–28 has a square `g(x)`, so `gx.sqrt().unwrap()` never panics, the witness `y` of the circuit
exists, and every `y` with `y² = g(x)` — hence `±y`, whatever step 35 picks — gives a point of
`y² = x³ + A x + B`. -/
theorem svdw_output_on_curve {A B Z c1 c2 c3 c4 : F} (h : SvdwConsts A B Z c1 c2 c3 c4)
    (hmul : ∀ a b : F, ¬ IsSq a → ¬ IsSq b → IsSq (a * b))
    (hexc : IsSq (wg A B Z) ∨ IsSq (wg A B c2))
    (u i : F)
    (hinv : (1 - u * u * c1) * (1 + u * u * c1) ≠ 0 → i * ((1 - u * u * c1) * (1 + u * u * c1)) = 1)
    (hzero : (1 - u * u * c1) * (1 + u * u * c1) = 0 → i = 0)
    (e1 e2 s2 : Bool)
    (he1 : e1 = true ↔ IsSq (wg A B (c2 - u * (1 - u * u * c1) * i * c3)))
    (hs2 : s2 = true ↔ IsSq (wg A B (c2 + u * (1 - u * u * c1) * i * c3)))
    (he2 : e2 = (s2 && !e1)) :
    let tv1 := 1 - u * u * c1
    let tv2 := 1 + u * u * c1
    let tv4 := u * tv1 * i * c3
    let x := svdwSelect e1 e2 (c2 - tv4) (c2 + tv4) ((tv2 * tv2 * i) * (tv2 * tv2 * i) * c4 + Z)
    ∃ y : F, y * y = wg A B x ∧ (-y) * (-y) = wg A B x := by
  intro tv1 tv2 tv4 x
  have hone := svdw_one_candidate_square h hmul hexc u i hinv hzero
  obtain ⟨y, hy⟩ := svdw_select_square A B _ _ _ e1 e2 s2 he1 hs2 he2 hone
  exact ⟨y, hy, by rw [← hy]; grind⟩

/-- **Weierstrass → Montgomery** keeps the point on the curve (hypotheses = the equations of
`montgomery_constants_spec`). -/
theorem weierstrass_to_montgomery_sound (A B J K t x y : F)
    (hJ : 3 * t = J) (hA : K * K * A = 1 - 3 * t * t) (hB : K * K * K * B = 2 * t * t * t - t)
    (hon : y * y = wg A B x) :
    K * ((y * K) * (y * K))
      = (x * K - t) * (x * K - t) * (x * K - t) + J * ((x * K - t) * (x * K - t)) + (x * K - t) :=
  weierstrass_to_montgomery_on_curve A B J K t x y hJ hA hB hon

/-- **Montgomery → twisted Edwards lands on the native curve for every input**: with
`i = inv0((s+1)·t)`, the output `(i(s+1)s, i·t·(s−1))` — replaced by `w = 1` when `i = 0`
(steps 9–10) — satisfies `−v² + w² = 1 + d v² w²`: `from_xy(..).unwrap()` never panics and the
membership gate of `point_from_coordinates_unsafe` is satisfied, exceptional cases (`t = 0`,
`s = −1`) included. -/
theorem montgomery_to_edwards_sound (J K d s t i : F)
    (hK : K = -(J + 2)) (hd : K * d = J - 2) (hK0 : K ≠ 0)
    (hon : K * (t * t) = s * s * s + J * (s * s) + s)
    (hinv : (s + 1) * t ≠ 0 → i * ((s + 1) * t) = 1) (hzero : (s + 1) * t = 0 → i = 0) :
    (i ≠ 0 → EdOn d (i * (s + 1) * s) (i * t * (s - 1))) ∧
    (i = 0 → EdOn d (i * (s + 1) * s) 1) := by
  constructor
  · intro hi
    by_cases hz : (s + 1) * t = 0
    · exact absurd (hzero hz) hi
    · exact montgomery_to_edwards_generic J K d s t i hK hd hK0 hon (hinv hz)
  · intro hi; rw [hi]; exact montgomery_to_edwards_exceptional d s

/-- Non-vacuity over ℚ: `J = 2`, `K = −4`, `d = 0`, the Montgomery point `(1, t)` needs
`−4t² = 4`; use instead the exceptional point `(0, 0)` (order two), which goes to `(0, 1)`. -/
example : EdOn (0 : Rat) ((0 : Rat) * (0 + 1) * 0) 1 := montgomery_to_edwards_exceptional 0 0

/-- **In-circuit uniqueness, part 1: the `is_square` bits are forced.** `is_square(x)` witnesses a
bit and a square root of `select(bit, x, x · qnr)`; for `x ≠ 0` only one bit admits a root. -/
theorem is_square_bit_unique (x q : F) (hq : ¬ IsSq q) (hx : x ≠ 0) (b b' : Bool)
    (hb : if b then IsSq x else IsSq (x * q)) (hb' : if b' then IsSq x else IsSq (x * q)) :
    b = b' := by
  have hf := is_square_bit_forced x q hq hx
  cases b <;> cases b' <;> simp_all

/-- … and `x = 0` is the only argument on which the bit is free (both `0` and `0 · qnr` are
squares): a gap of the `is_square` gadget, not reachable through `map_to_curve` on Jubjub by
`svdw_gx_never_zero` + `jubjub_svdw_gx_nonzero_euler`. -/
theorem is_square_zero_bit_free (q : F) (b : Bool) :
    if b then IsSq (0 : F) else IsSq ((0 : F) * q) := by
  cases b
  · exact (is_square_zero_free q).2
  · exact (is_square_zero_free q).1

/-- **In-circuit uniqueness, part 2: `g(x1)`, `g(x2)` never vanish** (so part 1 applies to both
`is_square` calls) when `g` has the single root `ρ` and `c3² − 4c1(c2 − ρ)²` is a non-square;
`j = tv1 · tv3` is the inverse of `tv2`, `sgn = 1` for `x1` and `−1` for `x2`. -/
theorem svdw_gx_never_zero (A B ρ c1 c2 c3 u j sgn : F) (hρ : wg A B ρ = 0)
    (hdiscg : ¬ IsSq (ρ * ρ - 4 * (ρ * ρ + A)))
    (hdisc : ¬ IsSq (c3 * c3 - 4 * (c1 * (c2 - ρ)) * (c2 - ρ)))
    (hj : j * (1 + u * u * c1) = 1) (hs : sgn = 1 ∨ sgn = -1) :
    wg A B (c2 - sgn * (u * j * c3)) ≠ 0 :=
  svdw_gx_ne_zero A B ρ c1 c2 c3 u j sgn hρ hdiscg hdisc hj hs

/-- **In-circuit uniqueness, part 3: the square-root witness does not matter.** The circuit
constrains `y² = gx` only; the two admissible witnesses are `±y` (`sqrt_two_roots`) and steps
34–35 (`sgn0(u) = sgn0(y)`, `y ↦ ±y`) return the same field element for both — the one the CPU
reference returns. -/
theorem svdw_sign_unique (u y : Nat) (hy : y < Gen.nativeModulus) :
    signSelect Gen.nativeModulus u (negMod y Gen.nativeModulus) = signSelect Gen.nativeModulus u y :=
  sign_select_unique _ u y (by decide +kernel) hy

theorem svdw_sqrt_witnesses (y y' : F) (h : y * y = y' * y') : y' = y ∨ y' = -y :=
  sqrt_two_roots y y' h

/-- The model's steps 34–35 are `signSelect`. -/
example (u y : Nat) :
    (if jubHtc.sgn0 u == jubHtc.sgn0 y then y else jubHtc.fneg y)
      = signSelect Gen.nativeModulus u y := rfl

/-! ## `repr_J` (compressed encoding of Jubjub points) -/

/-- On the native curve the ordinate determines the abscissa up to sign (`d` a non-square,
`−1` a square): the only information `repr_J` needs besides `v` is `sgn0(u)`. -/
theorem repr_J_abscissa_up_to_sign (d i x x' y : F) (hi : i * i = -1) (hd : ∀ t : F, t * t ≠ d)
    (h1 : EdOn d x y) (h2 : EdOn d x' y) : x' = x ∨ x' = -x :=
  ed_abscissa_up_to_sign d i x x' y hi hd h1 h2

/-- **`repr_J` is injective**: `repr_J(u, v) = v + 2^255 · sgn0(u)` (little-endian bytes of `v`,
top bit of the last byte = parity of `u`; `into_bytes_incircuit` builds exactly
`byte_31 + 128 · sgn0(u)` on the 32 bytes of `v`). Two canonical pairs whose abscissas agree up to
sign when the ordinates agree (`repr_J_abscissa_up_to_sign`: all pairs of curve points) and whose
encodings coincide are equal — the native modulus is odd and below `2^255`. -/
theorem repr_J_injective (u v u' v' : Nat)
    (hu : u < Gen.nativeModulus) (hv : v < Gen.nativeModulus)
    (hu' : u' < Gen.nativeModulus) (hv' : v' < Gen.nativeModulus)
    (hpm : v = v' → (u' = u ∨ u' = negMod u Gen.nativeModulus))
    (h : reprJ Gen.nativeModulus u v = reprJ Gen.nativeModulus u' v') : u = u' ∧ v = v' :=
  reprJ_injective_aux _ u v u' v' (by decide +kernel) (by decide +kernel) hu hv hu' hv' hpm h

/-- The executable model's `repr_J` (compared with `to_bytes` of the curve library on every
map-to-curve output) is the function of the theorem. -/
example (p u v : Nat) : HtcParams.reprJInt p u v = reprJ p u v := rfl

/-- Non-vacuity: the generator and its negative have different encodings. -/
example : reprJ Gen.nativeModulus Gen.jubGenX Gen.jubGenY
    ≠ reprJ Gen.nativeModulus (negMod Gen.jubGenX Gen.nativeModulus) Gen.jubGenY := by
  decide +kernel

end MidnightZK.C06
