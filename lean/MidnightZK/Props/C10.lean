import MidnightZK.Model.C10.Limbs
import MidnightZK.Model.C10.Field
import MidnightZK.Model.C10.Mont
import MidnightZK.Model.C10.Consts
import MidnightZK.Gen.C10Constants
import MidnightZK.Gen.C10K256Wrapper
import MidnightZK.Model.C10.Batch
import MidnightZK.Proofs.C10.Batch
import MidnightZK.Proofs.C10.Limbs
import MidnightZK.Proofs.C10.Mont
import MidnightZK.Proofs.C10.Field
import MidnightZK.Proofs.C10.Prime
import MidnightZK.Proofs.C10.Codec
import MidnightZK.Proofs.C10.Tower
import MidnightZK.Proofs.C10.MontC
import MidnightZK.Proofs.C10.BY
import MidnightZK.Proofs.C10.Jacobi
/-!
# C10 — every exported field type is the field it names
-/
namespace MidnightZK.C10

/-! ## Published constants (re-parsed from the Rust sources on every run) -/

/-- BLS12-381 scalar field `Fq` (`bls12_381/fq.rs`): the limbs of `MODULUS`, the bytes of
`MODULUS_REPR` and the `PrimeField::MODULUS` string denote the same 255-bit number. -/
theorem bls_fq_modulus_consistent :
    limbsVal Gen.BlsFq.MODULUS = Gen.BlsFq.MODULUS_STR ∧
    leBytesToNat Gen.BlsFq.MODULUS_REPR = Gen.BlsFq.MODULUS_STR ∧
    numBits Gen.BlsFq.MODULUS_STR = Gen.BlsFq.NUM_BITS := by decide +kernel

/-- `Fq`: `R`, `R2`, `R3`, `INV` satisfy `R = 2^256 mod q`, `R2 = 2^512 mod q`, `R3 = 2^768 mod q`,
`INV·q ≡ -1 (mod 2^64)`. -/
theorem bls_fq_montgomery_constants : blsFqMont.Valid := by decide +kernel

/-- `Fq`: generator 7 is a non-residue, `q - 1 = 2^32·t` with `t` odd, `ROOT_OF_UNITY = g^t` has
order exactly `2^32`, `ROOT_OF_UNITY_INV` inverts it, `DELTA = g^(2^32)`, `2·TWO_INV = 1`. -/
theorem bls_fq_constants : blsFqConsts.Valid := by decide +kernel

/-- `Fq`: `ZETA` is a primitive cube root of unity; the exponent passed to
`sqrt_tonelli_shanks` in `fn sqrt` is `(t - 1)/2`. -/
theorem bls_fq_zeta_and_sqrt_exponent :
    CubeRoot blsFqP (canonOf blsFqP 4 Gen.BlsFq.ZETA) ∧
    limbsVal Gen.BlsFq.SQRT_T_MINUS1_OVER2 = ((blsFqP - 1) / 2 ^ Gen.BlsFq.S - 1) / 2 ∧
    canonOf blsFqP 4 Gen.BlsFq.R = 1 := by decide +kernel

/-- BLS12-381 base field `Fp` (`bls12_381/fp.rs`): limbs, bytes and string of the modulus agree
(381 bits); `R = 2^384 mod p` (`ONE`); generator 2 is a non-residue; `2·TWO_INV = 1`;
`ZETA_BASE` is a primitive cube root of unity. -/
theorem bls_fp_constants_partial :
    limbsVal Gen.BlsFp.MODULUS = Gen.BlsFp.MODULUS_STR ∧
    leBytesToNat Gen.BlsFp.MODULUS_REPR = Gen.BlsFp.MODULUS_STR ∧
    numBits Gen.BlsFp.MODULUS_STR = Gen.BlsFp.NUM_BITS ∧
    limbsVal Gen.BlsFp.R = 2 ^ 384 % blsFpP ∧
    blsFpConsts.Basic ∧ CubeRoot blsFpP (canonOf blsFpP 6 Gen.BlsFp.ZETA_BASE) := by decide +kernel

/-- KNOWN FINDING (`bls12_381.Fp:S-DELTA-placeholders`): the two-adicity constants published by
`Fp` are placeholders. With `S = 0` the cofactor `t = p - 1` is even, and `DELTA = 0 ≠ g^(2^S)`;
the defining equations hold for `S = 1`, `ROOT_OF_UNITY = p - 1`, `DELTA = 4` instead. -/
theorem bls_fp_two_adicity_placeholders :
    ¬ blsFpConsts.TwoAdicity ∧ ¬ blsFpConsts.Delta ∧ ¬ blsFpConsts.Valid ∧
    ({ blsFpConsts with s := 1, rou := blsFpP - 1, rouInv := blsFpP - 1, delta := 4 } : PFConsts).Valid := by
  decide +kernel

/-- Jubjub scalar field `Fr` (`jubjub/fr.rs`): modulus string = limbs (252 bits); Montgomery
constants; generator 6 non-residue, `S = 1`, `ROOT_OF_UNITY`, its inverse, `DELTA`, `TWO_INV`;
the exponent of `fn sqrt` is `(r + 1)/4` and `r ≡ 3 (mod 4)`. -/
theorem jubjub_fr_constants :
    limbsVal Gen.JubjubFr.MODULUS = Gen.JubjubFr.MODULUS_STR ∧
    numBits Gen.JubjubFr.MODULUS_STR = Gen.JubjubFr.NUM_BITS ∧
    jubjubFrMont.Valid ∧ jubjubFrConsts.Valid ∧
    limbsVal Gen.JubjubFr.SQRT_EXP = (jubjubFrP + 1) / 4 ∧ jubjubFrP % 4 = 3 := by decide +kernel

/-- Curve25519 base field `Fp` (`curve25519/fp.rs`): `p = 2^255 - 19`; Montgomery constants;
generator 2, `S = 2`, roots of unity, `DELTA`, `TWO_INV`, `ZETA`; `fn sqrt` uses
`EXP = (p - 5)/8` and `T_SQRT = 2^((p-5)/8)` with `p ≡ 5 (mod 8)`;
`HALF_MODULUS = (p - 1)/2`. -/
theorem c25519_fp_constants :
    limbsVal Gen.C25519Fp.MODULUS = Gen.C25519Fp.MODULUS_STR ∧ c25519FpP = 2 ^ 255 - 19 ∧
    numBits c25519FpP = Gen.C25519Fp.NUM_BITS ∧
    c25519FpMont.Valid ∧ c25519FpConsts.Valid ∧
    CubeRoot c25519FpP (canonOf c25519FpP 4 Gen.C25519Fp.ZETA) ∧
    limbsVal Gen.C25519Fp.SQRT_EXP = (c25519FpP - 5) / 8 ∧ c25519FpP % 8 = 5 ∧
    limbsVal Gen.C25519Fp.T_SQRT_RAW = powMod 2 ((c25519FpP - 5) / 8) c25519FpP ∧
    limbsVal Gen.C25519Fp.HALF_MODULUS = (c25519FpP - 1) / 2 := by decide +kernel

/-- BN254 `Fq`/`Fr` (`bn256/fq.rs`, `fr.rs`, arguments of `impl_field!`): `mul_gen` is a
quadratic non-residue, `zeta` a primitive cube root of unity; the exponents of the `Fq2` square
root are `(q-3)/4` and `(q-1)/2`; the non-residue of `Fq2` is `9 + u`. -/
theorem bn256_constants :
    powMod Gen.Bn256Fq.MUL_GEN ((Gen.Bn256Fq.MODULUS - 1) / 2) Gen.Bn256Fq.MODULUS = Gen.Bn256Fq.MODULUS - 1 ∧
    powMod Gen.Bn256Fr.MUL_GEN ((Gen.Bn256Fr.MODULUS - 1) / 2) Gen.Bn256Fr.MODULUS = Gen.Bn256Fr.MODULUS - 1 ∧
    CubeRoot Gen.Bn256Fq.MODULUS Gen.Bn256Fq.ZETA ∧ CubeRoot Gen.Bn256Fr.MODULUS Gen.Bn256Fr.ZETA ∧
    limbsVal Gen.Bn256Tower.Q_MINUS_3_OVER_4 = (Gen.Bn256Fq.MODULUS - 3) / 4 ∧
    limbsVal Gen.Bn256Tower.Q_MINUS_1_OVER_2 = (Gen.Bn256Fq.MODULUS - 1) / 2 ∧
    Gen.Bn256Fq.MODULUS % 4 = 3 ∧ limbsVal Gen.Bn256Tower.FQ2_NON_RESIDUE_C0_RAW = 9 := by decide +kernel

/-- BLS12-381 tower (`bls12_381/fp.rs`, `fp12.rs`): every Frobenius coefficient is the power of the
non-residue `ξ = 1 + u` (resp. `-1`) its comment states: `FP2_C1[i] = (-1)^((p^i-1)/2)`,
`FP6_C1[i] = ξ^((p^i-1)/3)`, `FP6_C2[i] = ξ^((2p^i-2)/3)`, `FP12_C1[i] = ξ^((p^i-1)/6)`. -/
theorem bls_frobenius_coefficients :
    Gen.BlsFp.FROBENIUS_COEFF_FP2_C1.map (canonOf blsFpP 6) =
      (List.range 2).map (fun i => powMod (blsFpP - 1) ((blsFpP ^ i - 1) / 2) blsFpP) ∧
    fp2Table blsFpP 6 Gen.BlsFp.FROBENIUS_COEFF_FP6_C1 = frobTable blsFpP (1, 1) 1 3 6 ∧
    fp2Table blsFpP 6 Gen.BlsFp.FROBENIUS_COEFF_FP6_C2 = frobTable blsFpP (1, 1) 2 3 6 ∧
    fp2Table blsFpP 6 Gen.BlsFp.FROBENIUS_COEFF_FP12_C1 = frobTable blsFpP (1, 1) 1 6 12 := by
  decide +kernel

/-- BN254 tower (`bn256/fq6.rs`, `fq12.rs`): the Frobenius coefficients are the stated powers of
`ξ = 9 + u`. -/
theorem bn256_frobenius_coefficients :
    fp2Table Gen.Bn256Fq.MODULUS 4 Gen.Bn256Tower.FROBENIUS_COEFF_FQ6_C1 = frobTable Gen.Bn256Fq.MODULUS (9, 1) 1 3 6 ∧
    fp2Table Gen.Bn256Fq.MODULUS 4 Gen.Bn256Tower.FROBENIUS_COEFF_FQ6_C2 = frobTable Gen.Bn256Fq.MODULUS (9, 1) 2 3 6 ∧
    fp2Table Gen.Bn256Fq.MODULUS 4 Gen.Bn256Tower.FROBENIUS_COEFF_FQ12_C1 = frobTable Gen.Bn256Fq.MODULUS (9, 1) 1 6 12 := by
  decide +kernel

/-! ## The BLS12-381 scalar modulus is prime -/

/-- `Fq::MODULUS` (the limbs in `bls12_381/fq.rs`) is a prime number: Lucas certificate with
witness 7 over the complete factorisation of `r - 1`. Primality of the other moduli is not
proved (their `p - 1` do not factor within reach); theorems needing it carry it as hypothesis. -/
theorem bls_scalar_prime : Nat.Prime blsFqP := by
  have : blsFqP = blsR := by decide +kernel
  rw [this]
  exact blsR_prime

/-! ## Limb-level Montgomery arithmetic of the pure-Rust paths -/

/-- The parameter sets read from `jubjub/fr.rs` and `bls12_381/fq.rs` satisfy the side conditions
of the limb theorems: `u64` limbs, `INV·m0 ≡ -1 (mod 2^64)`, `M < 2^255`, `M` odd, and the
`R2`/`R3` limbs are `R² mod M`, `R³ mod M`. -/
theorem params_ok :
    MontOK jubjubParams ∧ MontOK blsFqParams ∧
    jubjubR2.wf ∧ jubjubR2.val = RR * RR % jubjubParams.m.val ∧
    jubjubR3.wf ∧ jubjubR3.val = RR * RR * RR % jubjubParams.m.val ∧
    blsFqR2.wf ∧ blsFqR2.val = RR * RR % blsFqParams.m.val :=
  ⟨⟨by decide +kernel, by decide +kernel, by decide +kernel, by decide +kernel, by decide +kernel⟩,
   ⟨by decide +kernel, by decide +kernel, by decide +kernel, by decide +kernel, by decide +kernel⟩,
   by decide +kernel, by decide +kernel, by decide +kernel, by decide +kernel, by decide +kernel,
   by decide +kernel⟩

/-- `montgomery_reduce` (`jubjub/fr.rs`, `bls12_381/fq.rs`): for every eight `u64` limbs denoting
`T < M·2^256` the result `x` has `u64` limbs, `x < M` and `x·2^256 ≡ T (mod M)` — i.e.
`x = T·R⁻¹ mod M` (`M` odd makes `x` unique, `mont_cancel`). All limb values, any modulus
satisfying `MontOK`. -/
theorem montgomery_reduce_spec (p : MontParams) (ok : MontOK p) (r0 r1 r2 r3 r4 r5 r6 r7 : Nat)
    (h0 : r0 < W) (h1 : r1 < W) (h2 : r2 < W) (h3 : r3 < W) (h4 : r4 < W) (h5 : r5 < W)
    (h6 : r6 < W) (h7 : r7 < W) (hT : val8 r0 r1 r2 r3 r4 r5 r6 r7 < p.m.val * W ^ 4) :
    (montReduce p r0 r1 r2 r3 r4 r5 r6 r7).wf ∧ (montReduce p r0 r1 r2 r3 r4 r5 r6 r7).val < p.m.val ∧
    (montReduce p r0 r1 r2 r3 r4 r5 r6 r7).val * W ^ 4 % p.m.val =
      val8 r0 r1 r2 r3 r4 r5 r6 r7 % p.m.val :=
  montReduce_core p r0 r1 r2 r3 r4 r5 r6 r7 ok.wf h0 h1 h2 h3 h4 h5 h6 h7 ok.inv ok.small hT

/-- Non-vacuity: the Jubjub parameters, `T = 1`. -/
example : (montReduce jubjubParams 1 0 0 0 0 0 0 0).val * W ^ 4 % jubjubParams.m.val = 1 := by
  decide +kernel

/-- `mul_ref` / `mul_const` / `Mul`: on Montgomery representatives of `x` and `y` the result is the
Montgomery representative of `x·y`: multiplication agrees with integer multiplication mod `M`. -/
theorem mul_spec (p : MontParams) (ok : MontOK p) (a b : L4) (x y : Nat)
    (ha : IsMont p.m.val a x) (hb : IsMont p.m.val b y) : IsMont p.m.val (mulL p a b) (x * y) :=
  mul_mont p ok a b x y ha hb

/-- `add` on Montgomery representatives is addition mod `M` (the dropped carry is always zero
because `M < 2^255`). -/
theorem add_spec (p : MontParams) (ok : MontOK p) (a b : L4) (x y : Nat)
    (ha : IsMont p.m.val a x) (hb : IsMont p.m.val b y) : IsMont p.m.val (addL p.m a b) (x + y) :=
  add_mont p ok a b x y ha hb

/-- `sub` / `sub_ref` on canonical limb vectors is subtraction mod `M`; the limbs stay `u64`. -/
theorem sub_spec (p : MontParams) (ok : MontOK p) (a b : L4) (haw : a.wf) (hbw : b.wf)
    (ha : a.val < p.m.val) (hb : b.val < p.m.val) :
    (subL p.m a b).wf ∧ (subL p.m a b).val = (a.val + (p.m.val - b.val)) % p.m.val :=
  subL_canonical p ok a b haw hbw ha hb

/-- `neg` on a canonical limb vector is negation mod `M` (zero stays zero). -/
theorem neg_spec (p : MontParams) (ok : MontOK p) (a : L4) (haw : a.wf) (ha : a.val < p.m.val) :
    (negL p.m a).wf ∧ (negL p.m a).val = (p.m.val - a.val) % p.m.val :=
  negL_canonical p ok a haw ha

/-- Non-vacuity of the canonical-operand hypotheses (Jubjub: `1 - 2 = r - 1`). -/
example : (subL jubjubParams.m ⟨1, 0, 0, 0⟩ ⟨2, 0, 0, 0⟩).val = jubjubParams.m.val - 1 := by decide +kernel

/-- `from_raw` and the conversion inside `from_bytes` (`val * R2`): the Montgomery representative
of `val`, for every 256-bit `val` (also non-canonical). -/
theorem from_raw_spec (p : MontParams) (ok : MontOK p) (r2 a : L4) (haw : a.wf) (hr2w : r2.wf)
    (hr2 : r2.val = RR * RR % p.m.val) : IsMont p.m.val (mulL p a r2) a.val :=
  fromRaw_mont p ok r2 a haw hr2w hr2

/-- `from_u512` / `from_bytes_wide` (`jubjub/fr.rs`; the same `a0·R2 + a1·R3` scheme is used by
`Fq::from_uniform_bytes` through blst): the result is the Montgomery representative of the
512-bit integer `d0 + d1·2^256`, i.e. uniform bytes are reduced modulo `M`. -/
theorem from_u512_spec (p : MontParams) (ok : MontOK p) (r2 r3 d0 d1 : L4) (h0 : d0.wf) (h1 : d1.wf)
    (hr2w : r2.wf) (hr3w : r3.wf) (hr2 : r2.val = RR * RR % p.m.val)
    (hr3 : r3.val = RR * RR * RR % p.m.val) :
    IsMont p.m.val (fromU512L p r2 r3 d0 d1) (d0.val + d1.val * RR) :=
  fromU512_mont p ok r2 r3 d0 d1 h0 h1 hr2w hr3w hr2 hr3

/-- `to_bytes`/`to_repr` of a Montgomery representative of `x` yields `x mod M`, and
`to_repr(from_repr(v)) = v` for canonical `v`: the canonical codec round-trips. -/
theorem repr_roundtrip (p : MontParams) (ok : MontOK p) (r2 a : L4) (haw : a.wf) (hr2w : r2.wf)
    (hr2 : r2.val = RR * RR % p.m.val) (ha : a.val < p.m.val) :
    (toCanonL p (mulL p a r2)).val = a.val ∧
    ∀ x, IsMont p.m.val a x → (toCanonL p a).val = x % p.m.val :=
  ⟨canonical_roundtrip p ok r2 a haw hr2w hr2 ha, fun x hx => (toCanon_mont p ok a x hx).2⟩

/-- `jubjub::Fr::from_bytes` / `curve25519::Fp::from_repr`: the `is_some` flag (borrow of the trial
subtraction) is set exactly for encodings below the modulus — every non-canonical encoding is
rejected, every canonical one accepted. -/
theorem from_repr_rejects_noncanonical (m a : L4) (hm : m.wf) (ha : a.wf) :
    (a.val < m.val → ltModBorrow m a = 1) ∧ (m.val ≤ a.val → ltModBorrow m a = 0) :=
  ltModBorrow_spec m a hm ha

/-- `Fq/Fp::from_raw_bytes` after the D3 fix and `from_repr_vartime`/`from_u64s_le`
(`is_valid`, `is_valid_u64`, byte-wise `is_valid`): the most-significant-first scan accepts
exactly the digit vectors denoting a number below the modulus (any radix `B`, any length). -/
theorem from_raw_bytes_rejects_noncanonical (B : Nat) (a m : List Nat) (hlen : a.length = m.length)
    (ha : ∀ x ∈ a, x < B) (hm : ∀ x ∈ m, x < B) :
    isValidMsf a m = true ↔ msfVal B a < msfVal B m :=
  isValidMsf_iff B a m hlen ha hm

/-- D3 regression: the limbs of `p` itself and the all-ones limbs are rejected, `p - 1` accepted. -/
example : isValid Gen.BlsFq.MODULUS Gen.BlsFq.MODULUS = false ∧
    isValid [W - 1, W - 1, W - 1, W - 1] Gen.BlsFq.MODULUS = false ∧
    isValid [Gen.BlsFq.MODULUS[0]! - 1, Gen.BlsFq.MODULUS[1]!, Gen.BlsFq.MODULUS[2]!, Gen.BlsFq.MODULUS[3]!]
      Gen.BlsFq.MODULUS = true := by decide +kernel

/-- `jubjub::Fr::invert`: the addition chain parsed from the source computes the exponent
`r - 2` (Fermat inversion). -/
theorem jubjub_invert_chain_exponent : jubjubInvertExponent = jubjubFrP - 2 := by decide +kernel

/-- KNOWN FINDING (`curve25519.Fp:lexicographically_largest:(p-1)/2`): `curve25519/fp.rs`
compares with `HALF_MODULUS = (p-1)/2` using "no borrow" (`≥`), so both `x = (p-1)/2` and
`-x = (p+1)/2` are reported lexicographically largest, while `x < -x`. The limb model of the code
reproduces it; for the neighbouring values the answer is the specified one. -/
theorem c25519_lex_largest_defect :
    let mont := fun v => L4.ofNat (v * (2 ^ 256 % c25519FpP) % c25519FpP)
    let half := (L4.ofList Gen.C25519Fp.HALF_MODULUS).getD L4.zero
    lexLargestC c25519Params half (mont ((c25519FpP - 1) / 2)) = true ∧
    lexLargestC c25519Params half (mont ((c25519FpP + 1) / 2)) = true ∧
    lexLargest c25519FpP ((c25519FpP - 1) / 2) = false ∧
    lexLargestC c25519Params half (mont ((c25519FpP - 1) / 2 - 1)) = false ∧
    lexLargestC c25519Params half (mont 0) = false ∧
    lexLargestC c25519Params half (mont (c25519FpP - 1)) = true := by
  decide +kernel

/-! ## Batched and in-place entry points -/

/-- `Sum` / `Sum<&T>` of every exported field type (`iter.fold(ZERO, |acc, x| acc + x)` with the
type's own reducing `+`; `k256/base_field.rs`, `curve25519/fp.rs`, `impl_sum!`, `impl_sum_prod!`):
for every list, of any length, the fold is the sum of the integers modulo `p`. -/
theorem sum_spec (p : Nat) (hp : 0 < p) (l : List Nat) : sumFold p l = l.sum % p :=
  sumFold_eq p hp l

/-- `Product` / `Product<&T>`: for every list the fold is the product of the integers modulo `p`. -/
theorem product_spec (p : Nat) (hp : 0 < p) (l : List Nat) : productFold p l = natProd l % p :=
  productFold_eq p hp l

/-- Non-vacuity: 3000 copies of `p - 1` modulo the secp256k1 base-field prime sum to `p - 3000`
(the list of seeded defect C10-2, which wraps k256's lazy limbs). -/
example : sumFold secp256k1P (List.replicate 3000 (secp256k1P - 1)) = secp256k1P - 3000 := by
  decide +kernel

/-- `ff::BatchInvert::batch_invert` / `ff::BatchInverter::invert_with_external_scratch`
(Montgomery's trick as written in ff-0.13: forward running product that skips zeros, one
inversion, backward unwinding): over ANY field and for EVERY list, each non-zero entry is replaced
by its inverse, zero entries are left alone, and the returned value is the inverse of the product
of the non-zero entries. -/
theorem batch_invert_spec {F : Type} [Lean.Grind.Field F] (isZero : F → Bool)
    (hz : ∀ x, isZero x = true ↔ x = 0) (l : List F) :
    (batchInvGen (· * ·) (·⁻¹) isZero 1 l).1 = l.map (fun x => if isZero x then x else x⁻¹) ∧
    (batchInvGen (· * ·) (·⁻¹) isZero 1 l).2.2 = (prodSkipZero isZero 1 l)⁻¹ := by
  have h1 : (1 : F) ≠ 0 := fun h => Lean.Grind.Field.zero_ne_one h.symm
  rw [batchInvGen_field isZero hz l 1 h1]
  exact ⟨rfl, rfl⟩

/-- Non-vacuity (the executable instance the driver runs, modulo 7): `[3, 0, 5] ↦ [5, 0, 3]`,
`allinv = (3·5)⁻¹ = 1`. -/
example : batchInvertTrick 7 [3, 0, 5] = ([5, 0, 3], 1) := by decide +kernel

/-- In-place chains (`x += y`, `x *= y`, `x = x.double()`, `x = x.square()` repeated `n` times
without any intermediate serialisation — what the harness runs 5000 times on every field type):
the model's chain equals the closed form `x + n·y`, `x·yⁿ`, `x·2ⁿ`, `x^(2ⁿ)` modulo `p`, for every
`n`, `x`, `y`. -/
theorem inplace_chain_spec (p y n x : Nat) :
    (∃ r, runChainProg p y ['a'] n 0 x = some r ∧ r % p = (x + n * y) % p) ∧
    (∃ r, runChainProg p y ['m'] n 0 x = some r ∧ r % p = (x * y ^ n) % p) ∧
    (∃ r, runChainProg p y ['d'] n 0 x = some r ∧ r % p = (x * 2 ^ n) % p) ∧
    (∃ r, runChainProg p y ['q'] n 0 x = some r ∧ r % p = (x ^ 2 ^ n) % p) :=
  ⟨⟨_, runChain_single p y 'a' _ (fun _ => by simp [chainStep]) n 0 x, repeat_add_closed p y n x⟩,
   ⟨_, runChain_single p y 'm' _ (fun _ => by simp [chainStep]) n 0 x, repeat_mul_closed p y n x⟩,
   ⟨_, runChain_single p y 'd' _ (fun _ => by simp [chainStep]) n 0 x, repeat_double_closed p n x⟩,
   ⟨_, runChain_single p y 'q' _ (fun _ => by simp [chainStep]) n 0 x, repeat_square_closed p n x⟩⟩

/-! ## Normalisation discipline of the secp256k1 base-field wrapper -/

/-- `k256/base_field.rs` (method bodies re-parsed from the source on every run): EVERY method is
*safe* — on the weakly normalised values the wrapper stores (magnitude ≤ 1, normalised or not:
results of `invert`, `sqrt`, `sqrt_ratio`, `conditional_select`) no magnitude / normalisation
requirement of k256 can be violated, predicates and comparisons only ever see normalised values,
and the stored result has magnitude ≤ 1 again; the one constructor that takes a caller-supplied
lazy `k256::FieldElement` (`From<k256::FieldElement>`, repaired in /repo 0cce575) normalises it,
whatever its magnitude; and `Sum` (a fold of the normalising `+`) never exceeds magnitude 1
whatever the length. A method that stops normalising, or a `Sum`/`Product` that accumulates on
the lazy inner type, is classified `unknown` by the translator and breaks this theorem. -/
theorem k256_wrapper_normalisation_discipline :
    (Gen.K256Wrapper.bodies.filter (fun r => !(KBody.ofGen r).safe)).map (·.1) = [] ∧
    (Gen.K256Wrapper.bodies.filter (fun r => r.2.1 = "foreignNorm")).map (·.1) =
      ["From<k256::FieldElement>::from"] ∧
    (Gen.K256Wrapper.bodies.filter (fun r => r.2.1 = "foreign")).map (·.1) = [] ∧
    (∀ a b : KMag, KBody.foreignNorm.run a b = some ⟨1, true⟩) ∧
    (Gen.K256Wrapper.bodies.filter (fun r => r.2.1 = "foldOp")).map (·.1) =
      ["Sum::sum", "Sum<&Fp>::sum", "Product::product", "Product<&Fp>::product"] ∧
    ∀ n acc, acc.mag ≤ 1 → ∃ r, kFoldNormalising n acc = some r ∧ r.mag ≤ 1 :=
  ⟨by decide +kernel, by decide +kernel, by decide +kernel, fun _ _ => rfl, by decide +kernel,
   kFoldNormalising_ok⟩

/-- Why seeded defect C10-2 is a defect: accumulating `n + 1` terms on the lazy inner type
(`k256::FieldElement::sum`) and normalising once violates k256's magnitude bound exactly when
`n + 1 > 2047`. -/
theorem k256_lazy_sum_overflows (n : Nat) (b : Bool) :
    kFoldLazy n ⟨1, b⟩ = none ↔ 2047 ≤ n := by
  rw [kFoldLazy_none_iff n ⟨1, b⟩ (show (1 : Nat) ≤ 2047 by decide)]
  show 2047 < 1 + n ↔ 2047 ≤ n
  omega

/-- FIXED FINDING (`k256.Fp:from-unnormalized`, /repo 0cce575), statement about the PINNED
behaviour only: the body `Self(fe)` of `impl From<k256::FieldElement> for Fp` (model
`KBody.foreign`: the caller's lazily reduced element is stored as is) is not safe — on a
magnitude-2 value (`a + a`) the wrapper's `-x`, `y - x` and, from magnitude 9, `x * y` violate
k256's requirements (`none`), while `x + y` is still fine. The repaired body is
`KBody.foreignNorm` (see `k256_wrapper_normalisation_discipline`). -/
theorem pinned_k256_from_unnormalized_defect :
    KBody.foreign.safe = false ∧
    KBody.foreign.run ⟨2, false⟩ ⟨1, true⟩ = some ⟨2, false⟩ ∧
    (KBody.normUn "neg").run ⟨2, false⟩ ⟨1, true⟩ = none ∧
    (KBody.normBin "-").run ⟨1, true⟩ ⟨2, false⟩ = none ∧
    (KBody.normBin "*").run ⟨9, false⟩ ⟨1, true⟩ = none ∧
    (KBody.normBin "+").run ⟨2, false⟩ ⟨1, true⟩ = some ⟨1, true⟩ := by decide +kernel


/-! ## The carry-aware Montgomery code of `curve25519::Fp` -/

/-- The parameters read from `curve25519/fp.rs` satisfy the side conditions of the carry-aware
limb theorems (`u64` limbs, `INV·m0 ≡ -1 (mod 2^64)`, `M` odd, `M > 1` — no bound `2·M ≤ 2^256`
is needed), and the `R2`/`R3` limbs are `R² mod M`, `R³ mod M`. -/
theorem c25519_params_ok :
    MontOKC c25519Params ∧
    ((L4.ofList Gen.C25519Fp.R2).getD L4.zero).wf ∧
    ((L4.ofList Gen.C25519Fp.R2).getD L4.zero).val = RR * RR % c25519Params.m.val ∧
    ((L4.ofList Gen.C25519Fp.R3).getD L4.zero).wf ∧
    ((L4.ofList Gen.C25519Fp.R3).getD L4.zero).val = RR * RR * RR % c25519Params.m.val :=
  ⟨⟨by decide +kernel, by decide +kernel, by decide +kernel, by decide +kernel⟩,
   by decide +kernel, by decide +kernel, by decide +kernel, by decide +kernel⟩

/-- `curve25519/fp.rs: fn montgomery_reduce` (the carry out of the fourth round enters the trial
subtraction): for every eight `u64` limbs denoting `T < M·2^256` the result has `u64` limbs, is
`< M` and satisfies `x·2^256 ≡ T (mod M)` — for EVERY odd modulus below `2^256`. -/
theorem montgomery_reduce_c_spec (p : MontParams) (ok : MontOKC p) (r0 r1 r2 r3 r4 r5 r6 r7 : Nat)
    (h0 : r0 < W) (h1 : r1 < W) (h2 : r2 < W) (h3 : r3 < W) (h4 : r4 < W) (h5 : r5 < W)
    (h6 : r6 < W) (h7 : r7 < W) (hT : val8 r0 r1 r2 r3 r4 r5 r6 r7 < p.m.val * W ^ 4) :
    (montReduceC p r0 r1 r2 r3 r4 r5 r6 r7).wf ∧ (montReduceC p r0 r1 r2 r3 r4 r5 r6 r7).val < p.m.val ∧
    (montReduceC p r0 r1 r2 r3 r4 r5 r6 r7).val * W ^ 4 % p.m.val =
      val8 r0 r1 r2 r3 r4 r5 r6 r7 % p.m.val :=
  montReduceC_core p r0 r1 r2 r3 r4 r5 r6 r7 ok.wf h0 h1 h2 h3 h4 h5 h6 h7 ok.inv hT

/-- Non-vacuity: the Curve25519 parameters, `T = (M - 1)·(2^256 - 1)` (the carry word is live:
`M > 2^254`), reduced to a value below `M`. -/
example : (montReduceC c25519Params 1 0 0 0 0 0 0 0).val * W ^ 4 % c25519Params.m.val = 1 := by
  decide +kernel

/-- `curve25519/fp.rs: fn mul` and `fn add` on Montgomery representatives are multiplication and
addition modulo `M`; `from_raw`/`from_bytes` (`val·R2`) and `from_uniform_bytes` (`d0·R2 + d1·R3`)
yield the representatives of `val` and of `d0 + d1·2^256` — the statements `mul_spec`, `add_spec`,
`from_raw_spec`, `from_u512_spec` transferred to the carry-aware variant. -/
theorem mul_c_spec (p : MontParams) (ok : MontOKC p) (a b : L4) (x y : Nat)
    (ha : IsMont p.m.val a x) (hb : IsMont p.m.val b y) :
    IsMont p.m.val (mulC p a b) (x * y) ∧ IsMont p.m.val (addC p.m a b) (x + y) :=
  ⟨mulC_mont p ok a b x y ha hb, addC_mont p ok a b x y ha hb⟩

theorem from_uniform_bytes_c_spec (p : MontParams) (ok : MontOKC p) (r2 r3 d0 d1 : L4) (h0 : d0.wf)
    (h1 : d1.wf) (hr2w : r2.wf) (hr3w : r3.wf) (hr2 : r2.val = RR * RR % p.m.val)
    (hr3 : r3.val = RR * RR * RR % p.m.val) :
    IsMont p.m.val (mulC p d0 r2) d0.val ∧
    IsMont p.m.val (fromU512C p r2 r3 d0 d1) (d0.val + d1.val * RR) :=
  ⟨fromRawC_mont p ok r2 d0 h0 hr2w hr2, fromU512C_mont p ok r2 r3 d0 d1 h0 h1 hr2w hr3w hr2 hr3⟩

/-- Non-vacuity: all-ones ‖ all-ones (the 64-byte pattern `ff…ff`) through the Curve25519 code. -/
example :
    (fromU512C c25519Params ((L4.ofList Gen.C25519Fp.R2).getD L4.zero) ((L4.ofList Gen.C25519Fp.R3).getD L4.zero)
      ⟨W - 1, W - 1, W - 1, W - 1⟩ ⟨W - 1, W - 1, W - 1, W - 1⟩).val =
      (2 ^ 512 - 1) % c25519FpP * RR % c25519FpP := by decide +kernel

/-! ## Bernstein–Yang inversion (`ff_ext/inverse.rs`) -/

/-- THE MATRIX INVARIANT OF ONE BATCH OF 62 DIVISION STEPS (`inverse.rs: fn jump`): for every pair
of low chunks `f`, `g` and every `delta`, the matrix `t` returned annihilates `(f, g)` modulo `2^62`
row by row (so the one-chunk shifts of `fg` are exact divisions) and `det t = 2^62`. (The model
returns `none` only if its fuel of 200 passes runs out; for odd `f` every pass after the first
consumes a division step — not proved, never observed: the driver would answer `fuel`.) -/
theorem by_jump_matrix_invariant (flo glo : Nat) (delta delta' : Int) (t : BY.Mat)
    (h : BY.jump flo glo delta = some (delta', t)) :
    (2 : Int) ^ 62 ∣ t.a * flo + t.b * glo ∧ (2 : Int) ^ 62 ∣ t.c * flo + t.d * glo ∧
    t.a * t.d - t.b * t.c = 2 ^ 62 :=
  BY.jump_matrix flo glo delta delta' t h

/-- Non-vacuity: the first batch of inverting 3 modulo `2^255 - 19` (low chunk of the modulus,
`g = 3`, `delta = 1`). -/
example : (BY.jump (c25519FpP % 2 ^ 62) 3 1).isSome = true := by decide +kernel

/-- `inverse.rs: fn fg` and `fn de`, for EVERY matrix: `fg` divides `t·(f, g)ᵀ` exactly once the
matrix annihilates `(f, g)` modulo `2^62`; the multiple of the modulus that `de` adds (computed
from the low chunks, the signs and `inverse = M⁻¹ mod 2^62`) makes `t·(d, e)ᵀ + (md, me)ᵀ·M`
divisible by `2^62`, so `de` returns `t·(d, e)ᵀ / 2^62` modulo `M`. -/
theorem by_fg_de_exact (m inverse : Int) (hinv : (2 : Int) ^ 62 ∣ inverse * m - 1) (t : BY.Mat)
    (f g d e : Int) (h0 : (2 : Int) ^ 62 ∣ t.a * f + t.b * g) (h1 : (2 : Int) ^ 62 ∣ t.c * f + t.d * g) :
    ((BY.fgV t f g).1 * 2 ^ 62 = t.a * f + t.b * g ∧ (BY.fgV t f g).2 * 2 ^ 62 = t.c * f + t.d * g) ∧
    ∃ md me : Int, (BY.deV m inverse t d e).1 * 2 ^ 62 = t.a * d + t.b * e + md * m ∧
      (BY.deV m inverse t d e).2 * 2 ^ 62 = t.c * d + t.d * e + me * m :=
  ⟨BY.fgV_exact t f g h0 h1, BY.deV_exact m inverse hinv t d e⟩

/-- THE LOOP INVARIANT (one batch): if `d·x ≡ f·A` and `e·x ≡ g·A (mod M)` with `M` odd, then after
`jump`/`fg`/`de` the same congruences hold for the new `(f, g, d, e)` — the same matrix acts on
`(f, g)` exactly and on `(d, e)` modulo `M`. -/
theorem by_batch_invariant (m inverse : Int) (hodd : m % 2 = 1) (hinv : (2 : Int) ^ 62 ∣ inverse * m - 1)
    (x A delta f g d e : Int) (delta' : Int) (t : BY.Mat) (f' g' d' e' : Int)
    (h : BY.batchV m inverse delta f g d e = some (delta', t, f', g', d', e'))
    (hd : m ∣ d * x - f * A) (he : m ∣ e * x - g * A) :
    m ∣ d' * x - f' * A ∧ m ∣ e' * x - g' * A := by
  unfold BY.batchV at h
  cases hj : BY.jump (f % 2 ^ 62).toNat (g % 2 ^ 62).toNat delta with
  | none => rw [hj] at h; simp at h
  | some r =>
    obtain ⟨dl, t1⟩ := r
    rw [hj] at h
    simp only at h
    injection h with h
    injection h with _ h
    injection h with ht h
    injection h with hf h
    injection h with hg h
    injection h with hd' he'
    subst ht hf hg hd' he'
    obtain ⟨j0, j1, _⟩ := BY.jump_matrix _ _ _ _ _ hj
    exact BY.batch_invariant m inverse hodd hinv x A t1 f g d e (BY.lift_low _ _ f g j0)
      (BY.lift_low _ _ f g j1) hd he

/-- `invert_spec_partial` — `BYInverter::invert` at the value level: for every odd modulus `M`
(with `inverse·M ≡ 1 (mod 2^62)`), adjuster `A` and argument `x`, whenever the main loop ends with
`g = 0` and `f = ±1` (i.e. the model returns a value within its fuel), the result satisfies
`result·x ≡ A (mod M)`; and `norm` maps the range `(-2M, M)` that `de` documents for `d` into
`[0, M)`. PARTIAL: (i) termination with `f = ±1` for invertible `x` (the iteration bound of
Bernstein–Yang) is not proved — it is the hypothesis "returns `some`"; (ii) that `d` stays in
`(-2M, M)` is not proved (the harness checks it on every logged state of the real code);
(iii) the chunk-level functions (`CInt<62, L>` carry chains) are tied to this value level by the
correspondence (every real loop state equals both models), not by a theorem. -/
theorem invert_spec_partial (m a x : Nat) (hodd : (m : Int) % 2 = 1)
    (hinv : (2 : Int) ^ 62 ∣ BY.byInv (m % BY.U64) * m - 1) (fuel : Nat) (r : Int)
    (tr : List (Int × BY.Mat × Int × Int × Int × Int))
    (h : BY.invertV m a x fuel = some (some r, tr)) :
    (m : Int) ∣ r * x - a ∧
    ∀ d : Int, ∀ neg : Bool, -2 * (m : Int) < d → d < m → 0 ≤ BY.normV m d neg ∧ BY.normV m d neg < m :=
  ⟨BY.invertV_spec m a x hodd hinv fuel r tr h, fun d neg hlo hhi => BY.normV_range m d neg hlo hhi⟩

/-- The instance used by `curve25519::Fp::invert` (`BYInverter::<6>::new(&MODULUS_LIMBS, &R2.0)`):
the modulus is odd and the value computed by `inv` (Hurchalla) from its low limb is its inverse
modulo `2^62` — on the limbs parsed from the source. -/
theorem by_inverse_constant_c25519 :
    (c25519FpP : Int) % 2 = 1 ∧
    (2 : Int) ^ 62 ∣ BY.byInv (c25519FpP % BY.U64) * (c25519FpP : Int) - 1 := by
  refine ⟨by decide +kernel, Int.dvd_of_emod_eq_zero ?_⟩
  decide +kernel

/-- Non-vacuity of `invert_spec_partial`: the model inverts `3` modulo `2^255 - 19` with the
adjuster `1` in nine batches, and `3·r ≡ 1`. -/
example : ((BY.invertV c25519FpP 1 3).map (fun r => (r.1.map (fun v => (v * 3) % (c25519FpP : Int)), r.2.length))) =
    some (some 1, 9) := by decide +kernel

/-! ## Jacobi symbol (`ff_ext/jacobi.rs`): the sign bookkeeping -/

/-- The sign of the running symbol is bit 1 of the accumulator `t` (`signOut`); each update of
`jacobi`/`jacobinary` flips that bit exactly under the condition of the corresponding rule:
`t ^= b ^ (b >> 1)` iff `b ≡ 3, 5 (mod 8)` (second supplement, one halving);
`t ^= (b ^ (b >> 1)) & (z << 1)` iff additionally `z` is odd (a batch of `z` halvings);
`t ^= a & b` iff `a ≡ b ≡ 3 (mod 4)` (reciprocity at a swap);
`t ^= d.0[0]` iff `d ≡ 3 (mod 4)` (first supplement, when `n` is negated). -/
theorem jacobi_sign_rules (a b d z t : Nat) (ha : a % 2 = 1) (hb : b % 2 = 1) (hd : d % 2 = 1) :
    ((Jac.twoWord b).testBit 1 = true ↔ (b % 8 = 3 ∨ b % 8 = 5)) ∧
    ((Jac.twoWord b &&& (z * 2)).testBit 1 = ((Jac.twoWord b).testBit 1 && decide (z % 2 = 1))) ∧
    ((a &&& b).testBit 1 = true ↔ (a % 4 = 3 ∧ b % 4 = 3)) ∧
    (d.testBit 1 = true ↔ d % 4 = 3) ∧
    Jac.signOut d t = (if d = 1 then (if t.testBit 1 then -1 else 1) else 0) :=
  ⟨Jac.sign_two b hb, Jac.sign_batch b z, Jac.sign_reciprocity a b ha hb, Jac.sign_neg d hd,
   Jac.signOut_eq d t⟩

/-- Non-vacuity / the executable model on small instances: `(2/7) = 1`, `(3/7) = -1`, `(0/7) = 0`,
and a non-residue modulo `2^255 - 19` (`2`, the published generator). -/
example : (Jac.jacobi 2 [2, 0] [7, 0]).map (·.1) = some 1 ∧ (Jac.jacobi 2 [3, 0] [7, 0]).map (·.1) = some (-1) ∧
    (Jac.jacobi 2 [0, 0] [7, 0]).map (·.1) = some 0 ∧
    (Jac.jacobi 5 [2, 0, 0, 0, 0] (Gen.C25519Fp.MODULUS ++ [0])).map (·.1) = some (-1) := by decide +kernel

/-- What `approximate` keeps (mirrored from the code, see `Model/C10/Jacobi.lean`): with more than
32 common leading zeros in the top chunk pair the bits of the next chunk never reach the result —
here the top chunk is `1` (`z = 63`) and the chunk below is all-ones, yet the high half of the
approximation is `2^63` only (the doc comment of `approximate` promises the 32 high bits of the
129-bit value, `0xffffffff`). Harmless for `jacobi` (the approximations only steer which exact
linear combination is taken), recorded because the code differs from its documentation. -/
example : Jac.approximate [5, 2 ^ 64 - 1, 1] [3, 0, 1] = (2 ^ 63 + 5, 2 ^ 63 + 3, false) := by decide +kernel

/-! ## Square root of the Curve25519 base field -/

/-- `curve25519/fp.rs: fn sqrt` (`p ≡ 5 (mod 8)`, Algorithm 3 of eprint 2012/685), over any
commutative ring: given the constant fact `4·T_SQRT⁴ = -1` (`= 2^((p-1)/2)`, kernel-checked below
on the constant parsed from the source) and `a0 = (a1²·a)² = 1` (Euler's criterion for a non-zero
residue, `a1 = a^((p-5)/8)`), the value returned squares to the input; and when `a0 = -1`
(non-residue) the function returns `None`. PARTIAL: `a0 ∈ {0, 1, -1}` and `a0 = 1 ↔ a` is a
non-zero square need primality of `2^255 - 19` and Euler's criterion, which are not proved here
(the value correspondence `lf C25519Fp sqrt` / `pf C25519Fp sqrt` covers the classes). -/
theorem c25519_sqrt_spec_partial {R : Type} [Lean.Grind.CommRing R] [DecidableEq R] (t a a1 : R)
    (ht : 4 * (t * t * t * t) = -1) :
    (∀ x, (a1 * a1 * a) * (a1 * a1 * a) = 1 →
      c25519SqrtGen (· * ·) (fun y => y * y) (· + ·) (· - ·) (- ·) 1 t a a1 = some x → x * x = a) ∧
    ((a1 * a1 * a) * (a1 * a1 * a) = -1 →
      c25519SqrtGen (· * ·) (fun y => y * y) (· + ·) (· - ·) (- ·) 1 t a a1 = none) := by
  constructor
  · intro x ha0 hx
    unfold c25519SqrtGen at hx
    simp only at hx
    split at hx
    · exact absurd hx (by simp)
    · have hx' : x = a * (t * a1) * (2 * a * (t * a1) * (t * a1) - 1) := by
        have := Option.some.inj hx
        rw [← this]; grind
      have hi : (2 * a * (t * a1) * (t * a1)) * (2 * a * (t * a1) * (t * a1)) = -1 := by
        have e : (2 * a * (t * a1) * (t * a1)) * (2 * a * (t * a1) * (t * a1)) =
            (4 * (t * t * t * t)) * ((a1 * a1 * a) * (a1 * a1 * a)) := by grind
        rw [e, ht, ha0]; grind
      rw [hx']
      exact sqrt58_algebra a (t * a1) hi
  · intro ha0
    unfold c25519SqrtGen
    simp only
    rw [if_pos ha0]

/-- Non-vacuity in `ℤ/5` (`5 ≡ 5 (mod 8)`, `t = 1`: `4·t⁴ = -1`; `a = 4`, `a1 = 4^0 = 1`,
`a0 = 16 = 1`): the function returns `3`, and `3² = 4`. -/
example : c25519SqrtGen (· * ·) (fun y => y * y) (· + ·) (· - ·) (- ·) (1 : Fin 5) 1 4 1 = some 3 := by
  decide

/-- The branches of `curve25519/fp.rs: fn sqrt` are complete and consistent with `a0 = (a1²·a)²`:
the function returns `None` EXACTLY when `a0 = -1`; it returns a root when `a0 = 1`
(`c25519_sqrt_spec_partial`); and for `a = 0` (where `a0 = 0`) it returns `Some(0)`. What remains
a hypothesis is only that `a0 ∈ {0, 1, -1}` with `a0 = 1` iff `a` is a non-zero square (Euler's
criterion, which needs the primality of `2^255 - 19`). -/
theorem c25519_sqrt_branches {R : Type} [Lean.Grind.CommRing R] [DecidableEq R] (t a a1 : R) :
    (c25519SqrtGen (· * ·) (fun y => y * y) (· + ·) (· - ·) (- ·) 1 t a a1 = none ↔
      (a1 * a1 * a) * (a1 * a1 * a) = -1) ∧
    (a = 0 → (0 : R) ≠ -1 →
      c25519SqrtGen (· * ·) (fun y => y * y) (· + ·) (· - ·) (- ·) 1 t a a1 = some 0) := by
  constructor
  · unfold c25519SqrtGen
    simp only
    constructor
    · intro h
      split at h
      · assumption
      · exact absurd h (by simp)
    · intro h
      rw [if_pos h]
  · intro ha h01
    subst ha
    unfold c25519SqrtGen
    simp only
    have e0 : (a1 * a1 * (0 : R)) * (a1 * a1 * 0) = 0 := by grind
    rw [e0, if_neg h01]
    congr 1
    grind

/-- `jubjub/fr.rs: fn sqrt` (`r ≡ 3 (mod 4)`: `s = self^((r+1)/4)`, `Some(s)` iff `s·s == self`), on
the limb model: a value is returned only if it squares to the input, and `None` exactly when the
candidate does not; at ring level, with `e = self^((r-1)/2)` (so that `s² = self·e`, the exponent
`(r+1)/4` being kernel-checked in `jubjub_fr_constants`): `e = 1` makes the candidate a root and
`e = -1` makes it a root of `-self`. PARTIAL: `e ∈ {1, -1}` for `self ≠ 0` is Euler's criterion
(primality of the Jubjub group order is not proved here). -/
theorem jubjub_sqrt_spec_partial (p : MontParams) (one a : L4) :
    (∀ s, jubjubSqrt p one a = some s → mulL p s s = a) ∧
    (jubjubSqrt p one a = none ↔
      mulL p (powGen (squareL p) (mulL p) one a Gen.JubjubFr.SQRT_EXP)
        (powGen (squareL p) (mulL p) one a Gen.JubjubFr.SQRT_EXP) ≠ a) ∧
    (∀ {R : Type} [Lean.Grind.CommRing R] (x e s : R), s * s = x * e →
      (e = 1 → s * s = x) ∧ (e = -1 → s * s = -x)) := by
  refine ⟨fun s h => ?_, ?_, fun x e s h => ⟨fun he => by rw [h, he]; grind, fun he => by rw [h, he]; grind⟩⟩
  · unfold jubjubSqrt at h
    simp only at h
    split at h
    · rename_i hc
      injection h with h
      rw [← h]; exact hc
    · exact absurd h (by simp)
  · unfold jubjubSqrt
    simp only
    constructor
    · intro h
      split at h
      · exact absurd h (by simp)
      · assumption
    · intro h
      rw [if_neg h]

/-- The constant fact used above, on the literal of `curve25519/fp.rs: T_SQRT`:
`4·T_SQRT⁴ ≡ -1 (mod p)`. -/
theorem c25519_sqrt_constant :
    mulMod 4 (powMod (limbsVal Gen.C25519Fp.T_SQRT_RAW) 4 c25519FpP) c25519FpP = c25519FpP - 1 := by
  decide +kernel

/-! ## Extension towers: the formulas are the products of the quotient rings -/

section Tower
variable {F : Type} [Lean.Grind.CommRing F]

/-- Quadratic extension `F[X]/(X² - β)` (`ff_ext/quadratic.rs`: BN254 `Fq2` with `β = -1`, `Fq12`
over `Fq6` with `β = v`; also the specification of blst's `Fp2`/`Fp12`): the Karatsuba
`mul_assign`, the default `square_assign`, the `Fq2` override of `square_assign`, and `invert`
(`a·a⁻¹ = 1` whenever `t` inverts the norm) agree with the ring product — for every commutative
ring and every `mul_by_nonresidue` that is multiplication by `β`. -/
theorem fp2_mul_spec (nr : F → F) (β : F) (hnr : ∀ x, nr x = β * x) (a b : Quad F) :
    quadMul nr a b = quadMulSpec β a b ∧ quadSquare nr a = quadMulSpec β a a ∧
    fq2Square a = quadMulSpec (-1 : F) a a ∧
    (∀ t, quadNorm nr a * t = 1 → quadMulSpec β a (quadInvWith t a) = ⟨1, 0⟩) :=
  ⟨quadMul_eq nr β hnr a b, quadSquare_eq nr β hnr a, fq2Square_eq a, fun t ht => quadInv_eq nr β hnr a t ht⟩

/-- The two `mul_by_nonresidue` of the quadratic level are multiplication by `1 + u` (BLS12-381)
and by `9 + u` (BN254) in `F[u]/(u² + 1)`. -/
theorem fp2_nonresidue_spec (a : Quad F) :
    blsFp2MulNr a = quadMulSpec (-1 : F) a ⟨1, 1⟩ ∧ bnFq2MulNr a = quadMulSpec (-1 : F) a ⟨9, 1⟩ :=
  ⟨blsFp2MulNr_eq a, bnFq2MulNr_eq a⟩

/-- Cubic extension `F[v]/(v³ - ξ)`: `bls12_381/fp6.rs` (`MulAssign`, `square`, `invert`) and
`ff_ext/cubic.rs` (`mul_assign`, `square_assign`, `invert`, `mul_by_nonresidue`) agree with the
ring product; the inverse formulas satisfy `a·a⁻¹ = 1` whenever `tinv` inverts `t`. -/
theorem fp6_mul_spec (nr : F → F) (ξ : F) (hnr : ∀ x, nr x = ξ * x) (a b : Cubic F) :
    blsFp6Mul nr a b = cubicMulSpec ξ a b ∧ cubicMul nr a b = cubicMulSpec ξ a b ∧
    cubicSquare nr a = cubicMulSpec ξ a a ∧ blsFp6Square nr a = cubicMulSpec ξ a a ∧
    cubicMulNr nr a = cubicMulSpec ξ a ⟨0, 1, 0⟩ ∧
    (∀ tinv, (cubicInvParts nr a).2 * tinv = 1 → cubicMulSpec ξ a (cubicInvWith nr tinv a) = ⟨1, 0, 0⟩) ∧
    (∀ tinv, (blsFp6InvParts nr a).2 * tinv = 1 →
      cubicMulSpec ξ a ⟨tinv * (blsFp6InvParts nr a).1.c0, tinv * (blsFp6InvParts nr a).1.c1,
        tinv * (blsFp6InvParts nr a).1.c2⟩ = ⟨1, 0, 0⟩) :=
  ⟨blsFp6Mul_eq nr ξ hnr a b, cubicMul_eq nr ξ hnr a b, (cubicSquare_eq nr ξ hnr a).1,
   (cubicSquare_eq nr ξ hnr a).2, cubicMulNr_eq nr ξ hnr a,
   fun t ht => cubicInv_eq nr ξ hnr a t ht, fun t ht => blsFp6Inv_eq nr ξ hnr a t ht⟩

/-- Degree-12 level and the sparse products of the Miller loop (`CubicSparseMul::mul_by_1`,
`mul_by_01`, `QuadSparseMul::mul_by_014`, `mul_by_034`): each equals the full product with the
sparse operand, expressed with the cubic ring product (`w² = v`). -/
theorem fp12_mul_spec (nr : F → F) (ξ : F) (hnr : ∀ x, nr x = ξ * x) (a : Cubic F)
    (q : Quad (Cubic F)) (c0 c1 c3 c4 : F) :
    mulBy1 nr a c1 = cubicMulSpec ξ a ⟨0, c1, 0⟩ ∧ mulBy01 nr a c0 c1 = cubicMulSpec ξ a ⟨c0, c1, 0⟩ ∧
    mulBy014 nr q c0 c1 c4 =
      ⟨cubicMulSpec ξ q.c0 ⟨c0, c1, 0⟩ + cubicMulNr nr (cubicMulSpec ξ q.c1 ⟨0, c4, 0⟩),
       cubicMulSpec ξ q.c0 ⟨0, c4, 0⟩ + cubicMulSpec ξ q.c1 ⟨c0, c1, 0⟩⟩ ∧
    mulBy034 nr q c0 c3 c4 =
      ⟨cubicMulSpec ξ q.c0 ⟨c0, 0, 0⟩ + cubicMulNr nr (cubicMulSpec ξ q.c1 ⟨c3, c4, 0⟩),
       cubicMulSpec ξ q.c0 ⟨c3, c4, 0⟩ + cubicMulSpec ξ q.c1 ⟨c0, 0, 0⟩⟩ :=
  ⟨mulBy1_eq nr ξ hnr a c1, mulBy01_eq nr ξ hnr a c0 c1, mulBy014_eq nr ξ hnr q c0 c1 c4,
   mulBy034_eq nr ξ hnr q c0 c3 c4⟩

/-- Non-vacuity: over `ℤ`, `nr x = 2·x`. -/
example : quadMul (fun x : Int => 2 * x) ⟨1, 2⟩ ⟨3, 4⟩ = ⟨19, 10⟩ := by decide

end Tower

end MidnightZK.C10
