import MidnightZK.Model.C10.Limbs
import MidnightZK.Model.C10.Field
import MidnightZK.Model.C10.Mont
import MidnightZK.Model.C10.Consts
import MidnightZK.Gen.C10Constants
/-!
# C10 — every exported field type is the field it names
-/
namespace MidnightZK.C10

/-! ## Published constants (re-parsed from the Rust sources on every run) -/

/-- BLS12-381 scalar field `Fq` (`bls12_381/fq.rs`): the limbs of `MODULUS`, the bytes of
`MODULUS_REPR` and the `PrimeField::MODULUS` string denote the same 255-bit number. -/
theorem bls_fq_modulus_consistent :
    limbsVal Gen.BlsFq.MODULUS = Gen.BlsFq.MODULUS_STR ∧
    leBytesToNat Gen.BlsFq.MODULUS_REPR = Gen.BlsFq.MODULUS_STR ∧
    numBits Gen.BlsFq.MODULUS_STR = Gen.BlsFq.NUM_BITS := by decide +kernel

/-- `Fq`: `R`, `R2`, `R3`, `INV` satisfy `R = 2^256 mod q`, `R2 = 2^512 mod q`, `R3 = 2^768 mod q`,
`INV·q ≡ -1 (mod 2^64)`. -/
theorem bls_fq_montgomery_constants : blsFqMont.Valid := by decide +kernel

/-- `Fq`: generator 7 is a non-residue, `q - 1 = 2^32·t` with `t` odd, `ROOT_OF_UNITY = g^t` has
order exactly `2^32`, `ROOT_OF_UNITY_INV` inverts it, `DELTA = g^(2^32)`, `2·TWO_INV = 1`. -/
theorem bls_fq_constants : blsFqConsts.Valid := by decide +kernel

/-- `Fq`: `ZETA` is a primitive cube root of unity; the exponent passed to
`sqrt_tonelli_shanks` in `fn sqrt` is `(t - 1)/2`. -/
theorem bls_fq_zeta_and_sqrt_exponent :
    CubeRoot blsFqP (canonOf blsFqP 4 Gen.BlsFq.ZETA) ∧
    limbsVal Gen.BlsFq.SQRT_T_MINUS1_OVER2 = ((blsFqP - 1) / 2 ^ Gen.BlsFq.S - 1) / 2 ∧
    canonOf blsFqP 4 Gen.BlsFq.R = 1 := by decide +kernel

/-- BLS12-381 base field `Fp` (`bls12_381/fp.rs`): limbs, bytes and string of the modulus agree
(381 bits); `R = 2^384 mod p` (`ONE`); generator 2 is a non-residue; `2·TWO_INV = 1`;
`ZETA_BASE` is a primitive cube root of unity. -/
theorem bls_fp_constants_partial :
    limbsVal Gen.BlsFp.MODULUS = Gen.BlsFp.MODULUS_STR ∧
    leBytesToNat Gen.BlsFp.MODULUS_REPR = Gen.BlsFp.MODULUS_STR ∧
    numBits Gen.BlsFp.MODULUS_STR = Gen.BlsFp.NUM_BITS ∧
    limbsVal Gen.BlsFp.R = 2 ^ 384 % blsFpP ∧
    blsFpConsts.Basic ∧ CubeRoot blsFpP (canonOf blsFpP 6 Gen.BlsFp.ZETA_BASE) := by decide +kernel

/-- KNOWN FINDING (`bls12_381.Fp:S-DELTA-placeholders`): the two-adicity constants published by
`Fp` are placeholders. With `S = 0` the cofactor `t = p - 1` is even, and `DELTA = 0 ≠ g^(2^S)`;
the defining equations hold for `S = 1`, `ROOT_OF_UNITY = p - 1`, `DELTA = 4` instead. -/
theorem bls_fp_two_adicity_placeholders :
    ¬ blsFpConsts.TwoAdicity ∧ ¬ blsFpConsts.Delta ∧ ¬ blsFpConsts.Valid ∧
    ({ blsFpConsts with s := 1, rou := blsFpP - 1, rouInv := blsFpP - 1, delta := 4 } : PFConsts).Valid := by
  decide +kernel

/-- Jubjub scalar field `Fr` (`jubjub/fr.rs`): modulus string = limbs (252 bits); Montgomery
constants; generator 6 non-residue, `S = 1`, `ROOT_OF_UNITY`, its inverse, `DELTA`, `TWO_INV`;
the exponent of `fn sqrt` is `(r + 1)/4` and `r ≡ 3 (mod 4)`. -/
theorem jubjub_fr_constants :
    limbsVal Gen.JubjubFr.MODULUS = Gen.JubjubFr.MODULUS_STR ∧
    numBits Gen.JubjubFr.MODULUS_STR = Gen.JubjubFr.NUM_BITS ∧
    jubjubFrMont.Valid ∧ jubjubFrConsts.Valid ∧
    limbsVal Gen.JubjubFr.SQRT_EXP = (jubjubFrP + 1) / 4 ∧ jubjubFrP % 4 = 3 := by decide +kernel

/-- Curve25519 base field `Fp` (`curve25519/fp.rs`): `p = 2^255 - 19`; Montgomery constants;
generator 2, `S = 2`, roots of unity, `DELTA`, `TWO_INV`, `ZETA`; `fn sqrt` uses
`EXP = (p - 5)/8` and `T_SQRT = 2^((p-5)/8)` with `p ≡ 5 (mod 8)`;
`HALF_MODULUS = (p - 1)/2`. -/
theorem c25519_fp_constants :
    limbsVal Gen.C25519Fp.MODULUS = Gen.C25519Fp.MODULUS_STR ∧ c25519FpP = 2 ^ 255 - 19 ∧
    numBits c25519FpP = Gen.C25519Fp.NUM_BITS ∧
    c25519FpMont.Valid ∧ c25519FpConsts.Valid ∧
    CubeRoot c25519FpP (canonOf c25519FpP 4 Gen.C25519Fp.ZETA) ∧
    limbsVal Gen.C25519Fp.SQRT_EXP = (c25519FpP - 5) / 8 ∧ c25519FpP % 8 = 5 ∧
    limbsVal Gen.C25519Fp.T_SQRT_RAW = powMod 2 ((c25519FpP - 5) / 8) c25519FpP ∧
    limbsVal Gen.C25519Fp.HALF_MODULUS = (c25519FpP - 1) / 2 := by decide +kernel

/-- BN254 `Fq`/`Fr` (`bn256/fq.rs`, `fr.rs`, arguments of `impl_field!`): `mul_gen` is a
quadratic non-residue, `zeta` a primitive cube root of unity; the exponents of the `Fq2` square
root are `(q-3)/4` and `(q-1)/2`; the non-residue of `Fq2` is `9 + u`. -/
theorem bn256_constants :
    powMod Gen.Bn256Fq.MUL_GEN ((Gen.Bn256Fq.MODULUS - 1) / 2) Gen.Bn256Fq.MODULUS = Gen.Bn256Fq.MODULUS - 1 ∧
    powMod Gen.Bn256Fr.MUL_GEN ((Gen.Bn256Fr.MODULUS - 1) / 2) Gen.Bn256Fr.MODULUS = Gen.Bn256Fr.MODULUS - 1 ∧
    CubeRoot Gen.Bn256Fq.MODULUS Gen.Bn256Fq.ZETA ∧ CubeRoot Gen.Bn256Fr.MODULUS Gen.Bn256Fr.ZETA ∧
    limbsVal Gen.Bn256Tower.Q_MINUS_3_OVER_4 = (Gen.Bn256Fq.MODULUS - 3) / 4 ∧
    limbsVal Gen.Bn256Tower.Q_MINUS_1_OVER_2 = (Gen.Bn256Fq.MODULUS - 1) / 2 ∧
    Gen.Bn256Fq.MODULUS % 4 = 3 ∧ limbsVal Gen.Bn256Tower.FQ2_NON_RESIDUE_C0_RAW = 9 := by decide +kernel

/-- BLS12-381 tower (`bls12_381/fp.rs`, `fp12.rs`): every Frobenius coefficient is the power of the
non-residue `ξ = 1 + u` (resp. `-1`) its comment states: `FP2_C1[i] = (-1)^((p^i-1)/2)`,
`FP6_C1[i] = ξ^((p^i-1)/3)`, `FP6_C2[i] = ξ^((2p^i-2)/3)`, `FP12_C1[i] = ξ^((p^i-1)/6)`. -/
theorem bls_frobenius_coefficients :
    Gen.BlsFp.FROBENIUS_COEFF_FP2_C1.map (canonOf blsFpP 6) =
      (List.range 2).map (fun i => powMod (blsFpP - 1) ((blsFpP ^ i - 1) / 2) blsFpP) ∧
    fp2Table blsFpP 6 Gen.BlsFp.FROBENIUS_COEFF_FP6_C1 = frobTable blsFpP (1, 1) 1 3 6 ∧
    fp2Table blsFpP 6 Gen.BlsFp.FROBENIUS_COEFF_FP6_C2 = frobTable blsFpP (1, 1) 2 3 6 ∧
    fp2Table blsFpP 6 Gen.BlsFp.FROBENIUS_COEFF_FP12_C1 = frobTable blsFpP (1, 1) 1 6 12 := by
  decide +kernel

/-- BN254 tower (`bn256/fq6.rs`, `fq12.rs`): the Frobenius coefficients are the stated powers of
`ξ = 9 + u`. -/
theorem bn256_frobenius_coefficients :
    fp2Table Gen.Bn256Fq.MODULUS 4 Gen.Bn256Tower.FROBENIUS_COEFF_FQ6_C1 = frobTable Gen.Bn256Fq.MODULUS (9, 1) 1 3 6 ∧
    fp2Table Gen.Bn256Fq.MODULUS 4 Gen.Bn256Tower.FROBENIUS_COEFF_FQ6_C2 = frobTable Gen.Bn256Fq.MODULUS (9, 1) 2 3 6 ∧
    fp2Table Gen.Bn256Fq.MODULUS 4 Gen.Bn256Tower.FROBENIUS_COEFF_FQ12_C1 = frobTable Gen.Bn256Fq.MODULUS (9, 1) 1 6 12 := by
  decide +kernel

end MidnightZK.C10
