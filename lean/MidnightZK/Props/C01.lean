import MidnightZK.Model.C01.Schedule
import MidnightZK.Model.C01.Quotient
import MidnightZK.Proofs.C01.GraphCorrect
import MidnightZK.Proofs.C01.TrashComplete
import MidnightZK.Proofs.C01.LookupPermute
import MidnightZK.Proofs.C01.LookupProduct
import MidnightZK.Proofs.C01.IdentityOrder
import MidnightZK.Proofs.C01.PermComplete
import MidnightZK.Proofs.C01.Toy
import MidnightZK.Proofs.C01.Bridge
import MidnightZK.Model.C01.GraphDump
import MidnightZK.Proofs.C02.Degree
import MidnightZK.Proofs.C02.Domain
import MidnightZK.Proofs.C01.IdDegree
import MidnightZK.Model.C01.Skeleton
import MidnightZK.Model.C01.Rotation
import MidnightZK.Gen.C01Transcript
/-!
# C01 — honest proofs verify for every circuit shape and proving configuration

Property theorems about the Fiat–Shamir schedules (`Model/C01/Schedule.lean`), the quotient
split (`Quotient.lean`), the expression-graph compiler (`GraphEval.lean`), the order in which
prover and verifier combine the identities (`Identities.lean`) and the completeness of the
permutation, lookup and trash arguments as the prover constructs them (`Arguments.lean`), and the
assembly (`Vanishing.lean`, `Proofs/C01/{Domain,Assembly,Bridge}.lean`): from identities that vanish on
every row to the verifier's final evaluation check.
-/
namespace MidnightZK.C01

/-! ### helper lemmas -/

private theorem filter_map_eq_flatMap {α β} (p : α → Bool) (f : α → β) (l : List α) :
    (l.filter p).map f = l.flatMap (fun a => if p a then [f a] else []) := by
  induction l with
  | nil => rfl
  | cons a t ih =>
    simp only [List.filter_cons, List.flatMap_cons]
    cases h : p a <;> simp [ih]

private theorem range_add_flatMap {β} (a b : Nat) (g : Nat → List β) :
    (List.range (a + b)).flatMap g = (List.range a).flatMap g ++ (List.range b).flatMap (fun i => g (a + i)) := by
  rw [List.range_add, List.flatMap_append, List.flatMap_map]

private theorem flatMap_congr' {α β} (l : List α) (f g : α → List β) (h : ∀ a ∈ l, f a = g a) :
    l.flatMap f = l.flatMap g := by
  induction l with
  | nil => rfl
  | cons a t ih =>
    simp only [List.flatMap_cons]
    rw [h a (by simp), ih (fun x hx => h x (by simp [hx]))]

private theorem zipIdx_flatMap {α β} (d : α) (F : α → Nat → List β) : ∀ (l : List α) (k : Nat),
    (l.zipIdx k).flatMap (fun x => F x.1 x.2) = (List.range l.length).flatMap (fun i => F (l.getD i d) (k + i))
  | [], _ => by simp
  | a :: t, k => by
    rw [List.zipIdx_cons, List.flatMap_cons, zipIdx_flatMap d F t (k + 1)]
    simp only [List.length_cons]
    rw [List.range_succ_eq_map, List.flatMap_cons, List.flatMap_map]
    simp only [List.getD_cons_zero, Nat.add_zero, List.getD_cons_succ]
    congr 1
    apply flatMap_congr'
    intro i _
    rw [show k + 1 + i = k + (i + 1) by omega]

/-! ### instance absorption (defect D1) -/

/-- Prover (`compute_instances`) and verifier (`parse_trace`) absorb committed-instance
commitments and plain instance columns in the same order — for every number of proofs, of
committed columns and every list of plain column lengths. -/
theorem instances_agree (cfg : Cfg) : proverInstances cfg = verifierInstances cfg := by
  unfold proverInstances verifierInstances
  apply flatMap_congr'
  intro p _
  simp only []
  generalize cfg.lens.getD p [] = lens
  rw [range_add_flatMap]
  congr 1
  · rw [List.map_eq_flatMap]
    apply flatMap_congr'
    intro i hi
    simp only [List.mem_range] at hi
    simp [hi]
  · have h := zipIdx_flatMap (0 : Nat)
      (fun len c => absorbF (.instLen p (cfg.nCommitted + c)) ::
        (List.range len).map (fun j => absorbF (.instVal p (cfg.nCommitted + c) j))) lens 0
    simp only [Nat.zero_add] at h
    rw [show (lens.zipIdx.flatMap fun x => match x with
        | (len, c) => absorbF (.instLen p (cfg.nCommitted + c)) ::
          (List.range len).map (fun j => absorbF (.instVal p (cfg.nCommitted + c) j))) =
        (lens.zipIdx.flatMap fun x => absorbF (.instLen p (cfg.nCommitted + x.2)) ::
          (List.range x.1).map (fun j => absorbF (.instVal p (cfg.nCommitted + x.2) j))) from rfl, h]
    apply flatMap_congr'
    intro i _
    have : ¬ (cfg.nCommitted + i < cfg.nCommitted) := by omega
    simp [this]

/-- The order used by the pinned tree's verifier before the fix (all commitments of all
proofs, then all plain columns): kept to document defect D1. -/
def verifierInstancesPinned (cfg : Cfg) : List Ev :=
  ((List.range cfg.nProofs).flatMap fun p => (List.range cfg.nCommitted).map (fun c => absorbG (.instCommit p c))) ++
  ((List.range cfg.nProofs).flatMap fun p =>
    ((cfg.lens.getD p []).zipIdx.flatMap fun (len, c) =>
      absorbF (.instLen p (cfg.nCommitted + c)) :: (List.range len).map (fun j => absorbF (.instVal p (cfg.nCommitted + c) j))))

/-- D1: with two proofs, one committed and one plain instance column, the pre-fix verifier
order differs from the prover's order (the configuration in which honest proofs were rejected). -/
theorem pinned_order_disagrees :
    proverInstances ⟨2, 1, [[1], [1]]⟩ ≠ verifierInstancesPinned ⟨2, 1, [[1], [1]]⟩ := by decide

/-! ### the remaining segments -/

/-- Advice commitments and phase challenges: prover (`parse_advices`, per phase the
`BTreeSet` of column indices of that phase, per circuit) and verifier (`parse_trace`, per
phase, per proof, every column whose phase matches) agree for every phase assignment. -/
theorem advice_agree (sh : Shape) (cfg : Cfg) : proverAdvice sh cfg = verifierAdvice sh cfg := by
  unfold proverAdvice verifierAdvice
  apply flatMap_congr'
  intro ph _
  simp only []
  congr 1
  · apply flatMap_congr'
    intro p _
    rw [List.map_map, filter_map_eq_flatMap]
    apply flatMap_congr'
    intro a _
    obtain ⟨q, c⟩ := a
    by_cases h : q = ph
    · subst h; simp
    · have h' : ¬ ph = q := fun e => h e.symm
      simp [h, h']
  · rw [filter_map_eq_flatMap]
    apply flatMap_congr'
    intro a _
    obtain ⟨q, c⟩ := a
    by_cases h : q = ph
    · subst h; simp
    · have h' : ¬ ph = q := fun e => h e.symm
      simp [h, h']

private theorem extendedK_ge (k qpd : Nat) : ∀ (fuel ek : Nat), 2 ^ k * qpd ≤ 2 ^ (ek + fuel) →
    2 ^ k * qpd ≤ 2 ^ extendedK k qpd fuel ek
  | 0, ek, h => by simpa [extendedK] using h
  | fuel + 1, ek, h => by
    unfold extendedK
    split
    · apply extendedK_ge k qpd fuel (ek + 1)
      rw [show ek + 1 + fuel = ek + (fuel + 1) by omega]; exact h
    · omega

/-- The extended domain built by `EvaluationDomain::new` is large enough for the quotient:
`n · (degree − 1) ≤ 2^extended_k`. -/
theorem extended_domain_large_enough (sh : Shape) :
    n sh * quotientPolyDegree sh ≤ extendedLen sh := by
  unfold extendedLen n
  apply extendedK_ge
  have h1 : quotientPolyDegree sh < 2 ^ (quotientPolyDegree sh + 1) :=
    Nat.lt_of_lt_of_le Nat.lt_two_pow_self (Nat.pow_le_pow_right (by omega) (by omega))
  rw [Nat.pow_add]
  exact Nat.mul_le_mul_left _ (Nat.le_of_lt h1)

/-- The prover writes exactly as many quotient pieces (`truncate` + `chunks_exact(n-1)`) as the
verifier reads (`get_quotient_poly_degree()`), for every degree ≥ 3 and every `k ≥ 1`. -/
theorem hpieces_agree (sh : Shape) (hk : 1 ≤ sh.k) : proverHPieces sh = verifierHPieces sh := by
  unfold proverHPieces verifierHPieces
  have hn : 2 ≤ n sh := by
    unfold n
    calc 2 = 2 ^ 1 := rfl
      _ ≤ 2 ^ sh.k := Nat.pow_le_pow_right (by omega) hk
  have hle : (n sh - 1) * quotientPolyDegree sh ≤ extendedLen sh :=
    Nat.le_trans (Nat.mul_le_mul_right _ (by omega)) (extended_domain_large_enough sh)
  simp only []
  rw [Nat.min_eq_right hle, Nat.mul_comm, Nat.mul_div_cancel _ (by omega)]

/-- Evaluations written by `write_evals_to_transcript` = evaluations read by the verifier. -/
theorem evals_agree (sh : Shape) (cfg : Cfg) : proverEvals sh cfg = verifierEvals sh cfg := by
  unfold proverEvals verifierEvals
  congr 2
  apply flatMap_congr'
  intro p _
  rw [filter_map_eq_flatMap]
  apply flatMap_congr'
  intro a _
  obtain ⟨q, qi⟩ := a
  by_cases h : q.1 < cfg.nCommitted <;> simp [h]

/-- The opening queries of prover (`compute_queries`) and verifier are the same list of
(polynomial, rotation) pairs in the same order; hence the multi-opening groups them into the
same point sets and the `q_evals` are produced and consumed in the same order. -/
theorem queries_agree (sh : Shape) (cfg : Cfg) : proverQueries sh cfg = verifierQueries sh cfg := by
  unfold proverQueries verifierQueries permSets
  simp only []
  congr 3
  apply flatMap_congr'
  intro p _
  congr 5
  rw [filter_map_eq_flatMap]
  apply flatMap_congr'
  intro q _
  by_cases h : q.1 < cfg.nCommitted <;> simp [h]

/-- **Schedule agreement.** For every constraint-system shape (any number of advice columns and
phases, challenges, queries, lookups, trash arguments, permutation columns, any degree ≥ 3 and
`k ≥ 1`) and every proving configuration (any number of proofs, committed and plain instance
columns of any lengths) the verifier replays exactly the prover's transcript operations:
same absorbed elements, same proof elements of the same type, same challenge positions. -/
theorem schedule_agree (sh : Shape) (cfg : Cfg) (h : WF sh cfg) :
    proverSchedule sh cfg = verifierSchedule sh cfg := by
  unfold proverSchedule verifierSchedule
  rw [instances_agree, advice_agree, hpieces_agree sh h.k_pos, evals_agree, queries_agree]
  rfl

/-- Non-vacuity: a shape with two phases, a lookup, a trash argument, two permutation sets. -/
example : WF ⟨[0, 0, 1], [0], [(0, 0), (1, 0), (2, 1)], [(0, 0), (1, 0)], [(0, 0)], 1, 1, 5, 5, 6, 4⟩
    ⟨2, 1, [[2], [3]]⟩ := ⟨by decide, by decide, by decide⟩

/-! ### quotient polynomial: split, blind, recombine -/

section Quotient
variable {R : Type} [Lean.Grind.CommRing R]

private theorem evalPoly_append_single (L : List R) (t x : R) :
    evalPoly (L ++ [t]) x = evalPoly L x + x ^ L.length * t := by
  induction L with
  | nil => simp [evalPoly]; grind
  | cons a r ih =>
    simp only [evalPoly, List.cons_append, List.foldr_cons, List.length_cons] at ih ⊢
    rw [ih]; grind

private theorem evalPoly_subHead (M : List R) (t x : R) (h : M ≠ []) :
    evalPoly (subHead t M) x = evalPoly M x - t := by
  cases M with
  | nil => exact absurd rfl h
  | cons a r => simp only [subHead, evalPoly, List.foldr_cons]; grind

private theorem evalPoly_append (A B : List R) (x : R) :
    evalPoly (A ++ B) x = evalPoly A x + x ^ A.length * evalPoly B x := by
  induction A with
  | nil => simp [evalPoly]; grind
  | cons a r ih =>
    simp only [evalPoly, List.cons_append, List.foldr_cons, List.length_cons] at ih ⊢
    rw [ih]; grind

/-- **Blinding the quotient limbs does not change the recombined quotient**: for every list
of limbs of length `m = n − 1 ≥ 1`, every blinding vector `ts` and every evaluation point,
`Σ x^(m·i) L'ᵢ(x) = Σ x^(m·i) Lᵢ(x)`. (Each `tᵢ` enters as `+tᵢ·X^m` in limb `i−1` and as
`−tᵢ` in limb `i`.) -/
theorem quotient_blind_recombine (x : R) (m : Nat) (hm : 1 ≤ m) :
    ∀ (limbs : List (List R)) (ts : List R), (∀ L ∈ limbs, L.length = m) →
      recombine x m (blind ts limbs) = recombine x m limbs
  | [], ts, _ => by cases ts <;> simp [blind]
  | [L], ts, _ => by
    cases ts <;> simp only [blind, recombine] <;> rw [evalPoly_append_single] <;> grind
  | L :: M :: rest, [], h => by
    have ih := quotient_blind_recombine x m hm (M :: rest) [] (fun K hK => h K (by simp [hK]))
    simp only [blind, recombine] at ih ⊢
    rw [evalPoly_append_single, ih]; grind
  | L :: M :: rest, t :: ts, h => by
    have hL : L.length = m := h L (by simp)
    have hM : M.length = m := h M (by simp)
    have hMne : M ≠ [] := by intro e; rw [e] at hM; simp at hM; omega
    have hlen : ∀ K ∈ subHead t M :: rest, K.length = m := by
      intro K hK
      simp only [List.mem_cons] at hK
      rcases hK with rfl | hK
      · cases M with
        | nil => exact absurd rfl hMne
        | cons a r => simpa [subHead] using hM
      · exact h K (by simp [hK])
    have ih := quotient_blind_recombine x m hm (subHead t M :: rest) ts hlen
    simp only [blind, recombine] at ih ⊢
    rw [evalPoly_append_single, ih, evalPoly_subHead M t x hMne, hL]; grind

/-- **Splitting and recombining is the identity on evaluations**: if the (truncated) quotient
has `m·q` coefficients, `Σ_j x^(m·j) h_j(x) = h(x)` where `h_j` are the `chunks_exact(m)`
pieces — what the verifier relies on when it opens the chopped commitment at `x`. -/
theorem chunks_recombine (x : R) (m : Nat) (hm : 1 ≤ m) :
    ∀ (q fuel : Nat) (h : List R), h.length = m * q → q ≤ fuel →
      recombine x m (chunksExact m fuel h) = evalPoly h x
  | 0, fuel, h, hl, _ => by
    have : h = [] := by simpa using hl
    subst this
    cases fuel with
    | zero => simp [chunksExact, recombine, evalPoly]
    | succ k =>
      have : (m = 0 ∨ 0 < m) := Or.inr (by omega)
      simp [chunksExact, recombine, evalPoly, this]
  | q + 1, 0, h, _, hf => by omega
  | q + 1, fuel + 1, h, hl, hf => by
    have hge : ¬ (m = 0 ∨ h.length < m) := by
      rw [hl, Nat.mul_succ]; omega
    simp only [chunksExact, hge, if_false, recombine]
    have hdrop : (h.drop m).length = m * q := by
      rw [List.length_drop, hl, Nat.mul_succ]; omega
    rw [chunks_recombine x m hm q fuel (h.drop m) hdrop (by omega)]
    have htake : (h.take m).length = m := by
      rw [List.length_take, hl, Nat.mul_succ]; omega
    conv => rhs; rw [← List.take_append_drop m h, evalPoly_append, htake]

/-- Non-vacuity over `Int`: two limbs of length 2, blinded with `t = 7`, at `x = 3`. -/
example : recombine (3 : Int) 2 (blind [7] [[1, 2], [4, 5]]) = recombine 3 2 [[1, 2], [4, 5]] :=
  quotient_blind_recombine 3 2 (by decide) _ _ (by simp)

end Quotient

/-! ### the expression-graph compiler of the prover -/

section GraphCompiler
open Graph
variable {F : Type} [Lean.Grind.CommRing F] [DecidableEq F]

/-- **The prover's expression compiler is correct** (`evaluation.rs: add_expression` +
`GraphEvaluator::evaluate`): for every gate expression `e`, every well-formed graph `g` it is
added to (in particular the graph holding all previously compiled gates), every operand
ordering and every row environment, running the evaluation loop of the extended graph and
reading the returned value source yields `e` evaluated on that row. Covers the constant
shortcuts (`0`, `1`, `2`), `a + (−b) ↦ Sub`, squaring, operand reordering, `Scaled` and the
sharing of identical constants / rotations / calculations — over any commutative ring. -/
theorem compile_correct (le : VS → VS → Bool) (env : Env F) (e : Expr F) (g : G F) (hg : Graph.WF g) :
    VS.get (addExpr le e g).1 env ((addExpr le e g).1.run env) (addExpr le e g).2 = e.eval env :=
  compile_correct_aux le env e g hg

/-- Compiling never invalidates what was compiled before: the graph only grows, stays
well-formed, and earlier value sources keep their value. -/
theorem compile_preserves (le : VS → VS → Bool) (env : Env F) (e : Expr F) (g : G F) (hg : Graph.WF g)
    (vs : VS) (hv : Valid g vs) :
    Graph.WF (addExpr le e g).1 ∧ V (addExpr le e g).1 env vs = V g env vs :=
  ⟨(addExpr_res le env e g hg).wf, V_ext env (addExpr_res le env e g hg).ext hg hv⟩

/-- Non-vacuity: the graph `GraphEvaluator::default()` starts from is well-formed. -/
example : Graph.WF (G.init : G F) := WF_init

end GraphCompiler

/-! ### order in which the identities are combined with `y` -/

section IdentityOrder
open Ids

/-- **The prover consumes the identities in the verifier's order**, for every shape (any number
of proofs, gate polynomials, permutation column sets — including none —, lookups and trash
arguments): the loop nest of `evaluation.rs: evaluate_numerator` (custom gates, then first / last /
chain / product rules of the permutation argument, then five identities per lookup, then one per
trash argument, proof after proof) visits exactly the sequence yielded by the iterator chain of
`plonk/mod.rs: evaluate_identities`. -/
theorem identity_order_ids (sh : IdShape) : proverIds sh = verifierIds sh := proverIds_eq sh

/-- **Horner sections**: the value the prover accumulates on a row — the custom-gates graph ending
in `Horner(PreviousValue, parts, Y)` started from the value accumulated so far, followed by the
`*value = *value * y + …` blocks — equals ONE Horner pass `fold(0, |h, v| h·y + v)` over the
concatenated identity list, for any values of the identities and any `y` (no ring law is needed:
the two computations perform the same operations in the same order). -/
theorem horner_sections {F : Type} [Zero F] [Add F] [Mul F] (sh : IdShape) (val : IdTerm → F) (y : F) :
    proverFold sh val y = (proverIds sh).foldl (fun h t => h * y + val t) 0 :=
  proverFold_eq_accum sh val y

/-- **Identity order agreement** (`evaluate_numerator` vs `evaluate_identities` + `verify`): for
every shape, every valuation of the identities and every `y`, the prover's accumulated numerator
value equals the verifier's `fold(ZERO, |h, v| h * y + v)` over its expression chain. -/
theorem identity_order_agree {F : Type} [Zero F] [Add F] [Mul F] (sh : IdShape) (val : IdTerm → F) (y : F) :
    proverFold sh val y = verifierFold sh val y := by
  rw [horner_sections, identity_order_ids]; rfl

/-- Non-vacuity: two proofs, three gate polynomials, two column sets, one lookup, one trash
argument: 2·(3 + (1+1+1+2) + 5 + 1) = 28 identities; and a shape without permutation sets. -/
example : (verifierIds ⟨2, 3, 2, 1, 1⟩).length = 28 ∧ (proverIds ⟨1, 1, 0, 0, 1⟩) = [.gate 0 0, .trash 0 0] := by
  decide

end IdentityOrder

/-! ### trash argument -/

section Trash
open Args
variable {F : Type} [CommRing F]

/-- **The honest trash column satisfies the verifier's trash identity on every row**
(`trash/prover.rs: commit` vs `trash.rs: Evaluated::expressions`): for every domain size `n`,
challenge, selector vector `q` and constraint-expression value vectors (of length `n`) such that
`q·constraint = 0` on every row — the condition the mock checker tests; in particular
"`q = 1` ⇒ every constraint is 0" for a Boolean selector, see `trash_complete_selector` — the
column computed by `trashValues` makes `compressed − (1 − q)·trash` vanish on EVERY row, the
blinding rows included (the prover does not blind the trash column). Over any commutative ring. -/
theorem trash_complete (n : Nat) (c : F) (q : List F) (exprs : List (List F))
    (hl : ∀ e ∈ exprs, e.length = n)
    (hsat : ∀ i, i < n → ∀ e ∈ exprs, q.getD i 0 * e.getD i 0 = 0) :
    ∀ i, i < n → trashExpressionRow c q exprs (trashValues n c exprs) i = 0 :=
  fun i hi => trash_row_complete n c q exprs hl i hi (hsat i hi)

/-- The same for a Boolean selector column: `q ∈ {0, 1}` on every row and every constraint
expression is `0` on the rows where `q = 1`. -/
theorem trash_complete_selector (n : Nat) (c : F) (q : List F) (exprs : List (List F))
    (hl : ∀ e ∈ exprs, e.length = n)
    (hq : ∀ i, i < n → q.getD i 0 = 0 ∨ q.getD i 0 = 1)
    (hsat : ∀ i, i < n → q.getD i 0 = 1 → ∀ e ∈ exprs, e.getD i 0 = 0) :
    ∀ i, i < n → trashExpressionRow c q exprs (trashValues n c exprs) i = 0 := by
  apply trash_complete n c q exprs hl
  intro i hi e he
  rcases hq i hi with h | h
  · rw [h, zero_mul]
  · rw [hsat i hi h e he, mul_zero]

/-- The trash column is the verifier's compressed expression on every row. -/
theorem trash_values_spec (n : Nat) (c : F) (exprs : List (List F)) (hl : ∀ e ∈ exprs, e.length = n) :
    ∀ i, i < n → (trashValues n c exprs).getD i 0 = compressRow c exprs i :=
  fun i hi => trash_value_eq n c exprs hl i hi

end Trash

/-- Non-vacuity over `ℤ`: `n = 3`, selector `[1, 0, 0]`, two constraint expressions that vanish
on row 0 only; the trash column is `[0, 2·5 + 3, 4·5 + 1]`. -/
example : (∀ i, i < 3 → Args.trashExpressionRow (5 : Int) [1, 0, 0] [[0, 2, 4], [0, 3, 1]]
      (Args.trashValues 3 5 [[0, 2, 4], [0, 3, 1]]) i = 0) ∧
    Args.trashValues 3 (5 : Int) [[0, 2, 4], [0, 3, 1]] = [0, 13, 21] :=
  ⟨trash_complete_selector 3 5 _ _ (by decide) (by decide) (by decide), by decide⟩

/-! ### lookup argument -/

section Lookup
open Args
variable {α : Type} [DecidableEq α]

/-- **Specification of `permute_expression_pair`** (`lookup/prover.rs`), success case. For every
decidable linear order `le` (`Ord` of the field), every iteration order `order` of the leftover
`HashMap` that is a permutation of its entries (HashMap-order independence), every number `u` of
usable rows and vectors `A`, `S` with at least `u` entries such that every usable input value
occurs among the usable table values, the function returns `Ok((A' ++ blinding, S' ++ blinding))`
where `A'` is the sorted permutation of the usable input rows, `S'` is a permutation of the usable
table rows, `A'₀ = S'₀`, and on every usable row `A'ᵢ = S'ᵢ` or (`i > 0` and) `A'ᵢ = A'ᵢ₋₁`.
In particular none of its `assert!`/`unwrap` can fire. -/
theorem lookup_permuted_spec (le : α → α → Bool) (hle : LinOrd le) (zero : α)
    (order : List (α × Nat) → List (α × Nat)) (horder : ∀ m, (order m).Perm m)
    (u : Nat) (A S blindA blindS : List α) (hA : u ≤ A.length) (hS : u ≤ S.length)
    (hsub : ∀ x ∈ A.take u, x ∈ S.take u) :
    ∃ A' S' : List α,
      permuteExpressionPair le zero order u A S blindA blindS = .ok (A' ++ blindA) (S' ++ blindS) ∧
      A'.Perm (A.take u) ∧ A'.Pairwise (fun a b => le a b = true) ∧
      S'.Perm (S.take u) ∧
      A'[0]? = S'[0]? ∧
      (∀ i, i < u → A'[i]? = S'[i]? ∨ (0 < i ∧ A'[i]? = A'[i - 1]?)) := by
  obtain ⟨S', hok, hperm, hadj⟩ := permute_ok le hle zero order horder u A S blindA blindS hA hS hsub
  refine ⟨sortList le (A.take u), S', hok, sortList_perm le _, sortList_sorted le hle _, hperm, ?_, hadj⟩
  by_cases hu : 0 < u
  · rcases hadj 0 hu with h | ⟨h, _⟩
    · exact h
    · exact absurd h (Nat.lt_irrefl 0)
  · have hu0 : u = 0 := by omega
    subst hu0
    have h1 : (sortList le (A.take 0)) = [] := by simp [sortList]
    have h2 : S' = [] := by simpa using hperm
    rw [h1, h2]

/-- **Failure case**: when some usable input value does not occur among the usable table values
`permute_expression_pair` returns `Err(ConstraintSystemFailure)` — it neither panics nor returns a
pair — for every iteration order of the map and vectors of any length. -/
theorem lookup_permuted_fail (le : α → α → Bool) (hle : LinOrd le) (zero : α)
    (order : List (α × Nat) → List (α × Nat))
    (u : Nat) (A S blindA blindS : List α)
    (hmiss : ∃ x ∈ A.take u, x ∉ S.take u) :
    permuteExpressionPair le zero order u A S blindA blindS = .constraintSystemFailure :=
  permute_fail le hle zero order u A S blindA blindS hmiss

/-- **`permute_expression_pair` never panics** on vectors with at least `u` entries, whatever the
values and whatever the iteration order of the `HashMap`. -/
theorem lookup_permuted_no_panic (le : α → α → Bool) (hle : LinOrd le) (zero : α)
    (order : List (α × Nat) → List (α × Nat)) (horder : ∀ m, (order m).Perm m)
    (u : Nat) (A S blindA blindS : List α) (hA : u ≤ A.length) (hS : u ≤ S.length) :
    permuteExpressionPair le zero order u A S blindA blindS ≠ .panic := by
  by_cases hsub : ∀ x ∈ A.take u, x ∈ S.take u
  · obtain ⟨S', hok, _⟩ := permute_ok le hle zero order horder u A S blindA blindS hA hS hsub
    rw [hok]; intro h; cases h
  · have hmiss : ∃ x ∈ A.take u, x ∉ S.take u := by
      by_contra hc
      apply hsub
      intro x hx
      by_contra hx'
      exact hc ⟨x, hx, hx'⟩
    rw [permute_fail le hle zero order u A S blindA blindS hmiss]
    intro h; cases h

end Lookup

/-- Non-vacuity (kernel-evaluated): 4 usable rows, inputs `[3,1,3,1]` with repeated values, table
`[1,2,3,2]` with leftover values, map iterated in reverse order. -/
example : Args.permuteExpressionPair (fun a b => decide (a ≤ b)) 0 List.reverse 4
      [3, 1, 3, 1, 9, 9] [1, 2, 3, 2, 7, 7] [100, 101] [200, 201] =
    .ok [1, 1, 3, 3, 100, 101] [1, 2, 3, 2, 200, 201] := by decide

example : ∃ A' S' : List Nat,
    Args.permuteExpressionPair (fun a b => decide (a ≤ b)) 0 List.reverse 4
      [3, 1, 3, 1, 9, 9] [1, 2, 3, 2, 7, 7] [100, 101] [200, 201] = .ok (A' ++ [100, 101]) (S' ++ [200, 201]) ∧
    A'.Perm ([3, 1, 3, 1, 9, 9].take 4) ∧ A'.Pairwise (fun a b => decide (a ≤ b) = true) ∧
    S'.Perm ([1, 2, 3, 2, 7, 7].take 4) ∧ A'[0]? = S'[0]? ∧
    (∀ i, i < 4 → A'[i]? = S'[i]? ∨ (0 < i ∧ A'[i]? = A'[i - 1]?)) :=
  lookup_permuted_spec _ perm_natLinOrd 0 List.reverse (fun m => List.reverse_perm m) 4 _ _ _ _
    (by decide) (by decide) (by decide)

section LookupProduct
open Args
variable {F : Type} [Field F] [DecidableEq F]

/-- **Lookup argument completeness** (`lookup/prover.rs: commit_permuted` + `commit_product` vs
`lookup.rs: Evaluated::expressions`). For every domain size `n ≥ bf + 2`, compressed input and
table vectors `A`, `S` of length `n`, every linear order on the field and every iteration order of
the leftover `HashMap`: if `permute_expression_pair` returned `Ok((A', S'))` and no denominator
`(β + A'ᵢ)(γ + S'ᵢ)` vanishes on a usable row (the exceptional set of challenges), then with the
product vector `z` of `commit_product` (any blinding values `rnd`) all five lookup identities —
`l_0(1 − z)`, `l_last(z² − z)`, the product rule, `l_0(a' − s')`, `(a' − s')(a' − a'(ω⁻¹X))` on
active rows — vanish on EVERY row of the domain. -/
theorem lookup_product_complete (le : F → F → Bool) (hle : LinOrd le)
    (order : List (F × Nat) → List (F × Nat)) (horder : ∀ m, (order m).Perm m)
    (n bf : Nat) (β γ : F) (A S blindA blindS rnd A' S' : List F)
    (hn : bf + 2 ≤ n) (hA : A.length = n) (hS : S.length = n)
    (hok : permuteExpressionPair le 0 order (n - (bf + 1)) A S blindA blindS = .ok A' S')
    (hden : ∀ i, i < n - (bf + 1) → (β + A'.getD i 0) * (γ + S'.getD i 0) ≠ 0) :
    ∀ i, i < n → ∀ e ∈ lookupExpressionsRow n bf β γ A S A' S'
        (lookupProduct (fun x => x⁻¹) n bf β γ A S A' S' rnd) i, e = 0 := by
  have hsub : ∀ x ∈ A.take (n - (bf + 1)), x ∈ S.take (n - (bf + 1)) := by
    intro x hx
    by_contra hx'
    rw [permute_fail le hle 0 order _ A S blindA blindS ⟨x, hx, hx'⟩] at hok
    cases hok
  obtain ⟨s, hok', hs, hadj⟩ := permute_ok le hle 0 order horder (n - (bf + 1)) A S blindA blindS
    (by omega) (by omega) hsub
  rw [hok'] at hok
  injection hok with hA' hS'
  subst hA' hS'
  have hla : (sortList le (A.take (n - (bf + 1)))).length = n - (bf + 1) := by
    rw [(sortList_perm le _).length_eq, List.length_take]; omega
  have hls : s.length = n - (bf + 1) := by
    rw [hs.length_eq, List.length_take]; omega
  apply lookup_product_rows n bf β γ A S _ s blindA blindS rnd hn hA hS (sortList_perm le _) hs hadj
  intro i hi
  have h := hden i hi
  rw [LookupLemmas.getD_append_left _ _ _ (by omega), LookupLemmas.getD_append_left _ _ _ (by omega)] at h
  exact h

end LookupProduct

/-- Non-vacuity over `ZMod 7`: five rows, one blinding factor, the pair returned by
`permuteExpressionPair` for inputs `[2,1,2]` / table `[1,2,3]`; all hypotheses hold. -/
example : ∀ i, i < 5 → ∀ e ∈ Args.lookupExpressionsRow 5 1 (1 : ZMod 7) 1 [2, 1, 2, 0, 0] [1, 2, 3, 5, 5]
      [1, 2, 2, 4, 6] [1, 2, 3, 6, 4]
      (Args.lookupProduct (fun x => x⁻¹) 5 1 1 1 [2, 1, 2, 0, 0] [1, 2, 3, 5, 5] [1, 2, 2, 4, 6] [1, 2, 3, 6, 4] [3]) i,
      e = 0 :=
  lookup_product_complete Toy.le7 Toy.le7_lin List.reverse (fun m => List.reverse_perm m) 5 1 1 1
    [2, 1, 2, 0, 0] [1, 2, 3, 5, 5] [4, 6] [6, 4] [3] [1, 2, 2, 4, 6] [1, 2, 3, 6, 4] (by decide) rfl rfl
    Toy.permuted_ok Toy.den_ne

/-! ### permutation argument -/

section Permutation
open Args
variable {F : Type} [Field F]

/-- **Permutation argument: the rules that hold by construction.** For every layout (any number of
permutation columns, any `chunk_len ≥ 1`, any `n ≥ blinding_factors + 1`, any blinding values) and
ANY cell values and σ-labels — no copy constraint needs to hold — such that no denominator
`β·σ + γ + v` vanishes on a usable row, the product vectors of `permutation/prover.rs: commit`
satisfy on EVERY row of the domain: the first rule `l_0(1 − z_0)`, every chain rule
`l_0(z_s − z_{s−1}(ω^{−(bf+1)}X))` (the prover's `last_z` carried between the column sets), and
every product rule `(z_s(ωX)∏(v + βσ + γ) − z_s(X)∏(v + βδ^jX + γ))·(1 − (l_last + l_blind))`
(the prover's `deltaomega` advanced by `δ` per column across the sets equals the verifier's
`δ^(chunk_index·chunk_len)`; blinding rows are masked). -/
theorem perm_rule_rows (chunkLen n bf : Nat) (β γ δ ω : F) (rnd : Nat → Nat → F)
    (cols : List (List F × List F)) (hchunk : 1 ≤ chunkLen) (hn : bf + 1 ≤ n)
    (hlen : ∀ c ∈ cols, c.1.length = n ∧ c.2.length = n)
    (hden : ∀ c ∈ cols, ∀ i, i < n - (bf + 1) → β * c.2.getD i 0 + γ + c.1.getD i 0 ≠ 0)
    (i : Nat) (hi : i < n) :
    ∀ e ∈ permRuleFirst chunkLen n bf β γ δ ω cols (permProducts (fun x => x⁻¹) chunkLen n bf β γ δ ω rnd cols) i ++
        permRuleChain chunkLen n bf β γ δ ω cols (permProducts (fun x => x⁻¹) chunkLen n bf β γ δ ω rnd cols) i ++
        permRuleProd chunkLen n bf β γ δ ω cols (permProducts (fun x => x⁻¹) chunkLen n bf β γ δ ω rnd cols) i,
      e = 0 :=
  perm_rule_rows_pf chunkLen n bf β γ δ ω rnd cols hchunk hn hlen hden i hi

/-- The four groups are all of `permExpressionsRow` (the verifier's `permutation.rs: expressions`). -/
theorem perm_rules_split (chunkLen n bf : Nat) (β γ δ ω : F) (cols : List (List F × List F))
    (zs : List (List F)) (i : Nat) :
    permExpressionsRow chunkLen n bf β γ δ ω cols zs i =
      permRuleFirst chunkLen n bf β γ δ ω cols zs i ++ permRuleLast chunkLen n bf β γ δ ω cols zs i ++
        permRuleChain chunkLen n bf β γ δ ω cols zs i ++ permRuleProd chunkLen n bf β γ δ ω cols zs i :=
  permExpressionsRow_split chunkLen n bf β γ δ ω cols zs i

/-- **Value of the last product vector at the last usable row** `u = n − (bf+1)`: the product of
the numerators `v + β·δ^j·ω^i + γ` over ALL usable cells of ALL permutation columns times the
inverse of the product of the denominators `v + β·σ + γ` (the running products of the column sets
are chained through `last_z`). -/
theorem perm_last_value (chunkLen n bf : Nat) (β γ δ ω : F) (rnd : Nat → Nat → F)
    (cols : List (List F × List F)) (hchunk : 1 ≤ chunkLen) (hn : bf + 1 ≤ n)
    (hlen : ∀ c ∈ cols, c.1.length = n ∧ c.2.length = n) (hcols : cols ≠ []) :
    (permProducts (fun x => x⁻¹) chunkLen n bf β γ δ ω rnd cols).getLast?.map (fun z => z.getD (n - (bf + 1)) 0)
      = some (permNum β γ δ ω (n - (bf + 1)) cols * (permDen β γ (n - (bf + 1)) cols)⁻¹) :=
  perm_last_value_pf chunkLen n bf β γ δ ω rnd cols hchunk hn hlen hcols

/-- **The last rule** `l_last·(z_last² − z_last)` vanishes on every row when the product of the
numerators equals the product of the denominators (and no denominator vanishes). -/
theorem perm_last_complete (chunkLen n bf : Nat) (β γ δ ω : F) (rnd : Nat → Nat → F)
    (cols : List (List F × List F)) (hchunk : 1 ≤ chunkLen) (hn : bf + 1 ≤ n)
    (hlen : ∀ c ∈ cols, c.1.length = n ∧ c.2.length = n)
    (hden : ∀ c ∈ cols, ∀ i, i < n - (bf + 1) → β * c.2.getD i 0 + γ + c.1.getD i 0 ≠ 0)
    (hprod : permNum β γ δ ω (n - (bf + 1)) cols = permDen β γ (n - (bf + 1)) cols)
    (i : Nat) (hi : i < n) :
    ∀ e ∈ permRuleLast chunkLen n bf β γ δ ω cols (permProducts (fun x => x⁻¹) chunkLen n bf β γ δ ω rnd cols) i,
      e = 0 :=
  perm_last_complete_pf chunkLen n bf β γ δ ω rnd cols hchunk hn hlen hden hprod i hi

/-- **Permutation argument completeness** (`permutation/prover.rs: commit` vs `permutation.rs:
expressions`). For every layout (any number of permutation columns, any `chunk_len ≥ 1`, any
`n ≥ blinding_factors + 1`, any blinding values `rnd`): if the multiset of (value, σ-label) pairs
over the usable cells equals the multiset of (value, identity-label `δ^j·ω^i`) pairs — i.e. the
σ-labels are a permutation of the identity labels along which the cell values are invariant, see
`sigma_invariant_pairs_perm` — and no denominator `β·σ + γ + v` vanishes on a usable row (the
exceptional set of challenges), then ALL identities of the permutation argument (first, last,
chain between column sets, product rule) vanish on EVERY row of the domain. -/
theorem perm_product_complete (chunkLen n bf : Nat) (β γ δ ω : F) (rnd : Nat → Nat → F)
    (cols : List (List F × List F)) (hchunk : 1 ≤ chunkLen) (hn : bf + 1 ≤ n)
    (hlen : ∀ c ∈ cols, c.1.length = n ∧ c.2.length = n)
    (hden : ∀ c ∈ cols, ∀ i, i < n - (bf + 1) → β * c.2.getD i 0 + γ + c.1.getD i 0 ≠ 0)
    (hperm : (sigmaPairs (n - (bf + 1)) cols).Perm (idPairs δ ω (n - (bf + 1)) cols))
    (i : Nat) (hi : i < n) :
    ∀ e ∈ permExpressionsRow chunkLen n bf β γ δ ω cols
        (permProducts (fun x => x⁻¹) chunkLen n bf β γ δ ω rnd cols) i, e = 0 :=
  perm_product_complete_pf chunkLen n bf β γ δ ω rnd cols hchunk hn hlen hden hperm i hi

/-- **The multiset hypothesis from the copy permutation.** If `π` is a bijection of the usable
cells (column `j`, row `i < u`) such that the σ-label of every cell is the identity label
`δ^j'·ω^i'` of its image `π (j, i) = (j', i')` and the cell carries the same value as its image
(all copy constraints hold), then the (value, σ-label) pairs are a permutation of the
(value, identity-label) pairs. -/
theorem sigma_invariant_pairs_perm (δ ω : F) (u : Nat) (cols : List (List F × List F))
    (π : Equiv.Perm (Fin cols.length × Fin u))
    (hσ : ∀ (j : Fin cols.length) (i : Fin u),
      (cols[j]).2.getD i 0 = powN δ (π (j, i)).1 * powN ω (π (j, i)).2)
    (hv : ∀ (j : Fin cols.length) (i : Fin u),
      (cols[j]).1.getD i 0 = (cols[(π (j, i)).1]).1.getD (π (j, i)).2 0) :
    (sigmaPairs u cols).Perm (idPairs δ ω u cols) :=
  sigma_invariant_pairs_perm_pf δ ω u cols π hσ hv

/-- **Permutation argument completeness, stated with the copy permutation itself**: if `π` is a
bijection of the usable cells such that every σ-label is the identity label of the image cell and
every cell carries the value of its image (the copy constraints hold and σ encodes them), and no
denominator vanishes, then all permutation identities vanish on every row. -/
theorem perm_product_complete_of_bijection (chunkLen n bf : Nat) (β γ δ ω : F) (rnd : Nat → Nat → F)
    (cols : List (List F × List F)) (hchunk : 1 ≤ chunkLen) (hn : bf + 1 ≤ n)
    (hlen : ∀ c ∈ cols, c.1.length = n ∧ c.2.length = n)
    (hden : ∀ c ∈ cols, ∀ i, i < n - (bf + 1) → β * c.2.getD i 0 + γ + c.1.getD i 0 ≠ 0)
    (π : Equiv.Perm (Fin cols.length × Fin (n - (bf + 1))))
    (hσ : ∀ (j : Fin cols.length) (i : Fin (n - (bf + 1))),
      (cols[j]).2.getD i 0 = powN δ (π (j, i)).1 * powN ω (π (j, i)).2)
    (hv : ∀ (j : Fin cols.length) (i : Fin (n - (bf + 1))),
      (cols[j]).1.getD i 0 = (cols[(π (j, i)).1]).1.getD (π (j, i)).2 0)
    (i : Nat) (hi : i < n) :
    ∀ e ∈ permExpressionsRow chunkLen n bf β γ δ ω cols
        (permProducts (fun x => x⁻¹) chunkLen n bf β γ δ ω rnd cols) i, e = 0 :=
  perm_product_complete chunkLen n bf β γ δ ω rnd cols hchunk hn hlen hden
    (sigma_invariant_pairs_perm δ ω _ cols π hσ hv) i hi

end Permutation

/-- Non-vacuity over `ℚ`: four rows, one blinding factor, two columns in two sets whose usable
cells `5, 7` / `7, 5` are swapped crosswise by σ (`δ = 2`, `ω = 3`, `β = γ = 1`). -/
example (rnd : Nat → Nat → ℚ) (i : Nat) (hi : i < 4) :
    ∀ e ∈ Args.permExpressionsRow 1 4 1 (1 : ℚ) 1 2 3 exCols
        (Args.permProducts (fun x => x⁻¹) 1 4 1 (1 : ℚ) 1 2 3 rnd exCols) i, e = 0 :=
  perm_product_complete 1 4 1 (1 : ℚ) 1 2 3 rnd _ (Nat.le_refl 1) (by decide) exCols_len exCols_den exCols_perm i hi

/-- Non-vacuity of the bijection form: the copy permutation `(j, i) ↦ (1 − j, 1 − i)` of the same
instance satisfies the hypotheses of `sigma_invariant_pairs_perm` and of
`perm_product_complete_of_bijection`. -/
example : (sigmaPairs (4 - (1 + 1)) exCols).Perm (idPairs (2 : ℚ) 3 (4 - (1 + 1)) exCols) :=
  sigma_invariant_pairs_perm 2 3 _ exCols exPi exPi_sigma exPi_val

example (rnd : Nat → Nat → ℚ) (i : Nat) (hi : i < 4) :
    ∀ e ∈ Args.permExpressionsRow 1 4 1 (1 : ℚ) 1 2 3 exCols
        (Args.permProducts (fun x => x⁻¹) 1 4 1 (1 : ℚ) 1 2 3 rnd exCols) i, e = 0 :=
  perm_product_complete_of_bijection 1 4 1 (1 : ℚ) 1 2 3 rnd _ (Nat.le_refl 1) (by decide) exCols_len exCols_den
    exPi exPi_sigma exPi_val i hi

/-- Non-vacuity of `perm_last_value`: for `exCols` the last product vector at row `u = 2` is
`permNum · permDen⁻¹`. -/
example (rnd : Nat → Nat → ℚ) :
    (Args.permProducts (fun x => x⁻¹) 1 4 1 (1 : ℚ) 1 2 3 rnd exCols).getLast?.map (fun z => z.getD (4 - (1 + 1)) 0)
      = some (permNum 1 1 2 3 (4 - (1 + 1)) exCols * (permDen 1 1 (4 - (1 + 1)) exCols)⁻¹) :=
  perm_last_value 1 4 1 (1 : ℚ) 1 2 3 rnd exCols (Nat.le_refl 1) (by decide) exCols_len (by decide)

/-! ### assembly: from "every identity vanishes on every row" to the verifier's final check -/

section Assembly
open Polynomial Finset
variable {F : Type} [Field F] {n : ℕ} {ω : F}

/-- **The vanishing polynomial of the domain** (`domain.rs`: `t(X) = X^n − 1`): for a primitive
`n`-th root of unity `ω` of any field, `X^n − 1 = ∏_{i<n} (X − ω^i)`. -/
theorem vanishing_poly_factors (hω : IsPrimitiveRoot ω n) (hn : 0 < n) :
    (X ^ n - 1 : F[X]) = ∏ i ∈ range n, (X - C (ω ^ i)) :=
  Dom.vanishing_eq_prod hω hn

/-- **Divisibility**: a polynomial that vanishes on every row `ω^i` of the domain is a multiple of
`X^n − 1` (what `divide_by_vanishing_poly` relies on), and conversely. -/
theorem vanish_on_domain_iff_dvd (hω : IsPrimitiveRoot ω n) (hn : 0 < n) (p : F[X]) :
    (∀ i, i < n → p.eval (ω ^ i) = 0) ↔ (X ^ n - 1 : F[X]) ∣ p :=
  ⟨Dom.dvd_of_vanish_on_domain hω hn p, fun h i _ => Dom.vanish_of_dvd hω p h i⟩

/-- **The `y`-combination of identities that vanish on the domain is divisible by `X^n − 1`**, for
every `y` (no exceptional `y` in the completeness direction). -/
theorem ycomb_divisible (hω : IsPrimitiveRoot ω n) (hn : 0 < n) (y : F) (ids : List F[X])
    (hv : ∀ p ∈ ids, ∀ i, i < n → p.eval (ω ^ i) = 0) : (X ^ n - 1 : F[X]) ∣ Dom.ycomb y ids :=
  Dom.ycomb_dvd hω hn y ids hv

/-- **The verifier's equation holds at every point**: with `h := ycomb / (X^n − 1)`,
`h(x)·(x^n − 1) = fold(0, |h, v| h·y + v)` over the identities evaluated at `x` — for EVERY `x`
and `y`. -/
theorem quotient_identity_everywhere (hω : IsPrimitiveRoot ω n) (hn : 0 < n) (y : F) (ids : List F[X])
    (hv : ∀ p ∈ ids, ∀ i, i < n → p.eval (ω ^ i) = 0) (x : F) :
    (Dom.ycomb y ids /ₘ (X ^ n - 1)).eval x * (x ^ n - 1) =
      (ids.map (eval x)).foldl (fun h v => h * y + v) 0 :=
  Asm.quotient_eval hω hn y ids hv x

/-- **`l_i_range` is the barycentric formula** `l_i(x) = ω^i (x^n − 1) / (n (x − ω^i))`, `i =
rotation mod n` (`rotate_omega` through `omega`/`omega_inv`), for every list of rotations. -/
theorem lagrange_range_spec (hω : IsPrimitiveRoot ω n) (hn : 0 < n) (x : F) (rots : List ℤ) :
    Van.lIRange (fun a => a⁻¹) ω ω⁻¹ (n : F)⁻¹ x (x ^ n) rots =
      rots.map (fun r => Dom.lagrangeAt ω n x (Asm.rowOf n r)) :=
  Asm.lIRange_spec hω hn x rots

/-- **Barycentric evaluation off the domain**: every polynomial of degree `< n` satisfies
`p(x) = Σ_i p(ω^i)·l_i(x)` with `l_i(x)` as `l_i_range` computes it, for every `x` with `x^n ≠ 1`. -/
theorem lagrange_interpolation (hω : IsPrimitiveRoot ω n) (hn : 0 < n) (p : F[X]) (hp : p.degree < n)
    {x : F} (hx : x ^ n ≠ 1) :
    p.eval x = ∑ i ∈ range n, p.eval (ω ^ i) * Dom.lagrangeAt ω n x i :=
  Dom.eval_eq_sum_lagrange hω hn p hp hx

/-- **`l_0`, `l_last`, `l_blind` of `evaluate_identities`** are the evaluations at `x` of the
polynomials of degree `< n` that equal the row indicators `[i = 0]`, `[i = u]`, `[u < i]`
(`u = n − (blinding_factors + 1)`) on the domain — the convention of the row-level theorems. -/
theorem l_evals_spec (hω : IsPrimitiveRoot ω n) (bf : ℕ) (hbf : bf + 1 ≤ n) {x : F} (hx : x ^ n ≠ 1) :
    Van.lEvals (fun a => a⁻¹) ω ω⁻¹ (n : F)⁻¹ x (x ^ n) bf =
      ((Asm.indPoly ω n (fun i => i = 0)).eval x,
       (Asm.indPoly ω n (fun i => i = n - (bf + 1))).eval x,
       (Asm.indPoly ω n (fun i => n - (bf + 1) < i)).eval x) :=
  Asm.lEvals_spec hω bf hbf hx

/-- **The evaluation of a plain instance column the verifier computes itself**
(`compute_inner_product(instances, &l_i_s[offset..])` with `offset = max_rotation − rotation`) is
the evaluation at `ω^rot·x` of the column's interpolating polynomial (zero beyond its length), for
every window `−min ≤ rot ≤ max`, every column length `≤ max_instance_len, n`. -/
theorem instance_eval_spec (hω : IsPrimitiveRoot ω n) (hn : 0 < n) {x : F} (hx : x ^ n ≠ 1)
    (maxRot minRotAbs maxLen : ℕ) (inst : List F) (hlen : inst.length ≤ maxLen) (hln : inst.length ≤ n)
    (rot : ℤ) (h1 : -(minRotAbs : ℤ) ≤ rot) (h2 : rot ≤ maxRot) :
    Van.instanceEval (fun a => a⁻¹) ω ω⁻¹ (n : F)⁻¹ x (x ^ n) maxRot minRotAbs maxLen inst rot =
      eval (ω ^ rot * x) (Asm.colPoly ω n inst) :=
  Asm.instanceEval_spec hω hn hx maxRot minRotAbs maxLen inst hlen hln rot h1 h2

/-- **Row-level completeness lifts to polynomials (lookup)**: under the hypotheses of
`lookup_product_complete` the five lookup identity POLYNOMIALS (built from the Lagrange-form
vectors, `l_0`/`l_last`/`l_blind` and the rotations `ω`, `ω⁻¹`) vanish on the whole domain. -/
theorem lookup_identities_vanish_on_domain [DecidableEq F] (hω : IsPrimitiveRoot ω n)
    (le : F → F → Bool) (hle : LinOrd le)
    (order : List (F × Nat) → List (F × Nat)) (horder : ∀ m, (order m).Perm m)
    (bf : Nat) (β γ : F) (A S blindA blindS rnd A' S' : List F)
    (hn : bf + 2 ≤ n) (hA : A.length = n) (hS : S.length = n)
    (hok : Args.permuteExpressionPair le 0 order (n - (bf + 1)) A S blindA blindS = .ok A' S')
    (hden : ∀ i, i < n - (bf + 1) → (β + A'.getD i 0) * (γ + S'.getD i 0) ≠ 0) :
    ∀ p ∈ Asm.lookupIdPolys ω n bf β γ A S A' S'
        (Args.lookupProduct (fun x => x⁻¹) n bf β γ A S A' S' rnd), ∀ i, i < n → p.eval (ω ^ i) = 0 :=
  Asm.lookupIdPolys_vanish hω (by omega) bf β γ A S A' S' _
    (lookup_product_complete le hle order horder n bf β γ A S blindA blindS rnd A' S' hn hA hS hok hden)

/-- **Row-level completeness lifts to polynomials (trash)**: under the hypotheses of
`trash_complete` the trash identity polynomial vanishes on the whole domain. -/
theorem trash_identity_vanishes_on_domain (hω : IsPrimitiveRoot ω n) (c : F) (q : List F)
    (exprs : List (List F)) (hl : ∀ e ∈ exprs, e.length = n)
    (hsat : ∀ i, i < n → ∀ e ∈ exprs, q.getD i 0 * e.getD i 0 = 0) :
    ∀ i, i < n → (Asm.trashIdPoly ω n c q exprs (Args.trashValues n c exprs)).eval (ω ^ i) = 0 :=
  Asm.trashIdPoly_vanish hω c q exprs _ (trash_complete n c q exprs hl hsat)

/-- **Custom gates on the blinding rows.** A gate polynomial `selector · G` vanishes on the whole
domain as soon as (a) the selector column is zero on the unusable rows `i ≥ u` — fixed columns
cannot be assigned there (`keygen.rs: Assembly::assign_fixed` returns `NotEnoughRowsAvailable`) —
and (b) `G` vanishes on the usable rows where the selector is on (the witness satisfies the gate).
NOTHING is assumed about `G` on the blinding rows, where `prover.rs` overwrites the advice columns
with random values. -/
theorem selector_gate_blinding_rows (hω : IsPrimitiveRoot ω n) (u : ℕ) (q : List F) (G : F[X])
    (hq : ∀ i, u ≤ i → i < n → q.getD i 0 = 0)
    (hsat : ∀ i, i < u → q.getD i 0 ≠ 0 → G.eval (ω ^ i) = 0) :
    ∀ i, i < n → (Asm.colPoly ω n q * G).eval (ω ^ i) = 0 :=
  Asm.selector_gate_blinding hω u q G hq hsat

/-- **Gates without such a factor are NOT protected**: the gate `a = 0` (one advice query, no
selector, e.g. `Constraints::without_selector(vec![a])`) fails on every row where the blinded column
is non-zero, so `X^n − 1` does not divide the numerator: no quotient exists. This is a requirement on
circuits that the repository's mock checker enforces (`dev: VerifyFailure::ConstraintPoisoned`, "active
on an unusable row - missing selector?"); on the real prover such a circuit yields a proof the
verifier rejects, while a gate with a plain fixed-column factor is accepted (harness counters
`noselector-gate:*`; oracle: mock accepts ⇒ verifier accepts). -/
theorem unselected_gate_not_divisible (hω : IsPrimitiveRoot ω n) (a : List F) (i : ℕ)
    (hi : i < n) (hb : a.getD i 0 ≠ 0) : ¬ (X ^ n - 1 : F[X]) ∣ Asm.colPoly ω n a := fun h =>
  Asm.unselected_gate_fails hω a i hi hb (Dom.vanish_of_dvd hω _ h i)

/-- **Row-level completeness lifts to polynomials (permutation).** Under the hypotheses of
`perm_product_complete` — every layout, `chunk_len ≥ 1`, the (value, σ-label) pairs a permutation of
the (value, identity-label) pairs, no vanishing denominator — the permutation identity POLYNOMIALS
(`C02.Dom.permIdPolys`: `permutation.rs: expressions` over the column polynomials of degree `< n` of
the values, the σ labels and the running products the honest prover commits to, their rotations
`z(ωX)`, `z(ω^{−(bf+1)}X)`, the label polynomial `δ^c·X`, and `l_0` / `l_last` / `l_blind` as
Lagrange-basis polynomials) vanish on the WHOLE domain: the hypothesis `hvanish` of
`honest_verifies_algebraic` for the permutation class is now a theorem (the lift itself is
`C02.perm_identity_vanishes_on_domain_iff_rows`). -/
theorem perm_identities_vanish_on_domain (hω : IsPrimitiveRoot ω n) (chunkLen bf : ℕ) (β γ δ : F)
    (rnd : ℕ → ℕ → F) (cols : List (List F × List F)) (hchunk : 1 ≤ chunkLen) (hn : bf + 1 ≤ n)
    (hlen : ∀ c ∈ cols, c.1.length = n ∧ c.2.length = n)
    (hden : ∀ c ∈ cols, ∀ i, i < n - (bf + 1) → β * c.2.getD i 0 + γ + c.1.getD i 0 ≠ 0)
    (hperm : (sigmaPairs (n - (bf + 1)) cols).Perm (idPairs δ ω (n - (bf + 1)) cols)) :
    ∀ p ∈ C02.Dom.permIdPolys ω chunkLen n bf β γ δ cols
        (Args.permProducts (fun x => x⁻¹) chunkLen n bf β γ δ ω rnd cols),
      ∀ i, i < n → p.eval (ω ^ i) = 0 :=
  (C02.Dom.perm_vanishes_iff_rows hω chunkLen bf hn β γ δ cols _).mpr fun i hi =>
    perm_product_complete chunkLen n bf β γ δ ω rnd cols hchunk hn hlen hden hperm i hi

/-- **Honest proofs pass the verifier's algebraic check** (`verify_algebraic_constraints`, with the
commitments read as the polynomials they commit to; KZG opening completeness is C14). For every
field with a primitive `n`-th root of unity (`n = 2^k ≥ 2`), every number `q ≥ 1` of quotient
pieces (`get_quotient_poly_degree()`), every list `ids` of identity polynomials — one per entry of
`verifierIds`, each vanishing on every row of the domain (custom gates: `selector_gate_blinding_rows`;
permutation: `perm_product_complete`; lookups: `lookup_identities_vanish_on_domain`; trash:
`trash_identity_vanishes_on_domain`) and of degree `< n + (n−1)·q` (= `degree·(n−1) + 1`) —, every
`y`, every blinding vector `ts` of `blind_quotient_limbs` and EVERY `x` outside the domain:

* the quotient `h = (Σ y-combination)/(X^n − 1)` exists as a polynomial, its `(n−1)·q` first
  coefficients are all of it (`truncate` loses nothing);
* with the pieces `chunks_exact(n−1)` + `blind_quotient_limbs` the prover commits to, the value the
  chopped commitment opens to at `x` (`as_terms`: `Σ x^((n−1)i)·h_i(x)`) EQUALS `expected_h_eval =
  fold(0, |h, v| h·y + v)·(x^n − 1)⁻¹` computed by `vanishing/verifier.rs: verify` from the
  identity values at `x`: the check `hCheck` accepts;
* the prover's own `Constructed::evaluate` yields the same value `h(x)`. -/
theorem honest_verifies_algebraic [DecidableEq F] (hω : IsPrimitiveRoot ω n) (hn : 2 ≤ n)
    (q : ℕ) (hq : 1 ≤ q) (ids : List F[X])
    (hvanish : ∀ p ∈ ids, ∀ i, i < n → p.eval (ω ^ i) = 0)
    (hdeg : ∀ p ∈ ids, p.natDegree < n + (n - 1) * q)
    (y x : F) (hx : x ^ n ≠ 1) (ts : List F) :
    let h := Dom.ycomb y ids /ₘ (X ^ n - 1)
    let pieces := blind ts (chunksExact (n - 1) ((n - 1) * q) (Asm.coeffList h ((n - 1) * q)))
    h * (X ^ n - 1) = Dom.ycomb y ids ∧
    Van.hCheck (fun a => a⁻¹) (ids.map (eval x)) y x n (pieces.map (fun L => evalPoly L x)) = true ∧
    Van.choppedEval x n (pieces.map (fun L => evalPoly L x)) = h.eval x := by
  intro h pieces
  have hn0 : 0 < n := by omega
  have hm : 1 ≤ n - 1 := by omega
  have hmq : 0 < (n - 1) * q := Nat.mul_pos (by omega) (by omega)
  have hdegN : (Dom.ycomb y ids).natDegree < n + (n - 1) * q :=
    Asm.natDegree_ycomb_lt y _ (by omega) ids hdeg
  have hdegh : h.natDegree < (n - 1) * q := Asm.natDegree_quotient_lt hn0 _ _ hmq hdegN
  have hpieces : Van.choppedEval x n (pieces.map (fun L => evalPoly L x)) = h.eval x := by
    rw [Asm.choppedEval_eq_recombine]
    show recombine x (n - 1) (blind ts _) = _
    rw [quotient_blind_recombine x (n - 1) hm _ ts (Asm.chunksExact_length_mem (n - 1) _ _),
      chunks_recombine x (n - 1) hm q ((n - 1) * q) _ (Asm.coeffList_length h _)
        (Nat.le_mul_of_pos_left q (by omega)),
      Asm.evalPoly_coeffList h _ hdegh x]
  refine ⟨Asm.quotient_mul hω hn0 y ids hvanish, ?_, hpieces⟩
  unfold Van.hCheck
  rw [decide_eq_true_eq, hpieces, Asm.expectedHEval_eq hω hn0 y ids hvanish x hx]

end Assembly

/-- Non-vacuity over `ℚ` with `n = 2`, `ω = −1`: the hypotheses of `honest_verifies_algebraic` are
satisfiable — the identity `X² − 1` vanishes on the domain `{1, −1}`, has degree `2 < 2 + 1·1`, and
`x = 2` is off the domain; the theorem then applies (`q = 1`, `y = 3`, `ts = [5]`). -/
example : ∃ ids : List (Polynomial ℚ), ids ≠ [] ∧ IsPrimitiveRoot (-1 : ℚ) 2 ∧
    (∀ p ∈ ids, ∀ i, i < 2 → p.eval ((-1 : ℚ) ^ i) = 0) ∧
    (∀ p ∈ ids, p.natDegree < 2 + (2 - 1) * 1) ∧ (2 : ℚ) ^ 2 ≠ 1 := by
  refine ⟨[Polynomial.X ^ 2 - 1], by simp, IsPrimitiveRoot.neg_one 0 (by decide), ?_, ?_, by norm_num⟩
  · intro p hp i hi
    simp only [List.mem_singleton] at hp
    subst hp
    interval_cases i <;> simp
  · intro p hp
    simp only [List.mem_singleton] at hp
    subst hp
    have : ((Polynomial.X : Polynomial ℚ) ^ 2 - 1).natDegree = 2 := Polynomial.natDegree_X_pow_sub_C
    omega

example (h1 : IsPrimitiveRoot (-1 : ℚ) 2)
    (h2 : ∀ p ∈ [(Polynomial.X : Polynomial ℚ) ^ 2 - 1], ∀ i, i < 2 → p.eval ((-1 : ℚ) ^ i) = 0)
    (h3 : ∀ p ∈ [(Polynomial.X : Polynomial ℚ) ^ 2 - 1], p.natDegree < 2 + (2 - 1) * 1) (h4 : (2 : ℚ) ^ 2 ≠ 1) :
    (Dom.ycomb (3 : ℚ) [Polynomial.X ^ 2 - 1] /ₘ (Polynomial.X ^ 2 - 1)) * (Polynomial.X ^ 2 - 1) =
      Dom.ycomb (3 : ℚ) [Polynomial.X ^ 2 - 1] :=
  (honest_verifies_algebraic h1 (by decide) 1 (by decide) _ h2 h3 3 2 h4 [5]).1

/-- Non-vacuity of the Lagrange / instance / gate statements over `ℚ`, `n = 2`, `ω = −1`, `x = 2`. -/
example : Van.lEvals (fun a => a⁻¹) (-1 : ℚ) (-1 : ℚ)⁻¹ ((2 : ℕ) : ℚ)⁻¹ 2 (2 ^ 2) 0 =
    ((Asm.indPoly (-1 : ℚ) 2 (fun i => i = 0)).eval 2,
     (Asm.indPoly (-1 : ℚ) 2 (fun i => i = 2 - (0 + 1))).eval 2,
     (Asm.indPoly (-1 : ℚ) 2 (fun i => 2 - (0 + 1) < i)).eval 2) :=
  l_evals_spec (IsPrimitiveRoot.neg_one 0 (by decide)) 0 (by decide) (by norm_num)

example : Van.instanceEval (fun a => a⁻¹) (-1 : ℚ) (-1 : ℚ)⁻¹ ((2 : ℕ) : ℚ)⁻¹ 2 (2 ^ 2) 1 1 1 [5] (-1) =
    Polynomial.eval ((-1 : ℚ) ^ (-1 : ℤ) * 2) (Asm.colPoly (-1 : ℚ) 2 [5]) :=
  instance_eval_spec (IsPrimitiveRoot.neg_one 0 (by decide)) (by decide) (by norm_num) 1 1 1 [5]
    (by decide) (by decide) (-1) (by decide) (by decide)

example : ∀ i, i < 2 → (Asm.colPoly (-1 : ℚ) 2 [1, 0] * (Polynomial.X - 1)).eval ((-1 : ℚ) ^ i) = 0 :=
  selector_gate_blinding_rows (IsPrimitiveRoot.neg_one 0 (by decide)) 1 [1, 0] (Polynomial.X - 1)
    (by intro i h1 h2; interval_cases i; rfl)
    (by intro i h1 _; interval_cases i; simp)

example : ¬ (Polynomial.X ^ 2 - 1 : Polynomial ℚ) ∣ Asm.colPoly (-1 : ℚ) 2 [0, 7] :=
  unselected_gate_not_divisible (IsPrimitiveRoot.neg_one 0 (by decide)) [0, 7] 1 (by decide) (by norm_num)

example : ∀ i, i < 2 → (Asm.trashIdPoly (-1 : ℚ) 2 5 [1, 0] [[0, 3]] (Args.trashValues 2 5 [[0, 3]])).eval ((-1 : ℚ) ^ i) = 0 :=
  trash_identity_vanishes_on_domain (IsPrimitiveRoot.neg_one 0 (by decide)) 5 [1, 0] [[0, 3]]
    (by intro e he; simp only [List.mem_singleton] at he; subst he; rfl)
    (by
      intro i hi e he
      simp only [List.mem_singleton] at he
      subst he
      interval_cases i <;> simp)

/-! ### closing the assembly: from ROWS (not polynomials) to the verifier's check -/

section Closed
open Polynomial Finset
variable {F : Type} [Field F] {n : ℕ} {ω : F}

/-- **Gate class over ANY field: the gate polynomials vanish on the whole domain iff every gate
expression is zero on every row** (`Lift.gatePoly`: the expression over the rotated column
polynomials, i.e. the polynomial whose value at `x` `evaluate_identities` computes from the
evaluations; `Expr.eval (Lift.rowEnv n t i)`: the value `GraphEvaluator::evaluate` produces on row
`i` by `compile_correct`, queries reading the cell `(i + rot) mod n`). `C02` has this over `ZMod p`
on a dumped table; here no concrete field is needed, which removes the first open hypothesis of the
assembly. -/
theorem gate_polys_vanish_iff_rows (hω : IsPrimitiveRoot ω n) (hn : 0 < n) (t : Lift.Tbl F)
    (gates : List (Graph.Expr F)) :
    (∀ p ∈ gates.map (Lift.gatePoly ω n t), ∀ i, i < n → p.eval (ω ^ i) = 0) ↔
      ∀ g ∈ gates, ∀ i, i < n → g.eval (Lift.rowEnv n t i) = 0 :=
  Lift.gatePolys_vanish_iff_rows hω hn t gates

/-- **Selector-gated gates meet the hypothesis "zero on every row"** of `honest_verifies_rows`: a gate
`q · G` whose selector `q` is a fixed column queried at the current row (what `replace_selectors`
produces for `Constraints::with_selector`) is zero on EVERY row as soon as the witness satisfies it
on the usable rows `i < u` and the selector column is zero on the unusable rows — which key generation
guarantees (`Assembly::assign_fixed` refuses those rows) and the harness counts on every real table —
with NO assumption on the advice values of the blinding rows. -/
theorem selector_gates_zero_on_every_row (t : Lift.Tbl F) (c : ℕ) (G : Graph.Expr F) (u : ℕ)
    (hq : ∀ i, u ≤ i → i < n → (t.fixed.getD c []).getD i 0 = 0)
    (hsat : ∀ i, i < u → i < n → (Graph.Expr.prod (.fixed c 0) G).eval (Lift.rowEnv n t i) = 0) :
    ∀ i, i < n → (Graph.Expr.prod (.fixed c 0) G).eval (Lift.rowEnv n t i) = 0 :=
  Lift.selector_gate_all_rows t c G u hq hsat

/-- Non-vacuity: selector `[1, 0]`, advice `[0, 7]`, one usable row (`u = 1`, `n = 2`). -/
example : ∀ i, i < 2 → (Graph.Expr.prod (.fixed 0 0) (.advice 0 0) : Graph.Expr ℚ).eval
    (Lift.rowEnv 2 ⟨[[1, 0]], [[0, 7]], [], []⟩ i) = 0 :=
  selector_gates_zero_on_every_row ⟨[[1, 0]], [[0, 7]], [], []⟩ 0 (.advice 0 0) 1
    (by intro i h1 h2; interval_cases i; rfl)
    (by intro i h1 _; interval_cases i; simp [Graph.Expr.eval, Lift.rowEnv, Rows.rowEnv, Rows.rowAt])

/-- **What the prover's graph evaluator computes on row `i` is the gate polynomial at `ω^i`**
(`compile_correct` chained with the lift): for every gate expression, every well-formed graph it is
compiled into (the graph holding the gates compiled before), every operand order — running
`GraphEvaluator::evaluate` in the environment of row `i` of the table and reading the returned value
source gives `(gatePoly e)(ω^i)`, the value on that row of the polynomial whose evaluation at `x` the
verifier recomputes in `evaluate_identities`. -/
theorem compiled_graph_value_is_gate_poly_node [DecidableEq F] (hω : IsPrimitiveRoot ω n) (hn : 0 < n)
    (t : Lift.Tbl F) (i : ℕ) (le : Graph.VS → Graph.VS → Bool) (e : Graph.Expr F) (g : Graph.G F)
    (hg : Graph.WF g) :
    Graph.VS.get (Graph.addExpr le e g).1 (Lift.rowEnv n t i)
        ((Graph.addExpr le e g).1.run (Lift.rowEnv n t i)) (Graph.addExpr le e g).2
      = (Lift.gatePoly ω n t e).eval (ω ^ i) := by
  rw [compile_correct le (Lift.rowEnv n t i) e g hg, Lift.gatePoly_node hω hn t i e]

/-- Non-vacuity of the hypothesis `hg`: the fresh graph `GraphEvaluator::default()` is well-formed
(`WF_init`), over every field; the theorem applies to the gate `q·a` compiled into it. -/
example [DecidableEq F] (hω : IsPrimitiveRoot ω n) (hn : 0 < n) (t : Lift.Tbl F) (i : ℕ) :
    let e : Graph.Expr F := .prod (.fixed 0 0) (.advice 0 0)
    let r := Graph.addExpr Graph.vsLe e (Graph.G.init : Graph.G F)
    Graph.VS.get r.1 (Lift.rowEnv n t i) (r.1.run (Lift.rowEnv n t i)) r.2 = (Lift.gatePoly ω n t e).eval (ω ^ i) :=
  compiled_graph_value_is_gate_poly_node hω hn t i Graph.vsLe _ (Graph.G.init : Graph.G F) Graph.WF_init

/-- **What the driver checks on the real tables is the hypothesis of the theorem**: `Rows.gateViolations`
(the `gaterows` lines: the model's answer on the real table of every proof must be `none`, and on
tables with one altered cell the same (gate, row) pairs as an independent Rust evaluation) reports
nothing iff every gate expression is zero on every row — the `hgsat` of `honest_verifies_rows`. -/
theorem gate_violations_empty_iff_rows {R : Type} [Lean.Grind.CommRing R] [DecidableEq R] (n : ℕ)
    (t : Rows.Tbl R) (gates : List (Graph.Expr R)) :
    Rows.gateViolations n t gates = [] ↔ ∀ g ∈ gates, ∀ i, i < n → g.eval (Rows.rowEnv n t i) = 0 :=
  Lift.gateViolations_nil_iff n t gates

/-- **`natDegree` bounds of the identity POLYNOMIALS of every class**, in units of `n − 1` (a column
polynomial has degree `≤ n − 1`): a gate polynomial at most `Expression::degree()`; the permutation
identities at most `chunk_len + 2` (= `degree()`, `chunk_len = degree() − 2`) for every layout; the
five identities of a lookup at most `max(4, 2 + deg a + deg s)` (`lookup.rs: required_degree`) where
`a`, `s` are the compressed input / table expression polynomials; the trash identity at most
`max(deg constraints, deg q + 1)` (`trash.rs: required_degree`). With
`numerator_fits_quotient_pieces` (the same numbers are `≤ degree()`) this discharges `hdeg` of
`honest_verifies_algebraic` for every class. -/
theorem identity_polys_degree_bounds (hω : IsPrimitiveRoot ω n) (hn : 2 ≤ n) :
    (∀ (t : Lift.Tbl F) (e : Graph.Expr F), (Lift.gatePoly ω n t e).natDegree ≤ Lift.exprDeg e * (n - 1)) ∧
    (∀ (L bf : ℕ) (β γ δ : F) (cols : List (List F × List F)) (zs : List (List F)), 1 ≤ L →
      ∀ p ∈ C02.Dom.permIdPolys ω L n bf β γ δ cols zs, p.natDegree ≤ (L + 2) * (n - 1)) ∧
    (∀ (bf da ds : ℕ) (β γ : F) (a s : F[X]) (A' S' z : List F),
      a.natDegree ≤ da * (n - 1) → s.natDegree ≤ ds * (n - 1) →
      ∀ p ∈ Lift.lookupIdPolysE ω n bf β γ a s A' S' z, p.natDegree ≤ max 4 (2 + da + ds) * (n - 1)) ∧
    (∀ (c : F) (q : F[X]) (exprs : List F[X]) (trash : List F) (dq de : ℕ),
      q.natDegree ≤ dq * (n - 1) → (∀ e ∈ exprs, e.natDegree ≤ de * (n - 1)) →
      (Lift.trashIdPolyE ω n c q exprs trash).natDegree ≤ max de (dq + 1) * (n - 1)) :=
  ⟨fun t e => Lift.natDegree_gatePoly_le hω t e,
   fun L bf β γ δ cols zs hL => Lift.natDegree_permIdPolys_le hω hn L bf hL β γ δ cols zs,
   fun bf da ds β γ a s A' S' z ha hs => Lift.natDegree_lookupIdPolysE_le hω bf da ds β γ a s ha hs A' S' z,
   fun c q exprs trash dq de hq he => Lift.natDegree_trashIdPolyE_le hω c q exprs trash dq de hq he⟩

/-- The compressed expression polynomial of a lookup / trash argument (`compress_expressions` over the
gate-expression polynomials) has on row `i` the value the prover computes row-wise, and its degree is
the maximum of the expression degrees — the `a`, `s`, `exprs` of `honest_verifies_rows` are of this
form. -/
theorem compressed_expression_poly_spec (hω : IsPrimitiveRoot ω n) (θ : F) (t : Lift.Tbl F)
    (es : List (Graph.Expr F)) (d : ℕ) (hd : ∀ e ∈ es, Lift.exprDeg e ≤ d) :
    (∀ i, i < n → (Lift.compressPoly θ (es.map (Lift.gatePoly ω n t))).eval (ω ^ i) =
      Args.compressRow θ ((es.map (Lift.gatePoly ω n t)).map (Lift.nodeVals ω n)) i) ∧
    (Lift.compressPoly θ (es.map (Lift.gatePoly ω n t))).natDegree ≤ d * (n - 1) := by
  refine ⟨fun i hi => Lift.compressPoly_node θ _ i hi, Lift.natDegree_compressPoly_le θ _ d (n - 1) ?_⟩
  intro p hp
  obtain ⟨e, he, rfl⟩ := List.mem_map.1 hp
  exact le_trans (Lift.natDegree_gatePoly_le hω t e) (Nat.mul_le_mul_right _ (hd e he))

/-- **The degree hypotheses of `honest_verifies_rows` hold with `D = ConstraintSystem::degree()`**
(`C02.Ids.csDegree`, the mirror compared with `cs.degree()` of the running code on every family
member), for every constraint system in the dumped format and over every field: `D ≥ 3`; every gate
polynomial has `exprDeg ≤ D`; for every lookup, with `da`, `ds` the folds `max(1, deg input_i)`,
`max(1, deg table_i)` of `lookup.rs: required_degree`, every input / table expression has degree
`≤ da` / `≤ ds` and `max 4 (2 + da + ds) ≤ D`; for every trash argument whose selector is a column
(`deg q ≤ 1`), with `de` the maximal constraint degree, `max de (1 + 1) ≤ D`. -/
theorem degree_hypotheses_from_constraint_system (cs : C02.Ids.VCS) :
    3 ≤ C02.Ids.csDegree cs ∧
    (∀ g ∈ cs.gates.flatten, Lift.exprDeg (Lift.ofC02F (F := F) g) ≤ C02.Ids.csDegree cs) ∧
    (∀ l ∈ cs.lookups,
      let da := l.1.foldl (fun d e => max d (C02.Ids.exprDegree e)) 1
      let ds := l.2.foldl (fun d e => max d (C02.Ids.exprDegree e)) 1
      max 4 (2 + da + ds) ≤ C02.Ids.csDegree cs ∧
      (∀ e ∈ l.1, Lift.exprDeg (Lift.ofC02F (F := F) e) ≤ da) ∧
      (∀ e ∈ l.2, Lift.exprDeg (Lift.ofC02F (F := F) e) ≤ ds)) ∧
    (∀ t ∈ cs.trash, C02.Ids.exprDegree t.1 ≤ 1 →
      let de := t.2.foldl (fun d e => max d (C02.Ids.exprDegree e)) 0
      max de (1 + 1) ≤ C02.Ids.csDegree cs ∧ Lift.exprDeg (Lift.ofC02F (F := F) t.1) ≤ 1 ∧
      (∀ e ∈ t.2, Lift.exprDeg (Lift.ofC02F (F := F) e) ≤ de)) := by
  refine ⟨C02.Ids.csDegree_ge_3 cs, ?_, ?_, ?_⟩
  · intro g hg
    rw [Lift.exprDeg_ofC02F]
    exact C02.Ids.csDegree_ge_gate cs g hg
  · intro l hl
    refine ⟨C02.Ids.csDegree_ge_lookup cs l hl, ?_, ?_⟩
    · intro e he
      rw [Lift.exprDeg_ofC02F]
      exact Lift.mem_le_foldl_maxf C02.Ids.exprDegree l.1 1 e he
    · intro e he
      rw [Lift.exprDeg_ofC02F]
      exact Lift.mem_le_foldl_maxf C02.Ids.exprDegree l.2 1 e he
  · intro t ht hq
    refine ⟨?_, by rw [Lift.exprDeg_ofC02F]; exact hq, ?_⟩
    · have h := C02.Ids.csDegree_ge_trash cs t ht
      unfold C02.Ids.trashRequiredDegree at h
      omega
    · intro e he
      rw [Lift.exprDeg_ofC02F]
      exact Lift.mem_le_foldl_maxf C02.Ids.exprDegree t.2 0 e he

/-- **Honest proofs pass the verifier's algebraic check — closed form, no polynomial-level
hypothesis.** For every field with a primitive `n`-th root of unity, every `degree() = D ≥ 3`, every
number of blinding factors with `bf + 2 ≤ n`, and a whole constraint system given by

* gate expressions of degree `≤ D` that evaluate to zero on EVERY row of the assignment table `t`
  (blinding rows included: a selector factor gives this, `selector_gate_blinding_rows`),
* permutation columns whose (value, σ-label) pairs are a permutation of the (value, identity-label)
  pairs on the usable rows (the copy constraints hold; `sigma_invariant_pairs_perm`), with the
  running products `permProducts` the model prover computes (`chunk_len = D − 2`, any blinding),
* any number of lookups, each with compressed input / table expression polynomials `a`, `s` of
  degrees `da`, `ds` (`max 4 (2 + da + ds) ≤ D`) for whose value vectors `permute_expression_pair`
  returned `Ok((A', S'))`, with the product vector `lookupProduct` the model prover computes,
* any number of trash arguments (selector polynomial `q`, constraint polynomials `exprs`,
  `max de (dq + 1) ≤ D`) with `q·e = 0` on every row, with the column `trashValues`,

the list of identity polynomials in the order of `verifierIds` (gates, permutation, lookups, trash)
is divisible by `X^n − 1` after the `y`-combination, the `D − 1` blinded quotient pieces recombine to
`h(x)`, and `vanishing/verifier.rs: verify`'s check `hCheck` ACCEPTS — for every `y`, every `x` off
the domain, every blinding `ts`. What remains outside: the exceptional challenges (`hdenP`, the
`≠ 0` in `hlk`: vanishing denominators; no probability bound), commitments / openings abstract
(C14), and that `t`, `cols`, the lookup / trash polynomials are what the real prover holds (tied by
the correspondence: argument vectors, identity log, compiled graphs). -/
theorem honest_verifies_rows [DecidableEq F] (hω : IsPrimitiveRoot ω n) (D bf : ℕ) (hD : 3 ≤ D)
    (hn : bf + 2 ≤ n)
    (t : Lift.Tbl F) (gates : List (Graph.Expr F))
    (hgdeg : ∀ g ∈ gates, Lift.exprDeg g ≤ D)
    (hgsat : ∀ g ∈ gates, ∀ i, i < n → g.eval (Lift.rowEnv n t i) = 0)
    (β γ δ : F) (rndP : ℕ → ℕ → F) (cols : List (List F × List F))
    (hlen : ∀ c ∈ cols, c.1.length = n ∧ c.2.length = n)
    (hdenP : ∀ c ∈ cols, ∀ i, i < n - (bf + 1) → β * c.2.getD i 0 + γ + c.1.getD i 0 ≠ 0)
    (hperm : (sigmaPairs (n - (bf + 1)) cols).Perm (idPairs δ ω (n - (bf + 1)) cols))
    (le : F → F → Bool) (hle : LinOrd le)
    (order : List (F × Nat) → List (F × Nat)) (horder : ∀ m, (order m).Perm m)
    (lookups : List (Lift.LookupArg F))
    (hlk : ∀ L ∈ lookups, max 4 (2 + L.da + L.ds) ≤ D ∧ L.a.natDegree ≤ L.da * (n - 1) ∧
      L.s.natDegree ≤ L.ds * (n - 1) ∧
      Args.permuteExpressionPair le 0 order (n - (bf + 1)) (Lift.nodeVals ω n L.a) (Lift.nodeVals ω n L.s)
        L.blindA L.blindS = .ok L.A' L.S' ∧
      ∀ i, i < n - (bf + 1) → (β + L.A'.getD i 0) * (γ + L.S'.getD i 0) ≠ 0)
    (c : F) (trashes : List (Lift.TrashArg F))
    (htr : ∀ T ∈ trashes, max T.de (T.dq + 1) ≤ D ∧ T.q.natDegree ≤ T.dq * (n - 1) ∧
      (∀ e ∈ T.exprs, e.natDegree ≤ T.de * (n - 1)) ∧
      ∀ i, i < n → ∀ e ∈ T.exprs, T.q.eval (ω ^ i) * e.eval (ω ^ i) = 0)
    (y x : F) (hx : x ^ n ≠ 1) (ts : List F) :
    let ids : List F[X] :=
      gates.map (Lift.gatePoly ω n t) ++
      C02.Dom.permIdPolys ω (D - 2) n bf β γ δ cols
        (Args.permProducts (fun x => x⁻¹) (D - 2) n bf β γ δ ω rndP cols) ++
      lookups.flatMap (fun L => Lift.lookupIdPolysE ω n bf β γ L.a L.s L.A' L.S'
        (Args.lookupProduct (fun x => x⁻¹) n bf β γ (Lift.nodeVals ω n L.a) (Lift.nodeVals ω n L.s)
          L.A' L.S' L.rnd)) ++
      trashes.map (fun T => Lift.trashIdPolyE ω n c T.q T.exprs
        (Args.trashValues n c (T.exprs.map (Lift.nodeVals ω n))))
    let h := Dom.ycomb y ids /ₘ (X ^ n - 1)
    let pieces := blind ts (chunksExact (n - 1) ((n - 1) * (D - 1)) (Asm.coeffList h ((n - 1) * (D - 1))))
    h * (X ^ n - 1) = Dom.ycomb y ids ∧
    Van.hCheck (fun a => a⁻¹) (ids.map (eval x)) y x n (pieces.map (fun L => evalPoly L x)) = true := by
  intro ids h pieces
  have hn0 : 0 < n := by omega
  have hvanish : ∀ p ∈ ids, ∀ i, i < n → p.eval (ω ^ i) = 0 := by
    intro p hp
    simp only [ids, List.mem_append, List.mem_flatMap] at hp
    rcases hp with ((hp | hp) | ⟨L, hL, hp⟩) | hp
    · exact (gate_polys_vanish_iff_rows hω hn0 t gates).2 hgsat p hp
    · exact perm_identities_vanish_on_domain hω (D - 2) bf β γ δ rndP cols (by omega) (by omega) hlen hdenP
        hperm p hp
    · obtain ⟨_, _, _, hok, hden⟩ := hlk L hL
      exact Lift.lookupIdPolysE_vanish hω hn0 bf β γ L.a L.s L.A' L.S' _
        (lookup_product_complete le hle order horder n bf β γ _ _ L.blindA L.blindS L.rnd L.A' L.S' hn
          (Lift.nodeVals_length _) (Lift.nodeVals_length _) hok hden) p hp
    · obtain ⟨T, hT, rfl⟩ := List.mem_map.1 hp
      obtain ⟨_, _, _, hsat⟩ := htr T hT
      intro i hi
      rw [Lift.trashIdPolyE_node hω c T.q T.exprs _ i hi]
      refine trash_complete n c _ _ ?_ ?_ i hi
      · intro e he
        obtain ⟨e', _, rfl⟩ := List.mem_map.1 he
        exact Lift.nodeVals_length _
      · intro j hj e he
        obtain ⟨e', he', rfl⟩ := List.mem_map.1 he
        rw [Lift.nodeVals_getD _ j hj, Lift.nodeVals_getD _ j hj]
        exact hsat j hj e' he'
  have hdeg : ∀ p ∈ ids, p.natDegree < n + (n - 1) * (D - 1) := by
    intro p hp
    apply Lift.deg_lt_pieces (by omega) (by omega)
    simp only [ids, List.mem_append, List.mem_flatMap] at hp
    rcases hp with ((hp | hp) | ⟨L, hL, hp⟩) | hp
    · obtain ⟨g, hg, rfl⟩ := List.mem_map.1 hp
      exact le_trans (Lift.natDegree_gatePoly_le hω t g) (Nat.mul_le_mul_right _ (hgdeg g hg))
    · have := Lift.natDegree_permIdPolys_le hω (by omega) (D - 2) bf (by omega) β γ δ cols _ p hp
      rwa [show D - 2 + 2 = D by omega] at this
    · obtain ⟨hd, ha, hs, _, _⟩ := hlk L hL
      exact le_trans (Lift.natDegree_lookupIdPolysE_le hω bf L.da L.ds β γ L.a L.s ha hs _ _ _ p hp)
        (Nat.mul_le_mul_right _ hd)
    · obtain ⟨T, hT, rfl⟩ := List.mem_map.1 hp
      obtain ⟨hd, hq, he, _⟩ := htr T hT
      exact le_trans (Lift.natDegree_trashIdPolyE_le hω c T.q T.exprs _ T.dq T.de hq he)
        (Nat.mul_le_mul_right _ hd)
  have := honest_verifies_algebraic hω (by omega) (D - 1) (by omega) ids hvanish hdeg y x hx ts
  exact ⟨this.1, this.2.1⟩

end Closed

/-- Non-vacuity of `gate_polys_vanish_iff_rows` / `honest_verifies_rows` over `ℚ`, `n = 2`, `ω = −1`,
`degree() = 3`, no blinding factor: the gate `q·a` with selector column `[1, 0]` and advice column
`[0, 7]` (non-zero on the row where the selector is off) is zero on both rows; all hypotheses of
`honest_verifies_rows` hold (no permutation column, lookup or trash argument), and the theorem
applies with `y = 3`, `x = 2`, `ts = [5]`. -/
example : ∃ (t : Lift.Tbl ℚ) (gates : List (Graph.Expr ℚ)), gates ≠ [] ∧
    (∀ g ∈ gates, Lift.exprDeg g ≤ 3) ∧ (∀ g ∈ gates, ∀ i, i < 2 → g.eval (Lift.rowEnv 2 t i) = 0) :=
  ⟨⟨[[1, 0]], [[0, 7]], [], []⟩, [.prod (.fixed 0 0) (.advice 0 0)], by simp, by simp [Lift.exprDeg], by
    intro g hg i hi
    simp only [List.mem_singleton] at hg
    subst hg
    interval_cases i <;> simp [Graph.Expr.eval, Lift.rowEnv, Rows.rowEnv, Rows.rowAt]⟩

private theorem ratLinOrd : LinOrd (fun a b : ℚ => decide (a ≤ b)) where
  total a b := by simp only [decide_eq_true_eq]; exact le_total a b
  trans a b c := by simp only [decide_eq_true_eq]; exact le_trans
  antisymm a b := by simp only [decide_eq_true_eq]; exact le_antisymm

example : ∃ (idEvals pieceEvals : List ℚ), Van.hCheck (fun a => a⁻¹) idEvals 3 2 2 pieceEvals = true :=
  ⟨_, _, (honest_verifies_rows (F := ℚ) (n := 2) (ω := -1) (IsPrimitiveRoot.neg_one 0 (by decide)) 3 0 (by decide)
    (by decide) ⟨[[1, 0]], [[0, 7]], [], []⟩ [.prod (.fixed 0 0) (.advice 0 0)] (by simp [Lift.exprDeg])
    (by
      intro g hg i hi
      simp only [List.mem_singleton] at hg
      subst hg
      interval_cases i <;> simp [Graph.Expr.eval, Lift.rowEnv, Rows.rowEnv, Rows.rowAt])
    1 1 2 (fun _ _ => 0) [] (by simp) (by simp) (by simp [sigmaPairs, idPairs])
    _ ratLinOrd id (fun m => List.Perm.refl m) [] (by simp) 5 [] (by simp) 3 2 (by norm_num) [5]).2⟩

/-! ### `get_rotation_idx`: rotations as index arithmetic on the (extended) domain -/

section Rotation
open Rot

/-- **`get_rotation_idx` is addition of `rot·rot_scale` modulo `isize`** (`evaluation.rs`), for every
row index, every rotation (negative ones and those that wrap around included), every scale and every
size `isize > 0`: the result is a valid index `< isize`, it is congruent to `idx + rot·rot_scale`
modulo `isize`, a rotation by `0` (or by a multiple `k·isize` of the domain at scale 1) of a valid
index is the identity, and rotating twice is rotating by the sum (so `rot` then `−rot` returns to the
row: wrap-around loses nothing). -/
theorem rotation_idx_spec (idx : Nat) (rot rot' s isize : Int) (h : 0 < isize) :
    ((getRotationIdx idx rot s isize : Nat) : Int) < isize ∧
    ((getRotationIdx idx rot s isize : Nat) : Int) % isize = ((idx : Int) + rot * s) % isize ∧
    ((idx : Int) < isize → getRotationIdx idx 0 s isize = idx) ∧
    getRotationIdx (getRotationIdx idx rot s isize) rot' s isize = getRotationIdx idx (rot + rot') s isize := by
  have hnn : 0 ≤ ((idx : Int) + rot * s) % isize := Int.emod_nonneg _ (by omega)
  have hlt : ((idx : Int) + rot * s) % isize < isize := Int.emod_lt_of_pos _ h
  have hcast : ((getRotationIdx idx rot s isize : Nat) : Int) = ((idx : Int) + rot * s) % isize := by
    unfold getRotationIdx; exact Int.toNat_of_nonneg hnn
  refine ⟨by rw [hcast]; exact hlt, by rw [hcast, Int.emod_emod_of_dvd _ (dvd_refl _)], ?_, ?_⟩
  · intro hi
    unfold getRotationIdx
    rw [Int.zero_mul, Int.add_zero, Int.emod_eq_of_lt (by omega) hi, Int.toNat_natCast]
  · unfold getRotationIdx at hcast ⊢
    rw [hcast, Int.emod_add_emod, show (idx : Int) + rot * s + rot' * s = (idx : Int) + (rot + rot') * s by ring]

/-- **On the field side**: for a primitive `N`-th root of unity `ω_ext` of the extended domain
(`N = isize`) the point at the rotated index is the point of the row times `ω^rot` with
`ω = ω_ext^rot_scale` the generator of the un-extended domain: the value read is `p(ω^rot·X)` at the
row's point — the `rotPoly` of the identity polynomials. -/
theorem rotation_idx_point {F : Type} [Field F] {N : ℕ} {w : F} (hw : IsPrimitiveRoot w N) (hN : 0 < N)
    (idx : Nat) (rot : Int) (s : ℕ) :
    w ^ getRotationIdx idx rot s N = w ^ idx * (w ^ s) ^ rot := by
  have hw0 := Dom.omega_ne_zero hw hN
  have : getRotationIdx idx rot s N = Asm.rowOf N ((idx : ℤ) + rot * s) := rfl
  rw [this, ← Asm.zpow_eq_rowOf hw hN, zpow_add₀ hw0, zpow_natCast, mul_comm rot, zpow_mul, zpow_natCast]

/-- **The row convention of the gate theorems is `get_rotation_idx` at scale 1**: the cell a query at
rotation `rot` reads from row `i` in `Rows.rowEnv` (`gate_polys_vanish_iff_rows`,
`honest_verifies_rows`) is the index `get_rotation_idx(i, rot, 1, n)` the prover's evaluator uses on
the un-extended domain; on an extended domain of `n·s` points the index of the rotated row among
the multiples of `s` is `s` times that row. -/
theorem rotation_idx_is_row_convention (n i : Nat) (hn : 0 < n) (rot : Int) :
    getRotationIdx i rot 1 n = Rows.rowAt n i rot ∧
    ∀ s : Nat, 0 < s → getRotationIdx (s * i) rot s (n * s : Nat) = s * Rows.rowAt n i rot := by
  refine ⟨by unfold getRotationIdx Rows.rowAt; rw [Int.mul_one], ?_⟩
  intro s hs
  unfold getRotationIdx Rows.rowAt
  have h1 : ((s * i : Nat) : Int) + rot * s = s * ((i : Int) + rot) := by push_cast; ring
  have hnn : 0 ≤ ((i : Int) + rot) % (n : Int) := Int.emod_nonneg _ (by exact_mod_cast hn.ne')
  rw [h1, Nat.cast_mul, Int.mul_comm (n : Int) s, Int.mul_emod_mul_of_pos _ _ (by exact_mod_cast hs),
    Int.toNat_mul (by exact_mod_cast Nat.zero_le s) hnn, Int.toNat_natCast]

/-- Non-vacuity / reading: `n = 8`, scale 4: row 1 at rotation −3 reads row 6 = index 24 of 32. -/
example : getRotationIdx 1 (-3) 1 8 = 6 ∧ getRotationIdx (4 * 1) (-3) 4 (8 * 4 : Nat) = 4 * 6 := by decide

end Rotation

/-- Non-vacuity / readings: extended domain of 32 points at scale 4 (`k = 3`, `extended_k = 5`):
row 1 at rotation −1 wraps to 29, row 30 at rotation +1 wraps to 2. -/
example : Rot.getRotationIdx 1 (-1) 4 32 = 29 ∧ Rot.getRotationIdx 30 1 4 32 = 2 ∧
    Rot.getRotationIdx 0 (-3) 1 8 = 5 ∧ Rot.getRotationIdx 5 16 1 8 = 5 := by decide

/-! ### the transcript call sites of the source, in textual order, are the schedule's segments -/

section Skeleton
open Skel

/-- **The schedules are the 22 segments in the order of `skeleton`**, for every shape and every
configuration — prover and verifier share the order of the segments (their contents agree by
`schedule_agree`). -/
theorem schedule_is_skeleton (sh : Shape) (cfg : Cfg) :
    proverSchedule sh cfg = skeleton.flatMap (proverSeg sh cfg) ∧
    verifierSchedule sh cfg = skeleton.flatMap (verifierSeg sh cfg) := by
  constructor
  · unfold proverSchedule skeleton
    simp only [List.flatMap_cons, List.flatMap_nil, List.append_nil]
    simp only [proverSeg]
    simp only [List.append_assoc]
    rfl
  · unfold verifierSchedule skeleton
    simp only [List.flatMap_cons, List.flatMap_nil, List.append_nil]
    simp only [verifierSeg]
    simp only [List.append_assoc]
    rfl

/-- **The transcript operations of `prover.rs` and `verifier.rs`, in the textual order in which the
CURRENT sources contain them (regenerated on every run by `translators/c01_transcript.py`), are the
call sites of the model's segments in the order of `skeleton`**: `compute_trace` followed by
`finalise_proof` (resp. `parse_trace` followed by `verify_algebraic_constraints`) is `proverSites`
(resp. `verifierSites`) token by token, whose segments — runs collapsed — are exactly `skeleton`;
`create_proof` / `prepare` call the two halves in this order; the helper functions have the pinned
call sites (`compute_instances`: three `common`; `parse_advices`: `write` then `squeeze`;
`write_evals_to_transcript`: three `write`). With `schedule_is_skeleton` a reordering of two
transcript operations in either file breaks this theorem at build time, for shapes the circuit
family never samples too. -/
theorem transcript_order_is_schedule_skeleton :
    fnTokens Gen.C01Transcript.proverFns "compute_trace" ++ fnTokens Gen.C01Transcript.proverFns "finalise_proof"
      = proverSites.map (·.1) ∧
    fnTokens Gen.C01Transcript.verifierFns "parse_trace" ++
        fnTokens Gen.C01Transcript.verifierFns "verify_algebraic_constraints" = verifierSites.map (·.1) ∧
    dedupAdj (proverSites.map (·.2)) = skeleton ∧ dedupAdj (verifierSites.map (·.2)) = skeleton ∧
    fnTokens Gen.C01Transcript.proverFns "create_proof" = ["call:compute_trace", "call:finalise_proof"] ∧
    fnTokens Gen.C01Transcript.verifierFns "prepare" = ["call:parse_trace", "call:verify_algebraic_constraints"] ∧
    fnTokens Gen.C01Transcript.proverFns "compute_instances" = ["common", "common", "common"] ∧
    fnTokens Gen.C01Transcript.proverFns "parse_advices" = ["write", "squeeze"] ∧
    fnTokens Gen.C01Transcript.proverFns "write_evals_to_transcript" = ["write", "write", "write"] ∧
    Gen.C01Transcript.proverFns.map (·.1) = ["compute_trace", "finalise_proof", "create_proof",
      "compute_instances", "parse_advices", "write_evals_to_transcript"] ∧
    Gen.C01Transcript.verifierFns.map (·.1) = ["parse_trace", "verify_algebraic_constraints", "prepare"] := by
  decide

/-- **The argument files write and read the same elements in the same textual order**
(`lookup/`, `permutation/`, `trash/`, `vanishing/` × `prover.rs`, `verifier.rs`, regenerated on every
run): the operations of every function that touches the transcript are the model's table `argOps`;
what `lookup::commit_permuted` writes is what `read_permuted_commitments` reads (input, then table);
the five evaluations a lookup writes (the items chained into its loop) are the five the verifier
reads, in the order `lookupEvalNames` of `lookupEval p l 0..4`; the permutation evaluations
(`eval`, `next_eval`, then `last_eval` for all sets but the last) and the trash / vanishing elements
likewise. A swap of two reads or of two items of a write loop in any of these files breaks this
theorem at build time (the recorded transcripts cannot see it: both are reads of a scalar). -/
theorem argument_transcript_sites :
    Gen.C01Transcript.argFns.map (fun e => (e.1, e.2.1, e.2.2.map (·.1))) = argOps ∧
    argNames Gen.C01Transcript.argFns "lookup/prover.rs" "commit_permuted"
      = argNames Gen.C01Transcript.argFns "lookup/verifier.rs" "read_permuted_commitments" ∧
    argNames Gen.C01Transcript.argFns "lookup/prover.rs" "commit_permuted"
      = ["permuted_input_commitment", "permuted_table_commitment"] ∧
    argNames Gen.C01Transcript.argFns "lookup/prover.rs" "commit_product"
      = argNames Gen.C01Transcript.argFns "lookup/verifier.rs" "read_product_commitment" ∧
    argNames Gen.C01Transcript.argFns "lookup/prover.rs" "evaluate" = lookupEvalNames ∧
    argNames Gen.C01Transcript.argFns "lookup/verifier.rs" "evaluate" = lookupEvalNames ∧
    argNames Gen.C01Transcript.argFns "permutation/prover.rs" "evaluate#2"
      = ["permutation_product_eval", "permutation_product_next_eval", "permutation_product_last_eval"] ∧
    argNames Gen.C01Transcript.argFns "permutation/verifier.rs" "evaluate#2"
      = ["permutation_product_eval", "permutation_product_next_eval"] ∧
    argNames Gen.C01Transcript.argFns "trash/prover.rs" "commit"
      = argNames Gen.C01Transcript.argFns "trash/verifier.rs" "read_committed" ∧
    argNames Gen.C01Transcript.argFns "trash/prover.rs" "evaluate"
      = argNames Gen.C01Transcript.argFns "trash/verifier.rs" "evaluate" ∧
    argNames Gen.C01Transcript.argFns "vanishing/prover.rs" "evaluate"
      = argNames Gen.C01Transcript.argFns "vanishing/verifier.rs" "evaluate_after_x" := by
  decide

end Skeleton

/-! ### the constant shortcuts of `add_expression` on both operand positions (concrete readings) -/

section Shortcuts
open Graph

/-- **`e * Constant(2)` and `Constant(2) * e` both compile to `Double(e)`** (`evaluation.rs:
add_expression`, arm `Product`): the doubled source is the OTHER operand, never the constant
(seeded change C01-3 doubled the constant when it was the right factor). Concrete readings of the
mirror `addExpr` over `Fin 13` with the operand order of the Rust code (`vsLe`), on the fresh graph
`GraphEvaluator::default()`; the same shapes are members of the family's `GateKind::Shapes` table
and are compared with the real compiled graph on every run (`graph` lines). -/
theorem times_two_compiles_to_double_of_other_operand :
    (addExpr (F := Fin 13) vsLe (.prod (.advice 0 0) (.const 2)) G.init).1.calcs
      = [.store (.advice 0 0), .double (.inter 0)] ∧
    (addExpr (F := Fin 13) vsLe (.prod (.const 2) (.advice 0 0)) G.init).1.calcs
      = [.store (.advice 0 0), .double (.inter 0)] ∧
    (addExpr (F := Fin 13) vsLe (.prod (.advice 0 0) (.const 2)) G.init).2 = .inter 1 ∧
    (addExpr (F := Fin 13) vsLe (.prod (.const 2) (.advice 0 0)) G.init).2 = .inter 1 := by
  decide

/-- The other constant shortcuts on both operand positions: `0·e = e·0 = Constant(0)` without any
calculation of the product, `1·e = e·1 = e`, `3·e` / `e·3` one `Mul` with the constant first
(`Constant(_) ≤ Intermediate(_)`), `e·e` a `Square`, `e·f` and `f·e` the SAME `Mul` (reused),
`e + (−f)` a `Sub`, `0 + (−f)` a `Negate`. -/
theorem constant_shortcuts_both_sides :
    let a : Expr (Fin 13) := .advice 0 0
    let b : Expr (Fin 13) := .advice 1 0
    let zero : Expr (Fin 13) := .scaled a 0
    let one : Expr (Fin 13) := .neg (.const 12)
    (addExpr vsLe (.prod zero a) G.init).2 = .const 0 ∧ (addExpr vsLe (.prod a zero) G.init).2 = .const 0 ∧
    (addExpr vsLe (.prod one a) G.init).2 = .inter 0 ∧ (addExpr vsLe (.prod a one) G.init).2 = .inter 0 ∧
    (addExpr vsLe (.prod (.const 3) a) G.init).1.calcs = [.store (.advice 0 0), .mul (.const 3) (.inter 0)] ∧
    (addExpr vsLe (.prod a (.const 3)) G.init).1.calcs = [.store (.advice 0 0), .mul (.const 3) (.inter 0)] ∧
    (addExpr vsLe (.prod a a) G.init).1.calcs = [.store (.advice 0 0), .square (.inter 0)] ∧
    (addExpr vsLe (.sum (.prod a b) (.prod b a)) G.init).1.calcs
      = [.store (.advice 0 0), .store (.advice 1 0), .mul (.inter 0) (.inter 1), .add (.inter 2) (.inter 2)] ∧
    (addExpr vsLe (.sum a (.neg b)) G.init).1.calcs = [.store (.advice 0 0), .store (.advice 1 0), .sub (.inter 0) (.inter 1)] ∧
    (addExpr vsLe (.sum zero (.neg b)) G.init).1.calcs = [.store (.advice 1 0), .negate (.inter 0)] := by
  decide

end Shortcuts

/-! ### the degree bookkeeping: every identity fits the quotient pieces -/

/-- **Every identity of the numerator fits the quotient the prover commits to.** For every
constraint system (gates, lookups of any arity and any input / table degrees, trash arguments with a
column selector, permutation columns) and every domain size `n ≥ 1`: an identity of the numerator has
degree `d ≤ degree()` in units of column polynomials (`C02.Ids.identityDegrees`, class by class; the
lookup product rule multiplies the θ-compressed input by the θ-compressed table: `max_i deg input_i +
max_i deg table_i`), so after division by `X^n − 1` its `d·(n−1) + 1 − n` coefficients fit the
`degree() − 1` pieces of `n − 1` coefficients (`get_quotient_poly_degree`, `hpieces_agree`) — the
degree hypothesis `hdeg` of `honest_verifies_algebraic` in syntactic form (`C02.gate_poly_degree_covered`
proves it for the gate polynomials themselves). `csDegree` mirrors `ConstraintSystem::degree()` with
`lookup.rs`/`trash.rs`/`permutation.rs: required_degree` and is compared with the running code on
every family member (C02 `csparams`); the family contains lookups for which a per-column formula is
too small (`C02.per_column_degree_formula_insufficient`). -/
theorem numerator_fits_quotient_pieces (cs : C02.Ids.VCS)
    (htrash : ∀ t ∈ cs.trash, C02.Ids.exprDegree t.1 ≤ 1) (n : Nat) (hn : 1 ≤ n) :
    ∀ d ∈ C02.Ids.identityDegrees cs, d * (n - 1) + 1 - n ≤ (C02.Ids.csDegree cs - 1) * (n - 1) := by
  intro d hd
  have hle : d ≤ C02.Ids.csDegree cs := by
    simp only [C02.Ids.identityDegrees, List.mem_append, List.mem_map, List.mem_flatMap] at hd
    rcases hd with ((⟨g, hg, rfl⟩ | hp) | ⟨l, hl, hdl⟩) | ⟨t, ht, rfl⟩
    · exact C02.Ids.csDegree_ge_gate cs g hg
    · have h3 := C02.Ids.csDegree_ge_3 cs
      unfold C02.Ids.permIdDegrees at hp
      split at hp
      · cases hp
      · simp only [List.mem_append, List.mem_cons, List.mem_nil_iff, or_false, List.mem_flatMap] at hp
        rcases hp with (rfl | rfl) | ⟨set, hset, (rfl | rfl)⟩
        · omega
        · omega
        · omega
        · have := C02.Ids.chunksFuel_length_le (C02.Ids.csDegree cs - 2) _ _ set hset
          omega
    · exact Nat.le_trans (C02.Ids.lookupIdDegrees_le l d hdl) (C02.Ids.csDegree_ge_lookup cs l hl)
    · exact Nat.le_trans (C02.Ids.trashIdDegree_le t (htrash t ht)) (C02.Ids.csDegree_ge_trash cs t ht)
  have h3 := C02.Ids.csDegree_ge_3 cs
  have h1 : d * (n - 1) ≤ C02.Ids.csDegree cs * (n - 1) := Nat.mul_le_mul_right _ hle
  have h2 : C02.Ids.csDegree cs * (n - 1) = (C02.Ids.csDegree cs - 1) * (n - 1) + (n - 1) := by
    have : C02.Ids.csDegree cs = (C02.Ids.csDegree cs - 1) + 1 := by omega
    conv => lhs; rw [this, Nat.add_mul, Nat.one_mul]
  omega

/-- Non-vacuity: a constraint system with a mixed-degree two-column lookup (degree 6). -/
example : (6 : Nat) ∈ C02.Ids.identityDegrees
    { gates := [], lookups := [([.prod (.fixed 1 0) (.advice 0 0), .advice 3 0], [.fixed 2 0, .prod (.fixed 3 0) (.fixed 4 0)])],
      trash := [], permCols := [], adviceQueries := [], fixedQueries := [], instanceQueries := [],
      degree := 6, blinding := 5, k := 5 } := by decide

end MidnightZK.C01
