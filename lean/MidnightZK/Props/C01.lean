import MidnightZK.Model.C01.Schedule
import MidnightZK.Model.C01.Quotient
import MidnightZK.Proofs.C01.GraphCorrect
/-!
# C01 — honest proofs verify for every circuit shape and proving configuration

Property theorems about the Fiat–Shamir schedules (`Model/C01/Schedule.lean`).
-/
namespace MidnightZK.C01

/-! ### helper lemmas -/

private theorem filter_map_eq_flatMap {α β} (p : α → Bool) (f : α → β) (l : List α) :
    (l.filter p).map f = l.flatMap (fun a => if p a then [f a] else []) := by
  induction l with
  | nil => rfl
  | cons a t ih =>
    simp only [List.filter_cons, List.flatMap_cons]
    cases h : p a <;> simp [ih]

private theorem range_add_flatMap {β} (a b : Nat) (g : Nat → List β) :
    (List.range (a + b)).flatMap g = (List.range a).flatMap g ++ (List.range b).flatMap (fun i => g (a + i)) := by
  rw [List.range_add, List.flatMap_append, List.flatMap_map]

private theorem flatMap_congr' {α β} (l : List α) (f g : α → List β) (h : ∀ a ∈ l, f a = g a) :
    l.flatMap f = l.flatMap g := by
  induction l with
  | nil => rfl
  | cons a t ih =>
    simp only [List.flatMap_cons]
    rw [h a (by simp), ih (fun x hx => h x (by simp [hx]))]

private theorem zipIdx_flatMap {α β} (d : α) (F : α → Nat → List β) : ∀ (l : List α) (k : Nat),
    (l.zipIdx k).flatMap (fun x => F x.1 x.2) = (List.range l.length).flatMap (fun i => F (l.getD i d) (k + i))
  | [], _ => by simp
  | a :: t, k => by
    rw [List.zipIdx_cons, List.flatMap_cons, zipIdx_flatMap d F t (k + 1)]
    simp only [List.length_cons]
    rw [List.range_succ_eq_map, List.flatMap_cons, List.flatMap_map]
    simp only [List.getD_cons_zero, Nat.add_zero, List.getD_cons_succ]
    congr 1
    apply flatMap_congr'
    intro i _
    rw [show k + 1 + i = k + (i + 1) by omega]

/-! ### instance absorption (defect D1) -/

/-- Prover (`compute_instances`) and verifier (`parse_trace`) absorb committed-instance
commitments and plain instance columns in the same order — for every number of proofs, of
committed columns and every list of plain column lengths. -/
theorem instances_agree (cfg : Cfg) : proverInstances cfg = verifierInstances cfg := by
  unfold proverInstances verifierInstances
  apply flatMap_congr'
  intro p _
  simp only []
  generalize cfg.lens.getD p [] = lens
  rw [range_add_flatMap]
  congr 1
  · rw [List.map_eq_flatMap]
    apply flatMap_congr'
    intro i hi
    simp only [List.mem_range] at hi
    simp [hi]
  · have h := zipIdx_flatMap (0 : Nat)
      (fun len c => absorbF (.instLen p (cfg.nCommitted + c)) ::
        (List.range len).map (fun j => absorbF (.instVal p (cfg.nCommitted + c) j))) lens 0
    simp only [Nat.zero_add] at h
    rw [show (lens.zipIdx.flatMap fun x => match x with
        | (len, c) => absorbF (.instLen p (cfg.nCommitted + c)) ::
          (List.range len).map (fun j => absorbF (.instVal p (cfg.nCommitted + c) j))) =
        (lens.zipIdx.flatMap fun x => absorbF (.instLen p (cfg.nCommitted + x.2)) ::
          (List.range x.1).map (fun j => absorbF (.instVal p (cfg.nCommitted + x.2) j))) from rfl, h]
    apply flatMap_congr'
    intro i _
    have : ¬ (cfg.nCommitted + i < cfg.nCommitted) := by omega
    simp [this]

/-- The order used by the pinned tree's verifier before the fix (all commitments of all
proofs, then all plain columns): kept to document defect D1. -/
def verifierInstancesPinned (cfg : Cfg) : List Ev :=
  ((List.range cfg.nProofs).flatMap fun p => (List.range cfg.nCommitted).map (fun c => absorbG (.instCommit p c))) ++
  ((List.range cfg.nProofs).flatMap fun p =>
    ((cfg.lens.getD p []).zipIdx.flatMap fun (len, c) =>
      absorbF (.instLen p (cfg.nCommitted + c)) :: (List.range len).map (fun j => absorbF (.instVal p (cfg.nCommitted + c) j))))

/-- D1: with two proofs, one committed and one plain instance column, the pre-fix verifier
order differs from the prover's order (the configuration in which honest proofs were rejected). -/
theorem pinned_order_disagrees :
    proverInstances ⟨2, 1, [[1], [1]]⟩ ≠ verifierInstancesPinned ⟨2, 1, [[1], [1]]⟩ := by decide

/-! ### the remaining segments -/

/-- Advice commitments and phase challenges: prover (`parse_advices`, per phase the
`BTreeSet` of column indices of that phase, per circuit) and verifier (`parse_trace`, per
phase, per proof, every column whose phase matches) agree for every phase assignment. -/
theorem advice_agree (sh : Shape) (cfg : Cfg) : proverAdvice sh cfg = verifierAdvice sh cfg := by
  unfold proverAdvice verifierAdvice
  apply flatMap_congr'
  intro ph _
  simp only []
  congr 1
  · apply flatMap_congr'
    intro p _
    rw [List.map_map, filter_map_eq_flatMap]
    apply flatMap_congr'
    intro a _
    obtain ⟨q, c⟩ := a
    by_cases h : q = ph
    · subst h; simp
    · have h' : ¬ ph = q := fun e => h e.symm
      simp [h, h']
  · rw [filter_map_eq_flatMap]
    apply flatMap_congr'
    intro a _
    obtain ⟨q, c⟩ := a
    by_cases h : q = ph
    · subst h; simp
    · have h' : ¬ ph = q := fun e => h e.symm
      simp [h, h']

private theorem extendedK_ge (k qpd : Nat) : ∀ (fuel ek : Nat), 2 ^ k * qpd ≤ 2 ^ (ek + fuel) →
    2 ^ k * qpd ≤ 2 ^ extendedK k qpd fuel ek
  | 0, ek, h => by simpa [extendedK] using h
  | fuel + 1, ek, h => by
    unfold extendedK
    split
    · apply extendedK_ge k qpd fuel (ek + 1)
      rw [show ek + 1 + fuel = ek + (fuel + 1) by omega]; exact h
    · omega

/-- The extended domain built by `EvaluationDomain::new` is large enough for the quotient:
`n · (degree − 1) ≤ 2^extended_k`. -/
theorem extended_domain_large_enough (sh : Shape) :
    n sh * quotientPolyDegree sh ≤ extendedLen sh := by
  unfold extendedLen n
  apply extendedK_ge
  have h1 : quotientPolyDegree sh < 2 ^ (quotientPolyDegree sh + 1) :=
    Nat.lt_of_lt_of_le Nat.lt_two_pow_self (Nat.pow_le_pow_right (by omega) (by omega))
  rw [Nat.pow_add]
  exact Nat.mul_le_mul_left _ (Nat.le_of_lt h1)

/-- The prover writes exactly as many quotient pieces (`truncate` + `chunks_exact(n-1)`) as the
verifier reads (`get_quotient_poly_degree()`), for every degree ≥ 3 and every `k ≥ 1`. -/
theorem hpieces_agree (sh : Shape) (hk : 1 ≤ sh.k) : proverHPieces sh = verifierHPieces sh := by
  unfold proverHPieces verifierHPieces
  have hn : 2 ≤ n sh := by
    unfold n
    calc 2 = 2 ^ 1 := rfl
      _ ≤ 2 ^ sh.k := Nat.pow_le_pow_right (by omega) hk
  have hle : (n sh - 1) * quotientPolyDegree sh ≤ extendedLen sh :=
    Nat.le_trans (Nat.mul_le_mul_right _ (by omega)) (extended_domain_large_enough sh)
  simp only []
  rw [Nat.min_eq_right hle, Nat.mul_comm, Nat.mul_div_cancel _ (by omega)]

/-- Evaluations written by `write_evals_to_transcript` = evaluations read by the verifier. -/
theorem evals_agree (sh : Shape) (cfg : Cfg) : proverEvals sh cfg = verifierEvals sh cfg := by
  unfold proverEvals verifierEvals
  congr 2
  apply flatMap_congr'
  intro p _
  rw [filter_map_eq_flatMap]
  apply flatMap_congr'
  intro a _
  obtain ⟨q, qi⟩ := a
  by_cases h : q.1 < cfg.nCommitted <;> simp [h]

/-- The opening queries of prover (`compute_queries`) and verifier are the same list of
(polynomial, rotation) pairs in the same order; hence the multi-opening groups them into the
same point sets and the `q_evals` are produced and consumed in the same order. -/
theorem queries_agree (sh : Shape) (cfg : Cfg) : proverQueries sh cfg = verifierQueries sh cfg := by
  unfold proverQueries verifierQueries permSets
  simp only []
  congr 3
  apply flatMap_congr'
  intro p _
  congr 5
  rw [filter_map_eq_flatMap]
  apply flatMap_congr'
  intro q _
  by_cases h : q.1 < cfg.nCommitted <;> simp [h]

/-- **Schedule agreement.** For every constraint-system shape (any number of advice columns and
phases, challenges, queries, lookups, trash arguments, permutation columns, any degree ≥ 3 and
`k ≥ 1`) and every proving configuration (any number of proofs, committed and plain instance
columns of any lengths) the verifier replays exactly the prover's transcript operations:
same absorbed elements, same proof elements of the same type, same challenge positions. -/
theorem schedule_agree (sh : Shape) (cfg : Cfg) (h : WF sh cfg) :
    proverSchedule sh cfg = verifierSchedule sh cfg := by
  unfold proverSchedule verifierSchedule
  rw [instances_agree, advice_agree, hpieces_agree sh h.k_pos, evals_agree, queries_agree]
  rfl

/-- Non-vacuity: a shape with two phases, a lookup, a trash argument, two permutation sets. -/
example : WF ⟨[0, 0, 1], [0], [(0, 0), (1, 0), (2, 1)], [(0, 0), (1, 0)], [(0, 0)], 1, 1, 5, 5, 6, 4⟩
    ⟨2, 1, [[2], [3]]⟩ := ⟨by decide, by decide, by decide⟩

/-! ### quotient polynomial: split, blind, recombine -/

section Quotient
open Lean.Grind
variable {R : Type} [CommRing R]

private theorem evalPoly_append_single (L : List R) (t x : R) :
    evalPoly (L ++ [t]) x = evalPoly L x + x ^ L.length * t := by
  induction L with
  | nil => simp [evalPoly]; grind
  | cons a r ih =>
    simp only [evalPoly, List.cons_append, List.foldr_cons, List.length_cons] at ih ⊢
    rw [ih]; grind

private theorem evalPoly_subHead (M : List R) (t x : R) (h : M ≠ []) :
    evalPoly (subHead t M) x = evalPoly M x - t := by
  cases M with
  | nil => exact absurd rfl h
  | cons a r => simp only [subHead, evalPoly, List.foldr_cons]; grind

private theorem evalPoly_append (A B : List R) (x : R) :
    evalPoly (A ++ B) x = evalPoly A x + x ^ A.length * evalPoly B x := by
  induction A with
  | nil => simp [evalPoly]; grind
  | cons a r ih =>
    simp only [evalPoly, List.cons_append, List.foldr_cons, List.length_cons] at ih ⊢
    rw [ih]; grind

/-- **Blinding the quotient limbs does not change the recombined quotient**: for every list
of limbs of length `m = n − 1 ≥ 1`, every blinding vector `ts` and every evaluation point,
`Σ x^(m·i) L'ᵢ(x) = Σ x^(m·i) Lᵢ(x)`. (Each `tᵢ` enters as `+tᵢ·X^m` in limb `i−1` and as
`−tᵢ` in limb `i`.) -/
theorem quotient_blind_recombine (x : R) (m : Nat) (hm : 1 ≤ m) :
    ∀ (limbs : List (List R)) (ts : List R), (∀ L ∈ limbs, L.length = m) →
      recombine x m (blind ts limbs) = recombine x m limbs
  | [], ts, _ => by cases ts <;> simp [blind]
  | [L], ts, _ => by
    cases ts <;> simp only [blind, recombine] <;> rw [evalPoly_append_single] <;> grind
  | L :: M :: rest, [], h => by
    have ih := quotient_blind_recombine x m hm (M :: rest) [] (fun K hK => h K (by simp [hK]))
    simp only [blind, recombine] at ih ⊢
    rw [evalPoly_append_single, ih]; grind
  | L :: M :: rest, t :: ts, h => by
    have hL : L.length = m := h L (by simp)
    have hM : M.length = m := h M (by simp)
    have hMne : M ≠ [] := by intro e; rw [e] at hM; simp at hM; omega
    have hlen : ∀ K ∈ subHead t M :: rest, K.length = m := by
      intro K hK
      simp only [List.mem_cons] at hK
      rcases hK with rfl | hK
      · cases M with
        | nil => exact absurd rfl hMne
        | cons a r => simpa [subHead] using hM
      · exact h K (by simp [hK])
    have ih := quotient_blind_recombine x m hm (subHead t M :: rest) ts hlen
    simp only [blind, recombine] at ih ⊢
    rw [evalPoly_append_single, ih, evalPoly_subHead M t x hMne, hL]; grind

/-- **Splitting and recombining is the identity on evaluations**: if the (truncated) quotient
has `m·q` coefficients, `Σ_j x^(m·j) h_j(x) = h(x)` where `h_j` are the `chunks_exact(m)`
pieces — what the verifier relies on when it opens the chopped commitment at `x`. -/
theorem chunks_recombine (x : R) (m : Nat) (hm : 1 ≤ m) :
    ∀ (q fuel : Nat) (h : List R), h.length = m * q → q ≤ fuel →
      recombine x m (chunksExact m fuel h) = evalPoly h x
  | 0, fuel, h, hl, _ => by
    have : h = [] := by simpa using hl
    subst this
    cases fuel with
    | zero => simp [chunksExact, recombine, evalPoly]
    | succ k =>
      have : (m = 0 ∨ 0 < m) := Or.inr (by omega)
      simp [chunksExact, recombine, evalPoly, this]
  | q + 1, 0, h, _, hf => by omega
  | q + 1, fuel + 1, h, hl, hf => by
    have hge : ¬ (m = 0 ∨ h.length < m) := by
      rw [hl, Nat.mul_succ]; omega
    simp only [chunksExact, hge, if_false, recombine]
    have hdrop : (h.drop m).length = m * q := by
      rw [List.length_drop, hl, Nat.mul_succ]; omega
    rw [chunks_recombine x m hm q fuel (h.drop m) hdrop (by omega)]
    have htake : (h.take m).length = m := by
      rw [List.length_take, hl, Nat.mul_succ]; omega
    conv => rhs; rw [← List.take_append_drop m h, evalPoly_append, htake]

/-- Non-vacuity over `Int`: two limbs of length 2, blinded with `t = 7`, at `x = 3`. -/
example : recombine (3 : Int) 2 (blind [7] [[1, 2], [4, 5]]) = recombine 3 2 [[1, 2], [4, 5]] :=
  quotient_blind_recombine 3 2 (by decide) _ _ (by simp)

end Quotient

/-! ### the expression-graph compiler of the prover -/

section GraphCompiler
open Lean.Grind Graph
variable {F : Type} [CommRing F] [DecidableEq F]

/-- **The prover's expression compiler is correct** (`evaluation.rs: add_expression` +
`GraphEvaluator::evaluate`): for every gate expression `e`, every well-formed graph `g` it is
added to (in particular the graph holding all previously compiled gates), every operand
ordering and every row environment, running the evaluation loop of the extended graph and
reading the returned value source yields `e` evaluated on that row. Covers the constant
shortcuts (`0`, `1`, `2`), `a + (−b) ↦ Sub`, squaring, operand reordering, `Scaled` and the
sharing of identical constants / rotations / calculations — over any commutative ring. -/
theorem compile_correct (le : VS → VS → Bool) (env : Env F) (e : Expr F) (g : G F) (hg : Graph.WF g) :
    VS.get (addExpr le e g).1 env ((addExpr le e g).1.run env) (addExpr le e g).2 = e.eval env :=
  compile_correct_aux le env e g hg

/-- Compiling never invalidates what was compiled before: the graph only grows, stays
well-formed, and earlier value sources keep their value. -/
theorem compile_preserves (le : VS → VS → Bool) (env : Env F) (e : Expr F) (g : G F) (hg : Graph.WF g)
    (vs : VS) (hv : Valid g vs) :
    Graph.WF (addExpr le e g).1 ∧ V (addExpr le e g).1 env vs = V g env vs :=
  ⟨(addExpr_res le env e g hg).wf, V_ext env (addExpr_res le env e g hg).ext hg hv⟩

/-- Non-vacuity: the graph `GraphEvaluator::default()` starts from is well-formed. -/
example : Graph.WF (G.init : G F) := WF_init

end GraphCompiler

end MidnightZK.C01
