import MidnightZK.Proofs.C08.Expose
import MidnightZK.Proofs.C08.BigBound
import MidnightZK.Proofs.C08.Verify
import MidnightZK.Proofs.C08.ScalarLong
import MidnightZK.Proofs.C08.Handles
import MidnightZK.Proofs.C08.Names
/-!
# C08 — the off-circuit public-input encoding is exactly what the circuit binds

Property theorems (helper lemmas live in `MidnightZK/Proofs/C08`). The model is
`Model/C08/PublicInput.lean` (encoders and the instance-row counter of `NativeChip`, parametric
in the moduli and limb parameters) and `Model/C08/Expose.lean` (the typed layer over the
parameter sets generated from `/repo` into `Gen/C08Params.lean`).
-/
namespace MidnightZK.C08

/-! ## Parameter sets (re-checked against the source on every run) -/

/-- Every `FieldEmulationParams` set of `field/foreign/params.rs` over the native field
(`midnight_curves::Fq`) that the encoders can be instantiated with is sound for public inputs:
`NB_LIMBS` limbs of `LOG2_BASE` bits hold every element of the emulated field
(`p ≤ 2^(w·n)`, so `bi_to_limbs` never panics and loses nothing), a limb plus the identity
flag `2^w` does not wrap around the native modulus (`2^(w+1) ≤ q`), and there is at least one
limb. Stated over the constants the translator extracted from the current sources. -/
theorem params_sound (name : String) (P : FParams) (h : paramsOf name = some P) :
    0 < P.p ∧ P.p ≤ 2 ^ (P.w * P.n) ∧ 2 ^ (P.w + 1) ≤ q ∧ 1 ≤ P.n :=
  let g := paramsOf_good name P h
  ⟨g.pos, g.fit, g.flag, g.limb⟩

/-- Non-vacuity: the six named sets exist with the limb shapes of `params.rs`. -/
example : (paramsOf "secp_base").map (fun P => (P.w, P.n)) = some (64, 4) ∧
    (paramsOf "secp_scalar").map (fun P => (P.w, P.n)) = some (64, 4) ∧
    (paramsOf "bls_base").map (fun P => (P.w, P.n)) = some (56, 7) ∧
    (paramsOf "bn_base").map (fun P => (P.w, P.n)) = some (52, 5) ∧
    (paramsOf "c25519_base").map (fun P => (P.w, P.n)) = some (64, 4) ∧
    (paramsOf "c25519_scalar").map (fun P => (P.w, P.n)) = some (51, 5) := by decide +kernel

/-- The native-field facts the Jubjub-scalar and BigUint encoders rely on: a batch of
`F::NUM_BITS − 1 = 254` bits is below the modulus, the 252 bits of `NUM_BITS_SUBGROUP` hold every
Jubjub scalar and fit one batch, `assign` witnesses exactly that many bits, and a 96-bit BigUint
limb is a native field element. -/
theorem native_constants_sound :
    2 ^ (Gen.nativeNumBits - 1) ≤ q ∧ q < 2 ^ Gen.nativeNumBits ∧
    Gen.jubjubScalarModulus ≤ 2 ^ Gen.jubjubNumBitsSubgroup ∧
    Gen.jubjubNumBitsSubgroup ≤ Gen.nativeNumBits - 1 ∧
    jubjubScalarNumBits = Gen.jubjubNumBitsSubgroup ∧ 2 ^ Gen.bigLog2Base ≤ q := by
  have f := native_facts
  exact ⟨f.2.1, f.2.2.1, f.2.2.2.2.2.1, f.2.2.2.2.1, f.2.2.2.2.2.2.1, f.2.2.2.2.2.2.2.1⟩

/-! ## Injectivity of each encoder (parametric in the moduli / limb parameters) -/

/-- `AssignedField::as_public_input` (limbs of `x − 1`): distinct elements of the emulated field
never share an encoding, for every parameter set whose limbs hold the field and fit the native
field. -/
theorem encode_injective_field (q : Nat) (P : FParams) (hq : 2 ^ P.w ≤ q)
    (hfit : P.p ≤ 2 ^ (P.w * P.n)) (x y : Nat) (hx : x < P.p) (hy : y < P.p)
    (h : encField q P x = encField q P y) : x = y :=
  encField_inj q P hq hfit x y hx hy h

example : encField q ⟨secpBaseModulus, 64, 4⟩ 0 ≠ encField q ⟨secpBaseModulus, 64, 4⟩ 1 := by
  decide +kernel

/-- …and the verifier can read the value back: `decField` inverts the encoder
(`0` is encoded as the limbs of `p − 1`). -/
theorem decode_encode_field (q : Nat) (P : FParams) (hq : 2 ^ P.w ≤ q)
    (hfit : P.p ≤ 2 ^ (P.w * P.n)) (x : Nat) (hx : x < P.p) : decField P (encField q P x) = x :=
  decField_encField q P hq hfit x hx

example : decField ⟨secpBaseModulus, 64, 4⟩ (encField q ⟨secpBaseModulus, 64, 4⟩ 0) = 0 := by
  decide +kernel

/-- `AssignedForeignPoint::as_public_input`: the identity (coordinates `(0,0)`, flag `2^w` added
to limb 0) and the affine points never share an encoding — the first raw input of the identity
is `≥ 2^w`, that of an affine point `< 2^w` — and two affine points share one only if equal.
Needs `2^(w+1) ≤ q` (the flag addition does not wrap). -/
theorem encode_injective_point (q : Nat) (P : FParams) (hq : 2 ^ (P.w + 1) ≤ q) (hn : 1 ≤ P.n)
    (hfit : P.p ≤ 2 ^ (P.w * P.n)) (a b : Option (Nat × Nat)) (ha : PointOk P a) (hb : PointOk P b)
    (h : encPoint q P a = encPoint q P b) : a = b :=
  encPoint_inj q P hq hn hfit a b ha hb h

/-- Non-vacuity: the identity differs from the (off-curve) point `(0,0)` whose limbs it reuses. -/
example : encPoint q ⟨secpBaseModulus, 64, 4⟩ none ≠ encPoint q ⟨secpBaseModulus, 64, 4⟩ (some (0, 0)) := by
  decide +kernel

/-- `ForeignEccChip::as_public_input` (in-circuit): for an honestly assigned point — limb cells
of `x − 1`, `y − 1` (of `(0,0)` for the identity) and the `is_id` bit — the cells bound to the
instance, with `pis[0]` replaced by the linear combination `pis[0] + 2^w·is_id`, are exactly the
off-circuit encoding. -/
theorem expose_point_agrees (q : Nat) (P : FParams) (hq : 2 ^ (P.w + 1) ≤ q) (hn : 1 ≤ P.n)
    (pt : Option (Nat × Nat)) :
    cellsPoint q P (reprPoint q P pt).1 (reprPoint q P pt).2.1 (reprPoint q P pt).2.2
      = encPoint q P pt :=
  cellsPoint_reprPoint q P hq hn pt

example : cellsPoint q ⟨Gen.blsBaseModulus, 56, 7⟩ (encField q ⟨Gen.blsBaseModulus, 56, 7⟩ 0)
    (encField q ⟨Gen.blsBaseModulus, 56, 7⟩ 0) 1 = encPoint q ⟨Gen.blsBaseModulus, 56, 7⟩ none := by
  decide +kernel

/-- `AssignedScalarOfNativeCurve::as_public_input` (off-circuit): scalars below `2^nbits` never
share an encoding, whenever the `nbits`-bit window fits one batch of `F::NUM_BITS − 1` bits and a
batch is below the native modulus (true for Jubjub over BLS12-381: `native_constants_sound`). -/
theorem encode_injective_jscalar (q nbits numBitsF : Nat) (h0 : 1 ≤ nbits)
    (hb : nbits ≤ numBitsF - 1) (hq : 2 ^ (numBitsF - 1) ≤ q) (s t : Nat) (hs : s < 2 ^ nbits)
    (ht : t < 2 ^ nbits) (h : encJScalar q nbits numBitsF s = encJScalar q nbits numBitsF t) :
    s = t :=
  encJScalar_inj q nbits numBitsF h0 hb hq s t hs ht h

example : encJScalar q 252 255 5 = [5] := by decide +kernel

/-- `AssignedBigUint::as_public_input(v, nb_bits)`: for a fixed declared bound, two integers
that the encoder accepts (no panic) share an encoding only if equal. -/
theorem encode_injective_biguint (q w nb : Nat) (hq : 2 ^ w ≤ q) (v₁ v₂ : Nat) (l : List Nat)
    (h₁ : encBig q w nb v₁ = some l) (h₂ : encBig q w nb v₂ = some l) : v₁ = v₂ :=
  encBig_inj q w nb hq v₁ v₂ l h₁ h₂

/-- …the encoder accepts every integer below `2^nb_bits` (and panics exactly when the value
does not fit `⌈nb_bits/w⌉` limbs), and emits `⌈nb_bits/w⌉` raw inputs. -/
theorem encode_biguint_total (q w nb v : Nat) (hw : 0 < w) (hq : 2 ^ w ≤ q) (hv : v < 2 ^ nb) :
    ∃ l, encBig q w nb v = some l ∧ l.length = ceilDiv nb w := by
  have h := encBig_some q w nb v hq (lt_pow_limbs w nb v hw hv)
  exact ⟨_, h, encBig_length q w nb v _ h⟩

example : encBig q 96 97 (2 ^ 97 - 1) = some [2 ^ 96 - 1, 1] ∧ encBig q 96 96 (2 ^ 96) = none := by
  decide +kernel

/-- `AssignedMsm::as_public_input` (bases, scalars, fixed-base scalars in key order): two MSMs of
the same shape — the shape (number of terms, set of fixed-base names) is fixed by the circuit —
share an encoding only if equal. Without the shape hypothesis the statement is false: the
encoding does not record where the bases end. -/
theorem encode_injective_msm (q : Nat) (P : FParams) (hq : 2 ^ (P.w + 1) ≤ q) (hn : 1 ≤ P.n)
    (hfit : P.p ≤ 2 ^ (P.w * P.n)) (m₁ m₂ : Msm) (hs : SameShape m₁ m₂)
    (h₁ : MsmOk q P m₁) (h₂ : MsmOk q P m₂) (h : encMsm q P m₁ = encMsm q P m₂) : m₁ = m₂ :=
  encMsm_inj q P hq hn hfit m₁ m₂ hs h₁ h₂ h

/-- Non-vacuity of the shape hypothesis: different shapes can collide. -/
example : encMsm q ⟨7, 2, 2⟩ ⟨[], [5, 6], []⟩ = encMsm q ⟨7, 2, 2⟩ ⟨[], [5], [6]⟩ := by decide +kernel

/-- `AssignedAccumulator::as_public_input` (lhs MSM then rhs MSM): injective on accumulators of
a fixed shape. -/
theorem encode_injective_accumulator (q : Nat) (P : FParams) (hq : 2 ^ (P.w + 1) ≤ q)
    (hn : 1 ≤ P.n) (hfit : P.p ≤ 2 ^ (P.w * P.n)) (l₁ r₁ l₂ r₂ : Msm) (hl : SameShape l₁ l₂)
    (hr : SameShape r₁ r₂) (ok : MsmOk q P l₁ ∧ MsmOk q P r₁ ∧ MsmOk q P l₂ ∧ MsmOk q P r₂)
    (h : encAcc q P l₁ r₁ = encAcc q P l₂ r₂) : l₁ = l₂ ∧ r₁ = r₂ :=
  encAcc_inj q P hq hn hfit l₁ r₁ l₂ r₂ hl hr ok h

/-- The committed-scalars variant splits the same data: plain part ++ committed part is a
permutation-free re-bracketing of the full encoding (nothing is dropped or duplicated). -/
theorem accumulator_committed_split (q : Nat) (P : FParams) (lhs rhs : Msm) :
    (encAccCommitted q P lhs rhs).1 ++ (encAccCommitted q P lhs rhs).2 = encAcc q P lhs rhs := by
  simp [encAccCommitted, encMsmCommitted, encAcc, encMsm, List.append_assoc]

/-! ## The typed encoder over the compiled-in parameters -/

/-- `encode_injective`: for every exposable type (bit, byte, native, the emulated fields and
curves of the compiled-in parameter sets, Jubjub point and scalar, BigUint(nb), IR byte arrays),
two well-formed values of the same type with the same encoding are equal. -/
theorem encode_injective (v₁ v₂ : Val) (l : List Nat) (ht : SameType v₁ v₂) (w₁ : WF v₁)
    (w₂ : WF v₂) (h₁ : encode v₁ = some l) (h₂ : encode v₂ = some l) : v₁ = v₂ :=
  encode_injective_aux v₁ v₂ l ht w₁ w₂ h₁ h₂

example : encode (.fpoint "bls" none) ≠ encode (.fpoint "bls" (some (0, 0))) := by decide +kernel

/-- `encLen`: the number of raw public inputs of a value is a function of its type only
(1 for bit/byte/native/Jubjub scalar/vk identity, `NB_LIMBS` for an emulated field element,
`2·NB_LIMBS` for a foreign point, 2 for a Jubjub point, `⌈nb_bits/96⌉` for a BigUint). -/
theorem encode_length (v : Val) (l : List Nat) (h : encode v = some l) : encLen v = some l.length :=
  encode_length_aux v l h

example : encLen (.fpoint "bls" none) = some 14 ∧ encLen (.big 97 0) = some 2 ∧
    encLen (.jscalar 0) = some 1 := by decide +kernel

/-! ## In-circuit exposure = off-circuit encoding -/

/-- `cells_eq_encode`: the cells an exposure binds are the off-circuit encoding, for every type,
under `Agree` — which is `True` for every type except: a Jubjub scalar must carry a bit vector
that fits one 254-bit batch; a BigUint must expose `⌈nb_bits/96⌉` limbs. -/
theorem cells_eq_encode (path : Path) (v : Val) (h : Agree path v) : cells path v = encode v :=
  cells_eq_encode_aux path v h

/-- Jubjub scalars produced by `assign` / `assign_as_public_input` (252 witnessed bits) satisfy
`Agree`: this is the part of the property that holds for Jubjub scalars
(`…_partial`: it does not cover bit vectors longer than 254 bits, see
`jscalar_expose_disagrees_256`). -/
theorem jscalar_expose_agrees_partial (path : Path)
    (hp : path = .constrain ∨ path = .assign ∨ path = .committed) (s : Nat)
    (hs : s < Gen.jubjubScalarModulus) : cells path (.jscalar s) = encode (.jscalar s) :=
  cells_eq_encode_aux path _ (agree_jscalar_assign path hp s hs)

/-- Constants (`assign_fixed`: minimal bit vector) also agree… -/
theorem jscalar_fixed_expose_agrees (s : Nat) (hs : s < Gen.jubjubScalarModulus) :
    cells .fixed (.jscalar s) = encode (.jscalar s) :=
  cells_eq_encode_aux .fixed _ (agree_jscalar_fixed s hs)

/-- …and so do scalars built by `scalar_from_le_bytes` from at most 31 bytes. -/
theorem jscalar_bytes_expose_agrees (n s : Nat) (hn : 1 ≤ n) (hfit : 8 * n ≤ scalarBatch)
    (hs : s < Gen.jubjubScalarModulus) (hb : s < 2 ^ (8 * n)) :
    cells (.derived n) (.jscalar s) = encode (.jscalar s) :=
  cells_eq_encode_aux _ _ (agree_jscalar_bytes n s hn hfit hs hb)

example : cells (.derived 31) (.jscalar 77) = encode (.jscalar 77) := by decide +kernel

/-- The recorded finding (`findings/C08.json`, key `jscalar-exposure:bits>252`): a Jubjub
scalar whose in-circuit bit vector has 256 bits (`scalar_from_le_bytes` on 32 bytes, i.e. ZKIR
`FromBytes(JubjubScalar)`) is exposed on TWO instance rows while the off-circuit encoder emits
ONE element; likewise 255 bits (`convert` from a native value). The full-strength agreement
statement is therefore false for the code as it is. -/
theorem jscalar_expose_disagrees_256 :
    cells (.derived 32) (.jscalar 1) = some [1, 0] ∧ encode (.jscalar 1) = some [1] ∧
    cells (.derived 0) (.jscalar 1) = some [1, 0] := by decide +kernel

/-- BigUints assigned with a declared bound `nb_bits ≥ 1` expose exactly the limbs of the
off-circuit encoder with the same bound (`assign_bounded` gives `⌈nb_bits/96⌉` normalised
limbs, so `normalize` is the identity). -/
theorem biguint_expose_agrees (path : Path) (hp : path = .constrain ∨ path = .assign)
    (nb v : Nat) (hnb : 1 ≤ nb) : cells path (.big nb v) = encode (.big nb v) :=
  cells_eq_encode_aux path _ (agree_big_assign path hp nb v hnb)

/-- BigUints that are the result of in-circuit arithmetic are published (ZKIR `Publish`) with the
bound `nb_bits()` derived from their limb bounds. Whatever the (non-degenerate) limb bounds are,
`normalize` exposes exactly `⌈nb_bits/96⌉` limbs — the number the off-circuit encoder emits for
that bound — in both of its branches (already normalised: the limbs themselves; otherwise
`nb_bits.div_ceil(LOG2_BASE)` fresh limbs). -/
theorem biguint_derived_bound_count (w : Nat) (hw : 0 < w) (bounds : List Nat) (hne : bounds ≠ [])
    (hlast : 1 ≤ bounds.getLast!) :
    exposedLimbCount w bounds = ceilDiv (nbBitsOf w bounds) w :=
  exposedLimbCount_eq w hw bounds hne hlast

/-- Non-vacuity, and why the most significant bound must be non-zero: with a zero top bound (a
value padded by `resize`) the limb count and the derived bound disagree; the gadget never
returns such a value (`resize` is only used internally, before `normalize`/`select`). -/
example : exposedLimbCount 96 [96, 97] = 3 ∧ ceilDiv (nbBitsOf 96 [96, 97]) 96 = 3 ∧
    exposedLimbCount 96 [96, 0] = 2 ∧ ceilDiv (nbBitsOf 96 [96, 0]) 96 = 1 := by decide +kernel

/-- `AssignedMsm` / `AssignedAccumulator` exposure (each base through the curve chip, then the
scalar cells): the bound cells are the off-circuit encoding, also in the committed-scalars
variant (plain part and committed part separately). -/
theorem expose_accumulator_agrees (q : Nat) (P : FParams) (hq : 2 ^ (P.w + 1) ≤ q) (hn : 1 ≤ P.n)
    (l r : Msm) :
    cellsAcc q P l r = encAcc q P l r ∧ cellsAccCommitted q P l r = encAccCommitted q P l r :=
  ⟨cellsAcc_eq q P hq hn l r, cellsAccCommitted_eq q P hq hn l r⟩

example : cellsAcc q ⟨Gen.blsBaseModulus, 56, 7⟩ ⟨[none], [3], []⟩ ⟨[], [], [4]⟩ =
    encAcc q ⟨Gen.blsBaseModulus, 56, 7⟩ ⟨[none], [3], []⟩ ⟨[], [], [4]⟩ := by decide +kernel

/-! ## What the instance rows bind; the recorded number of public inputs -/

/-- `expose_binds`: after `constrain_as_public_input` on cells `cs` (from a fresh chip) the
copy constraints hold for an instance vector iff the vector agrees with `cs` on rows
`0..|cs|` (rows beyond the vector are the zero padding of the instance polynomial). -/
theorem expose_binds (cs inst : List Nat) :
    Holds ((Chip.constrainAll {} cs).binds) inst ↔
      ∀ i, (h : i < cs.length) → inst.getD i 0 = cs[i] := by
  have h := (constrainAll_spec cs {}).2.1
  simp only [List.nil_append] at h
  rw [h]
  have := holds_zip_range' 0 cs inst
  simpa using this

/-- `expose_binds_exact`: together with the verifier's length check
(`pi.len() == vk.nb_public_inputs`, `zk_stdlib::verify`) the circuit is satisfied by exactly
one instance vector: the bound cells. With `cells_eq_encode` that vector is `encode v`. -/
theorem expose_binds_exact (cs inst : List Nat)
    (hlen : inst.length = (Chip.constrainAll {} cs).nbPublicInputs) :
    Holds ((Chip.constrainAll {} cs).binds) inst ↔ inst = cs := by
  have ho := (constrainAll_spec cs {}).1
  simp only [Chip.nbPublicInputs] at hlen
  rw [ho] at hlen
  simp only [Nat.zero_add] at hlen
  rw [expose_binds]
  constructor
  · exact eq_of_getD_eq inst cs hlen
  · rintro rfl i hi
    simp [List.getD, List.getElem?_eq_getElem hi]

/-- Non-vacuity and necessity of the length check: without it a longer vector also satisfies
the copy constraints (unconstrained rows), which is why the count is stored in the key. -/
example : Holds ((Chip.constrainAll {} [7, 8]).binds) [7, 8, 9] ∧
    ¬ Holds ((Chip.constrainAll {} [7, 8]).binds) [7, 9] := by
  constructor
  · rw [← holdsB_iff]; decide
  · rw [← holdsB_iff]; decide

/-- `nb_public_inputs_eq`: for a circuit exposing any sequence of values (mixed types, plain and
committed column, any entry points for which the exposure binds the encoding),
the counter recorded at key generation (`NativeChip::nb_public_inputs` → `MidnightVK`) equals the
length of `format_instance`, the bound rows are exactly `0..len` with the values of
`format_instance`, and the same holds for the committed column. -/
theorem nb_public_inputs_eq (steps : List (Path × Val)) (c : Chip)
    (h : exposeAll {} steps = some c) (hag : ∀ s ∈ steps, cells s.1 s.2 = encode s.2) :
    ∃ pl cm, formatInstance steps = some (pl, cm) ∧ c.nbPublicInputs = pl.length ∧
      c.binds = (List.range' 0 pl.length).zip pl ∧ c.comOffset = cm.length ∧
      c.comBinds = (List.range' 0 cm.length).zip cm := by
  obtain ⟨pl, cm, hf, h1, h2, h3, h4⟩ := exposeAll_spec steps {} c h hag
  exact ⟨pl, cm, hf, by simpa [Chip.nbPublicInputs] using h1, by simpa using h2,
    by simpa using h3, by simpa using h4⟩

/-- Non-vacuity: a mixed relation with a committed input. -/
example : (exposeAll {} [(.constrain, .bit true), (.committed, .native 9), (.assign, .fpoint "secp" none),
    (.constrain, .big 200 5)]).map (fun c => (c.nbPublicInputs, c.comOffset)) = some (12, 1) := by
  decide +kernel

/-- `instance_satisfies_iff`: end-to-end statement for a relation exposing `steps`: an instance
vector of the length the verifier insists on satisfies the exposure constraints iff it is
`format_instance` of the exposed values. -/
theorem instance_satisfies_iff (steps : List (Path × Val)) (c : Chip)
    (h : exposeAll {} steps = some c) (hag : ∀ s ∈ steps, cells s.1 s.2 = encode s.2)
    (inst : List Nat) (hlen : inst.length = c.nbPublicInputs) :
    ∃ pl cm, formatInstance steps = some (pl, cm) ∧ (Holds c.binds inst ↔ inst = pl) := by
  obtain ⟨pl, cm, hf, h1, h2, _, _⟩ := nb_public_inputs_eq steps c h hag
  refine ⟨pl, cm, hf, ?_⟩
  rw [h2]
  have := holds_zip_range' 0 pl inst
  rw [this]
  rw [h1] at hlen
  constructor
  · intro hh
    exact eq_of_getD_eq inst pl hlen (by simpa using hh)
  · rintro rfl i hi
    simp [List.getD, List.getElem?_eq_getElem hi]

/-- The honest vector is accepted and every single-position edit of it is rejected (the oracle
the harness evaluates on the real circuits), derived from the model's semantics. -/
theorem edits_rejected (q : Nat) (hq : 1 < q) (cs : List Nat) (hcs : ∀ x ∈ cs, x < q) :
    holdsB ((Chip.constrainAll {} cs).binds) cs = true ∧
    rejectedEdits q ((Chip.constrainAll {} cs).binds) cs = cs.length := by
  constructor
  · rw [holdsB_iff, expose_binds]
    intro i hi; simp [List.getD, List.getElem?_eq_getElem hi]
  · unfold rejectedEdits
    rw [List.filter_eq_self.mpr, List.length_range]
    intro i hi
    rw [List.mem_range] at hi
    rw [Bool.not_eq_true', ← Bool.not_eq_true, holdsB_iff, expose_binds]
    intro hh
    have := hh i hi
    unfold bump at this
    rw [List.getD, List.getElem?_modify_eq, List.getElem?_eq_getElem hi] at this
    simp only [Option.map_eq_map, Option.map_some, Option.getD_some] at this
    have hx := hcs cs[i] (List.getElem_mem hi)
    by_cases hlast : cs[i] + 1 = q
    · rw [hlast, Nat.mod_self] at this; omega
    · rw [Nat.mod_eq_of_lt (by omega)] at this; omega

example : rejectedEdits 11 ((Chip.constrainAll {} [3, 10]).binds) [3, 10] = 2 := by decide

/-! ## The verifier insists on the recorded number of raw public inputs -/

/-- `verifier_insists_on_count` (the property's last sentence, `zk_stdlib::verify`): if the key
was produced by `setup_vk` for a relation exposing `steps` and the length check of `verify` lets
a raw vector through, then its length is the length of `format_instance` of the exposed values,
which is the sum of the type-determined lengths `encLen` of the values exposed on the plain
column. -/
theorem verifier_insists_on_count (steps : List (Path × Val)) (vk : MidnightVK)
    (hvk : setupVk steps = some vk) (hag : ∀ s ∈ steps, cells s.1 s.2 = encode s.2)
    (pi : List Nat) (hacc : verifyGuard vk pi = true) :
    ∃ pl cm, formatInstance steps = some (pl, cm) ∧ pi.length = pl.length ∧
      plainLen steps = some pi.length := by
  simp only [setupVk, Option.map_eq_some_iff] at hvk
  obtain ⟨c, hc, rfl⟩ := hvk
  obtain ⟨pl, cm, hf, h1, _⟩ := nb_public_inputs_eq steps c hc hag
  rw [verifyGuard_iff] at hacc
  have hl : pi.length = pl.length := by rw [hacc, ← h1]
  exact ⟨pl, cm, hf, hl, by rw [hl]; exact formatInstance_plainLen steps pl cm hf⟩

/-- Non-vacuity: three native values, a key recording 3; vectors of length 2 and 4 are refused. -/
example : (setupVk [(.assign, .native 7), (.assign, .native 11), (.assign, .native 0)]).map
    (fun vk => (vk.nbPublicInputs, verifyGuard vk [7, 11, 0], verifyGuard vk [7, 11],
      verifyGuard vk [7, 11, 0, 0])) = some (3, true, false, false) := by decide +kernel

/-- The same for `zk_stdlib::batch_verify`: every (key, raw vector) pair of an accepted batch has
the recorded length (and the three slices have the same length). -/
theorem batch_verifier_insists_on_count (vks : List MidnightVK) (pis : List (List Nat)) (n : Nat)
    (hacc : batchVerifyGuard vks pis n = true) :
    pis.length = vks.length ∧ n = vks.length ∧
      ∀ i, (h₁ : i < vks.length) → (h₂ : i < pis.length) → pis[i].length = vks[i].nbPublicInputs := by
  rw [batchVerifyGuard_iff] at hacc
  obtain ⟨h1, h2, h3⟩ := hacc
  refine ⟨h1, h2, fun i hi₁ hi₂ => ?_⟩
  exact h3 (vks[i], pis[i]) (by
    rw [List.mem_iff_getElem]
    exact ⟨i, by simp only [List.length_zip]; omega, by simp⟩)

example : batchVerifyGuard [⟨3⟩, ⟨0⟩] [[1, 2, 3], []] 2 = true ∧
    batchVerifyGuard [⟨3⟩, ⟨0⟩] [[1, 2], []] 2 = false ∧
    batchVerifyGuard [⟨3⟩] [[1, 2, 3], []] 1 = false ∧
    batchVerifyGuard [⟨3⟩] [[1, 2, 3]] 2 = false := by decide

/-- The two entry points apply the same check (the seeded defect C08-2 made them disagree). -/
theorem verify_batch_guards_agree (vk : MidnightVK) (pi : List Nat) :
    batchVerifyGuard [vk] [pi] 1 = verifyGuard vk pi := by
  simp [batchVerifyGuard, verifyGuard]

/-- `verify_ok_iff`: for a key set up for `steps`, `verify` answers `Ok` on a raw vector `pi` with
a proof generated on the raw vector `proved` iff both are `format_instance` of the exposed
values (model of the PLONK layer: transcripts agree and the zero-padded instance satisfies the
copy constraints). -/
theorem verify_ok_iff (steps : List (Path × Val)) (c : Chip) (vk : MidnightVK)
    (hc : exposeAll {} steps = some c) (hvk : setupVk steps = some vk)
    (hag : ∀ s ∈ steps, cells s.1 s.2 = encode s.2) (proved pi : List Nat) :
    ∃ pl cm, formatInstance steps = some (pl, cm) ∧
      (verifyVerdict vk c.binds proved pi = .ok ↔ pi = pl ∧ proved = pl) := by
  simp only [setupVk, hc, Option.map_some, Option.some.injEq] at hvk
  subst hvk
  obtain ⟨pl, cm, hf, h1, _⟩ := nb_public_inputs_eq steps c hc hag
  refine ⟨pl, cm, hf, ?_⟩
  rw [verifyVerdict_ok_iff, verifyGuard_iff, holdsB_iff]
  constructor
  · rintro ⟨hlen, rfl, hh⟩
    obtain ⟨pl', cm', hf', hiff⟩ := instance_satisfies_iff steps c hc hag proved hlen
    rw [hf] at hf'
    obtain ⟨rfl, rfl⟩ : pl = pl' ∧ cm = cm' := by simpa using hf'
    exact ⟨hiff.mp hh, hiff.mp hh⟩
  · rintro ⟨rfl, rfl⟩
    obtain ⟨pl', cm', hf', hiff⟩ := instance_satisfies_iff steps c hc hag proved h1.symm
    rw [hf] at hf'
    obtain ⟨rfl, rfl⟩ : proved = pl' ∧ cm = cm' := by simpa using hf'
    exact ⟨h1.symm, rfl, hiff.mpr rfl⟩

example : verifyVerdict ⟨3⟩ ((Chip.constrainAll {} [7, 11, 0]).binds) [7, 11, 0] [7, 11, 0] = .ok ∧
    verifyVerdict ⟨3⟩ ((Chip.constrainAll {} [7, 11, 0]).binds) [7, 11] [7, 11] = .invalidInstances ∧
    verifyVerdict ⟨3⟩ ((Chip.constrainAll {} [7, 11, 0]).binds) [7, 11, 0] [7, 11, 1] = .rejected := by
  decide

/-! ### Why the comparison must be exact: zero padding of the instance column -/

/-- `instance_zero_padding`: the PLONK layer cannot tell a raw vector from the same vector followed
by zeros — the copy constraints read rows beyond the vector as zero (`Holds`), and the instance
evaluation `Σ instᵢ·lᵢ(x)` computed by `verify_algebraic_constraints` is the same. -/
theorem instance_zero_padding (binds : List (Nat × Nat)) (inst : List Nat) (k : Nat) :
    (Holds binds (inst ++ List.replicate k 0) ↔ Holds binds inst) ∧
    ∀ q ls, instanceEval q (inst ++ List.replicate k 0) ls = instanceEval q inst ls :=
  ⟨holds_append_zeros binds inst k, fun q ls => by
    unfold instanceEval; rw [innerProduct_append_zeros]⟩

/-- …but the transcript does tell them apart (the length is absorbed first), so a proof generated
for one is not a proof for the other: a truncated statement needs a prover who runs the protocol
on the truncated vector. -/
theorem absorb_distinguishes_length (a b : List Nat) :
    absorbInstance a = absorbInstance b ↔ a = b :=
  absorbInstance_inj a b

example : absorbInstance [7, 11] ≠ absorbInstance [7, 11, 0] := by decide

/-- `exact_count_needed`: for a relation whose formatted instance ends with a zero
(`pl = pl' ++ [0]`: the last exposed raw value is zero), the truncated vector `pl'` satisfies the
circuit's copy constraints as well and is a different vector; the weaker check
`pi.len() > nb ⇒ reject` (seeded defect C08-2) lets both through, the exact check of the code only
`pl`. Hence the exposure binds a unique vector only together with the exact comparison. -/
theorem exact_count_needed (steps : List (Path × Val)) (c : Chip) (vk : MidnightVK)
    (hc : exposeAll {} steps = some c) (hvk : setupVk steps = some vk)
    (hag : ∀ s ∈ steps, cells s.1 s.2 = encode s.2) (pl' cm : List Nat)
    (hf : formatInstance steps = some (pl' ++ [0], cm)) :
    Holds c.binds (pl' ++ [0]) ∧ Holds c.binds pl' ∧ pl' ≠ pl' ++ [0] ∧
    weakGuard vk pl' = true ∧ weakGuard vk (pl' ++ [0]) = true ∧
    verifyGuard vk pl' = false ∧ verifyGuard vk (pl' ++ [0]) = true := by
  simp only [setupVk, hc, Option.map_some, Option.some.injEq] at hvk
  subst hvk
  obtain ⟨pl, cm₂, hf₂, h1, _⟩ := nb_public_inputs_eq steps c hc hag
  rw [hf] at hf₂
  obtain ⟨rfl, rfl⟩ : pl' ++ [0] = pl ∧ cm = cm₂ := by simpa using hf₂
  obtain ⟨pl₃, cm₃, hf₃, hiff⟩ := instance_satisfies_iff steps c hc hag (pl' ++ [0]) h1.symm
  rw [hf] at hf₃
  obtain ⟨rfl, rfl⟩ : pl' ++ [0] = pl₃ ∧ cm = cm₃ := by simpa using hf₃
  have hfull : Holds c.binds (pl' ++ [0]) := hiff.mpr rfl
  have hlen : c.nbPublicInputs = pl'.length + 1 := by rw [h1]; simp
  refine ⟨hfull, (holds_append_zeros c.binds pl' 1).mp hfull, ?_, ?_, ?_, ?_, ?_⟩
  · intro h
    have := congrArg List.length h
    simp at this
  · rw [weakGuard_iff]; simp only []; omega
  · rw [weakGuard_iff]; simp only [List.length_append, List.length_singleton]; omega
  · rw [← Bool.not_eq_true, verifyGuard_iff]; simp only []; omega
  · rw [verifyGuard_iff]; simp only [List.length_append, List.length_singleton]; omega

/-- Non-vacuity (the relation of `seeded/C08-2/demo.rs` with witness `(7, 11, 0)`). -/
example : formatInstance [(.assign, .native 7), (.assign, .native 11), (.assign, .native 0)]
    = some ([7, 11] ++ [0], []) := by decide +kernel

/-! ### Jubjub scalars: the sharpest true statement (every bit-vector length) -/

/-- `cells_eq_encode_jscalar`: for a canonical Jubjub scalar `s < r` held by an in-circuit bit
vector of ANY length `n ≥ 1` that holds it (`assign`: 252, `assign_fixed`: minimal, `convert`:
255, `scalar_from_le_bytes`: 8·bytes), the exposure binds the off-circuit encoding `[s]` followed
by exactly `⌈n/254⌉ − 1` rows holding zero. This replaces the side condition of
`cells_eq_encode` for Jubjub scalars by an unconditional description. -/
theorem cells_eq_encode_jscalar (path : Path) (s : Nat) (hs : s < Gen.jubjubScalarModulus)
    (hpos : 1 ≤ scalarBitLen path s) (hfit : s < 2 ^ scalarBitLen path s) :
    ∃ e, encode (.jscalar s) = some e ∧ e = [s] ∧
      cells path (.jscalar s) =
        some (e ++ List.replicate (ceilDiv (scalarBitLen path s) scalarBatch - 1) 0) := by
  obtain ⟨h1, h2⟩ := cells_jscalar path s hs hpos hfit
  exact ⟨[s], h1, rfl, h2⟩

example : cells (.derived 64) (.jscalar 5) = some ([5] ++ [0, 0]) := by decide +kernel

/-- `jscalar_expose_agrees_iff`: the exposure of a canonical Jubjub scalar binds exactly the
off-circuit encoding IF AND ONLY IF its bit vector fits one batch of `F::NUM_BITS − 1 = 254` bits
(so: always for `assign`/`assign_as_public_input`/`assign_fixed` and for ≤ 31 bytes; never for
`convert` (255 bits) and for ≥ 32 bytes — the recorded finding `jscalar-exposure:bits>252`). -/
theorem jscalar_expose_agrees_iff (path : Path) (s : Nat) (hs : s < Gen.jubjubScalarModulus)
    (hpos : 1 ≤ scalarBitLen path s) (hfit : s < 2 ^ scalarBitLen path s) :
    cells path (.jscalar s) = encode (.jscalar s) ↔ scalarBitLen path s ≤ scalarBatch := by
  obtain ⟨h1, h2⟩ := cells_jscalar path s hs hpos hfit
  have hB : 1 ≤ scalarBatch := by unfold scalarBatch; have := native_facts; omega
  rw [h1, h2, ← ceilDiv_le_one_iff _ _ hB hpos]
  constructor
  · intro h
    have := congrArg (fun o => (o.getD []).length) h
    simpa using this
  · intro h
    rw [h]; rfl

/-- `jscalar_long_satisfied_but_miscounted`: what the finding amounts to. For a canonical scalar
with a long bit vector the honest raw vector `[s]` DOES satisfy the copy constraints (the extra
bound rows hold zero, and rows beyond the instance vector are zero), but the counter recorded in
the key is `⌈n/254⌉ ≠ 1 = |format_instance|`, so `zk_stdlib::verify` refuses every honest proof
with `InvalidInstances`. A repair that exposes only the first `NUM_BITS_SUBGROUP` bits and
constrains the remaining bits to zero changes no accepted statement. -/
theorem jscalar_long_satisfied_but_miscounted (path : Path) (s : Nat)
    (hs : s < Gen.jubjubScalarModulus) (hpos : 1 ≤ scalarBitLen path s)
    (hfit : s < 2 ^ scalarBitLen path s) (c : Chip)
    (hc : exposeAll {} [(path, .jscalar s)] = some c) (hp : path ≠ .committed) :
    Holds c.binds [s] ∧ c.nbPublicInputs = ceilDiv (scalarBitLen path s) scalarBatch ∧
    (scalarBatch < scalarBitLen path s → verifyGuard ⟨c.nbPublicInputs⟩ [s] = false) := by
  obtain ⟨_, h2⟩ := cells_jscalar path s hs hpos hfit
  have hB : 1 ≤ scalarBatch := by unfold scalarBatch; have := native_facts; omega
  simp only [exposeAll, exposeStep, h2, Option.map_some, hp, if_false, Option.bind_some,
    Option.some.injEq] at hc
  subst hc
  have hstep := ceilDiv_step (scalarBitLen path s) scalarBatch hB hpos
  have hlen : (Chip.constrainAll {} ([s] ++ List.replicate
      (ceilDiv (scalarBitLen path s) scalarBatch - 1) 0)).nbPublicInputs =
      ceilDiv (scalarBitLen path s) scalarBatch := by
    have := (constrainAll_spec ([s] ++ List.replicate
      (ceilDiv (scalarBitLen path s) scalarBatch - 1) 0) {}).1
    simp only [Chip.nbPublicInputs, this, List.length_append, List.length_singleton,
      List.length_replicate]
    omega
  refine ⟨?_, hlen, ?_⟩
  · have hself : ∀ cs : List Nat, Holds (Chip.constrainAll {} cs).binds cs := fun cs =>
      (expose_binds cs cs).mpr (fun i hi => by simp [List.getD, List.getElem?_eq_getElem hi])
    exact (holds_append_zeros _ [s] _).mp (hself _)
  · intro hlong
    rw [hlen, ← Bool.not_eq_true, verifyGuard_iff]
    have hne : ¬ (ceilDiv (scalarBitLen path s) scalarBatch - 1 = 0) := fun h =>
      absurd ((ceilDiv_le_one_iff _ _ hB hpos).mp h) (by omega)
    simp only [List.length_singleton]
    omega

example : (exposeAll {} [(.derived 32, .jscalar 1)]).map
    (fun c => (holdsB c.binds [1], c.nbPublicInputs)) = some (true, 2) := by decide +kernel

/-! ### BigUint: the declared bound is checked against the derived one -/

/-- `biguint_declared_bound_checked`: `BigUintGadget::constrain_as_public_input(x, nb_bits)`
refuses (`Err(Synthesis)`) every declared bound other than the one derived from the limb bounds
of `x` (`AssignedBigUint::nb_bits`); for `x = assign_biguint(_, nb)` the derived bound is `nb`
itself (for every `nb ≥ 1` and the limb size of `biguint/types.rs`), so the exposure goes ahead
iff the declared bound is the assignment bound — the bound the verifier must call the
off-circuit encoder with (`biguint_expose_agrees`). -/
theorem biguint_declared_bound_checked (nb declared : Nat) (hnb : 1 ≤ nb) :
    bigExposeGuard Gen.bigLog2Base (assignBounds Gen.bigLog2Base nb) declared = true ↔
      declared = nb := by
  have f := native_facts
  unfold bigExposeGuard
  rw [nbBitsOf_assignBounds _ nb f.2.2.2.2.2.2.2.2.1 hnb]
  simp

example : bigExposeGuard 96 (assignBounds 96 97) 97 = true ∧
    bigExposeGuard 96 (assignBounds 96 97) 192 = false ∧
    bigExposeGuard 96 (assignBounds 96 97) 96 = false := by decide +kernel

/-! ## Several handles on the native chip (clones held by gadgets), both instance columns -/

/-- `counters_shared_across_handles`: `NativeChip` is cloned into every gadget
(`NativeGadget::new`, `ForeignEccChip::new`, `VerifierGadget::new`, …) and its two instance-row
counters are `Rc<RefCell<usize>>`, i.e. every clone references the same two cells (`sharedEnv`).
Then the state is threaded through the whole synthesis: the rows bound on BOTH columns are a
function of the sequence of exposed items only — two circuits exposing the same sequence
through any two assignments of handles bind the same rows to the same cells, namely those of
the handle-free two-counter machine `exposeItems`. -/
theorem counters_shared_across_handles (steps steps' : List (Handle × HItem))
    (hseq : steps.map (·.2) = steps'.map (·.2)) :
    (exposeVia sharedEnv {} steps).map (Synth.view NChip.new)
        = exposeItems {} (steps.map (·.2)) ∧
    (exposeVia sharedEnv {} steps).map (Synth.view NChip.new)
        = (exposeVia sharedEnv {} steps').map (Synth.view NChip.new) := by
  have hne : NChip.new.plainRef ≠ NChip.new.comRef := by decide
  have e1 := exposeVia_view sharedEnv NChip.new (fun _ => rfl) hne steps {}
  have e2 := exposeVia_view sharedEnv NChip.new (fun _ => rfl) hne steps' {}
  rw [view_init] at e1 e2
  exact ⟨e1, by rw [e1, e2, hseq]⟩

/-- The same for ANY system of handles that reference one pair of distinct cells (whatever the
cells are and whatever the state of the synthesis when the exposures start). -/
theorem counters_shared_general (env : Handle → NChip) (h0 : NChip) (henv : ∀ h, env h = h0)
    (hne : h0.plainRef ≠ h0.comRef) (s : Synth) (steps : List (Handle × HItem)) :
    (exposeVia env s steps).map (Synth.view h0) = exposeItems (s.view h0) (steps.map (·.2)) :=
  exposeVia_view env h0 henv hne steps s

/-- `handles_rows_consecutive`: exposing any interleaving of items through any handles binds, on
the plain column, rows `0, 1, 2, …` to the concatenated plain cells of the items in order, and
on the committed column rows `0, 1, 2, …` to the concatenated committed cells: no row is bound
twice, none is skipped, the two columns count independently. -/
theorem handles_rows_consecutive (steps : List (Handle × HItem)) (s : Synth)
    (h : exposeVia sharedEnv {} steps = some s) :
    ∃ pl cm, hcellsAll (steps.map (·.2)) = some (pl, cm) ∧
      s.store NChip.new.plainRef = pl.length ∧ s.binds = (List.range' 0 pl.length).zip pl ∧
      s.store NChip.new.comRef = cm.length ∧ s.comBinds = (List.range' 0 cm.length).zip cm := by
  have e := (counters_shared_across_handles steps steps rfl).1
  rw [h, Option.map_some] at e
  obtain ⟨pl, cm, hf, h1, h2, h3, h4⟩ := exposeItems_spec _ {} _ e.symm
  exact ⟨pl, cm, hf, by simpa [Synth.view] using h1, by simpa [Synth.view] using h2,
    by simpa [Synth.view] using h3, by simpa [Synth.view] using h4⟩

/-- One step exposes its off-circuit encoding on both columns, when the typed value does
(`cells_eq_encode`); for accumulators (plain and with committed scalars) unconditionally. -/
theorem handle_step_agrees (it : HItem)
    (h : ∀ p v, it = .val p v → cells p v = encode v) : hcells it = henc it := by
  cases it with
  | val p v => simp [hcells, henc, h p v rfl]
  | acc c l r =>
    cases hP : curveParams "bls" with
    | none => cases c <;> simp [hcells, henc, hP]
    | some P =>
      have hp : paramsOf "bls_base" = some P := by
        have : curveParams "bls" = paramsOf "bls_base" := by decide +kernel
        rw [← this, hP]
      obtain ⟨_, _, hq, hn⟩ := params_sound "bls_base" P hp
      cases c
      · simp [hcells, henc, hP, cellsAcc_eq q P hq hn]
      · simp [hcells, henc, hP, cellsAccCommitted_eq q P hq hn]

/-- `handles_instance_satisfies_iff`: end-to-end for a circuit exposing `steps` through any
handles, with instance columns `(committed, plain)` of the lengths of the encodings: both
columns' copy constraints hold iff the pair is exactly (concatenated committed encoders,
concatenated plain encoders) — what `MockProver` is asked on every run, with every
single-position edit of either column. -/
theorem handles_instance_satisfies_iff (steps : List (Handle × HItem)) (s : Synth)
    (h : exposeVia sharedEnv {} steps = some s)
    (hag : hcellsAll (steps.map (·.2)) = hencAll (steps.map (·.2)))
    (pi ci : List Nat) (hpl : pi.length = s.store NChip.new.plainRef)
    (hcl : ci.length = s.store NChip.new.comRef) :
    ∃ pl cm, hencAll (steps.map (·.2)) = some (pl, cm) ∧
      ((Holds s.binds pi ∧ Holds s.comBinds ci) ↔ (pi = pl ∧ ci = cm)) := by
  obtain ⟨pl, cm, hf, h1, h2, h3, h4⟩ := handles_rows_consecutive steps s h
  refine ⟨pl, cm, by rw [← hag, hf], ?_⟩
  rw [h2, h4, holds_range_zip_iff pl pi (by omega), holds_range_zip_iff cm ci (by omega)]

/-- Non-vacuity and witness (`per_handle_counters_collide`): the circuit of seeded/C08-4/demo.rs
(committed `5` through the chip, `6` through the gadget, `7` through the chip). With the shared
counters the committed rows are `0, 1, 2` and the honest committed vector is accepted; with one
committed counter per clone (`perHandleEnv`: what `RefCell<usize>` by value gives) `5` and `6`
are both bound to row 0, `7` to row 1, row 2 is free and the honest vector `[5, 6, 7]` is
rejected. -/
theorem per_handle_counters_collide :
    let steps := [(Handle.chip, HItem.val .committed (.native 5)),
      (Handle.gadget, HItem.val .committed (.native 6)), (Handle.chip, HItem.val .committed (.native 7))]
    (exposeVia sharedEnv {} steps).map (·.comBinds) = some [(0, 5), (1, 6), (2, 7)] ∧
    (exposeVia sharedEnv {} steps).map (fun s => holdsB s.comBinds [5, 6, 7]) = some true ∧
    (exposeVia perHandleEnv {} steps).map (·.comBinds) = some [(0, 5), (0, 6), (1, 7)] ∧
    (exposeVia perHandleEnv {} steps).map (fun s => holdsB s.comBinds [5, 6, 7]) = some false := by
  decide +kernel

/-- With one committed counter per clone, ANY two committed cells exposed through two different
handles are bound to the same row 0 (so the circuit forces them equal and leaves row 1 free). -/
theorem per_handle_first_rows_collide (h1 h2 : Handle) (hne : h1 ≠ h2) (a b : Nat) :
    ((({} : Synth).constrainCommitted (perHandleEnv h1) a).constrainCommitted (perHandleEnv h2) b).comBinds
      = [(0, a), (0, b)] := by
  cases h1 <;> cases h2 <;> first | (exact absurd rfl hne) | rfl

/-- … whereas through the real (shared) handles they get rows 0 and 1. -/
theorem shared_first_rows_consecutive (h1 h2 : Handle) (a b : Nat) :
    ((({} : Synth).constrainCommitted (sharedEnv h1) a).constrainCommitted (sharedEnv h2) b).comBinds
      = [(0, a), (1, b)] := rfl

/-! ## The committed instance at the verifier -/

/-- `commit_to_instances` writes the vector into a zero column: trailing zeros do not change
the commitment. Unlike the plain column (`exact_count_needed`) there is no recorded count for
the committed column, so `[c₀, …, c_k]` and `[c₀, …, c_k, 0]` are the same committed instance
for the verifier (observed on real proofs: `pad0=ok`). -/
theorem commitKey_append_zeros (v : List Nat) (k : Nat) :
    commitKey (v ++ List.replicate k 0) = commitKey v := commitKey_append_zeros_aux v k

/-- `verify_committed_ok_iff`: `zk_stdlib::verify` with `committed_instance = cm` accepts iff
the plain vector has the recorded length and is the proved one, the commitment is the one of
the proved committed column (`None` = commitment to the zero column), and both columns satisfy
their copy constraints. -/
theorem verify_committed_ok_iff (vk : MidnightVK) (b cb : List (Nat × Nat))
    (pp pc pi : List Nat) (cm : Option (List Nat)) :
    verifyCommittedVerdict vk b cb pp pc pi cm = .ok ↔
      pi.length = vk.nbPublicInputs ∧ pp = pi ∧ commitKey pc = cm.getD (commitKey []) ∧
        Holds b pi ∧ Holds cb pc := by
  rw [verifyCommittedVerdict_ok_iff, verifyGuard_iff, holdsB_iff, holdsB_iff]

example : verifyCommittedVerdict ⟨1⟩ [(0, 7)] [(0, 9), (1, 0)] [7] [9, 0] [7] (some (commitKey [9])) = .ok ∧
    verifyCommittedVerdict ⟨1⟩ [(0, 7)] [(0, 9), (1, 0)] [7] [9, 0] [7] none = .rejected ∧
    verifyCommittedVerdict ⟨1⟩ [(0, 7)] [(0, 9), (1, 0)] [7] [9, 0] [7, 0] (some [9]) = .invalidInstances := by
  decide

/-! ## Fixed-base names: `AssignedMsm::assign` rebuilds the off-circuit `BTreeMap` -/

/-- `assign_fixed_consistent`: the off-circuit `Msm` holds its fixed-base scalars in a
`BTreeMap` (key order); `AssignedMsm::assign` is handed the caller's name list in ANY order
(`verifier::fixed_base_names` is not lexicographic beyond 10 commitments), takes the values in
key order, sorts the names and zips. If the map's keys are the sorted names (the caller names
exactly the fixed bases of the MSM), the in-circuit map IS the off-circuit map: every scalar
stays attached to its own name, so the exposure (`.values()`) lists the scalars in the order of
the off-circuit encoder. For any strict order that is asymmetric. -/
theorem assign_fixed_consistent {κ α : Type} (lt : κ → κ → Bool)
    (hasym : ∀ a b, lt a b = true → lt b a = false) (names : List κ) (off : List (κ × α))
    (hs : off.Pairwise (fun a b => lt a.1 b.1 = true)) (hkeys : off.map (·.1) = isort lt names) :
    assignFixed lt names off = off := by
  unfold assignFixed
  rw [← hkeys, zip_fst_snd, btree_of_sorted lt hasym off hs]

/-- The order of Rust's `String` keys is asymmetric (so the theorem above applies to it). -/
theorem strLt_asymm (a b : String) (h : strLt a b = true) : strLt b a = false := by
  simp only [strLt, decide_eq_true_eq, decide_eq_false_iff_not] at *
  exact String.lt_asymm h

/-- Non-vacuity on the library's own names, and the witness of seeded defect C08-3: with 11 fixed
commitments `vk_fixed_com_10` sorts before `vk_fixed_com_2`; with the sort the map is rebuilt,
without it the scalars are attached to other names (a permuted public-input vector). -/
theorem assign_without_sort_permutes :
    ("vk_fixed_com_10" < "vk_fixed_com_2") ∧
    assignFixed strLt ["-G", "vk_fixed_com_2", "vk_fixed_com_10"]
        [("-G", 1), ("vk_fixed_com_10", 2), ("vk_fixed_com_2", 3)]
      = [("-G", 1), ("vk_fixed_com_10", 2), ("vk_fixed_com_2", 3)] ∧
    assignFixedNoSort strLt ["-G", "vk_fixed_com_2", "vk_fixed_com_10"]
        [("-G", 1), ("vk_fixed_com_10", 2), ("vk_fixed_com_2", 3)]
      = [("-G", 1), ("vk_fixed_com_10", 3), ("vk_fixed_com_2", 2)] := by
  decide

/-- `exposeAll_eq_exposeItems`: the relation-level machine of the earlier theorems
(`nb_public_inputs_eq`, `instance_satisfies_iff`, `verify_ok_iff`, … — a `Relation::circuit`
exposing typed values through `ZkStdLib`, which dispatches to `native_gadget`, `jubjub()`,
`secp256k1_curve()`, `biguint()`, …, each holding its own clone of the native chip) is the
handle-free machine on the same items, hence by `counters_shared_across_handles` the synthesis
through ANY assignment of those chip handles. -/
theorem exposeAll_eq_exposeItems : ∀ (steps : List (Path × Val)) (c : Chip),
    exposeAll c steps = exposeItems c (steps.map (fun s => HItem.val s.1 s.2))
  | [], _ => rfl
  | (p, v) :: rest, c => by
    simp only [exposeAll, exposeItems, List.map_cons, exposeStep, hcells]
    cases hc : cells p v with
    | none => simp
    | some cs =>
      by_cases hp : p = .committed
      · simp [hp, Chip.constrainAll, exposeAll_eq_exposeItems rest]
      · simp [hp, Chip.constrainAllCommitted, exposeAll_eq_exposeItems rest]

/-- Corollary: a relation's counters and bound rows do not depend on which chip handle each
step goes through. -/
theorem relation_handles_irrelevant (steps : List (Path × Val)) (hs : List Handle)
    (hl : hs.length = steps.length) :
    (exposeVia sharedEnv {} (hs.zip (steps.map (fun s => HItem.val s.1 s.2)))).map (Synth.view NChip.new)
      = exposeAll {} steps := by
  rw [exposeAll_eq_exposeItems, (counters_shared_across_handles _ _ rfl).1]
  congr 1
  rw [List.map_snd_zip]
  simp [hl]

/-! ## The shape of `NativeChip` in the current source (regenerated on every run) -/

/-- `code_env_shared`: over the definitions the translator `c08_chip.py` extracted from
`native_chip.rs` now — `NativeChip` derives `Clone` (no hand-written impl), both counters are
`Rc<RefCell<usize>>`, `constrain_as_public_input` reads-then-increments (by 1) its own counter and
binds column `instance_col`, `constrain_as_committed_public_input` reads-then-increments (by 1) a
DIFFERENT counter and binds `committed_instance_col`, `nb_public_inputs` reads the plain counter —
every handle references the same pair of distinct cells. Seeded defect C08-4 (a by-value
`RefCell<usize>`) breaks this theorem. -/
theorem code_env_shared :
    (∀ h, codeEnv h = codeEnv .chip) ∧ (codeEnv .chip).plainRef ≠ (codeEnv .chip).comRef ∧
    Gen.plainExposure.2 = ("instance_col", 1) ∧
    Gen.committedExposure.2 = ("committed_instance_col", 1) ∧
    Gen.nbPublicInputsField = Gen.plainExposure.1 := by
  refine ⟨fun h => ?_, by decide +kernel, by decide +kernel, by decide +kernel, by decide +kernel⟩
  cases h <;> decide +kernel

/-- `code_handles_threaded`: hence for the chip as the source has it now, a synthesis exposing
any interleaving of items through any handles is the two-counter machine on the items alone
(rows consecutive on both columns: `handles_rows_consecutive` through `exposeItems_spec`). -/
theorem code_handles_threaded (steps : List (Handle × HItem)) :
    (exposeVia codeEnv {} steps).map (Synth.view (codeEnv .chip))
      = exposeItems {} (steps.map (·.2)) :=
  counters_shared_general codeEnv (codeEnv .chip) code_env_shared.1 code_env_shared.2.1 {} steps

/-- If every step exposes its encoding (`handle_step_agrees`), the concatenated bound cells are
the concatenated encoders: discharges the hypothesis of `handles_instance_satisfies_iff`. -/
theorem hcellsAll_eq_hencAll : ∀ (items : List HItem), (∀ it ∈ items, hcells it = henc it) →
    hcellsAll items = hencAll items
  | [], _ => rfl
  | it :: rest, h => by
    simp only [hcellsAll, hencAll, h it (by simp),
      hcellsAll_eq_hencAll rest (fun i hi => h i (by simp [hi]))]

/-- `handles_edits_rejected`: the oracle the harness evaluates on the multi-handle circuits,
derived from the model: after exposing any interleaving through any handles, the vectors of
bound cells `(cm, pl)` satisfy both columns and every single-position edit (+1) of either
column violates that column's copy constraints. -/
theorem handles_edits_rejected (steps : List (Handle × HItem)) (s : Synth)
    (h : exposeVia sharedEnv {} steps = some s) :
    ∃ pl cm, hcellsAll (steps.map (·.2)) = some (pl, cm) ∧
      ((∀ x ∈ pl, x < q) → holdsB s.binds pl = true ∧ rejectedEdits q s.binds pl = pl.length) ∧
      ((∀ x ∈ cm, x < q) → holdsB s.comBinds cm = true ∧ rejectedEdits q s.comBinds cm = cm.length) := by
  obtain ⟨pl, cm, hf, _, h2, _, h4⟩ := handles_rows_consecutive steps s h
  have hq : 1 < q := by decide +kernel
  have b (cs : List Nat) : (Chip.constrainAll {} cs).binds = (List.range' 0 cs.length).zip cs := by
    have := (constrainAll_spec cs {}).2.1
    simpa using this
  refine ⟨pl, cm, hf, fun hx => ?_, fun hx => ?_⟩
  · rw [h2, ← b pl]; exact edits_rejected q hq pl hx
  · rw [h4, ← b cm]; exact edits_rejected q hq cm hx

example : (exposeVia sharedEnv {} [(.chip, .val .committed (.native 5)), (.gadget, .val .constrain (.bit true)),
    (.eccsc, .val .committed (.byte 9))]).map (fun s => (s.binds, s.comBinds)) =
    some ([(0, 1)], [(0, 5), (1, 9)]) := by decide +kernel

/-- … and then the honest committed vector `[a, b]` is rejected unless the two values happen to
be equal (and when they are, row 1 is free: the edit of position 1 is accepted — both symptoms
are what the harness observes under seeded defect C08-4). -/
theorem per_handle_rejects_honest (h1 h2 : Handle) (hne : h1 ≠ h2) (a b : Nat) (hab : a ≠ b) :
    holdsB ((({} : Synth).constrainCommitted (perHandleEnv h1) a).constrainCommitted (perHandleEnv h2) b).comBinds
      [a, b] = false := by
  rw [per_handle_first_rows_collide h1 h2 hne a b]
  simp [holdsB, hab]

theorem per_handle_leaves_row_free (h1 h2 : Handle) (hne : h1 ≠ h2) (a x : Nat) :
    holdsB ((({} : Synth).constrainCommitted (perHandleEnv h1) a).constrainCommitted (perHandleEnv h2) a).comBinds
      [a, x] = true := by
  rw [per_handle_first_rows_collide h1 h2 hne a a]
  simp [holdsB]

end MidnightZK.C08
