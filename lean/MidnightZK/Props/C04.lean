import MidnightZK.Proofs.C04.Gates
import MidnightZK.Proofs.C04.Sound2
import MidnightZK.Proofs.C04.Bool
import MidnightZK.Proofs.C04.Range2
import MidnightZK.Proofs.C04.DivRem
import MidnightZK.Proofs.C04.Complete
import MidnightZK.Proofs.C04.Bytes
import MidnightZK.Proofs.C04.Opt
import MidnightZK.Proofs.C04.Invariant
import MidnightZK.Proofs.C04.Extra
import MidnightZK.Proofs.C04.Complete2
import MidnightZK.Proofs.C04.Tight
import MidnightZK.Proofs.C04.Vector
import MidnightZK.Proofs.C04.Map
import MidnightZK.Proofs.C04.VecTrim
/-!
# C04 — native-field gadgets are complete and sound w.r.t. their mathematical meaning

The theorems quantify over EVERY field `F`, EVERY assignment `asg : Cell → F` of the advice cells
(honest or adversarial), every synthesis state `s` the operation may be emitted into (any
earlier regions, any content of the constant cache that the earlier constraints justify:
`s.CacheOK asg`), and every value of the operation's constants. `R` is the table-membership
predicate of the pow2range lookup. `St.Holds R s' asg` says that `asg` satisfies every gate on
every row, every lookup and every copy constraint of the circuit built so far.

The emitters (`MidnightZK/Model/C04/*.lean`) are compared, region by region and cell by cell,
with the recorded real synthesis on every run; the gate polynomials are regenerated from the
real `configure` on every run (`Gen/C04Gates.lean`).
-/
namespace MidnightZK.C04
open Lean.Grind
attribute [local instance] Semiring.natCast
set_option linter.unusedSectionVars false

variable {F : Type} [Field F] [DecidableEq F]
variable {R : Nat → F → Prop}

/-! ## The generated gates are the gates of the model -/

/-- The polynomial of `arith_gate` dumped from the real `NativeChip::configure` is
`q_arith · (k + Σ cᵢ·vᵢ + q_next·v₀(ωX) + m_ab·v₀·v₁ + m_ac·v₀·v₂)` with the column layout the
model assumes. -/
theorem arith_gate_eq (env : Env F) :
    Gen.arith_gate_0.eval env = env.sel 0 * (env.fixed 3 0 + env.fixed 4 0 * env.adv 0 0
      + env.fixed 5 0 * env.adv 1 0 + env.fixed 6 0 * env.adv 2 0 + env.fixed 7 0 * env.adv 3 0
      + env.fixed 8 0 * env.adv 4 0 + env.fixed 0 0 * env.adv 0 1
      + env.fixed 1 0 * env.adv 0 0 * env.adv 1 0 + env.fixed 2 0 * env.adv 0 0 * env.adv 2 0) :=
  arith_gate_eval env

/-- The dumped `12_minus_34` gate is `q·(v₁ + v₂ − v₃ − v₄)`. -/
theorem gate_12_minus_34_eq (env : Env F) :
    Gen.g_12_minus_34_0.eval env
      = env.sel 1 * (env.adv 1 0 + env.adv 2 0 - env.adv 3 0 - env.adv 4 0) :=
  g1234_gate_eval env

/-- The dumped `parallel_add_gate` is `q·(vᵢ + cᵢ − vᵢ(ωX))` on the first three columns. -/
theorem parallel_add_gate_eq (env : Env F) :
    Gen.parallel_add_gate_0.eval env = env.sel 2 * (env.adv 0 0 + env.fixed 4 0 - env.adv 0 1) ∧
    Gen.parallel_add_gate_1.eval env = env.sel 2 * (env.adv 1 0 + env.fixed 5 0 - env.adv 1 1) ∧
    Gen.parallel_add_gate_2.eval env = env.sel 2 * (env.adv 2 0 + env.fixed 6 0 - env.adv 2 1) :=
  par_add_gate_eval env

/-- On every row of every region, *all* generated gate polynomials vanish (under the selectors
and fixed cells the model writes on that row) iff the model's closed-form row predicate holds:
`St.Holds` is a statement about the real gates. -/
theorem gates_match_model (asg : Cell → F) (k off : Nat) (row : Row F) :
    (∀ g ∈ (Gen.gates : List (Expr F)), g.eval (rowEnv asg k off row) = 0)
      ↔ row.gatesHold asg k off :=
  gates_iff_gatesHold asg k off row

/-- The dumped lookup arguments are `(tag_col, q_pow2range · vᵢ)` for `i = 1..nr` looked up in
the two table columns, for every supported number of pow2range columns. -/
theorem lookups_match_model (env : Env F) :
    (Gen.lookups1.map (fun l => l.inputs.map (Expr.eval env))) =
      [[env.fixed tagCol 0, env.sel 3 * env.adv 1 0]] ∧
    (Gen.lookups2.map (fun l => l.inputs.map (Expr.eval env))) =
      [[env.fixed tagCol 0, env.sel 3 * env.adv 1 0], [env.fixed tagCol 0, env.sel 3 * env.adv 2 0]] ∧
    (Gen.lookups3.map (fun l => l.inputs.map (Expr.eval env))) =
      [[env.fixed tagCol 0, env.sel 3 * env.adv 1 0], [env.fixed tagCol 0, env.sel 3 * env.adv 2 0],
       [env.fixed tagCol 0, env.sel 3 * env.adv 3 0]] ∧
    (Gen.lookups4.map (fun l => l.inputs.map (Expr.eval env))) =
      [[env.fixed tagCol 0, env.sel 3 * env.adv 1 0], [env.fixed tagCol 0, env.sel 3 * env.adv 2 0],
       [env.fixed tagCol 0, env.sel 3 * env.adv 3 0], [env.fixed tagCol 0, env.sel 3 * env.adv 4 0]] := by
  simp [Gen.lookups1, Gen.lookups2, Gen.lookups3, Gen.lookups4, Expr.eval, tagCol]

/-- The native modulus dumped from the running code has the bit length the code declares. -/
theorem native_modulus_bits : Gen.nativeModulus.log2 + 1 = Gen.nativeNumBits ∧
    Gen.nativeModulus % 2 = 1 := by decide +kernel

/-! ## Constraints are only ever added -/

/-- Whatever is emitted later, an assignment accepted by the final circuit satisfies the
constraints of every earlier operation (shown here for the operations used as building
blocks; each `_sound` theorem below is therefore valid in any context). -/
theorem emitters_only_add_constraints (s : St F) (x y : Cell) (c : F) (terms : List (F × Cell)) :
    s.Ext (linearCombination s terms c).2 ∧ s.Ext (mul s x y (some c)).2 ∧
    s.Ext (isEqual s x y).2 ∧ s.Ext (isEqualToFixed s x c).2 ∧ s.Ext (inv0 s x).2 ∧
    s.Ext (div s x y).2 ∧ s.Ext (condSwap s x x y).2 ∧ s.Ext (lowerThan s x 8 y 8).2 :=
  ⟨linearCombination_ext .., mul_ext .., isEqual_ext .., isEqualToFixed_ext .., inv0_ext ..,
   div_ext .., condSwap_ext .., lowerThan_ext ..⟩

/-! ## Arithmetic -/

/-- `linear_combination` (hence `add`, `sub`, `neg`, `add_constant`, `mul_by_constant`,
`not`, recomposition from bits/bytes): for EVERY number of terms, if the `q_next` chain of
`assign_linear_combination_aux` is satisfied then the result cell equals `k + Σ cᵢ·xᵢ`. -/
theorem linear_combination_sound (s : St F) (terms : List (F × Cell)) (k : F) (asg : Cell → F)
    (hc : s.CacheOK asg) (h : (linearCombination s terms k).2.Holds R asg) :
    asg (linearCombination s terms k).1 = k + termSum asg terms :=
  (linearCombination_sound s terms k asg hc h).2.2

/-- The chain itself, for every pow2range column count `1..4` as well (it is the recomposition
identity of `decompose_core`). -/
theorem lc_chain_sound (asg : Cell → F) (nr k cu : Nat) (h0 : 0 < cu) (h4 : cu ≤ 4)
    (coeffs : List F) (const : F) (off : Nat)
    (h : rowsHold R nr asg k off (lcRows cu coeffs const)) :
    asg (advc k off 0) = const + lcSum asg cu k off coeffs 0 :=
  lcRows_sound asg nr k cu h0 h4 coeffs const off h

/-- `add`, `sub`, `neg`. -/
theorem add_sub_neg_sound (s : St F) (x y : Cell) (asg : Cell → F) (hc : s.CacheOK asg) :
    ((add s x y).2.Holds R asg → asg (add s x y).1 = asg x + asg y) ∧
    ((sub s x y).2.Holds R asg → asg (sub s x y).1 = asg x - asg y) ∧
    ((neg s x).2.Holds R asg → asg (neg s x).1 = - asg x) :=
  ⟨fun h => (add_sound s x y asg hc h).2, fun h => (sub_sound s x y asg hc h).2,
   fun h => (neg_sound s x asg hc h).2⟩

/-- `add_constant`, `mul_by_constant` with their shortcuts for the constants 0 and 1. -/
theorem add_mul_constant_sound (s : St F) (x : Cell) (c : F) (asg : Cell → F) (hc : s.CacheOK asg) :
    ((addConstant s x c).2.Holds R asg → asg (addConstant s x c).1 = asg x + c) ∧
    ((mulByConstant s x c).2.Holds R asg → asg (mulByConstant s x c).1 = c * asg x) :=
  ⟨fun h => (addConstant_sound s x c asg hc h).2, fun h => (mulByConstant_sound s x c asg hc h).2⟩

/-- `add_and_mul` / `add_and_double_mul`: one row of the arithmetic gate. -/
theorem add_and_double_mul_sound (s : St F) (a : F) (x : Cell) (b : F) (y : Cell) (c : F) (z : Cell)
    (k m1 m2 : F) (asg : Cell → F) (hc : s.CacheOK asg)
    (h : (addAndDoubleMul s a x b y c z k m1 m2).2.Holds R asg) :
    asg (addAndDoubleMul s a x b y c z k m1 m2).1
      = a * asg x + b * asg y + c * asg z + k + m1 * asg x * asg y + m2 * asg x * asg z :=
  (addAndDoubleMul_sound s a x b y c z k m1 m2 asg hc h).2

/-- `mul` (and `square`, `pow`, `and`): `out = k·x·y`, whichever of the shortcuts through the
constant cache is taken. -/
theorem mul_sound' (s : St F) (x y : Cell) (k : Option F) (asg : Cell → F) (hc : s.CacheOK asg)
    (h : (mul s x y k).2.Holds R asg) : asg (mul s x y k).1 = k.getD 1 * asg x * asg y :=
  (mul_sound s x y k asg hc h).2

/-- `inv`: no assignment of the hint makes the circuit accept unless `x·out = 1`; in particular
`x = 0` is unsatisfiable. -/
theorem inv_sound' (s : St F) (x : Cell) (asg : Cell → F) (hc : s.CacheOK asg)
    (h : (inv s x).2.Holds R asg) : asg x * asg (inv s x).1 = 1 ∧ asg x ≠ 0 := by
  have := (inv_sound s x asg hc h).2
  exact ⟨this, fun h0 => by rw [h0] at this; grind⟩

/-- `div`: `y·out = x` and `y ≠ 0`. -/
theorem div_sound' (s : St F) (x y : Cell) (asg : Cell → F) (hc : s.CacheOK asg)
    (h : (div s x y).2.Holds R asg) : asg y * asg (div s x y).1 = asg x ∧ asg y ≠ 0 :=
  (div_sound s x y asg hc h).2

/-- `inv0`: the output is the field inverse of `x`, and `0` for `x = 0`. -/
theorem inv0_sound' (s : St F) (x : Cell) (asg : Cell → F) (hc : s.CacheOK asg)
    (h : (inv0 s x).2.Holds R asg) : asg (inv0 s x).1 = (asg x)⁻¹ :=
  (inv0_sound s x asg hc h).2

/-! ## Assertions -/

/-- `assert_equal`, `assert_not_equal`, `assert_equal_to_fixed`, `assert_not_equal_to_fixed`
(hence `assert_zero`, `assert_non_zero`): satisfiable only when the asserted relation holds. -/
theorem assertions_sound (s : St F) (x y : Cell) (c : F) (asg : Cell → F) (hc : s.CacheOK asg) :
    ((assertEqual s x y).Holds R asg → asg x = asg y) ∧
    ((assertNotEqual s x y).Holds R asg → asg x ≠ asg y) ∧
    ((assertEqualToFixed s x c).Holds R asg → asg x = c) ∧
    ((assertNotEqualToFixed s x c).Holds R asg → asg x ≠ c) :=
  ⟨fun h => (assertEqual_sound s x y asg hc h).2, fun h => (assertNotEqual_sound s x y asg hc h).2,
   fun h => (assertEqualToFixed_sound s x c asg hc h).2,
   fun h => (assertNotEqualToFixed_sound s x c asg hc h).2⟩

/-- `assign` of a bit: the cell is 0 or 1 for every accepted assignment. -/
theorem assign_bit_sound (s : St F) (asg : Cell → F) (hc : s.CacheOK asg)
    (h : (assignBit s).2.Holds R asg) : asg (assignBit s).1 = 0 ∨ asg (assignBit s).1 = 1 :=
  (assignBit_sound s asg hc h).2

/-! ## Zero and equality tests (two-equation hint pattern) -/

/-- `is_equal`: for every value of the hint `aux`, the output is the bit `[x = y]`. -/
theorem is_equal_sound (s : St F) (x y : Cell) (asg : Cell → F) (hc : s.CacheOK asg)
    (h : (isEqual s x y).2.Holds R asg) :
    asg (isEqual s x y).1 = if asg x = asg y then 1 else 0 := by
  rcases (isEqual_sound s x y asg hc h).2 with ⟨a, b⟩ | ⟨a, b⟩ <;> simp [a, b]

/-- `is_not_equal`. -/
theorem is_not_equal_sound (s : St F) (x y : Cell) (asg : Cell → F) (hc : s.CacheOK asg)
    (h : (isNotEqual s x y).2.Holds R asg) :
    asg (isNotEqual s x y).1 = if asg x = asg y then 0 else 1 := by
  rcases (isNotEqual_sound s x y asg hc h).2 with ⟨a, b⟩ | ⟨a, b⟩ <;> simp [a, b]

/-- `is_equal_to_fixed` (hence `is_zero`), for every constant `c`. -/
theorem is_equal_to_fixed_sound (s : St F) (x : Cell) (c : F) (asg : Cell → F) (hc : s.CacheOK asg)
    (h : (isEqualToFixed s x c).2.Holds R asg) :
    asg (isEqualToFixed s x c).1 = if asg x = c then 1 else 0 := by
  rcases (isEqualToFixed_sound s x c asg hc h).2 with ⟨a, b⟩ | ⟨a, b⟩ <;> simp [a, b]

/-- `is_not_equal_to_fixed`. -/
theorem is_not_equal_to_fixed_sound (s : St F) (x : Cell) (c : F) (asg : Cell → F)
    (hc : s.CacheOK asg) (h : (isNotEqualToFixed s x c).2.Holds R asg) :
    asg (isNotEqualToFixed s x c).1 = if asg x = c then 0 else 1 := by
  rcases (isNotEqualToFixed_sound s x c asg hc h).2 with ⟨a, b⟩ | ⟨a, b⟩ <;> simp [a, b]

/-! ## Control flow -/

/-- `select` with a boolean condition. -/
theorem select_sound' (s : St F) (c x y : Cell) (asg : Cell → F) (hc : s.CacheOK asg)
    (hb : asg c = 0 ∨ asg c = 1) (h : (select s c x y).2.Holds R asg) :
    asg (select s c x y).1 = if asg c = 1 then asg x else asg y := by
  have := (select_sound s c x y asg hc h).2
  rcases hb with hb | hb
  · have h01 : ¬ ((0 : F) = 1) := Field.zero_ne_one
    rw [this, hb]; simp [h01]; grind
  · rw [this, hb]; simp; grind

/-- `cond_swap` (arithmetic gate and 12−34 gate on one row): the outputs are the inputs, swapped
iff the condition is 1. -/
theorem cond_swap_sound (s : St F) (c x y : Cell) (asg : Cell → F) (hc : s.CacheOK asg)
    (hb : asg c = 0 ∨ asg c = 1) (h : (condSwap s c x y).2.Holds R asg) :
    (asg (condSwap s c x y).1.1, asg (condSwap s c x y).1.2)
      = if asg c = 1 then (asg y, asg x) else (asg x, asg y) := by
  obtain ⟨_, h2, h1⟩ := condSwap_sound s c x y asg hc h
  rcases hb with hb | hb
  · have h01 : ¬ ((0 : F) = 1) := Field.zero_ne_one
    rw [h1, h2, hb]; simp [h01]; constructor <;> grind
  · rw [h1, h2, hb]; simp; constructor <;> grind

/-! ## Boolean logic (lists of every length) -/

/-- `and`, `or`, `xor` over a non-empty list of cells: the output is the iterated product,
`a + b − ab`, `a + b − 2ab` of the inputs, for EVERY list length (including the shortcuts of
`mul` through the cached constant 1). -/
theorem and_or_xor_sound (s : St F) (b : Cell) (rest : List Cell) (asg : Cell → F)
    (hc : s.CacheOK asg) :
    ((and s (b :: rest)).2.Holds R asg →
      asg (and s (b :: rest)).1 = (rest.map asg).foldl (fun a x => a * x) (asg b)) ∧
    ((or s (b :: rest)).2.Holds R asg →
      asg (or s (b :: rest)).1 = (rest.map asg).foldl (fun a x => a + x - a * x) (asg b)) ∧
    ((xor s (b :: rest)).2.Holds R asg →
      asg (xor s (b :: rest)).1 = (rest.map asg).foldl (fun a x => a + x - 2 * a * x) (asg b)) :=
  ⟨fun h => (and_sound s b rest asg hc h).2, fun h => (or_sound s b rest asg hc h).2,
   fun h => (xor_sound s b rest asg hc h).2⟩

/-- On field bits these polynomial connectives (and `not = 1 − a`, bit equality
`1 − a − b + 2ab`) are the boolean ones. -/
theorem bit_connectives {a b : F} (ha : a = 0 ∨ a = 1) (hb : b = 0 ∨ b = 1) :
    (a * b = if a = 1 ∧ b = 1 then 1 else 0) ∧
    (a + b - a * b = if a = 1 ∨ b = 1 then 1 else 0) ∧
    (a + b - 2 * a * b = if (a = 1) ≠ (b = 1) then 1 else 0) ∧
    (1 - a = if a = 1 then 0 else 1) ∧
    (1 - a - b + 2 * a * b = if a = b then 1 else 0) := bit_ops ha hb

/-- `not`, `is_equal`/`is_not_equal` on bits. -/
theorem not_and_bit_equality_sound (s : St F) (a b : Cell) (asg : Cell → F) (hc : s.CacheOK asg) :
    ((not s a).2.Holds R asg → asg (not s a).1 = 1 - asg a) ∧
    ((bitIsEqual s a b).2.Holds R asg →
      asg (bitIsEqual s a b).1 = 1 - asg a - asg b + 2 * asg a * asg b) ∧
    ((bitIsNotEqual s a b).2.Holds R asg →
      asg (bitIsNotEqual s a b).1 = asg a + asg b - 2 * asg a * asg b) :=
  ⟨fun h => (not_sound s a asg hc h).2, fun h => (bitIsEqual_sound s a b asg hc h).2,
   fun h => (bitIsNotEqual_sound s a b asg hc h).2⟩

/-! ## Range checks, decomposition, comparison -/

/-- `decompose_core` (pow2range lookups + recomposition chain), for every list of limb sizes
satisfying the structure the Rust code asserts and every number 1..4 of lookup columns: the
decomposed value is a natural number below `2^(Σ sizes)` — whatever limbs the prover chooses. -/
theorem decompose_core_sound (hR : RangeSound R) (s : St F) (sizes : List Nat) (asg : Cell → F)
    (h0 : 0 < s.nrCols) (h4 : s.nrCols ≤ 4) (hok : sizesOK s.nrCols sizes) (hc : s.CacheOK asg)
    (h : (decomposeCore s sizes).2.Holds R asg) :
    ∃ N : Nat, N < 2 ^ sizes.sum ∧ asg (decomposeCore s sizes).1.1 = (N : F) :=
  (decomposeCore_sound hR s sizes asg h0 h4 hok hc h).2

/-- `assert_less_than_pow2` (`assign_less_than_pow2`, byte assignment, `bounded_of_element`):
a value `≥ 2^k` makes the circuit unsatisfiable. `OptOK` is the (decidable) well-formedness of
the output of `compute_optimal_limb_sizes` for this bit length; see `opt_limb_sizes_ok_small`
and the `optok` requests of the correspondence run. -/
theorem assert_less_than_pow2_sound (hR : RangeSound R) (s : St F) (x : Cell) (k : Nat)
    (asg : Cell → F) (h0 : 0 < s.nrCols) (h4 : s.nrCols ≤ 4) (hopt : OptOK s k)
    (hc : s.CacheOK asg) (h : (assertLessThanPow2 s x k).Holds R asg) :
    ∃ N : Nat, N < 2 ^ k ∧ asg x = (N : F) :=
  (assertLessThanPow2_sound hR s x k asg h0 h4 hopt.1 hopt.2 hc h).2

/-- Kernel-evaluated instances of `OptOK`: the optimal limb sizes computed for the default
configuration (4 lookup columns, `max_bit_len = 8`) are well-formed for all bit lengths ≤ 24. -/
theorem opt_limb_sizes_ok_small :
    ∀ k ∈ List.range 25, OptOK (St.init 4 8 : St F) k := by
  intro k hk
  simp only [List.mem_range] at hk
  unfold OptOK optRowsOK
  simp only [St.init]
  have : ∀ k < 25, (∀ r ∈ (optTable 4 8 k).getD k [], r ≠ [] ∧ r.length ≤ 4 ∧ ∀ x ∈ r, r.head? = some x) ∧
      (((optTable 4 8 k).getD k []).map List.sum).sum = k := by decide +kernel
  exact this k hk

/-- **`compute_optimal_limb_sizes` (cpu_utils.rs) is well-formed for EVERY bit length in EVERY
configuration** with at least one lookup column and `max_bit_len ≥ 1`, by induction over the
dynamic programme: every row is a non-empty run of one bit length in `[1, max_bit_len]` (so its
tag is in the loaded table), at most `nr` long, and the lengths add up to the requested number of
bits. Discharges the hypothesis `OptOK` of all range-check theorems. -/
theorem opt_limb_sizes_ok (nr maxBl k : Nat) (h0 : 0 < nr) (hm : 0 < maxBl) :
    (∀ r ∈ (optTable nr maxBl k).getD k [], r ≠ [] ∧ r.length ≤ nr ∧ (∀ x ∈ r, r.head? = some x) ∧
      ∀ x ∈ r, 1 ≤ x ∧ x ≤ maxBl) ∧
    (((optTable nr maxBl k).getD k []).map List.sum).sum = k :=
  optTable_good nr maxBl h0 hm k

/-- `OptOK` holds in every state of every admissible configuration. -/
theorem opt_ok_all (s : St F) (k : Nat) (h0 : 0 < s.nrCols) (hm : 0 < s.maxBitLen) : OptOK s k :=
  optOK_all s k h0 hm

/-- `assert_less_than_pow2` without the `OptOK` hypothesis: EVERY bit length `k`, every
configuration with 1..4 lookup columns and `max_bit_len ≥ 1`. -/
theorem assert_less_than_pow2_sound_all (hR : RangeSound R) (s : St F) (x : Cell) (k : Nat)
    (asg : Cell → F) (h0 : 0 < s.nrCols) (h4 : s.nrCols ≤ 4) (hm : 0 < s.maxBitLen)
    (hc : s.CacheOK asg) (h : (assertLessThanPow2 s x k).Holds R asg) :
    ∃ N : Nat, N < 2 ^ k ∧ asg x = (N : F) :=
  assert_less_than_pow2_sound hR s x k asg h0 h4 (optOK_all s k h0 hm) hc h

/-- `assert_lower_than_fixed` for an arbitrary bound (constraint-emitting path only: hypothesis
`boundLe = false`). The early return on a cached smaller bound is covered by
`assert_lower_than_fixed_sound` (given the cache invariant) and, without any hypothesis on the
caches, by `assert_lower_than_fixed_sound_reachable` (the invariant is `bounds_sound`). -/
theorem assert_lower_than_fixed_sound_partial (hR : RangeSound R) (s : St F) (x : Cell)
    (bound : Nat) (asg : Cell → F) (hnb : s.boundLe x bound = false) (hb : 0 < bound)
    (h0 : 0 < s.nrCols) (h4 : s.nrCols ≤ 4) (hopt : OptOK s bound.log2)
    (hc : s.CacheOK asg) (h : (assertLowerThanFixed s x bound).Holds R asg) :
    ∃ M : Nat, M < bound ∧ asg x = (M : F) :=
  assertLowerThanFixed_sound_partial hR s x bound asg hnb hb h0 h4 hopt hc h

/-- `lower_than`: the output bit is `[x < y]` for every accepted assignment (no value of the
comparison hint or of the limbs of the range check makes the circuit accept a wrong bit). -/
theorem lower_than_sound (hR : RangeSound R) (p : Nat)
    (hinj : ∀ a b : Nat, a < p → b < p → ((a : Nat) : F) = ((b : Nat) : F) → a = b)
    (s : St F) (x : Cell) (bx : Nat) (y : Cell) (by_ : Nat) (asg : Cell → F)
    (nx ny : Nat) (hx : asg x = (nx : F)) (hnx : nx < 2 ^ bx) (hy : asg y = (ny : F))
    (hny : ny < 2 ^ by_) (hm : 2 * 2 ^ (max bx by_) ≤ p)
    (h0 : 0 < s.nrCols) (h4 : s.nrCols ≤ 4) (hopt : OptOK s (max bx by_))
    (hc : s.CacheOK asg) (h : (lowerThan s x bx y by_).2.Holds R asg) :
    asg (lowerThan s x bx y by_).1 = if nx < ny then 1 else 0 :=
  lowerThan_sound hR p hinj s x bx y by_ asg nx ny hx hnx hy hny hm h0 h4 hopt hc h

/-! ## The bound cache of `NativeGadget` (`constrained_cells`) -/

/-- **`assert_lower_than_fixed`, every path.** `St.BoundsOK s asg` — every strict upper bound
recorded in `constrained_cells` holds under `asg` — is an invariant of all emitters (each
`_sound` lemma re-establishes it), so the early return on a recorded smaller bound is justified:
every accepted assignment has `x = M` for a natural number `M < bound`. Completes
`assert_lower_than_fixed_sound_partial`. -/
theorem assert_lower_than_fixed_sound (hR : RangeSound R) (s : St F) (x : Cell) (bound : Nat)
    (asg : Cell → F) (hb : 0 < bound) (h0 : 0 < s.nrCols) (h4 : s.nrCols ≤ 4)
    (hopt : OptOK s bound.log2) (hc : s.CacheOK asg) (hB : s.BoundsOK asg)
    (h : (assertLowerThanFixed s x bound).Holds R asg) :
    (assertLowerThanFixed s x bound).CacheOK asg ∧ (assertLowerThanFixed s x bound).BoundsOK asg ∧
    ∃ M : Nat, M < bound ∧ asg x = (M : F) :=
  assertLowerThanFixed_sound hR s x bound asg hb h0 h4 hopt hc hB h

/-- The invariant is not vacuous and is what the early return uses: in the state after
`assert_lower_than_fixed(x, 5)` a later `assert_lower_than_fixed(x, 9)` emits nothing, and the
recorded bound gives `x < 9`. -/
example (s : St F) (x : Cell) (asg : Cell → F) (hB : (s.updateBound x 5).BoundsOK asg) :
    assertLowerThanFixed (s.updateBound x 5) x 9 = s.updateBound x 5 ∧
    ∃ M : Nat, M < 9 ∧ asg x = (M : F) := by
  have hle : (s.updateBound x 5).boundLe x 9 = true := by
    unfold St.boundLe St.updateBound St.getBound
    cases hf : s.bounds.find? (fun p => p.1 = x) with
    | none => simp [hf]
    | some p => simp [hf]; omega
  exact ⟨by unfold assertLowerThanFixed; simp [hle], boundLe_sound _ asg hB x 9 hle⟩


/-! ## The bound-cache invariant over whole programs -/

/-- **BOUND-CACHE INVARIANT** (`NativeGadget::constrained_cells`). For EVERY program of the core
language (`COp`: assignments, arithmetic, assertions, equality tests, boolean logic, and every
writer and reader of the cache — conversions bit/byte ↔ native, `assert_lower_than_fixed`,
`assign_lower_than_fixed`, `bounded_of_element`, `bnot`, `lower_than(_fixed)`, `leq/geq/
greater_than(_fixed)`, `assigned_from_le_bits/bytes`, `div_rem`, the byte-typed assertions and
equality tests, the gadget's `assert_equal`), run from the empty synthesis in any configuration
with 1..4 lookup columns, and for EVERY assignment `asg` accepted by the constraints emitted so far:

* every entry `(cell, b)` of the cache is implied by the constraints: `asg cell = n` for a natural
  number `n < b` (strict, as all readers interpret it);
* every cached constant cell holds its constant;
* every variable of type bit / byte / bounded(k) holds a natural number below 2 / 256 / 2^k.

Proof: induction over the operation list (`runCore_good`), one case per operation
(`COp.run_good`). The cases `b2n` / `y2n` (and the recompositions and byte-typed instructions,
which convert their operands) record a bound WITHOUT emitting a constraint; they are justified by
the type invariant of the operand only, which gives `< 2` and `< 256`. A model mirroring a code
that records `u8::MAX = 255` for a byte (seed C04-1) cannot prove this step: the 8-bit lookup
behind an `AssignedByte` allows the value 255. -/
theorem bounds_sound (hR : RangeSound R) (fi : FieldInfo) (nr mbl : Nat) (h0 : 0 < nr) (h4 : nr ≤ 4)
    (hm : 0 < mbl) (prog : List (COp F)) (r : RunSt F)
    (hrun : runCore fi ⟨St.init nr mbl, #[]⟩ prog = some r) (asg : Cell → F)
    (h : r.st.Holds R asg) :
    (∀ p ∈ r.st.bounds, ∃ n : Nat, n < p.2 ∧ asg p.1 = (n : F)) ∧ r.st.CacheOK asg ∧
    (∀ v ∈ r.vars.toList, TyOK asg v) := by
  obtain ⟨_, _, _, hall⟩ := runCore_good hR fi prog _ r (init_good nr mbl h0 h4 hm) hrun
  obtain ⟨c, b, t⟩ := hall asg h
  exact ⟨b, c, t⟩

/-- **The bound 256 of a byte is tight**: in the state after assigning an `AssignedByte` (4 lookup
columns, `max_bit_len = 8`, the true table predicate `RTable`), the assignment that gives the cell
the value 255 satisfies every constraint. Hence the cache entry `(cell, 255)` — what
`update_bound(&byte.0, u8::MAX)` would record (seed C04-1) — is NOT implied by the constraints,
in any field of characteristic above 255: the step `y2n` of `bounds_sound` is false for a model of
that code, while it is proved for the entry `(cell, 256)`. -/
theorem byte_bound_is_tight (p : Nat) (hp : 256 ≤ p)
    (hinj : ∀ a b : Nat, a < p → b < p → ((a : Nat) : F) = ((b : Nat) : F) → a = b) :
    (∃ asg : Cell → F, (assignLessThanPow2 (St.init 4 8 : St F) 8).2.Holds RTable asg ∧
      asg (assignLessThanPow2 (St.init 4 8 : St F) 8).1 = ((255 : Nat) : F)) ∧
    ¬ (∀ asg : Cell → F, (assignLessThanPow2 (St.init 4 8 : St F) 8).2.Holds RTable asg →
      ∃ n : Nat, n < 255 ∧ asg (assignLessThanPow2 (St.init 4 8 : St F) 8).1 = (n : F)) :=
  ⟨⟨wit255, byte_255_accepted⟩, byte_bound_255_not_implied p hp hinj⟩

/-- The induction step of `bounds_sound`, for one operation emitted into ANY good state (not only
states reachable from the empty synthesis). -/
theorem bounds_sound_step (hR : RangeSound R) (fi : FieldInfo) (r r' : RunSt F) (op : COp F)
    (hg : r.Good R) (h : op.run fi r = some r') : r'.Good R :=
  COp.run_good hR fi r r' op hg h

/-- The theorem is not vacuous: the program `iny ; y2n 0 ; alf 1 256 ; bnd 1 8 ; ltf 2 255` (a
byte, seen as a native value, range-checked, compared with 255) is a well-typed program of the
core language: it runs. -/
example : (runCore (F := F) ⟨7, 3⟩ ⟨St.init 4 8, #[]⟩
    [.assignByte, .y2n 0, .alf 1 256, .bnd 1 8, .ltf 2 255]).isSome = true := rfl

/-- … and what the invariant is used for: after byte → native the recorded bound 256 makes
`assert_lower_than_fixed(x, 256)` return early (no constraint), which is sound because the
invariant gives `x < 256`. -/
example (s : St F) (x : Cell) (asg : Cell → F) (hB : (convertByteToNative s x).BoundsOK asg) :
    assertLowerThanFixed (convertByteToNative s x) x 256 = convertByteToNative s x ∧
    ∃ M : Nat, M < 256 ∧ asg x = (M : F) := by
  have hle : (convertByteToNative s x).boundLe x 256 = true := by
    unfold convertByteToNative St.boundLe St.updateBound St.getBound
    cases hf : s.bounds.find? (fun p => p.1 = x) with
    | none => simp [hf]
    | some p => simp [hf]; omega
  exact ⟨by unfold assertLowerThanFixed; simp [hle], boundLe_sound _ asg hB x 256 hle⟩

/-- **`assert_lower_than_fixed` in every reachable state, every path** — no hypothesis on the
caches: the early return on a recorded bound `≤ bound` is sound BECAUSE of `bounds_sound`.
Completes `assert_lower_than_fixed_sound_partial` / `assert_lower_than_fixed_sound`. -/
theorem assert_lower_than_fixed_sound_reachable (hR : RangeSound R) (fi : FieldInfo) (nr mbl : Nat)
    (h0 : 0 < nr) (h4 : nr ≤ 4) (hm : 0 < mbl) (prog : List (COp F)) (r : RunSt F)
    (hrun : runCore fi ⟨St.init nr mbl, #[]⟩ prog = some r) (x : Cell) (bound : Nat)
    (hb : 0 < bound) (asg : Cell → F) (h : (assertLowerThanFixed r.st x bound).Holds R asg) :
    ∃ M : Nat, M < bound ∧ asg x = (M : F) := by
  obtain ⟨g0, g4, gm, hall⟩ := runCore_good hR fi prog _ r (init_good nr mbl h0 h4 hm) hrun
  obtain ⟨c, b, _⟩ := hall asg ((assertLowerThanFixed_ext ..).holds asg h)
  exact (assertLowerThanFixed_sound hR r.st x bound asg hb g0 g4 (optOK_all _ _ g0 gm) c b h).2.2

/-- **`lower_than_fixed` in every reachable state, every path**, for an operand of type
`AssignedBounded` (its bound comes from the type invariant, the recorded bounds from
`bounds_sound`): the output is `[x < y]`, including the two shortcuts that return the constant
`true` (`y ≥ 2^bound`, and a recorded bound `≤ y`). -/
theorem lower_than_fixed_sound_reachable (hR : RangeSound R) (p : Nat)
    (hinj : ∀ a b : Nat, a < p → b < p → ((a : Nat) : F) = ((b : Nat) : F) → a = b)
    (fi : FieldInfo) (nr mbl : Nat) (h0 : 0 < nr) (h4 : nr ≤ 4) (hm : 0 < mbl)
    (prog : List (COp F)) (r : RunSt F) (hrun : runCore fi ⟨St.init nr mbl, #[]⟩ prog = some r)
    (i : Nat) (x : Cell × Nat) (hx : r.cellD i = some x) (y : Nat) (hy : y < p)
    (hmax : 2 * 2 ^ x.2 ≤ p) (asg : Cell → F) (h : (lowerThanFixed r.st x.1 x.2 y).2.Holds R asg) :
    ∃ nx : Nat, nx < 2 ^ x.2 ∧ asg x.1 = (nx : F) ∧
      asg (lowerThanFixed r.st x.1 x.2 y).1 = if nx < y then 1 else 0 := by
  obtain ⟨g0, g4, gm, hall⟩ := runCore_good hR fi prog _ r (init_good nr mbl h0 h4 hm) hrun
  have hI := hall asg ((lowerThanFixed_ext ..).holds asg h)
  obtain ⟨nx, hnx, hv⟩ := tyD_of_inv hI hx
  refine ⟨nx, hnx, hv, ?_⟩
  rw [(lowerThanFixed_sound hR p hinj r.st x.1 x.2 y asg nx hv hnx hy hmax g0 g4
    (optOK_all _ _ g0 gm) hI.1 hI.2.1 h).2.2]
  by_cases hh : nx < y <;> simp [bF, hh]

/-- `assign_lower_than_fixed` for every positive bound (power of two or not). -/
theorem assign_lower_than_fixed_sound (hR : RangeSound R) (s : St F) (bound : Nat) (asg : Cell → F)
    (hb : 0 < bound) (h0 : 0 < s.nrCols) (h4 : s.nrCols ≤ 4) (hopt : OptOK s bound.log2)
    (hc : s.CacheOK asg) (hB : s.BoundsOK asg) (h : (assignLowerThanFixed s bound).2.Holds R asg) :
    ∃ M : Nat, M < bound ∧ asg (assignLowerThanFixed s bound).1 = (M : F) :=
  (assignLowerThanFixed_sound hR s bound asg hb h0 h4 hopt hc hB h).2.2

/-- `assign_lower_than_fixed(v, 0)`: the code returns the fixed cell 0 whatever `v` is, although
no value is below 0 (recorded in findings/C04.json as `range:zero-bound`). The full-strength
statement "the result is below the bound" is therefore false for `bound = 0`. -/
theorem assign_lower_than_fixed_zero_bound (s : St F) (asg : Cell → F) (hc : s.CacheOK asg)
    (h : (assignLowerThanFixed s 0).2.Holds R asg) :
    asg (assignLowerThanFixed s 0).1 = 0 ∧
    ¬ ∃ M : Nat, M < 0 ∧ asg (assignLowerThanFixed s 0).1 = (M : F) :=
  ⟨assignLowerThanFixed_zero s asg hc h, fun ⟨M, hM, _⟩ => by omega⟩

/-! ## Decomposition into limbs, bits, bytes, chunks; sign; canonicity -/

/-- **`decompose_core`, limb level**: each non-zero-sized limb cell holds a natural number below
`2^size`, and the recomposed cell holds their little-endian recomposition (every limb-size list
with the structure the Rust code asserts, 1..4 lookup columns). -/
theorem decompose_core_limbs_sound (hR : RangeSound R) (s : St F) (sizes : List Nat) (asg : Cell → F)
    (h0 : 0 < s.nrCols) (h4 : s.nrCols ≤ 4) (hok : sizesOK s.nrCols sizes) (hc : s.CacheOK asg)
    (h : (decomposeCore s sizes).2.Holds R asg) :
    ∃ vs : List Nat, LimbVals (sizes.filter (· ≠ 0)) vs ∧
      CellsHold asg (decomposeCore s sizes).1.2 vs ∧
      asg (decomposeCore s sizes).1.1 = ((recomp (sizes.filter (· ≠ 0)) vs : Nat) : F) :=
  (decomposeCore_limbs_sound hR s sizes asg h0 h4 hok hc h).2

/-- Limbs are unique: values `vs` below `2^sizeᵢ` are the digits of their recomposition
(`limbsOf`, the specification the correspondence run evaluates; cpu_utils.rs
`decompose_in_variable_limbsizes`), and the recomposition is below `2^(Σ sizes)`. -/
theorem limbs_unique (sizes vs : List Nat) (h : LimbVals sizes vs) :
    limbsOf (recomp sizes vs) sizes = vs ∧ recomp sizes vs < 2 ^ sizes.sum :=
  ⟨limbsOf_recomp sizes vs h, recomp_lt sizes vs h⟩

/-- **`decompose_fixed_limb_size`** with limbs checked by lookups (`limb_size ≤ max_bit_len`),
every bit length and limb size, including a shorter last limb and the zero-sized padding limbs. -/
theorem decompose_fixed_limb_size_sound (hR : RangeSound R) (s : St F) (x : Cell)
    (bitLength limbSize : Nat) (asg : Cell → F) (hls : limbSize ≠ 0) (hmb : limbSize ≤ s.maxBitLen)
    (h0 : 0 < s.nrCols) (h4 : s.nrCols ≤ 4) (hc : s.CacheOK asg)
    (h : (decomposeFixedLimbSize s x bitLength limbSize).2.Holds R asg) :
    ∃ vs : List Nat, LimbVals (dflSizes bitLength limbSize) vs ∧
      CellsHold asg (decomposeFixedLimbSize s x bitLength limbSize).1 vs ∧
      asg x = ((recomp (dflSizes bitLength limbSize) vs : Nat) : F) :=
  (decomposeFixedLimbSize_sound hR s x bitLength limbSize asg hls hmb h0 h4 hc h).2.2.2

/-- **`assigned_to_le_bits`** with an explicit number of bits: exactly `nb` cells, each holding 0
or 1, with `x = Σ 2^i·bitᵢ`; a value that does not fit makes the circuit unsatisfiable. -/
theorem assigned_to_le_bits_sound (hR : RangeSound R) (s : St F) (x : Cell) (nb numBits halfP : Nat)
    (asg : Cell → F) (hne : nb ≠ numBits) (hmb : 1 ≤ s.maxBitLen)
    (h0 : 0 < s.nrCols) (h4 : s.nrCols ≤ 4) (hc : s.CacheOK asg) (canon : Bool)
    (h : (assignedToLeBits s x (some nb) canon numBits halfP).2.Holds R asg) :
    ∃ bs : List Nat, bs.length = nb ∧ (∀ b ∈ bs, b < 2) ∧
      CellsHold asg (assignedToLeBits s x (some nb) canon numBits halfP).1 bs ∧
      asg x = ((fromLimbs 2 bs : Nat) : F) :=
  (assignedToLeBits_sound hR s x nb numBits halfP asg hne hmb h0 h4 hc canon h).2.2

/-- **`sgn0`**: in a field of odd characteristic `p` the output is the parity of the canonical
representative of `x`. -/
theorem sgn0_sound' (hR : RangeSound R) (p : Nat) (hodd : p % 2 = 1) (hp0 : ((p : Nat) : F) = 0)
    (hinj : ∀ a b : Nat, a < p → b < p → ((a : Nat) : F) = ((b : Nat) : F) → a = b)
    (s : St F) (x : Cell) (asg : Cell → F)
    (h0 : 0 < s.nrCols) (h4 : s.nrCols ≤ 4) (hopt : OptOK s ((p + 1) / 2).log2)
    (hc : s.CacheOK asg) (hB : s.BoundsOK asg) (h : (sgn0 s x ((p + 1) / 2)).2.Holds R asg) :
    ∃ X : Nat, X < p ∧ asg x = (X : F) ∧ asg (sgn0 s x ((p + 1) / 2)).1 = ((X % 2 : Nat) : F) :=
  (sgn0_sound hR p hodd hp0 hinj s x asg h0 h4 hopt hc hB h).2.2

/-- **Canonical bits** (`assigned_to_le_bits(x, None, true)`): the `numBits` bits are the binary
digits of the canonical representative of `x`; the alias `x + p < 2^numBits` is rejected. -/
theorem assigned_to_le_bits_canonical_sound (hR : RangeSound R) (p : Nat) (hodd : p % 2 = 1)
    (hp2 : 2 < p) (hp0 : ((p : Nat) : F) = 0)
    (hinj : ∀ a b : Nat, a < p → b < p → ((a : Nat) : F) = ((b : Nat) : F) → a = b)
    (numBits : Nat) (hnb0 : 0 < numBits) (hnb : 2 ^ numBits ≤ 2 * p)
    (s : St F) (x : Cell) (asg : Cell → F) (hmb : 1 ≤ s.maxBitLen)
    (h0 : 0 < s.nrCols) (h4 : s.nrCols ≤ 4) (hopt : OptOK s ((p + 1) / 2).log2)
    (hc : s.CacheOK asg) (hB : s.BoundsOK asg)
    (h : (assignedToLeBits s x none true numBits ((p + 1) / 2)).2.Holds R asg) :
    ∃ bs : List Nat, bs.length = numBits ∧ (∀ b ∈ bs, b < 2) ∧
      CellsHold asg (assignedToLeBits s x none true numBits ((p + 1) / 2)).1 bs ∧
      asg x = ((fromLimbs 2 bs : Nat) : F) ∧ fromLimbs 2 bs < p :=
  (assignedToLeBits_canonical_sound hR p hodd hp2 hp0 hinj numBits hnb0 hnb s x asg hmb h0 h4 hopt hc hB h).2.2

/-- The numeric side conditions of the canonicity theorems hold for the native modulus dumped
from the running code. -/
theorem native_modulus_canonicity_conditions :
    Gen.nativeModulus % 2 = 1 ∧ 2 < Gen.nativeModulus ∧ 0 < Gen.nativeNumBits ∧
    2 ^ Gen.nativeNumBits ≤ 2 * Gen.nativeModulus ∧ Gen.nativeModulus < 2 ^ Gen.nativeNumBits := by
  decide +kernel

/-- **`assigned_to_le_bytes`**: short form (explicit byte count) and full width (canonical). -/
theorem assigned_to_le_bytes_sound (hR : RangeSound R) (s : St F) (x : Cell) (nb numBits halfP : Nat)
    (asg : Cell → F) (hne : nb ≠ (numBits + 7) / 8) (hmb : 8 ≤ s.maxBitLen)
    (h0 : 0 < s.nrCols) (h4 : s.nrCols ≤ 4) (hc : s.CacheOK asg)
    (h : (assignedToLeBytes s x (some nb) numBits halfP).2.Holds R asg) :
    ∃ ys : List Nat, ys.length = nb ∧ (∀ y ∈ ys, y < 256) ∧
      CellsHold asg (assignedToLeBytes s x (some nb) numBits halfP).1 ys ∧
      asg x = ((fromLimbs 256 ys : Nat) : F) :=
  (assignedToLeBytes_sound hR s x nb numBits halfP asg hne hmb h0 h4 hc h).2.2

theorem assigned_to_le_bytes_full_sound (hR : RangeSound R) (p : Nat) (hodd : p % 2 = 1)
    (hp2 : 2 < p) (hp0 : ((p : Nat) : F) = 0)
    (hinj : ∀ a b : Nat, a < p → b < p → ((a : Nat) : F) = ((b : Nat) : F) → a = b)
    (numBits : Nat) (hnb0 : 0 < numBits) (hnb : 2 ^ numBits ≤ 2 * p)
    (s : St F) (x : Cell) (asg : Cell → F) (hmb : 1 ≤ s.maxBitLen)
    (h0 : 0 < s.nrCols) (h4 : s.nrCols ≤ 4) (hopt : OptOK s ((p + 1) / 2).log2)
    (hc : s.CacheOK asg) (hB : s.BoundsOK asg)
    (h : (assignedToLeBytes s x none numBits ((p + 1) / 2)).2.Holds R asg) :
    ∃ ys : List Nat, ys.length = (numBits + 7) / 8 ∧ (∀ y ∈ ys, y < 256) ∧
      CellsHold asg (assignedToLeBytes s x none numBits ((p + 1) / 2)).1 ys ∧
      asg x = ((fromLimbs 256 ys : Nat) : F) ∧ fromLimbs 256 ys < p :=
  (assignedToLeBytes_full_sound hR p hodd hp2 hp0 hinj numBits hnb0 hnb s x asg hmb h0 h4 hopt hc hB h).2.2

/-- **`assigned_to_le_chunks`** (chunk width `≤ max_bit_len`). -/
theorem assigned_to_le_chunks_sound (hR : RangeSound R) (s : St F) (x : Cell) (per n numBits : Nat)
    (asg : Cell → F) (hper : 0 < per) (hmb : per ≤ s.maxBitLen)
    (h0 : 0 < s.nrCols) (h4 : s.nrCols ≤ 4) (hc : s.CacheOK asg)
    (h : (assignedToLeChunks s x per (some n) numBits).2.Holds R asg) :
    ∃ vs : List Nat, vs.length = n ∧ (∀ v ∈ vs, v < 2 ^ per) ∧
      CellsHold asg (assignedToLeChunks s x per (some n) numBits).1 vs ∧
      asg x = ((fromLimbs (2 ^ per) vs : Nat) : F) :=
  (assignedToLeChunks_sound hR s x per n numBits asg hper hmb h0 h4 hc h).2.2

/-- **`le_bits_geq_than`**, **`le_bits_lower_than`** (hence `is_canonical` = `lower_than p`):
for EVERY number of bits and EVERY bound the output is `[Σ 2^i·bitᵢ ≥ bound]`, resp. `<`. -/
theorem le_bits_comparisons_sound (s : St F) (bits : List Cell) (bound : Nat) (bs : List Nat)
    (asg : Cell → F) (hcells : CellsHold asg bits bs) (hbits : ∀ b ∈ bs, b < 2) (hc : s.CacheOK asg) :
    ((leBitsGeqThan s bits bound).2.Holds R asg →
      asg (leBitsGeqThan s bits bound).1 = if bound ≤ fromLimbs 2 bs then 1 else 0) ∧
    ((leBitsLowerThan s bits bound).2.Holds R asg →
      asg (leBitsLowerThan s bits bound).1 = if fromLimbs 2 bs < bound then 1 else 0) := by
  constructor
  · intro h
    have := ((leBitsGeqThan_sound (R := R) bits.length s bits bound bs asg rfl hcells hbits hc).2.2 h).2
    rw [this]; by_cases hh : bound ≤ fromLimbs 2 bs <;> simp [bF, hh]
  · intro h
    have := (leBitsLowerThan_sound s bits bound bs asg hcells hbits hc h).2
    rw [this]; by_cases hh : fromLimbs 2 bs < bound <;> simp [bF, hh]

/-- **`assigned_from_le_bits`**, **`assigned_from_le_bytes`**: `Σ 2^i·bitᵢ`, `Σ 256^i·byteᵢ`. -/
theorem assigned_from_le_sound (s : St F) (cells : List Cell) (vs : List Nat) (asg : Cell → F)
    (hcells : CellsHold asg cells vs) (hc : s.CacheOK asg) (hB : s.BoundsOK asg) :
    ((∀ v ∈ vs, v < 2) → (assignedFromLeBits s cells).2.Holds R asg →
      asg (assignedFromLeBits s cells).1 = ((fromLimbs 2 vs : Nat) : F)) ∧
    ((∀ v ∈ vs, v < 256) → (assignedFromLeBytes s cells).2.Holds R asg →
      asg (assignedFromLeBytes s cells).1 = ((fromLimbs 256 vs : Nat) : F)) :=
  ⟨fun hv h => (assignedFromLeBits_sound s cells vs asg hcells hv hc hB h).2.2,
   fun hv h => (assignedFromLeBytes_sound s cells vs asg hcells hv hc hB h).2.2⟩

/-- **Conversions native → bit / byte** of the gadget (constraint path and bound-cache path). -/
theorem conversions_sound (hR : RangeSound R) (s : St F) (x : Cell) (asg : Cell → F)
    (h0 : 0 < s.nrCols) (h4 : s.nrCols ≤ 4) (hopt : OptOK s 8) (hc : s.CacheOK asg)
    (hB : s.BoundsOK asg) :
    ((gConvertToBit s x).2.Holds R asg →
      asg (gConvertToBit s x).1 = asg x ∧ ∃ n : Nat, n < 2 ∧ asg x = (n : F)) ∧
    ((gConvertToByte s x).2.Holds R asg →
      asg (gConvertToByte s x).1 = asg x ∧ ∃ n : Nat, n < 256 ∧ asg x = (n : F)) :=
  ⟨fun h => (gConvertToBit_sound s x asg hc hB h).2.2,
   fun h => (gConvertToByte_sound hR s x asg h0 h4 hopt hc hB h).2.2⟩

/-! ## Comparisons -/

/-- **`lower_than_fixed`** (constraint path and both shortcuts). -/
theorem lower_than_fixed_sound (hR : RangeSound R) (p : Nat)
    (hinj : ∀ a b : Nat, a < p → b < p → ((a : Nat) : F) = ((b : Nat) : F) → a = b)
    (s : St F) (x : Cell) (bx y : Nat) (asg : Cell → F)
    (nx : Nat) (hx : asg x = (nx : F)) (hnx : nx < 2 ^ bx) (hy : y < p) (hm : 2 * 2 ^ bx ≤ p)
    (h0 : 0 < s.nrCols) (h4 : s.nrCols ≤ 4) (hopt : OptOK s bx)
    (hc : s.CacheOK asg) (hB : s.BoundsOK asg) (h : (lowerThanFixed s x bx y).2.Holds R asg) :
    asg (lowerThanFixed s x bx y).1 = if nx < y then 1 else 0 := by
  rw [(lowerThanFixed_sound hR p hinj s x bx y asg nx hx hnx hy hm h0 h4 hopt hc hB h).2.2]
  by_cases hh : nx < y <;> simp [bF, hh]

/-- **`leq`, `geq`, `greater_than`** on bounded values. -/
theorem leq_geq_greater_than_sound (hR : RangeSound R) (p : Nat)
    (hinj : ∀ a b : Nat, a < p → b < p → ((a : Nat) : F) = ((b : Nat) : F) → a = b)
    (s : St F) (x : Cell) (bx : Nat) (y : Cell) (by_ : Nat) (asg : Cell → F)
    (nx ny : Nat) (hx : asg x = (nx : F)) (hnx : nx < 2 ^ bx) (hy : asg y = (ny : F))
    (hny : ny < 2 ^ by_) (hm : 2 * 2 ^ (max bx by_) ≤ p)
    (h0 : 0 < s.nrCols) (h4 : s.nrCols ≤ 4) (hopt : OptOK s (max bx by_))
    (hc : s.CacheOK asg) (hB : s.BoundsOK asg) :
    ((leq s x bx y by_).2.Holds R asg → asg (leq s x bx y by_).1 = if nx ≤ ny then 1 else 0) ∧
    ((geq s x bx y by_).2.Holds R asg → asg (geq s x bx y by_).1 = if ny ≤ nx then 1 else 0) ∧
    ((greaterThan s x bx y by_).2.Holds R asg →
      asg (greaterThan s x bx y by_).1 = if ny < nx then 1 else 0) := by
  refine ⟨fun h => ?_, fun h => ?_, fun h => ?_⟩
  · rw [(leq_sound hR p hinj s x bx y by_ asg nx ny hx hnx hy hny hm h0 h4 hopt hc hB h).2.2]
    by_cases hh : nx ≤ ny <;> simp [bF, hh]
  · rw [(geq_sound hR p hinj s x bx y by_ asg nx ny hx hnx hy hny hm h0 h4 hopt hc hB h).2.2]
    by_cases hh : ny ≤ nx <;> simp [bF, hh]
  · rw [(greaterThan_sound hR p hinj s x bx y by_ asg nx ny hx hnx hy hny hm h0 h4 hopt hc hB h).2.2]
    by_cases hh : ny < nx <;> simp [bF, hh]

/-- **`leq_fixed`, `geq_fixed`, `greater_than_fixed`** for constants with `c + 1 < p`. -/
theorem fixed_comparisons_sound' (hR : RangeSound R) (p : Nat)
    (hinj : ∀ a b : Nat, a < p → b < p → ((a : Nat) : F) = ((b : Nat) : F) → a = b)
    (s : St F) (x : Cell) (bx c : Nat) (asg : Cell → F)
    (nx : Nat) (hx : asg x = (nx : F)) (hnx : nx < 2 ^ bx) (hcp : c + 1 < p) (hm : 2 * 2 ^ bx ≤ p)
    (h0 : 0 < s.nrCols) (h4 : s.nrCols ≤ 4) (hopt : OptOK s bx)
    (hc : s.CacheOK asg) (hB : s.BoundsOK asg) :
    ((leqFixed s x bx c p).2.Holds R asg →
      asg (leqFixed s x bx c p).1 = if nx ≤ c then 1 else 0) ∧
    ((geqFixed s x bx c).2.Holds R asg →
      asg (geqFixed s x bx c).1 = if c ≤ nx then 1 else 0) ∧
    ((greaterThanFixed s x bx c p).2.Holds R asg →
      asg (greaterThanFixed s x bx c p).1 = if c < nx then 1 else 0) := by
  obtain ⟨a, b, d⟩ := fixed_comparisons_sound hR p hinj s x bx c asg nx hx hnx hcp hm h0 h4 hopt hc hB
  refine ⟨fun h => ?_, fun h => ?_, fun h => ?_⟩
  · rw [(a h).2.2]; by_cases hh : nx ≤ c <;> simp [bF, hh]
  · rw [(b h).2.2]; by_cases hh : c ≤ nx <;> simp [bF, hh]
  · rw [(d h).2.2]; by_cases hh : c < nx <;> simp [bF, hh]

/-! ## More arithmetic -/

/-- **`pow`**: `x^n` for every `u64` exponent. -/
theorem pow_sound' (s : St F) (x : Cell) (n : Nat) (hn : n < 2 ^ 64) (asg : Cell → F)
    (hc : s.CacheOK asg) (h : (pow s x n).2.Holds R asg) : asg (pow s x n).1 = (asg x) ^ n :=
  (pow_sound s x n hn asg hc h).2

/-- **`add_constants`** (parallel-add gate): `outᵢ = xᵢ + cᵢ` for lists of every length. -/
theorem add_constants_sound (s : St F) (xs : List Cell) (cs : List F) (hl : xs.length = cs.length)
    (asg : Cell → F) (hc : s.CacheOK asg) (h : (addConstants s xs cs).2.Holds R asg) :
    (addConstants s xs cs).1.map asg = (xs.zip cs).map (fun p => asg p.1 + p.2) :=
  (addConstants_sound s xs cs hl asg hc h).2.2

/-! ## Integer division by a constant -/

/-- `div_rem` at full strength is FALSE on the pinned tree: without a dividend bound the
constraints `r < d`, `q < (p−1)/d + 1`, `d·q + r ≡ x (mod p)` do not determine `(q, r)`.
Witness for the BLS12-381 scalar field: `d = 3`, `x = 0`, `(q, r) = ((p−1)/3, 1)` (the same
forgery is accepted by the real MockProver; recorded as known finding
`div_rem:no-dividend-bound:wraparound`). -/
theorem div_rem_unbounded_unsound :
    ¬ (∀ x q r : Nat, x < Gen.nativeModulus → r < 3 → q < (Gen.nativeModulus - 1) / 3 + 1 →
        (3 * q + r) % Gen.nativeModulus = x % Gen.nativeModulus → q = x / 3 ∧ r = x % 3) := by
  intro h
  have w := divrem_core_unbounded_witness
  simp only at w
  exact w.2.2.2 (h 0 ((Gen.nativeModulus - 1) / 3) 1 (by decide +kernel) w.1 w.2.1 w.2.2.1)

/-- `div_rem` with a declared dividend bound `B` such that `B + d ≤ p` (the condition the
callers in the repository satisfy: SHA-256 / Poseidon variable-length padding): the range
constraints on `q`, `r` and the field equation determine quotient and remainder. Partial: the
unbounded case is unsound (`div_rem_unbounded_unsound`). -/
theorem div_rem_sound_partial (p d B x q r : Nat) (hd : 0 < d) (hB : B + d ≤ p) (hx : x ≤ B)
    (hr : r < d) (hq : q < B / d + 1) (heq : (d * q + r) % p = x % p) :
    q = x / d ∧ r = x % d :=
  divrem_core_sound p d B x q r hd hB hx hr hq heq


/-- **`div_rem` / `rem` with a declared dividend bound, circuit level** (division.rs; completes
`div_rem_sound_partial`, which is its arithmetic core): for a dividend cell holding `n ≤ B` with
`B + d ≤ p` and a divisor `d > 1`, EVERY accepted assignment of the quotient and remainder cells
has `q = n / d`, `r = n mod d`. -/
theorem div_rem_bounded_sound (hR : RangeSound R) (p : Nat)
    (hinj : ∀ a b : Nat, a < p → b < p → ((a : Nat) : F) = ((b : Nat) : F) → a = b)
    (s : St F) (x : Cell) (d B pm1 n : Nat) (asg : Cell → F)
    (hd : 1 < d) (hBd : B + d ≤ p) (hn : n ≤ B) (hx : asg x = (n : F))
    (h0 : 0 < s.nrCols) (h4 : s.nrCols ≤ 4) (hm : 0 < s.maxBitLen)
    (hc : s.CacheOK asg) (hB : s.BoundsOK asg) (h : (divRem s x d (some B) pm1).2.Holds R asg) :
    asg (divRem s x d (some B) pm1).1.1 = ((n / d : Nat) : F) ∧
    asg (divRem s x d (some B) pm1).1.2 = ((n % d : Nat) : F) :=
  divRem_bounded_sound hR p hinj s x d B pm1 n asg hd hBd hn hx h0 h4 hm hc hB h

/-- **`bnot`** (bitwise.rs): the operand is a natural number below `2^n` — a larger value makes
the circuit unsatisfiable, on the constraint path and on the bound-cache path — and the output is
`2^n − 1 − x`. -/
theorem bnot_sound' (hR : RangeSound R) (s : St F) (x : Cell) (n : Nat) (asg : Cell → F)
    (h0 : 0 < s.nrCols) (h4 : s.nrCols ≤ 4) (hm : 0 < s.maxBitLen)
    (hc : s.CacheOK asg) (hB : s.BoundsOK asg) (h : (bnot s x n).2.Holds R asg) :
    (∃ X : Nat, X < 2 ^ n ∧ asg x = (X : F)) ∧
    asg (bnot s x n).1 = ((2 ^ n : Nat) : F) - 1 - asg x :=
  bnot_sound hR s x n asg h0 h4 hm hc hB h

/-- **Byte-typed `is_equal` / `assert_equal`** (native_gadget.rs: operands converted byte →
native, which records the bound 256, then the native instruction): `[x = y]`, resp. satisfiable
only when `x = y`; both cache invariants are re-established. -/
theorem byte_equality_sound (s : St F) (x y : Cell) (asg : Cell → F)
    (hx : ∃ n : Nat, n < 256 ∧ asg x = (n : F)) (hy : ∃ n : Nat, n < 256 ∧ asg y = (n : F))
    (hc : s.CacheOK asg) (hB : s.BoundsOK asg) :
    ((byteIsEqual s x y).2.Holds R asg → (byteIsEqual s x y).2.BoundsOK asg ∧
      asg (byteIsEqual s x y).1 = if asg x = asg y then 1 else 0) ∧
    ((byteAssertEqual s x y).Holds R asg → (byteAssertEqual s x y).BoundsOK asg ∧ asg x = asg y) := by
  refine ⟨fun h => ?_, fun h => ?_⟩
  · obtain ⟨_, b, r⟩ := byteIsEqual_sound s x y asg hx hy hc hB h
    refine ⟨b, ?_⟩
    rcases r with ⟨a, c⟩ | ⟨a, c⟩ <;> simp [a, c]
  · exact (byteAssertEqual_sound s x y asg hx hy hc hB h).2

/-! ## Completeness (honest witnesses exist; non-vacuity of the soundness theorems) -/

/-- `is_equal` is complete: for all inputs `x, y` the honest witness (`aux = (x−y)⁻¹` or 1)
satisfies every constraint of the program `assign; assign; is_equal`, and outputs `[x = y]`. -/
theorem is_equal_complete (x y : F) :
    (progIsEqual (F := F)).2.Holds R (witIsEqual x y) ∧
    witIsEqual x y ⟨0, 0, .adv 0⟩ = x ∧ witIsEqual x y ⟨1, 0, .adv 0⟩ = y ∧
    witIsEqual x y (progIsEqual (F := F)).1 = if x = y then 1 else 0 :=
  isEqual_complete x y

/-- `inv` is complete exactly on its domain. -/
theorem inv_complete' (x : F) (hx : x ≠ 0) :
    (progInv (F := F)).2.Holds R (witInv x) ∧ witInv x ⟨0, 0, .adv 0⟩ = x ∧
    witInv x (progInv (F := F)).1 = x⁻¹ :=
  inv_complete x hx

/-- `cond_swap` is complete. -/
theorem cond_swap_complete (b : Bool) (x y : F) :
    (progCondSwap (F := F)).2.Holds R (witCondSwap b x y) ∧
    witCondSwap b x y (progCondSwap (F := F)).1.1 = (if b then y else x) ∧
    witCondSwap b x y (progCondSwap (F := F)).1.2 = (if b then x else y) :=
  condSwap_complete b x y


/-- `select` is complete. -/
theorem select_complete' (b : Bool) (x y : F) :
    (progSelect (F := F)).2.Holds R (witSelect b x y) ∧
    witSelect b x y (progSelect (F := F)).1 = (if b then x else y) :=
  select_complete b x y

/-- `assert_not_equal` is complete exactly on its domain `x ≠ y` (`assertions_sound`: unsatisfiable
otherwise). -/
theorem assert_not_equal_complete (x y : F) (hxy : x ≠ y) :
    (progAssertNotEqual (F := F)).Holds R (witAssertNotEqual x y) ∧
    witAssertNotEqual x y ⟨0, 0, .adv 0⟩ = x ∧ witAssertNotEqual x y ⟨1, 0, .adv 0⟩ = y :=
  assertNotEqual_complete x y hxy

/-- `is_equal_to_fixed` (hence `is_zero`) is complete, for every constant. -/
theorem is_equal_to_fixed_complete (x c : F) :
    (progIsEqualToFixed (F := F) c).2.Holds R (witIsEqualToFixed x c) ∧
    witIsEqualToFixed x c ⟨0, 0, .adv 0⟩ = x ∧
    witIsEqualToFixed x c (progIsEqualToFixed (F := F) c).1 = if x = c then 1 else 0 :=
  isEqualToFixed_complete x c

/-- `is_not_equal` is complete. -/
theorem is_not_equal_complete (x y : F) :
    (progIsNotEqual (F := F)).2.Holds R (witIsNotEqual x y) ∧
    witIsNotEqual x y ⟨0, 0, .adv 0⟩ = x ∧ witIsNotEqual x y ⟨1, 0, .adv 0⟩ = y ∧
    witIsNotEqual x y (progIsNotEqual (F := F)).1 = if x = y then 0 else 1 :=
  isNotEqual_complete x y

/-- The multiplication row (`add_and_mul`, what `mul` emits when no shortcut applies) is complete. -/
theorem mul_row_complete (k x y : F) :
    (progMul (F := F) k).2.Holds R (witMul k x y) ∧
    witMul k x y (progMul (F := F) k).1 = k * x * y :=
  mulRow_complete k x y

/-! ## Variable-length vectors (circuits/src/vec/vector_gadget.rs, vec/vector.rs)

`VecCells` = the `M` buffer cells and the length cell of an `AssignedVector<F, T, M, A>`. `p` is a
number below which the natural numbers embed injectively into the field (`hinj`; for the native
field: the modulus) with `M + A ≤ p`. `St.OK s asg` bundles what every emitter needs from the state
it is emitted into (1..4 lookup columns, `max_bit_len ≥ 1`, the constant cache and the bound cache
justified by earlier constraints: `bounds_sound`). The emitters are compared cell by cell with the
recorded real synthesis for every shape of the sweep and EVERY length `0..=M`; the honest advice
table of every such run is accepted by the model's `Holds` (the `check` requests), so the
hypotheses `Holds` below are satisfiable on every one of these programs. -/

/-- **`get_lims::<M, A>(n)`** (vec/vector.rs), for every `M`, every `A ∣ M`, every `n ≤ M`: the
payload range ends less than `A` before the end of the buffer, holds exactly `n` positions, and
starts at most at `M − A` unless the vector is empty (then it is the empty range at `M`). -/
theorem get_lims_layout (M A n : Nat) (hA : 0 < A) (hAM : A ∣ M) (hn : n ≤ M) :
    (getLims M A n).2 ≤ M ∧ M < (getLims M A n).2 + A ∧
    (getLims M A n).1 + n = (getLims M A n).2 ∧
    ((getLims M A n).1 + A ≤ M ∨ ((getLims M A n).1 = M ∧ n = 0)) := by
  obtain ⟨a, b, c, d, _, _⟩ := getLims_facts M A n hA hAM hn
  exact ⟨a, b, c, d⟩

example : getLims 8 4 2 = (4, 6) ∧ getLims 8 4 4 = (4, 8) ∧ getLims 8 4 5 = (0, 5) ∧
    getLims 8 4 0 = (8, 8) ∧ getLims 16 8 16 = (0, 16) := by decide

/-- **`get_limits`**: for a vector whose length cell holds `n ≤ M`, EVERY accepted assignment gives
the two output cells the values `get_lims::<M, A>(n)` — the remainder `len mod A`, the quotient,
the zero-test hint and the select are all determined. -/
theorem get_limits_sound (hR : RangeSound R) (p : Nat)
    (hinj : ∀ a b : Nat, a < p → b < p → ((a : Nat) : F) = ((b : Nat) : F) → a = b)
    (s : St F) (v : VecCells) (M A pm1 n : Nat) (asg : Cell → F)
    (hA : 0 < A) (hAM : A ∣ M) (hAle : A ≤ M) (hMp : M + A ≤ p) (hn : n ≤ M)
    (hlen : asg v.len = (n : F)) (ok : s.OK asg)
    (h : (vecGetLimits s v M A pm1).2.Holds R asg) :
    asg (vecGetLimits s v M A pm1).1.1 = (((getLims M A n).1 : Nat) : F) ∧
    asg (vecGetLimits s v M A pm1).1.2 = (((getLims M A n).2 : Nat) : F) :=
  (vecGetLimits_sound hR p hinj s v M A pm1 n asg hA hAM hAle hMp hn hlen ok h).2

/-- **`padding_flag_sound`**: for EVERY `M`, every `A ∣ M` (`0 < A ≤ M`), every length `n ≤ M`
held by the length cell — including `1 ≤ n ≤ A`, where the payload starts at position `M − A` —
and EVERY assignment satisfying the emitted rows: exactly `M` flags are returned and flag `i` is
`1` iff position `i` is outside the payload range `[start, start + n) = get_lims::<M, A>(n)`. -/
theorem padding_flag_sound (hR : RangeSound R) (p : Nat)
    (hinj : ∀ a b : Nat, a < p → b < p → ((a : Nat) : F) = ((b : Nat) : F) → a = b)
    (s : St F) (v : VecCells) (M A pm1 n : Nat) (asg : Cell → F)
    (hA : 0 < A) (hAM : A ∣ M) (hAle : A ≤ M) (hMp : M + A ≤ p) (hn : n ≤ M)
    (hlen : asg v.len = (n : F)) (ok : s.OK asg)
    (h : (vecPaddingFlag s v M A pm1).2.Holds R asg) :
    (vecPaddingFlag s v M A pm1).1.map asg =
      (List.range M).map (fun i =>
        if (getLims M A n).1 ≤ i ∧ i < (getLims M A n).1 + n then (0 : F) else 1) := by
  rw [(vecPaddingFlag_sound hR p hinj s v M A pm1 n asg hA hAM hAle hMp hn hlen ok h).2]
  have f3 := (getLims_facts M A n hA hAM hn).2.2.1
  apply List.map_congr_left
  intro i _
  rw [f3]
  by_cases hp : (getLims M A n).1 ≤ i ∧ i < (getLims M A n).2 <;> simp [hp, b2f]

/-- The scans of the code before /repo commit 33e5337 (`0..M−A` and `M−A..M`; seeded change C04-4)
do NOT compute the complement of the payload range: for `M = 8`, `A = 4`, length 2 the payload
`[4, 6)` is flagged as padding. A model of that code cannot prove `padding_flag_sound`. -/
theorem padding_flag_scan_off_by_one_wrong :
    scanSpec true (getLims 8 4 2).1 (List.range (8 - 4)) ++
      scanSpec (scanLast true (getLims 8 4 2).1 (List.range (8 - 4))) (getLims 8 4 2).2
        (List.range' (8 - 4) 4)
    ≠ (List.range 8).map (fun i => !(decide ((getLims 8 4 2).1 ≤ i ∧ i < (getLims 8 4 2).2))) :=
  padScan_off_by_one_wrong

/-- **`vector_is_equal_sound`**: for every shape, every length and EVERY accepted assignment, the
output bit of `is_equal(x, y)` is 1 iff the length cells are equal and the buffers agree at every
position of the payload range of `x` (which is then the payload range of `y` too); what the
fillers hold is irrelevant. -/
theorem vector_is_equal_sound (hR : RangeSound R) (p : Nat)
    (hinj : ∀ a b : Nat, a < p → b < p → ((a : Nat) : F) = ((b : Nat) : F) → a = b)
    (s : St F) (x y : VecCells) (M A pm1 n : Nat) (asg : Cell → F)
    (hA : 0 < A) (hAM : A ∣ M) (hAle : A ≤ M) (hMp : M + A ≤ p) (hn : n ≤ M)
    (hx : x.buf.length = M) (hy : y.buf.length = M)
    (hlen : asg x.len = (n : F)) (ok : s.OK asg)
    (h : (vecIsEqual s x y M A pm1).2.Holds R asg) :
    (asg (vecIsEqual s x y M A pm1).1 = 1 ↔
      (asg x.len = asg y.len ∧ ∀ i, (getLims M A n).1 ≤ i → i < (getLims M A n).2 → i < M →
        asg (x.buf.getD i (advc 0 0 0)) = asg (y.buf.getD i (advc 0 0 0)))) ∧
    (asg (vecIsEqual s x y M A pm1).1 = 0 ∨ asg (vecIsEqual s x y M A pm1).1 = 1) := by
  have r := (vecIsEqual_sound hR p hinj s x y M A pm1 n asg hA hAM hAle hMp hn hlen ok h).2
  rw [r]
  exact ⟨(b2f_one_iff _).trans (vecEqSpec_iff asg M A n x y hx hy), b2f_bit _⟩

/-- **`assert_equal` / `assert_not_equal` on vectors**: `assert_equal` is satisfiable only if the
lengths are equal and the payloads agree; `assert_not_equal` is unsatisfiable in that case. -/
theorem vector_assert_equal_sound (hR : RangeSound R) (p : Nat)
    (hinj : ∀ a b : Nat, a < p → b < p → ((a : Nat) : F) = ((b : Nat) : F) → a = b)
    (s : St F) (x y : VecCells) (M A pm1 n : Nat) (asg : Cell → F)
    (hA : 0 < A) (hAM : A ∣ M) (hAle : A ≤ M) (hMp : M + A ≤ p) (hn : n ≤ M)
    (hx : x.buf.length = M) (hy : y.buf.length = M)
    (hlen : asg x.len = (n : F)) (ok : s.OK asg) :
    ((vecAssertEqual s x y M A pm1).Holds R asg →
      (asg x.len = asg y.len ∧ ∀ i, (getLims M A n).1 ≤ i → i < (getLims M A n).2 → i < M →
        asg (x.buf.getD i (advc 0 0 0)) = asg (y.buf.getD i (advc 0 0 0)))) ∧
    ((vecAssertNotEqual s x y M A pm1).Holds R asg →
      ¬ (asg x.len = asg y.len ∧ ∀ i, (getLims M A n).1 ≤ i → i < (getLims M A n).2 → i < M →
        asg (x.buf.getD i (advc 0 0 0)) = asg (y.buf.getD i (advc 0 0 0)))) := by
  refine ⟨fun h => ?_, fun h hc => ?_⟩
  · exact (vecEqSpec_iff asg M A n x y hx hy).mp
      (vecAssertEqual_sound hR p hinj s x y M A pm1 n asg hA hAM hAle hMp hn hlen ok h)
  · have := vecAssertNotEqual_sound hR p hinj s x y M A pm1 n asg hA hAM hAle hMp hn hlen ok h
    rw [(vecEqSpec_iff asg M A n x y hx hy).mpr hc] at this
    exact Bool.noConfusion this

/-- **`assign` of a vector**: `M` buffer cells, and EVERY accepted assignment gives the length cell
a natural number `n ≤ M` — the hypothesis `asg len = n`, `n ≤ M` of the theorems above is enforced
by the circuit (`assign_lower_than_fixed(len, M + 1)`). -/
theorem vector_assign_sound (hR : RangeSound R) (s : St F) (M : Nat) (asg : Cell → F) (ok : s.OK asg)
    (h : (vecAssign s M).2.Holds R asg) :
    (vecAssign s M).1.buf.length = M ∧
    ∃ n : Nat, n ≤ M ∧ asg (vecAssign s M).1.len = (n : F) :=
  (vecAssign_sound hR s M asg ok h).2

/-- The bundled state invariant holds at the start of every synthesis. -/
example (asg : Cell → F) : (St.init 4 8 : St F).OK asg :=
  ⟨by simp [St.init], by simp [St.init], by simp [St.init], fun p hp => by simp [St.init] at hp,
   fun p hp => by simp [St.init] at hp⟩

/-- **`resize::<L>` keeps the payload**: same length cell, `L` buffer cells, and position
`get_lims::<L, A>(n).start + k` of the new buffer is the CELL at position
`get_lims::<M, A>(n).start + k` of the old buffer, for every `k`. -/
theorem vector_resize_keeps_payload (s : St F) (v : VecCells) (M L A n k : Nat) (hA : 0 < A)
    (hAM : A ∣ M) (hn : n ≤ M) (hML : M ≤ L) (hbuf : v.buf.length = M) :
    (vecResize s v M L).1.len = v.len ∧ (vecResize s v M L).1.buf.length = L ∧
    (vecResize s v M L).1.buf.getD ((getLims L A n).1 + k) (advc 0 0 0)
      = v.buf.getD ((getLims M A n).1 + k) (advc 0 0 0) :=
  vecResize_payload s v M L A n k hA hAM hn hML hbuf

/-- **`trim_beginning`, index arithmetic**: `trimSrc M A len n i` is the position of the old buffer
that position `i` of the new buffer reads (`none` = a filler) in the buffer the code builds (`A`
fillers, the input without its first `n mod A` cells, `n mod A` fillers; read at `i` when
`len mod A ≠ 0 ∧ len mod A ≤ n mod A`, else at `A + i`): for every `M`, `A ∣ M`, `len ≤ M`,
`n ≤ len`, position `k` of the new payload reads element `n + k` of the old payload. -/
theorem trim_beginning_index_arith (M A len n k : Nat) (hA : 0 < A) (hAM : A ∣ M)
    (hlen : len ≤ M) (hn : n ≤ len) (hk : k < len - n) :
    trimSrc M A len n ((getLims M A (len - n)).1 + k) = some ((getLims M A len).1 + n + k) :=
  trim_index_correct M A len n k hA hAM hlen hn hk

/-- **`trim_beginning` keeps the payload** (circuit level): for every `M`, every `A ∣ M`, every
length `len ≤ M` held by the length cell and EVERY accepted assignment — whatever the prover
assigns to the remainder `len mod A`, its quotient, the comparison hint of `leq_fixed` and the
zero-test hint — `n ≤ len` (a shorter vector makes the circuit unsatisfiable), the new length cell
holds `len − n`, the new buffer has `M` cells, and position `k` of the new payload
(`get_lims(len − n).start + k`) holds the value of position `n + k` of the old payload, for every
`k < len − n`. (`2·2^(⌊log₂ A⌋+1) ≤ p`: the `MAX_BOUND_IN_BITS` condition of the comparison.) -/
theorem trim_beginning_keeps_payload (hR : RangeSound R) (p : Nat)
    (hinj : ∀ a b : Nat, a < p → b < p → ((a : Nat) : F) = ((b : Nat) : F) → a = b)
    (s : St F) (v : VecCells) (M A n len : Nat) (asg : Cell → F)
    (hA : 0 < A) (hAM : A ∣ M) (hAle : A ≤ M) (hMp : M + A ≤ p) (h2M : 2 * M < p) (hnM : n ≤ M)
    (hcmp : 2 * 2 ^ (A.log2 + 1) ≤ p)
    (hlenM : len ≤ M) (hbuf : v.buf.length = M) (hlen : asg v.len = (len : F)) (ok : s.OK asg)
    (h : (vecTrimBeginning s v M A n p).2.Holds R asg) :
    n ≤ len ∧
    asg (vecTrimBeginning s v M A n p).1.len = ((len - n : Nat) : F) ∧
    (vecTrimBeginning s v M A n p).1.buf.length = M ∧
    ∀ k, k < len - n →
      asg ((vecTrimBeginning s v M A n p).1.buf.getD ((getLims M A (len - n)).1 + k) (advc 0 0 0))
        = asg (v.buf.getD ((getLims M A len).1 + n + k) (advc 0 0 0)) :=
  vecTrimBeginning_sound hR p hinj s v M A n len asg hA hAM hAle hMp h2M hnM hcmp hlenM hbuf hlen ok h

example : trimSrc 8 4 6 3 4 = some 3 ∧ trimSrc 8 4 6 3 3 = none := by decide

/-! ## Batch assignment of small values -/

/-- **`assign_many_small`** (decomposition/chip.rs; behind `assign_many` of bits and bytes): EVERY
returned cell lies in a lookup-enabled column of a row tagged with the bit length, so every
accepted assignment gives it a value below `2^k` — every batch length, every number of lookup
columns. A model that put the batch in the value columns starting at column 0 (seeded change
C04-3) could not prove this: column 0 carries no lookup (`lookups_match_model`). -/
theorem assign_many_small_sound (hR : RangeSound R) (s : St F) (n k : Nat) (asg : Cell → F)
    (h : (assignManySmall s n k).2.Holds R asg) :
    ∀ c ∈ (assignManySmall s n k).1, ∃ N : Nat, N < 2 ^ k ∧ asg c = (N : F) :=
  assignManySmall_sound hR s n k asg h

/-- The batch is not empty and sits in columns `1..`: 5 values with 4 lookup columns. -/
example : (assignManySmall (St.init 4 8 : St F) 5 8).1 =
    [⟨0, 0, .adv 1⟩, ⟨0, 0, .adv 2⟩, ⟨0, 0, .adv 3⟩, ⟨0, 0, .adv 4⟩, ⟨1, 0, .adv 1⟩] := by
  simp [assignManySmall, St.init, St.addRegion, St.queryTag, advc, List.range, List.range.loop]

/-! ## Set (non-)membership maps (circuits/src/map/map_gadget.rs, map/cpu.rs)

The map gadget is generic in its hash chip. The theorems are about the gadget's own constraints
(`verify_path`, `get`, `insert` in Model/C04/Map.lean) for ANY hash emitter `hashE` that is a
sound implementation of a function `H` (`HashSound`: what property C07 establishes for the
Poseidon chip), and the membership statement needs `H` to be injective — collision resistance,
idealised and stated as the hypothesis `hcr` (as C03/C15 do for the transcript hash).
Non-membership is membership of the default value 0 at the key's leaf (`MapMt::get`). -/

/-- The assumption `HashSound` is satisfiable: the hash chip the correspondence harness plugs into
the real `MapGadget` (`h(x, y) = x + 2y + 7 + 3xy`, one `add_and_mul`) satisfies it. -/
theorem hash_assumption_satisfiable :
    HashSound R (toyHashE (F := F)) (fun x y => x + 2 * y + 7 + 3 * x * y) := toyHash_sound

/-- **The Merkle root is binding** under injectivity of the hash: two openings of the same root
along the same direction bits have the same leaf value. -/
theorem merkle_root_binding (H : F → F → F) (hcr : ∀ a b c d : F, H a b = H c d → a = c ∧ b = d)
    (bits path path' : List F) (v v' : F) (hl : path.length = path'.length)
    (h : climbSpec H v (bits.zip path) = climbSpec H v' (bits.zip path')) : v = v' :=
  merkle_binding H hcr bits path path' v v' hl h

/-- **`verify_path`**: for EVERY accepted assignment (value, siblings, hash internals and the bit
decomposition chosen by the prover) the root cell equals the recomputation from the value cell
along the first 128 CANONICAL bits of `H(key, 0)` — the non-canonical alias `H(key,0) + p` of the
index is rejected — and the 128 sibling cells. -/
theorem map_verify_path_sound {hashE : St F → Cell → Cell → Cell × St F} {H : F → F → F}
    (hH : HashSound R hashE H) (hR : RangeSound R) (p : Nat) (hodd : p % 2 = 1)
    (hp2 : 2 < p) (hp0 : ((p : Nat) : F) = 0)
    (hinj : ∀ a b : Nat, a < p → b < p → ((a : Nat) : F) = ((b : Nat) : F) → a = b)
    (numBits : Nat) (hnb0 : 0 < numBits) (hnb : 2 ^ numBits ≤ 2 * p)
    (s : St F) (key value : Cell) (proof : List Cell) (root : Cell) (asg : Cell → F) (ok : s.OK asg)
    (h : (mapVerifyPath hashE s key value proof root numBits ((p + 1) / 2)).Holds R asg) :
    ∃ bs : List Nat, bs.length = numBits ∧ (∀ b ∈ bs, b < 2) ∧ fromLimbs 2 bs < p ∧
      H (asg key) 0 = ((fromLimbs 2 bs : Nat) : F) ∧
      asg root = climbSpec H (asg value)
        (((bs.take treeHeight).map (fun (n : Nat) => (n : F))).zip (proof.map asg)) :=
  (mapVerifyPath_sound hH hR p hodd hp2 hp0 hinj numBits hnb0 hnb s key value proof root asg ok h).2

/-- **`get` (membership / non-membership)**: accepted `get(k) = v` ⇒ `(k, v)` is in the committed
map. Formally: whatever opening `(v₀, path₀)` the root has at the leaf addressed by the canonical
bits of `H(k, 0)` — in particular the one the committed map `MapMt` provides (`get_path`), with
`v₀` its value for `k`, or the default 0 if `k` is absent — every accepted assignment of the
circuit returns `v₀`. Assumptions: `HashSound` (the hash chip implements `H`) and `hcr` (`H` is
injective: collision resistance, idealised). -/
theorem map_get_sound {hashE : St F → Cell → Cell → Cell × St F} {H : F → F → F}
    (hH : HashSound R hashE H) (hcr : ∀ a b c d : F, H a b = H c d → a = c ∧ b = d)
    (hR : RangeSound R) (p : Nat) (hodd : p % 2 = 1)
    (hp2 : 2 < p) (hp0 : ((p : Nat) : F) = 0)
    (hinj : ∀ a b : Nat, a < p → b < p → ((a : Nat) : F) = ((b : Nat) : F) → a = b)
    (numBits : Nat) (hnb0 : 0 < numBits) (hnb : 2 ^ numBits ≤ 2 * p)
    (s : St F) (key root : Cell) (asg : Cell → F) (ok : s.OK asg)
    (h : (mapGet hashE s key root numBits ((p + 1) / 2)).2.Holds R asg)
    (v₀ : F) (path₀ : List F) (bs₀ : List Nat) (hl₀ : bs₀.length = numBits)
    (hb₀ : ∀ b ∈ bs₀, b < 2) (hlt₀ : fromLimbs 2 bs₀ < p)
    (hk₀ : H (asg key) 0 = ((fromLimbs 2 bs₀ : Nat) : F)) (hp₀ : path₀.length = treeHeight)
    (hopen : climbSpec H v₀ (((bs₀.take treeHeight).map (fun (n : Nat) => (n : F))).zip path₀)
      = asg root) :
    asg (mapGet hashE s key root numBits ((p + 1) / 2)).1 = v₀ :=
  mapGet_sound hH hcr hR p hodd hp2 hp0 hinj numBits hnb0 hnb s key root asg ok h v₀ path₀ bs₀ hl₀
    hb₀ hlt₀ hk₀ hp₀ hopen

/-- **`insert`**: every accepted assignment exhibits one list of 128 siblings and one current leaf
value such that the old root is the climb from the current value and the NEW root the climb from
the inserted value, along the same siblings and the same canonical bits of `H(key, 0)`: the new
root commits to the old map with exactly the leaf of `key` replaced. -/
theorem map_insert_sound {hashE : St F → Cell → Cell → Cell × St F} {H : F → F → F}
    (hH : HashSound R hashE H) (hR : RangeSound R) (p : Nat) (hodd : p % 2 = 1)
    (hp2 : 2 < p) (hp0 : ((p : Nat) : F) = 0)
    (hinj : ∀ a b : Nat, a < p → b < p → ((a : Nat) : F) = ((b : Nat) : F) → a = b)
    (numBits : Nat) (hnb0 : 0 < numBits) (hnb : 2 ^ numBits ≤ 2 * p)
    (s : St F) (key value root : Cell) (asg : Cell → F) (ok : s.OK asg)
    (h : (mapInsert hashE s key value root numBits ((p + 1) / 2)).2.Holds R asg) :
    ∃ (bs : List Nat) (path : List F) (cur : F), bs.length = numBits ∧ (∀ b ∈ bs, b < 2) ∧
      fromLimbs 2 bs < p ∧ H (asg key) 0 = ((fromLimbs 2 bs : Nat) : F) ∧ path.length = treeHeight ∧
      asg root = climbSpec H cur (((bs.take treeHeight).map (fun (n : Nat) => (n : F))).zip path) ∧
      asg (mapInsert hashE s key value root numBits ((p + 1) / 2)).1
        = climbSpec H (asg value) (((bs.take treeHeight).map (fun (n : Nat) => (n : F))).zip path) :=
  mapInsert_sound hH hR p hodd hp2 hp0 hinj numBits hnb0 hnb s key value root asg ok h

/-- The CPU reference of the map on the harness's hash (evaluated by the `eval` requests against
the real `MapMt`): the empty map, and a key read back. -/
example : mapLookup [(3, 10), (5, 11), (3, 12)] 3 = 12 ∧ mapLookup [(3, 10)] 4 = 0 := by decide

/-- Non-vacuity of the hypotheses `CacheOK`/`Holds` of the soundness theorems: the state after
`assign; assign` has an empty constant cache, and the honest witness of `is_equal` satisfies
`Holds`, so `is_equal_sound` applies to it. -/
example (x y : F) :
    (assign (assign (St.init 4 8 : St F)).2).2.CacheOK (witIsEqual x y) ∧
    (isEqual (assign (assign (St.init 4 8 : St F)).2).2 ⟨0, 0, .adv 0⟩ ⟨1, 0, .adv 0⟩).2.Holds
      (fun _ _ => True) (witIsEqual x y) :=
  ⟨by intro p hp; simp [assign, St.init, St.addRegion] at hp,
   (isEqual_complete (R := fun _ _ => True) x y).1⟩

end MidnightZK.C04
