import MidnightZK.Proofs.C04.Gates
import MidnightZK.Proofs.C04.Sound2
/-!
# C04 — native-field gadgets are complete and sound w.r.t. their mathematical meaning

The theorems quantify over EVERY field `F`, EVERY assignment `asg : Cell → F` of the advice cells
(honest or adversarial), every synthesis state `s` the operation may be emitted into (any
earlier regions, any content of the constant cache that the earlier constraints justify:
`s.CacheOK asg`), and every value of the operation's constants. `R` is the table-membership
predicate of the pow2range lookup. `St.Holds R s' asg` says that `asg` satisfies every gate on
every row, every lookup and every copy constraint of the circuit built so far.

The emitters (`MidnightZK/Model/C04/*.lean`) are compared, region by region and cell by cell,
with the recorded real synthesis on every run; the gate polynomials are regenerated from the
real `configure` on every run (`Gen/C04Gates.lean`).
-/
namespace MidnightZK.C04
open Lean.Grind
attribute [local instance] Semiring.natCast
set_option linter.unusedSectionVars false

variable {F : Type} [Field F] [DecidableEq F]
variable {R : Nat → F → Prop}

/-! ## The generated gates are the gates of the model -/

/-- The polynomial of `arith_gate` dumped from the real `NativeChip::configure` is
`q_arith · (k + Σ cᵢ·vᵢ + q_next·v₀(ωX) + m_ab·v₀·v₁ + m_ac·v₀·v₂)` with the column layout the
model assumes. -/
theorem arith_gate_eq (env : Env F) :
    Gen.arith_gate_0.eval env = env.sel 0 * (env.fixed 3 0 + env.fixed 4 0 * env.adv 0 0
      + env.fixed 5 0 * env.adv 1 0 + env.fixed 6 0 * env.adv 2 0 + env.fixed 7 0 * env.adv 3 0
      + env.fixed 8 0 * env.adv 4 0 + env.fixed 0 0 * env.adv 0 1
      + env.fixed 1 0 * env.adv 0 0 * env.adv 1 0 + env.fixed 2 0 * env.adv 0 0 * env.adv 2 0) :=
  arith_gate_eval env

/-- The dumped `12_minus_34` gate is `q·(v₁ + v₂ − v₃ − v₄)`. -/
theorem gate_12_minus_34_eq (env : Env F) :
    Gen.g_12_minus_34_0.eval env
      = env.sel 1 * (env.adv 1 0 + env.adv 2 0 - env.adv 3 0 - env.adv 4 0) :=
  g1234_gate_eval env

/-- The dumped `parallel_add_gate` is `q·(vᵢ + cᵢ − vᵢ(ωX))` on the first three columns. -/
theorem parallel_add_gate_eq (env : Env F) :
    Gen.parallel_add_gate_0.eval env = env.sel 2 * (env.adv 0 0 + env.fixed 4 0 - env.adv 0 1) ∧
    Gen.parallel_add_gate_1.eval env = env.sel 2 * (env.adv 1 0 + env.fixed 5 0 - env.adv 1 1) ∧
    Gen.parallel_add_gate_2.eval env = env.sel 2 * (env.adv 2 0 + env.fixed 6 0 - env.adv 2 1) :=
  par_add_gate_eval env

/-- On every row of every region, *all* generated gate polynomials vanish (under the selectors
and fixed cells the model writes on that row) iff the model's closed-form row predicate holds:
`St.Holds` is a statement about the real gates. -/
theorem gates_match_model (asg : Cell → F) (k off : Nat) (row : Row F) :
    (∀ g ∈ (Gen.gates : List (Expr F)), g.eval (rowEnv asg k off row) = 0)
      ↔ row.gatesHold asg k off :=
  gates_iff_gatesHold asg k off row

/-- The dumped lookup arguments are `(tag_col, q_pow2range · vᵢ)` for `i = 1..nr` looked up in
the two table columns, for every supported number of pow2range columns. -/
theorem lookups_match_model (env : Env F) :
    (Gen.lookups1.map (fun l => l.inputs.map (Expr.eval env))) =
      [[env.fixed tagCol 0, env.sel 3 * env.adv 1 0]] ∧
    (Gen.lookups2.map (fun l => l.inputs.map (Expr.eval env))) =
      [[env.fixed tagCol 0, env.sel 3 * env.adv 1 0], [env.fixed tagCol 0, env.sel 3 * env.adv 2 0]] ∧
    (Gen.lookups3.map (fun l => l.inputs.map (Expr.eval env))) =
      [[env.fixed tagCol 0, env.sel 3 * env.adv 1 0], [env.fixed tagCol 0, env.sel 3 * env.adv 2 0],
       [env.fixed tagCol 0, env.sel 3 * env.adv 3 0]] ∧
    (Gen.lookups4.map (fun l => l.inputs.map (Expr.eval env))) =
      [[env.fixed tagCol 0, env.sel 3 * env.adv 1 0], [env.fixed tagCol 0, env.sel 3 * env.adv 2 0],
       [env.fixed tagCol 0, env.sel 3 * env.adv 3 0], [env.fixed tagCol 0, env.sel 3 * env.adv 4 0]] := by
  simp [Gen.lookups1, Gen.lookups2, Gen.lookups3, Gen.lookups4, Expr.eval, tagCol]

/-- The native modulus dumped from the running code has the bit length the code declares. -/
theorem native_modulus_bits : Gen.nativeModulus.log2 + 1 = Gen.nativeNumBits ∧
    Gen.nativeModulus % 2 = 1 := by decide +kernel

/-! ## Constraints are only ever added -/

/-- Whatever is emitted later, an assignment accepted by the final circuit satisfies the
constraints of every earlier operation (shown here for the operations used as building
blocks; each `_sound` theorem below is therefore valid in any context). -/
theorem emitters_only_add_constraints (s : St F) (x y : Cell) (c : F) (terms : List (F × Cell)) :
    s.Ext (linearCombination s terms c).2 ∧ s.Ext (mul s x y (some c)).2 ∧
    s.Ext (isEqual s x y).2 ∧ s.Ext (isEqualToFixed s x c).2 ∧ s.Ext (inv0 s x).2 ∧
    s.Ext (div s x y).2 ∧ s.Ext (condSwap s c' x y).2 :=
  ⟨linearCombination_ext .., mul_ext .., isEqual_ext .., isEqualToFixed_ext .., inv0_ext ..,
   div_ext .., condSwap_ext ..⟩

/-! ## Arithmetic -/

/-- `linear_combination` (hence `add`, `sub`, `neg`, `add_constant`, `mul_by_constant`,
`not`, recomposition from bits/bytes): for EVERY number of terms, if the `q_next` chain of
`assign_linear_combination_aux` is satisfied then the result cell equals `k + Σ cᵢ·xᵢ`. -/
theorem linear_combination_sound (s : St F) (terms : List (F × Cell)) (k : F) (asg : Cell → F)
    (hc : s.CacheOK asg) (h : (linearCombination s terms k).2.Holds R asg) :
    asg (linearCombination s terms k).1 = k + termSum asg terms :=
  (linearCombination_sound s terms k asg hc h).2.2

/-- The chain itself, for every pow2range column count `1..4` as well (it is the recomposition
identity of `decompose_core`). -/
theorem lc_chain_sound (asg : Cell → F) (nr k cu : Nat) (h0 : 0 < cu) (h4 : cu ≤ 4)
    (coeffs : List F) (const : F) (off : Nat)
    (h : rowsHold R nr asg k off (lcRows cu coeffs const)) :
    asg (advc k off 0) = const + lcSum asg cu k off coeffs 0 :=
  lcRows_sound asg nr k cu h0 h4 coeffs const off h

/-- `add`, `sub`, `neg`. -/
theorem add_sub_neg_sound (s : St F) (x y : Cell) (asg : Cell → F) (hc : s.CacheOK asg) :
    ((add s x y).2.Holds R asg → asg (add s x y).1 = asg x + asg y) ∧
    ((sub s x y).2.Holds R asg → asg (sub s x y).1 = asg x - asg y) ∧
    ((neg s x).2.Holds R asg → asg (neg s x).1 = - asg x) :=
  ⟨fun h => (add_sound s x y asg hc h).2, fun h => (sub_sound s x y asg hc h).2,
   fun h => (neg_sound s x asg hc h).2⟩

/-- `add_constant`, `mul_by_constant` with their shortcuts for the constants 0 and 1. -/
theorem add_mul_constant_sound (s : St F) (x : Cell) (c : F) (asg : Cell → F) (hc : s.CacheOK asg) :
    ((addConstant s x c).2.Holds R asg → asg (addConstant s x c).1 = asg x + c) ∧
    ((mulByConstant s x c).2.Holds R asg → asg (mulByConstant s x c).1 = c * asg x) :=
  ⟨fun h => (addConstant_sound s x c asg hc h).2, fun h => (mulByConstant_sound s x c asg hc h).2⟩

/-- `add_and_mul` / `add_and_double_mul`: one row of the arithmetic gate. -/
theorem add_and_double_mul_sound (s : St F) (a : F) (x : Cell) (b : F) (y : Cell) (c : F) (z : Cell)
    (k m1 m2 : F) (asg : Cell → F) (hc : s.CacheOK asg)
    (h : (addAndDoubleMul s a x b y c z k m1 m2).2.Holds R asg) :
    asg (addAndDoubleMul s a x b y c z k m1 m2).1
      = a * asg x + b * asg y + c * asg z + k + m1 * asg x * asg y + m2 * asg x * asg z :=
  (addAndDoubleMul_sound s a x b y c z k m1 m2 asg hc h).2

/-- `mul` (and `square`, `pow`, `and`): `out = k·x·y`, whichever of the shortcuts through the
constant cache is taken. -/
theorem mul_sound' (s : St F) (x y : Cell) (k : Option F) (asg : Cell → F) (hc : s.CacheOK asg)
    (h : (mul s x y k).2.Holds R asg) : asg (mul s x y k).1 = k.getD 1 * asg x * asg y :=
  (mul_sound s x y k asg hc h).2

/-- `inv`: no assignment of the hint makes the circuit accept unless `x·out = 1`; in particular
`x = 0` is unsatisfiable. -/
theorem inv_sound' (s : St F) (x : Cell) (asg : Cell → F) (hc : s.CacheOK asg)
    (h : (inv s x).2.Holds R asg) : asg x * asg (inv s x).1 = 1 ∧ asg x ≠ 0 := by
  have := (inv_sound s x asg hc h).2
  exact ⟨this, fun h0 => by rw [h0] at this; grind⟩

/-- `div`: `y·out = x` and `y ≠ 0`. -/
theorem div_sound' (s : St F) (x y : Cell) (asg : Cell → F) (hc : s.CacheOK asg)
    (h : (div s x y).2.Holds R asg) : asg y * asg (div s x y).1 = asg x ∧ asg y ≠ 0 :=
  (div_sound s x y asg hc h).2

/-- `inv0`: the output is the field inverse of `x`, and `0` for `x = 0`. -/
theorem inv0_sound' (s : St F) (x : Cell) (asg : Cell → F) (hc : s.CacheOK asg)
    (h : (inv0 s x).2.Holds R asg) : asg (inv0 s x).1 = (asg x)⁻¹ :=
  (inv0_sound s x asg hc h).2

/-! ## Assertions -/

/-- `assert_equal`, `assert_not_equal`, `assert_equal_to_fixed`, `assert_not_equal_to_fixed`
(hence `assert_zero`, `assert_non_zero`): satisfiable only when the asserted relation holds. -/
theorem assertions_sound (s : St F) (x y : Cell) (c : F) (asg : Cell → F) (hc : s.CacheOK asg) :
    ((assertEqual s x y).Holds R asg → asg x = asg y) ∧
    ((assertNotEqual s x y).Holds R asg → asg x ≠ asg y) ∧
    ((assertEqualToFixed s x c).Holds R asg → asg x = c) ∧
    ((assertNotEqualToFixed s x c).Holds R asg → asg x ≠ c) :=
  ⟨fun h => (assertEqual_sound s x y asg hc h).2, fun h => (assertNotEqual_sound s x y asg hc h).2,
   fun h => (assertEqualToFixed_sound s x c asg hc h).2,
   fun h => (assertNotEqualToFixed_sound s x c asg hc h).2⟩

/-- `assign` of a bit: the cell is 0 or 1 for every accepted assignment. -/
theorem assign_bit_sound (s : St F) (asg : Cell → F) (hc : s.CacheOK asg)
    (h : (assignBit s).2.Holds R asg) : asg (assignBit s).1 = 0 ∨ asg (assignBit s).1 = 1 :=
  (assignBit_sound s asg hc h).2

/-! ## Zero and equality tests (two-equation hint pattern) -/

/-- `is_equal`: for every value of the hint `aux`, the output is the bit `[x = y]`. -/
theorem is_equal_sound (s : St F) (x y : Cell) (asg : Cell → F) (hc : s.CacheOK asg)
    (h : (isEqual s x y).2.Holds R asg) :
    asg (isEqual s x y).1 = if asg x = asg y then 1 else 0 := by
  rcases (isEqual_sound s x y asg hc h).2 with ⟨a, b⟩ | ⟨a, b⟩ <;> simp [a, b]

/-- `is_not_equal`. -/
theorem is_not_equal_sound (s : St F) (x y : Cell) (asg : Cell → F) (hc : s.CacheOK asg)
    (h : (isNotEqual s x y).2.Holds R asg) :
    asg (isNotEqual s x y).1 = if asg x = asg y then 0 else 1 := by
  rcases (isNotEqual_sound s x y asg hc h).2 with ⟨a, b⟩ | ⟨a, b⟩ <;> simp [a, b]

/-- `is_equal_to_fixed` (hence `is_zero`), for every constant `c`. -/
theorem is_equal_to_fixed_sound (s : St F) (x : Cell) (c : F) (asg : Cell → F) (hc : s.CacheOK asg)
    (h : (isEqualToFixed s x c).2.Holds R asg) :
    asg (isEqualToFixed s x c).1 = if asg x = c then 1 else 0 := by
  rcases (isEqualToFixed_sound s x c asg hc h).2 with ⟨a, b⟩ | ⟨a, b⟩ <;> simp [a, b]

/-- `is_not_equal_to_fixed`. -/
theorem is_not_equal_to_fixed_sound (s : St F) (x : Cell) (c : F) (asg : Cell → F)
    (hc : s.CacheOK asg) (h : (isNotEqualToFixed s x c).2.Holds R asg) :
    asg (isNotEqualToFixed s x c).1 = if asg x = c then 0 else 1 := by
  rcases (isNotEqualToFixed_sound s x c asg hc h).2 with ⟨a, b⟩ | ⟨a, b⟩ <;> simp [a, b]

/-! ## Control flow -/

/-- `select` with a boolean condition. -/
theorem select_sound' (s : St F) (c x y : Cell) (asg : Cell → F) (hc : s.CacheOK asg)
    (hb : asg c = 0 ∨ asg c = 1) (h : (select s c x y).2.Holds R asg) :
    asg (select s c x y).1 = if asg c = 1 then asg x else asg y := by
  have := (select_sound s c x y asg hc h).2
  rcases hb with hb | hb
  · have h01 : ¬ ((0 : F) = 1) := Field.zero_ne_one
    rw [this, hb]; simp [h01]; grind
  · rw [this, hb]; simp; grind

/-- `cond_swap` (arithmetic gate and 12−34 gate on one row): the outputs are the inputs, swapped
iff the condition is 1. -/
theorem cond_swap_sound (s : St F) (c x y : Cell) (asg : Cell → F) (hc : s.CacheOK asg)
    (hb : asg c = 0 ∨ asg c = 1) (h : (condSwap s c x y).2.Holds R asg) :
    (asg (condSwap s c x y).1.1, asg (condSwap s c x y).1.2)
      = if asg c = 1 then (asg y, asg x) else (asg x, asg y) := by
  obtain ⟨_, h2, h1⟩ := condSwap_sound s c x y asg hc h
  rcases hb with hb | hb
  · have h01 : ¬ ((0 : F) = 1) := Field.zero_ne_one
    rw [h1, h2, hb]; simp [h01]; constructor <;> grind
  · rw [h1, h2, hb]; simp; constructor <;> grind

end MidnightZK.C04
