import MidnightZK.Proofs.C17.Keys
import MidnightZK.Proofs.C17.Perm
import MidnightZK.Model.C17.Transcript
import MidnightZK.Model.C17.Params
import MidnightZK.Gen.C17Consts
/-!
# C17 — key generation is deterministic; keys survive serialisation unchanged
Property theorems (helper lemmas live in `MidnightZK/Proofs/C17`).
-/
namespace MidnightZK.C17
open MidnightZK.C12 (chunks)

/-- A small lawful codec used by the non-vacuity examples (a "point" is one byte; compressed
image `[p]`, raw image `[p, p]`). -/
def toyCodec : Codec UInt8 :=
  { plen := 1, encC := fun p => [p], encR := fun p => [p, p], decC := fun b => b.head?,
    decR := fun b => b.head?, decU := fun b => b.headD 0 }

theorem toyCodec_lawful : toyCodec.Lawful :=
  ⟨fun _ => rfl, fun _ => rfl, fun _ => rfl, fun _ => rfl, fun _ => rfl⟩

def toyF : FCodec UInt8 := { flen := 1, enc := fun x => [x], dec := fun b => b.head?, decU := fun b => b.headD 0 }
theorem toyF_lawful : toyF.Lawful := ⟨fun _ => rfl, fun _ => rfl, fun _ => rfl⟩

/-! ## Verifying key: write, then read -/

section
variable {P F : Type}

/-- `vk_roundtrip`: for every element codec satisfying the round-trip laws, every key whose
`k` passes the reader's checks, every pair of compatible formats (same format, or the two raw
ones in either direction) and whatever follows the key in the buffer:
`VerifyingKey::read_from_cs` applied to the output of `VerifyingKey::write` returns exactly
the written `k`, fixed commitments and permutation commitments and leaves the rest unread. -/
theorem vk_roundtrip (c : Codec P) (hc : c.Lawful) (v : UInt8) (fa fb : Format)
    (hcompat : fa.compat fb = true) (sh : Shape) (vk : VK P) (rest : Bytes)
    (hk : vk.k ≤ sh.S) (hk8 : vk.k < 256) (hext : extendedK vk.k (sh.degree - 1) ≤ sh.S)
    (hf : vk.fixed.length = sh.nFixed) (hp : vk.perm.length = sh.nPerm) (h32 : sh.nFixed < 2 ^ 32) :
    readVK c v fb sh (writeVK c v fa vk ++ rest) = .ok (vk, rest) := by
  have hkb : (byteOf vk.k).toNat = vk.k := by rw [byteOf_toNat]; omega
  have e1 : readExact 1 (v :: byteOf vk.k :: (le32 vk.fixed.length ++ (c.writeMany fa vk.fixed ++
      (c.writeMany fa vk.perm ++ rest)))) = .ok ([v], byteOf vk.k :: (le32 vk.fixed.length ++
      (c.writeMany fa vk.fixed ++ (c.writeMany fa vk.perm ++ rest)))) := by
    simp [readExact]
  have e2 : readExact 1 (byteOf vk.k :: (le32 vk.fixed.length ++ (c.writeMany fa vk.fixed ++
      (c.writeMany fa vk.perm ++ rest)))) = .ok ([byteOf vk.k], le32 vk.fixed.length ++
      (c.writeMany fa vk.fixed ++ (c.writeMany fa vk.perm ++ rest))) := by
    simp [readExact]
  have e3 := readExact_append' 4 (le32 vk.fixed.length)
    (c.writeMany fa vk.fixed ++ (c.writeMany fa vk.perm ++ rest)) (le32_length _)
  have hlen : ofLe32 (le32 vk.fixed.length) = sh.nFixed := by rw [ofLe32_le32 _ (by omega), hf]
  have r1 := Codec.readMany_writeMany c hc fa fb hcompat vk.fixed (c.writeMany fa vk.perm ++ rest)
  have r2 := Codec.readMany_writeMany c hc fa fb hcompat vk.perm rest
  rw [hf] at r1
  rw [hp] at r2
  unfold readVK writeVK
  simp only [List.cons_append, List.nil_append, List.append_assoc, e1, e2, e3, hlen, r1, r2]
  simp [hkb, Nat.not_lt.mpr hk, Nat.not_lt.mpr hext]

example : readVK toyCodec 3 .rawBytesUnchecked ⟨2, 1, 4, 32⟩
    (writeVK toyCodec 3 .rawBytes ⟨5, [7, 8], [9]⟩ ++ [1, 2]) = .ok (⟨5, [7, 8], [9]⟩, [1, 2]) := by
  rfl

/-- `vk_write_length`: the image has exactly `6 + (#fixed + #perm) · byte_length(format)` bytes
(version, k, little-endian u32 count, the commitments; no count for the permutation part). -/
theorem vk_write_length (c : Codec P) (hc : c.Lawful) (v : UInt8) (fmt : Format) (vk : VK P) :
    (writeVK c v fmt vk).length = vkLen c fmt vk.fixed.length vk.perm.length := by
  simp [writeVK, vkLen, le32_length, Codec.writeMany_length c hc, Nat.add_mul]
  omega

/-- `vk_read_consumes`: whenever the reader succeeds — on any bytes, written by anyone — it has
consumed exactly `6 + (nFixed + nPerm) · byte_length(format)` bytes and returned the numbers of
commitments the circuit prescribes. -/
theorem vk_read_consumes (c : Codec P) (v : UInt8) (fmt : Format) (sh : Shape) (bs r : Bytes)
    (vk : VK P) (h : readVK c v fmt sh bs = .ok (vk, r)) :
    bs.length = vkLen c fmt sh.nFixed sh.nPerm + r.length ∧
      vk.fixed.length = sh.nFixed ∧ vk.perm.length = sh.nPerm :=
  readVK_consumes c v fmt sh h

/-- `raw_formats_same_bytes`: `RawBytes` and `RawBytesUnchecked` write identical images (the
format only matters to the reader). -/
theorem raw_formats_same_bytes (c : Codec P) (v : UInt8) (vk : VK P) :
    writeVK c v .rawBytes vk = writeVK c v .rawBytesUnchecked vk := rfl

/-- `format_mismatch_rejected`: a key with at least one commitment written in the compressed
format is never accepted by a raw reader (checked or unchecked) for the same circuit: whenever a
raw read succeeds it has consumed `6 + 2·m·plen` bytes, and the image has only `6 + m·plen`.
(The outcome is an error value for `RawBytes` and a panic of the unchecked element reader for
`RawBytesUnchecked`; in no case a key.) -/
theorem format_mismatch_rejected (c : Codec P) (hc : c.Lawful) (hpl : 0 < c.plen) (v : UInt8)
    (fb : Format) (hfb : fb ≠ .processed) (sh : Shape) (vk : VK P)
    (hf : vk.fixed.length = sh.nFixed) (hp : vk.perm.length = sh.nPerm)
    (hm : 0 < vk.fixed.length + vk.perm.length) :
    ∀ key r, readVK c v fb sh (writeVK c v .processed vk) ≠ .ok (key, r) := by
  intro key r h
  have ⟨hl, _, _⟩ := readVK_consumes c v fb sh h
  have hw := vk_write_length c hc v .processed vk
  have hM : 0 < (vk.fixed.length + vk.perm.length) * c.plen := Nat.mul_pos hm hpl
  have h2 : (vk.fixed.length + vk.perm.length) * (2 * c.plen) = 2 * ((vk.fixed.length + vk.perm.length) * c.plen) := by
    rw [Nat.mul_left_comm]
  cases fb
  · exact absurd rfl hfb
  all_goals
    simp only [vkLen, Codec.byteLen, ← hf, ← hp] at hl hw
    omega

example : ∀ key r, readVK toyCodec 3 .rawBytes ⟨2, 1, 4, 32⟩
    (writeVK toyCodec 3 .processed ⟨5, [7, 8], [9]⟩) ≠ .ok (key, r) :=
  format_mismatch_rejected toyCodec toyCodec_lawful (by decide) 3 .rawBytes (by decide) _ _ rfl rfl (by decide)

/-- `format_mismatch_rejected_rev_partial`: the other direction (raw image, compressed reader)
is NOT a matter of length — the compressed reader needs fewer bytes than the raw image has and
`read_from_cs` does not look at what follows the key — so refusal rests on the compressed point
decoder rejecting what it finds: if it rejects the first `plen` bytes of the raw image of the
first commitment, the read fails with a point error. (For BLS12-381 the decoder accepts a random
48-byte string with probability about 2⁻¹²⁶ because of the subgroup check; the harness observes
the refusal on every generated key.) -/
theorem format_mismatch_rejected_rev_partial (c : Codec P) (hc : c.Lawful) (v : UInt8) (fa : Format)
    (hfa : fa ≠ .processed) (sh : Shape) (k : Nat) (p : P) (fixed perm : List P)
    (hk : k ≤ sh.S) (hk8 : k < 256) (hext : extendedK k (sh.degree - 1) ≤ sh.S)
    (hf : (p :: fixed).length = sh.nFixed) (h32 : sh.nFixed < 2 ^ 32)
    (hrej : c.decC ((c.encR p).take c.plen) = none) :
    readVK c v .processed sh (writeVK c v fa ⟨k, p :: fixed, perm⟩) = .error .point := by
  have hkb : (byteOf k).toNat = k := by rw [byteOf_toNat]; omega
  have e1 : ∀ t : Bytes, readExact 1 (v :: t) = .ok ([v], t) := by intro t; simp [readExact]
  have e2 : ∀ t : Bytes, readExact 1 (byteOf k :: t) = .ok ([byteOf k], t) := by intro t; simp [readExact]
  have e3 : ∀ t : Bytes, readExact 4 (le32 (p :: fixed).length ++ t) = .ok (le32 (p :: fixed).length, t) :=
    fun t => readExact_append' 4 _ t (le32_length _)
  have hlen : ofLe32 (le32 (p :: fixed).length) = sh.nFixed := by rw [ofLe32_le32 _ (by omega), hf]
  have henc : c.enc fa p = c.encR p := by cases fa <;> first | exact absurd rfl hfa | rfl
  have hread : ∀ t : Bytes, c.read .processed (c.encR p ++ t) = .error .point := by
    intro t
    have hl := hc.lenR p
    have : readExact c.plen (c.encR p ++ t) = .ok ((c.encR p).take c.plen, (c.encR p).drop c.plen ++ t) := by
      unfold readExact
      rw [if_pos (by simp; omega)]
      congr 2
      · rw [List.take_append_of_le_length (by omega)]
      · rw [List.drop_append_of_le_length (by omega)]
    simp [Codec.read, this, hrej]
  unfold readVK writeVK
  simp only [List.cons_append, List.nil_append, List.append_assoc, e1, e2, e3, hlen]
  rw [← hf]
  simp [hkb, Nat.not_lt.mpr hk, Nat.not_lt.mpr hext, Codec.readMany, Codec.writeMany, henc, hread]

/-- `vk_read_rejects_version`: any first byte other than `VERSION` is refused before anything
else is looked at. -/
theorem vk_read_rejects_version (c : Codec P) (v b : UInt8) (fmt : Format) (sh : Shape) (t : Bytes)
    (hb : b ≠ v) : readVK c v fmt sh (b :: t) = .error .version := by
  simp [readVK, readExact, hb]

/-- `vk_read_rejects_count`: a header whose commitment count differs from the number of fixed
columns plus selectors of the circuit is refused (before any point is decoded). -/
theorem vk_read_rejects_count (c : Codec P) (v kb : UInt8) (fmt : Format) (sh : Shape) (n : Nat) (t : Bytes)
    (hn : n < 2 ^ 32) (hne : n ≠ sh.nFixed) (hk : kb.toNat ≤ sh.S)
    (hext : extendedK kb.toNat (sh.degree - 1) ≤ sh.S) :
    readVK c v fmt sh (v :: kb :: (le32 n ++ t)) = .error .count := by
  have e3 := readExact_append' 4 (le32 n) t (le32_length _)
  simp [readVK, readExact, Nat.not_lt.mpr hk, Nat.not_lt.mpr hext]
  simp [readExact] at e3
  simp [e3, ofLe32_le32 n hn, hne]

end

end MidnightZK.C17
