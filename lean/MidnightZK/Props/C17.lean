import MidnightZK.Proofs.C17.Keys
import MidnightZK.Proofs.C17.Perm
import MidnightZK.Proofs.C17.Params
import MidnightZK.Proofs.C17.PkRead
import MidnightZK.Proofs.C17.Coset
import MidnightZK.Proofs.C17.Assembly
import MidnightZK.Model.C17.PkRead
import MidnightZK.Gen.C17Sites
import MidnightZK.Model.C17.Transcript
import MidnightZK.Model.C17.Params
import MidnightZK.Gen.C17Consts
import MidnightZK.Model.C17.Field
import MidnightZK.Model.C17.Stdlib
/-!
# C17 — key generation is deterministic; keys survive serialisation unchanged
Property theorems (helper lemmas live in `MidnightZK/Proofs/C17`).
-/
namespace MidnightZK.C17
open MidnightZK.C12 (chunks)

/-- A small lawful codec used by the non-vacuity examples (a "point" is one byte; compressed
image `[p]`, raw image `[p, p]`). -/
def toyCodec : Codec UInt8 :=
  { plen := 1, encC := fun p => [p], encR := fun p => [p, p], decC := fun b => b.head?,
    decR := fun b => b.head?, decU := fun b => b.headD 0 }

theorem toyCodec_lawful : toyCodec.Lawful :=
  ⟨fun _ => rfl, fun _ => rfl, fun _ => rfl, fun _ => rfl, fun _ => rfl⟩

def toyF : FCodec UInt8 := { flen := 1, enc := fun x => [x], dec := fun b => b.head?, decU := fun b => b.headD 0 }
theorem toyF_lawful : toyF.Lawful := ⟨fun _ => rfl, fun _ => rfl, fun _ => rfl⟩

/-! ## Verifying key: write, then read -/

section
variable {P F : Type}

/-- `vk_roundtrip`: for every element codec satisfying the round-trip laws, every key whose
`k` passes the reader's checks, every pair of compatible formats (same format, or the two raw
ones in either direction) and whatever follows the key in the buffer:
`VerifyingKey::read_from_cs` applied to the output of `VerifyingKey::write` returns exactly
the written `k`, fixed commitments and permutation commitments and leaves the rest unread. -/
theorem vk_roundtrip (c : Codec P) (hc : c.Lawful) (v : UInt8) (fa fb : Format)
    (hcompat : fa.compat fb = true) (sh : Shape) (vk : VK P) (rest : Bytes)
    (hk : vk.k ≤ sh.S) (hk8 : vk.k < 256) (hext : extendedK vk.k (sh.degree - 1) ≤ sh.S)
    (hf : vk.fixed.length = sh.nFixed) (hp : vk.perm.length = sh.nPerm) (h32 : sh.nFixed < 2 ^ 32) :
    readVK c v fb sh (writeVK c v fa vk ++ rest) = .ok (vk, rest) := by
  have hkb : (byteOf vk.k).toNat = vk.k := by rw [byteOf_toNat]; omega
  have e1 : readExact 1 (v :: byteOf vk.k :: (le32 vk.fixed.length ++ (c.writeMany fa vk.fixed ++
      (c.writeMany fa vk.perm ++ rest)))) = .ok ([v], byteOf vk.k :: (le32 vk.fixed.length ++
      (c.writeMany fa vk.fixed ++ (c.writeMany fa vk.perm ++ rest)))) := by
    simp [readExact]
  have e2 : readExact 1 (byteOf vk.k :: (le32 vk.fixed.length ++ (c.writeMany fa vk.fixed ++
      (c.writeMany fa vk.perm ++ rest)))) = .ok ([byteOf vk.k], le32 vk.fixed.length ++
      (c.writeMany fa vk.fixed ++ (c.writeMany fa vk.perm ++ rest))) := by
    simp [readExact]
  have e3 := readExact_append' 4 (le32 vk.fixed.length)
    (c.writeMany fa vk.fixed ++ (c.writeMany fa vk.perm ++ rest)) (le32_length _)
  have hlen : ofLe32 (le32 vk.fixed.length) = sh.nFixed := by rw [ofLe32_le32 _ (by omega), hf]
  have r1 := Codec.readMany_writeMany c hc fa fb hcompat vk.fixed (c.writeMany fa vk.perm ++ rest)
  have r2 := Codec.readMany_writeMany c hc fa fb hcompat vk.perm rest
  rw [hf] at r1
  rw [hp] at r2
  unfold readVK writeVK
  simp only [List.cons_append, List.nil_append, List.append_assoc, e1, e2, e3, hlen, r1, r2]
  simp [hkb, Nat.not_lt.mpr hk, Nat.not_lt.mpr hext]

example : readVK toyCodec 3 .rawBytesUnchecked ⟨2, 1, 4, 32⟩
    (writeVK toyCodec 3 .rawBytes ⟨5, [7, 8], [9]⟩ ++ [1, 2]) = .ok (⟨5, [7, 8], [9]⟩, [1, 2]) := by
  rfl

/-- `vk_write_length`: the image has exactly `6 + (#fixed + #perm) · byte_length(format)` bytes
(version, k, little-endian u32 count, the commitments; no count for the permutation part). -/
theorem vk_write_length (c : Codec P) (hc : c.Lawful) (v : UInt8) (fmt : Format) (vk : VK P) :
    (writeVK c v fmt vk).length = vkLen c fmt vk.fixed.length vk.perm.length := by
  simp [writeVK, vkLen, le32_length, Codec.writeMany_length c hc, Nat.add_mul]
  omega

/-- `vk_read_consumes`: whenever the reader succeeds — on any bytes, written by anyone — it has
consumed exactly `6 + (nFixed + nPerm) · byte_length(format)` bytes and returned the numbers of
commitments the circuit prescribes. -/
theorem vk_read_consumes (c : Codec P) (v : UInt8) (fmt : Format) (sh : Shape) (bs r : Bytes)
    (vk : VK P) (h : readVK c v fmt sh bs = .ok (vk, r)) :
    bs.length = vkLen c fmt sh.nFixed sh.nPerm + r.length ∧
      vk.fixed.length = sh.nFixed ∧ vk.perm.length = sh.nPerm :=
  readVK_consumes c v fmt sh h

/-- `raw_formats_same_bytes`: `RawBytes` and `RawBytesUnchecked` write identical images (the
format only matters to the reader). -/
theorem raw_formats_same_bytes (c : Codec P) (v : UInt8) (vk : VK P) :
    writeVK c v .rawBytes vk = writeVK c v .rawBytesUnchecked vk := rfl

/-- `format_mismatch_rejected`: a key with at least one commitment written in the compressed
format is never accepted by a raw reader (checked or unchecked) for the same circuit: whenever a
raw read succeeds it has consumed `6 + 2·m·plen` bytes, and the image has only `6 + m·plen`.
(The outcome is an error value for `RawBytes` and a panic of the unchecked element reader for
`RawBytesUnchecked`; in no case a key.) -/
theorem format_mismatch_rejected (c : Codec P) (hc : c.Lawful) (hpl : 0 < c.plen) (v : UInt8)
    (fb : Format) (hfb : fb ≠ .processed) (sh : Shape) (vk : VK P)
    (hf : vk.fixed.length = sh.nFixed) (hp : vk.perm.length = sh.nPerm)
    (hm : 0 < vk.fixed.length + vk.perm.length) :
    ∀ key r, readVK c v fb sh (writeVK c v .processed vk) ≠ .ok (key, r) := by
  intro key r h
  have ⟨hl, _, _⟩ := readVK_consumes c v fb sh h
  have hw := vk_write_length c hc v .processed vk
  have hM : 0 < (vk.fixed.length + vk.perm.length) * c.plen := Nat.mul_pos hm hpl
  have h2 : (vk.fixed.length + vk.perm.length) * (2 * c.plen) = 2 * ((vk.fixed.length + vk.perm.length) * c.plen) := by
    rw [Nat.mul_left_comm]
  cases fb
  · exact absurd rfl hfb
  all_goals
    simp only [vkLen, Codec.byteLen, ← hf, ← hp] at hl hw
    omega

example : ∀ key r, readVK toyCodec 3 .rawBytes ⟨2, 1, 4, 32⟩
    (writeVK toyCodec 3 .processed ⟨5, [7, 8], [9]⟩) ≠ .ok (key, r) :=
  format_mismatch_rejected toyCodec toyCodec_lawful (by decide) 3 .rawBytes (by decide) _ _ rfl rfl (by decide)

/-- `format_mismatch_rejected_rev_partial`: the other direction (raw image, compressed reader)
is NOT a matter of length — the compressed reader needs fewer bytes than the raw image has and
`read_from_cs` does not look at what follows the key — so refusal rests on the compressed point
decoder rejecting what it finds: if it rejects the first `plen` bytes of the raw image of the
first commitment, the read fails with a point error. (For BLS12-381 the decoder accepts a random
48-byte string with probability about 2⁻¹²⁶ because of the subgroup check; the harness observes
the refusal on every generated key.) -/
theorem format_mismatch_rejected_rev_partial (c : Codec P) (hc : c.Lawful) (v : UInt8) (fa : Format)
    (hfa : fa ≠ .processed) (sh : Shape) (k : Nat) (p : P) (fixed perm : List P)
    (hk : k ≤ sh.S) (hk8 : k < 256) (hext : extendedK k (sh.degree - 1) ≤ sh.S)
    (hf : (p :: fixed).length = sh.nFixed) (h32 : sh.nFixed < 2 ^ 32)
    (hrej : c.decC ((c.encR p).take c.plen) = none) :
    readVK c v .processed sh (writeVK c v fa ⟨k, p :: fixed, perm⟩) = .error .point := by
  have hkb : (byteOf k).toNat = k := by rw [byteOf_toNat]; omega
  have e1 : ∀ t : Bytes, readExact 1 (v :: t) = .ok ([v], t) := by intro t; simp [readExact]
  have e2 : ∀ t : Bytes, readExact 1 (byteOf k :: t) = .ok ([byteOf k], t) := by intro t; simp [readExact]
  have e3 : ∀ t : Bytes, readExact 4 (le32 (p :: fixed).length ++ t) = .ok (le32 (p :: fixed).length, t) :=
    fun t => readExact_append' 4 _ t (le32_length _)
  have hlen : ofLe32 (le32 (p :: fixed).length) = sh.nFixed := by rw [ofLe32_le32 _ (by omega), hf]
  have henc : c.enc fa p = c.encR p := by cases fa <;> first | exact absurd rfl hfa | rfl
  have hread : ∀ t : Bytes, c.read .processed (c.encR p ++ t) = .error .point := by
    intro t
    have hl := hc.lenR p
    have : readExact c.plen (c.encR p ++ t) = .ok ((c.encR p).take c.plen, (c.encR p).drop c.plen ++ t) := by
      unfold readExact
      rw [if_pos (by simp; omega)]
      congr 2
      · rw [List.take_append_of_le_length (by omega)]
      · rw [List.drop_append_of_le_length (by omega)]
    simp [Codec.read, this, hrej]
  unfold readVK writeVK
  simp only [List.cons_append, List.nil_append, List.append_assoc, e1, e2, e3, hlen]
  rw [← hf]
  simp [hkb, Nat.not_lt.mpr hk, Nat.not_lt.mpr hext, Codec.readMany, Codec.writeMany, henc, hread]

/-- `vk_read_rejects_version`: any first byte other than `VERSION` is refused before anything
else is looked at. -/
theorem vk_read_rejects_version (c : Codec P) (v b : UInt8) (fmt : Format) (sh : Shape) (t : Bytes)
    (hb : b ≠ v) : readVK c v fmt sh (b :: t) = .error .version := by
  simp [readVK, readExact, hb]

/-- `vk_read_rejects_count`: a header whose commitment count differs from the number of fixed
columns plus selectors of the circuit is refused (before any point is decoded). -/
theorem vk_read_rejects_count (c : Codec P) (v kb : UInt8) (fmt : Format) (sh : Shape) (n : Nat) (t : Bytes)
    (hn : n < 2 ^ 32) (hne : n ≠ sh.nFixed) (hk : kb.toNat ≤ sh.S)
    (hext : extendedK kb.toNat (sh.degree - 1) ≤ sh.S) :
    readVK c v fmt sh (v :: kb :: (le32 n ++ t)) = .error .count := by
  have e3 := readExact_append' 4 (le32 n) t (le32_length _)
  simp [readVK, readExact, Nat.not_lt.mpr hk, Nat.not_lt.mpr hext]
  simp [readExact] at e3
  simp [e3, ofLe32_le32 n hn, hne]

/-! ## Proving key -/

/-- `polyvec_roundtrip`: `read_polynomial_vec ∘ write_polynomial_slice = id` in every format
(polynomials are always written raw; `Processed` and `RawBytes` both use the checked reader). -/
theorem polyvec_roundtrip (fc : FCodec F) (hfc : fc.Lawful) (fmt : Format) (ps : List (List F))
    (hn : ps.length < 2 ^ 32) (hl : ∀ p ∈ ps, p.length < 2 ^ 32) (rest : Bytes) :
    readPolyVec fc fmt (writePolyVec fc ps ++ rest) = .ok (ps, rest) :=
  readPolyVec_write fc hfc fmt ps hn hl rest

example : readPolyVec toyF .processed (writePolyVec toyF [[1, 2], [], [3]] ++ [9]) = .ok ([[1, 2], [], [3]], [9]) := by
  rfl

/-- `pk_roundtrip`: `ProvingKey::read ∘ ProvingKey::write` returns the stored part (verifying
key, fixed columns, permutation polynomials) unchanged, for compatible formats, for every key
whose polynomial lists fit the circuit (one fixed column of `2^k` values per fixed commitment,
one permutation polynomial of `2^k` values per permutation column — what `keygen_pk` builds and
what `ProvingKey::read` now insists on, see `pk_read_counts_checked`). -/
theorem pk_roundtrip (c : Codec P) (hc : c.Lawful) (fc : FCodec F) (hfc : fc.Lawful) (v : UInt8)
    (fa fb : Format) (hcompat : fa.compat fb = true) (sh : Shape) (pk : PKStored P F) (rest : Bytes)
    (hk : pk.vk.k ≤ sh.S) (hk8 : pk.vk.k < 256) (hext : extendedK pk.vk.k (sh.degree - 1) ≤ sh.S)
    (hf : pk.vk.fixed.length = sh.nFixed) (hp : pk.vk.perm.length = sh.nPerm) (h32 : sh.nFixed < 2 ^ 32)
    (hn1 : pk.fixedValues.length < 2 ^ 32) (hl1 : ∀ p ∈ pk.fixedValues, p.length < 2 ^ 32)
    (hn2 : pk.permutations.length < 2 ^ 32) (hl2 : ∀ p ∈ pk.permutations, p.length < 2 ^ 32)
    (hfit1 : polysFit (2 ^ pk.vk.k) pk.vk.fixed.length pk.fixedValues = true)
    (hfit2 : polysFit (2 ^ pk.vk.k) sh.nPerm pk.permutations = true) :
    readPK c fc v fb sh (writePK c fc v fa pk ++ rest) = .ok (pk, rest) := by
  unfold readPK writePK
  rw [List.append_assoc, List.append_assoc,
    vk_roundtrip c hc v fa fb hcompat sh pk.vk _ hk hk8 hext hf hp h32]
  simp only []
  rw [readPolyVec_write fc hfc fb _ hn1 hl1]
  simp only [hfit1, Bool.not_true, Bool.false_eq_true, if_false]
  rw [readPolyVec_write fc hfc fb _ hn2 hl2]
  simp only [hfit2, Bool.not_true, Bool.false_eq_true, if_false]

/-- `pk_roundtrip_equiv`: everything else in a proving key (`l0`, `l_last`, `l_active_row`, the
coefficient and extended forms of the fixed columns and of the permutation polynomials, the
evaluator) is recomputed by `ProvingKey::read` from the stored part by the same functions
`keygen_pk` uses; so a key whose derived parts are those functions of its stored part — as
`keygen_pk` builds it — is reproduced in full by write-then-read. -/
theorem pk_roundtrip_equiv {X : Type} (c : Codec P) (hc : c.Lawful) (fc : FCodec F) (hfc : fc.Lawful)
    (v : UInt8) (fa fb : Format) (hcompat : fa.compat fb = true) (sh : Shape)
    (toCoeff toExt : Nat → List F → List F) (lag : Nat → X) (full : PKFull P F X)
    (hwf : full = derivePK toCoeff toExt lag full.stored)
    (hk : full.stored.vk.k ≤ sh.S) (hk8 : full.stored.vk.k < 256)
    (hext : extendedK full.stored.vk.k (sh.degree - 1) ≤ sh.S)
    (hf : full.stored.vk.fixed.length = sh.nFixed) (hp : full.stored.vk.perm.length = sh.nPerm)
    (h32 : sh.nFixed < 2 ^ 32)
    (hn1 : full.stored.fixedValues.length < 2 ^ 32) (hl1 : ∀ p ∈ full.stored.fixedValues, p.length < 2 ^ 32)
    (hn2 : full.stored.permutations.length < 2 ^ 32) (hl2 : ∀ p ∈ full.stored.permutations, p.length < 2 ^ 32)
    (hfit1 : polysFit (2 ^ full.stored.vk.k) full.stored.vk.fixed.length full.stored.fixedValues = true)
    (hfit2 : polysFit (2 ^ full.stored.vk.k) sh.nPerm full.stored.permutations = true) :
    (readPK c fc v fb sh (writePK c fc v fa full.stored)).map (fun r => derivePK toCoeff toExt lag r.1)
      = .ok full := by
  have h := pk_roundtrip c hc fc hfc v fa fb hcompat sh full.stored [] hk hk8 hext hf hp h32 hn1 hl1 hn2 hl2 hfit1 hfit2
  rw [List.append_nil] at h
  rw [h]
  simp only [Except.map]
  rw [← hwf]

/-- `pk_read_counts_checked`: whenever `ProvingKey::read` succeeds — on ANY bytes, written by
anyone, in any format — the key it returns has exactly one fixed column per fixed commitment of
its verifying key and exactly one permutation polynomial per permutation column of the circuit,
each of exactly `2^k` values. Hence `compute_polys_and_cosets` never indexes past the list
(no `index out of bounds`), `lagrange_to_coeff` never meets a vector of another length (no
failed assertion), and no surplus polynomial survives into the re-serialised key. (Before the
repair — /repo commit c2433f0 — the counts and lengths were taken from the file unchecked.) -/
theorem pk_read_counts_checked (c : Codec P) (fc : FCodec F) (v : UInt8) (fmt : Format) (sh : Shape)
    (bs r : Bytes) (pk : PKStored P F) (h : readPK c fc v fmt sh bs = .ok (pk, r)) :
    pk.fixedValues.length = pk.vk.fixed.length ∧ pk.vk.fixed.length = sh.nFixed ∧
    pk.permutations.length = sh.nPerm ∧
    (∀ p ∈ pk.fixedValues, p.length = 2 ^ pk.vk.k) ∧ (∀ p ∈ pk.permutations, p.length = 2 ^ pk.vk.k) := by
  unfold readPK at h
  split at h
  · cases h
  · next vk r1 hvk =>
    have hv := (readVK_consumes c v fmt sh hvk).2.1
    split at h
    · cases h
    · next fv r2 _ =>
      split at h
      · cases h
      · next h1 =>
        split at h
        · cases h
        · next pm r3 _ =>
          split at h
          · cases h
          · next h2 =>
            simp only [Except.ok.injEq, Prod.mk.injEq] at h
            obtain ⟨rfl, _⟩ := h
            have f1 : polysFit (2 ^ vk.k) vk.fixed.length fv = true := by
              cases hh : polysFit (2 ^ vk.k) vk.fixed.length fv
              · rw [hh] at h1; exact absurd rfl h1
              · rfl
            have f2 : polysFit (2 ^ vk.k) sh.nPerm pm = true := by
              cases hh : polysFit (2 ^ vk.k) sh.nPerm pm
              · rw [hh] at h2; exact absurd rfl h2
              · rfl
            simp only [polysFit, Bool.and_eq_true, beq_iff_eq, List.all_eq_true] at f1 f2
            exact ⟨f1.1, hv, f2.1, f1.2, f2.2⟩

example : readPK toyCodec toyF 3 .rawBytes ⟨1, 1, 3, 32⟩
    (writePK toyCodec toyF 3 .rawBytes ⟨⟨1, [7], [9]⟩, [[1, 2]], []⟩) = .error .shape := by rfl

example : readPK toyCodec toyF 3 .rawBytes ⟨1, 1, 3, 32⟩
    (writePK toyCodec toyF 3 .rawBytes ⟨⟨1, [7], [9]⟩, [[1, 2]], [[4, 5, 6]]⟩) = .error .shape := by rfl

example : readPK toyCodec toyF 3 .rawBytes ⟨1, 1, 3, 32⟩
    (writePK toyCodec toyF 3 .rawBytes ⟨⟨1, [7], [9]⟩, [[1, 2]], [[4, 5]]⟩) = .ok (⟨⟨1, [7], [9]⟩, [[1, 2]], [[4, 5]]⟩, []) := by
  rfl

/-! ## The standard library's key wrappers -/

theorem readFlags_write : ∀ (fs : List Bool) (r : Bytes),
    readFlags fs.length (fs.map boolByte ++ r) = .ok (fs, r)
  | [], r => by simp [readFlags]
  | b :: fs, r => by
    cases b <;> simp [readFlags, boolByte, readFlags_write fs r]

/-- `arch_roundtrip`: `ZkStdLibArch::read ∘ ZkStdLibArch::write = id` for every architecture
that `configure` supports (`nr_pow2range_cols < NB_ARITH_COLS`). -/
theorem arch_roundtrip (ver nbArith : Nat) (a : Arch) (rest : Bytes) (hv : ver < 2 ^ 32)
    (hp : a.pow2 < nbArith) (hp8 : a.pow2 < 256) :
    readArch ver a.flags.length nbArith (writeArch ver a ++ rest) = .ok (a, rest) := by
  have e0 := readExact_append' 4 (le32 ver) (a.flags.map boolByte ++ (byteOf a.pow2 :: rest)) (le32_length _)
  have hb : (byteOf a.pow2).toNat = a.pow2 := by rw [byteOf_toNat]; omega
  unfold readArch writeArch
  simp only [List.append_assoc, List.cons_append, List.nil_append, e0, ofLe32_le32 _ hv, readFlags_write]
  simp [hb, Nat.not_le.mpr hp]

/-- `mvk_roundtrip`: `MidnightVK::read ∘ MidnightVK::write = id` for compatible formats: the
architecture, `max_bit_len`, the number of public inputs and the inner verifying key come back
unchanged, provided the inner key fits the constraint system configured from the architecture
that was read. -/
theorem mvk_roundtrip (c : Codec P) (hc : c.Lawful) (ver nbArith : Nat) (v : UInt8) (fa fb : Format)
    (hcompat : fa.compat fb = true) (shapeOf : Arch → Shape) (m : MVK P) (rest : Bytes)
    (hv : ver < 2 ^ 32) (hp : m.arch.pow2 < nbArith) (hp8 : m.arch.pow2 < 256)
    (hmb : m.maxBitLen < 256) (hnpi : m.nbPublicInputs < 2 ^ 32)
    (hk : m.vk.k ≤ (shapeOf m.arch).S) (hk8 : m.vk.k < 256)
    (hext : extendedK m.vk.k ((shapeOf m.arch).degree - 1) ≤ (shapeOf m.arch).S)
    (hf : m.vk.fixed.length = (shapeOf m.arch).nFixed) (hpm : m.vk.perm.length = (shapeOf m.arch).nPerm)
    (h32 : (shapeOf m.arch).nFixed < 2 ^ 32) :
    readMVK c ver m.arch.flags.length nbArith v fb shapeOf (writeMVK c ver v fa m ++ rest) = .ok (m, rest) := by
  have hb : (byteOf m.maxBitLen).toNat = m.maxBitLen := by rw [byteOf_toNat]; omega
  have e1 : ∀ t : Bytes, readExact 1 (byteOf m.maxBitLen :: t) = .ok ([byteOf m.maxBitLen], t) := by
    intro t; simp [readExact]
  have e2 : ∀ t : Bytes, readExact 4 (le32 m.nbPublicInputs ++ t) = .ok (le32 m.nbPublicInputs, t) :=
    fun t => readExact_append' 4 _ t (le32_length _)
  unfold readMVK writeMVK
  simp only [List.append_assoc, List.cons_append, List.nil_append]
  rw [arch_roundtrip ver nbArith m.arch _ hv hp hp8]
  simp only [e1, e2]
  rw [vk_roundtrip c hc v fa fb hcompat (shapeOf m.arch) m.vk rest hk hk8 hext hf hpm h32]
  simp [hb, ofLe32_le32 _ hnpi]

/-- `mpk_roundtrip`: `MidnightPK::read ∘ MidnightPK::write = id` on the stored part, for every
relation whose `read_relation` inverts its `write_relation` and leaves the rest of the buffer
untouched. -/
theorem mpk_roundtrip {R : Type} (c : Codec P) (hc : c.Lawful) (fc : FCodec F) (hfc : fc.Lawful)
    (writeRel : R → Bytes) (readRel : Bytes → Except Err (R × Bytes))
    (hrel : ∀ r t, readRel (writeRel r ++ t) = .ok (r, t))
    (v : UInt8) (fa fb : Format) (hcompat : fa.compat fb = true) (shapeOfRel : R → Shape)
    (m : MPK P F R) (rest : Bytes) (hmb : m.maxBitLen < 256) (hkk : m.k < 256)
    (hk : m.pk.vk.k ≤ (shapeOfRel m.relation).S) (hk8 : m.pk.vk.k < 256)
    (hext : extendedK m.pk.vk.k ((shapeOfRel m.relation).degree - 1) ≤ (shapeOfRel m.relation).S)
    (hf : m.pk.vk.fixed.length = (shapeOfRel m.relation).nFixed)
    (hp : m.pk.vk.perm.length = (shapeOfRel m.relation).nPerm) (h32 : (shapeOfRel m.relation).nFixed < 2 ^ 32)
    (hn1 : m.pk.fixedValues.length < 2 ^ 32) (hl1 : ∀ p ∈ m.pk.fixedValues, p.length < 2 ^ 32)
    (hn2 : m.pk.permutations.length < 2 ^ 32) (hl2 : ∀ p ∈ m.pk.permutations, p.length < 2 ^ 32)
    (hfit1 : polysFit (2 ^ m.pk.vk.k) m.pk.vk.fixed.length m.pk.fixedValues = true)
    (hfit2 : polysFit (2 ^ m.pk.vk.k) (shapeOfRel m.relation).nPerm m.pk.permutations = true) :
    readMPK c fc readRel v fb shapeOfRel (writeMPK c fc writeRel v fa m ++ rest) = .ok (m, rest) := by
  have b1 : (byteOf m.maxBitLen).toNat = m.maxBitLen := by rw [byteOf_toNat]; omega
  have b2 : (byteOf m.k).toNat = m.k := by rw [byteOf_toNat]; omega
  have e1 : ∀ (x : UInt8) (t : Bytes), readExact 1 (x :: t) = .ok ([x], t) := by intro x t; simp [readExact]
  unfold readMPK writeMPK
  simp only [List.append_assoc, List.cons_append, List.nil_append, e1, hrel]
  rw [pk_roundtrip c hc fc hfc v fa fb hcompat _ m.pk rest hk hk8 hext hf hp h32 hn1 hl1 hn2 hl2 hfit1 hfit2]
  simp [b1, b2]

/-! ## Transcript identity -/

/-- `transcript_repr_roundtrip`: a key read back (in any compatible format) has the transcript
identity of the original, for every hash: the preimage is built from the commitments in the raw
encoding whatever format the key came from, and from the pinned description of the circuit. -/
theorem transcript_repr_roundtrip (c : Codec P) (hc : c.Lawful) (v : UInt8) (h : Bytes → Nat)
    (fa fb : Format) (hcompat : fa.compat fb = true) (sh : Shape) (vk : VK P) (desc : Bytes)
    (hk : vk.k ≤ sh.S) (hk8 : vk.k < 256) (hext : extendedK vk.k (sh.degree - 1) ≤ sh.S)
    (hf : vk.fixed.length = sh.nFixed) (hp : vk.perm.length = sh.nPerm) (h32 : sh.nFixed < 2 ^ 32) :
    (readVK c v fb sh (writeVK c v fa vk)).map (fun r => transcriptRepr c v h r.1 desc)
      = .ok (transcriptRepr c v h vk desc) := by
  have := vk_roundtrip c hc v fa fb hcompat sh vk [] hk hk8 hext hf hp h32
  rw [List.append_nil] at this
  rw [this]; rfl

/-- `transcript_preimage_injective`: the buffer hashed into `transcript_repr` determines `k`,
every fixed commitment, every permutation commitment and the pinned description: two keys with
the same preimage are the same key for the same circuit description (so a collision of
transcript identities is a collision of BLAKE2b). Uses that the raw encoding has a fixed
length and is injective, and that both commitment lists are length-prefixed. -/
theorem transcript_preimage_injective (c : Codec P) (hc : c.Lawful) (v : UInt8) (vk₁ vk₂ : VK P)
    (d₁ d₂ : Bytes) (hk₁ : vk₁.k < 256) (hk₂ : vk₂.k < 256)
    (hf₁ : vk₁.fixed.length < 2 ^ 32) (hf₂ : vk₂.fixed.length < 2 ^ 32)
    (hp₁ : vk₁.perm.length < 2 ^ 32) (hp₂ : vk₂.perm.length < 2 ^ 32)
    (h : transcriptPreimage c v vk₁ d₁ = transcriptPreimage c v vk₂ d₂) : vk₁ = vk₂ ∧ d₁ = d₂ := by
  have a := unparsePre_preimage c hc v vk₁ d₁ hk₁ hf₁ hp₁
  have b := unparsePre_preimage c hc v vk₂ d₂ hk₂ hf₂ hp₂
  rw [h, b] at a
  simp only [Option.some.injEq, Prod.mk.injEq] at a
  exact ⟨a.1.symm, a.2.symm⟩

example : transcriptPreimage toyCodec 3 ⟨5, [7], [9, 1]⟩ [0x41] =
    [3, 5, 1, 0, 0, 0, 7, 7, 2, 0, 0, 0, 9, 9, 1, 1, 0x41] := by rfl

/-! ## Parameters: write, then read -/

/-- `params_roundtrip`: `read_custom ∘ write_custom = id` for compatible formats: `k`, the
monomial basis, the Lagrange basis, `g2` and `s_g2` come back unchanged. -/
theorem params_roundtrip {G1 G2 : Type} (c1 : Codec G1) (h1 : c1.Lawful) (c2 : Codec G2) (h2 : c2.Lawful)
    (fa fb : Format) (hcompat : fa.compat fb = true) (p : ParamsB G1 G2) (rest : Bytes)
    (hk : p.k < 2 ^ 32) (hg : p.g.length = 2 ^ p.k) (hgl : p.gLagrange.length = 2 ^ p.k) :
    readParams c1 c2 fb (writeParams c1 c2 fa p ++ rest) = .ok (p, rest) := by
  have e0 := readExact_append' 4 (le32 p.k)
    (c1.writeMany fa p.g ++ (c1.writeMany fa p.gLagrange ++ (c2.enc fa p.g2 ++ (c2.enc fa p.sG2 ++ rest))))
    (le32_length _)
  have r1 := readG1Vec_writeMany c1 h1 fa fb hcompat p.g
    (c1.writeMany fa p.gLagrange ++ (c2.enc fa p.g2 ++ (c2.enc fa p.sG2 ++ rest)))
  have r2 := readG1Vec_writeMany c1 h1 fa fb hcompat p.gLagrange (c2.enc fa p.g2 ++ (c2.enc fa p.sG2 ++ rest))
  rw [hg] at r1
  rw [hgl] at r2
  unfold readParams writeParams
  simp only [List.append_assoc, e0, ofLe32_le32 _ hk, r1, r2, Codec.read_enc c2 h2 fa fb hcompat]

/-! ## Permutation polynomials under `parallelize` -/

section
variable {α : Type} {K : Type} [Mul K] [One K] [Zero K]

/-- `parallelize_indexwise`: for every positive thread count, `parallelize` applied to a
worker that treats element `start + x` of its chunk as global index `start + x` computes the
index-wise map: the result does not depend on the number of threads. -/
theorem parallelize_indexwise' (t : Nat) (ht : 0 < t) (v : List α) (f : List α → Nat → List α)
    (g : Nat → α → α) (hf : ∀ ch start, f ch start = ch.mapIdx (fun x a => g (start + x) a)) :
    parallelizeM t v f = v.mapIdx g :=
  parallelize_indexwise t ht v f g hf

/-- `omega_powers_chunked`: the `omega_powers` vector of `build_pk`/`build_vk` (each worker
starts from `ω^start` and multiplies on) is `[ω^0, …, ω^(n−1)]` for every thread count. -/
theorem omega_powers_chunked (t : Nat) (ht : 0 < t) (ω : K) (n : Nat) :
    omegaPowers t ω n = (List.range n).map (powN ω) :=
  omegaPowers_eq t ht ω n

/-- `deltaomega_chunked`: row `i` of `deltaomega` is `omega_powers · δ^i` for every thread count. -/
theorem deltaomega_chunked (t : Nat) (ht : 0 < t) (δ : K) (op : List K) (ncols : Nat) :
    deltaOmega t δ op ncols = (List.range ncols).map (fun i => op.map (· * powN δ i)) :=
  deltaOmega_eq t ht δ op ncols

/-- `permutation_by_index`: the permutation polynomials built by `build_pk` / `build_vk`
through three nested `parallelize` calls are, for every positive thread count, every domain
size, every number of columns and every mapping, the index-wise table
`σ_i[j] = δ^{i'}·ω^{j'}` with `(i', j') = mapping(i, j)` — in particular the same for any two
thread counts. -/
theorem permutation_by_index (t : Nat) (ht : 0 < t) (ω δ : K) (n ncols : Nat) (mapping : Nat → Nat → Cell) :
    buildPermutations t ω δ n ncols mapping = permSpec ω δ n ncols mapping :=
  buildPermutations_eq t ht ω δ n ncols mapping

/-- `permutation_thread_independent`: two key generations under different thread counts build
the same permutation polynomials. -/
theorem permutation_thread_independent (t₁ t₂ : Nat) (h₁ : 0 < t₁) (h₂ : 0 < t₂) (ω δ : K) (n ncols : Nat)
    (mapping : Nat → Nat → Cell) :
    buildPermutations t₁ ω δ n ncols mapping = buildPermutations t₂ ω δ n ncols mapping := by
  rw [permutation_by_index t₁ h₁, permutation_by_index t₂ h₂]

end

example : buildPermutations 3 (2 : Int) 3 4 2 (fun i j => if i = 0 ∧ j = 1 then (1, 2) else (i, j))
    = [[1, 12, 4, 8], [3, 6, 12, 24]] := by decide

end

/-! ## `downsize` -/

section
variable {K : Type} [Field K]

/-- `setup_thread_independent`: `unsafe_setup` computes, for every positive thread count, the
index-wise parameters `g[i] = [s^i]G`, `g_lagrange[i] = [(s^n − 1)/n · ω^i/(s − ω^i)]G` (both of
its `parallelize` loops are index-wise). Holds over any type with the operations (no field
axioms needed). -/
theorem setup_thread_independent {K' : Type} [Zero K'] [One K'] [Add K'] [Sub K'] [Mul K']
    (t : Nat) (ht : 0 < t) (inv : K' → K') (d : Dom K') (s : K') (n : Nat) :
    setupChunked t inv d s n = setupS inv d s n := by
  unfold setupChunked setupS
  congr 1
  · rw [parallelize_indexwise t ht _ _ (fun i _ => powN s i) (fun ch start => fillPowers_eq s ch start)]
    exact mapIdx_replicate n 0 _
  · rw [parallelize_indexwise t ht _ _
      (fun i _ => (powN s n - 1) * d.nInv * powN d.omega i * inv (s - powN d.omega i)) (fun ch start => rfl)]
    exact mapIdx_replicate n 0 _

example : (setupChunked 3 (fun x => x) ⟨2, 0, 1⟩ (3 : Int) 4).g = [1, 3, 9, 27] := by decide

/-- `downsize_spec`: for a target `new_k` other than the current `max_k` and strictly smaller
than the current size, `downsize` keeps the first `2^new_k` monomial bases and replaces the
Lagrange basis by `g_to_lagrange` of the truncated vector (and touches nothing else). -/
theorem downsize_spec (dom : Nat → Dom K) (p : ParamsS K) (newK : Nat)
    (hne : p.g.length.log2 ≠ newK) (hlt : 2 ^ newK < p.gLagrange.length) :
    downsizeS dom p newK =
      some { g := p.g.take (2 ^ newK), gLagrange := gToLagrange (dom newK) (p.g.take (2 ^ newK)) } := by
  simp [downsizeS, hne, hlt]

/-- `downsize_same_k`: downsizing to the current `max_k` is the identity. -/
theorem downsize_same_k (dom : Nat → Dom K) (p : ParamsS K) : downsizeS dom p p.g.length.log2 = some p := by
  simp [downsizeS]

/-- `downsize_larger_panics`: asking for a size that is not smaller (and not the current
`max_k`) hits the assertion `n < g_lagrange.len()`. -/
theorem downsize_larger_panics (dom : Nat → Dom K) (p : ParamsS K) (newK : Nat)
    (hne : p.g.length.log2 ≠ newK) (hge : p.gLagrange.length ≤ 2 ^ newK) : downsizeS dom p newK = none := by
  simp [downsizeS, hne, Nat.not_lt.mpr hge]

/-- `downsize_eq_setup`: parameters set up for `2^k₁` from the secret `s` and downsized to
`k₂ < k₁` ARE the parameters `unsafe_setup` derives for `2^k₂` from the same secret: the
truncated monomial basis is the smaller monomial basis, and its inverse DFT is the closed-form
Lagrange basis `(s^n − 1)/n · ω^i/(s − ω^i)`. Hypotheses: the constants of the target domain are
what they should be (`ω^n = 1`, `ω·ω⁻¹ = 1`) and `s` is not in the domain (otherwise
`unsafe_setup` itself panics on `invert().unwrap()`). -/
theorem downsize_eq_setup (dom : Nat → Dom K) (s : K) (k₁ k₂ : Nat) (hk : k₂ < k₁)
    (hω : (dom k₂).omega ^ 2 ^ k₂ = 1) (hinv : (dom k₂).omega * (dom k₂).omegaInv = 1)
    (hs : ∀ i < 2 ^ k₂, s - (dom k₂).omega ^ i ≠ 0) :
    downsizeS dom (setupS (·⁻¹) (dom k₁) s (2 ^ k₁)) k₂ = some (setupS (·⁻¹) (dom k₂) s (2 ^ k₂)) := by
  have hpow : 2 ^ k₂ < 2 ^ k₁ := Nat.pow_lt_pow_right (by omega) hk
  have hlen : (setupS (·⁻¹) (dom k₁) s (2 ^ k₁)).g.length = 2 ^ k₁ := by simp [setupS]
  have hlen' : (setupS (·⁻¹) (dom k₁) s (2 ^ k₁)).gLagrange.length = 2 ^ k₁ := by simp [setupS]
  rw [downsize_spec dom _ k₂ (by rw [hlen, Nat.log2_two_pow]; omega) (by rw [hlen']; exact hpow)]
  have htake : (setupS (·⁻¹) (dom k₁) s (2 ^ k₁)).g.take (2 ^ k₂) = (List.range (2 ^ k₂)).map (powN s) := by
    simp only [setupS, ← List.map_take, List.take_range, Nat.min_eq_left (Nat.le_of_lt hpow)]
  rw [htake]
  simp only [setupS, gToLagrange, List.length_map, List.length_range, Option.some.injEq, ParamsS.mk.injEq,
    true_and]
  apply List.map_congr_left
  intro i hi
  have hi' : i < 2 ^ k₂ := List.mem_range.mp hi
  have hsum : sumTo (fun j => ((List.range (2 ^ k₂)).map (powN s)).getD j 0 * powN (powN (dom k₂).omegaInv i) j) (2 ^ k₂)
      = sumTo (fun j => s ^ j * ((dom k₂).omegaInv ^ i) ^ j) (2 ^ k₂) := by
    apply sumTo_congr
    intro j hj
    simp [List.getD, hj, powN_eq_pow]
  rw [hsum, idft_monomials s (dom k₂).omega (dom k₂).omegaInv (2 ^ k₂) i hω hinv (hs i hi')]
  simp only [powN_eq_pow]
  ring

/-- `downsize_downsize`: downsizing in two steps equals downsizing in one (the result depends
only on the truncated monomial basis). -/
theorem downsize_downsize (dom : Nat → Dom K) (p : ParamsS K) (k₀ k₁ k₂ : Nat)
    (hg : p.g.length = 2 ^ k₀) (hgl : p.gLagrange.length = 2 ^ k₀) (h₁ : k₁ < k₀) (h₂ : k₂ < k₁) :
    (downsizeS dom p k₁).bind (fun q => downsizeS dom q k₂) = downsizeS dom p k₂ := by
  have p1 : 2 ^ k₁ < 2 ^ k₀ := Nat.pow_lt_pow_right (by omega) h₁
  have p2 : 2 ^ k₂ < 2 ^ k₁ := Nat.pow_lt_pow_right (by omega) h₂
  rw [downsize_spec dom p k₁ (by rw [hg, Nat.log2_two_pow]; omega) (by rw [hgl]; exact p1),
    downsize_spec dom p k₂ (by rw [hg, Nat.log2_two_pow]; omega) (by rw [hgl]; omega)]
  simp only [Option.bind_some]
  have l1 : (p.g.take (2 ^ k₁)).length = 2 ^ k₁ := by rw [List.length_take, hg]; omega
  rw [downsize_spec dom _ k₂ (by simp only [l1, Nat.log2_two_pow]; omega)
    (by simp only [gToLagrange, List.length_map, List.length_range, l1]; exact p2)]
  simp only [List.take_take, Nat.min_eq_left (Nat.le_of_lt p2)]

end

/-- Non-vacuity over ℚ-like data is awkward without a concrete field; the rationals serve:
`ω = −1`, `n = 2`, `s = 3`: downsizing the size-4 setup (ω₂ = any fourth root is not needed for
the statement's hypotheses at the target size) gives the size-2 setup. -/
example : downsizeS (fun _ => (⟨-1, -1, 1 / 2⟩ : Dom ℚ)) (setupS (·⁻¹) ⟨-1, -1, 1 / 2⟩ 3 (2 ^ 2)) 1
    = some (setupS (·⁻¹) ⟨-1, -1, 1 / 2⟩ 3 (2 ^ 1)) :=
  downsize_eq_setup (fun _ => (⟨-1, -1, 1 / 2⟩ : Dom ℚ)) 3 2 1 (by decide) (by norm_num) (by norm_num)
    (by intro i hi; have : i = 0 ∨ i = 1 := by omega
        rcases this with rfl | rfl <;> norm_num)

/-! ## `Assembly::copy`: the copy-constraint permutation -/

/-- `copy_transposes_images`: a successful `Assembly::copy(l, r)` either finds the two cells
under the same representative (`aux`) and changes nothing, or exchanges the images of `l` and
`r` under `mapping` and leaves the image of every other cell alone
(`mapping' = mapping ∘ (l r)`): the only way the code ever modifies `mapping`. -/
theorem copy_transposes_images (a a' : Assembly) (lc lr rc rr : Nat) (h : a.copy lc lr rc rr = some a') :
    (get2 a.aux (lc, lr) = get2 a.aux (rc, rr) ∧ a' = a) ∨
    (get2 a.aux (lc, lr) ≠ get2 a.aux (rc, rr) ∧ ∀ c, get2 a'.mapping c =
      if c = (rc, rr) then get2 a.mapping (lc, lr) else if c = (lc, lr) then get2 a.mapping (rc, rr)
      else get2 a.mapping c) :=
  copy_mapping_swap a a' lc lr rc rr h

/-- `assembly_copy_spec_partial`: after ANY sequence of `copy` calls on a fresh `Assembly` (any
table shape, any order, repetitions, self-copies) `mapping` is a permutation of the cells of the
table: it sends cells to cells and is injective — so the σ polynomials `build_pk`/`build_vk` fill
from it (`permutation_by_index`) are a relabelling of the identity labels `δ^i·ω^j`, each label
used exactly once. MISSING (hence `_partial`): that the cycles of this permutation are exactly the
equivalence classes of the requested copies (the union-find invariant relating `mapping`, `aux`
and `sizes`); the driver checks that invariant on the model's state for every copy list recorded
from a real synthesis, and for the reversed and the flipped list, against the plain closure
computed by the harness (`perminv` lines). -/
theorem assembly_copy_spec_partial (n ncols : Nat) (l : List (Nat × Nat × Nat × Nat)) (a : Assembly)
    (h : (Assembly.new n ncols).copies l = some a) : PermOn a :=
  copies_preserve_perm l _ a h (new_perm n ncols)

example : ((Assembly.new 4 2).copies [(0, 1, 1, 2), (1, 2, 0, 3), (0, 3, 0, 1)]).isSome = true := by decide

/-! ## The recomputed part of a proving key (`keygen_pk` tail = `ProvingKey::read`) -/

section
variable {P F : Type} [Zero F] [One F] [Add F] [Sub F] [Mul F]

/-- `distribute_powers_zeta_indexwise`: for every positive thread count,
`EvaluationDomain::distribute_powers_zeta` multiplies coefficient `j` by `[1, ζ, ζ²][j % 3]`
(each worker starts counting at the global offset of its chunk). -/
theorem distribute_powers_zeta_indexwise (t : Nat) (ht : 0 < t) (d : EDom F) (a : List F) :
    distributePowersZeta t d a = a.mapIdx (zetaMul d.zeta d.zetaSq) :=
  distributePowersZeta_eq t ht d a

/-- `lagrange_polys_thread_independent`: the four locals of `compute_lagrange_polys` (`l0`,
`l_blind`, `l_last` through `coeff_to_extended`, `l_active_row` through its own `parallelize`
loop) are the same under any two positive thread counts; `l_active_row[i] = 1 − (l_last[i] +
l_blind[i])` index-wise over the extended domain. -/
theorem lagrange_polys_thread_independent (t₁ t₂ : Nat) (h₁ : 0 < t₁) (h₂ : 0 < t₂) (d : EDom F) (bf : Nat) :
    lagrLocals t₁ d bf = lagrLocals t₂ d bf ∧
    (lagrLocals t₁ d bf).lActiveRow = (List.range (2 ^ d.extK)).map (fun i =>
      1 - ((lagrLocals t₁ d bf).lLast.getD i 0 + (lagrLocals t₁ d bf).lBlind.getD i 0)) := by
  refine ⟨by rw [lagrLocals_eq t₁ h₁, lagrLocals_eq t₂ h₂], ?_⟩
  rw [lagrLocals_eq t₁ h₁]
  rfl

/-- `polys_and_cosets_by_index`: `compute_polys_and_cosets` (two `parallelize` loops over the
permutation columns) is index-wise for every positive thread count: `polys[i] =
lagrange_to_coeff(permutations[i])`, `cosets[i] = coeff_to_extended(polys[i])`; it panics iff
the key holds fewer permutation polynomials than the circuit has permutation columns (and
silently ignores surplus ones). -/
theorem polys_and_cosets_by_index (t : Nat) (ht : 0 < t) (d : EDom F) (ncols : Nat) (perms : List (List F)) :
    computePolysAndCosets t d ncols perms = polysAndCosetsSpec d ncols perms :=
  computePolysAndCosets_eq t ht d ncols perms

/-- `pk_derived_thread_independent`: everything a proving key holds besides its stored part is
the same under any two positive thread counts, at either call site. -/
theorem pk_derived_thread_independent (t₁ t₂ : Nat) (h₁ : 0 < t₁) (h₂ : 0 < t₂) (ret pat : List String)
    (init : List (String × String)) (d : EDom F) (bf ncols : Nat) (s : PKStored P F) :
    derivePKFull t₁ ret pat init d bf ncols s = derivePKFull t₂ ret pat init d bf ncols s :=
  derivePKFull_thread_independent t₁ t₂ h₁ h₂ ret pat init d bf ncols s

omit [Zero F] [One F] [Add F] [Sub F] [Mul F] in
/-- `lagrange_sites_agree` (over the orders read from the sources on every check): with the
array `compute_lagrange_polys` returns today, the pattern `keygen_pk` destructures it with and
the pattern `ProvingKey::read` destructures it with, the fields `l0`, `l_last`, `l_active_row`
of the struct built at EITHER site receive the local of the same name — whatever the locals
are. A change of the returned order that is followed at one caller only, a swapped pattern, or
a swapped field initialiser makes this false. -/
theorem lagrange_sites_agree (locals : String → List F) :
    (∀ f ∈ ["l0", "l_last", "l_active_row"],
      siteField Gen.lagrReturn Gen.lagrDestructRead Gen.pkInitRead locals f = locals f ∧
      siteField Gen.lagrReturn Gen.lagrDestructKeygen Gen.pkInitKeygen locals f = locals f) ∧
    Gen.lagrArgsRead = "&vk, &vk.cs" ∧ Gen.lagrArgsKeygen = "&vk, &cs" := by
  have r := siteField_read locals
  have k := siteField_keygen locals
  refine ⟨?_, rfl, rfl⟩
  intro f hf
  simp only [List.mem_cons, List.not_mem_nil, or_false] at hf
  rcases hf with rfl | rfl | rfl
  · exact ⟨r.1, k.1⟩
  · exact ⟨r.2.1, k.2.1⟩
  · exact ⟨r.2.2, k.2.2⟩

/-- Non-vacuity / sensitivity: had `compute_lagrange_polys` returned `[l0, l_active_row, l_last]`
with only `keygen_pk` following (seeded change C17-4), the field `l_last` of a key built by
`ProvingKey::read` would hold the local `l_active_row`. -/
example (locals : String → List F) :
    siteField ["l0", "l_active_row", "l_last"] Gen.lagrDestructRead Gen.pkInitRead locals "l_last"
      = locals "l_active_row" := rfl

/-- `lagrange_rows_as_modelled`: the rows `compute_lagrange_polys` sets to one are the ones the
model's `lagrLocals` uses: row `0` for `l0`, the last `cs.blinding_factors()` rows for `l_blind`,
row `n − cs.blinding_factors() − 1` for `l_last`, and `one − (l_last + l_blind)` for
`l_active_row` (the text of the source, regenerated on every check). -/
theorem lagrange_rows_as_modelled :
    Gen.lagrRows = [("l0", "0"), ("l_blind", "last cs.blinding_factors()"),
      ("l_last", "n - cs.blinding_factors() - 1"), ("l_active_row", "one - (l_last[idx] + l_blind[idx])")] := by
  decide

end

section
variable {P F : Type} [Zero F] [One F] [Add F] [Sub F] [Mul F]

/-- `pk_reloaded_lagrange_fields`: in a key built by `ProvingKey::read` (under any positive
thread count) the field `l0` is the extended form of the Lagrange polynomial of row 0, `l_last`
that of row `n − bf − 1`, and `l_active_row` is `1 − (l_last + l_blind)` — each field holds the
polynomial of its own name. -/
theorem pk_reloaded_lagrange_fields (t : Nat) (ht : 0 < t) (d : EDom F) (bf ncols : Nat) (s : PKStored P F)
    (r : PKDerived F)
    (h : derivePKFull t Gen.lagrReturn Gen.lagrDestructRead Gen.pkInitRead d bf ncols s = some r) :
    r.l0 = (lagrLocalsSpec d bf).l0 ∧ r.lLast = (lagrLocalsSpec d bf).lLast ∧
      r.lActiveRow = (lagrLocalsSpec d bf).lActiveRow := by
  unfold derivePKFull at h
  rw [lagrLocals_eq t ht] at h
  have sr := siteField_read (lagrLocalsSpec d bf).byName
  cases hc : computePolysAndCosets t d ncols s.permutations with
  | none => rw [hc] at h; cases h
  | some pc =>
    rw [hc] at h
    simp only [Option.some.injEq] at h
    subst h
    exact ⟨sr.1, sr.2.1, sr.2.2⟩

/-- `pk_full_roundtrip`: a proving key generated by `keygen_pk` under `t` threads, written in
format `fa` and read back in a compatible format `fb` under `t'` threads, comes back with EVERY
part equal to the generated key's: the stored part (`pk_roundtrip`) and everything
`ProvingKey::read` recomputes — `l0`, `l_last`, `l_active_row`, the coefficient and extended
forms of the fixed columns and of the permutation polynomials — with the destructuring orders
of the two call sites as they are in the sources today. -/
theorem pk_full_roundtrip (c : Codec P) (hc : c.Lawful) (fc : FCodec F) (hfc : fc.Lawful) (v : UInt8)
    (fa fb : Format) (hcompat : fa.compat fb = true) (sh : Shape) (t t' : Nat) (ht : 0 < t) (ht' : 0 < t')
    (d : EDom F) (bf : Nat) (st : PKStored P F)
    (hk : st.vk.k ≤ sh.S) (hk8 : st.vk.k < 256) (hext : extendedK st.vk.k (sh.degree - 1) ≤ sh.S)
    (hf : st.vk.fixed.length = sh.nFixed) (hp : st.vk.perm.length = sh.nPerm) (h32 : sh.nFixed < 2 ^ 32)
    (hn1 : st.fixedValues.length < 2 ^ 32) (hl1 : ∀ p ∈ st.fixedValues, p.length < 2 ^ 32)
    (hn2 : st.permutations.length < 2 ^ 32) (hl2 : ∀ p ∈ st.permutations, p.length < 2 ^ 32)
    (hfit1 : polysFit (2 ^ st.vk.k) st.vk.fixed.length st.fixedValues = true)
    (hfit2 : polysFit (2 ^ st.vk.k) sh.nPerm st.permutations = true) :
    (readPK c fc v fb sh (writePK c fc v fa st)).map (fun r =>
        (r.1, derivePKFull t' Gen.lagrReturn Gen.lagrDestructRead Gen.pkInitRead d bf sh.nPerm r.1))
      = .ok (st, derivePKFull t Gen.lagrReturn Gen.lagrDestructKeygen Gen.pkInitKeygen d bf sh.nPerm st) := by
  have h := pk_roundtrip c hc fc hfc v fa fb hcompat sh st [] hk hk8 hext hf hp h32 hn1 hl1 hn2 hl2 hfit1 hfit2
  rw [List.append_nil] at h
  rw [h]
  simp only [Except.map]
  rw [derivePKFull_thread_independent t' t ht' ht]
  congr 2

end

section
variable {K : Type} [Field K]

/-- `coeff_to_extended_evaluates`: with `ζ³ = 1` and `g_coset_inv = ζ²`, `coeff_to_extended`
returns, for every positive thread count, the values of the polynomial on the coset
`ζ·ω_e^i`, `i < 2^extended_k` (so the `index % 3` shortcut of `distribute_powers_zeta` is
multiplication of coefficient `j` by `ζ^j`). -/
theorem coeff_to_extended_evaluates (t : Nat) (ht : 0 < t) (d : EDom K) (hζ : d.zeta ^ 3 = 1)
    (hsq : d.zetaSq = d.zeta ^ 2) (a : List K) :
    coeffToExtended t d a = (powersOf d.extOmega (2 ^ d.extK)).map (fun x => evalAt a (d.zeta * x)) := by
  rw [coeffToExtended_eq t ht, coeffToExtendedSpec_eval d hζ hsq]

end

example : coeffToExtended 2 (⟨1, 2, ⟨-1, -1, 1 / 2⟩, -1, 1, 1⟩ : EDom ℚ) [3, 5] = [8, -2, 8, -2] := by
  rw [coeff_to_extended_evaluates 2 (by decide) _ (by norm_num) (by norm_num)]
  norm_num [powersOf, fillPowers, evalAt, List.replicate_succ]

/-! ## Verifier view and transcript identity after a round trip -/

section
variable {P X : Type}

/-- `vk_roundtrip_transcript_repr`: a verifying key written and read back in a compatible
format has the same transcript identity and the same verifier view — every field the verifier
reads: `k` and the domain derived from it, the fixed and permutation commitments, the transcript
identity, and the constraint system (with its degree) configured from the circuit. -/
theorem vk_roundtrip_transcript_repr (c : Codec P) (hc : c.Lawful) (v : UInt8) (h : Bytes → Nat)
    (fa fb : Format) (hcompat : fa.compat fb = true) (sh : Shape) (vk : VK P) (desc : Bytes) (cs : X)
    (hk : vk.k ≤ sh.S) (hk8 : vk.k < 256) (hext : extendedK vk.k (sh.degree - 1) ≤ sh.S)
    (hf : vk.fixed.length = sh.nFixed) (hp : vk.perm.length = sh.nPerm) (h32 : sh.nFixed < 2 ^ 32) :
    (readVK c v fb sh (writeVK c v fa vk)).map
        (fun r => verifierView (fun k => transcriptRepr c v h k desc) cs r.1)
      = .ok (verifierView (fun k => transcriptRepr c v h k desc) cs vk) := by
  have := vk_roundtrip c hc v fa fb hcompat sh vk [] hk hk8 hext hf hp h32
  rw [List.append_nil] at this
  rw [this]; rfl

end

/-! ## `downsize` on the whole parameter set; write/read of a downsized set -/

section
variable {G1 G2 : Type}

/-- `downsize_preserves_g2`: whatever `downsize` returns, `g2` and `s_g2` are the original ones
(so the verifier parameters `verifier_params()` derives are those of the original set). -/
theorem downsize_preserves_g2 (toLag : Nat → List G1 → List G1) (p q : ParamsB G1 G2) (newK : Nat)
    (h : downsizeB toLag p newK = some q) : q.g2 = p.g2 ∧ q.sG2 = p.sG2 := by
  unfold downsizeB at h
  split at h
  · cases h; exact ⟨rfl, rfl⟩
  · split at h
    · cases h
    · cases h; exact ⟨rfl, rfl⟩

/-- `downsize_write_read`: a well-formed parameter set (`2^k` bases of each kind) downsized to a
smaller `new_k`, written in any format and read back in a compatible one, is the downsized set
(provided `g_to_lagrange` returns as many points as it is given). -/
theorem downsize_write_read (c1 : Codec G1) (h1 : c1.Lawful) (c2 : Codec G2) (h2 : c2.Lawful)
    (toLag : Nat → List G1 → List G1) (hlag : ∀ k g, (toLag k g).length = g.length)
    (fa fb : Format) (hcompat : fa.compat fb = true) (p : ParamsB G1 G2) (newK : Nat) (rest : Bytes)
    (hk : p.k < 2 ^ 32) (hg : p.g.length = 2 ^ p.k) (hgl : p.gLagrange.length = 2 ^ p.k) (hlt : newK < p.k) :
    ∃ q, downsizeB toLag p newK = some q ∧ q.k = newK ∧ q.g = p.g.take (2 ^ newK) ∧
      readParams c1 c2 fb (writeParams c1 c2 fa q ++ rest) = .ok (q, rest) := by
  have hpow : 2 ^ newK < 2 ^ p.k := Nat.pow_lt_pow_right (by omega) hlt
  have hne : p.g.length.log2 ≠ newK := by rw [hg, Nat.log2_two_pow]; omega
  refine ⟨{ k := newK, g := p.g.take (2 ^ newK), gLagrange := toLag newK (p.g.take (2 ^ newK)), g2 := p.g2, sG2 := p.sG2 }, ?_, rfl, rfl, ?_⟩
  · simp [downsizeB, hne, hgl, hpow]
  · have l1 : (p.g.take (2 ^ newK)).length = 2 ^ newK := by rw [List.length_take, hg]; omega
    exact params_roundtrip c1 h1 c2 h2 fa fb hcompat _ rest (by simp only; omega) l1 (by simp only [hlag, l1])

/-- `from_parts_lagrange`: `from_parts` with no Lagrange basis recomputes it from the monomial
basis by the function `downsize` uses; so `from_parts(k', g[..2^k'], None, g2, s_g2)` IS the
downsized set. -/
theorem from_parts_lagrange (toLag : Nat → List G1 → List G1) (p : ParamsB G1 G2) (newK : Nat)
    (hne : p.g.length.log2 ≠ newK) (hlt : 2 ^ newK < p.gLagrange.length) :
    downsizeB toLag p newK = some (fromParts toLag newK (p.g.take (2 ^ newK)) none p.g2 p.sG2) := by
  simp [downsizeB, fromParts, hne, hlt]

end

/-! ## Orders of writes, reads and bindings in the parameter code (regenerated on every check) -/

/-- Position at which a name is read / written. -/
def posOf (l : List String) (x : String) : Option Nat :=
  let i := l.idxOf x
  if i < l.length then some i else none

/-- The vector of the file (0 = first, 1 = second) that ends up in field `field` of the result
of `read_custom` in a branch that binds `reads` from the reader in this order, evaluates to the
tuple `tuple`, which `let (target..) = match ..` binds and `Self { field: expr }` stores. -/
def paramsFieldSource (reads tuple target : List String) (init : List (String × String)) (field : String) : Option Nat :=
  match init.lookup field with
  | none => none
  | some e => match (target.zip tuple).lookup e with
    | none => none
    | some local_ => posOf reads local_

/-- `params_sites_agree`: in EVERY format branch of `read_custom` the field `g` receives the
vector `write_custom` writes first and `g_lagrange` the one it writes second; `k` is written
first and `g2`, `s_g2` last in this order, and read in the same order. (Seeded change C17-3 —
the `Processed` branch loading the Lagrange basis first — makes this false.) -/
theorem params_sites_agree :
    Gen.paramsWriteOrder = ["k", "g", "g_lagrange", "g2", "s_g2"] ∧
    Gen.paramsReadTail = ["g2", "s_g2"] ∧
    Gen.paramsReadBranches.map (·.1) = ["Processed", "RawBytes", "RawBytesUnchecked"] ∧
    (∀ b ∈ Gen.paramsReadBranches,
      paramsFieldSource b.2.1 b.2.2 Gen.paramsReadTarget Gen.paramsInitRead "g" = some 0 ∧
      paramsFieldSource b.2.1 b.2.2 Gen.paramsReadTarget Gen.paramsInitRead "g_lagrange" = some 1) ∧
    Gen.paramsInitRead.lookup "g2" = some "g2" ∧ Gen.paramsInitRead.lookup "s_g2" = some "s_g2" := by
  decide

example : paramsFieldSource ["g_lagrange", "g"] ["g", "g_lagrange"] Gen.paramsReadTarget Gen.paramsInitRead "g"
    = some 1 := by decide

/-- `pk_sites_agree`: `ProvingKey::write` writes and `ProvingKey::read` reads the verifying key,
the fixed columns and the permutation part in this order (the order of the model's `writePK` /
`readPK`); the struct built at either site initialises every field of `ProvingKey`, each stored
field from the value read / computed for it. -/
theorem pk_sites_agree :
    Gen.pkWriteOrder = ["vk", "fixed_values", "permutation"] ∧ Gen.pkReadOrder = Gen.pkWriteOrder ∧
    Gen.pkInitRead.map (·.1) = Gen.pkFields ∧ Gen.pkInitKeygen.map (·.1) = Gen.pkFields ∧
    (∀ f ∈ Gen.pkFields, Gen.pkInitRead.lookup f = some f) ∧
    Gen.pkInitKeygen.lookup "fixed_polys" = some "fixed_polys" ∧
    Gen.pkInitKeygen.lookup "fixed_cosets" = some "fixed_cosets" := by
  decide

/-- `downsize_statement_order`: `downsize` returns early for the current `k`, asserts the target
is smaller, truncates the monomial basis and only THEN recomputes the Lagrange basis from the
truncated vector (the order of the model's `downsizeS` / `downsizeB`); `from_parts` recomputes a
missing Lagrange basis by the same function; `verifier_params` prepares `−g2` and `s_g2`. -/
theorem downsize_statement_order :
    Gen.downsizeOrder = ["same-k-return", "assert-smaller", "truncate-g", "g_lagrange=g_to_lagrange(g,new_k)"] ∧
    Gen.fromPartsInit.lookup "g_lagrange" = some "match:g_to_lagrange(&g, k)" ∧
    Gen.fromPartsInit.lookup "g" = some "g" ∧
    Gen.verifierParams.lookup "n_g2_prepared" = some "-self.g2" ∧
    Gen.verifierParams.lookup "s_g2_prepared" = some "self.s_g2" ∧
    Gen.verifierParams.lookup "s_g2" = some "self.s_g2" := by
  decide

/-- `zeta_constant`: `ZETA` as written in `fq.rs` is a primitive cube root of unity — the
hypothesis of `coeff_to_extended_evaluates` for the real field. -/
theorem zeta_constant : powMod zetaN 3 frR = 1 ∧ zetaN ≠ 1 ∧ zetaN < frR := by
  decide +kernel

/-! ## Constants read from the sources (regenerated on every check) -/

/-- `consts_header`: the version is one byte; the constant `bytes_length` adds is at least the
real 6-byte header (so the capacity hint of `to_bytes` never under-allocates); the transcript
hash is the 64-byte BLAKE2b `from_uniform_bytes` needs, personalised by exactly 16 bytes; raw
images are twice the compressed ones. -/
theorem consts_header :
    Gen.vkVersion < 256 ∧ 6 ≤ Gen.vkBytesLengthHeader ∧ Gen.treprHashLen = 64 ∧
    Gen.treprPersonal.length = 16 ∧ Gen.g2Compressed = 2 * Gen.g1Compressed := by decide

/-- `arch_layout`: the architecture header is the version word followed by one byte per field of
`ZkStdLibArch` in declaration order: eleven flags and, last, the pow2range column count — the
layout the model's `readArch` assumes (a reordered or retyped field changes this constant). -/
theorem arch_layout :
    Gen.archFields.map (·.2) = List.replicate 11 true ++ [false] ∧
    (Gen.archFields.getLast?.map (·.1)) = some "nr_pow2range_cols" ∧
    Gen.zkstdVersion < 2 ^ 32 ∧ Gen.nbArithCols < 256 := by decide

/-- `fr_constants`: the Montgomery constants written in `fq.rs` are what they claim to be:
`R = 2^256 mod r`; `ROOT_OF_UNITY` has order exactly `2^S`; `ROOT_OF_UNITY_INV` and `TWO_INV`
are the inverses; `DELTA = 7^(2^S)` has order dividing `(r−1)/2^S` and is not 1. -/
theorem fr_constants :
    Gen.montRMont = 2 ^ 256 % frR ∧
    powMod rootOfUnityN (2 ^ Gen.frS) frR = 1 ∧ powMod rootOfUnityN (2 ^ (Gen.frS - 1)) frR ≠ 1 ∧
    rootOfUnityN * rootOfUnityInvN % frR = 1 ∧ 2 * twoInvN % frR = 1 ∧
    deltaN = powMod 7 (2 ^ Gen.frS) frR ∧ powMod deltaN ((frR - 1) / 2 ^ Gen.frS) frR = 1 ∧ deltaN ≠ 1 := by
  decide +kernel

/-- `dom_constants_ok`: for every `k ≤ S` the constants the code derives for the `2^k` domain
satisfy the hypotheses of `downsize_eq_setup`: `ω_k^(2^k) = 1`, `ω_k·ω_k⁻¹ = 1`, and
`2^k · n_inv = 1` (so `TWO_INV^k` of `g_to_lagrange` is the `F::from(n).invert()` of
`unsafe_setup`). -/
theorem dom_constants_ok : ∀ k ∈ List.range (Gen.frS + 1),
    powMod (omegaN k) (2 ^ k) frR = 1 ∧ omegaN k * omegaInvN k % frR = 1 ∧ 2 ^ k * nInvN k % frR = 1 := by
  decide +kernel

end MidnightZK.C17
