import MidnightZK.Proofs.C05.Crt
import MidnightZK.Proofs.C05.Gate
import MidnightZK.Proofs.C05.Limbs
import MidnightZK.Proofs.C05.Big
import MidnightZK.Proofs.C05.EndToEnd
import MidnightZK.Gen.C05Params
/-!
# C05 — foreign-field and big-integer gadgets are complete and sound
Property theorems (helper lemmas live in `MidnightZK/Proofs/C05`).
-/
namespace MidnightZK.C05

/-! ## The CRT lift and the auxiliary-bounds function -/

/-- The number-theoretic heart of the emulation (DESIGN A.4): an integer that is divisible by the
native modulus `p` and by every auxiliary modulus in use, and whose absolute value is below their
lcm, is zero. -/
theorem crt_lift (p : Int) (ms : List Int) (D : Int)
    (hp : p ∣ D) (hms : ∀ m ∈ ms, m ∣ D) (hlt : |D| < ms.foldl lcmZ p) : D = 0 :=
  crt_zero p ms D hp hms hlt

example : (7 : Int) ∣ 0 ∧ |(0 : Int)| < [(8 : Int), 9].foldl lcmZ 7 := by decide

/-- `get_identity_auxiliary_bounds` (util.rs) is sound for every argument tuple on which it
returns: let `(k_min, u_max)`, `[(lj_min, vj_max)]` be its result for native modulus `p`, emulated
modulus `m`, auxiliary moduli `moduli`, declared bounds `eb` of the integer expression and `mjb`
of the reduced expressions. Then for EVERY integer value `E` of the expression within `eb`, every
`u ∈ [0, u_max)`, and every per-modulus data (`WitOK`: reduced expression value within its declared
bounds and congruent to `E` modulo `mj`; `vj ∈ [0, vj_max)`; the identity
`expr_mj - u·(m % mj) - (k_min·m) % mj - (vj + lj_min)·mj = 0` holding modulo `p`), the native
identity `E - (u + k_min)·m = 0 (mod p)` forces `E = (u + k_min)·m` over the integers — in
particular `E ≡ 0 (mod m)`. The prover cannot choose `u`, `vj` so as to satisfy the identities for
an expression value that is not a multiple of `m`. -/
theorem aux_bounds_sound (p m : Int) (moduli : List Int) (eb : Int × Int)
    (mjb : List (Int × Int)) (r : AuxBounds)
    (hm : 0 < m) (hmods : ∀ mj ∈ moduli, 0 < mj) (hlen : moduli.length ≤ mjb.length)
    (hr : identityAuxBounds p m moduli eb mjb = .ok r)
    (E u : Int) (Es vjs : List Int)
    (hE0 : eb.1 ≤ E) (hE1 : E ≤ eb.2) (hu0 : 0 ≤ u) (hu1 : u < r.uMax)
    (hnat : p ∣ E - (u + r.kMin) * m)
    (hw : WitOK p m r.kMin u E moduli mjb r.vs Es vjs) :
    E = (u + r.kMin) * m ∧ m ∣ E := by
  have h := identityAuxBounds_sound p m moduli eb mjb r hm hmods hlen hr E u Es vjs
    hE0 hE1 hu0 hu1 hnat hw
  exact ⟨h, ⟨u + r.kMin, by rw [h]; ring⟩⟩

/-- Non-vacuity: a small instance (p = 499, m = 9, one auxiliary modulus 8, needed because
`p ≤ 581`) on which the function returns. -/
example : identityAuxBounds 499 9 [8] (-5, 400) [(-5, 60)] = .ok ⟨0, 64, [(-8, 16)]⟩ := by
  decide +kernel

/-- `bounds_honest_in_range`, integer part (completeness): whenever the function returns, for
every expression value within the declared bounds that IS a multiple of `m`, the quotient computed
by `compute_u` lies in `[0, u_max)` and satisfies the identity exactly. The `debug_assert`s of
`compute_u` never fire and the range check on `u` is satisfiable for the honest prover. -/
theorem bounds_honest_in_range (p m : Int) (moduli : List Int) (eb : Int × Int)
    (mjb : List (Int × Int)) (r : AuxBounds) (hm : 0 < m)
    (hr : identityAuxBounds p m moduli eb mjb = .ok r)
    (E : Int) (hE0 : eb.1 ≤ E) (hE1 : E ≤ eb.2) (hdvd : m ∣ E) :
    0 ≤ computeU m E r.kMin ∧ computeU m E r.kMin < r.uMax ∧
      E = (computeU m E r.kMin + r.kMin) * m :=
  computeU_in_range p m moduli eb mjb r hm hr E hE0 hE1 hdvd

example : computeU 9 0 0 = 0 ∧ computeU 9 396 0 = 44 := by decide

/-- `bounds_honest_in_range`, per auxiliary modulus (completeness): if the per-modulus bound
computation accepted (`vBound`: the closure of `get_identity_auxiliary_bounds`), then for every
`u ∈ [0, u_max]` and every reduced expression value within its declared bounds for which the
left-hand side is a multiple of `mj`, the `vj` computed by `compute_vj` lies in `[0, vj_max)` and
satisfies the identity over the integers. -/
theorem bounds_honest_in_range_vj (p m kMin uMax mj eMin eMax ljMin vjMax u Ej : Int)
    (hmj : 0 < mj)
    (hb : vBound p m kMin uMax mj eMin eMax = .ok (ljMin, vjMax))
    (hu0 : 0 ≤ u) (hu1 : u ≤ uMax) (hE0 : eMin ≤ Ej) (hE1 : Ej ≤ eMax)
    (hdvd : mj ∣ Ej - u * urem m mj - urem (kMin * m) mj) :
    0 ≤ computeVj m mj Ej u kMin ljMin ∧ computeVj m mj Ej u kMin ljMin < vjMax ∧
      Ej - u * urem m mj - urem (kMin * m) mj - (computeVj m mj Ej u kMin ljMin + ljMin) * mj = 0 :=
  vBound_complete p m kMin uMax mj eMin eMax ljMin vjMax u Ej hmj hb hu0 hu1 hE0 hE1 hdvd

example : vBound 499 9 0 64 8 (-5) 60 = .ok (-8, 16) := by decide +kernel

/-! ## The two custom gates -/

/-- `mul_gate_sound` (gates/mul.rs): for EVERY parameter set (positive emulated modulus and
auxiliary moduli) on which `MulConfig::bounds` returns `b`, every assignment of the two gate rows
with limbs of `x`, `y`, `z` in `[0, base)`, `u ∈ [0, u_max)`, `vj ∈ [0, vj_max)` (the range checks
of `assert_mul` and of the operands' well-formedness) that satisfies all identities of the gate in
the native field represents a correct product: `x·y ≡ z (mod m)` for `x = 1 + Σ baseⁱ·xᵢ` etc.
A forged quotient `u`, forged `vj` or forged result limbs cannot satisfy the gate. -/
theorem mul_gate_sound (P : Params) (b : AuxBounds)
    (hm : 0 < P.m) (hmods : ∀ mj ∈ P.moduli, 0 < mj) (hb : P.mulBounds = .ok b)
    (xs ys zs : List Int) (u : Int) (vjs : List Int)
    (hxl : xs.length = P.nbLimbs) (hyl : ys.length = P.nbLimbs) (hzl : zs.length = P.nbLimbs)
    (hx : ∀ x ∈ xs, 0 ≤ x ∧ x < P.base) (hy : ∀ y ∈ ys, 0 ≤ y ∧ y < P.base)
    (hz : ∀ z ∈ zs, 0 ≤ z ∧ z < P.base)
    (hu : 0 ≤ u ∧ u < b.uMax) (hv : vjsInRange b.vs vjs = true)
    (hg : P.mulGateHolds b xs ys zs u vjs = true) :
    ((1 + limbsValue P.log2Base xs) * (1 + limbsValue P.log2Base ys)) % P.m =
      (1 + limbsValue P.log2Base zs) % P.m :=
  mul_gate_sound_aux P b hm hmods hb xs ys zs u vjs hxl hyl hzl hx hy hz hu hv hg

/-- `norm_gate_sound` (gates/norm.rs): for every parameter set on which `NormConfig::bounds`
returns `b`, every assignment of the gate rows with input limbs in `[-L, L]`
(`L = max_limb_bound`, asserted by `make_canonical` on the tracked bounds), output limbs in
`[0, base)`, `u`, `vj` in their ranges, that satisfies all identities of the gate in the native
field has input and output representing the same residue modulo `m`. -/
theorem norm_gate_sound (P : Params) (b : AuxBounds)
    (hm : 0 < P.m) (hmods : ∀ mj ∈ P.moduli, 0 < mj) (hb : P.normBounds = .ok b)
    (xs zs : List Int) (u : Int) (vjs : List Int)
    (hxl : xs.length = P.nbLimbs) (hzl : zs.length = P.nbLimbs)
    (hx : ∀ x ∈ xs, -P.maxLimbBound ≤ x ∧ x ≤ P.maxLimbBound)
    (hz : ∀ z ∈ zs, 0 ≤ z ∧ z < P.base)
    (hu : 0 ≤ u ∧ u < b.uMax) (hv : vjsInRange b.vs vjs = true)
    (hg : P.normGateHolds b xs zs u vjs = true) :
    (1 + limbsValue P.log2Base xs) % P.m = (1 + limbsValue P.log2Base zs) % P.m :=
  norm_gate_sound_aux P b hm hmods hb xs zs u vjs hxl hzl hx hz hu hv hg

/-! ## The compiled-in parameter sets (generated from params.rs on every run) -/

def isOk {α : Type} : Except String α → Bool
  | .ok _ => true
  | .error _ => false

/-- The most significant limb's bound `2^msl` of `well_formed_log2_bounds` satisfies
`m ≤ base^(n-1)·2^msl < 2m` (every residue has a well-formed representation, zero exactly one),
`msl ≤ LOG2_BASE`, and `limbs_of_zero` is the well-formed digit vector of `m - 1`. -/
def uniqueZeroOk (P : Params) : Bool :=
  match P.wellFormedLog2Bounds with
  | none => false
  | some bs =>
    let msl := bs.getLastD 0
    decide (msl ≤ P.log2Base) && decide (1 ≤ P.nbLimbs)
      && decide (P.m ≤ (2 : Int) ^ (P.log2Base * (P.nbLimbs - 1) + msl))
      && decide ((2 : Int) ^ (P.log2Base * (P.nbLimbs - 1) + msl) < 2 * P.m)
      && P.wellFormedOk (toLimbs P.log2Base P.nbLimbs (P.m - 1)).1

/-- Side conditions of one parameter set: positive moduli, `check_params`, both bounds
computations succeed, the gate layouts fit (`1 + #moduli ≤ NB_LIMBS` columns for `u, v…`), the
well-formed bound of the most significant limb exists. -/
def setOk (P : Params) : Bool :=
  decide (0 < P.p) && decide (1 < P.m) && P.moduli.all (fun mj => decide (0 < mj))
    && P.checkParams && isOk P.mulBounds && isOk P.normBounds
    && decide (1 + P.moduli.length ≤ P.nbLimbs) && P.wellFormedLog2Bounds.isSome
    && uniqueZeroOk P

/-- Every compiled-in parameter set (secp256k1 base/scalar, BLS12-381 base, Curve25519
base/scalar over the BLS12-381 scalar field, and the sets over the BLS12-381 base field) passes
its configure-time checks: `check_params`, `MulConfig::bounds` and `NormConfig::bounds` return
(no lcm-threshold or wrap-around panic). Re-evaluated by the kernel on the constants parsed from
`params.rs` on every run: removing an auxiliary modulus, shrinking it or enlarging `LOG2_BASE`
breaks this theorem. -/
theorem compiled_sets_configure : ∀ P ∈ Gen.paramSets, setOk P = true := by decide +kernel

example : Gen.paramSets.length = 8 := by decide

private theorem isOk_exists {α : Type} (r : Except String α) (h : isOk r = true) : ∃ b, r = .ok b := by
  cases r with
  | ok b => exact ⟨b, rfl⟩
  | error e => simp [isOk] at h

/-- Instantiation: for each compiled-in parameter set the multiplication gate is sound with the
bounds that `configure` computes. -/
theorem compiled_mul_gate_sound : ∀ P ∈ Gen.paramSets, ∃ b, P.mulBounds = .ok b ∧
    ∀ (xs ys zs : List Int) (u : Int) (vjs : List Int),
    xs.length = P.nbLimbs → ys.length = P.nbLimbs → zs.length = P.nbLimbs →
    (∀ x ∈ xs, 0 ≤ x ∧ x < P.base) → (∀ y ∈ ys, 0 ≤ y ∧ y < P.base) →
    (∀ z ∈ zs, 0 ≤ z ∧ z < P.base) → (0 ≤ u ∧ u < b.uMax) → vjsInRange b.vs vjs = true →
    P.mulGateHolds b xs ys zs u vjs = true →
    ((1 + limbsValue P.log2Base xs) * (1 + limbsValue P.log2Base ys)) % P.m =
      (1 + limbsValue P.log2Base zs) % P.m := by
  intro P hP
  have h := compiled_sets_configure P hP
  simp only [setOk, Bool.and_eq_true, decide_eq_true_eq, List.all_eq_true] at h
  obtain ⟨⟨⟨⟨⟨⟨⟨⟨_, hm⟩, hmods⟩, _⟩, hmul⟩, _⟩, _⟩, _⟩, _⟩ := h
  obtain ⟨b, hb⟩ := isOk_exists _ hmul
  exact ⟨b, hb, fun xs ys zs u vjs h1 h2 h3 h4 h5 h6 h7 h8 h9 =>
    mul_gate_sound P b (by omega) (fun mj hmj => hmods mj hmj) hb xs ys zs u vjs
      h1 h2 h3 h4 h5 h6 h7 h8 h9⟩

/-- Instantiation: for each compiled-in parameter set the normalization gate is sound. -/
theorem compiled_norm_gate_sound : ∀ P ∈ Gen.paramSets, ∃ b, P.normBounds = .ok b ∧
    ∀ (xs zs : List Int) (u : Int) (vjs : List Int),
    xs.length = P.nbLimbs → zs.length = P.nbLimbs →
    (∀ x ∈ xs, -P.maxLimbBound ≤ x ∧ x ≤ P.maxLimbBound) →
    (∀ z ∈ zs, 0 ≤ z ∧ z < P.base) → (0 ≤ u ∧ u < b.uMax) → vjsInRange b.vs vjs = true →
    P.normGateHolds b xs zs u vjs = true →
    (1 + limbsValue P.log2Base xs) % P.m = (1 + limbsValue P.log2Base zs) % P.m := by
  intro P hP
  have h := compiled_sets_configure P hP
  simp only [setOk, Bool.and_eq_true, decide_eq_true_eq, List.all_eq_true] at h
  obtain ⟨⟨⟨⟨⟨⟨⟨⟨_, hm⟩, hmods⟩, _⟩, _⟩, hnorm⟩, _⟩, _⟩, _⟩ := h
  obtain ⟨b, hb⟩ := isOk_exists _ hnorm
  exact ⟨b, hb, fun xs zs u vjs h1 h2 h3 h4 h5 h6 h7 =>
    norm_gate_sound P b (by omega) (fun mj hmj => hmods mj hmj) hb xs zs u vjs
      h1 h2 h3 h4 h5 h6 h7⟩

/-! ## Limb representation -/

/-- `limbs_value_injective`: two limb vectors of the same length with every limb in `[0, base)`
and the same value `Σ baseⁱ·xᵢ` are equal. Hence `assert_equal` (limb-wise equality of the two
normalised operands) never identifies different integers, and public-input exposure (the limbs of
the normalised element) determines the represented integer. -/
theorem limbs_value_injective (L : Nat) (xs ys : List Int) (hl : xs.length = ys.length)
    (hx : ∀ x ∈ xs, 0 ≤ x ∧ x < 2 ^ L) (hy : ∀ y ∈ ys, 0 ≤ y ∧ y < 2 ^ L)
    (hv : limbsValue L xs = limbsValue L ys) : xs = ys :=
  limbsValue_inj L xs ys hl hx hy hv

example : limbsValue 4 [3, 15, 1] = 3 + 16 * 15 + 256 := by decide

/-- `bi_to_limbs` (used by `assign`, `assign_fixed`, `as_public_input`, the witness of `assign_mul`
and `normalize`): for a non-negative value the `n` digits are in `[0, base)` and recompose the
value together with the remaining quotient (which the Rust function asserts to be zero). -/
theorem to_limbs_roundtrip (L n : Nat) (v : Int) (hv : 0 ≤ v) :
    (toLimbs L n v).1.length = n ∧ (∀ x ∈ (toLimbs L n v).1, 0 ≤ x ∧ x < 2 ^ L) ∧
    limbsValue L (toLimbs L n v).1 + 2 ^ (L * n) * (toLimbs L n v).2 = v :=
  let h := toLimbs_spec L n v hv
  ⟨h.1, h.2.1, h.2.2.2⟩

example : toLimbs 4 3 291 = ([3, 2, 1], 0) := by decide

/-- The unique-zero shift (`x = 1 + Σ baseⁱ·xᵢ`): a well-formed limb vector (low limbs in
`[0, base)`, most significant limb in `[0, 2^msl)`, with `base^(n-1)·2^msl < 2m` as
`well_formed_log2_bounds` arranges) that represents a multiple of `m` represents `m` itself.
Together with `limbs_value_injective`: ZERO HAS EXACTLY ONE WELL-FORMED REPRESENTATION, which is
what `is_zero` (comparison of the normalised limbs with `limbs_of_zero`) relies on. -/
theorem zero_unique (L k : Nat) (m : Int) (lo : List Int) (top : Int)
    (hlo : ∀ x ∈ lo, 0 ≤ x ∧ x < 2 ^ L) (h0 : 0 ≤ top) (h1 : top < 2 ^ k)
    (h2m : (2 : Int) ^ (L * lo.length + k) < 2 * m)
    (hdvd : m ∣ 1 + limbsValue L (lo ++ [top])) :
    1 + limbsValue L (lo ++ [top]) = m :=
  wellFormed_zero_value L k m lo top hlo h0 h1 h2m hdvd

example : (7 : Int) ∣ 1 + limbsValue 2 ([2] ++ [1]) ∧ (2 : Int) ^ (2 * 1 + 1) < 2 * 7 := by decide

/-- `is_equal_foreign_respects_residue` (the comparison core of `is_zero` / `is_equal` /
`assert_non_zero`): two well-formed limb vectors of the same shape that both represent the
residue zero are the same vector; so "normalised limbs = `limbs_of_zero`" holds iff the element
is zero, whichever well-formed representation the prover chose in the normalisation. -/
theorem is_zero_respects_residue (L k : Nat) (m : Int) (lo lo' : List Int) (top top' : Int)
    (hlen : lo.length = lo'.length) (hk : k ≤ L)
    (hlo : ∀ x ∈ lo, 0 ≤ x ∧ x < 2 ^ L) (h0 : 0 ≤ top) (h1 : top < 2 ^ k)
    (hlo' : ∀ x ∈ lo', 0 ≤ x ∧ x < 2 ^ L) (h0' : 0 ≤ top') (h1' : top' < 2 ^ k)
    (h2m : (2 : Int) ^ (L * lo.length + k) < 2 * m)
    (hz : m ∣ 1 + limbsValue L (lo ++ [top])) (hz' : m ∣ 1 + limbsValue L (lo' ++ [top'])) :
    lo ++ [top] = lo' ++ [top'] := by
  have e1 := wellFormed_zero_value L k m lo top hlo h0 h1 h2m hz
  have e2 := wellFormed_zero_value L k m lo' top' hlo' h0' h1' (by rw [← hlen]; exact h2m) hz'
  have hpow : (2 : Int) ^ k ≤ 2 ^ L := pow_le_pow_right₀ (by norm_num) hk
  apply limbsValue_inj L _ _ (by simp [hlen])
  · intro x hx
    simp only [List.mem_append, List.mem_singleton] at hx
    rcases hx with hx | rfl
    · exact hlo x hx
    · exact ⟨h0, by omega⟩
  · intro x hx
    simp only [List.mem_append, List.mem_singleton] at hx
    rcases hx with hx | rfl
    · exact hlo' x hx
    · exact ⟨h0', by omega⟩
  · omega

/-- Lazy arithmetic, `add`: the limb-wise sum with the correction `+1` on the least significant
limb represents the sum of the represented integers (`n ≥ 1` limbs). Bounds: see
`limb_interval_add`. -/
theorem add_limbs_value (L : Nat) (xs ys : List Int) (n : Nat) (hx : xs.length = n + 1)
    (hy : ys.length = n + 1) :
    1 + limbsValue L (ChipCfg.zip3 xs ys (1 :: List.replicate n 0) (fun a b k => a + b + k)) =
      (1 + limbsValue L xs) + (1 + limbsValue L ys) := by
  have e : (fun (a b k : Int) => a + b + k) = (fun a b k => 1 * a + 1 * b + k) := by
    funext a b k; ring
  rw [e, limbsValue_lin L 1 1 xs ys _ (by omega) (by simp [hy]), limbsValue_lsConst]; ring

/-- Lazy arithmetic, `sub`: correction `-1`. -/
theorem sub_limbs_value (L : Nat) (xs ys : List Int) (n : Nat) (hx : xs.length = n + 1)
    (hy : ys.length = n + 1) :
    1 + limbsValue L (ChipCfg.zip3 xs ys ((-1) :: List.replicate n 0) (fun a b k => a - b + k)) =
      (1 + limbsValue L xs) - (1 + limbsValue L ys) := by
  have e : (fun (a b k : Int) => a - b + k) = (fun a b k => 1 * a + (-1) * b + k) := by
    funext a b k; ring
  rw [e, limbsValue_lin L 1 (-1) xs ys _ (by omega) (by simp [hy]), limbsValue_lsConst]; ring

/-- Lazy arithmetic, `mul_by_constant` (small constant) and `neg` (`k = -1`): the limb-wise
scaling `k·xᵢ` with the correction `k - 1` on the least significant limb represents `k·x`. -/
theorem scale_limbs_value (L : Nat) (k : Int) (xs : List Int) (n : Nat) (hx : xs.length = n + 1) :
    1 + limbsValue L (ChipCfg.zip3 xs xs ((k - 1) :: List.replicate n 0) (fun a _ c => k * a + c)) =
      k * (1 + limbsValue L xs) := by
  have e : (fun (a _b c : Int) => k * a + c) = (fun a b c => k * a + 0 * b + c) := by
    funext a b c; ring
  rw [e, limbsValue_lin L k 0 xs xs _ rfl (by simp [hx]), limbsValue_lsConst]; ring

/-- Bound bookkeeping of the lazy operations is interval arithmetic: if `x ∈ [lx, ux]` and
`y ∈ [ly, uy]` then `x + y + c`, `x - y + c`, `k·x + c` (`k ≥ 0`) and `-x + c` lie in the
intervals `add`, `sub`, `mul_by_constant` and `neg` record. -/
theorem limb_interval_ops (x y lx ux ly uy c k : Int) (hx : lx ≤ x ∧ x ≤ ux) (hy : ly ≤ y ∧ y ≤ uy)
    (hk : 0 ≤ k) :
    (lx + ly + c ≤ x + y + c ∧ x + y + c ≤ ux + uy + c) ∧
    (lx - uy + c ≤ x - y + c ∧ x - y + c ≤ ux - ly + c) ∧
    (lx * k + c ≤ k * x + c ∧ k * x + c ≤ ux * k + c) ∧
    (-ux + c ≤ -x + c ∧ -x + c ≤ -lx + c) := by
  have h1 : lx * k ≤ k * x := by rw [Int.mul_comm k x]; exact Int.mul_le_mul_of_nonneg_right hx.1 hk
  have h2 : k * x ≤ ux * k := by rw [Int.mul_comm k x]; exact Int.mul_le_mul_of_nonneg_right hx.2 hk
  refine ⟨⟨by omega, by omega⟩, ⟨by omega, by omega⟩, ⟨by omega, by omega⟩, ⟨by omega, by omega⟩⟩


/-! ## End to end: gate identities + the range checks AS EMITTED + tracked bounds

The executable emitter (`Model/C05/Chip.lean`: `normEvent`, `mulEvent`, `freshLimbs`) produces, for
every operation, the regions of the foreign chip with the bit length of every range check and the
source of every copied-in limb; the correspondence (`fpt` lines) compares exactly these events with
what the real synthesis emits (bit lengths logged at the real decomposition chip, wiring from the
real copy constraints). The theorems below start from the events the emitter produces. -/

/-- What `FieldChip::configure` computes (`ChipCfg.ofParams`): the bounds of both gates and the
well-formed widths of the parameter set. -/
theorem ofParams_spec (P : Params) (c : ChipCfg) (h : ChipCfg.ofParams P = some c) :
    c.P = P ∧ P.mulBounds = .ok c.mulB ∧ P.normBounds = .ok c.normB ∧
      P.wellFormedLog2Bounds = some c.wfLog2 := by
  unfold ChipCfg.ofParams at h
  split at h
  · next mb nb wf h1 h2 h3 => cases h; exact ⟨rfl, h1, h2, h3⟩
  · cases h

/-- The range checks emitted for the auxiliary cells are the ones the soundness theorems need:
for every result `b` of `get_identity_auxiliary_bounds`, a quotient cell range-checked with the
emitted bit length `uBits b` (`assert_less_than_pow2(u, log2 u_max)`) lies in `[0, u_max)`, and
cells `vj` range-checked with the emitted bit lengths `vBits b` lie in `[0, vj_max)`. (An emitted
bit length one larger — `u_max·2` — would break this theorem's use below; one smaller would break
completeness, `compiled_bounds_are_powers_of_two`.) -/
theorem emitted_range_checks_sound (p m : Int) (moduli : List Int) (eb : Int × Int)
    (mjb : List (Int × Int)) (b : AuxBounds) (hb : identityAuxBounds p m moduli eb mjb = .ok b)
    (u : Int) (vjs : List Int) (hu : 0 ≤ u ∧ u < 2 ^ ChipCfg.uBits b)
    (hv : bitsOk (ChipCfg.vBits b) vjs) :
    (0 ≤ u ∧ u < b.uMax) ∧ vjsInRange b.vs vjs = true := by
  obtain ⟨h1, h2⟩ := identityAuxBounds_pos p m moduli eb mjb b hb
  exact ⟨⟨hu.1, lt_uMax_of_bits b h1 u hu.2⟩, vjsInRange_of_bits b.vs vjs h2 hv⟩

example : bitsOk [3, 1] [7, 0] ∧ ¬ bitsOk [3, 1] [8, 0] := by
  simp [bitsOk]

/-- Exactness of the emitted bit lengths on the compiled-in sets: `u_max` and every `vj_max` of
both gates are powers of two, so `assert_lower_than_fixed(cell, bound)` is the single lookup-based
check `cell < 2^bits` with `2^bits = bound` (neither looser — soundness — nor tighter —
completeness — than the bound computed at configure time). -/
def pow2Exact (b : AuxBounds) : Bool :=
  decide ((2 : Int) ^ ChipCfg.uBits b = b.uMax) &&
    b.vs.all (fun vb => decide ((2 : Int) ^ Nat.log2 vb.2.toNat = vb.2))

theorem compiled_bounds_are_powers_of_two : ∀ P ∈ Gen.paramSets,
    (match P.mulBounds with | .ok b => pow2Exact b | .error _ => false) = true ∧
    (match P.normBounds with | .ok b => pow2Exact b | .error _ => false) = true := by
  decide +kernel

/-- `norm_sound_end_to_end` (`make_canonical` → `norm::normalize`): take ANY assignment of the
cells of a "Foreign norm" region — input limb integers `xs` within the bounds the chip tracks for
`x` (the invariant every operation maintains), output limbs `zs`, `u`, `vj` — such that the guard
of `make_canonical` passed, the range checks hold with the bit lengths AS EMITTED in the region's
event (`normEvent`: well-formed widths on `zs`, `uBits`, `vBits`), and the gate identities hold.
Then input and output represent the same residue and the output lies within
`well_formed_bounds` (the bounds the chip records for it). -/
theorem norm_sound_end_to_end (c : ChipCfg) (hc : ChipCfg.ofParams c.P = some c)
    (hm : 0 < c.P.m) (hmods : ∀ mj ∈ c.P.moduli, 0 < mj)
    (hwfL : ∀ k ∈ c.wfLog2, k ≤ c.P.log2Base) (hwn : c.wfLog2.length = c.P.nbLimbs)
    (x : FVar) (r : Nat) (xs zs : List Int) (u : Int) (vjs : List Int)
    (hn : x.bounds.length = c.P.nbLimbs)
    (hguard : c.canonGuard x = true) (hx : within x.bounds xs)
    (zB : List Nat) (uB : Nat) (vB : List Nat)
    (hev : c.normEvent r x = .norm r x.src zB uB vB)
    (hz : bitsOk zB zs) (hu : 0 ≤ u ∧ u < 2 ^ uB) (hv : bitsOk vB vjs)
    (hg : c.P.normGateHolds c.normB xs zs u vjs = true) :
    (1 + limbsValue c.P.log2Base xs) % c.P.m = (1 + limbsValue c.P.log2Base zs) % c.P.m ∧
      within c.wfBounds zs := by
  obtain ⟨_, _, hnb, _⟩ := ofParams_spec c.P c hc
  simp only [ChipCfg.normEvent, Ev.norm.injEq, true_and] at hev
  obtain ⟨rfl, rfl, rfl⟩ := hev
  have hnb' := hnb
  unfold Params.normBounds at hnb'
  obtain ⟨hur, hvr⟩ := emitted_range_checks_sound _ _ _ _ _ _ hnb' u vjs hu hv
  unfold ChipCfg.canonGuard at hguard
  simp only [Bool.not_eq_true'] at hguard
  have hxg := within_guard c.P.maxLimbBound x.bounds xs hguard hx
  have hzb := bitsOk_lt_base c.P.log2Base c.wfLog2 zs hwfL hz
  refine ⟨norm_gate_sound c.P c.normB hm hmods hnb xs zs u vjs
    (by rw [within_length _ _ hx, hn]) (by rw [bitsOk_length _ _ hz, hwn]) hxg
    (by unfold Params.base; exact hzb) hur hvr hg, ?_⟩
  unfold ChipCfg.wfBounds
  exact within_wf_of_bits _ _ hz

/-- `mul_sound_end_to_end` (`assign_mul` → `mul::assert_mul(l, y, r)`, `l·y = r`; for a division
`l` is the fresh quotient and `r` the dividend): ANY assignment of the cells of a "Foreign
multiplication" region whose three copied-in operands lie within `well_formed_bounds` (operands
after `normalize`: `normalize_sound_end_to_end`; the fresh result: range-checked at assignment
with the well-formed widths, `assign_event_well_formed`), whose `u`, `vj` satisfy the range checks
with the bit lengths AS EMITTED in the region's event (`mulEvent`), and that satisfies the gate
identities, represents a correct product modulo `m`. -/
theorem mul_sound_end_to_end (c : ChipCfg) (hc : ChipCfg.ofParams c.P = some c)
    (hm : 0 < c.P.m) (hmods : ∀ mj ∈ c.P.moduli, 0 < mj)
    (hwfL : ∀ k ∈ c.wfLog2, k ≤ c.P.log2Base) (hwn : c.wfLog2.length = c.P.nbLimbs)
    (l y rr : FVar) (r : Nat) (xs ys zs : List Int) (u : Int) (vjs : List Int)
    (hx : within c.wfBounds xs) (hy : within c.wfBounds ys) (hz : within c.wfBounds zs)
    (uB : Nat) (vB : List Nat)
    (hev : c.mulEvent r l y rr = .mul r l.src y.src rr.src uB vB)
    (hu : 0 ≤ u ∧ u < 2 ^ uB) (hv : bitsOk vB vjs)
    (hg : c.P.mulGateHolds c.mulB xs ys zs u vjs = true) :
    ((1 + limbsValue c.P.log2Base xs) * (1 + limbsValue c.P.log2Base ys)) % c.P.m =
      (1 + limbsValue c.P.log2Base zs) % c.P.m := by
  obtain ⟨_, hmb, _, _⟩ := ofParams_spec c.P c hc
  simp only [ChipCfg.mulEvent, Ev.mul.injEq, true_and] at hev
  obtain ⟨rfl, rfl⟩ := hev
  have hmb' := hmb
  unfold Params.mulBounds at hmb'
  obtain ⟨hur, hvr⟩ := emitted_range_checks_sound _ _ _ _ _ _ hmb' u vjs hu hv
  unfold ChipCfg.wfBounds at hx hy hz
  have bx := bits_of_within_wf _ _ hx
  have bY := bits_of_within_wf _ _ hy
  have bz := bits_of_within_wf _ _ hz
  have lx := bitsOk_lt_base c.P.log2Base c.wfLog2 xs hwfL bx
  have ly := bitsOk_lt_base c.P.log2Base c.wfLog2 ys hwfL bY
  have lz := bitsOk_lt_base c.P.log2Base c.wfLog2 zs hwfL bz
  exact mul_gate_sound c.P c.mulB hm hmods hmb xs ys zs u vjs
    (by rw [bitsOk_length _ _ bx, hwn]) (by rw [bitsOk_length _ _ bY, hwn])
    (by rw [bitsOk_length _ _ bz, hwn])
    (by unfold Params.base; exact lx) (by unfold Params.base; exact ly)
    (by unfold Params.base; exact lz) hur hvr hg

/-- Joint satisfiability of the hypotheses of `norm_sound_end_to_end` and `mul_sound_end_to_end`
(non-vacuity, and completeness on a sample): for a parameter set, the honest witnesses
(`normWitness` of an un-normalised vector with negative limbs, `mulWitness` of its product with a
constant) satisfy the gate identities AND the range checks with the emitted bit lengths, and the
side conditions on the well-formed widths hold. -/
def endToEndWitnessOk (P : Params) : Bool :=
  match ChipCfg.ofParams P with
  | none => false
  | some c =>
    let xs : List Int := (List.range c.n).map (fun i => if i % 2 = 0 then (5 : Int) + i else -(3 : Int) - i)
    let w := c.P.normWitness c.normB xs
    let zs := w.1
    let ys := c.limbsOf 12345
    let pz := c.limbsOf ((c.value ⟨zs, [], none, []⟩ * 12345) % c.m)
    let mw := c.P.mulWitness c.mulB zs ys pz
    c.P.normGateHolds c.normB xs zs w.2.1 w.2.2 && decide (0 ≤ w.2.1)
      && decide (w.2.1 < 2 ^ ChipCfg.uBits c.normB)
      && ((ChipCfg.vBits c.normB).zip w.2.2).all (fun t => decide (0 ≤ t.2) && decide (t.2 < 2 ^ t.1))
      && (c.wfLog2.zip zs).all (fun t => decide (0 ≤ t.2) && decide (t.2 < 2 ^ t.1))
      && c.P.mulGateHolds c.mulB zs ys pz mw.1 mw.2 && decide (0 ≤ mw.1)
      && decide (mw.1 < 2 ^ ChipCfg.uBits c.mulB)
      && ((ChipCfg.vBits c.mulB).zip mw.2).all (fun t => decide (0 ≤ t.2) && decide (t.2 < 2 ^ t.1))
      && c.wfLog2.all (· ≤ c.P.log2Base) && decide (c.wfLog2.length = c.P.nbLimbs)

/-- Every compiled-in parameter set configures (`ChipCfg.ofParams`), satisfies the side conditions
`wf[i] ≤ LOG2_BASE`, `#wf = NB_LIMBS` of the end-to-end theorems, and the honest witnesses pass the
emitted range checks (so the emitted bit lengths are not too tight). -/
theorem compiled_end_to_end_hypotheses : ∀ P ∈ Gen.paramSets, endToEndWitnessOk P = true := by
  decide +kernel

/-- The fresh limbs of `assign` / `assign_mul` (event `A`: limb `i` assigned by
`assign_lower_than_fixed(·, 2^wf[i])`) lie within `well_formed_bounds`, and conversely. -/
theorem assign_event_well_formed (c : ChipCfg) (zs : List Int) :
    bitsOk c.wfLog2 zs ↔ within c.wfBounds zs := by
  unfold ChipCfg.wfBounds
  exact ⟨within_wf_of_bits _ _, bits_of_within_wf _ _⟩

/-- What `FieldChip::normalize(x)` enforces on an arbitrary assignment (input limb integers `xs`,
limbs `zs` of the returned element): either the tracked bounds of `x` are well-formed and the same
cells are returned, or `make_canonical` runs — its guard passed and a "Foreign norm" region with
the emitted range checks and the gate identities relates `xs` and `zs`. -/
def NormalizedBy (c : ChipCfg) (x : FVar) (xs zs : List Int) : Prop :=
  (c.isWellFormed x = true ∧ zs = xs) ∨
  (c.canonGuard x = true ∧ ∃ (r : Nat) (u : Int) (vjs : List Int) (zB : List Nat) (uB : Nat)
      (vB : List Nat),
    c.normEvent r x = .norm r x.src zB uB vB ∧ bitsOk zB zs ∧ (0 ≤ u ∧ u < 2 ^ uB) ∧
      bitsOk vB vjs ∧ c.P.normGateHolds c.normB xs zs u vjs = true)

/-- `normalize_sound_end_to_end`: whichever branch `normalize` takes, the returned limbs represent
the same residue as the input and lie within `well_formed_bounds` — for every assignment. This is
what `mul`, `div`, `assert_equal`, `is_zero`, `as_public_input` and the bit/byte conversions rely
on before they look at limbs. -/
theorem normalize_sound_end_to_end (c : ChipCfg) (hc : ChipCfg.ofParams c.P = some c)
    (hm : 0 < c.P.m) (hmods : ∀ mj ∈ c.P.moduli, 0 < mj)
    (hwfL : ∀ k ∈ c.wfLog2, k ≤ c.P.log2Base) (hwn : c.wfLog2.length = c.P.nbLimbs)
    (x : FVar) (xs zs : List Int) (hn : x.bounds.length = c.P.nbLimbs)
    (hx : within x.bounds xs) (h : NormalizedBy c x xs zs) :
    (1 + limbsValue c.P.log2Base xs) % c.P.m = (1 + limbsValue c.P.log2Base zs) % c.P.m ∧
      within c.wfBounds zs := by
  rcases h with ⟨hwf, rfl⟩ | ⟨hguard, r, u, vjs, zB, uB, vB, hev, hz, hu, hv, hg⟩
  · refine ⟨rfl, ?_⟩
    unfold ChipCfg.wfBounds
    unfold ChipCfg.isWellFormed at hwf
    exact within_wf_of_isWellFormed x.bounds c.wfLog2 zs (by rw [hn, hwn]) hwf hx
  · exact norm_sound_end_to_end c hc hm hmods hwfL hwn x r xs zs u vjs hn hguard hx zB uB vB hev hz hu
      hv hg

/-- `add_sound_end_to_end` (lazy `add`, no gate of the foreign chip): for limb integers within the
tracked bounds of the operands, the limb-wise sums `xᵢ + yᵢ + cᵢ` (native linear combinations,
`c = [1, 0, …]`) lie within the bounds `add` records and represent the sum. The recorded bounds
stay below `max_limb_bound` (guard of `make_canonical`) ≪ native modulus, so the native cells
determine these integers. -/
theorem add_sound_end_to_end (L : Nat) (bx bY : List (Int × Int)) (xs ys : List Int) (n : Nat)
    (hbx : bx.length = n + 1) (hbY : bY.length = n + 1) (hx : within bx xs) (hy : within bY ys) :
    within (ChipCfg.zipB3 bx bY (1 :: List.replicate n 0) (fun a b k => (a.1 + b.1 + k, a.2 + b.2 + k)))
      (ChipCfg.zip3 xs ys (1 :: List.replicate n 0) (fun a b k => a + b + k)) ∧
    1 + limbsValue L (ChipCfg.zip3 xs ys (1 :: List.replicate n 0) (fun a b k => a + b + k)) =
      (1 + limbsValue L xs) + (1 + limbsValue L ys) :=
  ⟨within_zip3_add bx bY _ xs ys hx hy (by simp [hbx]) (by simp [hbY]),
   add_limbs_value L xs ys n (by rw [within_length _ _ hx, hbx]) (by rw [within_length _ _ hy, hbY])⟩

/-- `sub_sound_end_to_end` (lazy `sub`, correction `-1`; the lower bound of the result uses the
UPPER bound of `y` and vice versa). -/
theorem sub_sound_end_to_end (L : Nat) (bx bY : List (Int × Int)) (xs ys : List Int) (n : Nat)
    (hbx : bx.length = n + 1) (hbY : bY.length = n + 1) (hx : within bx xs) (hy : within bY ys) :
    within (ChipCfg.zipB3 bx bY ((-1) :: List.replicate n 0) (fun a b k => (a.1 - b.2 + k, a.2 - b.1 + k)))
      (ChipCfg.zip3 xs ys ((-1) :: List.replicate n 0) (fun a b k => a - b + k)) ∧
    1 + limbsValue L (ChipCfg.zip3 xs ys ((-1) :: List.replicate n 0) (fun a b k => a - b + k)) =
      (1 + limbsValue L xs) - (1 + limbsValue L ys) :=
  ⟨within_zip3_sub bx bY _ xs ys hx hy (by simp [hbx]) (by simp [hbY]),
   sub_limbs_value L xs ys n (by rw [within_length _ _ hx, hbx]) (by rw [within_length _ _ hy, hbY])⟩

example : within [(0, 3), (0, 3)] [2, 3] ∧ ¬ within [(0, 3), (0, 3)] [2, 4] := by simp [within]

/-- `assert_equal_sound_end_to_end`: `assert_equal(x, y)` normalises both operands and constrains
the returned limb cells to be pairwise equal (event `E`). For EVERY assignment satisfying what the
two normalisations enforce and that equality, `x` and `y` represent the same residue: the
assertion never identifies different residues, whichever representations the operands have
(un-normalised chains included). -/
theorem assert_equal_sound_end_to_end (c : ChipCfg) (hc : ChipCfg.ofParams c.P = some c)
    (hm : 0 < c.P.m) (hmods : ∀ mj ∈ c.P.moduli, 0 < mj)
    (hwfL : ∀ k ∈ c.wfLog2, k ≤ c.P.log2Base) (hwn : c.wfLog2.length = c.P.nbLimbs)
    (x y : FVar) (xs ys zx zy : List Int)
    (hnx : x.bounds.length = c.P.nbLimbs) (hny : y.bounds.length = c.P.nbLimbs)
    (hx : within x.bounds xs) (hy : within y.bounds ys)
    (h1 : NormalizedBy c x xs zx) (h2 : NormalizedBy c y ys zy) (heq : zx = zy) :
    (1 + limbsValue c.P.log2Base xs) % c.P.m = (1 + limbsValue c.P.log2Base ys) % c.P.m := by
  have a := (normalize_sound_end_to_end c hc hm hmods hwfL hwn x xs zx hnx hx h1).1
  have b := (normalize_sound_end_to_end c hc hm hmods hwfL hwn y ys zy hny hy h2).1
  rw [a, b, heq]

/-- `is_equal_sound_end_to_end` (`is_equal(x, y) = is_zero(x - y)`; also `is_zero`,
`assert_non_zero`, `is_equal_to_fixed`): let `ds` be limb integers representing `X - Y` (lazy
`sub`, `sub_sound_end_to_end`), `zs` what `normalize` returns for them (a well-formed vector, split
as low limbs and most significant limb), `z0` the vector `limbs_of_zero` (well-formed, representing
`m`: `uniqueZeroOk`, kernel-checked for every compiled-in set). Then the comparison "`zs` equals
`z0` limb by limb" holds IF AND ONLY IF `X ≡ Y (mod m)` — for every well-formed vector the prover
may put in the normalisation: two representations of one residue are treated identically and
different residues are never identified. -/
theorem is_equal_sound_end_to_end (L k : Nat) (m X Y : Int) (lo lo0 : List Int) (top top0 : Int)
    (hlen : lo.length = lo0.length) (hk : k ≤ L)
    (hlo : ∀ x ∈ lo, 0 ≤ x ∧ x < 2 ^ L) (h0 : 0 ≤ top) (h1 : top < 2 ^ k)
    (hlo0 : ∀ x ∈ lo0, 0 ≤ x ∧ x < 2 ^ L) (h00 : 0 ≤ top0) (h10 : top0 < 2 ^ k)
    (h2m : (2 : Int) ^ (L * lo.length + k) < 2 * m)
    (hz0 : 1 + limbsValue L (lo0 ++ [top0]) = m)
    (hres : (1 + limbsValue L (lo ++ [top])) % m = (X - Y) % m) :
    lo ++ [top] = lo0 ++ [top0] ↔ X % m = Y % m := by
  constructor
  · intro h
    rw [h, hz0, Int.emod_self] at hres
    have : m ∣ X - Y := Int.dvd_of_emod_eq_zero hres.symm
    exact Int.emod_eq_emod_iff_emod_sub_eq_zero.mpr (Int.emod_eq_zero_of_dvd this)
  · intro h
    have hd : m ∣ X - Y := Int.dvd_of_emod_eq_zero (Int.emod_eq_emod_iff_emod_sub_eq_zero.mp h)
    have hz : m ∣ 1 + limbsValue L (lo ++ [top]) := by
      have := Int.emod_eq_zero_of_dvd hd
      rw [this] at hres
      exact Int.dvd_of_emod_eq_zero hres
    exact is_zero_respects_residue L k m lo lo0 top top0 hlen hk hlo h0 h1 hlo0 h00 h10 h2m hz
      (by rw [hz0])

example : ([2] ++ [(1 : Int)] = [2] ++ [1] ↔ (10 : Int) % 7 = 3 % 7) := by decide

/-! ## Big unsigned integers -/

/-- `bound_of_addition` (biguint/types.rs) never under-approximates: `a < 2^b1`, `b < 2^b2` imply
`a + b < 2^bound_of_addition(b1, b2)`. -/
theorem bound_of_addition_sound (a b b1 b2 : Nat) (ha : a < 2 ^ b1) (hb : b < 2 ^ b2) :
    a + b < 2 ^ boundOfAddition b1 b2 :=
  boundOfAddition_spec a b b1 b2 ha hb

example : boundOfAddition 0 5 = 5 ∧ boundOfAddition 96 96 = 97 ∧ boundOfAddition 3 0 = 3 := by decide

/-- `nb_bits()` never under-approximates: limbs within their size bounds represent an integer
below `2^nb_bits` (so `assign_bounded(…, x.nb_bits())` in `sub` / `div_rem` can hold the honest
difference / quotient / remainder, and `normalize` allocates enough output limbs). -/
theorem nb_bits_sound (lb : Nat) (ls sb : List Nat) (hl : ls.length = sb.length)
    (h : ∀ t ∈ ls.zip sb, t.1 < 2 ^ t.2) : bigValue lb ls < 2 ^ nbBits lb sb :=
  bigValue_lt_nbBits lb ls sb hl h

example : nbBits 96 [96, 96, 5] = 197 := by decide +kernel

/-- `add_carry_unique` (`div_rem_native_by_base`, the step of `normalize`): with the payload
`x < p`, a quotient cell range-checked `q < 2^k`, a remainder cell `r < 2^lb` and
`2^(k+lb) ≤ p` (guaranteed by `x_size_bound < F::NUM_BITS`), the native identity
`x = q·2^lb + r (mod p)` pins `q = ⌊x / 2^lb⌋` and `r = x mod 2^lb`: a prover cannot choose another
carry. -/
theorem add_carry_unique (p lb k x q r : Nat) (hx : x < p) (hq : q < 2 ^ k) (hr : r < 2 ^ lb)
    (hp : 2 ^ (k + lb) ≤ p) (hid : (q * 2 ^ lb + r) % p = x % p) :
    q = x / 2 ^ lb ∧ r = x % 2 ^ lb :=
  carry_unique p lb k x q r hx hq hr hp hid

example : (3 * 2 ^ 4 + 5) % 101 = 53 % 101 ∧ 53 / 2 ^ 4 = 3 ∧ 53 % 2 ^ 4 = 5 := by decide

/-- `normalize` preserves the represented integer: whenever the carry chain of the model runs
(no native-overflow panic), the output limbs are in `[0, 2^lb)`, there are as many as inputs, and
`Σ outᵢ·2^(lb·i) + 2^(lb·n)·(final carry) = Σ inᵢ·2^(lb·i)`; the circuit asserts the final carry
to be zero. -/
theorem normalize_value (lb numBits : Nat) (xs sbs ls : List Nat) (c : Nat)
    (h : Big.normChain lb numBits 0 0 xs sbs = .ok (ls, c)) :
    ls.length = xs.length ∧ (∀ l ∈ ls, l < 2 ^ lb) ∧
      bigValue lb ls + 2 ^ (lb * xs.length) * c = bigValue lb xs := by
  have := normChain_spec lb numBits xs sbs 0 0 ls c h
  simpa using this

example : (match Big.normChain 4 255 0 0 [17, 35, 1] [6, 6, 1] with
    | .ok r => r == ([1, 4, 3], 0)
    | .error _ => false) = true := by decide +kernel

/-- `add`: limb-wise addition (before normalisation) adds the represented integers, whatever
the two lengths. -/
theorem add_limbs_sound (lb : Nat) (xs ys : List Nat) :
    bigValue lb (Big.zipAddLimbs xs ys) = bigValue lb xs + bigValue lb ys :=
  zipAddLimbs_value lb xs ys

/-- `mul_limbs_sound`: the schoolbook products `limb[k] = Σ_{i+j=k} xᵢ·yⱼ` that `mul` accumulates
(before normalisation) represent the product of the represented integers. -/
theorem mul_limbs_sound (lb : Nat) (xs ys : List Nat) :
    bigValue lb (Big.mulLimbs xs ys) = bigValue lb xs * bigValue lb ys :=
  mulLimbs_value lb xs ys

example : Big.mulLimbs [3, 2] [5, 7, 1] = [15, 31, 17, 2] := by decide

/-- `assert_equal` / `is_equal` on BigUints are exact: normalised limb vectors of the same length
with the same value are equal (and equal vectors have equal values). -/
theorem big_limbs_injective (lb : Nat) (xs ys : List Nat) (hl : xs.length = ys.length)
    (hx : ∀ x ∈ xs, x < 2 ^ lb) (hy : ∀ y ∈ ys, y < 2 ^ lb)
    (hv : bigValue lb xs = bigValue lb ys) : xs = ys :=
  bigValue_inj lb xs ys hl hx hy hv

/-- `div_rem_sound`: the two constraints of `div_rem` (`x = q·y + r` as integers, enforced through
`mul`, `add`, `assert_equal` on normalised limbs, and `r < y`) pin quotient and remainder. -/
theorem div_rem_sound (x y q r : Nat) (h1 : x = q * y + r) (h2 : r < y) :
    q = x / y ∧ r = x % y := by
  subst h1
  have hy : 0 < y := by omega
  constructor
  · rw [Nat.add_comm, Nat.add_mul_div_right _ _ hy, Nat.div_eq_of_lt h2, Nat.zero_add]
  · rw [Nat.add_comm, Nat.add_mul_mod_self_right, Nat.mod_eq_of_lt h2]

example : 17 = 3 * 5 + 2 ∧ 2 < 5 := by decide

/-- `lower_than_sound`: the fold of `geq` over normalised limb vectors of equal length (least
significant first, `acc := xᵢ > yᵢ ∨ (xᵢ = yᵢ ∧ acc)`, initial `true`) is the comparison of the
represented integers; `lower_than` is its negation. -/
theorem lower_than_sound (lb : Nat) (xs ys : List Nat) (hl : xs.length = ys.length)
    (hx : ∀ x ∈ xs, x < 2 ^ lb) (hy : ∀ y ∈ ys, y < 2 ^ lb) :
    Big.geqFold xs ys true = decide (bigValue lb xs ≥ bigValue lb ys) := by
  rw [geqFold_spec lb xs ys true hl hx hy]
  by_cases h : bigValue lb xs > bigValue lb ys
  · have : bigValue lb xs ≥ bigValue lb ys := by omega
    simp [h, this]
  · by_cases h2 : bigValue lb xs = bigValue lb ys
    · simp [h2]
    · have : ¬ bigValue lb xs ≥ bigValue lb ys := by omega
      simp [h, h2, this]

example : Big.geqFold [5, 1] [9, 0] true = true ∧ Big.geqFold [5, 0] [9, 0] true = false := by decide

/-! ## BigUint operations end to end (limb products / sums + carry chain + equality) -/

/-- `add` end to end (`BigUintGadget::add` = limb-wise native additions, then `normalize` whose
final carry is asserted to be zero): whenever the carry chain of the model runs on the limb-wise
sums and the final carry is zero, the output limbs are normalised (`< 2^lb`) and represent
`x + y` — for every operand pair and every limb count. -/
theorem big_add_sound_end_to_end (lb numBits : Nat) (xs ys sbs ls : List Nat)
    (h : Big.normChain lb numBits 0 0 (Big.zipAddLimbs xs ys) sbs = .ok (ls, 0)) :
    (∀ l ∈ ls, l < 2 ^ lb) ∧ bigValue lb ls = bigValue lb xs + bigValue lb ys := by
  obtain ⟨_, h2, h3⟩ := normalize_value lb numBits _ sbs ls 0 h
  refine ⟨h2, ?_⟩
  rw [← add_limbs_sound lb xs ys]
  simpa using h3

/-- `mul` end to end: schoolbook products, then `normalize` with zero final carry. -/
theorem big_mul_sound_end_to_end (lb numBits : Nat) (xs ys sbs ls : List Nat)
    (h : Big.normChain lb numBits 0 0 (Big.mulLimbs xs ys) sbs = .ok (ls, 0)) :
    (∀ l ∈ ls, l < 2 ^ lb) ∧ bigValue lb ls = bigValue lb xs * bigValue lb ys := by
  obtain ⟨_, h2, h3⟩ := normalize_value lb numBits _ sbs ls 0 h
  refine ⟨h2, ?_⟩
  rw [← mul_limbs_sound lb xs ys]
  simpa using h3

/-- `sub` end to end (`res` is a prover-chosen witness, range-checked limb by limb;
`res + y` is normalised and asserted equal to `x`): the constraints force `res = x - y` AND
`y ≤ x` — on an underflow no witness exists (the circuit is unsatisfiable), for every limb count. -/
theorem big_sub_sound_end_to_end (lb numBits : Nat) (xs ys rs sbs ls : List Nat)
    (h : Big.normChain lb numBits 0 0 (Big.zipAddLimbs rs ys) sbs = .ok (ls, 0))
    (heq : bigValue lb ls = bigValue lb xs) :
    bigValue lb rs = bigValue lb xs - bigValue lb ys ∧ bigValue lb ys ≤ bigValue lb xs := by
  have := (big_add_sound_end_to_end lb numBits rs ys sbs ls h).2
  omega

/-- `div_rem` end to end: `q`, `r` prover-chosen; `q·y` (schoolbook + normalise), `+ r`
(normalise), asserted equal to `x`, and `r < y` (`lower_than`): quotient and remainder are pinned. -/
theorem big_div_rem_sound_end_to_end (lb numBits : Nat) (xs ys qs rs sb1 sb2 ps ls : List Nat)
    (h1 : Big.normChain lb numBits 0 0 (Big.mulLimbs qs ys) sb1 = .ok (ps, 0))
    (h2 : Big.normChain lb numBits 0 0 (Big.zipAddLimbs ps rs) sb2 = .ok (ls, 0))
    (heq : bigValue lb ls = bigValue lb xs) (hlt : bigValue lb rs < bigValue lb ys) :
    bigValue lb qs = bigValue lb xs / bigValue lb ys ∧ bigValue lb rs = bigValue lb xs % bigValue lb ys := by
  have a := (big_mul_sound_end_to_end lb numBits qs ys sb1 ps h1).2
  have b := (big_add_sound_end_to_end lb numBits ps rs sb2 ls h2).2
  exact div_rem_sound _ _ _ _ (by rw [← heq, b, a]) hlt

example : (match Big.normChain 4 255 0 0 (Big.zipAddLimbs [15, 1] [3, 2]) [5, 3] with
    | .ok r => r == ([2, 4], 0)
    | .error _ => false) = true := by decide +kernel

end MidnightZK.C05
