import MidnightZK.Proofs.C05.Crt
import MidnightZK.Proofs.C05.Gate
import MidnightZK.Proofs.C05.Limbs
import MidnightZK.Proofs.C05.Big
import MidnightZK.Proofs.C05.EndToEnd
import MidnightZK.Proofs.C05.BigSat
import MidnightZK.Proofs.C05.BigOps
import MidnightZK.Proofs.C05.Bits
import MidnightZK.Gen.C05Params
/-!
# C05 — foreign-field and big-integer gadgets are complete and sound
Property theorems (helper lemmas live in `MidnightZK/Proofs/C05`).
-/
namespace MidnightZK.C05

/-! ## The CRT lift and the auxiliary-bounds function -/

/-- The number-theoretic heart of the emulation (DESIGN A.4): an integer that is divisible by the
native modulus `p` and by every auxiliary modulus in use, and whose absolute value is below their
lcm, is zero. -/
theorem crt_lift (p : Int) (ms : List Int) (D : Int)
    (hp : p ∣ D) (hms : ∀ m ∈ ms, m ∣ D) (hlt : |D| < ms.foldl lcmZ p) : D = 0 :=
  crt_zero p ms D hp hms hlt

example : (7 : Int) ∣ 0 ∧ |(0 : Int)| < [(8 : Int), 9].foldl lcmZ 7 := by decide

/-- `get_identity_auxiliary_bounds` (util.rs) is sound for every argument tuple on which it
returns: let `(k_min, u_max)`, `[(lj_min, vj_max)]` be its result for native modulus `p`, emulated
modulus `m`, auxiliary moduli `moduli`, declared bounds `eb` of the integer expression and `mjb`
of the reduced expressions. Then for EVERY integer value `E` of the expression within `eb`, every
`u ∈ [0, u_max)`, and every per-modulus data (`WitOK`: reduced expression value within its declared
bounds and congruent to `E` modulo `mj`; `vj ∈ [0, vj_max)`; the identity
`expr_mj - u·(m % mj) - (k_min·m) % mj - (vj + lj_min)·mj = 0` holding modulo `p`), the native
identity `E - (u + k_min)·m = 0 (mod p)` forces `E = (u + k_min)·m` over the integers — in
particular `E ≡ 0 (mod m)`. The prover cannot choose `u`, `vj` so as to satisfy the identities for
an expression value that is not a multiple of `m`. -/
theorem aux_bounds_sound (p m : Int) (moduli : List Int) (eb : Int × Int)
    (mjb : List (Int × Int)) (r : AuxBounds)
    (hm : 0 < m) (hmods : ∀ mj ∈ moduli, 0 < mj) (hlen : moduli.length ≤ mjb.length)
    (hr : identityAuxBounds p m moduli eb mjb = .ok r)
    (E u : Int) (Es vjs : List Int)
    (hE0 : eb.1 ≤ E) (hE1 : E ≤ eb.2) (hu0 : 0 ≤ u) (hu1 : u < r.uMax)
    (hnat : p ∣ E - (u + r.kMin) * m)
    (hw : WitOK p m r.kMin u E moduli mjb r.vs Es vjs) :
    E = (u + r.kMin) * m ∧ m ∣ E := by
  have h := identityAuxBounds_sound p m moduli eb mjb r hm hmods hlen hr E u Es vjs
    hE0 hE1 hu0 hu1 hnat hw
  exact ⟨h, ⟨u + r.kMin, by rw [h]; ring⟩⟩

/-- Non-vacuity: a small instance (p = 499, m = 9, one auxiliary modulus 8, needed because
`p ≤ 581`) on which the function returns. -/
example : identityAuxBounds 499 9 [8] (-5, 400) [(-5, 60)] = .ok ⟨0, 64, [(-8, 16)]⟩ := by
  decide +kernel

/-- `bounds_honest_in_range`, integer part (completeness): whenever the function returns, for
every expression value within the declared bounds that IS a multiple of `m`, the quotient computed
by `compute_u` lies in `[0, u_max)` and satisfies the identity exactly. The `debug_assert`s of
`compute_u` never fire and the range check on `u` is satisfiable for the honest prover. -/
theorem bounds_honest_in_range (p m : Int) (moduli : List Int) (eb : Int × Int)
    (mjb : List (Int × Int)) (r : AuxBounds) (hm : 0 < m)
    (hr : identityAuxBounds p m moduli eb mjb = .ok r)
    (E : Int) (hE0 : eb.1 ≤ E) (hE1 : E ≤ eb.2) (hdvd : m ∣ E) :
    0 ≤ computeU m E r.kMin ∧ computeU m E r.kMin < r.uMax ∧
      E = (computeU m E r.kMin + r.kMin) * m :=
  computeU_in_range p m moduli eb mjb r hm hr E hE0 hE1 hdvd

example : computeU 9 0 0 = 0 ∧ computeU 9 396 0 = 44 := by decide

/-- `bounds_honest_in_range`, per auxiliary modulus (completeness): if the per-modulus bound
computation accepted (`vBound`: the closure of `get_identity_auxiliary_bounds`), then for every
`u ∈ [0, u_max]` and every reduced expression value within its declared bounds for which the
left-hand side is a multiple of `mj`, the `vj` computed by `compute_vj` lies in `[0, vj_max)` and
satisfies the identity over the integers. -/
theorem bounds_honest_in_range_vj (p m kMin uMax mj eMin eMax ljMin vjMax u Ej : Int)
    (hmj : 0 < mj)
    (hb : vBound p m kMin uMax mj eMin eMax = .ok (ljMin, vjMax))
    (hu0 : 0 ≤ u) (hu1 : u ≤ uMax) (hE0 : eMin ≤ Ej) (hE1 : Ej ≤ eMax)
    (hdvd : mj ∣ Ej - u * urem m mj - urem (kMin * m) mj) :
    0 ≤ computeVj m mj Ej u kMin ljMin ∧ computeVj m mj Ej u kMin ljMin < vjMax ∧
      Ej - u * urem m mj - urem (kMin * m) mj - (computeVj m mj Ej u kMin ljMin + ljMin) * mj = 0 :=
  vBound_complete p m kMin uMax mj eMin eMax ljMin vjMax u Ej hmj hb hu0 hu1 hE0 hE1 hdvd

example : vBound 499 9 0 64 8 (-5) 60 = .ok (-8, 16) := by decide +kernel

/-! ## The two custom gates -/

/-- `mul_gate_sound` (gates/mul.rs): for EVERY parameter set (positive emulated modulus and
auxiliary moduli) on which `MulConfig::bounds` returns `b`, every assignment of the two gate rows
with limbs of `x`, `y`, `z` in `[0, base)`, `u ∈ [0, u_max)`, `vj ∈ [0, vj_max)` (the range checks
of `assert_mul` and of the operands' well-formedness) that satisfies all identities of the gate in
the native field represents a correct product: `x·y ≡ z (mod m)` for `x = 1 + Σ baseⁱ·xᵢ` etc.
A forged quotient `u`, forged `vj` or forged result limbs cannot satisfy the gate. -/
theorem mul_gate_sound (P : Params) (b : AuxBounds)
    (hm : 0 < P.m) (hmods : ∀ mj ∈ P.moduli, 0 < mj) (hb : P.mulBounds = .ok b)
    (xs ys zs : List Int) (u : Int) (vjs : List Int)
    (hxl : xs.length = P.nbLimbs) (hyl : ys.length = P.nbLimbs) (hzl : zs.length = P.nbLimbs)
    (hx : ∀ x ∈ xs, 0 ≤ x ∧ x < P.base) (hy : ∀ y ∈ ys, 0 ≤ y ∧ y < P.base)
    (hz : ∀ z ∈ zs, 0 ≤ z ∧ z < P.base)
    (hu : 0 ≤ u ∧ u < b.uMax) (hv : vjsInRange b.vs vjs = true)
    (hg : P.mulGateHolds b xs ys zs u vjs = true) :
    ((1 + limbsValue P.log2Base xs) * (1 + limbsValue P.log2Base ys)) % P.m =
      (1 + limbsValue P.log2Base zs) % P.m :=
  mul_gate_sound_aux P b hm hmods hb xs ys zs u vjs hxl hyl hzl hx hy hz hu hv hg

/-- `norm_gate_sound` (gates/norm.rs): for every parameter set on which `NormConfig::bounds`
returns `b`, every assignment of the gate rows with input limbs in `[-L, L]`
(`L = max_limb_bound`, asserted by `make_canonical` on the tracked bounds), output limbs in
`[0, base)`, `u`, `vj` in their ranges, that satisfies all identities of the gate in the native
field has input and output representing the same residue modulo `m`. -/
theorem norm_gate_sound (P : Params) (b : AuxBounds)
    (hm : 0 < P.m) (hmods : ∀ mj ∈ P.moduli, 0 < mj) (hb : P.normBounds = .ok b)
    (xs zs : List Int) (u : Int) (vjs : List Int)
    (hxl : xs.length = P.nbLimbs) (hzl : zs.length = P.nbLimbs)
    (hx : ∀ x ∈ xs, -P.maxLimbBound ≤ x ∧ x ≤ P.maxLimbBound)
    (hz : ∀ z ∈ zs, 0 ≤ z ∧ z < P.base)
    (hu : 0 ≤ u ∧ u < b.uMax) (hv : vjsInRange b.vs vjs = true)
    (hg : P.normGateHolds b xs zs u vjs = true) :
    (1 + limbsValue P.log2Base xs) % P.m = (1 + limbsValue P.log2Base zs) % P.m :=
  norm_gate_sound_aux P b hm hmods hb xs zs u vjs hxl hzl hx hz hu hv hg

/-! ## The compiled-in parameter sets (generated from params.rs on every run) -/

def isOk {α : Type} : Except String α → Bool
  | .ok _ => true
  | .error _ => false

/-- The most significant limb's bound `2^msl` of `well_formed_log2_bounds` satisfies
`m ≤ base^(n-1)·2^msl < 2m` (every residue has a well-formed representation, zero exactly one),
`msl ≤ LOG2_BASE`, and `limbs_of_zero` is the well-formed digit vector of `m - 1`. -/
def uniqueZeroOk (P : Params) : Bool :=
  match P.wellFormedLog2Bounds with
  | none => false
  | some bs =>
    let msl := bs.getLastD 0
    decide (msl ≤ P.log2Base) && decide (1 ≤ P.nbLimbs)
      && decide (P.m ≤ (2 : Int) ^ (P.log2Base * (P.nbLimbs - 1) + msl))
      && decide ((2 : Int) ^ (P.log2Base * (P.nbLimbs - 1) + msl) < 2 * P.m)
      && P.wellFormedOk (toLimbs P.log2Base P.nbLimbs (P.m - 1)).1

/-- Side conditions of one parameter set: positive moduli, `check_params`, both bounds
computations succeed, the gate layouts fit (`1 + #moduli ≤ NB_LIMBS` columns for `u, v…`), the
well-formed bound of the most significant limb exists. -/
def setOk (P : Params) : Bool :=
  decide (0 < P.p) && decide (1 < P.m) && P.moduli.all (fun mj => decide (0 < mj))
    && P.checkParams && isOk P.mulBounds && isOk P.normBounds
    && decide (1 + P.moduli.length ≤ P.nbLimbs) && P.wellFormedLog2Bounds.isSome
    && uniqueZeroOk P

/-- Every compiled-in parameter set (secp256k1 base/scalar, BLS12-381 base, Curve25519
base/scalar over the BLS12-381 scalar field, and the sets over the BLS12-381 base field) passes
its configure-time checks: `check_params`, `MulConfig::bounds` and `NormConfig::bounds` return
(no lcm-threshold or wrap-around panic). Re-evaluated by the kernel on the constants parsed from
`params.rs` on every run: removing an auxiliary modulus, shrinking it or enlarging `LOG2_BASE`
breaks this theorem. -/
theorem compiled_sets_configure : ∀ P ∈ Gen.paramSets, setOk P = true := by decide +kernel

example : Gen.paramSets.length = 8 := by decide

private theorem isOk_exists {α : Type} (r : Except String α) (h : isOk r = true) : ∃ b, r = .ok b := by
  cases r with
  | ok b => exact ⟨b, rfl⟩
  | error e => simp [isOk] at h

/-- Instantiation: for each compiled-in parameter set the multiplication gate is sound with the
bounds that `configure` computes. -/
theorem compiled_mul_gate_sound : ∀ P ∈ Gen.paramSets, ∃ b, P.mulBounds = .ok b ∧
    ∀ (xs ys zs : List Int) (u : Int) (vjs : List Int),
    xs.length = P.nbLimbs → ys.length = P.nbLimbs → zs.length = P.nbLimbs →
    (∀ x ∈ xs, 0 ≤ x ∧ x < P.base) → (∀ y ∈ ys, 0 ≤ y ∧ y < P.base) →
    (∀ z ∈ zs, 0 ≤ z ∧ z < P.base) → (0 ≤ u ∧ u < b.uMax) → vjsInRange b.vs vjs = true →
    P.mulGateHolds b xs ys zs u vjs = true →
    ((1 + limbsValue P.log2Base xs) * (1 + limbsValue P.log2Base ys)) % P.m =
      (1 + limbsValue P.log2Base zs) % P.m := by
  intro P hP
  have h := compiled_sets_configure P hP
  simp only [setOk, Bool.and_eq_true, decide_eq_true_eq, List.all_eq_true] at h
  obtain ⟨⟨⟨⟨⟨⟨⟨⟨_, hm⟩, hmods⟩, _⟩, hmul⟩, _⟩, _⟩, _⟩, _⟩ := h
  obtain ⟨b, hb⟩ := isOk_exists _ hmul
  exact ⟨b, hb, fun xs ys zs u vjs h1 h2 h3 h4 h5 h6 h7 h8 h9 =>
    mul_gate_sound P b (by omega) (fun mj hmj => hmods mj hmj) hb xs ys zs u vjs
      h1 h2 h3 h4 h5 h6 h7 h8 h9⟩

/-- Instantiation: for each compiled-in parameter set the normalization gate is sound. -/
theorem compiled_norm_gate_sound : ∀ P ∈ Gen.paramSets, ∃ b, P.normBounds = .ok b ∧
    ∀ (xs zs : List Int) (u : Int) (vjs : List Int),
    xs.length = P.nbLimbs → zs.length = P.nbLimbs →
    (∀ x ∈ xs, -P.maxLimbBound ≤ x ∧ x ≤ P.maxLimbBound) →
    (∀ z ∈ zs, 0 ≤ z ∧ z < P.base) → (0 ≤ u ∧ u < b.uMax) → vjsInRange b.vs vjs = true →
    P.normGateHolds b xs zs u vjs = true →
    (1 + limbsValue P.log2Base xs) % P.m = (1 + limbsValue P.log2Base zs) % P.m := by
  intro P hP
  have h := compiled_sets_configure P hP
  simp only [setOk, Bool.and_eq_true, decide_eq_true_eq, List.all_eq_true] at h
  obtain ⟨⟨⟨⟨⟨⟨⟨⟨_, hm⟩, hmods⟩, _⟩, _⟩, hnorm⟩, _⟩, _⟩, _⟩ := h
  obtain ⟨b, hb⟩ := isOk_exists _ hnorm
  exact ⟨b, hb, fun xs zs u vjs h1 h2 h3 h4 h5 h6 h7 =>
    norm_gate_sound P b (by omega) (fun mj hmj => hmods mj hmj) hb xs zs u vjs
      h1 h2 h3 h4 h5 h6 h7⟩

/-! ## Limb representation -/

/-- `limbs_value_injective`: two limb vectors of the same length with every limb in `[0, base)`
and the same value `Σ baseⁱ·xᵢ` are equal. Hence `assert_equal` (limb-wise equality of the two
normalised operands) never identifies different integers, and public-input exposure (the limbs of
the normalised element) determines the represented integer. -/
theorem limbs_value_injective (L : Nat) (xs ys : List Int) (hl : xs.length = ys.length)
    (hx : ∀ x ∈ xs, 0 ≤ x ∧ x < 2 ^ L) (hy : ∀ y ∈ ys, 0 ≤ y ∧ y < 2 ^ L)
    (hv : limbsValue L xs = limbsValue L ys) : xs = ys :=
  limbsValue_inj L xs ys hl hx hy hv

example : limbsValue 4 [3, 15, 1] = 3 + 16 * 15 + 256 := by decide

/-- `bi_to_limbs` (used by `assign`, `assign_fixed`, `as_public_input`, the witness of `assign_mul`
and `normalize`): for a non-negative value the `n` digits are in `[0, base)` and recompose the
value together with the remaining quotient (which the Rust function asserts to be zero). -/
theorem to_limbs_roundtrip (L n : Nat) (v : Int) (hv : 0 ≤ v) :
    (toLimbs L n v).1.length = n ∧ (∀ x ∈ (toLimbs L n v).1, 0 ≤ x ∧ x < 2 ^ L) ∧
    limbsValue L (toLimbs L n v).1 + 2 ^ (L * n) * (toLimbs L n v).2 = v :=
  let h := toLimbs_spec L n v hv
  ⟨h.1, h.2.1, h.2.2.2⟩

example : toLimbs 4 3 291 = ([3, 2, 1], 0) := by decide

/-- The unique-zero shift (`x = 1 + Σ baseⁱ·xᵢ`): a well-formed limb vector (low limbs in
`[0, base)`, most significant limb in `[0, 2^msl)`, with `base^(n-1)·2^msl < 2m` as
`well_formed_log2_bounds` arranges) that represents a multiple of `m` represents `m` itself.
Together with `limbs_value_injective`: ZERO HAS EXACTLY ONE WELL-FORMED REPRESENTATION, which is
what `is_zero` (comparison of the normalised limbs with `limbs_of_zero`) relies on. -/
theorem zero_unique (L k : Nat) (m : Int) (lo : List Int) (top : Int)
    (hlo : ∀ x ∈ lo, 0 ≤ x ∧ x < 2 ^ L) (h0 : 0 ≤ top) (h1 : top < 2 ^ k)
    (h2m : (2 : Int) ^ (L * lo.length + k) < 2 * m)
    (hdvd : m ∣ 1 + limbsValue L (lo ++ [top])) :
    1 + limbsValue L (lo ++ [top]) = m :=
  wellFormed_zero_value L k m lo top hlo h0 h1 h2m hdvd

example : (7 : Int) ∣ 1 + limbsValue 2 ([2] ++ [1]) ∧ (2 : Int) ^ (2 * 1 + 1) < 2 * 7 := by decide

/-- `is_equal_foreign_respects_residue` (the comparison core of `is_zero` / `is_equal` /
`assert_non_zero`): two well-formed limb vectors of the same shape that both represent the
residue zero are the same vector; so "normalised limbs = `limbs_of_zero`" holds iff the element
is zero, whichever well-formed representation the prover chose in the normalisation. -/
theorem is_zero_respects_residue (L k : Nat) (m : Int) (lo lo' : List Int) (top top' : Int)
    (hlen : lo.length = lo'.length) (hk : k ≤ L)
    (hlo : ∀ x ∈ lo, 0 ≤ x ∧ x < 2 ^ L) (h0 : 0 ≤ top) (h1 : top < 2 ^ k)
    (hlo' : ∀ x ∈ lo', 0 ≤ x ∧ x < 2 ^ L) (h0' : 0 ≤ top') (h1' : top' < 2 ^ k)
    (h2m : (2 : Int) ^ (L * lo.length + k) < 2 * m)
    (hz : m ∣ 1 + limbsValue L (lo ++ [top])) (hz' : m ∣ 1 + limbsValue L (lo' ++ [top'])) :
    lo ++ [top] = lo' ++ [top'] := by
  have e1 := wellFormed_zero_value L k m lo top hlo h0 h1 h2m hz
  have e2 := wellFormed_zero_value L k m lo' top' hlo' h0' h1' (by rw [← hlen]; exact h2m) hz'
  have hpow : (2 : Int) ^ k ≤ 2 ^ L := pow_le_pow_right₀ (by norm_num) hk
  apply limbsValue_inj L _ _ (by simp [hlen])
  · intro x hx
    simp only [List.mem_append, List.mem_singleton] at hx
    rcases hx with hx | rfl
    · exact hlo x hx
    · exact ⟨h0, by omega⟩
  · intro x hx
    simp only [List.mem_append, List.mem_singleton] at hx
    rcases hx with hx | rfl
    · exact hlo' x hx
    · exact ⟨h0', by omega⟩
  · omega

/-- Lazy arithmetic, `add`: the limb-wise sum with the correction `+1` on the least significant
limb represents the sum of the represented integers (`n ≥ 1` limbs). Bounds: see
`limb_interval_add`. -/
theorem add_limbs_value (L : Nat) (xs ys : List Int) (n : Nat) (hx : xs.length = n + 1)
    (hy : ys.length = n + 1) :
    1 + limbsValue L (ChipCfg.zip3 xs ys (1 :: List.replicate n 0) (fun a b k => a + b + k)) =
      (1 + limbsValue L xs) + (1 + limbsValue L ys) := by
  have e : (fun (a b k : Int) => a + b + k) = (fun a b k => 1 * a + 1 * b + k) := by
    funext a b k; ring
  rw [e, limbsValue_lin L 1 1 xs ys _ (by omega) (by simp [hy]), limbsValue_lsConst]; ring

/-- Lazy arithmetic, `sub`: correction `-1`. -/
theorem sub_limbs_value (L : Nat) (xs ys : List Int) (n : Nat) (hx : xs.length = n + 1)
    (hy : ys.length = n + 1) :
    1 + limbsValue L (ChipCfg.zip3 xs ys ((-1) :: List.replicate n 0) (fun a b k => a - b + k)) =
      (1 + limbsValue L xs) - (1 + limbsValue L ys) := by
  have e : (fun (a b k : Int) => a - b + k) = (fun a b k => 1 * a + (-1) * b + k) := by
    funext a b k; ring
  rw [e, limbsValue_lin L 1 (-1) xs ys _ (by omega) (by simp [hy]), limbsValue_lsConst]; ring

/-- Lazy arithmetic, `mul_by_constant` (small constant) and `neg` (`k = -1`): the limb-wise
scaling `k·xᵢ` with the correction `k - 1` on the least significant limb represents `k·x`. -/
theorem scale_limbs_value (L : Nat) (k : Int) (xs : List Int) (n : Nat) (hx : xs.length = n + 1) :
    1 + limbsValue L (ChipCfg.zip3 xs xs ((k - 1) :: List.replicate n 0) (fun a _ c => k * a + c)) =
      k * (1 + limbsValue L xs) := by
  have e : (fun (a _b c : Int) => k * a + c) = (fun a b c => k * a + 0 * b + c) := by
    funext a b c; ring
  rw [e, limbsValue_lin L k 0 xs xs _ rfl (by simp [hx]), limbsValue_lsConst]; ring

/-- Bound bookkeeping of the lazy operations is interval arithmetic: if `x ∈ [lx, ux]` and
`y ∈ [ly, uy]` then `x + y + c`, `x - y + c`, `k·x + c` (`k ≥ 0`) and `-x + c` lie in the
intervals `add`, `sub`, `mul_by_constant` and `neg` record. -/
theorem limb_interval_ops (x y lx ux ly uy c k : Int) (hx : lx ≤ x ∧ x ≤ ux) (hy : ly ≤ y ∧ y ≤ uy)
    (hk : 0 ≤ k) :
    (lx + ly + c ≤ x + y + c ∧ x + y + c ≤ ux + uy + c) ∧
    (lx - uy + c ≤ x - y + c ∧ x - y + c ≤ ux - ly + c) ∧
    (lx * k + c ≤ k * x + c ∧ k * x + c ≤ ux * k + c) ∧
    (-ux + c ≤ -x + c ∧ -x + c ≤ -lx + c) := by
  have h1 : lx * k ≤ k * x := by rw [Int.mul_comm k x]; exact Int.mul_le_mul_of_nonneg_right hx.1 hk
  have h2 : k * x ≤ ux * k := by rw [Int.mul_comm k x]; exact Int.mul_le_mul_of_nonneg_right hx.2 hk
  refine ⟨⟨by omega, by omega⟩, ⟨by omega, by omega⟩, ⟨by omega, by omega⟩, ⟨by omega, by omega⟩⟩


/-! ## End to end: gate identities + the range checks AS EMITTED + tracked bounds

The executable emitter (`Model/C05/Chip.lean`: `normEvent`, `mulEvent`, `freshLimbs`) produces, for
every operation, the regions of the foreign chip with the bit length of every range check and the
source of every copied-in limb; the correspondence (`fpt` lines) compares exactly these events with
what the real synthesis emits (bit lengths logged at the real decomposition chip, wiring from the
real copy constraints). The theorems below start from the events the emitter produces. -/

/-- What `FieldChip::configure` computes (`ChipCfg.ofParams`): the bounds of both gates and the
well-formed widths of the parameter set. -/
theorem ofParams_spec (P : Params) (c : ChipCfg) (h : ChipCfg.ofParams P = some c) :
    c.P = P ∧ P.mulBounds = .ok c.mulB ∧ P.normBounds = .ok c.normB ∧
      P.wellFormedLog2Bounds = some c.wfLog2 := by
  unfold ChipCfg.ofParams at h
  split at h
  · next mb nb wf h1 h2 h3 => cases h; exact ⟨rfl, h1, h2, h3⟩
  · cases h

/-- The range checks emitted for the auxiliary cells are the ones the soundness theorems need:
for every result `b` of `get_identity_auxiliary_bounds`, a quotient cell range-checked with the
emitted bit length `uBits b` (`assert_less_than_pow2(u, log2 u_max)`) lies in `[0, u_max)`, and
cells `vj` range-checked with the emitted bit lengths `vBits b` lie in `[0, vj_max)`. (An emitted
bit length one larger — `u_max·2` — would break this theorem's use below; one smaller would break
completeness, `compiled_bounds_are_powers_of_two`.) -/
theorem emitted_range_checks_sound (p m : Int) (moduli : List Int) (eb : Int × Int)
    (mjb : List (Int × Int)) (b : AuxBounds) (hb : identityAuxBounds p m moduli eb mjb = .ok b)
    (u : Int) (vjs : List Int) (hu : 0 ≤ u ∧ u < 2 ^ ChipCfg.uBits b)
    (hv : bitsOk (ChipCfg.vBits b) vjs) :
    (0 ≤ u ∧ u < b.uMax) ∧ vjsInRange b.vs vjs = true := by
  obtain ⟨h1, h2⟩ := identityAuxBounds_pos p m moduli eb mjb b hb
  exact ⟨⟨hu.1, lt_uMax_of_bits b h1 u hu.2⟩, vjsInRange_of_bits b.vs vjs h2 hv⟩

example : bitsOk [3, 1] [7, 0] ∧ ¬ bitsOk [3, 1] [8, 0] := by
  simp [bitsOk]

/-- Exactness of the emitted bit lengths on the compiled-in sets: `u_max` and every `vj_max` of
both gates are powers of two, so `assert_lower_than_fixed(cell, bound)` is the single lookup-based
check `cell < 2^bits` with `2^bits = bound` (neither looser — soundness — nor tighter —
completeness — than the bound computed at configure time). -/
def pow2Exact (b : AuxBounds) : Bool :=
  decide ((2 : Int) ^ ChipCfg.uBits b = b.uMax) &&
    b.vs.all (fun vb => decide ((2 : Int) ^ Nat.log2 vb.2.toNat = vb.2))

theorem compiled_bounds_are_powers_of_two : ∀ P ∈ Gen.paramSets,
    (match P.mulBounds with | .ok b => pow2Exact b | .error _ => false) = true ∧
    (match P.normBounds with | .ok b => pow2Exact b | .error _ => false) = true := by
  decide +kernel

/-- `norm_sound_end_to_end` (`make_canonical` → `norm::normalize`): take ANY assignment of the
cells of a "Foreign norm" region — input limb integers `xs` within the bounds the chip tracks for
`x` (the invariant every operation maintains), output limbs `zs`, `u`, `vj` — such that the guard
of `make_canonical` passed, the range checks hold with the bit lengths AS EMITTED in the region's
event (`normEvent`: well-formed widths on `zs`, `uBits`, `vBits`), and the gate identities hold.
Then input and output represent the same residue and the output lies within
`well_formed_bounds` (the bounds the chip records for it). -/
theorem norm_sound_end_to_end (c : ChipCfg) (hc : ChipCfg.ofParams c.P = some c)
    (hm : 0 < c.P.m) (hmods : ∀ mj ∈ c.P.moduli, 0 < mj)
    (hwfL : ∀ k ∈ c.wfLog2, k ≤ c.P.log2Base) (hwn : c.wfLog2.length = c.P.nbLimbs)
    (x : FVar) (r : Nat) (xs zs : List Int) (u : Int) (vjs : List Int)
    (hn : x.bounds.length = c.P.nbLimbs)
    (hguard : c.canonGuard x = true) (hx : within x.bounds xs)
    (zB : List Nat) (uB : Nat) (vB : List Nat)
    (hev : c.normEvent r x = .norm r x.src zB uB vB)
    (hz : bitsOk zB zs) (hu : 0 ≤ u ∧ u < 2 ^ uB) (hv : bitsOk vB vjs)
    (hg : c.P.normGateHolds c.normB xs zs u vjs = true) :
    (1 + limbsValue c.P.log2Base xs) % c.P.m = (1 + limbsValue c.P.log2Base zs) % c.P.m ∧
      within c.wfBounds zs := by
  obtain ⟨_, _, hnb, _⟩ := ofParams_spec c.P c hc
  simp only [ChipCfg.normEvent, Ev.norm.injEq, true_and] at hev
  obtain ⟨rfl, rfl, rfl⟩ := hev
  have hnb' := hnb
  unfold Params.normBounds at hnb'
  obtain ⟨hur, hvr⟩ := emitted_range_checks_sound _ _ _ _ _ _ hnb' u vjs hu hv
  unfold ChipCfg.canonGuard at hguard
  simp only [Bool.not_eq_true'] at hguard
  have hxg := within_guard c.P.maxLimbBound x.bounds xs hguard hx
  have hzb := bitsOk_lt_base c.P.log2Base c.wfLog2 zs hwfL hz
  refine ⟨norm_gate_sound c.P c.normB hm hmods hnb xs zs u vjs
    (by rw [within_length _ _ hx, hn]) (by rw [bitsOk_length _ _ hz, hwn]) hxg
    (by unfold Params.base; exact hzb) hur hvr hg, ?_⟩
  unfold ChipCfg.wfBounds
  exact within_wf_of_bits _ _ hz

/-- `mul_sound_end_to_end` (`assign_mul` → `mul::assert_mul(l, y, r)`, `l·y = r`; for a division
`l` is the fresh quotient and `r` the dividend): ANY assignment of the cells of a "Foreign
multiplication" region whose three copied-in operands lie within `well_formed_bounds` (operands
after `normalize`: `normalize_sound_end_to_end`; the fresh result: range-checked at assignment
with the well-formed widths, `assign_event_well_formed`), whose `u`, `vj` satisfy the range checks
with the bit lengths AS EMITTED in the region's event (`mulEvent`), and that satisfies the gate
identities, represents a correct product modulo `m`. -/
theorem mul_sound_end_to_end (c : ChipCfg) (hc : ChipCfg.ofParams c.P = some c)
    (hm : 0 < c.P.m) (hmods : ∀ mj ∈ c.P.moduli, 0 < mj)
    (hwfL : ∀ k ∈ c.wfLog2, k ≤ c.P.log2Base) (hwn : c.wfLog2.length = c.P.nbLimbs)
    (l y rr : FVar) (r : Nat) (xs ys zs : List Int) (u : Int) (vjs : List Int)
    (hx : within c.wfBounds xs) (hy : within c.wfBounds ys) (hz : within c.wfBounds zs)
    (uB : Nat) (vB : List Nat)
    (hev : c.mulEvent r l y rr = .mul r l.src y.src rr.src uB vB)
    (hu : 0 ≤ u ∧ u < 2 ^ uB) (hv : bitsOk vB vjs)
    (hg : c.P.mulGateHolds c.mulB xs ys zs u vjs = true) :
    ((1 + limbsValue c.P.log2Base xs) * (1 + limbsValue c.P.log2Base ys)) % c.P.m =
      (1 + limbsValue c.P.log2Base zs) % c.P.m := by
  obtain ⟨_, hmb, _, _⟩ := ofParams_spec c.P c hc
  simp only [ChipCfg.mulEvent, Ev.mul.injEq, true_and] at hev
  obtain ⟨rfl, rfl⟩ := hev
  have hmb' := hmb
  unfold Params.mulBounds at hmb'
  obtain ⟨hur, hvr⟩ := emitted_range_checks_sound _ _ _ _ _ _ hmb' u vjs hu hv
  unfold ChipCfg.wfBounds at hx hy hz
  have bx := bits_of_within_wf _ _ hx
  have bY := bits_of_within_wf _ _ hy
  have bz := bits_of_within_wf _ _ hz
  have lx := bitsOk_lt_base c.P.log2Base c.wfLog2 xs hwfL bx
  have ly := bitsOk_lt_base c.P.log2Base c.wfLog2 ys hwfL bY
  have lz := bitsOk_lt_base c.P.log2Base c.wfLog2 zs hwfL bz
  exact mul_gate_sound c.P c.mulB hm hmods hmb xs ys zs u vjs
    (by rw [bitsOk_length _ _ bx, hwn]) (by rw [bitsOk_length _ _ bY, hwn])
    (by rw [bitsOk_length _ _ bz, hwn])
    (by unfold Params.base; exact lx) (by unfold Params.base; exact ly)
    (by unfold Params.base; exact lz) hur hvr hg

/-- Joint satisfiability of the hypotheses of `norm_sound_end_to_end` and `mul_sound_end_to_end`
(non-vacuity, and completeness on a sample): for a parameter set, the honest witnesses
(`normWitness` of an un-normalised vector with negative limbs, `mulWitness` of its product with a
constant) satisfy the gate identities AND the range checks with the emitted bit lengths, and the
side conditions on the well-formed widths hold. -/
def endToEndWitnessOk (P : Params) : Bool :=
  match ChipCfg.ofParams P with
  | none => false
  | some c =>
    let xs : List Int := (List.range c.n).map (fun i => if i % 2 = 0 then (5 : Int) + i else -(3 : Int) - i)
    let w := c.P.normWitness c.normB xs
    let zs := w.1
    let ys := c.limbsOf 12345
    let pz := c.limbsOf ((c.value ⟨zs, [], none, []⟩ * 12345) % c.m)
    let mw := c.P.mulWitness c.mulB zs ys pz
    c.P.normGateHolds c.normB xs zs w.2.1 w.2.2 && decide (0 ≤ w.2.1)
      && decide (w.2.1 < 2 ^ ChipCfg.uBits c.normB)
      && ((ChipCfg.vBits c.normB).zip w.2.2).all (fun t => decide (0 ≤ t.2) && decide (t.2 < 2 ^ t.1))
      && (c.wfLog2.zip zs).all (fun t => decide (0 ≤ t.2) && decide (t.2 < 2 ^ t.1))
      && c.P.mulGateHolds c.mulB zs ys pz mw.1 mw.2 && decide (0 ≤ mw.1)
      && decide (mw.1 < 2 ^ ChipCfg.uBits c.mulB)
      && ((ChipCfg.vBits c.mulB).zip mw.2).all (fun t => decide (0 ≤ t.2) && decide (t.2 < 2 ^ t.1))
      && c.wfLog2.all (· ≤ c.P.log2Base) && decide (c.wfLog2.length = c.P.nbLimbs)

/-- Every compiled-in parameter set configures (`ChipCfg.ofParams`), satisfies the side conditions
`wf[i] ≤ LOG2_BASE`, `#wf = NB_LIMBS` of the end-to-end theorems, and the honest witnesses pass the
emitted range checks (so the emitted bit lengths are not too tight). -/
theorem compiled_end_to_end_hypotheses : ∀ P ∈ Gen.paramSets, endToEndWitnessOk P = true := by
  decide +kernel

/-- The fresh limbs of `assign` / `assign_mul` (event `A`: limb `i` assigned by
`assign_lower_than_fixed(·, 2^wf[i])`) lie within `well_formed_bounds`, and conversely. -/
theorem assign_event_well_formed (c : ChipCfg) (zs : List Int) :
    bitsOk c.wfLog2 zs ↔ within c.wfBounds zs := by
  unfold ChipCfg.wfBounds
  exact ⟨within_wf_of_bits _ _, bits_of_within_wf _ _⟩

/-- What `FieldChip::normalize(x)` enforces on an arbitrary assignment (input limb integers `xs`,
limbs `zs` of the returned element): either the tracked bounds of `x` are well-formed and the same
cells are returned, or `make_canonical` runs — its guard passed and a "Foreign norm" region with
the emitted range checks and the gate identities relates `xs` and `zs`. -/
def NormalizedBy (c : ChipCfg) (x : FVar) (xs zs : List Int) : Prop :=
  (c.isWellFormed x = true ∧ zs = xs) ∨
  (c.canonGuard x = true ∧ ∃ (r : Nat) (u : Int) (vjs : List Int) (zB : List Nat) (uB : Nat)
      (vB : List Nat),
    c.normEvent r x = .norm r x.src zB uB vB ∧ bitsOk zB zs ∧ (0 ≤ u ∧ u < 2 ^ uB) ∧
      bitsOk vB vjs ∧ c.P.normGateHolds c.normB xs zs u vjs = true)

/-- `normalize_sound_end_to_end`: whichever branch `normalize` takes, the returned limbs represent
the same residue as the input and lie within `well_formed_bounds` — for every assignment. This is
what `mul`, `div`, `assert_equal`, `is_zero`, `as_public_input` and the bit/byte conversions rely
on before they look at limbs. -/
theorem normalize_sound_end_to_end (c : ChipCfg) (hc : ChipCfg.ofParams c.P = some c)
    (hm : 0 < c.P.m) (hmods : ∀ mj ∈ c.P.moduli, 0 < mj)
    (hwfL : ∀ k ∈ c.wfLog2, k ≤ c.P.log2Base) (hwn : c.wfLog2.length = c.P.nbLimbs)
    (x : FVar) (xs zs : List Int) (hn : x.bounds.length = c.P.nbLimbs)
    (hx : within x.bounds xs) (h : NormalizedBy c x xs zs) :
    (1 + limbsValue c.P.log2Base xs) % c.P.m = (1 + limbsValue c.P.log2Base zs) % c.P.m ∧
      within c.wfBounds zs := by
  rcases h with ⟨hwf, rfl⟩ | ⟨hguard, r, u, vjs, zB, uB, vB, hev, hz, hu, hv, hg⟩
  · refine ⟨rfl, ?_⟩
    unfold ChipCfg.wfBounds
    unfold ChipCfg.isWellFormed at hwf
    exact within_wf_of_isWellFormed x.bounds c.wfLog2 zs (by rw [hn, hwn]) hwf hx
  · exact norm_sound_end_to_end c hc hm hmods hwfL hwn x r xs zs u vjs hn hguard hx zB uB vB hev hz hu
      hv hg

/-- `add_sound_end_to_end` (lazy `add`, no gate of the foreign chip): for limb integers within the
tracked bounds of the operands, the limb-wise sums `xᵢ + yᵢ + cᵢ` (native linear combinations,
`c = [1, 0, …]`) lie within the bounds `add` records and represent the sum. The recorded bounds
stay below `max_limb_bound` (guard of `make_canonical`) ≪ native modulus, so the native cells
determine these integers. -/
theorem add_sound_end_to_end (L : Nat) (bx bY : List (Int × Int)) (xs ys : List Int) (n : Nat)
    (hbx : bx.length = n + 1) (hbY : bY.length = n + 1) (hx : within bx xs) (hy : within bY ys) :
    within (ChipCfg.zipB3 bx bY (1 :: List.replicate n 0) (fun a b k => (a.1 + b.1 + k, a.2 + b.2 + k)))
      (ChipCfg.zip3 xs ys (1 :: List.replicate n 0) (fun a b k => a + b + k)) ∧
    1 + limbsValue L (ChipCfg.zip3 xs ys (1 :: List.replicate n 0) (fun a b k => a + b + k)) =
      (1 + limbsValue L xs) + (1 + limbsValue L ys) :=
  ⟨within_zip3_add bx bY _ xs ys hx hy (by simp [hbx]) (by simp [hbY]),
   add_limbs_value L xs ys n (by rw [within_length _ _ hx, hbx]) (by rw [within_length _ _ hy, hbY])⟩

/-- `sub_sound_end_to_end` (lazy `sub`, correction `-1`; the lower bound of the result uses the
UPPER bound of `y` and vice versa). -/
theorem sub_sound_end_to_end (L : Nat) (bx bY : List (Int × Int)) (xs ys : List Int) (n : Nat)
    (hbx : bx.length = n + 1) (hbY : bY.length = n + 1) (hx : within bx xs) (hy : within bY ys) :
    within (ChipCfg.zipB3 bx bY ((-1) :: List.replicate n 0) (fun a b k => (a.1 - b.2 + k, a.2 - b.1 + k)))
      (ChipCfg.zip3 xs ys ((-1) :: List.replicate n 0) (fun a b k => a - b + k)) ∧
    1 + limbsValue L (ChipCfg.zip3 xs ys ((-1) :: List.replicate n 0) (fun a b k => a - b + k)) =
      (1 + limbsValue L xs) - (1 + limbsValue L ys) :=
  ⟨within_zip3_sub bx bY _ xs ys hx hy (by simp [hbx]) (by simp [hbY]),
   sub_limbs_value L xs ys n (by rw [within_length _ _ hx, hbx]) (by rw [within_length _ _ hy, hbY])⟩

example : within [(0, 3), (0, 3)] [2, 3] ∧ ¬ within [(0, 3), (0, 3)] [2, 4] := by simp [within]

/-- `assert_equal_sound_end_to_end`: `assert_equal(x, y)` normalises both operands and constrains
the returned limb cells to be pairwise equal (event `E`). For EVERY assignment satisfying what the
two normalisations enforce and that equality, `x` and `y` represent the same residue: the
assertion never identifies different residues, whichever representations the operands have
(un-normalised chains included). -/
theorem assert_equal_sound_end_to_end (c : ChipCfg) (hc : ChipCfg.ofParams c.P = some c)
    (hm : 0 < c.P.m) (hmods : ∀ mj ∈ c.P.moduli, 0 < mj)
    (hwfL : ∀ k ∈ c.wfLog2, k ≤ c.P.log2Base) (hwn : c.wfLog2.length = c.P.nbLimbs)
    (x y : FVar) (xs ys zx zy : List Int)
    (hnx : x.bounds.length = c.P.nbLimbs) (hny : y.bounds.length = c.P.nbLimbs)
    (hx : within x.bounds xs) (hy : within y.bounds ys)
    (h1 : NormalizedBy c x xs zx) (h2 : NormalizedBy c y ys zy) (heq : zx = zy) :
    (1 + limbsValue c.P.log2Base xs) % c.P.m = (1 + limbsValue c.P.log2Base ys) % c.P.m := by
  have a := (normalize_sound_end_to_end c hc hm hmods hwfL hwn x xs zx hnx hx h1).1
  have b := (normalize_sound_end_to_end c hc hm hmods hwfL hwn y ys zy hny hy h2).1
  rw [a, b, heq]

/-- `is_equal_sound_end_to_end` (`is_equal(x, y) = is_zero(x - y)`; also `is_zero`,
`assert_non_zero`, `is_equal_to_fixed`): let `ds` be limb integers representing `X - Y` (lazy
`sub`, `sub_sound_end_to_end`), `zs` what `normalize` returns for them (a well-formed vector, split
as low limbs and most significant limb), `z0` the vector `limbs_of_zero` (well-formed, representing
`m`: `uniqueZeroOk`, kernel-checked for every compiled-in set). Then the comparison "`zs` equals
`z0` limb by limb" holds IF AND ONLY IF `X ≡ Y (mod m)` — for every well-formed vector the prover
may put in the normalisation: two representations of one residue are treated identically and
different residues are never identified. -/
theorem is_equal_sound_end_to_end (L k : Nat) (m X Y : Int) (lo lo0 : List Int) (top top0 : Int)
    (hlen : lo.length = lo0.length) (hk : k ≤ L)
    (hlo : ∀ x ∈ lo, 0 ≤ x ∧ x < 2 ^ L) (h0 : 0 ≤ top) (h1 : top < 2 ^ k)
    (hlo0 : ∀ x ∈ lo0, 0 ≤ x ∧ x < 2 ^ L) (h00 : 0 ≤ top0) (h10 : top0 < 2 ^ k)
    (h2m : (2 : Int) ^ (L * lo.length + k) < 2 * m)
    (hz0 : 1 + limbsValue L (lo0 ++ [top0]) = m)
    (hres : (1 + limbsValue L (lo ++ [top])) % m = (X - Y) % m) :
    lo ++ [top] = lo0 ++ [top0] ↔ X % m = Y % m := by
  constructor
  · intro h
    rw [h, hz0, Int.emod_self] at hres
    have : m ∣ X - Y := Int.dvd_of_emod_eq_zero hres.symm
    exact Int.emod_eq_emod_iff_emod_sub_eq_zero.mpr (Int.emod_eq_zero_of_dvd this)
  · intro h
    have hd : m ∣ X - Y := Int.dvd_of_emod_eq_zero (Int.emod_eq_emod_iff_emod_sub_eq_zero.mp h)
    have hz : m ∣ 1 + limbsValue L (lo ++ [top]) := by
      have := Int.emod_eq_zero_of_dvd hd
      rw [this] at hres
      exact Int.dvd_of_emod_eq_zero hres
    exact is_zero_respects_residue L k m lo lo0 top top0 hlen hk hlo h0 h1 hlo0 h00 h10 h2m hz
      (by rw [hz0])

example : ([2] ++ [(1 : Int)] = [2] ++ [1] ↔ (10 : Int) % 7 = 3 % 7) := by decide

/-! ## Big unsigned integers -/

/-- `bound_of_addition` (biguint/types.rs) never under-approximates: `a < 2^b1`, `b < 2^b2` imply
`a + b < 2^bound_of_addition(b1, b2)`. -/
theorem bound_of_addition_sound (a b b1 b2 : Nat) (ha : a < 2 ^ b1) (hb : b < 2 ^ b2) :
    a + b < 2 ^ boundOfAddition b1 b2 :=
  boundOfAddition_spec a b b1 b2 ha hb

example : boundOfAddition 0 5 = 5 ∧ boundOfAddition 96 96 = 97 ∧ boundOfAddition 3 0 = 3 := by decide

/-- `nb_bits()` never under-approximates: limbs within their size bounds represent an integer
below `2^nb_bits` (so `assign_bounded(…, x.nb_bits())` in `sub` / `div_rem` can hold the honest
difference / quotient / remainder, and `normalize` allocates enough output limbs). -/
theorem nb_bits_sound (lb : Nat) (ls sb : List Nat) (hl : ls.length = sb.length)
    (h : ∀ t ∈ ls.zip sb, t.1 < 2 ^ t.2) : bigValue lb ls < 2 ^ nbBits lb sb :=
  bigValue_lt_nbBits lb ls sb hl h

example : nbBits 96 [96, 96, 5] = 197 := by decide +kernel

/-- `add_carry_unique` (`div_rem_native_by_base`, the step of `normalize`): with the payload
`x < p`, a quotient cell range-checked `q < 2^k`, a remainder cell `r < 2^lb` and
`2^(k+lb) ≤ p` (guaranteed by `x_size_bound < F::NUM_BITS`), the native identity
`x = q·2^lb + r (mod p)` pins `q = ⌊x / 2^lb⌋` and `r = x mod 2^lb`: a prover cannot choose another
carry. -/
theorem add_carry_unique (p lb k x q r : Nat) (hx : x < p) (hq : q < 2 ^ k) (hr : r < 2 ^ lb)
    (hp : 2 ^ (k + lb) ≤ p) (hid : (q * 2 ^ lb + r) % p = x % p) :
    q = x / 2 ^ lb ∧ r = x % 2 ^ lb :=
  carry_unique p lb k x q r hx hq hr hp hid

example : (3 * 2 ^ 4 + 5) % 101 = 53 % 101 ∧ 53 / 2 ^ 4 = 3 ∧ 53 % 2 ^ 4 = 5 := by decide

/-- `normalize` preserves the represented integer: whenever the carry chain of the model runs
(no native-overflow panic), the output limbs are in `[0, 2^lb)`, there are as many as inputs, and
`Σ outᵢ·2^(lb·i) + 2^(lb·n)·(final carry) = Σ inᵢ·2^(lb·i)`; the circuit asserts the final carry
to be zero. -/
theorem normalize_value (lb numBits : Nat) (xs sbs ls : List Nat) (c : Nat)
    (h : Big.normChain lb numBits 0 0 xs sbs = .ok (ls, c)) :
    ls.length = xs.length ∧ (∀ l ∈ ls, l < 2 ^ lb) ∧
      bigValue lb ls + 2 ^ (lb * xs.length) * c = bigValue lb xs := by
  have := normChain_spec lb numBits xs sbs 0 0 ls c h
  simpa using this

example : (match Big.normChain 4 255 0 0 [17, 35, 1] [6, 6, 1] with
    | .ok r => r == ([1, 4, 3], 0)
    | .error _ => false) = true := by decide +kernel

/-- `add`: limb-wise addition (before normalisation) adds the represented integers, whatever
the two lengths. -/
theorem add_limbs_sound (lb : Nat) (xs ys : List Nat) :
    bigValue lb (Big.zipAddLimbs xs ys) = bigValue lb xs + bigValue lb ys :=
  zipAddLimbs_value lb xs ys

/-- `mul_limbs_sound`: the schoolbook products `limb[k] = Σ_{i+j=k} xᵢ·yⱼ` that `mul` accumulates
(before normalisation) represent the product of the represented integers. -/
theorem mul_limbs_sound (lb : Nat) (xs ys : List Nat) :
    bigValue lb (Big.mulLimbs xs ys) = bigValue lb xs * bigValue lb ys :=
  mulLimbs_value lb xs ys

example : Big.mulLimbs [3, 2] [5, 7, 1] = [15, 31, 17, 2] := by decide

/-- `assert_equal` / `is_equal` on BigUints are exact: normalised limb vectors of the same length
with the same value are equal (and equal vectors have equal values). -/
theorem big_limbs_injective (lb : Nat) (xs ys : List Nat) (hl : xs.length = ys.length)
    (hx : ∀ x ∈ xs, x < 2 ^ lb) (hy : ∀ y ∈ ys, y < 2 ^ lb)
    (hv : bigValue lb xs = bigValue lb ys) : xs = ys :=
  bigValue_inj lb xs ys hl hx hy hv

/-- `div_rem_sound`: the two constraints of `div_rem` (`x = q·y + r` as integers, enforced through
`mul`, `add`, `assert_equal` on normalised limbs, and `r < y`) pin quotient and remainder. -/
theorem div_rem_sound (x y q r : Nat) (h1 : x = q * y + r) (h2 : r < y) :
    q = x / y ∧ r = x % y := by
  subst h1
  have hy : 0 < y := by omega
  constructor
  · rw [Nat.add_comm, Nat.add_mul_div_right _ _ hy, Nat.div_eq_of_lt h2, Nat.zero_add]
  · rw [Nat.add_comm, Nat.add_mul_mod_self_right, Nat.mod_eq_of_lt h2]

example : 17 = 3 * 5 + 2 ∧ 2 < 5 := by decide

/-- `lower_than_sound`: the fold of `geq` over normalised limb vectors of equal length (least
significant first, `acc := xᵢ > yᵢ ∨ (xᵢ = yᵢ ∧ acc)`, initial `true`) is the comparison of the
represented integers; `lower_than` is its negation. -/
theorem lower_than_sound (lb : Nat) (xs ys : List Nat) (hl : xs.length = ys.length)
    (hx : ∀ x ∈ xs, x < 2 ^ lb) (hy : ∀ y ∈ ys, y < 2 ^ lb) :
    Big.geqFold xs ys true = decide (bigValue lb xs ≥ bigValue lb ys) := by
  rw [geqFold_spec lb xs ys true hl hx hy]
  by_cases h : bigValue lb xs > bigValue lb ys
  · have : bigValue lb xs ≥ bigValue lb ys := by omega
    simp [h, this]
  · by_cases h2 : bigValue lb xs = bigValue lb ys
    · simp [h2]
    · have : ¬ bigValue lb xs ≥ bigValue lb ys := by omega
      simp [h, h2, this]

example : Big.geqFold [5, 1] [9, 0] true = true ∧ Big.geqFold [5, 0] [9, 0] true = false := by decide

/-! ## BigUint operations end to end (limb products / sums + carry chain + equality) -/

/-- `add` end to end (`BigUintGadget::add` = limb-wise native additions, then `normalize` whose
final carry is asserted to be zero): whenever the carry chain of the model runs on the limb-wise
sums and the final carry is zero, the output limbs are normalised (`< 2^lb`) and represent
`x + y` — for every operand pair and every limb count. -/
theorem big_add_sound_end_to_end (lb numBits : Nat) (xs ys sbs ls : List Nat)
    (h : Big.normChain lb numBits 0 0 (Big.zipAddLimbs xs ys) sbs = .ok (ls, 0)) :
    (∀ l ∈ ls, l < 2 ^ lb) ∧ bigValue lb ls = bigValue lb xs + bigValue lb ys := by
  obtain ⟨_, h2, h3⟩ := normalize_value lb numBits _ sbs ls 0 h
  refine ⟨h2, ?_⟩
  rw [← add_limbs_sound lb xs ys]
  simpa using h3

/-- `mul` end to end: schoolbook products, then `normalize` with zero final carry. -/
theorem big_mul_sound_end_to_end (lb numBits : Nat) (xs ys sbs ls : List Nat)
    (h : Big.normChain lb numBits 0 0 (Big.mulLimbs xs ys) sbs = .ok (ls, 0)) :
    (∀ l ∈ ls, l < 2 ^ lb) ∧ bigValue lb ls = bigValue lb xs * bigValue lb ys := by
  obtain ⟨_, h2, h3⟩ := normalize_value lb numBits _ sbs ls 0 h
  refine ⟨h2, ?_⟩
  rw [← mul_limbs_sound lb xs ys]
  simpa using h3

/-- `sub` end to end (`res` is a prover-chosen witness, range-checked limb by limb;
`res + y` is normalised and asserted equal to `x`): the constraints force `res = x - y` AND
`y ≤ x` — on an underflow no witness exists (the circuit is unsatisfiable), for every limb count. -/
theorem big_sub_sound_end_to_end (lb numBits : Nat) (xs ys rs sbs ls : List Nat)
    (h : Big.normChain lb numBits 0 0 (Big.zipAddLimbs rs ys) sbs = .ok (ls, 0))
    (heq : bigValue lb ls = bigValue lb xs) :
    bigValue lb rs = bigValue lb xs - bigValue lb ys ∧ bigValue lb ys ≤ bigValue lb xs := by
  have := (big_add_sound_end_to_end lb numBits rs ys sbs ls h).2
  omega

/-- `div_rem` end to end: `q`, `r` prover-chosen; `q·y` (schoolbook + normalise), `+ r`
(normalise), asserted equal to `x`, and `r < y` (`lower_than`): quotient and remainder are pinned. -/
theorem big_div_rem_sound_end_to_end (lb numBits : Nat) (xs ys qs rs sb1 sb2 ps ls : List Nat)
    (h1 : Big.normChain lb numBits 0 0 (Big.mulLimbs qs ys) sb1 = .ok (ps, 0))
    (h2 : Big.normChain lb numBits 0 0 (Big.zipAddLimbs ps rs) sb2 = .ok (ls, 0))
    (heq : bigValue lb ls = bigValue lb xs) (hlt : bigValue lb rs < bigValue lb ys) :
    bigValue lb qs = bigValue lb xs / bigValue lb ys ∧ bigValue lb rs = bigValue lb xs % bigValue lb ys := by
  have a := (big_mul_sound_end_to_end lb numBits qs ys sb1 ps h1).2
  have b := (big_add_sound_end_to_end lb numBits ps rs sb2 ls h2).2
  exact div_rem_sound _ _ _ _ (by rw [← heq, b, a]) hlt

example : (match Big.normChain 4 255 0 0 (Big.zipAddLimbs [15, 1] [3, 2]) [5, 3] with
    | .ok r => r == ([2, 4], 0)
    | .error _ => false) = true := by decide +kernel


/-! ## BigUint from the CONSTRAINTS: the carries of `normalize` and the witnesses of
`assign_bounded` are prover-chosen; their range checks are the ones the emitter prints
(`Big.normRc`, `Big.boundedSb`), read back from the real decomposition chip for EVERY operation
(`bigrc` lines: `normalize` inside add / mul / sub / div_rem / mod_exp / public-input exposure, the
internal `assign_bounded` calls of sub / div_rem, the comparisons of `geq`) -/

/-- `normalize_constraints_pin_chain`: take ANY assignment `(qᵢ, rᵢ)` of the cells of the
`div_rem_native_by_base` steps of `normalize` (cell values as naturals below the native modulus
`p`, `2^(NUM_BITS-1) ≤ p`) for input limbs within their tracked size bounds. If the range checks
hold with the bit lengths AS EMITTED (`Big.normRc`: `k_q = max(payload_bound, lb) - lb`,
`k_r = lb`; `none` = the overflow panic) and every native identity
`qᵢ·2^lb + rᵢ = carryᵢ₋₁ + xᵢ (mod p)` holds, then the assignment is the honest carry chain of the
model: a prover cannot choose another carry or limb anywhere in the chain. -/
theorem normalize_constraints_pin_chain (p lb numBits : Nat) (hp : 2 ^ (numBits - 1) ≤ p)
    (hlb : lb < numBits) (xs sbs : List Nat) (rc qrs : List (Nat × Nat)) (c : Nat)
    (hx : limbsWithin xs sbs) (hrc : Big.normRc lb numBits 0 sbs = some rc)
    (hs : NormSat p lb 0 xs rc qrs c) :
    Big.normChain lb numBits 0 0 xs sbs = .ok (qrs.map (·.2), c) :=
  normSat_pins_chain p lb numBits hp hlb xs sbs 0 0 rc qrs c hx (by simp) hrc hs

/-- Non-vacuity (a 2-limb input with a carry; `p = 101`, 7-bit "field"). -/
example : Big.normRc 2 7 0 [3, 2] = some [(1, 2), (1, 2)] ∧
    NormSat 101 2 0 [7, 2] [(1, 2), (1, 2)] [(1, 3), (0, 3)] 0 := by
  refine ⟨by decide, ?_⟩
  simp [NormSat]

/-- `normalize_sound_from_constraints`: whichever branch `normalize` takes (already normalised /
carry chain with the final carry asserted zero), for EVERY assignment of the carries and output
limbs satisfying the emitted range checks and the native identities, the returned limbs are
normalised (`< 2^lb`), lie within the bounds recorded for them and represent the same integer. -/
theorem normalize_sound_from_constraints (p lb numBits : Nat) (hp : 2 ^ (numBits - 1) ≤ p)
    (hlb : lb < numBits) (x x' : BVar) (hx : limbsWithin x.limbs x.sb)
    (h : NormOut p lb numBits x x') :
    limbsWithin x'.limbs x'.sb ∧ isNormalized lb x'.sb = true ∧ (∀ z ∈ x'.limbs, z < 2 ^ lb) ∧
      bigValue lb x'.limbs = bigValue lb x.limbs :=
  normOut_sound p lb numBits hp hlb x x' hx h

/-- `normalize_constraints_complete` (completeness of the emitted range checks): for every input
within its tracked bounds on which the emitter does not panic, the honest quotients / remainders
satisfy all constraints of the chain — the emitted bit lengths are never too tight. -/
theorem normalize_constraints_complete (p lb numBits : Nat) (x : BVar) (k : Nat)
    (rc : List (Nat × Nat)) (hx : limbsWithin x.limbs x.sb)
    (hrc : Big.normRc lb numBits 0 (x.sb ++ List.replicate k 0) = some rc) :
    ∃ c, NormSat p lb 0 (x.limbs ++ List.replicate k 0) rc
      (honestQR lb 0 (x.limbs ++ List.replicate k 0)) c :=
  normOut_complete p lb numBits x k rc hx hrc

/-- `big_add_comm`: the limb-wise sum and its tracked bounds do not depend on the order of the
operands, WHATEVER the two limb counts (the code has one branch per longer operand: `x` longer /
`y` longer); hence `add(x, y)` and `add(y, x)` emit the same constraints and return the same
number. -/
theorem big_add_comm (lb numBits : Nat) (x y : BVar) :
    Big.zipAddLimbs x.limbs y.limbs = Big.zipAddLimbs y.limbs x.limbs ∧
    Big.zipAddBounds x.sb y.sb = Big.zipAddBounds y.sb x.sb ∧
    Big.add lb numBits x y = Big.add lb numBits y x := by
  refine ⟨zipAddLimbs_comm _ _, zipAddBounds_comm _ _, ?_⟩
  unfold Big.add
  rw [zipAddLimbs_comm, zipAddBounds_comm]

/-- `big_add_wider_second_operand`: the branch `y.limbs.len() > x.limbs.len()` spelled out — on the
common prefix the limbs are added, the remaining limbs of the result are the HIGH LIMBS OF `y`
(the longer operand), with `y`'s bounds. -/
theorem big_add_wider_second_operand (xs ys : List Nat) (h : xs.length ≤ ys.length) :
    Big.zipAddLimbs xs ys = List.zipWith (· + ·) xs (ys.take xs.length) ++ ys.drop xs.length :=
  zipAddLimbs_longer_second xs ys h

example : Big.zipAddLimbs [1] [10, 20, 30] = [11, 20, 30] ∧
    Big.zipAddLimbs [10, 20, 30] [1] = [11, 20, 30] := by decide

/-- `big_add_sound`: `add(x, y)` for operands of ANY two limb counts, from the constraints: limbs
of `x`, `y` within their tracked bounds (the invariant), native limb-wise sums, then what
`normalize` enforces on an arbitrary assignment (`AddSat`). The result is normalised, within its
recorded bounds, and represents `x + y`. -/
theorem big_add_sound (p lb numBits : Nat) (hp : 2 ^ (numBits - 1) ≤ p) (hlb : lb < numBits)
    (x y z : BVar) (hx : limbsWithin x.limbs x.sb) (hy : limbsWithin y.limbs y.sb)
    (h : AddSat p lb numBits x y z) :
    limbsWithin z.limbs z.sb ∧ isNormalized lb z.sb = true ∧ (∀ l ∈ z.limbs, l < 2 ^ lb) ∧
      bigValue lb z.limbs = bigValue lb x.limbs + bigValue lb y.limbs :=
  addSat_sound p lb numBits hp hlb x y z hx hy h

/-- Non-vacuity: a 1-limb `x` and a 2-limb `y` (the branch `y` wider), already-normalised sum. -/
example : AddSat 101 4 7 ⟨[3], [2]⟩ ⟨[4, 1], [3, 1]⟩ ⟨[7, 1], [4, 1]⟩ := by
  left; decide

/-- The tracked bounds of a limb-wise sum never under-approximate, for any two limb counts. -/
theorem big_add_bounds_sound (xs bx ys bY : List Nat) (hx : limbsWithin xs bx)
    (hy : limbsWithin ys bY) :
    limbsWithin (Big.zipAddLimbs xs ys) (Big.zipAddBounds bx bY) :=
  limbsWithin_zipAdd xs bx ys bY hx hy

/-- `mul_accum_within_bounds`: the accumulation loop of `mul` in the order of the code
(`limbs[i+j] += xᵢ·yⱼ`, `bound[i+j] = bound_of_addition(bound[i+j], bxᵢ + byⱼ)`): the product limbs
lie within the bounds the gadget tracks for them (so the bit lengths `normalize` then emits are
those of real bounds) and represent the product — for all limb counts. -/
theorem mul_accum_within_bounds (lb : Nat) (x y : BVar) (hx : limbsWithin x.limbs x.sb)
    (hy : limbsWithin y.limbs y.sb) (hne : x.limbs ≠ [] → y.limbs ≠ []) :
    limbsWithin (Big.mulAccum x y).1 (Big.mulAccum x y).2 ∧
      bigValue lb (Big.mulAccum x y).1 = bigValue lb x.limbs * bigValue lb y.limbs :=
  mulAccum_spec lb x y hx hy hne

/-- The fold agrees with the schoolbook recursion and the imperative bound loop (sample; the
driver re-checks the agreement on every `mul` of the correspondence). -/
example : Big.mulFormsAgree ⟨[3, 2], [2, 2]⟩ ⟨[5, 7, 1], [3, 3, 1]⟩ = true ∧
    Big.mulAccum ⟨[3, 2], [2, 2]⟩ ⟨[5, 7, 1], [3, 3, 1]⟩ = ([15, 31, 17, 2], [5, 6, 6, 3]) := by
  decide

/-- `big_mul_sound_from_constraints`: `mul(x, y)` — both operands normalised, accumulation loop,
`normalize` — on an arbitrary assignment of every carry chain involved. -/
theorem big_mul_sound_from_constraints (p lb numBits : Nat) (hp : 2 ^ (numBits - 1) ≤ p)
    (hlb : lb < numBits) (x y z : BVar) (hx : limbsWithin x.limbs x.sb)
    (hy : limbsWithin y.limbs y.sb) (h : MulSat p lb numBits x y z) :
    limbsWithin z.limbs z.sb ∧ isNormalized lb z.sb = true ∧ (∀ l ∈ z.limbs, l < 2 ^ lb) ∧
      bigValue lb z.limbs = bigValue lb x.limbs * bigValue lb y.limbs :=
  mulSat_sound p lb numBits hp hlb x y z hx hy h

/-- `big_sub_sound_from_constraints`: `res` prover-chosen with the range checks of
`assign_bounded(·, x.nb_bits())` as emitted (`Big.boundedSb`), `res + y` normalised on an arbitrary
assignment, asserted equal to `x`: `res = x - y` and `y ≤ x` (underflow ⇒ unsatisfiable). -/
theorem big_sub_sound_from_constraints (p lb numBits : Nat) (hp : 2 ^ (numBits - 1) ≤ p)
    (hlb : lb < numBits) (x y res : BVar) (hy : limbsWithin y.limbs y.sb)
    (h : SubSat p lb numBits x y res) :
    bigValue lb res.limbs = bigValue lb x.limbs - bigValue lb y.limbs ∧
      bigValue lb y.limbs ≤ bigValue lb x.limbs :=
  subSat_sound p lb numBits hp hlb x y res hy h

/-- `big_div_rem_sound_from_constraints`: `q`, `r` prover-chosen with the emitted range checks;
`q·y` (`MulSat`), `+ r` (`AddSat`), equal to `x`, `r < y`: quotient and remainder are pinned, on
every assignment of every cell involved. -/
theorem big_div_rem_sound_from_constraints (p lb numBits : Nat) (hp : 2 ^ (numBits - 1) ≤ p)
    (hlb : lb < numBits) (x y q r : BVar) (hy : limbsWithin y.limbs y.sb)
    (h : DivRemSat p lb numBits x y q r) :
    bigValue lb q.limbs = bigValue lb x.limbs / bigValue lb y.limbs ∧
      bigValue lb r.limbs = bigValue lb x.limbs % bigValue lb y.limbs :=
  divRemSat_sound p lb numBits hp hlb x y q r hy h

/-- `mod_mul_sound_from_constraints`: `mod_mul(x, y, m) = r` (`mul` then `div_rem` by `m`): the
result is `x·y mod m`, reduced, and within its recorded bounds. -/
theorem mod_mul_sound_from_constraints (p lb numBits : Nat) (hp : 2 ^ (numBits - 1) ≤ p)
    (hlb : lb < numBits) (x y m r : BVar) (hx : limbsWithin x.limbs x.sb)
    (hy : limbsWithin y.limbs y.sb) (hm : limbsWithin m.limbs m.sb)
    (h : ModMulSat p lb numBits x y m r) :
    limbsWithin r.limbs r.sb ∧
    bigValue lb r.limbs = (bigValue lb x.limbs * bigValue lb y.limbs) % bigValue lb m.limbs ∧
      bigValue lb r.limbs < bigValue lb m.limbs :=
  modMulSat_sound p lb numBits hp hlb x y m r hx hy hm h

/-- The native field of the BigUint gadget's deployments has `2^(NUM_BITS-1) ≤ p` and
`LOG2_BASE < NUM_BITS` (side conditions of the theorems above, on the generated constants). -/
theorem big_side_conditions :
    (2 : Int) ^ (bitsNat Gen.secpBase_over_blsScalar.p.natAbs - 1) ≤ Gen.secpBase_over_blsScalar.p ∧
      Gen.bigLog2Base < bitsNat Gen.secpBase_over_blsScalar.p.natAbs := by
  decide +kernel

/-! ## Modular exponentiation: induction over the square-and-multiply chain -/

/-- `mod_exp_loop_invariant`: for EVERY exponent, EVERY fuel that covers its bits and EVERY
assignment of the intermediate `mod_mul` results that satisfies their constraints (`MM a b r`
implies `r = a·b mod m` and `r < m`: `mod_mul_sound_from_constraints`), a loop state
`(n, tmp, res)` returns `out ≡ res·tmp^n (mod m)`; and `out < m` once `tmp` and `res` are reduced. -/
theorem mod_exp_loop_invariant (MM : Nat → Nat → Nat → Prop) (m : Nat)
    (hMM : ∀ a b r, MM a b r → r = a * b % m ∧ r < m)
    (fuel n tmp : Nat) (res : Option Nat) (out : Nat) (hn : n < 2 ^ fuel) (hpos : 0 < n)
    (h : ModExpLoopSat MM fuel n tmp res out) :
    out % m = (accVal res * tmp ^ n) % m ∧
      (tmp < m → (∀ a, res = some a → a < m) → out < m) :=
  modExpLoopSat_spec MM m hMM fuel n tmp res out hn hpos h

/-- `mod_exp_sound_end_to_end` (exponents `n ≥ 2`: the loop of `mod_exp`, started as the code
does with `tmp = x`, `res = None`): for every exponent, every limb count and every assignment of
the `mod_mul` results satisfying their constraints, the returned value is `x^n mod m`, reduced.
(The first iteration always squares — `n / 2 > 0` — so `tmp` is reduced from the second iteration
on; the first set bit copies `tmp`.) -/
theorem mod_exp_sound_end_to_end (MM : Nat → Nat → Nat → Prop) (m : Nat)
    (hMM : ∀ a b r, MM a b r → r = a * b % m ∧ r < m)
    (fuel n x out : Nat) (hn : n < 2 ^ fuel) (h2 : 2 ≤ n)
    (h : ModExpLoopSat MM fuel n x none out) : out = x ^ n % m := by
  cases fuel with
  | zero => simp at hn; omega
  | succ fuel =>
    unfold ModExpLoopSat at h
    rw [if_neg (by omega)] at h
    obtain ⟨res', hres, hnext⟩ := h
    rw [if_pos (by omega)] at hnext
    obtain ⟨t, ht, hrec⟩ := hnext
    obtain ⟨et, hlt⟩ := hMM _ _ _ ht
    have hn2 : n / 2 < 2 ^ fuel := by rw [Nat.pow_succ] at hn; omega
    obtain ⟨i1, i2⟩ := modExpLoopSat_spec MM m hMM fuel (n / 2) t res' out hn2 (by omega) hrec
    -- the accumulator after the first iteration: `x` (unreduced) or nothing
    have hacc : accVal res' = x ^ (n % 2) ∧ (∀ a, res' = some a → n % 2 = 1 ∧ a = x) := by
      by_cases hodd : n % 2 = 1
      · rw [if_pos hodd] at hres
        simp only at hres
        subst hres
        exact ⟨by simp [accVal, hodd], fun a ha => ⟨hodd, by cases ha; rfl⟩⟩
      · rw [if_neg hodd] at hres
        subst hres
        have : n % 2 = 0 := by omega
        exact ⟨by simp [accVal, this], fun a ha => by cases ha⟩
    have hval : out % m = x ^ n % m := by
      rw [i1, hacc.1, pow_split x n, et]
      calc (x ^ (n % 2) * (x * x % m) ^ (n / 2)) % m
          = ((x ^ (n % 2) % m) * ((x * x % m) ^ (n / 2) % m)) % m := by rw [Nat.mul_mod]
        _ = ((x ^ (n % 2) % m) * ((x * x) ^ (n / 2) % m)) % m := by
            rw [Nat.pow_mod (x * x % m), Nat.mod_mod, ← Nat.pow_mod]
        _ = (x ^ (n % 2) * (x * x) ^ (n / 2)) % m := by rw [← Nat.mul_mod]
    -- `out` is reduced: the reduced `tmp`, or the result of a `mod_mul`
    suffices hout : out < m by rw [← hval, Nat.mod_eq_of_lt hout]
    cases hr : res' with
    | none => exact i2 hlt (fun a ha => by rw [hr] at ha; cases ha)
    | some a =>
      rw [hr] at hrec
      exact modExpLoopSat_some_reduced MM m hMM fuel (n / 2) t a out hn2 (by omega) hrec

example : (5 : Nat) ^ 3 % 7 = 6 := by decide

/-- Exponents 0 and 1 (`div_rem(1, m)` / `div_rem(x, m)`, the repaired shortcuts) and the general
case together: `mod_exp(x, n, m) = x^n mod m` for EVERY exponent, from the constraints of
`div_rem` / `mod_mul` on arbitrary assignments. `r0`, `r1` are the remainders of the two shortcut
divisions (pinned by `big_div_rem_sound_from_constraints`). -/
theorem mod_exp_all_exponents (MM : Nat → Nat → Nat → Prop) (m : Nat)
    (hMM : ∀ a b r, MM a b r → r = a * b % m ∧ r < m) (fuel n x out : Nat) (hn : n < 2 ^ fuel)
    (h : (n = 0 ∧ out = 1 % m) ∨ (n = 1 ∧ out = x % m) ∨
      (2 ≤ n ∧ ModExpLoopSat MM fuel n x none out)) :
    out = x ^ n % m := by
  rcases h with ⟨rfl, rfl⟩ | ⟨rfl, rfl⟩ | ⟨h2, h⟩
  · simp
  · simp
  · exact mod_exp_sound_end_to_end MM m hMM fuel n x out hn h2 h

/-- `mod_exp_complete`: the honest intermediate results (`modExpLoopVal`: the values the model's
`Big.modExpLoop` computes) satisfy the loop's constraints whenever every honest `mod_mul` does, and
the honest result is `x^n mod m` (for a modulus `m ≥ 1`... any `m`: `% 0` is the identity). -/
theorem mod_exp_complete (MM : Nat → Nat → Nat → Prop) (m : Nat)
    (hMM : ∀ a b, MM a b (a * b % m)) (fuel n x out : Nat)
    (h : Big.modExpLoopVal m fuel n x none = some out) : ModExpLoopSat MM fuel n x none out :=
  modExpLoopSat_honest MM m hMM fuel n x none out h

example : Big.modExpLoopVal 7 4 3 5 none = some 6 ∧ Big.modExpLoopVal 1000 5 10 2 none = some 24 := by
  decide

/-- Non-vacuity of `mod_exp_sound_end_to_end`: its hypotheses are jointly satisfiable (`5^3 mod 7`
with the honest `mod_mul` relation), and the fuel the model uses (`bits(n) + 1`) covers `n`. -/
example : ModExpLoopSat (fun a b r => r = a * b % 7) 4 3 5 none 6 :=
  mod_exp_complete (fun a b r => r = a * b % 7) 7 (fun _ _ => rfl) 4 3 5 6 (by decide)

theorem mod_exp_fuel_suffices (n : Nat) : n < 2 ^ (natBits n + 1) :=
  lt_of_lt_of_le (natBits_spec n) (Nat.pow_le_pow_right (by decide) (Nat.le_succ _))

/-- `mod_exp_limb_level`: the two previous theorems instantiated with the LIMB-LEVEL constraint
system of `mod_mul` (`MMc`: operands within their tracked bounds, every `normalize` carry chain
and every `assign_bounded` witness prover-chosen with the range checks as emitted): `mod_exp`
returns `x^n mod m` for every exponent `n ≥ 2`, every limb count of `x` and `m`. -/
theorem mod_exp_limb_level (p lb numBits : Nat) (hp : 2 ^ (numBits - 1) ≤ p) (hlb : lb < numBits)
    (m : BVar) (hm : limbsWithin m.limbs m.sb) (fuel n x out : Nat) (hn : n < 2 ^ fuel)
    (h2 : 2 ≤ n) (h : ModExpLoopSat (MMc p lb numBits m) fuel n x none out) :
    out = x ^ n % bigValue lb m.limbs :=
  mod_exp_sound_end_to_end _ _ (mmc_sound p lb numBits hp hlb m hm) fuel n x out hn h2 h


/-! ## Bit conversions of emulated elements (`assigned_to_le_bits`, and `assigned_to_le_bytes` /
`assigned_to_le_chunks` built on it): `x + 1` is normalised (`normalize_sound_end_to_end`, or
`make_canonical` = `norm_sound_end_to_end`), each limb is decomposed natively against its
well-formed width (events `D` of the trace), surplus bits are asserted zero, and — when
`enforce_canonical` — the bit vector is asserted `< m` (`is_canonical`) -/

/-- `limb_bits_value`: on ANY assignment of the bit cells satisfying the native decompositions
(limb `i` ↦ exactly `wf[i]` bits recomposing to it), the concatenated bits are the binary expansion
of the limb integer `Σ 2^(L·i)·zᵢ`, for the widths `[L, …, L, msl]` of `well_formed_log2_bounds`. -/
theorem limb_bits_value (L msl n : Nat) (zs : List Int) (bs : List (List Bool))
    (h : DecompOk (List.replicate n L ++ [msl]) zs bs) :
    ChipCfg.bitsValue bs.flatten = limbsValue L zs ∧ bs.flatten.length = L * n + msl :=
  decomp_flatten_value L msl n zs bs h

/-- `to_le_bits_sound_end_to_end`: let `zs` be the limbs returned by the normalisation of `x + 1`
(so `1 + Σ zs ≡ V + 1 (mod m)` for the emulated value `V` of `x`), `bs` ANY bit assignment
satisfying the native decompositions, `kept` the returned bits and `dropped` the surplus ones
(asserted zero; `pad` constant zero bits when more bits are requested than the limbs hold). Then
the returned bits are the binary expansion of an integer `B` with `B ≡ V (mod m)` and
`0 ≤ B < 2^#kept` — SOME representative of the residue; and if the canonicity assertion
`B < m` holds (`enforce_canonical`), `B = V mod m`: the bits of THE CANONICAL representative.
A prover cannot obtain the bits of another residue, nor (when canonical) of `V + m`. -/
theorem to_le_bits_sound_end_to_end (L msl n pad : Nat) (m V : Int) (zs : List Int)
    (bs : List (List Bool)) (kept dropped : List Bool)
    (hd : DecompOk (List.replicate n L ++ [msl]) zs bs)
    (hres : (1 + limbsValue L zs) % m = (V + 1) % m)
    (hsplit : kept ++ dropped = bs.flatten ++ List.replicate pad false)
    (hdrop : dropped.all (fun x => !x) = true) :
    ChipCfg.bitsValue kept = limbsValue L zs ∧ ChipCfg.bitsValue kept % m = V % m ∧
      0 ≤ ChipCfg.bitsValue kept ∧ ChipCfg.bitsValue kept < 2 ^ kept.length ∧
      (ChipCfg.bitsValue kept < m → ChipCfg.bitsValue kept = V % m) := by
  have hv := (decomp_flatten_value L msl n zs bs hd).1
  have e := congrArg ChipCfg.bitsValue hsplit
  rw [bitsValue_append, bitsValue_append, bitsValue_all_false _ hdrop, bitsValue_replicate_false,
    hv] at e
  have hk : ChipCfg.bitsValue kept = limbsValue L zs := by simpa using e
  have hmod : limbsValue L zs % m = V % m := by
    have h1 := Int.emod_emod_of_dvd (1 + limbsValue L zs - (V + 1)) (dvd_refl m)
    have h2 : (1 + limbsValue L zs - (V + 1)) % m = 0 :=
      Int.emod_eq_emod_iff_emod_sub_eq_zero.mp hres
    have e2 : 1 + limbsValue L zs - (V + 1) = limbsValue L zs - V := by ring
    rw [e2] at h2
    exact Int.emod_eq_emod_iff_emod_sub_eq_zero.mpr h2
  refine ⟨hk, by rw [hk]; exact hmod, bitsValue_nonneg _, bitsValue_lt _, fun hlt => ?_⟩
  have h0 := bitsValue_nonneg kept
  rw [← hmod, ← hk, Int.emod_eq_of_lt h0 hlt]

/-- Non-vacuity: `m = 11`, widths `[2, 2]`, `V = 6`: limbs `[2, 1]` (`1 + 6 = 7 = V + 1`),
bits `01 10`. -/
example : DecompOk (List.replicate 1 2 ++ [2]) [2, 1] [[false, true], [true, false]] ∧
    (1 + limbsValue 2 [2, 1]) % 11 = ((6 : Int) + 1) % 11 := by
  refine ⟨?_, by decide⟩
  simp [DecompOk, ChipCfg.bitsValue]

/-- `to_le_bits_respects_residue`: two representations of ONE residue (two elements `x`, `x'` with
the same emulated value `V`, whatever their limbs — well-formed or lazily added chains —, and
whatever well-formed vectors `zs`, `zs'` the prover puts in the two normalisations) give THE SAME
canonical bits; conversely equal canonical bits of the same length come from the same residue. -/
theorem to_le_bits_respects_residue (L msl n pad pad' : Nat) (m V V' : Int) (zs zs' : List Int)
    (bs bs' : List (List Bool)) (kept dropped kept' dropped' : List Bool)
    (hd : DecompOk (List.replicate n L ++ [msl]) zs bs)
    (hd' : DecompOk (List.replicate n L ++ [msl]) zs' bs')
    (hres : (1 + limbsValue L zs) % m = (V + 1) % m)
    (hres' : (1 + limbsValue L zs') % m = (V' + 1) % m)
    (hsplit : kept ++ dropped = bs.flatten ++ List.replicate pad false)
    (hsplit' : kept' ++ dropped' = bs'.flatten ++ List.replicate pad' false)
    (hdrop : dropped.all (fun x => !x) = true) (hdrop' : dropped'.all (fun x => !x) = true)
    (hcan : ChipCfg.bitsValue kept < m) (hcan' : ChipCfg.bitsValue kept' < m)
    (hlen : kept.length = kept'.length) :
    kept = kept' ↔ V % m = V' % m := by
  have a := (to_le_bits_sound_end_to_end L msl n pad m V zs bs kept dropped hd hres hsplit hdrop).2.2.2.2 hcan
  have b := (to_le_bits_sound_end_to_end L msl n pad' m V' zs' bs' kept' dropped' hd' hres' hsplit'
    hdrop').2.2.2.2 hcan'
  constructor
  · intro h; rw [← a, ← b, h]
  · intro h; exact bitsValue_inj kept kept' hlen (by rw [a, b, h])

/-- `to_le_bits_complete`: the honest bits of limbs within the well-formed widths satisfy the
native decomposition constraints (and `toBits` is what the model's `toLeBits` prints). -/
theorem to_le_bits_complete (ks : List Nat) (zs : List Int) (h : bitsOk ks zs) :
    DecompOk ks zs ((zs.zip ks).map (fun t => (ChipCfg.toBits t.2 t.1).1)) :=
  decompOk_honest ks zs h

/-- `to_le_bytes_value` / chunks: the bytes of `assigned_to_le_bytes` (each byte the native linear
combination `Σ 2^i·bitᵢ` of 8 consecutive returned bits) and the chunks of `assigned_to_le_chunks`
when the chunk width does not divide `LOG2_BASE` (same construction with `w` bits) are the
little-endian base-`2^w` digits of the SAME integer as the bits — hence, by
`to_le_bits_sound_end_to_end`, of the canonical representative (bytes: `enforce_canonical = true`)
or of some representative of the residue (chunks). For every bit vector and every width. -/
theorem to_le_chunks_value (w : Nat) (hw : 0 < w) (bits : List Bool) :
    limbsValue w ((ChipCfg.chunksOf (bits.length + 1) w bits).map ChipCfg.bitsValue) =
      ChipCfg.bitsValue bits :=
  chunks_value_aux w hw bits.length bits (Nat.le_refl _)

example : (ChipCfg.chunksOf 6 2 [true, false, true, true, true]).map ChipCfg.bitsValue = [1, 3, 1] ∧
    ChipCfg.bitsValue [true, false, true, true, true] = 29 := by decide

/-! ## `is_zero` / `is_equal` at the level of the chip: the split step mechanised -/

/-- `within` as a Boolean (for the kernel-checked facts about the compiled-in sets). -/
def withinB : List (Int × Int) → List Int → Bool
  | b :: bs, v :: vs => decide (b.1 ≤ v) && decide (v ≤ b.2) && withinB bs vs
  | [], [] => true
  | _, _ => false

theorem within_of_withinB : ∀ (bs : List (Int × Int)) (vs : List Int), withinB bs vs = true →
    within bs vs
  | [], [], _ => trivial
  | b :: bs, v :: vs, h => by
    simp only [withinB, Bool.and_eq_true, decide_eq_true_eq] at h
    exact ⟨⟨h.1.1, h.1.2⟩, within_of_withinB bs vs h.2⟩
  | [], _ :: _, h => by simp [withinB] at h
  | _ :: _, [], h => by simp [withinB] at h

/-- `is_zero_sound_end_to_end` (`is_zero(d)`; `is_equal(x, y)` with `d = x - y` lazily subtracted,
`assert_non_zero`, `is_equal_to_fixed`): the chip normalises `d` (either branch of `normalize`, on
ANY assignment: `NormalizedBy`) and compares the returned limbs `zs` with `limbs_of_zero` cell by
cell. For a parameter set whose well-formed widths are `[L, …, L, msl]` with `msl ≤ L`,
`base^(n-1)·2^msl < 2m` and whose `limbs_of_zero` is within `well_formed_bounds` and represents `m`
(all kernel-checked for the compiled-in sets: `compiled_is_zero_hypotheses`), the comparison holds
IF AND ONLY IF `X ≡ Y (mod m)`, where `ds` (within the tracked bounds of `d`) represents `X - Y`.
The split of `within c.wfBounds zs` into low limbs and top limb — left unmechanised before — is
`within_split`. -/
theorem is_zero_sound_end_to_end (c : ChipCfg) (hc : ChipCfg.ofParams c.P = some c)
    (hm : 0 < c.P.m) (hmods : ∀ mj ∈ c.P.moduli, 0 < mj)
    (hwfL : ∀ k ∈ c.wfLog2, k ≤ c.P.log2Base) (hwn : c.wfLog2.length = c.P.nbLimbs)
    (msl : Nat) (hshape : c.wfLog2 = List.replicate (c.P.nbLimbs - 1) c.P.log2Base ++ [msl])
    (hk : msl ≤ c.P.log2Base)
    (h2m : (2 : Int) ^ (c.P.log2Base * (c.P.nbLimbs - 1) + msl) < 2 * c.P.m)
    (z0 : List Int) (hz0w : within c.wfBounds z0) (hz0 : 1 + limbsValue c.P.log2Base z0 = c.P.m)
    (d : FVar) (ds zs : List Int) (X Y : Int) (hn : d.bounds.length = c.P.nbLimbs)
    (hd : within d.bounds ds)
    (hres : (1 + limbsValue c.P.log2Base ds) % c.P.m = (X - Y) % c.P.m)
    (h : NormalizedBy c d ds zs) :
    zs = z0 ↔ X % c.P.m = Y % c.P.m := by
  obtain ⟨hv, hw⟩ := normalize_sound_end_to_end c hc hm hmods hwfL hwn d ds zs hn hd h
  unfold ChipCfg.wfBounds at hw hz0w
  rw [hshape] at hw hz0w
  obtain ⟨lo, top, rfl, hl, hb, t0, t1⟩ := within_split msl _ zs hw
  obtain ⟨lo0, top0, rfl, hl0, hb0, s0, s1⟩ := within_split msl _ z0 hz0w
  simp only [List.length_replicate] at hl hl0
  exact is_equal_sound_end_to_end c.P.log2Base msl c.P.m X Y lo lo0 top top0 (by rw [hl, hl0]) hk
    (bitsOk_replicate _ _ lo hb) t0 t1 (bitsOk_replicate _ _ lo0 hb0) s0 s1
    (by rw [hl]; exact h2m) hz0 (by rw [← hv]; exact hres)

/-- The hypotheses of `is_zero_sound_end_to_end` about the parameter set, as a Boolean. -/
def isZeroHypOk (P : Params) : Bool :=
  match ChipCfg.ofParams P with
  | none => false
  | some c =>
    let msl := c.wfLog2.getLastD 0
    decide (c.wfLog2 = List.replicate (c.P.nbLimbs - 1) c.P.log2Base ++ [msl])
      && decide (msl ≤ c.P.log2Base)
      && decide ((2 : Int) ^ (c.P.log2Base * (c.P.nbLimbs - 1) + msl) < 2 * c.P.m)
      && withinB c.wfBounds c.limbsOfZero
      && decide (1 + limbsValue c.P.log2Base c.limbsOfZero = c.P.m)
      && decide (c.L = c.P.log2Base) && decide (c.n = c.P.nbLimbs)

/-- Every compiled-in parameter set satisfies the hypotheses of `is_zero_sound_end_to_end` with
`z0 = limbs_of_zero` (what `is_zero` compares against): the shape `[L, …, L, msl]` of the
well-formed widths (also the shape `limb_bits_value` needs), `msl ≤ L`, `base^(n-1)·2^msl < 2m`,
`limbs_of_zero` within `well_formed_bounds` and representing `m`. Re-evaluated by the kernel on
the constants parsed from `params.rs` on every run. -/
theorem compiled_is_zero_hypotheses : ∀ P ∈ Gen.paramSets, isZeroHypOk P = true := by
  decide +kernel

end MidnightZK.C05
