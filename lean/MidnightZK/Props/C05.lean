import MidnightZK.Proofs.C05.Crt
import MidnightZK.Proofs.C05.Gate
import MidnightZK.Gen.C05Params
/-!
# C05 — foreign-field and big-integer gadgets are complete and sound
Property theorems (helper lemmas live in `MidnightZK/Proofs/C05`).
-/
namespace MidnightZK.C05

/-! ## The CRT lift and the auxiliary-bounds function -/

/-- The number-theoretic heart of the emulation (DESIGN A.4): an integer that is divisible by the
native modulus `p` and by every auxiliary modulus in use, and whose absolute value is below their
lcm, is zero. -/
theorem crt_lift (p : Int) (ms : List Int) (D : Int)
    (hp : p ∣ D) (hms : ∀ m ∈ ms, m ∣ D) (hlt : |D| < ms.foldl lcmZ p) : D = 0 :=
  crt_zero p ms D hp hms hlt

example : (7 : Int) ∣ 0 ∧ |(0 : Int)| < [(8 : Int), 9].foldl lcmZ 7 := by decide

/-- `get_identity_auxiliary_bounds` (util.rs) is sound for every argument tuple on which it
returns: let `(k_min, u_max)`, `[(lj_min, vj_max)]` be its result for native modulus `p`, emulated
modulus `m`, auxiliary moduli `moduli`, declared bounds `eb` of the integer expression and `mjb`
of the reduced expressions. Then for EVERY integer value `E` of the expression within `eb`, every
`u ∈ [0, u_max)`, and every per-modulus data (`WitOK`: reduced expression value within its declared
bounds and congruent to `E` modulo `mj`; `vj ∈ [0, vj_max)`; the identity
`expr_mj - u·(m % mj) - (k_min·m) % mj - (vj + lj_min)·mj = 0` holding modulo `p`), the native
identity `E - (u + k_min)·m = 0 (mod p)` forces `E = (u + k_min)·m` over the integers — in
particular `E ≡ 0 (mod m)`. The prover cannot choose `u`, `vj` so as to satisfy the identities for
an expression value that is not a multiple of `m`. -/
theorem aux_bounds_sound (p m : Int) (moduli : List Int) (eb : Int × Int)
    (mjb : List (Int × Int)) (r : AuxBounds)
    (hm : 0 < m) (hmods : ∀ mj ∈ moduli, 0 < mj) (hlen : moduli.length ≤ mjb.length)
    (hr : identityAuxBounds p m moduli eb mjb = .ok r)
    (E u : Int) (Es vjs : List Int)
    (hE0 : eb.1 ≤ E) (hE1 : E ≤ eb.2) (hu0 : 0 ≤ u) (hu1 : u < r.uMax)
    (hnat : p ∣ E - (u + r.kMin) * m)
    (hw : WitOK p m r.kMin u E moduli mjb r.vs Es vjs) :
    E = (u + r.kMin) * m ∧ m ∣ E := by
  have h := identityAuxBounds_sound p m moduli eb mjb r hm hmods hlen hr E u Es vjs
    hE0 hE1 hu0 hu1 hnat hw
  exact ⟨h, ⟨u + r.kMin, by rw [h]; ring⟩⟩

/-- Non-vacuity: a small instance (p = 499, m = 9, one auxiliary modulus 8, needed because
`p ≤ 581`) on which the function returns. -/
example : identityAuxBounds 499 9 [8] (-5, 400) [(-5, 60)] = .ok ⟨0, 64, [(-8, 16)]⟩ := by
  decide +kernel

/-- `bounds_honest_in_range`, integer part (completeness): whenever the function returns, for
every expression value within the declared bounds that IS a multiple of `m`, the quotient computed
by `compute_u` lies in `[0, u_max)` and satisfies the identity exactly. The `debug_assert`s of
`compute_u` never fire and the range check on `u` is satisfiable for the honest prover. -/
theorem bounds_honest_in_range (p m : Int) (moduli : List Int) (eb : Int × Int)
    (mjb : List (Int × Int)) (r : AuxBounds) (hm : 0 < m)
    (hr : identityAuxBounds p m moduli eb mjb = .ok r)
    (E : Int) (hE0 : eb.1 ≤ E) (hE1 : E ≤ eb.2) (hdvd : m ∣ E) :
    0 ≤ computeU m E r.kMin ∧ computeU m E r.kMin < r.uMax ∧
      E = (computeU m E r.kMin + r.kMin) * m :=
  computeU_in_range p m moduli eb mjb r hm hr E hE0 hE1 hdvd

example : computeU 9 0 0 = 0 ∧ computeU 9 396 0 = 44 := by decide

/-- `bounds_honest_in_range`, per auxiliary modulus (completeness): if the per-modulus bound
computation accepted (`vBound`: the closure of `get_identity_auxiliary_bounds`), then for every
`u ∈ [0, u_max]` and every reduced expression value within its declared bounds for which the
left-hand side is a multiple of `mj`, the `vj` computed by `compute_vj` lies in `[0, vj_max)` and
satisfies the identity over the integers. -/
theorem bounds_honest_in_range_vj (p m kMin uMax mj eMin eMax ljMin vjMax u Ej : Int)
    (hmj : 0 < mj)
    (hb : vBound p m kMin uMax mj eMin eMax = .ok (ljMin, vjMax))
    (hu0 : 0 ≤ u) (hu1 : u ≤ uMax) (hE0 : eMin ≤ Ej) (hE1 : Ej ≤ eMax)
    (hdvd : mj ∣ Ej - u * urem m mj - urem (kMin * m) mj) :
    0 ≤ computeVj m mj Ej u kMin ljMin ∧ computeVj m mj Ej u kMin ljMin < vjMax ∧
      Ej - u * urem m mj - urem (kMin * m) mj - (computeVj m mj Ej u kMin ljMin + ljMin) * mj = 0 :=
  vBound_complete p m kMin uMax mj eMin eMax ljMin vjMax u Ej hmj hb hu0 hu1 hE0 hE1 hdvd

example : vBound 499 9 0 64 8 (-5) 60 = .ok (-8, 16) := by decide +kernel

/-! ## The two custom gates -/

/-- `mul_gate_sound` (gates/mul.rs): for EVERY parameter set (positive emulated modulus and
auxiliary moduli) on which `MulConfig::bounds` returns `b`, every assignment of the two gate rows
with limbs of `x`, `y`, `z` in `[0, base)`, `u ∈ [0, u_max)`, `vj ∈ [0, vj_max)` (the range checks
of `assert_mul` and of the operands' well-formedness) that satisfies all identities of the gate in
the native field represents a correct product: `x·y ≡ z (mod m)` for `x = 1 + Σ baseⁱ·xᵢ` etc.
A forged quotient `u`, forged `vj` or forged result limbs cannot satisfy the gate. -/
theorem mul_gate_sound (P : Params) (b : AuxBounds)
    (hm : 0 < P.m) (hmods : ∀ mj ∈ P.moduli, 0 < mj) (hb : P.mulBounds = .ok b)
    (xs ys zs : List Int) (u : Int) (vjs : List Int)
    (hxl : xs.length = P.nbLimbs) (hyl : ys.length = P.nbLimbs) (hzl : zs.length = P.nbLimbs)
    (hx : ∀ x ∈ xs, 0 ≤ x ∧ x < P.base) (hy : ∀ y ∈ ys, 0 ≤ y ∧ y < P.base)
    (hz : ∀ z ∈ zs, 0 ≤ z ∧ z < P.base)
    (hu : 0 ≤ u ∧ u < b.uMax) (hv : vjsInRange b.vs vjs = true)
    (hg : P.mulGateHolds b xs ys zs u vjs = true) :
    ((1 + limbsValue P.log2Base xs) * (1 + limbsValue P.log2Base ys)) % P.m =
      (1 + limbsValue P.log2Base zs) % P.m :=
  mul_gate_sound_aux P b hm hmods hb xs ys zs u vjs hxl hyl hzl hx hy hz hu hv hg

/-- `norm_gate_sound` (gates/norm.rs): for every parameter set on which `NormConfig::bounds`
returns `b`, every assignment of the gate rows with input limbs in `[-L, L]`
(`L = max_limb_bound`, asserted by `make_canonical` on the tracked bounds), output limbs in
`[0, base)`, `u`, `vj` in their ranges, that satisfies all identities of the gate in the native
field has input and output representing the same residue modulo `m`. -/
theorem norm_gate_sound (P : Params) (b : AuxBounds)
    (hm : 0 < P.m) (hmods : ∀ mj ∈ P.moduli, 0 < mj) (hb : P.normBounds = .ok b)
    (xs zs : List Int) (u : Int) (vjs : List Int)
    (hxl : xs.length = P.nbLimbs) (hzl : zs.length = P.nbLimbs)
    (hx : ∀ x ∈ xs, -P.maxLimbBound ≤ x ∧ x ≤ P.maxLimbBound)
    (hz : ∀ z ∈ zs, 0 ≤ z ∧ z < P.base)
    (hu : 0 ≤ u ∧ u < b.uMax) (hv : vjsInRange b.vs vjs = true)
    (hg : P.normGateHolds b xs zs u vjs = true) :
    (1 + limbsValue P.log2Base xs) % P.m = (1 + limbsValue P.log2Base zs) % P.m :=
  norm_gate_sound_aux P b hm hmods hb xs zs u vjs hxl hzl hx hz hu hv hg

/-! ## The compiled-in parameter sets (generated from params.rs on every run) -/

def isOk {α : Type} : Except String α → Bool
  | .ok _ => true
  | .error _ => false

/-- Side conditions of one parameter set: positive moduli, `check_params`, both bounds
computations succeed, the gate layouts fit (`1 + #moduli ≤ NB_LIMBS` columns for `u, v…`), the
well-formed bound of the most significant limb exists. -/
def setOk (P : Params) : Bool :=
  decide (0 < P.p) && decide (1 < P.m) && P.moduli.all (fun mj => decide (0 < mj))
    && P.checkParams && isOk P.mulBounds && isOk P.normBounds
    && decide (1 + P.moduli.length ≤ P.nbLimbs) && P.wellFormedLog2Bounds.isSome

/-- Every compiled-in parameter set (secp256k1 base/scalar, BLS12-381 base, Curve25519
base/scalar over the BLS12-381 scalar field, and the sets over the BLS12-381 base field) passes
its configure-time checks: `check_params`, `MulConfig::bounds` and `NormConfig::bounds` return
(no lcm-threshold or wrap-around panic). Re-evaluated by the kernel on the constants parsed from
`params.rs` on every run: removing an auxiliary modulus, shrinking it or enlarging `LOG2_BASE`
breaks this theorem. -/
theorem compiled_sets_configure : ∀ P ∈ Gen.paramSets, setOk P = true := by decide +kernel

example : Gen.paramSets.length = 8 := by decide

private theorem isOk_exists {α : Type} (r : Except String α) (h : isOk r = true) : ∃ b, r = .ok b := by
  cases r with
  | ok b => exact ⟨b, rfl⟩
  | error e => simp [isOk] at h

/-- Instantiation: for each compiled-in parameter set the multiplication gate is sound with the
bounds that `configure` computes. -/
theorem compiled_mul_gate_sound : ∀ P ∈ Gen.paramSets, ∃ b, P.mulBounds = .ok b ∧
    ∀ (xs ys zs : List Int) (u : Int) (vjs : List Int),
    xs.length = P.nbLimbs → ys.length = P.nbLimbs → zs.length = P.nbLimbs →
    (∀ x ∈ xs, 0 ≤ x ∧ x < P.base) → (∀ y ∈ ys, 0 ≤ y ∧ y < P.base) →
    (∀ z ∈ zs, 0 ≤ z ∧ z < P.base) → (0 ≤ u ∧ u < b.uMax) → vjsInRange b.vs vjs = true →
    P.mulGateHolds b xs ys zs u vjs = true →
    ((1 + limbsValue P.log2Base xs) * (1 + limbsValue P.log2Base ys)) % P.m =
      (1 + limbsValue P.log2Base zs) % P.m := by
  intro P hP
  have h := compiled_sets_configure P hP
  simp only [setOk, Bool.and_eq_true, decide_eq_true_eq, List.all_eq_true] at h
  obtain ⟨⟨⟨⟨⟨⟨⟨_, hm⟩, hmods⟩, _⟩, hmul⟩, _⟩, _⟩, _⟩ := h
  obtain ⟨b, hb⟩ := isOk_exists _ hmul
  exact ⟨b, hb, fun xs ys zs u vjs h1 h2 h3 h4 h5 h6 h7 h8 h9 =>
    mul_gate_sound P b (by omega) (fun mj hmj => hmods mj hmj) hb xs ys zs u vjs
      h1 h2 h3 h4 h5 h6 h7 h8 h9⟩

/-- Instantiation: for each compiled-in parameter set the normalization gate is sound. -/
theorem compiled_norm_gate_sound : ∀ P ∈ Gen.paramSets, ∃ b, P.normBounds = .ok b ∧
    ∀ (xs zs : List Int) (u : Int) (vjs : List Int),
    xs.length = P.nbLimbs → zs.length = P.nbLimbs →
    (∀ x ∈ xs, -P.maxLimbBound ≤ x ∧ x ≤ P.maxLimbBound) →
    (∀ z ∈ zs, 0 ≤ z ∧ z < P.base) → (0 ≤ u ∧ u < b.uMax) → vjsInRange b.vs vjs = true →
    P.normGateHolds b xs zs u vjs = true →
    (1 + limbsValue P.log2Base xs) % P.m = (1 + limbsValue P.log2Base zs) % P.m := by
  intro P hP
  have h := compiled_sets_configure P hP
  simp only [setOk, Bool.and_eq_true, decide_eq_true_eq, List.all_eq_true] at h
  obtain ⟨⟨⟨⟨⟨⟨⟨_, hm⟩, hmods⟩, _⟩, _⟩, hnorm⟩, _⟩, _⟩ := h
  obtain ⟨b, hb⟩ := isOk_exists _ hnorm
  exact ⟨b, hb, fun xs zs u vjs h1 h2 h3 h4 h5 h6 h7 =>
    norm_gate_sound P b (by omega) (fun mj hmj => hmods mj hmj) hb xs zs u vjs
      h1 h2 h3 h4 h5 h6 h7⟩

end MidnightZK.C05
